(* Proofs about Model/ToastTerm.v: routes agree, vertex lattice, boundary gluing,
   subsample = centres, homomorphic images, lookup selection/nesting/level-1.  No reals here. *)
From Coq Require Import List NArith ZArith Arith Bool Lia.
Ltac Zify.zify_post_hook ::= Z.to_euclidean_division_equations.
From Toasty Require Import Model.Quadtree Model.ToastTerm.
Import ListNotations.
Local Open Scope N_scope.

Lemma bit_cases b : b < 2 -> b = 0 \/ b = 1.
Proof. lia. Qed.

Section GenP.
  Variable P : Type.
  Variable base : N -> P.
  Variable mid : P -> P -> P.
  Notation gt := (gtile P).
  Notation div4 := (div4 mid). Notation child := (child mid).
  Notation tile_at1 := (tile_at1 base mid). Notation tile_at := (tile_at base mid).
  Notation level1 := (level1 base).


  Definition ce_of (t : gt) : P := if incr t then mid (c_ll t) (c_ur t) else mid (c_ul t) (c_lr t).

  Lemma child_00 t : child t 0 0 =
    mkT (mkPos (S (pn (tpos t))) (2 * px (tpos t)) (2 * py (tpos t)))
        (c_ul t) (mid (c_ul t) (c_ur t)) (ce_of t) (mid (c_ll t) (c_ul t)) (incr t).
  Proof. reflexivity. Qed.
  Lemma child_10 t : child t 1 0 =
    mkT (mkPos (S (pn (tpos t))) (2 * px (tpos t) + 1) (2 * py (tpos t)))
        (mid (c_ul t) (c_ur t)) (c_ur t) (mid (c_ur t) (c_lr t)) (ce_of t) (incr t).
  Proof. reflexivity. Qed.
  Lemma child_01 t : child t 0 1 =
    mkT (mkPos (S (pn (tpos t))) (2 * px (tpos t)) (2 * py (tpos t) + 1))
        (mid (c_ll t) (c_ul t)) (ce_of t) (mid (c_lr t) (c_ll t)) (c_ll t) (incr t).
  Proof. reflexivity. Qed.
  Lemma child_11 t : child t 1 1 =
    mkT (mkPos (S (pn (tpos t))) (2 * px (tpos t) + 1) (2 * py (tpos t) + 1))
        (ce_of t) (mid (c_ur t) (c_lr t)) (c_lr t) (mid (c_lr t) (c_ll t)) (incr t).
  Proof. reflexivity. Qed.

  Lemma div4_children t : div4 t = [child t 0 0; child t 1 0; child t 0 1; child t 1 1].
  Proof. reflexivity. Qed.

  Lemma child_pos t ix iy : ix < 2 -> iy < 2 ->
    tpos (child t ix iy) = mkPos (S (pn (tpos t))) (2 * px (tpos t) + ix) (2 * py (tpos t) + iy).
  Proof.
    intros Hx Hy. destruct (bit_cases _ Hx) as [-> | ->], (bit_cases _ Hy) as [-> | ->].
    - rewrite child_00. cbn [tpos]. f_equal; lia.
    - rewrite child_01. cbn [tpos]. f_equal; lia.
    - rewrite child_10. cbn [tpos]. f_equal; lia.
    - rewrite child_11. cbn [tpos]. f_equal; lia.
  Qed.

  Lemma child_incr t ix iy : ix < 2 -> iy < 2 -> incr (child t ix iy) = incr t.
  Proof.
    intros Hx Hy. destruct (bit_cases _ Hx) as [-> | ->], (bit_cases _ Hy) as [-> | ->]; reflexivity.
  Qed.

  Lemma child_in t ix iy : ix < 2 -> iy < 2 -> In (child t ix iy) (div4 t).
  Proof.
    intros Hx Hy. rewrite div4_children.
    destruct (bit_cases _ Hx) as [-> | ->], (bit_cases _ Hy) as [-> | ->]; cbn [In]; auto.
  Qed.

  Lemma in_div4 t c : In c (div4 t) -> exists ix iy, ix < 2 /\ iy < 2 /\ c = child t ix iy.
  Proof.
    rewrite div4_children. cbn [In].
    intros [<-|[<-|[<-|[<-|[]]]]]; [exists 0, 0|exists 1, 0|exists 0, 1|exists 1, 1]; repeat split; lia.
  Qed.

  (* level-1 *)
  Lemma level1_pos cs x y : x < 2 -> y < 2 -> tpos (tile_at1 cs 0 x y) = mkPos 1 x y.
  Proof.
    intros Hx Hy. destruct (bit_cases _ Hx) as [-> | ->], (bit_cases _ Hy) as [-> | ->]; reflexivity.
  Qed.

  Lemma tile_at1_pos cs m : forall x y, x < 2 ^ N.of_nat (S m) -> y < 2 ^ N.of_nat (S m) ->
    tpos (tile_at1 cs m x y) = mkPos (S m) x y.
  Proof.
    induction m as [|m IH]; intros x y Hx Hy.
    - apply level1_pos; change (2 ^ N.of_nat 1) with 2 in *; assumption.
    - cbn [ToastTerm.tile_at1].
      rewrite Nat2N.inj_succ, N.pow_succ_r' in Hx, Hy.
      rewrite child_pos by (apply N.mod_lt; lia).
      rewrite IH by (apply N.div_lt_upper_bound; lia).
      cbn [pn px py]. f_equal; lia.
  Qed.
End GenP.
Section GenP2.
  Variable P : Type.
  Variable base : N -> P.
  Variable mid : P -> P -> P.
  Notation gt := (gtile P).
  Notation div4 := (div4 mid). Notation child := (child mid).
  Notation tile_at1 := (tile_at1 base mid). Notation tile_at := (tile_at base mid).
  Notation level1 := (level1 base).

  Lemma tile_at1_child cs m x y ix iy : ix < 2 -> iy < 2 ->
    tile_at1 cs (S m) (2 * x + ix) (2 * y + iy) = child (tile_at1 cs m x y) ix iy.
  Proof.
    intros Hx Hy. cbn [ToastTerm.tile_at1].
    replace ((2 * x + ix) / 2) with x by lia. replace ((2 * y + iy) / 2) with y by lia.
    replace ((2 * x + ix) mod 2) with ix by lia. replace ((2 * y + iy) mod 2) with iy by lia.
    reflexivity.
  Qed.

  Lemma nth_error_level1 cs ix iy : ix < 2 -> iy < 2 ->
    nth_error (level1 cs) (N.to_nat (iy * 2 + ix)) = Some (tile_at1 cs 0 ix iy).
  Proof.
    intros Hx Hy. destruct (bit_cases _ Hx) as [-> | ->], (bit_cases _ Hy) as [-> | ->]; reflexivity.
  Qed.

  Lemma nth_error_div4 t ix iy : ix < 2 -> iy < 2 ->
    nth_error (div4 t) (N.to_nat (iy * 2 + ix)) = Some (child t ix iy).
  Proof.
    intros Hx Hy. destruct (bit_cases _ Hx) as [-> | ->], (bit_cases _ Hy) as [-> | ->]; reflexivity.
  Qed.

  Lemma land1 a : N.land a 1 = a mod 2.
  Proof. change 1 with (N.ones 1) at 1. rewrite N.land_ones. reflexivity. Qed.

  Lemma shift_step a (k : nat) :
    2 * (a / 2 ^ N.of_nat (S k)) + (a / 2 ^ N.of_nat k) mod 2 = a / 2 ^ N.of_nat k.
  Proof.
    replace (2 ^ N.of_nat (S k)) with (2 ^ N.of_nat k * 2)
      by (rewrite Nat2N.inj_succ, N.pow_succ_r'; lia).
    rewrite <- N.div_div by (try apply N.pow_nonzero; lia).
    set (b := a / 2 ^ N.of_nat k). lia.
  Qed.

  Section Cst.
    Variable cs : coordsys.
    Variable n : nat.
    Variables x y : N.

    Definition cst_inv (cur : nat) (children : list gt) : Prop :=
      forall ix iy, ix < 2 -> iy < 2 ->
        nth_error children (N.to_nat (iy * 2 + ix)) =
        Some (tile_at1 cs cur (2 * (x / 2 ^ N.of_nat (n - cur)) + ix) (2 * (y / 2 ^ N.of_nat (n - cur)) + iy)).

    Lemma cst_loop_spec : forall fuel cur children,
      (cur < n)%nat -> fuel = (n - cur)%nat -> cst_inv cur children ->
      cst_loop mid fuel children n cur x y = Some (tile_at1 cs (n - 1) x y).
    Proof.
      induction fuel as [|f IH]; intros cur children Hc Hf Hinv; [lia|].
      cbn [ToastTerm.cst_loop].
      rewrite !land1, !N.shiftr_div_pow2.
      assert (Hb : forall a, (a / 2 ^ N.of_nat (n - S cur)) mod 2 < 2) by (intros; apply N.mod_lt; lia).
      rewrite (Hinv _ _ (Hb x) (Hb y)).
      replace (n - cur)%nat with (S (n - S cur)) by lia.
      rewrite !shift_step.
      destruct (Nat.eqb (S cur) n) eqn:E.
      - apply Nat.eqb_eq in E. replace (n - S cur)%nat with 0%nat by lia.
        change (2 ^ N.of_nat 0) with 1. rewrite !N.div_1_r.
        replace (n - 1)%nat with cur by lia. reflexivity.
      - apply Nat.eqb_neq in E. apply IH; [lia|lia|].
        intros ix iy Hx Hy. rewrite nth_error_div4 by assumption.
        rewrite tile_at1_child by assumption. reflexivity.
    Qed.
  End Cst.

  Theorem create_single_tile_spec cs p :
    (1 <= pn p)%nat -> valid p = true ->
    create_single_tile base mid cs p = Some (tile_at cs p).
  Proof.
    intros Hn Hv. unfold create_single_tile, ToastTerm.tile_at.
    destruct (pn p) as [|m] eqn:En; [lia|].
    rewrite (cst_loop_spec cs (S m) (px p) (py p) (S m) 0%nat (level1 cs)); [|lia|lia|].
    - replace (S m - 1)%nat with m by lia. reflexivity.
    - intros ix iy Hx Hy. rewrite nth_error_level1 by assumption.
      unfold valid in Hv. rewrite En in Hv. apply andb_true_iff in Hv. destruct Hv as [H1 H2].
      apply N.ltb_lt in H1, H2. rewrite Nat.sub_0_r.
      rewrite !N.div_small by assumption. rewrite !N.mul_0_r, !N.add_0_l. reflexivity.
  Qed.
End GenP2.

Lemma pow2_pos k : 0 < 2 ^ N.of_nat k.
Proof. apply N.neq_0_lt_0, N.pow_nonzero; lia. Qed.

Lemma pow2_S k : 2 ^ N.of_nat (S k) = 2 * 2 ^ N.of_nat k.
Proof. rewrite Nat2N.inj_succ, N.pow_succ_r'; reflexivity. Qed.

Lemma div_pow2_S a k : a / 2 ^ N.of_nat (S k) = a / 2 ^ N.of_nat k / 2.
Proof.
  rewrite pow2_S, (N.mul_comm 2), N.div_div; [reflexivity| |lia].
  apply N.pow_nonzero; lia.
Qed.

Lemma anc_0 p : anc p 0 = p.
Proof.
  destruct p as [n x y]. unfold anc; cbn [pn px py]. change (2 ^ N.of_nat 0) with 1.
  rewrite !N.div_1_r, Nat.sub_0_r. reflexivity.
Qed.

Lemma valid_iff p : valid p = true <-> px p < 2 ^ N.of_nat (pn p) /\ py p < 2 ^ N.of_nat (pn p).
Proof. unfold valid. rewrite andb_true_iff, !N.ltb_lt. reflexivity. Qed.

Lemma valid_anc p j : valid p = true -> (j <= pn p)%nat -> valid (anc p j) = true.
Proof.
  rewrite !valid_iff. unfold anc; cbn [pn px py]. intros [Hx Hy] Hj.
  replace (pn p) with ((pn p - j) + j)%nat in Hx, Hy by lia.
  rewrite Nat2N.inj_add, N.pow_add_r in Hx, Hy.
  pose proof (pow2_pos j).
  split; apply N.div_lt_upper_bound; lia.
Qed.

Section GenP3.
  Variable P : Type.
  Variable base : N -> P.
  Variable mid : P -> P -> P.
  Notation gt := (gtile P).
  Notation div4 := (div4 mid). Notation child := (child mid).
  Notation tile_at1 := (tile_at1 base mid). Notation tile_at := (tile_at base mid).
  Notation level1 := (level1 base).

  (* a tile sitting where the reference construction puts it *)
  Definition good (cs : coordsys) (t : gt) : Prop :=
    t = tile_at cs (tpos t) /\ valid (tpos t) = true /\ (1 <= pn (tpos t))%nat.

  Lemma tile_at_pos cs p : valid p = true -> (1 <= pn p)%nat -> tpos (tile_at cs p) = p.
  Proof.
    intros Hv Hn. apply valid_iff in Hv. destruct p as [n x y]; cbn [pn px py] in *.
    destruct n as [|m]; [lia|]. unfold ToastTerm.tile_at; cbn [pn px py pred].
    apply tile_at1_pos; tauto.
  Qed.

  Lemma good_tile_at cs p : valid p = true -> (1 <= pn p)%nat -> good cs (tile_at cs p).
  Proof.
    intros Hv Hn. unfold good. rewrite tile_at_pos by assumption. auto.
  Qed.

  Lemma tile_at_child cs p ix iy : (1 <= pn p)%nat -> ix < 2 -> iy < 2 ->
    tile_at cs (mkPos (S (pn p)) (2 * px p + ix) (2 * py p + iy)) = child (tile_at cs p) ix iy.
  Proof.
    intros Hn Hx Hy. unfold ToastTerm.tile_at; cbn [pn px py pred].
    destruct (pn p) as [|m]; [lia|]. cbn [pred]. apply tile_at1_child; assumption.
  Qed.

  Lemma good_child cs t ix iy : good cs t -> ix < 2 -> iy < 2 -> good cs (child t ix iy).
  Proof.
    intros (Ht & Hv & Hn) Hx Hy. unfold good. rewrite child_pos by assumption.
    cbn [pn px py]. split; [|split; [|lia]].
    - rewrite tile_at_child by assumption. rewrite <- Ht. reflexivity.
    - apply valid_iff in Hv. apply valid_iff; cbn [pn px py]. rewrite pow2_S. lia.
  Qed.

  Lemma good_level1 cs t : In t (level1 cs) -> good cs t /\ pn (tpos t) = 1%nat.
  Proof.
    cbn [ToastTerm.level1 In]. intros [<-|[<-|[<-|[<-|[]]]]]; (split; [|reflexivity]);
      (split; [reflexivity|split; [reflexivity|cbn [tpos pn]; lia]]).
  Qed.

  (* the parent position of a deeper tile, and which child it is *)
  Lemma anc_S p j : anc p (S j) = mkPos (pn (anc p j) - 1) (px (anc p j) / 2) (py (anc p j) / 2).
  Proof.
    unfold anc; cbn [pn px py]. rewrite !div_pow2_S. f_equal. lia.
  Qed.

  Lemma tile_at_anc_child cs p j : valid p = true -> (S j < pn p)%nat ->
    tile_at cs (anc p j) = child (tile_at cs (anc p (S j))) (px (anc p j) mod 2) (py (anc p j) mod 2).
  Proof.
    intros Hv Hj. rewrite anc_S.
    set (q := anc p j). assert (Hq : (2 <= pn q)%nat) by (unfold q, anc; cbn [pn]; lia).
    rewrite <- tile_at_child by (cbn [pn]; try apply N.mod_lt; lia).
    cbn [pn px py]. f_equal. destruct q as [n x y]; cbn [pn px py] in *. f_equal; lia.
  Qed.

  Section Post.
    Variable cs : coordsys.
    Variable depth : nat.
    Variable flt : gt -> bool.
    Variable bottom : bool.

    Definition path_ok (s : gt) (p : pos) (j : nat) : Prop :=
      valid p = true /\ pn p = (pn (tpos s) + j)%nat /\ anc p j = tpos s /\ (pn p <= depth)%nat /\
      (bottom = true -> pn p = depth) /\
      (forall i, (i <= j)%nat -> (1 < pn p - i)%nat -> flt (tile_at cs (anc p i)) = true).

    Lemma postfix_sound : forall k s t, good cs s ->
      In t (postfix_corner mid k depth flt bottom s) ->
      exists p j, t = tile_at cs p /\ path_ok s p j.
    Proof.
      induction k as [|k IH]; intros s t Hs Hin; [contradiction|].
      cbn [ToastTerm.postfix_corner] in Hin.
      destruct (Nat.ltb depth (pn (tpos s))) eqn:E1; [contradiction|].
      apply Nat.ltb_ge in E1.
      destruct (Nat.ltb 1 (pn (tpos s)) && negb (flt s)) eqn:E2; [contradiction|].
      apply in_app_or in Hin. destruct Hin as [Hin|Hin].
      - apply in_flat_map in Hin. destruct Hin as (c & Hc & Hin).
        apply in_div4 in Hc. destruct Hc as (ix & iy & Hx & Hy & ->).
        pose proof (good_child cs s ix iy Hs Hx Hy) as Hg.
        destruct (IH _ _ Hg Hin) as (p & j & Ht & Hv & Hn & Ha & Hd & Hb & Hf).
        rewrite child_pos in Hn, Ha by assumption. cbn [pn] in Hn.
        exists p, (S j). split; [assumption|]. unfold path_ok.
        assert (Hanc : anc p (S j) = tpos s).
        { rewrite anc_S, Ha. cbn [pn px py]. destruct (tpos s) as [n x y]; cbn [pn px py].
          f_equal; lia. }
        repeat split; try assumption; try lia.
        intros i Hi Hlt. destruct (Nat.eq_dec i (S j)) as [->|Hne].
        + rewrite Hanc. destruct Hs as (Hs & _). rewrite <- Hs.
          apply andb_false_iff in E2. destruct E2 as [E2|E2].
          * apply Nat.ltb_ge in E2. lia.
          * apply negb_false_iff in E2. assumption.
        + apply Hf; lia.
      - destruct (Nat.eqb (pn (tpos s)) depth || negb bottom) eqn:E3; [|contradiction].
        destruct Hin as [<-|[]]. destruct Hs as (Hs & Hv & Hn).
        exists (tpos s), 0%nat. split; [assumption|]. unfold path_ok.
        rewrite anc_0. repeat split; try assumption; try lia.
        + intros Hb. rewrite Hb in E3. cbn in E3. rewrite orb_false_r in E3.
          apply Nat.eqb_eq in E3. assumption.
        + intros i Hi Hlt. replace i with 0%nat by lia. rewrite anc_0, <- Hs.
          apply andb_false_iff in E2. destruct E2 as [E2|E2].
          * apply Nat.ltb_ge in E2. lia.
          * apply negb_false_iff in E2. assumption.
    Qed.

    Lemma postfix_complete : forall j k s p, good cs s ->
      (depth + 2 - pn (tpos s) <= k)%nat -> path_ok s p j ->
      In (tile_at cs p) (postfix_corner mid k depth flt bottom s).
    Proof.
      induction j as [|j IH]; intros k s p Hs Hk (Hv & Hn & Ha & Hd & Hb & Hf).
      - rewrite anc_0 in Ha. subst p. destruct Hs as (Hs & _ & Hn1). rewrite <- Hs.
        destruct k as [|k]; [lia|]. cbn [ToastTerm.postfix_corner].
        replace (Nat.ltb depth (pn (tpos s))) with false by (symmetry; apply Nat.ltb_ge; lia).
        assert (E2 : Nat.ltb 1 (pn (tpos s)) && negb (flt s) = false).
        { destruct (Nat.ltb 1 (pn (tpos s))) eqn:E; [|reflexivity]. apply Nat.ltb_lt in E.
          cbn [andb]. apply negb_false_iff. rewrite Hs.
          rewrite <- (anc_0 (tpos s)). apply Hf; lia. }
        rewrite E2. apply in_or_app. right.
        assert (E3 : Nat.eqb (pn (tpos s)) depth || negb bottom = true).
        { destruct bottom; [|apply orb_true_r]. rewrite (Hb eq_refl), Nat.eqb_refl. reflexivity. }
        rewrite E3. left. reflexivity.
      - destruct k as [|k]; [lia|]. cbn [ToastTerm.postfix_corner].
        replace (Nat.ltb depth (pn (tpos s))) with false by (symmetry; apply Nat.ltb_ge; lia).
        pose proof Hs as (Hs1 & Hsv & Hn1).
        assert (E2 : Nat.ltb 1 (pn (tpos s)) && negb (flt s) = false).
        { destruct (Nat.ltb 1 (pn (tpos s))) eqn:E; [|reflexivity]. apply Nat.ltb_lt in E.
          cbn [andb]. apply negb_false_iff. rewrite Hs1, <- Ha. apply Hf; lia. }
        rewrite E2. apply in_or_app. left. apply in_flat_map.
        set (q := anc p j).
        assert (Hq : tile_at cs q = child s (px q mod 2) (py q mod 2)).
        { unfold q. rewrite tile_at_anc_child by (assumption || lia). rewrite Ha, <- Hs1. reflexivity. }
        exists (tile_at cs q). split.
        + rewrite Hq. apply child_in; apply N.mod_lt; lia.
        + apply IH.
          * rewrite Hq. apply good_child; try assumption; apply N.mod_lt; lia.
          * rewrite tile_at_pos; [unfold q, anc; cbn [pn]; lia| |unfold q, anc; cbn [pn]; lia].
            apply valid_anc; [assumption|lia].
          * unfold path_ok. rewrite tile_at_pos;
              [| apply valid_anc; [assumption|lia] | unfold q, anc; cbn [pn]; lia].
            repeat split; try assumption; try (unfold q, anc; cbn [pn]; lia).
            intros i Hi Hlt. apply Hf; lia.
    Qed.
  End Post.
End GenP3.

Section GenP4.
  Variable P : Type.
  Variable base : N -> P.
  Variable mid : P -> P -> P.
  Notation gt := (gtile P).
  Notation div4 := (div4 mid). Notation child := (child mid).
  Notation tile_at1 := (tile_at1 base mid). Notation tile_at := (tile_at base mid).
  Notation level1 := (level1 base).
  Notation good := (good P base mid).

  Lemma level1_in cs x y : x < 2 -> y < 2 -> In (tile_at1 cs 0 x y) (level1 cs).
  Proof.
    intros Hx Hy. destruct (bit_cases _ Hx) as [-> | ->], (bit_cases _ Hy) as [-> | ->];
      cbn [ToastTerm.tile_at1 ToastTerm.level1 In]; auto.
  Qed.

  Theorem generate_tiles_filtered_iff depth flt bottom cs t :
    In t (generate_tiles_filtered base mid depth flt bottom cs) <->
    exists p, t = tile_at cs p /\ valid p = true /\ (1 <= pn p <= depth)%nat /\
              (bottom = true -> pn p = depth) /\ accepted base mid flt cs p.
  Proof.
    unfold generate_tiles_filtered. rewrite in_flat_map. split.
    - intros (s & Hs & Hin). destruct (flt s) eqn:Ef; [|contradiction].
      destruct (good_level1 P base mid cs s Hs) as (Hg & Hn1).
      destruct (postfix_sound P base mid cs depth flt bottom _ _ _ Hg Hin)
        as (p & j & Ht & Hv & Hn & Ha & Hd & Hb & Hf).
      exists p. repeat split; try assumption; try lia.
      intros i Hi. destruct (Nat.eq_dec i j) as [->|Hne].
      + rewrite Ha. destruct Hg as (Hg & _). rewrite <- Hg. assumption.
      + apply Hf; lia.
    - intros (p & -> & Hv & Hn & Hb & Hacc).
      set (j := (pn p - 1)%nat). set (q := anc p j).
      assert (Hq1 : pn q = 1%nat) by (unfold q, anc, j; cbn [pn]; lia).
      assert (Hqv : valid q = true) by (apply valid_anc; [assumption|unfold j; lia]).
      assert (Hqin : In (tile_at cs q) (level1 cs)).
      { apply valid_iff in Hqv. rewrite Hq1 in Hqv. change (2 ^ N.of_nat 1) with 2 in Hqv.
        unfold ToastTerm.tile_at. rewrite Hq1. cbn [pred]. apply level1_in; tauto. }
      exists (tile_at cs q). split; [assumption|].
      replace (flt (tile_at cs q)) with true by (symmetry; apply Hacc; unfold j; lia).
      apply postfix_complete with (j := j).
      + apply good_tile_at; [assumption|lia].
      + rewrite tile_at_pos by (assumption || lia). lia.
      + unfold path_ok. rewrite tile_at_pos by (assumption || lia).
        repeat split; try assumption; try (unfold j; lia).
        intros i Hi Hlt. apply Hacc. lia.
  Qed.

  Section LookupP.
    Variable Sc : Type.
    Variable is0 : Sc -> bool.
    Variable gtb : Sc -> Sc -> bool.
    Variable score : gt -> Sc.
    Notation pick_child := (pick_child is0 gtb score).
    Notation pick_first0 := (pick_first0 is0 score).
    Notation lookup_desc := (lookup_desc mid is0 gtb score).

    Lemma pick_child_in_or : forall l best cur,
      In (pick_child l best cur) l \/ pick_child l best cur = cur.
    Proof.
      induction l as [|c l IH]; intros best cur; cbn [ToastTerm.pick_child]; [auto|].
      destruct (is0 (score c)); [left; left; reflexivity|].
      destruct best as [bs|].
      - destruct (gtb (score c) bs).
        + destruct (IH (Some (score c)) c) as [H|H]; [left; right; assumption|left; left; auto].
        + destruct (IH (Some bs) cur) as [H|H]; [left; right; assumption|right; assumption].
      - destruct (IH (Some (score c)) c) as [H|H]; [left; right; assumption|left; left; auto].
    Qed.

    Lemma pick_child_in c l cur : In (pick_child (c :: l) None cur) (c :: l).
    Proof.
      cbn [ToastTerm.pick_child]. destruct (is0 (score c)); [left; reflexivity|].
      destruct (pick_child_in_or l (Some (score c)) c) as [H|H]; [right; assumption|left; auto].
    Qed.

    Lemma pick_step_in t : In (pick_child (div4 t) None t) (div4 t).
    Proof. rewrite div4_children. apply pick_child_in. Qed.

    Lemma pick_first0_in : forall l last, In (pick_first0 l last) l \/ pick_first0 l last = last.
    Proof.
      induction l as [|t l IH]; intros last; cbn [ToastTerm.pick_first0]; [auto|].
      destruct (is0 (score t)); [left; left; reflexivity|].
      destruct (IH t) as [H|H]; [left; right; assumption|left; left; auto].
    Qed.

    Lemma pick_level1_in cs : In (pick_first0 (level1 cs) (l1_default base cs)) (level1 cs).
    Proof.
      destruct (pick_first0_in (level1 cs) (l1_default base cs)) as [H|H]; [assumption|].
      rewrite H. cbn. auto.
    Qed.

    Lemma lookup_desc_comm : forall f t,
      lookup_desc f (pick_child (div4 t) None t) =
      pick_child (div4 (lookup_desc f t)) None (lookup_desc f t).
    Proof.
      induction f as [|f IH]; intros t; cbn [ToastTerm.lookup_desc]; [reflexivity|].
      rewrite IH. reflexivity.
    Qed.

    Lemma lookup_desc_good cs : forall f t, good cs t ->
      good cs (lookup_desc f t) /\ pn (tpos (lookup_desc f t)) = (pn (tpos t) + f)%nat.
    Proof.
      induction f as [|f IH]; intros t Ht; cbn [ToastTerm.lookup_desc]; [split; [assumption|lia]|].
      destruct (in_div4 P mid _ _ (pick_step_in t)) as (ix & iy & Hx & Hy & E).
      rewrite E. pose proof (good_child P base mid cs t ix iy Ht Hx Hy) as Hg.
      destruct (IH _ Hg) as (H1 & H2). split; [assumption|].
      rewrite H2, child_pos by assumption. cbn [pn]. lia.
    Qed.

    Theorem lookup_good cs depth t :
      lookup base mid is0 gtb score cs depth = Some t -> good cs t /\ pn (tpos t) = depth.
    Proof.
      unfold lookup. destruct depth as [|d]; [discriminate|]. intros H.
      apply (f_equal (fun o => match o with Some x => x | None => t end)) in H. cbv beta iota in H. subst t.
      destruct (good_level1 P base mid cs _ (pick_level1_in cs)) as (Hg & Hn).
      destruct (lookup_desc_good cs d _ Hg) as (H1 & H2). split; [assumption|]. rewrite H2, Hn. reflexivity.
    Qed.

    (* the depth-(d+1) answer is one of the four children of the depth-d answer *)
    Theorem lookup_nested_child cs d t t' :
      lookup base mid is0 gtb score cs d = Some t ->
      lookup base mid is0 gtb score cs (S d) = Some t' ->
      In t' (div4 t).
    Proof.
      unfold lookup. destruct d as [|d]; [discriminate|]. intros H H'.
      apply (f_equal (fun o => match o with Some x => x | None => t end)) in H. cbv beta iota in H. subst t.
      apply (f_equal (fun o => match o with Some x => x | None => t' end)) in H'. cbv beta iota in H'. subst t'.
      cbn [ToastTerm.lookup_desc].
      rewrite lookup_desc_comm. apply pick_step_in.
    Qed.
  End LookupP.
End GenP4.

(* ------------------------------------------------------------------ terms *)
Lemma pt_cmp_refl a : pt_cmp a a = Eq.
Proof.
  induction a as [k|a1 IH1 a2 IH2]; cbn [pt_cmp]; [apply N.compare_refl|].
  rewrite IH1. assumption.
Qed.

Lemma pt_cmp_eq : forall a b, pt_cmp a b = Eq -> a = b.
Proof.
  induction a as [k|a1 IH1 a2 IH2]; intros [l|b1 b2]; cbn [pt_cmp]; try discriminate.
  - intros H. apply N.compare_eq in H. congruence.
  - destruct (pt_cmp a1 b1) eqn:E1; try discriminate.
    intros E2. rewrite (IH1 _ E1), (IH2 _ E2). reflexivity.
Qed.

Lemma pt_cmp_antisym : forall a b, pt_cmp b a = CompOpp (pt_cmp a b).
Proof.
  induction a as [k|a1 IH1 a2 IH2]; intros [l|b1 b2]; cbn [pt_cmp]; try reflexivity.
  - apply N.compare_antisym.
  - rewrite (IH1 b1). destruct (pt_cmp a1 b1); cbn [CompOpp]; try reflexivity. apply IH2.
Qed.

Lemma nf_comm a b : nf (Mid a b) = nf (Mid b a).
Proof.
  cbn [nf]. rewrite (pt_cmp_antisym (nf a) (nf b)).
  destruct (pt_cmp (nf a) (nf b)) eqn:E; cbn [CompOpp]; try reflexivity.
  apply pt_cmp_eq in E. rewrite E. reflexivity.
Qed.

Lemma nf_Mid_congr a a' b b' : nf a = nf a' -> nf b = nf b' -> nf (Mid a b) = nf (Mid a' b').
Proof. intros H1 H2. cbn [nf]. rewrite H1, H2. reflexivity. Qed.

Lemma nf_Mid_congr_sw a a' b b' : nf a = nf b' -> nf b = nf a' -> nf (Mid a b) = nf (Mid a' b').
Proof. intros H1 H2. rewrite nf_comm. apply nf_Mid_congr; assumption. Qed.

Lemma peq_sym p q : peq p q -> peq q p.
Proof.
  induction 1.
  - apply peq_refl.
  - apply peq_comm.
  - apply peq_cong; assumption.
  - eapply peq_trans; eassumption.
Qed.

Lemma peq_nf_self p : peq p (nf p).
Proof.
  induction p as [k|a IHa b IHb]; cbn [nf]; [apply peq_refl|].
  destruct (pt_cmp (nf a) (nf b)).
  - apply peq_cong; assumption.
  - apply peq_cong; assumption.
  - eapply peq_trans; [apply peq_cong; eassumption|apply peq_comm].
Qed.

Theorem peq_iff_nf p q : peq p q <-> nf p = nf q.
Proof.
  split.
  - induction 1.
    + reflexivity.
    + apply nf_comm.
    + apply nf_Mid_congr; assumption.
    + congruence.
  - intros H. eapply peq_trans; [apply peq_nf_self|]. rewrite H. apply peq_sym, peq_nf_self.
Qed.

Lemma pt_eqb_eq : forall a b, pt_eqb a b = true <-> a = b.
Proof.
  induction a as [k|a1 IH1 a2 IH2]; intros [l|b1 b2]; cbn [pt_eqb]; try (split; discriminate).
  - rewrite N.eqb_eq. split; congruence.
  - rewrite andb_true_iff, IH1, IH2. split; [intros [-> ->]; reflexivity|intros H; injection H; auto].
Qed.

(* ------------------------------------------------------------------ lattice *)
Notation tat1 := (tile_at1 Base Mid).

Lemma incr_at_S m x y : incr_at (S (S m)) x y = incr_at (S m) (x / 2) (y / 2).
Proof.
  unfold incr_at. cbn [pred]. rewrite pow2_S. pose proof (pow2_pos m) as Hp.
  set (h := 2 ^ N.of_nat m) in *.
  assert (Hx : (x <? 2 * h) = (x / 2 <? h)).
  { destruct (N.ltb_spec x (2 * h)), (N.ltb_spec (x / 2) h); try reflexivity; lia. }
  assert (Hy : (y <? 2 * h) = (y / 2 <? h)).
  { destruct (N.ltb_spec y (2 * h)), (N.ltb_spec (y / 2) h); try reflexivity; lia. }
  rewrite Hx, Hy. reflexivity.
Qed.

Definition lattice_at (cs : coordsys) (m : nat) (x y : N) : Prop :=
  let t := tat1 cs m x y in
  nf (c_ul t) = nf (vertex1 cs m x y) /\
  nf (c_ur t) = nf (vertex1 cs m (x + 1) y) /\
  nf (c_lr t) = nf (vertex1 cs m (x + 1) (y + 1)) /\
  nf (c_ll t) = nf (vertex1 cs m x (y + 1)) /\
  incr t = incr_at (S m) x y.

Lemma parity_even a : a mod 2 = 0 ->
  (a mod 2 =? 0) = true /\ ((a + 1) mod 2 =? 0) = false /\ (a + 1) / 2 = a / 2.
Proof. intros H. repeat split; [apply N.eqb_eq; lia|apply N.eqb_neq; lia|lia]. Qed.

Lemma parity_odd a : a mod 2 = 1 ->
  (a mod 2 =? 0) = false /\ ((a + 1) mod 2 =? 0) = true /\ (a + 1) / 2 = a / 2 + 1.
Proof. intros H. repeat split; [apply N.eqb_neq; lia|apply N.eqb_eq; lia|lia]. Qed.

Lemma lattice_level1 cs x y : x < 2 -> y < 2 -> lattice_at cs 0 x y.
Proof.
  intros Hx Hy. destruct (bit_cases _ Hx) as [-> | ->], (bit_cases _ Hy) as [-> | ->];
    destruct cs; unfold lattice_at; repeat split; reflexivity.
Qed.

Theorem lattice_all cs : forall m x y, x < 2 ^ N.of_nat (S m) -> y < 2 ^ N.of_nat (S m) ->
  lattice_at cs m x y.
Proof.
  induction m as [|m IH]; intros x y Hx Hy.
  - apply lattice_level1; change (2 ^ N.of_nat 1) with 2 in *; assumption.
  - rewrite pow2_S in Hx, Hy.
    assert (Hx2 : x / 2 < 2 ^ N.of_nat (S m)) by (apply N.div_lt_upper_bound; lia).
    assert (Hy2 : y / 2 < 2 ^ N.of_nat (S m)) by (apply N.div_lt_upper_bound; lia).
    destruct (IH _ _ Hx2 Hy2) as (Hul & Hur & Hlr & Hll & Hinc).
    unfold lattice_at. cbn [ToastTerm.tile_at1 vertex1].
    set (t := tat1 cs m (x / 2) (y / 2)) in *.
    rewrite incr_at_S.
    assert (Hce : nf (ce_of pt Mid t) =
                  nf (if incr_at (S m) (x / 2) (y / 2)
                      then Mid (vertex1 cs m (x / 2) (y / 2 + 1)) (vertex1 cs m (x / 2 + 1) (y / 2))
                      else Mid (vertex1 cs m (x / 2) (y / 2)) (vertex1 cs m (x / 2 + 1) (y / 2 + 1)))).
    { unfold ce_of. rewrite Hinc. destruct (incr_at (S m) (x / 2) (y / 2));
        apply nf_Mid_congr; assumption. }
    assert (Bx : x mod 2 < 2) by (apply N.mod_lt; lia).
    assert (By : y mod 2 < 2) by (apply N.mod_lt; lia).
    destruct (bit_cases _ Bx) as [Ex|Ex], (bit_cases _ By) as [Ey|Ey];
      [destruct (parity_even _ Ex) as (Px1 & Px2 & Px3) | destruct (parity_even _ Ex) as (Px1 & Px2 & Px3)
      |destruct (parity_odd _ Ex) as (Px1 & Px2 & Px3) | destruct (parity_odd _ Ex) as (Px1 & Px2 & Px3)];
      [destruct (parity_even _ Ey) as (Py1 & Py2 & Py3) | destruct (parity_odd _ Ey) as (Py1 & Py2 & Py3)
      |destruct (parity_even _ Ey) as (Py1 & Py2 & Py3) | destruct (parity_odd _ Ey) as (Py1 & Py2 & Py3)];
      rewrite ?Px1, ?Px2, ?Px3, ?Py1, ?Py2, ?Py3; rewrite Ex, Ey;
      [rewrite child_00|rewrite child_01|rewrite child_10|rewrite child_11];
      cbn [c_ul c_ur c_lr c_ll incr];
      (repeat split;
       first [ assumption
             | apply nf_Mid_congr; assumption
             | apply nf_Mid_congr_sw; assumption ]).
Qed.

(* refinement of the lattice: by definition *)
Lemma vertex1_even_even cs m i j : vertex1 cs (S m) (2 * i) (2 * j) = vertex1 cs m i j.
Proof.
  cbn [vertex1]. replace ((2 * i) mod 2) with 0 by lia. replace ((2 * j) mod 2) with 0 by lia.
  replace (2 * i / 2) with i by lia. replace (2 * j / 2) with j by lia. reflexivity.
Qed.

Lemma vertex1_odd_even cs m i j :
  vertex1 cs (S m) (2 * i + 1) (2 * j) = Mid (vertex1 cs m i j) (vertex1 cs m (i + 1) j).
Proof.
  cbn [vertex1]. replace ((2 * i + 1) mod 2) with 1 by lia. replace ((2 * j) mod 2) with 0 by lia.
  replace ((2 * i + 1) / 2) with i by lia. replace (2 * j / 2) with j by lia. reflexivity.
Qed.

Lemma vertex1_even_odd cs m i j :
  vertex1 cs (S m) (2 * i) (2 * j + 1) = Mid (vertex1 cs m i j) (vertex1 cs m i (j + 1)).
Proof.
  cbn [vertex1]. replace ((2 * i) mod 2) with 0 by lia. replace ((2 * j + 1) mod 2) with 1 by lia.
  replace (2 * i / 2) with i by lia. replace ((2 * j + 1) / 2) with j by lia. reflexivity.
Qed.

Lemma vertex1_odd_odd cs m i j :
  vertex1 cs (S m) (2 * i + 1) (2 * j + 1) =
  if incr_at (S m) i j then Mid (vertex1 cs m i (j + 1)) (vertex1 cs m (i + 1) j)
  else Mid (vertex1 cs m i j) (vertex1 cs m (i + 1) (j + 1)).
Proof.
  cbn [vertex1]. replace ((2 * i + 1) mod 2) with 1 by lia. replace ((2 * j + 1) mod 2) with 1 by lia.
  replace ((2 * i + 1) / 2) with i by lia. replace ((2 * j + 1) / 2) with j by lia. reflexivity.
Qed.

Lemma V_e0 cs m i : vertex1 cs (S m) (2 * i) 0 = vertex1 cs m i 0.
Proof. exact (vertex1_even_even cs m i 0). Qed.
Lemma V_0e cs m j : vertex1 cs (S m) 0 (2 * j) = vertex1 cs m 0 j.
Proof. exact (vertex1_even_even cs m 0 j). Qed.
Lemma V_o0 cs m i : vertex1 cs (S m) (2 * i + 1) 0 = Mid (vertex1 cs m i 0) (vertex1 cs m (i + 1) 0).
Proof. exact (vertex1_odd_even cs m i 0). Qed.
Lemma V_0o cs m j : vertex1 cs (S m) 0 (2 * j + 1) = Mid (vertex1 cs m 0 j) (vertex1 cs m 0 (j + 1)).
Proof. exact (vertex1_even_odd cs m 0 j). Qed.

(* boundary gluing: the rim of the square folds onto itself about the middle of each side *)
Definition glued (cs : coordsys) (m : nat) : Prop :=
  let M := 2 ^ N.of_nat (S m) in
  forall i, i <= M ->
    nf (vertex1 cs m i 0) = nf (vertex1 cs m (M - i) 0) /\
    nf (vertex1 cs m 0 i) = nf (vertex1 cs m 0 (M - i)) /\
    nf (vertex1 cs m i M) = nf (vertex1 cs m (M - i) M) /\
    nf (vertex1 cs m M i) = nf (vertex1 cs m M (M - i)).

Lemma half_cases i : (exists h, i = 2 * h) \/ (exists h, i = 2 * h + 1).
Proof.
  assert (H : i mod 2 < 2) by (apply N.mod_lt; lia).
  destruct (bit_cases _ H) as [E|E]; [left|right]; exists (i / 2); lia.
Qed.

Theorem boundary_gluing_all cs : forall m, glued cs m.
Proof.
  induction m as [|m IH]; unfold glued.
  - change (2 ^ N.of_nat 1) with 2. intros i Hi.
    assert (i = 0 \/ i = 1 \/ i = 2) as [-> | [-> | ->]] by lia; destruct cs; repeat split; reflexivity.
  - rewrite pow2_S. unfold glued in IH. set (M := 2 ^ N.of_nat (S m)) in *.
    assert (HM : 0 < M) by apply pow2_pos.
    intros i Hi. destruct (half_cases i) as [[h ->]|[h ->]].
    + assert (Hh : h <= M) by lia. destruct (IH h Hh) as (G1 & G2 & G3 & G4).
      replace (2 * M - 2 * h) with (2 * (M - h)) by lia.
      rewrite !V_e0, !V_0e, !vertex1_even_even. repeat split; assumption.
    + assert (Hh : h <= M) by lia. assert (Hh1 : h + 1 <= M) by lia.
      destruct (IH h Hh) as (G1 & G2 & G3 & G4). destruct (IH (h + 1) Hh1) as (K1 & K2 & K3 & K4).
      replace (2 * M - (2 * h + 1)) with (2 * (M - (h + 1)) + 1) by lia.
      rewrite !V_o0, !V_0o, !vertex1_odd_even, !vertex1_even_odd.
      replace (M - (h + 1) + 1) with (M - h) by lia.
      repeat split; apply nf_Mid_congr_sw; assumption.
Qed.

(* ------------------------------------------------------------------ descendants *)
Section GenP7.
  Variable P : Type.
  Variable base : N -> P.
  Variable mid : P -> P -> P.
  Notation gt := (gtile P).
  Notation child := (child mid). Notation desc := (desc mid).
  Notation tile_at1 := (tile_at1 base mid). Notation tile_at := (tile_at base mid).

  Lemma desc_top t a b : a < 2 -> b < 2 -> forall k x y,
    x < 2 ^ N.of_nat k -> y < 2 ^ N.of_nat k ->
    desc t (S k) (a * 2 ^ N.of_nat k + x) (b * 2 ^ N.of_nat k + y) = desc (child t a b) k x y.
  Proof.
    intros Ha Hb. induction k as [|k IH]; intros x y Hx Hy.
    - change (2 ^ N.of_nat 0) with 1 in *. cbn [ToastTerm.desc].
      replace x with 0 by lia. replace y with 0 by lia.
      replace ((a * 1 + 0) mod 2) with a by lia. replace ((b * 1 + 0) mod 2) with b by lia. reflexivity.
    - rewrite pow2_S in *. pose proof (pow2_pos k) as Hp. set (h := 2 ^ N.of_nat k) in *.
      cbn [ToastTerm.desc].
      replace ((a * (2 * h) + x) / 2 / 2) with ((a * h + x / 2) / 2) by (f_equal; lia).
      replace ((b * (2 * h) + y) / 2 / 2) with ((b * h + y / 2) / 2) by (f_equal; lia).
      replace ((a * (2 * h) + x) / 2 mod 2) with ((a * h + x / 2) mod 2) by (f_equal; lia).
      replace ((b * (2 * h) + y) / 2 mod 2) with ((b * h + y / 2) mod 2) by (f_equal; lia).
      replace ((a * (2 * h) + x) mod 2) with (x mod 2) by lia.
      replace ((b * (2 * h) + y) mod 2) with (y mod 2) by lia.
      assert (Hx2 : x / 2 < h) by (apply N.div_lt_upper_bound; lia).
      assert (Hy2 : y / 2 < h) by (apply N.div_lt_upper_bound; lia).
      specialize (IH _ _ Hx2 Hy2). cbn [ToastTerm.desc] in IH. rewrite IH. reflexivity.
  Qed.

  Lemma tile_at1_desc cs m x y : forall k j i, j < 2 ^ N.of_nat k -> i < 2 ^ N.of_nat k ->
    tile_at1 cs (k + m) (2 ^ N.of_nat k * x + j) (2 ^ N.of_nat k * y + i) = desc (tile_at1 cs m x y) k j i.
  Proof.
    induction k as [|k IH]; intros j i Hj Hi.
    - change (2 ^ N.of_nat 0) with 1 in *. cbn [ToastTerm.desc Nat.add].
      f_equal; lia.
    - rewrite pow2_S in *. pose proof (pow2_pos k) as Hp. set (h := 2 ^ N.of_nat k) in *.
      cbn [ToastTerm.desc Nat.add ToastTerm.tile_at1].
      replace ((2 * h * x + j) / 2) with (h * x + j / 2) by lia.
      replace ((2 * h * y + i) / 2) with (h * y + i / 2) by lia.
      replace ((2 * h * x + j) mod 2) with (j mod 2) by lia.
      replace ((2 * h * y + i) mod 2) with (i mod 2) by lia.
      rewrite IH by (apply N.div_lt_upper_bound; lia). reflexivity.
  Qed.

  Theorem tile_at_desc cs p k j i : (1 <= pn p)%nat -> j < 2 ^ N.of_nat k -> i < 2 ^ N.of_nat k ->
    tile_at cs (mkPos (k + pn p) (2 ^ N.of_nat k * px p + j) (2 ^ N.of_nat k * py p + i)) =
    desc (tile_at cs p) k j i.
  Proof.
    intros Hn Hj Hi. unfold ToastTerm.tile_at; cbn [pn px py].
    destruct (pn p) as [|m]; [lia|]. cbn [pred].
    replace (pred (k + S m)) with (k + m)%nat by lia. apply tile_at1_desc; assumption.
  Qed.
End GenP7.

(* ------------------------------------------------------------------ subsample on terms *)
Lemma subsample_centres_gen : forall k (t : tile) i j ul ur lr ll,
  i < 2 ^ N.of_nat k -> j < 2 ^ N.of_nat k ->
  nf ul = nf (c_ul t) -> nf ur = nf (c_ur t) -> nf lr = nf (c_lr t) -> nf ll = nf (c_ll t) ->
  nf (subsample Mid k ul ur lr ll (incr t) i j) = nf (centre Mid (desc Mid t k j i)).
Proof.
  induction k as [|k IH]; intros t i j ul ur lr ll Hi Hj Hul Hur Hlr Hll.
  - cbn [subsample ToastTerm.desc]. unfold centre. destruct (incr t); apply nf_Mid_congr; assumption.
  - rewrite pow2_S in Hi, Hj. cbn [subsample]. pose proof (pow2_pos k) as Hp.
    set (h := 2 ^ N.of_nat k) in *.
    assert (Hce : nf (if incr t then Mid ll ur else Mid ul lr) = nf (ce_of pt Mid t)).
    { unfold ce_of. destruct (incr t); apply nf_Mid_congr; assumption. }
    destruct (N.ltb_spec i h) as [Hih|Hih]; destruct (N.ltb_spec j h) as [Hjh|Hjh].
    + rewrite <- (child_incr pt Mid t 0 0) by lia.
      rewrite IH by (try assumption; rewrite child_00; cbn [c_ul c_ur c_lr c_ll];
                     first [assumption | apply nf_Mid_congr; assumption | apply nf_Mid_congr_sw; assumption]).
      rewrite <- (desc_top pt Base Mid t 0 0) by (assumption || lia).
      fold h. rewrite !N.mul_0_l, !N.add_0_l. reflexivity.
    + rewrite <- (child_incr pt Mid t 1 0) by lia.
      rewrite IH by (try assumption; try lia; rewrite child_10; cbn [c_ul c_ur c_lr c_ll];
                     first [assumption | apply nf_Mid_congr; assumption | apply nf_Mid_congr_sw; assumption]).
      rewrite <- (desc_top pt Base Mid t 1 0) by (assumption || lia).
      fold h. rewrite !N.mul_0_l, !N.add_0_l, N.mul_1_l. replace (h + (j - h)) with j by lia. reflexivity.
    + rewrite <- (child_incr pt Mid t 0 1) by lia.
      rewrite IH by (try assumption; try lia; rewrite child_01; cbn [c_ul c_ur c_lr c_ll];
                     first [assumption | apply nf_Mid_congr; assumption | apply nf_Mid_congr_sw; assumption]).
      rewrite <- (desc_top pt Base Mid t 0 1) by (assumption || lia).
      fold h. rewrite !N.mul_0_l, !N.add_0_l, N.mul_1_l. replace (h + (i - h)) with i by lia. reflexivity.
    + rewrite <- (child_incr pt Mid t 1 1) by lia.
      rewrite IH by (try assumption; try lia; rewrite child_11; cbn [c_ul c_ur c_lr c_ll];
                     first [assumption | apply nf_Mid_congr; assumption | apply nf_Mid_congr_sw; assumption]).
      rewrite <- (desc_top pt Base Mid t 1 1) by (assumption || lia).
      fold h. rewrite !N.mul_1_l. replace (h + (j - h)) with j by lia. replace (h + (i - h)) with i by lia.
      reflexivity.
Qed.

(* pixel (row i, column j) of an npix = 2^k grid is the centre of the descendant at
   relative depth k, relative position (x, y) = (j, i) *)
Theorem subsample_is_centres_term k (t : tile) i j :
  i < 2 ^ N.of_nat k -> j < 2 ^ N.of_nat k ->
  peq (subsample Mid k (c_ul t) (c_ur t) (c_lr t) (c_ll t) (incr t) i j)
      (centre Mid (desc Mid t k j i)).
Proof.
  intros Hi Hj. apply peq_iff_nf. apply subsample_centres_gen; auto.
Qed.

Theorem tile_coords_is_centres cs p i j :
  (1 <= pn p)%nat -> i < 256 -> j < 256 ->
  peq (tile_coords Mid (tile_at Base Mid cs p) i j)
      (centre Mid (tile_at Base Mid cs (mkPos (8 + pn p) (256 * px p + j) (256 * py p + i)))).
Proof.
  intros Hn Hi Hj. unfold tile_coords.
  change 256 with (2 ^ N.of_nat 8) in *.
  rewrite tile_at_desc by assumption. apply subsample_is_centres_term; assumption.
Qed.

(* ------------------------------------------------------------------ homomorphic images *)
(* Any map f commuting with base and mid carries every construction of the model
   over; used for the hash algebra (correspondence) and for eval into R^3. *)
Section Hom.
  Variables P Q : Type.
  Variable base : N -> P.
  Variable mid : P -> P -> P.
  Variable base' : N -> Q.
  Variable mid' : Q -> Q -> Q.
  Variable f : P -> Q.
  Hypothesis f_base : forall k, f (base k) = base' k.
  Hypothesis f_mid : forall a b, f (mid a b) = mid' (f a) (f b).

  Definition gmap (t : gtile P) : gtile Q :=
    mkT (tpos t) (f (c_ul t)) (f (c_ur t)) (f (c_lr t)) (f (c_ll t)) (incr t).

  Lemma gmap_div4 t : map gmap (div4 mid t) = div4 mid' (gmap t).
  Proof.
    unfold div4, gmap; cbn [map tpos c_ul c_ur c_lr c_ll incr].
    rewrite !f_mid. destruct (incr t); rewrite f_mid; reflexivity.
  Qed.

  Lemma gmap_child t ix iy : gmap (child mid t ix iy) = child mid' (gmap t) ix iy.
  Proof.
    unfold child. rewrite <- gmap_div4. rewrite map_nth. reflexivity.
  Qed.

  Lemma gmap_level1 cs : map gmap (level1 base cs) = level1 base' cs.
  Proof.
    unfold level1, gmap, b_eq, b_north, b_south; cbn [map tpos c_ul c_ur c_lr c_ll incr].
    rewrite !f_base. reflexivity.
  Qed.

  Lemma gmap_l1_default cs : gmap (l1_default base cs) = l1_default base' cs.
  Proof.
    unfold l1_default. rewrite <- gmap_level1. cbn [level1 map hd]. reflexivity.
  Qed.

  Lemma gmap_tile_at1 cs : forall m x y, gmap (tile_at1 base mid cs m x y) = tile_at1 base' mid' cs m x y.
  Proof.
    induction m as [|m IH]; intros x y; cbn [tile_at1].
    - rewrite <- gmap_level1, <- gmap_l1_default. rewrite map_nth. reflexivity.
    - rewrite gmap_child, IH. reflexivity.
  Qed.

  Theorem gmap_tile_at cs p : gmap (tile_at base mid cs p) = tile_at base' mid' cs p.
  Proof. apply gmap_tile_at1. Qed.

  Lemma gmap_desc t : forall k x y, gmap (desc mid t k x y) = desc mid' (gmap t) k x y.
  Proof.
    induction k as [|k IH]; intros x y; cbn [desc]; [reflexivity|].
    rewrite gmap_child, IH. reflexivity.
  Qed.

  Lemma gmap_centre t : f (centre mid t) = centre mid' (gmap t).
  Proof. unfold centre, gmap; cbn [c_ul c_ur c_lr c_ll incr]. destruct (incr t); apply f_mid. Qed.

  Lemma hom_subsample : forall k ul ur lr ll inc i j,
    f (subsample mid k ul ur lr ll inc i j) = subsample mid' k (f ul) (f ur) (f lr) (f ll) inc i j.
  Proof.
    induction k as [|k IH]; intros ul ur lr ll inc i j; cbn [subsample].
    - destruct inc; apply f_mid.
    - destruct (i <? 2 ^ N.of_nat k), (j <? 2 ^ N.of_nat k); rewrite IH, ?f_mid;
        destruct inc; rewrite ?f_mid; reflexivity.
  Qed.

  Lemma hom_cst_loop : forall fuel children n cur x y,
    option_map gmap (cst_loop mid fuel children n cur x y) =
    cst_loop mid' fuel (map gmap children) n cur x y.
  Proof.
    induction fuel as [|fuel IH]; intros children n cur x y; cbn [cst_loop]; [reflexivity|].
    rewrite nth_error_map.
    destruct (nth_error children _) as [t|]; cbn [option_map]; [|reflexivity].
    destruct (Nat.eqb (S cur) n); [reflexivity|].
    rewrite IH, gmap_div4. reflexivity.
  Qed.

  Theorem hom_create_single_tile cs p :
    option_map gmap (create_single_tile base mid cs p) = create_single_tile base' mid' cs p.
  Proof.
    unfold create_single_tile. destruct (pn p); [reflexivity|].
    rewrite hom_cst_loop, gmap_level1. reflexivity.
  Qed.

  Lemma hom_postfix depth (flt' : gtile Q -> bool) bottom : forall k t,
    map gmap (postfix_corner mid k depth (fun t => flt' (gmap t)) bottom t) =
    postfix_corner mid' k depth flt' bottom (gmap t).
  Proof.
    induction k as [|k IH]; intros t; cbn [postfix_corner]; [reflexivity|].
    change (tpos (gmap t)) with (tpos t).
    destruct (Nat.ltb depth (pn (tpos t))); [reflexivity|].
    destruct (Nat.ltb 1 (pn (tpos t)) && negb (flt' (gmap t))); [reflexivity|].
    rewrite map_app. f_equal.
    - rewrite <- gmap_div4. rewrite flat_map_concat_map, concat_map, map_map.
      rewrite flat_map_concat_map, map_map. f_equal. apply map_ext. intros c. apply IH.
    - destruct (Nat.eqb (pn (tpos t)) depth || negb bottom); reflexivity.
  Qed.

  Theorem hom_generate_tiles_filtered depth (flt' : gtile Q -> bool) bottom cs :
    map gmap (generate_tiles_filtered base mid depth (fun t => flt' (gmap t)) bottom cs) =
    generate_tiles_filtered base' mid' depth flt' bottom cs.
  Proof.
    unfold generate_tiles_filtered. rewrite <- gmap_level1.
    rewrite flat_map_concat_map, concat_map, map_map.
    rewrite flat_map_concat_map, map_map. f_equal. apply map_ext. intros t.
    destruct (flt' (gmap t)); [apply hom_postfix|reflexivity].
  Qed.

  Section HomLookup.
    Variable Sc : Type.
    Variable is0 : Sc -> bool.
    Variable gtb : Sc -> Sc -> bool.
    Variable score' : gtile Q -> Sc.
    Let score := fun t => score' (gmap t).

    Lemma hom_pick_child : forall l best cur,
      gmap (pick_child is0 gtb score l best cur) = pick_child is0 gtb score' (map gmap l) best (gmap cur).
    Proof.
      induction l as [|c l IH]; intros best cur; cbn [pick_child map]; [reflexivity|].
      unfold score at 1 2 3. destruct (is0 (score' (gmap c))); [reflexivity|].
      destruct best as [bs|].
      - destruct (gtb (score' (gmap c)) bs); apply IH.
      - apply IH.
    Qed.

    Lemma hom_pick_first0 : forall l last,
      gmap (pick_first0 is0 score l last) = pick_first0 is0 score' (map gmap l) (gmap last).
    Proof.
      induction l as [|c l IH]; intros last; cbn [pick_first0 map]; [reflexivity|].
      unfold score at 1. destruct (is0 (score' (gmap c))); [reflexivity|]. apply IH.
    Qed.

    Lemma hom_lookup_desc : forall fuel t,
      gmap (lookup_desc mid is0 gtb score fuel t) = lookup_desc mid' is0 gtb score' fuel (gmap t).
    Proof.
      induction fuel as [|fuel IH]; intros t; cbn [lookup_desc]; [reflexivity|].
      rewrite IH, hom_pick_child, gmap_div4. reflexivity.
    Qed.

    Theorem hom_lookup cs depth :
      option_map gmap (lookup base mid is0 gtb score cs depth) = lookup base' mid' is0 gtb score' cs depth.
    Proof.
      unfold lookup. destruct depth as [|d]; [reflexivity|]. cbn [option_map]. f_equal.
      rewrite hom_lookup_desc, hom_pick_first0, gmap_level1, gmap_l1_default. reflexivity.
    Qed.
  End HomLookup.
End Hom.

(* the hash algebra is such an image of the terms *)
Theorem hash_tile_at cs p : tile_hash (tile_at Base Mid cs p) = tile_at hbase hmid cs p.
Proof.
  exact (gmap_tile_at pt int Base Mid hbase hmid hash (fun k => eq_refl) (fun a b => eq_refl) cs p).
Qed.

(* ------------------------------------------------------------------ routes agree *)
Section Routes.
  Variable P : Type.
  Variable base : N -> P.
  Variable mid : P -> P -> P.
  Notation tile_at := (tile_at base mid).

  Theorem generate_tiles_iff depth bottom cs t :
    In t (generate_tiles base mid depth bottom cs) <->
    exists p, t = tile_at cs p /\ valid p = true /\ (1 <= pn p <= depth)%nat /\
              (bottom = true -> pn p = depth).
  Proof.
    unfold generate_tiles. rewrite generate_tiles_filtered_iff. split.
    - intros (p & H1 & H2 & H3 & H4 & _). exists p. auto.
    - intros (p & H1 & H2 & H3 & H4). exists p. repeat split; try assumption; try lia.
  Qed.

  Theorem routes_agree_all cs p : valid p = true -> (1 <= pn p)%nat ->
    (forall depth bottom t, In t (generate_tiles base mid depth bottom cs) -> tpos t = p -> t = tile_at cs p) /\
    (forall depth flt bottom t, In t (generate_tiles_filtered base mid depth flt bottom cs) -> tpos t = p ->
                                t = tile_at cs p) /\
    create_single_tile base mid cs p = Some (tile_at cs p) /\
    (forall Sc (is0 : Sc -> bool) gtb score depth t,
        lookup base mid is0 gtb score cs depth = Some t -> tpos t = p -> t = tile_at cs p).
  Proof.
    intros Hv Hn. repeat split.
    - intros depth bottom t Hin Hp. apply generate_tiles_iff in Hin.
      destruct Hin as (q & -> & Hqv & Hqn & _). rewrite tile_at_pos in Hp by (assumption || lia).
      congruence.
    - intros depth flt bottom t Hin Hp. apply generate_tiles_filtered_iff in Hin.
      destruct Hin as (q & -> & Hqv & Hqn & _). rewrite tile_at_pos in Hp by (assumption || lia).
      congruence.
    - apply create_single_tile_spec; assumption.
    - intros Sc is0 gtb score depth t Hl Hp. apply lookup_good in Hl.
      destruct Hl as ((Ht & _) & _). rewrite Ht, Hp. reflexivity.
  Qed.
End Routes.

(* ------------------------------------------------------------------ C12: selection logic *)
Section PickZ.
  Variable P : Type.
  Variable score : gtile P -> Z.
  Notation is0 := (fun s : Z => Z.eqb s 0).
  Notation pickc := (pick_child is0 Z.gtb score).

  (* invariant of the loop once a best score is held: the result is the first zero if there
     is one, else the first element of maximal score among [cur] (score bs) and the rest *)
  Lemma pick_child_some : forall l bs cur, score cur = bs ->
    let r := pickc l (Some bs) cur in
    (forall l1 c l2, l = l1 ++ c :: l2 -> score c = 0%Z -> (forall d, In d l1 -> score d <> 0%Z) -> r = c) /\
    ((forall d, In d l -> score d <> 0%Z) ->
       (score r >= bs)%Z /\ (forall d, In d l -> (score d <= score r)%Z) /\
       ((r = cur /\ forall d, In d l -> (score d <= bs)%Z) \/
        (exists l1 l2, l = l1 ++ r :: l2 /\ (forall d, In d l1 -> (score d < score r)%Z) /\ (bs < score r)%Z))).
  Proof.
    induction l as [|c l IH]; intros bs cur Hcur; cbn [ToastTerm.pick_child].
    - split.
      + intros l1 c l2 H. destruct l1; discriminate.
      + intros _. split; [lia|]. split; [intros d []|]. left. split; [reflexivity|intros d []].
    - destruct (Z.eqb (score c) 0) eqn:E0.
      + apply Z.eqb_eq in E0. split.
        * intros l1 c' l2 H Hz Hnz. destruct l1 as [|d l1].
          -- injection H as -> _. reflexivity.
          -- injection H as <- _. exfalso. apply (Hnz c); [left; reflexivity|assumption].
        * intros Hnz. exfalso. apply (Hnz c); [left; reflexivity|assumption].
      + apply Z.eqb_neq in E0.
        destruct (Z.gtb (score c) bs) eqn:Eg.
        * assert (Hg : (score c > bs)%Z) by (apply Z.gtb_lt in Eg; lia).
          destruct (IH (score c) c eq_refl) as (I1 & I2).
          set (r := pickc l (Some (score c)) c) in *. split.
          -- intros l1 c' l2 H Hz Hnz. destruct l1 as [|d l1].
             ++ injection H as -> _. contradiction.
             ++ injection H as <- H. apply (I1 l1 c' l2 H Hz). intros d' Hd. apply Hnz. right; assumption.
          -- intros Hnz. destruct I2 as (J1 & J2 & J3); [intros d Hd; apply Hnz; right; assumption|].
             split; [lia|]. split.
             ++ intros d [<-|Hd]; [lia|apply J2; assumption].
             ++ right. destruct J3 as [(E & J3)|(l1 & l2 & E & J3 & J4)].
                ** exists [], l. rewrite E. repeat split; [intros d []|lia].
                ** exists (c :: l1), l2. split; [cbn [app]; f_equal; exact E|]. split; [|lia].
                   intros d [<-|Hd]; [lia|apply J3; assumption].
        * assert (Hg : (score c <= bs)%Z) by (rewrite Z.gtb_ltb in Eg; apply Z.ltb_ge in Eg; lia).
          destruct (IH bs cur Hcur) as (I1 & I2).
          set (r := pickc l (Some bs) cur) in *. split.
          -- intros l1 c' l2 H Hz Hnz. destruct l1 as [|d l1].
             ++ injection H as -> _. contradiction.
             ++ injection H as <- H. apply (I1 l1 c' l2 H Hz). intros d' Hd. apply Hnz. right; assumption.
          -- intros Hnz. destruct I2 as (J1 & J2 & J3); [intros d Hd; apply Hnz; right; assumption|].
             split; [assumption|]. split.
             ++ intros d [<-|Hd]; [lia|apply J2; assumption].
             ++ destruct J3 as [(E & J3)|(l1 & l2 & E & J3 & J4)].
                ** left. split; [exact E|]. intros d [<-|Hd]; [lia|apply J3; assumption].
                ** right. exists (c :: l1), l2. split; [cbn [app]; f_equal; exact E|]. split; [|assumption].
                   intros d [<-|Hd]; [lia|apply J3; assumption].
  Qed.

  (* toast.py:284-301 -- "first child with score 0, else the first maximal score" *)
  Theorem pick_child_selects c0 l cur :
    let r := pickc (c0 :: l) None cur in
    (forall l1 c l2, c0 :: l = l1 ++ c :: l2 -> score c = 0%Z -> (forall d, In d l1 -> score d <> 0%Z) -> r = c) /\
    ((forall d, In d (c0 :: l) -> score d <> 0%Z) ->
       exists l1 l2, c0 :: l = l1 ++ r :: l2 /\ (forall d, In d l1 -> (score d < score r)%Z) /\
                     (forall d, In d (c0 :: l) -> (score d <= score r)%Z)).
  Proof.
    cbn [ToastTerm.pick_child]. destruct (Z.eqb (score c0) 0) eqn:E0.
    - apply Z.eqb_eq in E0. split.
      + intros l1 c l2 H Hz Hnz. destruct l1 as [|d l1].
        * injection H as -> _. reflexivity.
        * injection H as <- _. exfalso. apply (Hnz c0); [left; reflexivity|assumption].
      + intros Hnz. exfalso. apply (Hnz c0); [left; reflexivity|assumption].
    - apply Z.eqb_neq in E0. destruct (pick_child_some l (score c0) c0 eq_refl) as (I1 & I2).
      set (r := pickc l (Some (score c0)) c0) in *. split.
      + intros l1 c l2 H Hz Hnz. destruct l1 as [|d l1].
        * injection H as -> _. contradiction.
        * injection H as <- H. apply (I1 l1 c l2 H Hz). intros d' Hd. apply Hnz. right; assumption.
      + intros Hnz. destruct I2 as (J1 & J2 & J3); [intros d Hd; apply Hnz; right; assumption|].
        destruct J3 as [(E & J3)|(l1 & l2 & E & J3 & J4)].
        * exists [], l. rewrite E. repeat split; [intros d []|].
          intros d [<-|Hd]; [lia|]. apply J3. assumption.
        * exists (c0 :: l1), l2. split; [cbn [app]; f_equal; exact E|]. split.
          -- intros d [<-|Hd]; [lia|apply J3; assumption].
          -- intros d [<-|Hd]; [lia|apply J2; assumption].
  Qed.
End PickZ.

(* ------------------------------------------------------------------ C12: nesting *)
Section NestP.
  Variable P : Type.
  Variable base : N -> P.
  Variable mid : P -> P -> P.
  Variable Sc : Type.
  Variable is0 : Sc -> bool.
  Variable gtb : Sc -> Sc -> bool.
  Variable score : gtile P -> Sc.
  Notation lookup := (lookup base mid is0 gtb score).

  Lemma anc_add p a b : anc (anc p a) b = anc p (a + b).
  Proof.
    unfold anc; cbn [pn px py]. rewrite Nat2N.inj_add, N.pow_add_r.
    rewrite !N.div_div by (apply N.pow_nonzero; lia). f_equal. lia.
  Qed.

  Theorem lookup_nested_step cs d t t' :
    lookup cs d = Some t -> lookup cs (S d) = Some t' -> anc (tpos t') 1 = tpos t.
  Proof.
    intros H H'. pose proof (lookup_nested_child P base mid Sc is0 gtb score cs d t t' H H') as Hin.
    apply in_div4 in Hin. destruct Hin as (ix & iy & Hx & Hy & ->).
    rewrite child_pos by assumption. unfold anc; cbn [pn px py]. change (2 ^ N.of_nat 1) with 2.
    destruct (tpos t) as [n x y]; cbn [pn px py]. f_equal; lia.
  Qed.

  (* the depth-d answer is the ancestor of the depth-(d+k) answer *)
  Theorem lookup_nested_all cs d : forall k t t', (1 <= d)%nat ->
    lookup cs d = Some t -> lookup cs (d + k) = Some t' -> anc (tpos t') k = tpos t.
  Proof.
    induction k as [|k IH]; intros t t' Hd H H'.
    - rewrite Nat.add_0_r in H'. rewrite H in H'. injection H' as <-. apply anc_0.
    - replace (d + S k)%nat with (S (d + k)) in H' by lia.
      destruct (lookup cs (d + k)) as [t1|] eqn:E1.
      + pose proof (lookup_nested_step cs (d + k) t1 t' E1 H') as Hs.
        replace (S k) with (1 + k)%nat by lia. rewrite <- anc_add, Hs. apply (IH t t1 Hd H eq_refl).
      + unfold ToastTerm.lookup in E1. destruct (d + k)%nat eqn:E; [lia|discriminate].
  Qed.
End NestP.

(* ------------------------------------------------------------------ C12: level-1 choice *)
Definition corners_of (t : tile) : list pt := [c_ul t; c_ur t; c_lr t; c_ll t].

(* handed the interval index q1, the level-1 loop picks the tile whose equator corners are
   at true longitudes ((q1 + shift) mod 4) * 90 and one quarter turn further, shift = 2 for
   the planetary system *)
Theorem level1_pick_spans cs q1 : q1 < 4 ->
  let t := level1_pick Base cs q1 in
  In (Base ((q1 + lshift cs) mod 4)) (corners_of t) /\
  In (Base ((q1 + 1 + lshift cs) mod 4)) (corners_of t) /\
  In (b_north Base cs) (corners_of t) /\ In (b_south Base cs) (corners_of t).
Proof.
  intros Hq. assert (q1 = 0 \/ q1 = 1 \/ q1 = 2 \/ q1 = 3) as [-> | [-> | [-> | ->]]] by lia;
    destruct cs; vm_compute; tauto.
Qed.

(* the coded test (q1 = the interval of lon itself) is right for the astronomical system ... *)
Theorem level1_coded_astronomical q : q < 4 ->
  In (Base q) (corners_of (level1_pick Base Astro q)) /\ In (Base ((q + 1) mod 4)) (corners_of (level1_pick Base Astro q)).
Proof.
  intros Hq. assert (q = 0 \/ q = 1 \/ q = 2 \/ q = 3) as [-> | [-> | [-> | ->]]] by lia; vm_compute; tauto.
Qed.

(* ... and wrong for the planetary one (F4): no interval gets a tile that touches it *)
Theorem level1_coded_planetary_refuted_term :
  forall q, q < 4 -> ~ In (Base q) (corners_of (level1_pick Base Planet q)) /\
                     ~ In (Base ((q + 1) mod 4)) (corners_of (level1_pick Base Planet q)).
Proof.
  intros q Hq. assert (q = 0 \/ q = 1 \/ q = 2 \/ q = 3) as [-> | [-> | [-> | ->]]] by lia;
    vm_compute; split; intros H; repeat (destruct H as [H|H]; [discriminate|]); exact H.
Qed.

(* the repaired test: interval (q + shift) mod 4 is handed over, and the picked tile spans q *)
Theorem level1_fixed_spans cs q : q < 4 ->
  let t := level1_pick Base cs ((q + lshift cs) mod 4) in
  In (Base q) (corners_of t) /\ In (Base ((q + 1) mod 4)) (corners_of t).
Proof.
  intros Hq. assert (q = 0 \/ q = 1 \/ q = 2 \/ q = 3) as [-> | [-> | [-> | ->]]] by lia;
    destruct cs; vm_compute; tauto.
Qed.

(* ------------------------------------------------------------------ documented layout, every depth *)
(* lattice of depth m+1: c = 2^m is the middle index, 2c the last one *)
Theorem layout_all_depths cs : forall m, let c := 2 ^ N.of_nat m in
  vertex1 cs m c c = b_north Base cs /\
  vertex1 cs m 0 0 = b_south Base cs /\ vertex1 cs m (2 * c) 0 = b_south Base cs /\
  vertex1 cs m 0 (2 * c) = b_south Base cs /\ vertex1 cs m (2 * c) (2 * c) = b_south Base cs /\
  vertex1 cs m (2 * c) c = b_eq Base cs 0 /\ vertex1 cs m c 0 = b_eq Base cs 1 /\
  vertex1 cs m 0 c = b_eq Base cs 2 /\ vertex1 cs m c (2 * c) = b_eq Base cs 3.
Proof.
  induction m as [|m IH].
  - destruct cs; repeat split; reflexivity.
  - destruct IH as (I1 & I2 & I3 & I4 & I5 & I6 & I7 & I8 & I9).
    cbv zeta. rewrite pow2_S. set (c := 2 ^ N.of_nat m) in *.
    rewrite !vertex1_even_even, !V_e0, !V_0e. change (vertex1 cs (S m) 0 0) with (vertex1 cs (S m) (2 * 0) (2 * 0)).
    rewrite vertex1_even_even. repeat split; assumption.
Qed.

(* a term built from equator vertices only *)
Fixpoint equatorial (p : pt) : bool :=
  match p with Base k => k <? 4 | Mid a b => equatorial a && equatorial b end.

Lemma incr_at_quadrant m x y : let c := 2 ^ N.of_nat m in
  incr_at (S m) x y = Bool.eqb (x <? c) (y <? c).
Proof. reflexivity. Qed.

(* the equator is the inscribed diamond: its four sides, at every depth *)
Theorem diamond_is_equator cs : forall m i j, let c := 2 ^ N.of_nat m in
  i <= 2 * c -> j <= 2 * c ->
  (i + j = c \/ i = j + c \/ j = i + c \/ i + j = 3 * c) ->
  equatorial (vertex1 cs m i j) = true.
Proof.
  induction m as [|m IH]; intros i j c Hi Hj Hd.
  - change (2 ^ N.of_nat 0) with 1 in c. unfold c in *.
    assert ((i = 1 /\ j = 0) \/ (i = 0 /\ j = 1) \/ (i = 2 /\ j = 1) \/ (i = 1 /\ j = 2)) as [[-> ->]|[[-> ->]|[[-> ->]|[-> ->]]]] by lia;
      destruct cs; reflexivity.
  - unfold c in *. clear c. rewrite pow2_S in *. set (c := 2 ^ N.of_nat m) in *.
    assert (Hc : 0 < c) by apply pow2_pos.
    destruct (half_cases i) as [[a ->]|[a ->]]; destruct (half_cases j) as [[b ->]|[b ->]]; try lia.
    + rewrite vertex1_even_even. apply IH; fold c; lia.
    + rewrite vertex1_odd_odd, incr_at_quadrant. fold c.
      destruct (N.ltb_spec a c), (N.ltb_spec b c); cbn [Bool.eqb equatorial];
        apply andb_true_iff; split; apply IH; fold c; lia.
Qed.
