(* cli.tile_healpix_impl as TRANSLATED from toasty/cli.py on every build (Generated/CliHealpixSrc.v;
   harness/py2coq.py) behaves like the hand-written model (Model/CliScript.v) under every valuation
   of its settings, and in the model every setting reaches the argument it is meant for. *)
From Coq Require Import ZArith String List Bool.
From Toasty Require Import Model.SrcPrelude Model.CliScript.
From Toasty Require Import Generated.CliHealpixSrc.
Import ListNotations.
Local Open Scope string_scope.

Lemma src_tile_healpix_impl_eq (is_none : sval unit -> bool) (eq_lit : sval unit -> string -> bool) (is_true : sval unit -> bool) :
  run_tree is_none eq_lit is_true src_cli_tile_healpix_impl = tile_healpix_impl_model.
Proof. reflexivity. Qed.

(* exactly two calls, both on one builder over a FITS pyramid at --outdir: the sampling, then the WTML *)
Lemma healpix_calls :
  exists e1 e2, tile_healpix_impl_model = (true, [e1; e2]) /\
    call_name e1 = "toast_base" /\ call_name e2 = "write_index_rel_wtml" /\
    call_recv e1 = Some hp_builder /\ call_recv e2 = Some hp_builder /\
    hp_builder = SNewP "Builder" [pyramid_at (setting "outdir") [("default_format", SStr "fits")]] [].
Proof. do 2 eexists. repeat split. Qed.

(* --depth is the sampled depth, --parallelism the worker count, the sampler reads --fitspath with
   force_galactic = --galactic; no coordinate system, planet / panorama flag or tile filter is
   given, so Builder.toast_base's defaults (sky layout, unfiltered core) apply *)
Lemma healpix_plumbing :
  forall e, nth_error (snd tile_healpix_impl_model) 0 = Some e ->
    call_pos e = [SNewP "healpix_fits_file_sampler" [setting "fitspath"] [("force_galactic", setting "galactic")];
                  setting "depth"] /\
    call_kw "parallel" e = Some (setting "parallelism") /\
    call_kw "coordsys" e = None /\ call_kw "is_planet" e = None /\ call_kw "is_pano" e = None /\
    call_kw "tile_filter" e = None.
Proof. intros e H. injection H as <-. repeat split. Qed.
