(* Lemmas about Model/Sampler.v (C11). *)
From Coq Require Import ZArith QArith Qround Qabs Lia Lqa Setoid Morphisms.
From Toasty Require Import Model.Sampler.
Local Open Scope Q_scope.

(* ------------------------------------------------------------------ floor *)

Lemma inject_Z_succ k : inject_Z (k + 1) == inject_Z k + 1.
Proof. rewrite inject_Z_plus. reflexivity. Qed.

Lemma Qfloor_spec x : inject_Z (Qfloor x) <= x /\ x < inject_Z (Qfloor x) + 1.
Proof.
  split. apply Qfloor_le.
  pose proof (Qlt_floor x) as H. rewrite inject_Z_succ in H. exact H.
Qed.

Lemma inject_Z_lt_inv a b : inject_Z a < inject_Z b -> (a < b)%Z.
Proof. intros H. rewrite Zlt_Qlt. exact H. Qed.

Lemma Qfloor_unique x k : inject_Z k <= x -> x < inject_Z k + 1 -> Qfloor x = k.
Proof.
  intros H1 H2. destruct (Qfloor_spec x) as [F1 F2].
  assert (A : inject_Z (Qfloor x) < inject_Z (k + 1)) by (rewrite inject_Z_succ; lra).
  assert (B : inject_Z k < inject_Z (Qfloor x + 1)) by (rewrite inject_Z_succ; lra).
  apply inject_Z_lt_inv in A. apply inject_Z_lt_inv in B. lia.
Qed.

Lemma Qfloor_add_Z x k : Qfloor (x + inject_Z k) = (Qfloor x + k)%Z.
Proof.
  destruct (Qfloor_spec x) as [F1 F2].
  apply Qfloor_unique; rewrite inject_Z_plus; lra.
Qed.

(* ------------------------------------------------------------------ round *)

Global Instance round_half_even_comp : Proper (Qeq ==> eq) round_half_even.
Proof.
  intros x y E. unfold round_half_even.
  rewrite (Qfloor_comp _ _ E).
  assert (E2 : 2 * (x - inject_Z (Qfloor y)) == 2 * (y - inject_Z (Qfloor y))) by (rewrite E; reflexivity).
  rewrite (Qcompare_comp _ _ E2 1 1 (Qeq_refl 1)). reflexivity.
Qed.

Lemma round_half_even_spec x :
  inject_Z (round_half_even x) - (1 # 2) <= x /\ x <= inject_Z (round_half_even x) + (1 # 2).
Proof.
  unfold round_half_even. destruct (Qfloor_spec x) as [F1 F2].
  set (f := Qfloor x) in *.
  destruct (Qcompare (2 * (x - inject_Z f)) 1) eqn:C.
  - apply Qeq_alt in C.
    destruct (Z.even f); [| rewrite inject_Z_succ]; lra.
  - apply Qlt_alt in C. lra.
  - apply Qgt_alt in C. rewrite inject_Z_succ. lra.
Qed.

(* a value strictly inside (k - 1/2, k + 1/2) rounds to k *)
Lemma round_half_even_interior x k :
  inject_Z k - (1 # 2) < x -> x < inject_Z k + (1 # 2) -> round_half_even x = k.
Proof.
  intros H1 H2. destruct (round_half_even_spec x) as [R1 R2].
  set (c := round_half_even x) in *.
  assert (A : inject_Z c < inject_Z (k + 1)) by (rewrite inject_Z_succ; lra).
  assert (B : inject_Z k < inject_Z (c + 1)) by (rewrite inject_Z_succ; lra).
  apply inject_Z_lt_inv in A. apply inject_Z_lt_inv in B. lia.
Qed.

Lemma clip_range k n : (1 <= n)%Z -> (0 <= clip k 0 (n - 1) < n)%Z.
Proof. unfold clip. lia. Qed.

(* centre lemma: an edge-measured coordinate u in [0, n] (pixels), shifted by the
   half-pixel offset of the pixel centres, rounded and clipped, gives a cell
   [k, k+1] that contains u. *)
Lemma round_clip_cell (n : Z) (u : Q) :
  (1 <= n)%Z -> 0 <= u -> u <= inject_Z n ->
  let k := clip (round_half_even (u - (1 # 2))) 0 (n - 1) in
  (0 <= k < n)%Z /\ inject_Z k <= u /\ u <= inject_Z k + 1.
Proof.
  intros Hn H0 H1 k. split. apply clip_range; exact Hn.
  subst k. destruct (round_half_even_spec (u - (1 # 2))) as [R1 R2].
  set (c := round_half_even (u - (1 # 2))) in *.
  unfold clip.
  destruct (Z_lt_le_dec c 0) as [Hneg | Hnn].
  - (* c <= -1: then u <= 0, so u = 0; clipped to 0 *)
    assert (Hc : inject_Z c <= inject_Z (-1)) by (rewrite <- Zle_Qle; lia).
    change (inject_Z (-1)) with (-(1)) in Hc.
    replace (Z.min (Z.max c 0) (n - 1)) with 0%Z by lia.
    change (inject_Z 0) with 0. lra.
  - destruct (Z_lt_le_dec (n - 1) c) as [Hbig | Hsmall].
    + (* c >= n: then u >= n, so u = n; clipped to n-1 *)
      assert (Hc : inject_Z n <= inject_Z c) by (rewrite <- Zle_Qle; lia).
      replace (Z.min (Z.max c 0) (n - 1)) with (n - 1)%Z by lia.
      assert (En : inject_Z n == inject_Z (n - 1) + 1) by (rewrite <- inject_Z_succ; apply inject_Z_injective; lia).
      lra.
    + replace (Z.min (Z.max c 0) (n - 1)) with c by lia. lra.
Qed.

(* u strictly inside cell k (0 <= k < n) gives exactly k *)
Lemma round_clip_interior (n k : Z) (u : Q) :
  (0 <= k < n)%Z -> inject_Z k < u -> u < inject_Z k + 1 ->
  clip (round_half_even (u - (1 # 2))) 0 (n - 1) = k.
Proof.
  intros Hk H1 H2.
  rewrite (round_half_even_interior (u - (1 # 2)) k) by lra.
  unfold clip. lia.
Qed.

(* ------------------------------------------------------------------ float % *)

Global Instance fmod_comp : Proper (Qeq ==> Qeq ==> Qeq) fmod.
Proof.
  intros a a' Ea m m' Em. unfold fmod.
  assert (E : a / m == a' / m') by (rewrite Ea, Em; reflexivity).
  rewrite (Qfloor_comp _ _ E). rewrite Ea, Em. reflexivity.
Qed.

Lemma fmod_range a m : 0 < m -> 0 <= fmod a m /\ fmod a m < m.
Proof.
  intros Hm. unfold fmod. destruct (Qfloor_spec (a / m)) as [F1 F2].
  set (f := inject_Z (Qfloor (a / m))) in *.
  assert (Ea : a == (a / m) * m) by (field; lra).
  assert (A : f * m <= (a / m) * m) by (apply Qmult_le_compat_r; lra).
  assert (B : (a / m) * m < (f + 1) * m) by (apply Qmult_lt_compat_r; lra).
  split; lra.
Qed.

Lemma fmod_period a m (k : Z) : 0 < m -> fmod (a + inject_Z k * m) m == fmod a m.
Proof.
  intros Hm. unfold fmod.
  assert (E : (a + inject_Z k * m) / m == a / m + inject_Z k) by (field; lra).
  rewrite (Qfloor_comp _ _ E), Qfloor_add_Z, inject_Z_plus. ring.
Qed.

Lemma fmod_congruent a m : exists k : Z, fmod a m == a - inject_Z k * m.
Proof. exists (Qfloor (a / m)). unfold fmod. ring. Qed.

(* ------------------------------------------------------------------ the samplers *)

Section WithPi.
  Variable pi : Q.
  Hypothesis pi_pos : 0 < pi.

  Global Instance normalise_comp k : Proper (Qeq ==> Qeq) (normalise pi k).
  Proof. intros a b E. unfold normalise. destruct k; rewrite E; reflexivity. Qed.

  (* principal range of each normalisation *)
  Definition norm_lo (k : norm_kind) : Q := match k with NormZero => 0 | _ => - pi end.

  Lemma normalise_range k lon :
    norm_lo k <= normalise pi k lon /\ normalise pi k lon < norm_lo k + 2 * pi.
  Proof.
    unfold normalise, norm_lo.
    destruct k.
    - destruct (fmod_range (lon + pi) (2 * pi)); lra.
    - destruct (fmod_range lon (2 * pi)); lra.
    - destruct (fmod_range lon (2 * pi)); lra.
  Qed.

  (* what the normalised value is congruent to, modulo 2 pi *)
  Definition norm_shift (k : norm_kind) : Q := match k with NormEcl => pi | _ => 0 end.

  Lemma normalise_congruent k lon :
    exists j : Z, normalise pi k lon == lon - norm_shift k - inject_Z j * (2 * pi).
  Proof.
    unfold normalise, norm_shift. destruct k.
    - destruct (fmod_congruent (lon + pi) (2 * pi)) as [j E]. exists j. rewrite E. ring.
    - destruct (fmod_congruent lon (2 * pi)) as [j E]. exists j. rewrite E. ring.
    - destruct (fmod_congruent lon (2 * pi)) as [j E]. exists j. rewrite E. ring.
  Qed.

  Lemma normalise_period k lon (j : Z) :
    normalise pi k (lon + inject_Z j * (2 * pi)) == normalise pi k lon.
  Proof.
    unfold normalise. destruct k.
    - assert (E : lon + inject_Z j * (2 * pi) + pi == (lon + pi) + inject_Z j * (2 * pi)) by ring.
      rewrite E, fmod_period by lra. reflexivity.
    - rewrite fmod_period by lra. reflexivity.
    - rewrite fmod_period by lra. reflexivity.
  Qed.

  (* edge-measured pixel coordinate of a normalised longitude *)
  Definition u_of (v : variant) (nx : Z) (l : Q) : Q :=
    match dir_of v with
    | Leftward => (left_edge pi v - l) * (inject_Z nx / (2 * pi))
    | Rightward => (l - left_edge pi v) * (inject_Z nx / (2 * pi))
    end.

  Lemma inject_pos n : (1 <= n)%Z -> 0 < inject_Z n.
  Proof. intros H. change 0 with (inject_Z 0). rewrite <- Zlt_Qlt. lia. Qed.

  Lemma ix_raw_u v nx l : (1 <= nx)%Z -> ix_raw pi v nx l == u_of v nx l - (1 # 2).
  Proof.
    intros Hn. pose proof (inject_pos nx Hn) as Hp.
    unfold ix_raw, u_of, lon0, dx, left_edge.
    destruct v; cbn [dir_of]; field; split; lra.
  Qed.

  Global Instance ix_raw_comp v nx : Proper (Qeq ==> Qeq) (ix_raw pi v nx).
  Proof. intros a b E. unfold ix_raw. destruct (dir_of v); rewrite E; reflexivity. Qed.

  Global Instance iy_raw_comp ny : Proper (Qeq ==> Qeq) (iy_raw pi ny).
  Proof. intros a b E. unfold iy_raw. rewrite E. reflexivity. Qed.

  Global Instance col_comp v nx : Proper (Qeq ==> eq) (col pi v nx).
  Proof. intros a b E. unfold col. rewrite E. reflexivity. Qed.

  Global Instance row_comp ny : Proper (Qeq ==> eq) (row pi ny).
  Proof. intros a b E. unfold row. rewrite E. reflexivity. Qed.

  (* the left edge / direction of each variant matches the range of its normalisation *)
  Lemma u_of_bounds v nx l :
    (1 <= nx)%Z ->
    norm_lo (norm_of v) <= l -> l < norm_lo (norm_of v) + 2 * pi ->
    0 <= u_of v nx l /\ u_of v nx l <= inject_Z nx.
  Proof.
    intros Hn Hlo Hhi. pose proof (inject_pos nx Hn) as Hp.
    set (c := inject_Z nx / (2 * pi)).
    assert (Hc : 0 < c).
    { unfold c. apply Qlt_shift_div_l; lra. }
    assert (Hfull : 2 * pi * c == inject_Z nx) by (unfold c; field; lra).
    assert (G : forall d, 0 <= d -> d <= 2 * pi -> 0 <= d * c /\ d * c <= inject_Z nx).
    { intros d D0 D1. split.
      - apply Qmult_le_0_compat; lra.
      - rewrite <- Hfull. apply Qmult_le_compat_r; lra. }
    unfold u_of. fold c.
    destruct v; cbn [dir_of left_edge norm_of norm_lo] in *; apply G; lra.
  Qed.

  (* from pixel units to angles *)
  Lemma cell_of_u v nx (k : Z) l :
    (1 <= nx)%Z ->
    inject_Z k <= u_of v nx l -> u_of v nx l <= inject_Z k + 1 ->
    col_cell_contains pi v nx k l.
  Proof.
    intros Hn H1 H2. pose proof (inject_pos nx Hn) as Hp.
    set (c := inject_Z nx / (2 * pi)) in *.
    set (w := cell_w pi nx).
    assert (Hw : 0 < w).
    { unfold w, cell_w. apply Qlt_shift_div_l; lra. }
    assert (Hcw : forall d, d * c * w == d) by (intro d; unfold c, w, cell_w; field; split; lra).
    unfold col_cell_contains, u_of in *. fold c in H1, H2. fold w.
    destruct (dir_of v).
    - apply (Qmult_le_compat_r _ _ w) in H1; [| lra].
      apply (Qmult_le_compat_r _ _ w) in H2; [| lra].
      rewrite Hcw in H1, H2. lra.
    - apply (Qmult_le_compat_r _ _ w) in H1; [| lra].
      apply (Qmult_le_compat_r _ _ w) in H2; [| lra].
      rewrite Hcw in H1, H2. lra.
  Qed.

  Lemma u_of_cell v nx (k : Z) l :
    (1 <= nx)%Z ->
    match dir_of v with
    | Leftward => left_edge pi v - (inject_Z k + 1) * cell_w pi nx < l /\ l < left_edge pi v - inject_Z k * cell_w pi nx
    | Rightward => left_edge pi v + inject_Z k * cell_w pi nx < l /\ l < left_edge pi v + (inject_Z k + 1) * cell_w pi nx
    end ->
    inject_Z k < u_of v nx l /\ u_of v nx l < inject_Z k + 1.
  Proof.
    intros Hn H. pose proof (inject_pos nx Hn) as Hp.
    set (c := inject_Z nx / (2 * pi)) in *.
    set (w := cell_w pi nx) in *.
    assert (Hc : 0 < c).
    { unfold c. apply Qlt_shift_div_l; lra. }
    assert (Hwc : forall d, d * w * c == d) by (intro d; unfold c, w, cell_w; field; split; lra).
    unfold u_of. fold c.
    destruct (dir_of v); destruct H as [A B].
    - assert (A' : (inject_Z k) * w * c < (left_edge pi v - l) * c) by (apply Qmult_lt_compat_r; lra).
      assert (B' : (left_edge pi v - l) * c < (inject_Z k + 1) * w * c) by (apply Qmult_lt_compat_r; lra).
      rewrite Hwc in A', B'. split; assumption.
    - assert (A' : (inject_Z k) * w * c < (l - left_edge pi v) * c) by (apply Qmult_lt_compat_r; lra).
      assert (B' : (l - left_edge pi v) * c < (inject_Z k + 1) * w * c) by (apply Qmult_lt_compat_r; lra).
      rewrite Hwc in A', B'. split; assumption.
  Qed.

  (* --- columns --- *)

  Lemma col_in_range v nx lon : (1 <= nx)%Z -> (0 <= col pi v nx lon < nx)%Z.
  Proof. intros. unfold col. apply clip_range; assumption. Qed.

  Lemma col_contains v nx lon :
    (1 <= nx)%Z ->
    col_cell_contains pi v nx (col pi v nx lon) (normalise pi (norm_of v) lon).
  Proof.
    intros Hn. set (l := normalise pi (norm_of v) lon).
    destruct (normalise_range (norm_of v) lon) as [L1 L2]. fold l in L1, L2.
    destruct (u_of_bounds v nx l Hn L1 L2) as [U1 U2].
    destruct (round_clip_cell nx (u_of v nx l) Hn U1 U2) as [_ [K1 K2]].
    apply cell_of_u; [exact Hn | |]; unfold col; fold l;
      rewrite (ix_raw_u v nx l Hn); assumption.
  Qed.

  Lemma col_interior v nx lon (k : Z) :
    (0 <= k < nx)%Z ->
    let l := normalise pi (norm_of v) lon in
    match dir_of v with
    | Leftward => left_edge pi v - (inject_Z k + 1) * cell_w pi nx < l /\ l < left_edge pi v - inject_Z k * cell_w pi nx
    | Rightward => left_edge pi v + inject_Z k * cell_w pi nx < l /\ l < left_edge pi v + (inject_Z k + 1) * cell_w pi nx
    end ->
    col pi v nx lon = k.
  Proof.
    intros Hk l H. assert (Hn : (1 <= nx)%Z) by lia.
    destruct (u_of_cell v nx k l Hn H) as [A B].
    unfold col. fold l. rewrite (ix_raw_u v nx l Hn).
    apply round_clip_interior; assumption.
  Qed.

  Lemma col_periodic v nx lon (j : Z) :
    col pi v nx (lon + inject_Z j * (2 * pi)) = col pi v nx lon.
  Proof. unfold col. rewrite normalise_period. reflexivity. Qed.

  (* --- rows --- *)

  Lemma half_pi_eq : pi == 2 * (pi / 2).
  Proof. field. Qed.

  Definition v_of (ny : Z) (lat : Q) : Q := (pi / 2 - lat) * (inject_Z ny / pi).

  Lemma iy_raw_v ny lat : (1 <= ny)%Z -> iy_raw pi ny lat == v_of ny lat - (1 # 2).
  Proof.
    intros Hn. pose proof (inject_pos ny Hn) as Hp.
    unfold iy_raw, v_of, lat0, dy. field; split; lra.
  Qed.

  Lemma row_in_range ny lat : (1 <= ny)%Z -> (0 <= row pi ny lat < ny)%Z.
  Proof. intros. unfold row. apply clip_range; assumption. Qed.

  Lemma row_contains ny lat :
    (1 <= ny)%Z -> - (pi / 2) <= lat -> lat <= pi / 2 ->
    row_cell_contains pi ny (row pi ny lat) lat.
  Proof.
    intros Hn L1 L2. pose proof (inject_pos ny Hn) as Hp.
    set (c := inject_Z ny / pi).
    assert (Hc : 0 < c) by (unfold c; apply Qlt_shift_div_l; lra).
    assert (Hfull : pi * c == inject_Z ny) by (unfold c; field; lra).
    pose proof half_pi_eq as Hhp. unfold row_cell_contains, v_of.
    set (hp := pi / 2) in *.
    assert (U1 : 0 <= (hp - lat) * c) by (apply Qmult_le_0_compat; lra).
    assert (U2 : (hp - lat) * c <= inject_Z ny).
    { rewrite <- Hfull. apply Qmult_le_compat_r; lra. }
    destruct (round_clip_cell ny ((hp - lat) * c) Hn U1 U2) as [_ [K1 K2]].
    unfold row. rewrite (iy_raw_v ny lat Hn). unfold v_of. fold hp c.
    set (k := clip (round_half_even ((hp - lat) * c - (1 # 2))) 0 (ny - 1)) in *.
    set (h := cell_h pi ny).
    assert (Hh : 0 < h) by (unfold h, cell_h; apply Qlt_shift_div_l; lra).
    assert (Hch : forall d, d * c * h == d) by (intro d; unfold c, h, cell_h; field; split; lra).
    fold h.
    apply (Qmult_le_compat_r _ _ h) in K1; [| lra].
    apply (Qmult_le_compat_r _ _ h) in K2; [| lra].
    rewrite Hch in K1, K2. lra.
  Qed.

  Lemma row_interior ny lat (k : Z) :
    (0 <= k < ny)%Z ->
    pi / 2 - (inject_Z k + 1) * cell_h pi ny < lat -> lat < pi / 2 - inject_Z k * cell_h pi ny ->
    row pi ny lat = k.
  Proof.
    intros Hk A B. assert (Hn : (1 <= ny)%Z) by lia. pose proof (inject_pos ny Hn) as Hp.
    set (c := inject_Z ny / pi).
    set (h := cell_h pi ny) in *.
    assert (Hc : 0 < c) by (unfold c; apply Qlt_shift_div_l; lra).
    assert (Hhc : forall d, d * h * c == d) by (intro d; unfold c, h, cell_h; field; split; lra).
    set (hp := pi / 2) in *.
    assert (A' : inject_Z k * h * c < (hp - lat) * c) by (apply Qmult_lt_compat_r; lra).
    assert (B' : (hp - lat) * c < (inject_Z k + 1) * h * c) by (apply Qmult_lt_compat_r; lra).
    rewrite Hhc in A', B'.
    unfold row. rewrite (iy_raw_v ny lat Hn). unfold v_of. fold c hp.
    apply round_clip_interior; assumption.
  Qed.

  Lemma normalise_spec k lon :
    (norm_lo k <= normalise pi k lon /\ normalise pi k lon < norm_lo k + 2 * pi)
    /\ exists j : Z, normalise pi k lon == lon - norm_shift k - inject_Z j * (2 * pi).
  Proof. split. apply normalise_range. apply normalise_congruent. Qed.

  Lemma interior_cell v nx ny lon lat (kx ky : Z) :
    (0 <= kx < nx)%Z -> (0 <= ky < ny)%Z ->
    (let l := normalise pi (norm_of v) lon in
     match dir_of v with
     | Leftward => left_edge pi v - (inject_Z kx + 1) * cell_w pi nx < l /\ l < left_edge pi v - inject_Z kx * cell_w pi nx
     | Rightward => left_edge pi v + inject_Z kx * cell_w pi nx < l /\ l < left_edge pi v + (inject_Z kx + 1) * cell_w pi nx
     end) ->
    pi / 2 - (inject_Z ky + 1) * cell_h pi ny < lat -> lat < pi / 2 - inject_Z ky * cell_h pi ny ->
    row pi ny lat = ky /\ col pi v nx lon = kx.
  Proof.
    intros Hx Hy Hc H1 H2. split.
    - apply row_interior; assumption.
    - apply col_interior; assumption.
  Qed.

  (* --- whole sampler, with the rotation oracle --- *)

  Section Oracle.
    Variable rot : Q -> Q -> Q * Q.

    Lemma sample_in_range v nx ny lon lat :
      (1 <= nx)%Z -> (1 <= ny)%Z ->
      let r := sample pi rot v nx ny lon lat in
      (0 <= fst r < ny)%Z /\ (0 <= snd r < nx)%Z.
    Proof.
      intros Hx Hy. cbn. split; [apply row_in_range | apply col_in_range]; assumption.
    Qed.

    Lemma sample_contains v nx ny lon lat :
      (1 <= nx)%Z -> (1 <= ny)%Z ->
      let lb := frame rot v lon lat in
      - (pi / 2) <= snd lb -> snd lb <= pi / 2 ->
      let r := sample pi rot v nx ny lon lat in
      row_cell_contains pi ny (fst r) (snd lb) /\
      col_cell_contains pi v nx (snd r) (normalise pi (norm_of v) (fst lb)).
    Proof.
      intros Hx Hy lb L1 L2. cbn. fold lb. split.
      - apply row_contains; assumption.
      - apply col_contains; assumption.
    Qed.

    (* the unrotated variants: frame is the identity, no hypothesis on [rot] *)
    Lemma sample_contains_direct v nx ny lon lat :
      rotates v = false ->
      (1 <= nx)%Z -> (1 <= ny)%Z -> - (pi / 2) <= lat -> lat <= pi / 2 ->
      let r := sample pi rot v nx ny lon lat in
      row_cell_contains pi ny (fst r) lat /\
      col_cell_contains pi v nx (snd r) (normalise pi (norm_of v) lon).
    Proof.
      intros Hr Hx Hy L1 L2.
      pose proof (sample_contains v nx ny lon lat Hx Hy) as H.
      unfold frame in H. rewrite Hr in H. cbn [fst snd] in H. apply H; assumption.
    Qed.

    Lemma sample_periodic_direct v nx ny lon lat (j : Z) :
      rotates v = false ->
      sample pi rot v nx ny (lon + inject_Z j * (2 * pi)) lat = sample pi rot v nx ny lon lat.
    Proof.
      intros Hr. unfold sample, frame. rewrite Hr. cbn [fst snd].
      rewrite col_periodic. reflexivity.
    Qed.

    (* rotated variants: periodic as soon as the rotation is (up to a whole
       number of turns in the rotated longitude, same rotated latitude) *)
    Lemma sample_periodic_rotated v nx ny lon lat (j : Z) :
      (exists i : Z,
          fst (rot (lon + inject_Z j * (2 * pi)) lat) == fst (rot lon lat) + inject_Z i * (2 * pi) /\
          snd (rot (lon + inject_Z j * (2 * pi)) lat) == snd (rot lon lat)) ->
      sample pi rot v nx ny (lon + inject_Z j * (2 * pi)) lat = sample pi rot v nx ny lon lat.
    Proof.
      intros [i [E1 E2]]. destruct (rotates v) eqn:Hr.
      - unfold sample, frame. rewrite Hr. rewrite E1, E2, col_periodic. reflexivity.
      - apply sample_periodic_direct. exact Hr.
    Qed.
  End Oracle.
End WithPi.

(* ------------------------------------------------------------------ the astropy call as written *)

Lemma sample_fixed_total pi rot v nx ny lon lat :
  sample_fixed pi rot v nx ny lon lat = Some (sample pi rot v nx ny lon lat).
Proof. destruct v; reflexivity. Qed.

Lemma sample_coded_other pi rot v nx ny lon lat :
  v <> Galactic -> sample_coded pi rot v nx ny lon lat = Some (sample pi rot v nx ny lon lat).
Proof. destruct v; intros H; try reflexivity. contradiction H; reflexivity. Qed.

Lemma sample_coded_galactic_raises pi rot nx ny lon lat :
  sample_coded pi rot Galactic nx ny lon lat = None.
Proof. reflexivity. Qed.

Lemma sample_coded_refuted :
  exists pi rot v nx ny lon lat,
    0 < pi /\ (1 <= nx)%Z /\ (1 <= ny)%Z /\ - (pi / 2) <= lat /\ lat <= pi / 2 /\
    sample_coded pi rot v nx ny lon lat = None.
Proof.
  exists (355 # 113), (fun l b => (l, b)), Galactic, 4%Z, 2%Z, (1 # 10), (1 # 5).
  vm_compute. repeat split; discriminate.
Qed.

(* ------------------------------------------------------------------ non-vacuity / sanity *)

(* pi := 355/113; a 4 x 2 map; lon = 1/10, lat = 1/5 *)
Example sample_example :
  sample (355 # 113) (fun l b => (l, b)) PlateCarree 4 2 (1 # 10) (1 # 5) = (0%Z, 1%Z)
  /\ sample (355 # 113) (fun l b => (l, b)) Planet 4 2 (1 # 10) (1 # 5) = (0%Z, 2%Z)
  /\ sample (355 # 113) (fun l b => (l, b)) ZeroRight 4 2 (1 # 10) (1 # 5) = (0%Z, 3%Z)
  /\ sample (355 # 113) (fun l b => (l, b)) PlanetZeroLeft 4 2 (1 # 10) (1 # 5) = (0%Z, 0%Z)
  /\ sample (355 # 113) (fun l b => (l, b)) Ecliptic 4 2 (1 # 10) (1 # 5) = (0%Z, 3%Z).
Proof. vm_compute. repeat split. Qed.
