(* Composition of C02 (cascade), C01 (parallel walk) and C13 (enumeration).

   C02 proves that the cascade leaves the same store for every callback order that
   is a [valid_order] (Model/Merge.v).  Here it is proved that
     - the serial walk's callback list (walk_serial P = spec_ops P, C13), and
     - the callback positions of EVERY returned run of the parallel walk LTS
       (Model/WalkPar.v, C01), taken in the order of their End events,
   are valid orders for the cascade over the pyramid cascade_images builds
   (merge.py:108-116: Pyramid.new_generic(start), or new_toast_filtered(start, f)),
   so that running the merge callbacks in either order gives the same store.

   Positions: Model/Merge.v and Model/WalkPar.v both use [pos] of Model/Quadtree.v
   and the same [children]; no translation is needed.

   What remains a modelling assumption (not derivable from the two models, because
   Model/WalkPar.v does not carry the tile store): the effect of the callback of p
   on the store is that of [walk_callback_gen] applied at some instant between its
   Start and its End event, it reads only the files of [children p] and writes only
   the file of p.  Under that reading the instant does not matter:
     [walk_par_no_interference]  two callbacks that are in progress at the same time
        are different tiles and neither is a child of the other, i.e. neither
        writes a file the other reads or writes;
     [walk_par_reads_settled]    when the callback of p starts, every child of p
        that is written at all during the walk has already been written (its End
        is in the past) and is never written again;
     [replay_eq_cascade]         a store semantics over the event log in which the
        children are read at the Start event and the parent is written at the End
        event (the two extreme instants) produces exactly [cascade_gen] over the
        End order. *)
From Coq Require Import List ZArith NArith Arith Bool Lia Permutation.
From Toasty Require Import Model.Quadtree Model.Reducer Model.WalkPar Model.Mask Model.Merge.
From Toasty Require Import Proofs.QuadtreeP Proofs.ReducerP Proofs.EnumP Proofs.CountsP
     Proofs.WalkParDefs Proofs.WalkParAux Proofs.WalkParInv Proofs.WalkParP
     Proofs.MaskP Proofs.MergeP.
Import ListNotations.

(* ---- the callback log ------------------------------------------------------------- *)

(* callback positions in the order of their End events, oldest first *)
Definition end_order (s : wstate) : list pos := rev (ends (cblog s)).

Lemma ends_app l1 l2 : ends (l1 ++ l2) = ends l1 ++ ends l2.
Proof. unfold ends. rewrite filter_app, map_app. reflexivity. Qed.

Lemma starts_app l1 l2 : starts (l1 ++ l2) = starts l1 ++ starts l2.
Proof. unfold starts. rewrite filter_app, map_app. reflexivity. Qed.

Lemma ends_split lg : forall A p B,
  ends lg = A ++ p :: B ->
  exists l1 w l2, lg = l1 ++ (true, p, w) :: l2 /\ ends l1 = A /\ ends l2 = B.
Proof.
  induction lg as [|[[b q] w] lg IH]; intros A p B E.
  - destruct A; discriminate.
  - destruct b.
    + rewrite ends_cons_e in E. destruct A as [|a A]; cbn [app] in E.
      * injection E as -> <-. exists [], w, lg. repeat split.
      * injection E as -> E. destruct (IH _ _ _ E) as (l1 & w' & l2 & -> & <- & <-).
        exists ((true, a, w) :: l1), w', l2. repeat split.
    + rewrite ends_cons_s in E. destruct (IH _ _ _ E) as (l1 & w' & l2 & -> & <- & <-).
      exists ((false, q, w) :: l1), w', l2. repeat split.
Qed.

Lemma starts_split lg : forall A p B,
  starts lg = A ++ p :: B ->
  exists l1 w l2, lg = l1 ++ (false, p, w) :: l2 /\ starts l1 = A /\ starts l2 = B.
Proof.
  induction lg as [|[[b q] w] lg IH]; intros A p B E.
  - destruct A; discriminate.
  - destruct b.
    + rewrite starts_cons_e in E. destruct (IH _ _ _ E) as (l1 & w' & l2 & -> & <- & <-).
      exists ((true, q, w) :: l1), w', l2. repeat split.
    + rewrite starts_cons_s in E. destruct A as [|a A]; cbn [app] in E.
      * injection E as -> <-. exists [], w, lg. repeat split.
      * injection E as -> E. destruct (IH _ _ _ E) as (l1 & w' & l2 & -> & <- & <-).
        exists ((false, a, w) :: l1), w', l2. repeat split.
Qed.

(* the five clauses of C01's walk_par_safety, over an operation set O *)
Definition log_safe (O : list pos) (lg : list ev_t) : Prop :=
  (forall p w, In (false, p, w) lg -> In p O) /\
  NoDup (starts lg) /\ NoDup (ends lg) /\
  (forall l1 p w l2, lg = l1 ++ (true, p, w) :: l2 -> exists w', In (false, p, w') l2) /\
  (forall l1 p w l2, lg = l1 ++ (false, p, w) :: l2 ->
     forall c, In c (children p) -> In c O -> exists w', In (true, c, w') l2).

Lemma log_safe_end_in O lg p w : log_safe O lg -> In (true, p, w) lg -> In p O.
Proof.
  intros (S1 & _ & _ & S4 & _) Hin. apply in_split in Hin. destruct Hin as (l1 & l2 & E).
  destruct (S4 _ _ _ _ E) as (w' & Hw). apply (S1 p w'). rewrite E.
  apply in_or_app. right. right. exact Hw.
Qed.

(* a Start event occurs once *)
Lemma log_start_once O lg l1 p w l2 :
  log_safe O lg -> lg = l1 ++ (false, p, w) :: l2 -> ~ In p (starts l2).
Proof.
  intros (_ & S2 & _) E Hin. rewrite E, starts_app, starts_cons_s in S2.
  apply NoDup_remove_2 in S2. apply S2. apply in_or_app. right. exact Hin.
Qed.

Lemma log_end_once O lg l1 p w l2 :
  log_safe O lg -> lg = l1 ++ (true, p, w) :: l2 -> ~ In p (ends l2) /\ ~ In p (ends l1).
Proof.
  intros (_ & _ & S3 & _) E. rewrite E, ends_app, ends_cons_e in S3.
  apply NoDup_remove_2 in S3. split; intros Hin; apply S3; apply in_or_app; auto.
Qed.

(* children first, in the End order *)
Lemma log_children_first O lg :
  log_safe O lg -> children_first (rev (ends lg)).
Proof.
  intros HS L1 p L2 c E Hc Hin.
  assert (E' : ends lg = rev L2 ++ p :: rev L1).
  { rewrite <- (rev_involutive (ends lg)), E, rev_app_distr. cbn [rev]. rewrite <- app_assoc. reflexivity. }
  destruct (ends_split _ _ _ _ E') as (l1 & w & l2 & Elg & E1 & E2).
  apply in_rev. rewrite <- E2.
  assert (HcO : In c O).
  { apply in_rev in Hin. apply in_ends in Hin. destruct Hin as (wc & Hin).
    eapply log_safe_end_in; eauto. }
  destruct HS as (S1 & S2 & S3 & S4 & S5).
  destruct (S4 _ _ _ _ Elg) as (w' & Hw'). apply in_split in Hw'. destruct Hw' as (l3 & l4 & E4).
  assert (Elg' : lg = (l1 ++ (true, p, w) :: l3) ++ (false, p, w') :: l4).
  { rewrite Elg, E4, <- app_assoc. reflexivity. }
  destruct (S5 _ _ _ _ Elg' c Hc HcO) as (w'' & Hw'').
  rewrite E4, ends_app, ends_cons_s. apply in_or_app. right. apply in_ends. eauto.
Qed.

(* ---- no interference between callbacks that are in progress at the same time ------ *)

(* q is in progress just before the first event of the suffix... i.e. in the log
   [past]: started and not yet ended *)
Definition running (past : list ev_t) (q : pos) : Prop := In q (starts past) /\ ~ In q (ends past).

Lemma log_no_interference O lg l1 p w l2 q :
  log_safe O lg -> lg = l1 ++ (false, p, w) :: l2 -> running l2 q ->
  q <> p /\ ~ In q (children p) /\ ~ In p (children q).
Proof.
  intros HS E (Hqs & Hqe).
  pose proof (log_start_once O lg l1 p w l2 HS E) as Hp1.
  pose proof HS as (S1 & S2 & S3 & S4 & S5).
  assert (HpO : In p O).
  { apply (S1 p w). rewrite E. apply in_or_app. right. left. reflexivity. }
  split; [intros ->; contradiction|]. split.
  - intros Hc. apply Hqe.
    assert (HqO : In q O).
    { apply in_starts in Hqs. destruct Hqs as (wq & Hq). apply (S1 q wq). rewrite E.
      apply in_or_app. right. right. exact Hq. }
    destruct (S5 _ _ _ _ E q Hc HqO) as (w' & Hw'). apply in_ends. eauto.
  - intros Hc. apply in_starts in Hqs. destruct Hqs as (wq & Hq).
    apply in_split in Hq. destruct Hq as (l3 & l4 & E2).
    assert (E' : lg = (l1 ++ (false, p, w) :: l3) ++ (false, q, wq) :: l4).
    { rewrite E, E2, <- app_assoc. reflexivity. }
    destruct (S5 _ _ _ _ E' p Hc HpO) as (w' & Hw').
    apply in_split in Hw'. destruct Hw' as (l5 & l6 & E3).
    assert (E'' : lg = ((l1 ++ (false, p, w) :: l3) ++ (false, q, wq) :: l5) ++ (true, p, w') :: l6).
    { rewrite E', E3, <- !app_assoc. reflexivity. }
    destruct (S4 _ _ _ _ E'') as (w'' & Hw'').
    apply Hp1. rewrite E2, starts_app, starts_cons_s. apply in_or_app. right. right.
    rewrite E3, starts_app, starts_cons_e. apply in_or_app. right. apply in_starts. eauto.
Qed.

(* when the callback of p starts, a child that is an operation has ended, for good *)
Lemma log_reads_settled O lg l1 p w l2 c :
  log_safe O lg -> lg = l1 ++ (false, p, w) :: l2 -> In c (children p) ->
  (In c O -> In c (ends l2) /\ ~ In c (ends l1)) /\
  (~ In c O -> ~ In c (starts lg) /\ ~ In c (ends lg)).
Proof.
  intros HS E Hc. pose proof HS as (S1 & S2 & S3 & S4 & S5). split.
  - intros HcO. destruct (S5 _ _ _ _ E c Hc HcO) as (w' & Hw').
    split; [apply in_ends; eauto|].
    apply in_split in Hw'. destruct Hw' as (l3 & l4 & E2).
    assert (E' : lg = (l1 ++ (false, p, w) :: l3) ++ (true, c, w') :: l4).
    { rewrite E, E2, <- app_assoc. reflexivity. }
    destruct (log_end_once O lg _ c w' l4 HS E') as [_ Hn].
    intros Hin. apply Hn. rewrite ends_app. apply in_or_app. left. exact Hin.
  - intros HnO. split.
    + intros Hin. apply in_starts in Hin. destruct Hin as (w' & Hin). apply HnO. eauto.
    + intros Hin. apply in_ends in Hin. destruct Hin as (w' & Hin). apply HnO.
      eapply log_safe_end_in; eauto.
Qed.

(* ---- the cascade's pyramid: spec_ops P covers every populated parent -------------- *)

Section Covers.
  Variable u : mode -> pixel -> pixel -> pixel.
  Variable dflt : fmt.
  Variable k : Z.
  Variable orc : pos -> Z -> Z -> pixel.
  Variable leaves : pos -> option fdata.

  (* a tile of the specification pyramid is populated only above a populated leaf *)
  Lemma pyramid_spec_some_leaf : forall fuel c,
    pyramid_spec u dflt k orc leaves fuel c <> None ->
    exists l, pn l = (pn c + fuel)%nat /\ ancestor fuel l = c /\ leaves l <> None.
  Proof.
    induction fuel as [|f IH]; intros c H.
    - exists c. cbn [pyramid_spec] in H. repeat split; [lia|exact H].
    - cbn [pyramid_spec] in H.
      assert (Hex : exists c', In c' (children c) /\ pyramid_spec u dflt k orc leaves f c' <> None).
      { destruct (pyramid_spec u dflt k orc leaves f (c0 c)) eqn:E0;
          [exists (c0 c); split; [apply children_cases; auto|congruence]|].
        destruct (pyramid_spec u dflt k orc leaves f (c1 c)) eqn:E1;
          [exists (c1 c); split; [apply children_cases; auto|congruence]|].
        destruct (pyramid_spec u dflt k orc leaves f (c2 c)) eqn:E2;
          [exists (c2 c); split; [apply children_cases; auto|congruence]|].
        destruct (pyramid_spec u dflt k orc leaves f (c3 c)) eqn:E3;
          [exists (c3 c); split; [apply children_cases; auto 6|congruence]|].
        exfalso. apply H. rewrite merge_tiles_all_absent; [reflexivity|].
        intros oc Hin. apply in_map_iff in Hin. destruct Hin as (c' & <- & Hc').
        apply children_cases in Hc'. destruct Hc' as [-> | [-> | [-> | ->]]];
          rewrite ?E0, ?E1, ?E2, ?E3; reflexivity. }
      destruct Hex as (c' & Hc' & Hs). destruct (IH c' Hs) as (l & Hn & Ha & Hl).
      exists l. split; [rewrite Hn, (children_level _ _ Hc'); lia|]. split; [|exact Hl].
      rewrite ancestor_S_out, Ha. apply parent_pos_child. exact Hc'.
  Qed.
End Covers.

Section Pyramid.
  Variable P : pyr.
  Hypothesis Hwf : wf_pyr P.
  Hypothesis Hroot : apex P = root.

  (* every ancestor of a leaf of the pyramid that lies above the leaf level is an
     operation of the walk *)
  Lemma leaf_ancestor_is_op l j :
    In l (spec_leaves P) -> (1 <= j <= depth P)%nat -> In (ancestor j l) (spec_ops P).
  Proof.
    intros Hl Hj. apply spec_leaves_in in Hl. destruct Hl as [[Hr (m & Hm & Hn & Ha & Hacc)] Hd].
    rewrite Hroot in Hn, Ha. cbn [pn root] in Hn.
    assert (Em : m = depth P) by lia. subst m.
    set (p := ancestor j l).
    assert (Hpn : pn p = (depth P - j)%nat) by (unfold p; rewrite ancestor_pn; lia).
    apply spec_ops_in. split; [|lia].
    apply (spec_live_in P p Hwf). split.
    - split; [exact Hr|]. exists (pn p). split; [unfold sub_levels; rewrite Hroot; cbn [pn root]; lia|].
      rewrite Hroot. split; [cbn [pn root]; lia|]. split.
      + unfold p. rewrite <- ancestor_add. replace (j + pn (ancestor j l))%nat with (depth P); [exact Ha|].
        fold p. lia.
      + intros i Hi. unfold p. rewrite <- ancestor_add. apply Hacc. lia.
    - exists l. split; [|exact Hd]. apply pwalk_in. exists j. split; [lia|].
      split; [lia|]. split; [reflexivity|]. intros i Hi. apply Hacc. lia.
  Qed.

  Variable u : mode -> pixel -> pixel -> pixel.
  Variable dflt : fmt.
  Variable k : Z.
  Variable orc : pos -> Z -> Z -> pixel.
  Variable st0 : store.

  (* the populated start-level tiles are leaves of the pyramid (for the generic
     pyramid: they are valid positions; for a filtered TOAST pyramid: accepted
     together with all their ancestors) *)
  Hypothesis Hleaves : forall q, pn q = depth P -> st0 q dflt <> None -> In q (spec_leaves P).

  Lemma ops_covers order :
    (forall p, In p (spec_ops P) -> In p order) ->
    covers (pyramid_spec u dflt k orc (fun p => st0 p dflt)) (depth P) order.
  Proof.
    intros Hall p Hp (c & Hc & Hs). apply Hall.
    destruct (pyramid_spec_some_leaf u dflt k orc _ _ c Hs) as (l & Hn & Ha & Hl).
    pose proof (children_level _ _ Hc) as Hcl.
    assert (Hln : pn l = depth P) by lia.
    pose proof (Hleaves l Hln Hl) as Hin.
    replace p with (ancestor (S (depth P - S (pn p))) l).
    - apply leaf_ancestor_is_op; [exact Hin|lia].
    - rewrite ancestor_S_out, Ha. apply parent_pos_child. exact Hc.
  Qed.

  (* any children-first arrangement of the walk's operations is a valid order *)
  Lemma valid_order_of_perm order :
    Permutation order (spec_ops P) -> children_first order ->
    valid_order u dflt k orc st0 (depth P) order.
  Proof.
    intros Hperm Hcf. split; [|split; [|split]].
    - intros p Hin. apply (Permutation_in _ Hperm) in Hin.
      pose proof (spec_ops_scope P p Hwf Hin). lia.
    - apply (Permutation_NoDup (Permutation_sym Hperm)). apply spec_NoDup.
    - exact Hcf.
    - apply ops_covers. intros p Hin. apply (Permutation_in _ (Permutation_sym Hperm)). exact Hin.
  Qed.

  (* the serial walk's callback list is a valid order *)
  Lemma serial_valid_order : valid_order u dflt k orc st0 (depth P) (spec_ops P).
  Proof.
    apply valid_order_of_perm; [apply Permutation_refl|].
    intros l1 p l2 c E Hc Hin. eapply spec_ops_children_first; eauto.
  Qed.

  (* ---- every returned run of the parallel walk ---------------------------------- *)
  Variables par pcap : nat.
  Hypothesis Hpar : 1 <= par.
  Hypothesis Hpcap : 1 <= pcap.
  Variable s0 : wstate.
  Hypothesis Hinit : winit P par pcap = Some s0.

  Lemma run_log_safe l : log_safe (spec_ops P) (cblog (wrun (fun _ => false) s0 l)).
  Proof. exact (WalkParP.walk_par_safety P par pcap Hwf Hpar Hpcap s0 Hinit l). Qed.

  Lemma parallel_valid_order l :
    d_pc (wrun (fun _ => false) s0 l) = DReturned ->
    Permutation (end_order (wrun (fun _ => false) s0 l)) (spec_ops P) /\
    valid_order u dflt k orc st0 (depth P) (end_order (wrun (fun _ => false) s0 l)).
  Proof.
    intros Hret.
    destruct (WalkParP.walk_par_terminal P par pcap Hwf Hpar Hpcap s0 Hinit l Hret) as (_ & Hpe & _).
    assert (Hperm : Permutation (end_order (wrun (fun _ => false) s0 l)) (spec_ops P)).
    { unfold end_order. eapply Permutation_trans; [apply Permutation_sym, Permutation_rev|exact Hpe]. }
    split; [exact Hperm|]. apply valid_order_of_perm; [exact Hperm|].
    unfold end_order. eapply log_children_first. apply run_log_safe.
  Qed.

  Lemma cascade_parallel_eq_serial_lemma l :
    let s := wrun (fun _ => false) s0 l in
    upper_levels_empty dflt st0 (depth P) ->
    d_pc s = DReturned ->
    walk_serial P = Some (spec_ops P) /\
    Permutation (end_order s) (spec_ops P) /\
    valid_order u dflt k orc st0 (depth P) (spec_ops P) /\
    valid_order u dflt k orc st0 (depth P) (end_order s) /\
    forall s_ser s_par,
      cascade_gen u dflt k orc st0 (spec_ops P) = Some s_ser ->
      cascade_gen u dflt k orc st0 (end_order s) = Some s_par ->
      forall p f, s_ser p f = s_par p f.
  Proof.
    intros s Hup Hret. destruct (parallel_valid_order l Hret) as [Hperm Hvo].
    split; [apply walk_serial_spec; exact Hwf|]. split; [exact Hperm|].
    split; [exact serial_valid_order|]. split; [exact Hvo|].
    intros s_ser s_par H1 H2.
    exact (cascade_order_independent_lemma u dflt k orc (depth P) st0 _ _ s_ser s_par
             Hup serial_valid_order Hvo H1 H2).
  Qed.
End Pyramid.

(* ---- packaged statements ------------------------------------------------------------ *)

(* the pyramid of cascade_images (merge.py:108-113) *)
Definition cascade_pyramid (tile_filter : option (pos -> bool)) (start : nat) : pyr :=
  match tile_filter with
  | None => mkPyr Generic start (fun _ => true) root false
  | Some f => mkPyr ToastFiltered start f root false
  end.

Lemma cascade_pyramid_wf tf start :
  wf_pyr (cascade_pyramid tf start) /\ apex (cascade_pyramid tf start) = root /\
  depth (cascade_pyramid tf start) = start.
Proof.
  destruct tf; cbn [cascade_pyramid]; (split; [|split; reflexivity]);
    (split; [reflexivity|split; [cbn [apex pn root depth]; lia|reflexivity]]).
Qed.

(* the leaves of the generic pyramid are the valid positions of the start level *)
Lemma generic_leaves start q :
  In q (spec_leaves (cascade_pyramid None start)) <-> valid q = true /\ pn q = start.
Proof.
  unfold spec_leaves, cascade_pyramid, apex_reachable, in_filter, tree_pos, sub_levels.
  cbn [kd apex depth pn root]. rewrite Nat.sub_0_r, filter_In, <- generate_pos_pwalk, generate_pos_in, Nat.eqb_eq.
  split; [intros [[Hv _] Hn]; auto|intros [Hv Hn]; repeat split; auto; lia].
Qed.

Theorem cascade_parallel_eq_serial_thm :
  forall (u : mode -> pixel -> pixel -> pixel) (dflt : fmt) (k : Z) (orc : pos -> Z -> Z -> pixel)
         (P : pyr) (st0 : store) (par pcap : nat),
    wf_pyr P -> apex P = root -> 1 <= par -> 1 <= pcap ->
    upper_levels_empty dflt st0 (depth P) ->
    (forall q, pn q = depth P -> st0 q dflt <> None -> In q (spec_leaves P)) ->
    forall s0, winit P par pcap = Some s0 ->
    forall l : list wact,
    let s := wrun (fun _ => false) s0 l in
    d_pc s = DReturned ->
    walk_serial P = Some (spec_ops P) /\
    Permutation (end_order s) (spec_ops P) /\
    valid_order u dflt k orc st0 (depth P) (spec_ops P) /\
    valid_order u dflt k orc st0 (depth P) (end_order s) /\
    forall s_ser s_par,
      cascade_gen u dflt k orc st0 (spec_ops P) = Some s_ser ->
      cascade_gen u dflt k orc st0 (end_order s) = Some s_par ->
      forall p f, s_ser p f = s_par p f.
Proof.
  intros u dflt k orc P st0 par pcap Hwf Hroot Hpar Hpcap Hup Hlv s0 Hinit l.
  exact (fun Hret => cascade_parallel_eq_serial_lemma P Hwf Hroot u dflt k orc st0 Hlv par pcap Hpar Hpcap
                       s0 Hinit l Hup Hret).
Qed.

(* cascade_images as called: no filter (generic pyramid of depth start; the start
   level holds files only at valid positions) or a tile filter (filtered TOAST
   pyramid; the start level holds files only at leaves the filter reaches).  On a
   well-formed store both runs are defined, leave the same files, and these are
   the specification pyramid of C02. *)
Theorem cascade_images_parallel_eq_serial_thm :
  forall (u : mode -> pixel -> pixel -> pixel) (dflt : fmt) (k : Z) (orc : pos -> Z -> Z -> pixel)
         (bm : mode) (tile_filter : option (pos -> bool)) (start : nat) (st0 : store) (par pcap : nat),
    let P := cascade_pyramid tile_filter start in
    (0 < k)%Z -> maskable bm = bm -> storable dflt bm -> good_store dflt k bm st0 ->
    1 <= par -> 1 <= pcap ->
    upper_levels_empty dflt st0 start ->
    (forall q, pn q = start -> st0 q dflt <> None ->
       match tile_filter with None => valid q = true | Some _ => In q (spec_leaves P) end) ->
    forall s0, winit P par pcap = Some s0 ->
    forall l : list wact,
    let s := wrun (fun _ => false) s0 l in
    d_pc s = DReturned ->
    exists s_ser s_par,
      walk_serial P = Some (spec_ops P) /\
      cascade_gen u dflt k orc st0 (spec_ops P) = Some s_ser /\
      cascade_gen u dflt k orc st0 (end_order s) = Some s_par /\
      (forall p f, s_ser p f = s_par p f) /\
      (forall p, (pn p < start)%nat ->
         s_par p dflt = pyramid_spec u dflt k orc (fun q => st0 q dflt) (start - pn p) p) /\
      (forall p, (start <= pn p)%nat -> s_par p dflt = st0 p dflt) /\
      (forall p f, fmt_eqb f dflt = false -> s_par p f = st0 p f).
Proof.
  intros u dflt k orc bm tf start st0 par pcap P Hk Hbm Hst Hgood Hpar Hpcap Hup Hlv s0 Hinit l s Hret.
  destruct (cascade_pyramid_wf tf start) as (Hwf & Hroot & Hdep). fold P in Hwf, Hroot, Hdep.
  assert (Hlv' : forall q, pn q = depth P -> st0 q dflt <> None -> In q (spec_leaves P)).
  { intros q Hq Hne. rewrite Hdep in Hq. specialize (Hlv q Hq Hne). unfold P in *. destruct tf; [exact Hlv|].
    apply generic_leaves. auto. }
  rewrite <- Hdep in Hup.
  destruct (cascade_parallel_eq_serial_thm u dflt k orc P st0 par pcap Hwf Hroot Hpar Hpcap Hup Hlv'
              s0 Hinit l Hret) as (Hser & Hperm & V1 & V2 & Heq).
  destruct (cascade_defined_lemma u dflt k orc bm (spec_ops P) st0 Hk Hbm Hst Hgood) as (s_ser & E1 & _).
  destruct (cascade_defined_lemma u dflt k orc bm (end_order (wrun (fun _ => false) s0 l)) st0 Hk Hbm Hst Hgood)
    as (s_par & E2 & _).
  exists s_ser, s_par. split; [exact Hser|]. split; [exact E1|]. split; [exact E2|].
  split; [exact (Heq s_ser s_par E1 E2)|].
  destruct (cascade_spec_full u dflt k orc (depth P) st0 _ s_par Hup V2 E2) as (A & B & C).
  rewrite Hdep in A, B. auto.
Qed.

(* interference freedom, for every reachable state (returned or not) *)
Theorem walk_par_no_interference_thm :
  forall P par pcap, wf_pyr P -> 1 <= par -> 1 <= pcap ->
  forall s0, winit P par pcap = Some s0 ->
  forall (l : list wact) l1 p w l2 q,
    cblog (wrun (fun _ => false) s0 l) = l1 ++ (false, p, w) :: l2 ->
    running l2 q ->
    q <> p /\ ~ In q (children p) /\ ~ In p (children q).
Proof.
  intros P par pcap Hwf Hpar Hpcap s0 Hinit l l1 p w l2 q E Hr.
  eapply log_no_interference; [|exact E|exact Hr].
  exact (WalkParP.walk_par_safety P par pcap Hwf Hpar Hpcap s0 Hinit l).
Qed.

Theorem walk_par_reads_settled_thm :
  forall P par pcap, wf_pyr P -> 1 <= par -> 1 <= pcap ->
  forall s0, winit P par pcap = Some s0 ->
  forall (l : list wact) l1 p w l2 c,
    cblog (wrun (fun _ => false) s0 l) = l1 ++ (false, p, w) :: l2 ->
    In c (children p) ->
    (In c (spec_ops P) -> In c (ends l2) /\ ~ In c (ends l1)) /\
    (~ In c (spec_ops P) ->
       ~ In c (starts (cblog (wrun (fun _ => false) s0 l))) /\
       ~ In c (ends (cblog (wrun (fun _ => false) s0 l)))).
Proof.
  intros P par pcap Hwf Hpar Hpcap s0 Hinit l l1 p w l2 c E Hc.
  eapply log_reads_settled; [|exact E|exact Hc].
  exact (WalkParP.walk_par_safety P par pcap Hwf Hpar Hpcap s0 Hinit l).
Qed.

(* ---- a store semantics over the event log: read at Start, write at End ------------ *)

Lemma NoDup_app_drop_l {T} (l1 l2 : list T) : NoDup (l1 ++ l2) -> NoDup l2.
Proof.
  induction l1 as [|a l1 IH]; [auto|]. cbn [app]. intros H. apply NoDup_cons_iff in H. tauto.
Qed.

Lemma log_safe_suffix O l1 l2 : log_safe O (l1 ++ l2) -> log_safe O l2.
Proof.
  intros (S1 & S2 & S3 & S4 & S5). split; [|split; [|split; [|split]]].
  - intros p w Hin. apply (S1 p w). apply in_or_app. right. exact Hin.
  - rewrite starts_app in S2. apply NoDup_app_drop_l in S2. exact S2.
  - rewrite ends_app in S3. apply NoDup_app_drop_l in S3. exact S3.
  - intros a p w b E. apply (S4 (l1 ++ a) p w b). rewrite E, <- app_assoc. reflexivity.
  - intros a p w b E. apply (S5 (l1 ++ a) p w b). rewrite E, <- app_assoc. reflexivity.
Qed.

Section Replay.
  Variable u : mode -> pixel -> pixel -> pixel.
  Variable dflt : fmt.
  Variable k : Z.
  Variable orc : pos -> Z -> Z -> pixel.

  (* the second half of walk_callback (merge.py:182-211): merge the images read
     before and write the parent (or unlink whatever lies there when nothing was read) *)
  Definition cb_write (cs : list (option img)) (st : store) (p : pos) : option store :=
    match merge_tiles_gen u dflt k cs with
    | None => None
    | Some None => Some (st_set st p dflt None)
    | Some (Some m) => write_image dflt st p m None
    end.

  Lemma walk_callback_split st p :
    walk_callback_gen u dflt k orc st p = cb_write (child_files orc dflt st p) st p.
  Proof.
    unfold walk_callback_gen, walk_callback_var, cb_write, child_files.
    assert (E : map (fun c => rres_image (orc c) (read_image dflt st c DNone None None)) (children p)
                = map (fun c => option_map (decode (orc c)) (st c dflt)) (children p)).
    { apply map_ext. intros c. apply read_none_image. }
    rewrite E. reflexivity.
  Qed.

  Definition pend_t : Type := list (pos * list (option img)).

  Fixpoint snap_get (pend : pend_t) (p : pos) : option (list (option img)) :=
    match pend with
    | [] => None
    | (q, cs) :: r => if pos_eqb q p then Some cs else snap_get r p
    end.

  (* Start of p: the four child files are read from the store as it is now;
     End of p: the parent is merged from what was read then and written to the
     store as it is now.  An End without a Start is an error (None). *)
  Definition ev_step (x : option (store * pend_t)) (e : ev_t) : option (store * pend_t) :=
    match x with
    | None => None
    | Some (st, pend) =>
        match e with
        | (false, p, _) => Some (st, (p, child_files orc dflt st p) :: pend)
        | (true, p, _) =>
            match snap_get pend p with
            | None => None
            | Some cs => match cb_write cs st p with
                         | None => None
                         | Some st' => Some (st', pend)
                         end
            end
        end
    end.

  (* [evs] oldest first *)
  Definition replay (st0 : store) (evs : list ev_t) : option (store * pend_t) :=
    fold_left ev_step evs (Some (st0, [])).

  Lemma cascade_gen_app st a b :
    cascade_gen u dflt k orc st (a ++ b) =
    match cascade_gen u dflt k orc st a with
    | None => None
    | Some st' => cascade_gen u dflt k orc st' b
    end.
  Proof.
    revert st. induction a as [|p a IH]; intros st; [reflexivity|]. cbn [app]. rewrite !cascade_gen_cons.
    destruct (walk_callback_gen u dflt k orc st p); [apply IH|reflexivity].
  Qed.

  Lemma cascade_gen_single st p :
    cascade_gen u dflt k orc st [p] = walk_callback_gen u dflt k orc st p.
  Proof. rewrite cascade_gen_cons. destruct (walk_callback_gen u dflt k orc st p); reflexivity. Qed.

  Lemma callback_keeps_other_children st p st' q :
    walk_callback_gen u dflt k orc st p = Some st' -> ~ In p (children q) ->
    child_files orc dflt st' q = child_files orc dflt st q.
  Proof.
    intros H Hn. pose proof (walk_callback_effect u dflt k orc st p st' H) as Eff.
    unfold child_files. apply map_ext_in. intros c Hc.
    destruct (merge_tiles_gen u dflt k (MergeP.child_files orc dflt st p)) as [[m|]|]; [| |contradiction].
    - rewrite Eff. rewrite pos_eqb_neq; [reflexivity|]. intros ->. contradiction.
    - rewrite Eff. rewrite pos_eqb_neq; [reflexivity|]. intros ->. contradiction.
  Qed.

  Variable O : list pos.
  Variable st0 : store.

  Lemma replay_inv lg :
    log_safe O lg ->
    match replay st0 (rev lg) with
    | Some (st, pend) =>
        cascade_gen u dflt k orc st0 (rev (ends lg)) = Some st /\
        forall q, running lg q -> snap_get pend q = Some (child_files orc dflt st q)
    | None => cascade_gen u dflt k orc st0 (rev (ends lg)) = None
    end.
  Proof.
    induction lg as [|[[b p] w] lg IH]; intros HS.
    - cbn. split; [reflexivity|]. intros q [[] _].
    - pose proof (log_safe_suffix O [(b, p, w)] lg HS) as HS'. specialize (IH HS').
      unfold replay in *. cbn [rev]. rewrite fold_left_app. cbn [fold_left].
      destruct (fold_left ev_step (rev lg) (Some (st0, []))) as [[st pend]|].
      + destruct IH as [IHc IHs]. destruct b.
        * (* End of p *)
          rewrite ends_cons_e. cbn [rev]. rewrite cascade_gen_app, IHc. rewrite cascade_gen_single. cbn [ev_step].
          pose proof HS as (S1 & S2 & S3 & S4 & S5).
          assert (Hpe : ~ In p (ends lg)).
          { rewrite ends_cons_e in S3. apply NoDup_cons_iff in S3. tauto. }
          assert (Hrun : running lg p).
          { split; [|exact Hpe]. destruct (S4 [] p w lg eq_refl) as (w' & Hw'). apply in_starts. eauto. }
          rewrite (IHs p Hrun), <- walk_callback_split.
          destruct (walk_callback_gen u dflt k orc st p) as [st'|] eqn:EW; [|reflexivity].
          split; [reflexivity|]. intros q [Hqs Hqe].
          rewrite starts_cons_e in Hqs. rewrite ends_cons_e in Hqe.
          assert (Hq : running lg q) by (split; [exact Hqs|intros X; apply Hqe; right; exact X]).
          rewrite (IHs q Hq). f_equal. symmetry.
          apply (callback_keeps_other_children st p st' q EW).
          intros Hc. apply Hpe.
          apply in_starts in Hqs. destruct Hqs as (wq & Hin). apply in_split in Hin.
          destruct Hin as (l3 & l4 & E).
          assert (HpO : In p O) by (apply (log_safe_end_in O _ p w HS); left; reflexivity).
          assert (E' : (true, p, w) :: lg = ((true, p, w) :: l3) ++ (false, q, wq) :: l4)
            by (rewrite E; reflexivity).
          destruct (S5 _ _ _ _ E' p Hc HpO) as (w'' & Hw'').
          rewrite E, ends_app, ends_cons_s. apply in_or_app. right. apply in_ends. eauto.
        * (* Start of p *)
          rewrite ends_cons_s. cbn [ev_step]. split; [exact IHc|].
          intros q [Hqs Hqe]. rewrite starts_cons_s in Hqs. rewrite ends_cons_s in Hqe.
          cbn [snap_get]. destruct (pos_eqb p q) eqn:Epq.
          -- apply pos_eqb_eq in Epq. subst q. reflexivity.
          -- destruct Hqs as [->|Hqs]; [rewrite pos_eqb_refl in Epq; discriminate|].
             apply IHs. split; assumption.
      + destruct b.
        * rewrite ends_cons_e. cbn [rev]. rewrite cascade_gen_app, IH. reflexivity.
        * rewrite ends_cons_s. exact IH.
  Qed.

  Lemma replay_eq_cascade_lemma lg :
    log_safe O lg ->
    option_map fst (replay st0 (rev lg)) = cascade_gen u dflt k orc st0 (rev (ends lg)).
  Proof.
    intros HS. pose proof (replay_inv lg HS) as H.
    destruct (replay st0 (rev lg)) as [[st pend]|]; cbn [option_map fst]; [destruct H as [H _]|]; auto.
  Qed.
End Replay.

(* every reachable state of the parallel walk (returned or not): reading the
   children at the Start event and writing the parent at the End event gives the
   store of the atomic cascade over the End order *)
Theorem replay_eq_cascade_thm :
  forall (u : mode -> pixel -> pixel -> pixel) (dflt : fmt) (k : Z) (orc : pos -> Z -> Z -> pixel)
         (st0 : store) P par pcap, wf_pyr P -> 1 <= par -> 1 <= pcap ->
  forall s0, winit P par pcap = Some s0 ->
  forall l : list wact,
  let s := wrun (fun _ => false) s0 l in
  option_map fst (replay u dflt k orc st0 (rev (cblog s))) = cascade_gen u dflt k orc st0 (end_order s).
Proof.
  intros u dflt k orc st0 P par pcap Hwf Hpar Hpcap s0 Hinit l. cbv zeta. unfold end_order.
  apply (replay_eq_cascade_lemma u dflt k orc (spec_ops P)).
  exact (WalkParP.walk_par_safety P par pcap Hwf Hpar Hpcap s0 Hinit l).
Qed.

(* ---- a concrete instance (for the non-vacuity example of Properties/C02.v) ---------- *)

(* generic pyramid of depth 2, two workers, pipe capacity 1: the callbacks of
   (1,0,0) and (1,1,0) overlap and end in the opposite order *)
Definition glue_ex_schedule : list wact :=
  [DPut; DPut; DPut; DPut; FFlushReady; KRecv 0; FFlushReady; KRecv 1; KCb 1; KCb 0; KPut 1; KPut 0;
   FFlushDone 1; DRecv; FFlushDone 0; DRecv; FFlushReady; KRecv 0; FFlushReady; KRecv 1; KCb 0; KCb 1;
   KPut 0; KPut 1; FFlushDone 0; DRecv; FFlushDone 1; DRecv; DPut; FFlushReady; KRecv 0; KCb 0; KPut 0;
   FFlushDone 0; DRecv; DCloseQ; FFeederExit; DJoinThread; DSetFlag;
   KTimeout 0; KIsSet 0; KExit 0; KTimeout 1; KIsSet 1; KExit 1; DJoinW 0; DJoinW 1].

Definition glue_ex_st0 : store :=
  fun p f => if fmt_eqb f Fits && pos_eqb p (mkPos 2 1 2) then Some (FExact (ex_tile 0)) else None.

Lemma glue_ex_hyps :
  upper_levels_empty Fits glue_ex_st0 2 /\
  (forall q, pn q = 2%nat -> glue_ex_st0 q Fits <> None -> valid q = true).
Proof.
  split.
  - intros p Hp. unfold glue_ex_st0. cbn [fmt_eqb andb].
    destruct (pos_eqb p (mkPos 2 1 2)) eqn:E; [|reflexivity].
    apply pos_eqb_eq in E. subst p. cbn [pn] in Hp. lia.
  - intros q _ H. unfold glue_ex_st0 in H. cbn [fmt_eqb andb] in H.
    destruct (pos_eqb q (mkPos 2 1 2)) eqn:E; [|contradiction].
    apply pos_eqb_eq in E. subst q. reflexivity.
Qed.
