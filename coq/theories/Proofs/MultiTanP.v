(* Proofs about Model/MultiTan.v (property C09). *)
From Coq Require Import ZArith QArith Qround Qminmax List Bool Lia.
Ltac Zify.zify_post_hook ::= Z.to_euclidean_division_equations.
From Toasty Require Import Model.Study Proofs.StudyP Model.MultiTan.
Import ListNotations.
Local Open Scope Z_scope.

(* ------------------------------------------------------------------ *)
(* geometry shared with C08: a tuple's tile rectangle, seen from the global square *)

Lemma tile_rect_global t R C :
  wf t ->
  let u := tuple_at t (C / 256) (R / 256) in
  in_tuple_tile_rect u (R mod 256) (C mod 256) = in_image t R C /\
  (in_image t R C = true ->
   u_iy u + (R mod 256 - u_ty u) = R - t_gy0 t /\ u_ix u + (C mod 256 - u_tx u) = C - t_gx0 t).
Proof.
  intros (_ & _ & _ & Hx0 & Hy0 & Hw0 & Hh0 & _). cbv zeta. split.
  - unfold in_tuple_tile_rect, in_image, tuple_at, img_gx1, img_gy1; cbn [u_w u_h u_tx u_ty].
    apply eq_true_iff_eq. rewrite !andb_true_iff, !Z.leb_le, !Z.ltb_lt. lia.
  - unfold in_image. rewrite !andb_true_iff, !Z.leb_le, !Z.ltb_lt. intros Hi.
    unfold tuple_at; cbn [u_iy u_ty u_ix u_tx]. lia.
Qed.

(* ------------------------------------------------------------------ *)
(* placement of one tuple *)

Definition mt_placement (inv : bool) (imgh : Z) (u : tup) : placement :=
  mkPlacement (u_n u) (u_x u) (u_y u)
    (mkRun (if inv then imgh - (u_iy u + u_h u) else u_iy u) (u_h u) 1)
    (mkRun (u_ix u) (u_w u) 1)
    (mkRun (if inv then 256 - (u_ty u + u_h u) else u_ty u) (u_h u) 1)
    (mkRun (u_tx u) (u_w u) 1).

Lemma mt_place_bounds inv imgh imgw u :
  0 <= u_w u -> 0 <= u_h u ->
  0 <= u_ix u -> u_ix u + u_w u <= imgw ->
  0 <= u_iy u -> u_iy u + u_h u <= imgh ->
  0 <= u_tx u -> u_tx u + u_w u <= 256 ->
  0 <= u_ty u -> u_ty u + u_h u <= 256 ->
  mt_place inv imgh imgw u = Some (mt_placement inv imgh u).
Proof.
  intros. unfold mt_place, mt_placement.
  rewrite (slice_run_up imgw) by lia. rewrite (slice_run_up 256 (u_tx u)) by lia.
  rewrite (slice_run_up imgh) by (destruct inv; lia).
  rewrite (slice_run_up 256) by (destruct inv; lia).
  cbn [r_count].
  replace ((if inv then imgh - (u_iy u + u_h u) else u_iy u) + u_h u - (if inv then imgh - (u_iy u + u_h u) else u_iy u))
    with (u_h u) by lia.
  replace ((if inv then 256 - (u_ty u + u_h u) else u_ty u) + u_h u - (if inv then 256 - (u_ty u + u_h u) else u_ty u))
    with (u_h u) by lia.
  replace (u_ix u + u_w u - u_ix u) with (u_w u) by lia.
  replace (u_tx u + u_w u - u_tx u) with (u_w u) by lia.
  rewrite !Z.eqb_refl. reflexivity.
Qed.

(* display orientation, both tile parities: display pixel (r, c) of the tile is
   fed from row iy + (r - ty) of the top-down image — i.e. row
   imgh - 1 - (iy + (r - ty)) of the bottom-up working image when inv *)
Lemma mt_src_display inv imgh u r c :
  placement_src (mt_placement inv imgh u) (display_row inv r) c =
  if in_tuple_tile_rect u r c
  then Some ((if inv then imgh - 1 - (u_iy u + (r - u_ty u)) else u_iy u + (r - u_ty u)),
             u_ix u + (c - u_tx u))
  else None.
Proof.
  unfold placement_src, mt_placement, in_tuple_tile_rect, display_row; cbn [p_by p_bx p_iy p_ix].
  rewrite !run_find_up.
  assert (Erow : (if ((if inv then 256 - (u_ty u + u_h u) else u_ty u) <=? (if inv then 255 - r else r)) &&
                     ((if inv then 255 - r else r) <? (if inv then 256 - (u_ty u + u_h u) else u_ty u) + u_h u)
                  then Some ((if inv then 255 - r else r) - (if inv then 256 - (u_ty u + u_h u) else u_ty u))
                  else None) =
                 if (u_ty u <=? r) && (r <? u_ty u + u_h u)
                 then Some (if inv then u_ty u + u_h u - 1 - r else r - u_ty u) else None).
  { destruct inv.
    - destruct ((256 - (u_ty u + u_h u) <=? 255 - r) && (255 - r <? 256 - (u_ty u + u_h u) + u_h u)) eqn:E1;
      destruct ((u_ty u <=? r) && (r <? u_ty u + u_h u)) eqn:E2;
      rewrite ?andb_true_iff, ?andb_false_iff, ?Z.leb_le, ?Z.ltb_lt, ?Z.leb_gt, ?Z.ltb_ge in *;
      try reflexivity; try (f_equal; lia); exfalso; lia.
    - reflexivity. }
  rewrite Erow.
  destruct ((u_ty u <=? r) && (r <? u_ty u + u_h u)) eqn:E1; cbn [andb]; [|reflexivity].
  destruct ((u_tx u <=? c) && (c <? u_tx u + u_w u)) eqn:E2; [|reflexivity].
  unfold run_nth; cbn [r_first r_step]. f_equal. f_equal; destruct inv; lia.
Qed.

(* interleavings of per-worker sequences: at each step some worker performs
   its next (atomic, locked) update *)
Inductive interleave {A} : list (list A) -> list A -> Prop :=
| il_done ls : (forall l, In l ls -> l = []) -> interleave ls []
| il_step pre a l post r :
    interleave (pre ++ l :: post) r -> interleave (pre ++ (a :: l) :: post) (a :: r).

Lemma interleave_elems {A} (ls : list (list A)) seq :
  interleave ls seq -> forall a, In a seq <-> In a (concat ls).
Proof.
  induction 1 as [ls Hnil | pre a l post r Hil IH]; intros b.
  - split; [intros []|]. intros Hb. apply in_concat in Hb. destruct Hb as (l & Hl & Hb).
    rewrite (Hnil l Hl) in Hb. destruct Hb.
  - rewrite concat_app in *. cbn [concat] in *. cbn [In]. rewrite IH.
    rewrite !in_app_iff. cbn [In]. tauto.
Qed.

Section PixelProofs.
  Context {V : Type}.
  Notation pixels := (@pixels V).
  Notation store := (@store V).
  Notation input := (@input V).
  Notation op := (@op V).
  Implicit Types (s : store) (i : input) (o : op).

  (* whatever the file parity and the tile parity, the row the placement reads
     from the working image is row y of the top-down image *)
  Lemma working_image_row inv i y x :
    working_image inv i (if inv then in_h i - 1 - y else y) x = top_down i y x.
  Proof.
    unfold working_image, top_down, flip_rows. destruct (in_par i), inv; cbn [Bool.eqb]; try reflexivity.
    f_equal. lia.
  Qed.

  (* a valid input: its segment's sub-tiling is the sub-image (imin, jmin, w, h)
     of the global tiling — dimensions equal to the loaded array's (this is
     where the common-pixel-grid hypothesis enters) *)
  Definition valid_input (t : tiling) (i : input) : Prop :=
    compute_for_subimage t (sg_imin (in_seg i)) (sg_jmin (in_seg i)) (in_w i) (in_h i)
    = Some (sg_tiling (in_seg i)).

  Definition op_of (inv : bool) i (u : tup) : op :=
    mkOp (mt_placement inv (in_h i) u) (working_image inv i).

  Section WithTiling.
    Variables (W H : Z) (t : tiling).
    Hypothesis Ht : study_tiling W H = Some t.

    Lemma valid_input_facts i :
      valid_input t i ->
      let st := sg_tiling (in_seg i) in
      wf st /\ t_width st = in_w i /\ t_height st = in_h i /\ t_levels st = t_levels t /\
      t_gx0 st = t_gx0 t + sg_imin (in_seg i) /\ t_gy0 st = t_gy0 t + sg_jmin (in_seg i) /\
      legal_subimage t (sg_imin (in_seg i)) (sg_jmin (in_seg i)) (in_w i) (in_h i).
    Proof.
      intros Hv. cbv zeta.
      destruct (subimage_wf W H t _ _ _ _ _ Ht Hv) as (Hl & Hwf & Hw & Hh & _ & Hlv & _ & Hx & Hy).
      exact (conj Hwf (conj Hw (conj Hh (conj Hlv (conj Hx (conj Hy Hl)))))).
    Qed.

    (* the updates of one input never hit the shape error; one update per tuple *)
    Lemma input_ops_ok inv i :
      valid_input t i ->
      input_ops inv i = Some (map (op_of inv i) (generate_populated_positions (sg_tiling (in_seg i)))).
    Proof.
      intros Hv. destruct (valid_input_facts i Hv) as (Hwf & Hw & Hh & _). cbv zeta in *.
      unfold input_ops. apply map_opt_map. intros u Hu.
      apply in_generate in Hu. destruct Hu as (a & b & Hr & ->).
      pose proof (tuple_bounds _ a b Hwf Hr) as Hb. cbv zeta in Hb.
      rewrite mt_place_bounds by lia. reflexivity.
    Qed.

    (* what input i contributes at global-square pixel (R, C) *)
    Definition contribution i (R C : Z) : option V := input_at i (R - t_gy0 t) (C - t_gx0 t).

    Lemma contribution_spec i R C :
      valid_input t i ->
      contribution i R C =
      if in_image (sg_tiling (in_seg i)) R C
      then top_down i (R - t_gy0 (sg_tiling (in_seg i))) (C - t_gx0 (sg_tiling (in_seg i)))
      else None.
    Proof.
      intros Hv. destruct (valid_input_facts i Hv) as (_ & Hw & Hh & _ & Hx & Hy & _). cbv zeta in *.
      unfold contribution, input_at, in_image. rewrite Hw, Hh, Hx, Hy.
      set (jm := sg_jmin (in_seg i)). set (im := sg_imin (in_seg i)).
      assert (Eb : ((0 <=? R - t_gy0 t - jm) && (R - t_gy0 t - jm <? in_h i) &&
                    (0 <=? C - t_gx0 t - im) && (C - t_gx0 t - im <? in_w i)) =
                   ((t_gy0 t + jm <=? R) && (R <? t_gy0 t + jm + in_h i) &&
                    (t_gx0 t + im <=? C) && (C <? t_gx0 t + im + in_w i))).
      { apply eq_true_iff_eq. rewrite !andb_true_iff, !Z.leb_le, !Z.ltb_lt. lia. }
      rewrite Eb. destruct ((t_gy0 t + jm <=? R) && (R <? t_gy0 t + jm + in_h i) &&
                            (t_gx0 t + im <=? C) && (C <? t_gx0 t + im + in_w i)); [|reflexivity].
      f_equal; lia.
    Qed.

    (* placement_eq_mosaic: one locked update, seen in display orientation on
       the global square: exactly the pixels of the tuple's rectangle are
       touched, each receives the input pixel that the pasted mosaic has there
       (if defined; an undefined one leaves the tile alone) — for both file
       parities and both tile parities *)
    Lemma apply_op_display inv i u s R C :
      valid_input t i -> In u (generate_populated_positions (sg_tiling (in_seg i))) ->
      mosaic_display t inv (apply_op s (op_of inv i u)) R C =
      if covers u (C - t_gx0 (sg_tiling (in_seg i))) (R - t_gy0 (sg_tiling (in_seg i)))
      then match contribution i R C with
           | Some v => Some v
           | None => mosaic_display t inv s R C
           end
      else mosaic_display t inv s R C.
    Proof.
      intros Hv Hu. pose proof (contribution_spec i R C Hv) as Hc.
      destruct (valid_input_facts i Hv) as (Hwf & Hw & Hh & Hlv & Hx & Hy & _). cbv zeta in *.
      set (st := sg_tiling (in_seg i)) in *.
      apply in_generate in Hu. destruct Hu as (a & b & Hr & ->).
      assert (Hcov : covers (tuple_at st a b) (C - t_gx0 st) (R - t_gy0 st) =
                     (a =? C / 256) && (b =? R / 256) && in_image st R C).
      { apply eq_true_iff_eq. rewrite covers_tuple_at. unfold in_image.
        rewrite !andb_true_iff, !Z.eqb_eq, !Z.leb_le, !Z.ltb_lt.
        replace (C - t_gx0 st + t_gx0 st) with C by lia. replace (R - t_gy0 st + t_gy0 st) with R by lia. lia. }
      rewrite Hcov.
      unfold mosaic_display, apply_op, op_of; cbn [op_pl op_img mt_placement p_n p_x p_y tuple_at u_n u_x u_y].
      set (r := R mod 256). set (c := C mod 256).
      assert (Hr256 : 0 <= r < 256) by (subst r; lia). assert (Hc256 : 0 <= c < 256) by (subst c; lia).
      assert (Hdr : 0 <= display_row inv r < 256) by (unfold display_row; destruct inv; lia).
      unfold read_image_masked at 1. unfold write_image. rewrite Hlv.
      destruct (same_pos (t_levels t) a b (t_levels t) (C / 256) (R / 256)) eqn:Esame.
      - apply same_pos_true in Esame. destruct Esame as (_ & -> & ->).
        rewrite !Z.eqb_refl. cbn [andb].
        set (old := read_image_masked s (t_levels t) (C / 256) (R / 256)).
        set (u := tuple_at st (C / 256) (R / 256)).
        set (p := mt_placement inv (in_h i) u).
        assert (Ebuf : update_buffer (working_image inv i) p old (display_row inv r) c =
                       if in_image st R C
                       then match contribution i R C with Some v => Some v | None => old (display_row inv r) c end
                       else old (display_row inv r) c).
        { unfold update_buffer. subst p. rewrite mt_src_display.
          destruct (tile_rect_global st R C Hwf) as [Erect Eco]. fold u r c in Erect, Eco.
          rewrite Erect. destruct (in_image st R C) eqn:Ei; [|reflexivity].
          destruct (Eco eq_refl) as [E1 E2]. rewrite E1, E2, working_image_row, Hc. reflexivity. }
        fold p.
        cbn [andb].
        destruct (completely_masked (update_buffer (working_image inv i) p old)) eqn:Em.
        + pose proof (completely_masked_spec _ Em (display_row inv r) c Hdr Hc256) as Hnone.
          rewrite Ebuf in Hnone. cbv beta. symmetry. exact Hnone.
        + exact Ebuf.
      - assert (Eab : (a =? C / 256) && (b =? R / 256) = false).
        { unfold same_pos in Esame. rewrite Z.eqb_refl in Esame. cbn [andb] in Esame. exact Esame. }
        rewrite Eab. cbn [andb]. reflexivity.
    Qed.

    (* ---------------------------------------------------------------- *)
    (* the whole run *)
    Variables (inv : bool) (ins : list input).
    Hypothesis Hvalid : forall i, In i ins -> valid_input t i.
    Hypothesis Hagree : overlaps_agree ins.

    Definition sub_of i := sg_tiling (in_seg i).
    Definition M : pixels := expected_mosaic t (pasted ins).
    Definition D s : pixels := mosaic_display t inv s.

    Definition effect i (u : tup) (R C : Z) : option V :=
      if covers u (C - t_gx0 (sub_of i)) (R - t_gy0 (sub_of i)) then contribution i R C else None.

    Definition valid_op o : Prop :=
      exists i u, In i ins /\ In u (generate_populated_positions (sub_of i)) /\ o = op_of inv i u.

    Definition the_ops : list op :=
      flat_map (fun i => map (op_of inv i) (generate_populated_positions (sub_of i))) ins.

    Lemma all_ops_ok : all_ops inv ins = Some the_ops.
    Proof.
      unfold the_ops. clear Hagree. induction ins as [|i r IH]; [reflexivity|].
      cbn [all_ops flat_map]. rewrite (input_ops_ok inv i) by (apply Hvalid; left; reflexivity).
      rewrite IH by (intros; apply Hvalid; right; assumption). reflexivity.
    Qed.

    Lemma in_the_ops o : In o the_ops <-> valid_op o.
    Proof.
      unfold the_ops, valid_op. rewrite in_flat_map. split.
      - intros (i & Hi & Ho). apply in_map_iff in Ho. destruct Ho as (u & <- & Hu). eauto.
      - intros (i & u & Hi & Hu & ->). exists i. split; [assumption|]. apply in_map. assumption.
    Qed.

    Lemma pasted_first (l : list input) i R C v :
      (forall a b R C v v', In a l -> In b l -> input_at a R C = Some v -> input_at b R C = Some v' -> v = v') ->
      In i l -> input_at i R C = Some v -> pasted l R C = Some v.
    Proof.
      induction l as [|j r IH]; intros Hag Hin Hi; [destruct Hin|].
      cbn [pasted]. destruct (input_at j R C) as [v'|] eqn:Ej.
      - f_equal. apply (Hag j i R C v' v); [left; reflexivity|assumption|assumption|assumption].
      - destruct Hin as [->|Hin]; [congruence|].
        apply IH; try assumption. intros a b R' C' w w' Ha Hb. apply Hag; right; assumption.
    Qed.

    Lemma pasted_some (l : list input) R C v :
      pasted l R C = Some v -> exists i, In i l /\ input_at i R C = Some v.
    Proof.
      induction l as [|j r IH]; cbn [pasted]; [discriminate|].
      destruct (input_at j R C) as [v'|] eqn:Ej.
      - intros E. exists j. split; [left; reflexivity|congruence].
      - intros E. destruct (IH E) as (i & Hi & Hv). exists i. split; [right; assumption|assumption].
    Qed.

    (* a defined input pixel is the mosaic's pixel there *)
    Lemma contribution_M i R C v : In i ins -> contribution i R C = Some v -> M R C = Some v.
    Proof.
      intros Hi Hc. unfold M, expected_mosaic.
      destruct (valid_input_facts i (Hvalid i Hi)) as (_ & _ & _ & _ & _ & _ & Hl). unfold legal_subimage in Hl.
      pose proof (p2n_minimal W H t Ht) as (Hw & Hh & _).
      assert (Hin : in_image t R C = true).
      { unfold contribution, input_at in Hc.
        destruct ((0 <=? R - t_gy0 t - sg_jmin (in_seg i)) && (R - t_gy0 t - sg_jmin (in_seg i) <? in_h i) &&
                  (0 <=? C - t_gx0 t - sg_imin (in_seg i)) && (C - t_gx0 t - sg_imin (in_seg i) <? in_w i)) eqn:E;
          [|discriminate].
        rewrite !andb_true_iff, !Z.leb_le, !Z.ltb_lt in E.
        unfold in_image. rewrite !andb_true_iff, !Z.leb_le, !Z.ltb_lt. lia. }
      rewrite Hin. apply (pasted_first ins i); assumption.
    Qed.

    Lemma M_some R C v : M R C = Some v -> exists i, In i ins /\ contribution i R C = Some v.
    Proof.
      unfold M, expected_mosaic. destruct (in_image t R C); [|discriminate].
      intros E. apply pasted_some in E. exact E.
    Qed.

    Lemma effect_M i u R C v : In i ins -> effect i u R C = Some v -> M R C = Some v.
    Proof.
      unfold effect. intros Hi. destruct (covers u _ _); [|discriminate]. apply contribution_M; assumption.
    Qed.

    Lemma apply_op_effect i u s R C :
      In i ins -> In u (generate_populated_positions (sub_of i)) ->
      D (apply_op s (op_of inv i u)) R C =
      match effect i u R C with Some v => Some v | None => D s R C end.
    Proof.
      intros Hi Hu. unfold D, effect. rewrite (apply_op_display inv i u s R C (Hvalid i Hi) Hu).
      fold (sub_of i). destruct (covers u _ _); reflexivity.
    Qed.

    (* order- and schedule-independence: the invariant of any sequence of valid updates *)
    Lemma run_ops_inv seq : forall s,
      (forall o, In o seq -> valid_op o) ->
      (forall R C, D s R C = None \/ D s R C = M R C) ->
      (forall R C, D (run_ops seq s) R C = None \/ D (run_ops seq s) R C = M R C) /\
      (forall R C v, D s R C = Some v -> D (run_ops seq s) R C = Some v) /\
      (forall i u, In i ins -> In u (generate_populated_positions (sub_of i)) ->
                   In (op_of inv i u) seq ->
                   forall R C v, effect i u R C = Some v -> D (run_ops seq s) R C = Some v).
    Proof.
      induction seq as [|o r IH]; intros s Hval HP.
      - cbn [run_ops fold_left]. split; [assumption|]. split; [auto|]. intros i u _ _ [].
      - unfold run_ops. cbn [fold_left]. fold (run_ops r (apply_op s o)).
        destruct (Hval o (or_introl eq_refl)) as (i0 & u0 & Hi0 & Hu0 & ->).
        assert (HP1 : forall R C, D (apply_op s (op_of inv i0 u0)) R C = None \/
                                  D (apply_op s (op_of inv i0 u0)) R C = M R C).
        { intros R C. rewrite (apply_op_effect i0 u0 s R C Hi0 Hu0).
          destruct (effect i0 u0 R C) as [v|] eqn:Ee; [|apply HP].
          right. symmetry. apply (effect_M i0 u0 R C v Hi0 Ee). }
        assert (Hmono1 : forall R C v, D s R C = Some v -> D (apply_op s (op_of inv i0 u0)) R C = Some v).
        { intros R C v Hs. rewrite (apply_op_effect i0 u0 s R C Hi0 Hu0).
          destruct (effect i0 u0 R C) as [v'|] eqn:Ee; [|assumption].
          pose proof (effect_M i0 u0 R C v' Hi0 Ee) as HM.
          destruct (HP R C) as [Hn|Hm]; congruence. }
        destruct (IH (apply_op s (op_of inv i0 u0)) (fun o Ho => Hval o (or_intror Ho)) HP1) as (IH1 & IH2 & IH3).
        split; [assumption|]. split; [intros; apply IH2, Hmono1; assumption|].
        intros i u Hi Hu Hin R C v He. destruct Hin as [Heq|Hin].
        + apply IH2. rewrite Heq. rewrite (apply_op_effect i u s R C Hi Hu), He. reflexivity.
        + apply (IH3 i u Hi Hu Hin R C v He).
    Qed.

    (* tiles_eq_mosaic + order_and_schedule_independent: any sequence consisting
       of exactly the updates of the inputs (each at least once, in any order)
       produces the mosaic of the pasted inputs *)
    Lemma any_order_gives_mosaic seq :
      (forall o, In o seq <-> In o the_ops) ->
      forall R C, D (run_ops seq empty_store) R C = M R C.
    Proof.
      intros Hsame R C.
      destruct (run_ops_inv seq empty_store) as (HP & _ & Hc).
      { intros o Ho. apply in_the_ops, Hsame, Ho. }
      { intros; left; reflexivity. }
      destruct (M R C) as [v|] eqn:EM.
      - destruct (M_some R C v EM) as (i & Hi & Hcon).
        pose proof (contribution_spec i R C (Hvalid i Hi)) as Hs. rewrite Hcon in Hs.
        fold (sub_of i) in Hs.
        destruct (in_image (sub_of i) R C) eqn:Ei; [|discriminate].
        destruct (valid_input_facts i (Hvalid i Hi)) as (Hwf & _). cbv zeta in Hwf. fold (sub_of i) in Hwf.
        unfold in_image in Ei. rewrite !andb_true_iff, !Z.leb_le, !Z.ltb_lt in Ei.
        destruct (tuples_cover (sub_of i) (C - t_gx0 (sub_of i)) (R - t_gy0 (sub_of i)) Hwf ltac:(lia) ltac:(lia))
          as (u & Hu & Hcov).
        apply (Hc i u Hi Hu).
        + apply Hsame, in_the_ops. exists i, u. auto.
        + unfold effect. rewrite Hcov. assumption.
      - destruct (HP R C) as [E|E]; [assumption|]. rewrite E. assumption.
    Qed.

    Lemma serial_gives_mosaic :
      exists s, tile_serial inv ins = Some s /\ forall R C, D s R C = M R C.
    Proof.
      unfold tile_serial. rewrite all_ops_ok. eexists; split; [reflexivity|].
      apply any_order_gives_mosaic. tauto.
    Qed.

    (* ---------------------------------------------------------------- *)
    (* identical tile files: the stores are canonical (a file never holds a
       fully masked tile) and confined to the deepest level *)
    Definition canon s : Prop := forall n x y b, s n x y = Some b -> completely_masked b = false.
    Definition only_level (L : Z) s : Prop := forall n x y, n <> L -> s n x y = None.

    Lemma write_image_canon s n x y (b : pixels) : canon s -> canon (write_image true s n x y b).
    Proof.
      unfold canon, write_image. intros Hc n' x' y' b'.
      destruct (same_pos n x y n' x' y'); [|apply Hc].
      cbn [andb]. destruct (completely_masked b) eqn:E; [discriminate|].
      intros E'. injection E' as <-. exact E.
    Qed.

    Lemma write_image_only_level L s x y (b : pixels) : only_level L s -> only_level L (write_image true s L x y b).
    Proof.
      unfold only_level, write_image. intros Hc n' x' y' Hn.
      destruct (same_pos L x y n' x' y') eqn:E; [|apply Hc; assumption].
      apply same_pos_true in E. destruct E as (<- & _). congruence.
    Qed.

    Lemma valid_op_pos o :
      valid_op o ->
      p_n (op_pl o) = t_levels t /\ 0 <= p_x (op_pl o) < 2 ^ t_levels t /\ 0 <= p_y (op_pl o) < 2 ^ t_levels t.
    Proof.
      intros (i & u & Hi & Hu & ->).
      destruct (valid_input_facts i (Hvalid i Hi)) as (Hwf & _ & _ & Hlv & _). cbv zeta in *. fold (sub_of i) in *.
      apply in_generate in Hu. destruct Hu as (a & b & Hr & ->).
      pose proof (tuple_bounds _ a b Hwf Hr) as Hb. cbv zeta in Hb.
      destruct Hwf as (_ & _ & Hts & _). rewrite Hts, Hlv in Hb.
      cbn [op_of op_pl mt_placement p_n p_x p_y tuple_at u_n u_x u_y]. lia.
    Qed.

    Lemma run_ops_canon_level seq : forall s,
      (forall o, In o seq -> valid_op o) -> canon s -> only_level (t_levels t) s ->
      canon (run_ops seq s) /\ only_level (t_levels t) (run_ops seq s).
    Proof.
      induction seq as [|o r IH]; intros s Hval Hc Hl; [split; assumption|].
      unfold run_ops. cbn [fold_left]. fold (run_ops r (apply_op s o)).
      destruct (valid_op_pos o (Hval o (or_introl eq_refl))) as (En & _).
      apply IH; [intros; apply Hval; right; assumption| |]; unfold apply_op.
      - apply write_image_canon. assumption.
      - rewrite En. apply write_image_only_level. assumption.
    Qed.

    Lemma run_tile_image_canon_level (img : pixels) pls : forall s,
      (forall p, In p pls -> p_n p = t_levels t) -> canon s -> only_level (t_levels t) s ->
      canon (run_tile_image true img pls s) /\ only_level (t_levels t) (run_tile_image true img pls s).
    Proof.
      induction pls as [|p r IH]; intros s Hn Hc Hl; [split; assumption|].
      unfold run_tile_image. cbn [fold_left].
      fold (run_tile_image true img r (write_image true s (p_n p) (p_x p) (p_y p) (fill_buffer img p))).
      apply IH; [intros; apply Hn; right; assumption| |].
      - apply write_image_canon. assumption.
      - rewrite (Hn p (or_introl eq_refl)). apply write_image_only_level. assumption.
    Qed.

    Lemma forallb_false {A} (f : A -> bool) l : forallb f l = false -> exists a, In a l /\ f a = false.
    Proof.
      induction l as [|a l IH]; cbn [forallb]; [discriminate|].
      destruct (f a) eqn:E; cbn [andb].
      - intros Hf. destruct (IH Hf) as (b & Hb & Hfb). exists b. split; [right; assumption|assumption].
      - intros _. exists a. split; [left; reflexivity|assumption].
    Qed.

    Lemma completely_masked_false (b : pixels) :
      completely_masked b = false -> exists r c, 0 <= r < 256 /\ 0 <= c < 256 /\ b r c <> None.
    Proof.
      unfold completely_masked. intros Hf.
      apply forallb_false in Hf. destruct Hf as (r & Hr & Hf).
      apply forallb_false in Hf. destruct Hf as (c & Hc & Hf).
      apply in_zrange in Hr. apply in_zrange in Hc.
      exists r, c. split; [lia|]. split; [lia|]. destruct (b r c); [discriminate|discriminate].
    Qed.

    Lemma display_row_invol r : display_row inv (display_row inv r) = r.
    Proof. unfold display_row. destruct inv; lia. Qed.

    (* two canonical deepest-level stores with the same display mosaic hold the
       same files with the same pixels *)
    Lemma same_display_same_tiles s1 s2 :
      canon s1 -> canon s2 -> only_level (t_levels t) s1 -> only_level (t_levels t) s2 ->
      (forall R C, D s1 R C = D s2 R C) ->
      forall n x y,
        (s1 n x y = None <-> s2 n x y = None) /\
        (forall r c, 0 <= r < 256 -> 0 <= c < 256 ->
                     read_image_masked s1 n x y r c = read_image_masked s2 n x y r c).
    Proof.
      intros Hc1 Hc2 Hl1 Hl2 HD n x y.
      destruct (Z.eq_dec n (t_levels t)) as [->|Hn].
      2:{ unfold read_image_masked. rewrite (Hl1 n x y Hn), (Hl2 n x y Hn). split; [tauto|reflexivity]. }
      assert (Hpix : forall r c, 0 <= r < 256 -> 0 <= c < 256 ->
                read_image_masked s1 (t_levels t) x y r c = read_image_masked s2 (t_levels t) x y r c).
      { intros r c Hr Hc. specialize (HD (256 * y + display_row inv r) (256 * x + c)).
        unfold D, mosaic_display in HD.
        assert (Hd : 0 <= display_row inv r < 256) by (unfold display_row; destruct inv; lia).
        replace ((256 * x + c) / 256) with x in HD by lia.
        replace ((256 * y + display_row inv r) / 256) with y in HD by lia.
        replace ((256 * x + c) mod 256) with c in HD by lia.
        replace ((256 * y + display_row inv r) mod 256) with (display_row inv r) in HD by lia.
        rewrite display_row_invol in HD. exact HD. }
      split; [|exact Hpix].
      assert (Hdir : forall sa sb, canon sa ->
                (forall r c, 0 <= r < 256 -> 0 <= c < 256 ->
                   read_image_masked sa (t_levels t) x y r c = read_image_masked sb (t_levels t) x y r c) ->
                sb (t_levels t) x y = None -> sa (t_levels t) x y = None).
      { intros sa sb Hca Hp Hb. destruct (sa (t_levels t) x y) as [b|] eqn:Ea; [|reflexivity]. exfalso.
        destruct (completely_masked_false b (Hca _ _ _ _ Ea)) as (r & c & Hr & Hc & Hne).
        specialize (Hp r c Hr Hc). unfold read_image_masked in Hp. rewrite Ea, Hb in Hp. contradiction. }
      split; intros E.
      - apply (Hdir s2 s1 Hc2); [intros; symmetry; apply Hpix; assumption|assumption].
      - apply (Hdir s1 s2 Hc1); assumption.
    Qed.

    (* tiles_eq_mosaic at file level: the multi-input run (any order / schedule)
       leaves exactly the files that study-tiling the pasted mosaic writes, with
       the same pixels *)
    Lemma tiles_identical seq :
      (forall o, In o seq <-> In o the_ops) ->
      exists s_ref, tile_image true t inv (pasted ins) = Some s_ref /\
      forall n x y,
        (run_ops seq empty_store n x y = None <-> s_ref n x y = None) /\
        (forall r c, 0 <= r < 256 -> 0 <= c < 256 ->
           read_image_masked (run_ops seq empty_store) n x y r c = read_image_masked s_ref n x y r c).
    Proof.
      intros Hsame.
      assert (Hcon : constructed t) by (apply (c_study W H); exact Ht).
      pose proof (constructed_wf t Hcon) as Hwf.
      unfold tile_image. rewrite (tile_image_placements_ok t inv Hwf).
      eexists; split; [reflexivity|].
      destruct (run_ops_canon_level seq empty_store) as [Hc1 Hl1];
        [intros o Ho; apply in_the_ops, Hsame, Ho|intros n x y b; discriminate|intros n x y _; reflexivity|].
      destruct (run_tile_image_canon_level (pasted ins)
                  (map (placement_of inv) (generate_populated_positions t)) empty_store) as [Hc2 Hl2];
        [|intros n x y b; discriminate|intros n x y _; reflexivity|].
      { intros p Hp. apply in_map_iff in Hp. destruct Hp as (u & <- & Hu).
        apply in_generate in Hu. destruct Hu as (a & b & _ & ->). reflexivity. }
      apply same_display_same_tiles; try assumption.
      intros R C. rewrite (any_order_gives_mosaic seq Hsame R C). unfold D, M.
      destruct (reassembly_wf true t inv (pasted ins) Hwf) as (s' & Es' & Hm).
      unfold tile_image in Es'. rewrite (tile_image_placements_ok t inv Hwf) in Es'.
      injection Es' as <-. symmetry. apply Hm.
    Qed.

    (* no_lockfiles_left: every lock file update_image may leave behind belongs
       to a position clean_lockfiles visits *)
    Lemma no_lockfiles_left lingering :
      (forall l, In l lingering -> In l (locks_created (map op_pl the_ops))) ->
      clean_lockfiles (t_levels t) lingering = [].
    Proof.
      intros Hsub. unfold clean_lockfiles. apply filter_none. intros l Hl.
      specialize (Hsub l Hl). unfold locks_created in Hsub. rewrite map_map in Hsub.
      apply in_map_iff in Hsub. destruct Hsub as (o & <- & Ho).
      destruct (valid_op_pos o (proj1 (in_the_ops o) Ho)) as (En & Hx & Hy).
      unfold cleaned. rewrite En, Z.eqb_refl. cbn [andb].
      assert (E : ((0 <=? p_x (op_pl o)) && (p_x (op_pl o) <? 2 ^ t_levels t) &&
                   (0 <=? p_y (op_pl o)) && (p_y (op_pl o) <? 2 ^ t_levels t)) = true).
      { rewrite !andb_true_iff, !Z.leb_le, !Z.ltb_lt. lia. }
      rewrite E. reflexivity.
    Qed.
  End WithTiling.

  (* ------------------------------------------------------------------ *)
  (* independence statements across runs *)

  (* parallel runs: whatever the number of workers, the assignment of inputs to
     workers and the interleaving of their locked updates *)
  Lemma schedule_independent W H t inv ins (workers : list (list op)) seq :
    study_tiling W H = Some t -> (forall i, In i ins -> valid_input t i) -> overlaps_agree ins ->
    (forall o, In o (concat workers) <-> In o (the_ops inv ins)) ->
    interleave workers seq ->
    forall R C, D t inv (run_ops seq empty_store) R C = M t ins R C.
  Proof.
    intros Ht Hv Ha Hw Hil. apply (any_order_gives_mosaic W H t Ht inv ins Hv Ha).
    intros o. rewrite (interleave_elems workers seq Hil o). apply Hw.
  Qed.

  Lemma pasted_same_elements (ins ins' : list input) R C :
    overlaps_agree ins -> (forall i, In i ins <-> In i ins') -> pasted ins R C = pasted ins' R C.
  Proof.
    intros Ha Hsame.
    assert (Ha' : overlaps_agree ins').
    { intros i j R' C' v v' Hi Hj. apply Ha; apply Hsame; assumption. }
    destruct (pasted ins R C) as [v|] eqn:E.
    - apply pasted_some in E. destruct E as (i & Hi & Hv). symmetry.
      apply (pasted_first ins' i); [exact Ha'|apply Hsame; assumption|assumption].
    - destruct (pasted ins' R C) as [v|] eqn:E'; [|reflexivity].
      apply pasted_some in E'. destruct E' as (i & Hi & Hv).
      rewrite (pasted_first ins i R C v Ha (proj2 (Hsame i) Hi) Hv) in E. discriminate.
  Qed.

  (* the order of the inputs in the collection is irrelevant *)
  Lemma input_order_independent W H t inv ins ins' seq' :
    study_tiling W H = Some t -> (forall i, In i ins -> valid_input t i) -> overlaps_agree ins ->
    (forall i, In i ins <-> In i ins') ->
    (forall o, In o seq' <-> In o (the_ops inv ins')) ->
    forall R C, D t inv (run_ops seq' empty_store) R C = M t ins R C.
  Proof.
    intros Ht Hv Ha Hsame Hseq R C.
    assert (Hv' : forall i, In i ins' -> valid_input t i) by (intros; apply Hv, Hsame; assumption).
    assert (Ha' : overlaps_agree ins').
    { intros i j R' C' v v' Hi Hj. apply Ha; apply Hsame; assumption. }
    rewrite (any_order_gives_mosaic W H t Ht inv ins' Hv' Ha' seq' Hseq R C).
    unfold M, expected_mosaic. destruct (in_image t R C); [|reflexivity].
    symmetry. apply pasted_same_elements; assumption.
  Qed.

  (* the storage parity of the inputs is irrelevant: two collections whose
     inputs have the same place, size and top-down content *)
  Definition same_content (i j : input) : Prop :=
    in_seg i = in_seg j /\ in_w i = in_w j /\ in_h i = in_h j /\
    forall y x, top_down i y x = top_down j y x.

  Lemma same_content_input_at i j R C : same_content i j -> input_at i R C = input_at j R C.
  Proof.
    intros (Es & Ew & Eh & Et). unfold input_at. rewrite Es, Ew, Eh.
    destruct (_ && _ && _ && _); [apply Et|reflexivity].
  Qed.

  Lemma same_content_pasted insA insB R C :
    Forall2 same_content insA insB -> pasted insA R C = pasted insB R C.
  Proof.
    induction 1 as [|i j ra rb Hij _ IH]; [reflexivity|].
    cbn [pasted]. rewrite (same_content_input_at i j R C Hij), IH. reflexivity.
  Qed.

  Lemma storage_parity_independent W H t inv insA insB seqA seqB :
    study_tiling W H = Some t ->
    (forall i, In i insA -> valid_input t i) -> overlaps_agree insA ->
    Forall2 same_content insA insB ->
    (forall o, In o seqA <-> In o (the_ops inv insA)) ->
    (forall o, In o seqB <-> In o (the_ops inv insB)) ->
    forall R C, D t inv (run_ops seqA empty_store) R C = D t inv (run_ops seqB empty_store) R C.
  Proof.
    intros Ht HvA HaA Hsc HsA HsB R C.
    assert (Hex : forall j, In j insB -> exists i, In i insA /\ same_content i j).
    { clear -Hsc. induction Hsc as [|a b la lb Hab _ IH]; intros j Hj; [destruct Hj|].
      destruct Hj as [<-|Hj]; [exists a; split; [left; reflexivity|assumption]|].
      destruct (IH j Hj) as (i & Hi & Hc). exists i. split; [right; assumption|assumption]. }
    assert (HvB : forall j, In j insB -> valid_input t j).
    { intros j Hj. destruct (Hex j Hj) as (i & Hi & (Es & Ew & Eh & _)).
      specialize (HvA i Hi). unfold valid_input in *. rewrite <- Es, <- Ew, <- Eh. exact HvA. }
    assert (HaB : overlaps_agree insB).
    { intros j j' R' C' v v' Hj Hj' E E'.
      destruct (Hex j Hj) as (i & Hi & Hc). destruct (Hex j' Hj') as (i' & Hi' & Hc').
      rewrite <- (same_content_input_at i j R' C' Hc) in E.
      rewrite <- (same_content_input_at i' j' R' C' Hc') in E'.
      apply (HaA i i' R' C' v v' Hi Hi' E E'). }
    rewrite (any_order_gives_mosaic W H t Ht inv insA HvA HaA seqA HsA R C).
    rewrite (any_order_gives_mosaic W H t Ht inv insB HvB HaB seqB HsB R C).
    unfold M, expected_mosaic. destruct (in_image t R C); [|reflexivity].
    apply same_content_pasted. assumption.
  Qed.
End PixelProofs.

(* ------------------------------------------------------------------ *)
(* compute_global_pixelization under the common-pixel-grid hypothesis *)

Lemma Qmin_grid x y a b c :
  (x == inject_Z a + c -> y == inject_Z b + c -> Qmin x y == inject_Z (Z.min a b) + c)%Q.
Proof.
  intros Hx Hy. destruct (Z_le_gt_dec a b) as [H|H].
  - rewrite Z.min_l by lia. rewrite Q.min_l; [assumption|].
    rewrite Hx, Hy. apply Qplus_le_l. rewrite <- Zle_Qle. lia.
  - rewrite Z.min_r by lia. rewrite Q.min_r; [assumption|].
    rewrite Hx, Hy. apply Qplus_le_l. rewrite <- Zle_Qle. lia.
Qed.

Lemma Qmax_grid x y a b c :
  (x == inject_Z a + c -> y == inject_Z b + c -> Qmax x y == inject_Z (Z.max a b) + c)%Q.
Proof.
  intros Hx Hy. destruct (Z_le_gt_dec a b) as [H|H].
  - rewrite Z.max_r by lia. rewrite Q.max_r; [assumption|].
    rewrite Hx, Hy. apply Qplus_le_l. rewrite <- Zle_Qle. lia.
  - rewrite Z.max_l by lia. rewrite Q.max_l; [assumption|].
    rewrite Hx, Hy. apply Qplus_le_l. rewrite <- Zle_Qle. lia.
Qed.

Lemma q_int_Z q z : (q == inject_Z z)%Q -> q_int q = z.
Proof.
  intros H. unfold q_int. destruct (Qle_bool 0 q); rewrite H; [apply Qfloor_Z|apply Qceiling_Z].
Qed.

Lemma Qfloor_eqZ q z : (q == inject_Z z)%Q -> Qfloor q = z.
Proof. intros H. rewrite H. apply Qfloor_Z. Qed.

Lemma Qceiling_eqZ q z : (q == inject_Z z)%Q -> Qceiling q = z.
Proof. intros H. rewrite H. apply Qceiling_Z. Qed.

Fixpoint zmin_list (a : Z) (l : list Z) : Z :=
  match l with [] => a | x :: r => zmin_list (Z.min a x) r end.
Fixpoint zmax_list (a : Z) (l : list Z) : Z :=
  match l with [] => a | x :: r => zmax_list (Z.max a x) r end.

Lemma zmin_list_le l : forall a, zmin_list a l <= a /\ forall x, In x l -> zmin_list a l <= x.
Proof.
  induction l as [|y l IH]; intros a; cbn [zmin_list]; [split; [lia|intros x []]|].
  destruct (IH (Z.min a y)) as [H1 H2]. split; [lia|].
  intros x [<-|Hx]; [lia|apply H2; assumption].
Qed.

Lemma zmax_list_ge l : forall a, a <= zmax_list a l /\ forall x, In x l -> x <= zmax_list a l.
Proof.
  induction l as [|y l IH]; intros a; cbn [zmax_list]; [split; [lia|intros x []]|].
  destruct (IH (Z.max a y)) as [H1 H2]. split; [lia|].
  intros x [<-|Hx]; [lia|apply H2; assumption].
Qed.

Lemma qmin_list_grid {A} (f : A -> Q) (g : A -> Z) c l : forall aq az,
  (aq == inject_Z az + c)%Q -> (forall d, In d l -> (f d == inject_Z (g d) + c)%Q) ->
  (qmin_list aq (map f l) == inject_Z (zmin_list az (map g l)) + c)%Q.
Proof.
  induction l as [|d l IH]; intros aq az Ha Hl; cbn [map qmin_list zmin_list]; [assumption|].
  apply IH; [|intros; apply Hl; right; assumption].
  apply Qmin_grid; [assumption|apply Hl; left; reflexivity].
Qed.

Lemma qmax_list_grid {A} (f : A -> Q) (g : A -> Z) c l : forall aq az,
  (aq == inject_Z az + c)%Q -> (forall d, In d l -> (f d == inject_Z (g d) + c)%Q) ->
  (qmax_list aq (map f l) == inject_Z (zmax_list az (map g l)) + c)%Q.
Proof.
  induction l as [|d l IH]; intros aq az Ha Hl; cbn [map qmax_list zmax_list]; [assumption|].
  apply IH; [|intros; apply Hl; right; assumption].
  apply Qmax_grid; [assumption|apply Hl; left; reflexivity].
Qed.

Lemma grid_diff a b c x y :
  (x == inject_Z a + c -> y == inject_Z b + c -> x - y == inject_Z (a - b))%Q.
Proof.
  intros Hx Hy. rewrite Hx, Hy. unfold Z.sub. rewrite inject_Z_plus, inject_Z_opp. ring.
Qed.

Lemma last_in {A} (l : list A) : forall d, In (last l d) (d :: l).
Proof.
  induction l as [|a l IH]; intros d; [left; reflexivity|].
  destruct l as [|b l']; [right; left; reflexivity|].
  change (last (a :: b :: l') d) with (last (b :: l') d).
  destruct (IH d) as [E|E]; [left; assumption|right; right; assumption].
Qed.

Section FrontEnd.
  (* the inputs share one pixel grid: the first pixel of input d sits at the
     integer position (ax d, ay d) of a common grid, up to one common offset *)
  Variables (ax ay : fits_desc -> Z) (cx cy : Q).

  Definition on_grid (ds : list fits_desc) : Prop :=
    forall d, In d ds ->
      (crxmin d == inject_Z (ax d) + cx)%Q /\ (crymin d == inject_Z (ay d) + cy)%Q.

  Lemma crxmax_grid d :
    (crxmin d == inject_Z (ax d) + cx -> crxmax d == inject_Z (ax d + (fd_w d - 1)) + cx)%Q.
  Proof.
    intros Hd. assert (E : (crxmax d == crxmin d + inject_Z (fd_w d - 1))%Q) by (unfold crxmax, crxmin; ring).
    rewrite E, Hd, inject_Z_plus. ring.
  Qed.

  Lemma crymax_grid d :
    (crymin d == inject_Z (ay d) + cy -> crymax d == inject_Z (ay d + (fd_h d - 1)) + cy)%Q.
  Proof.
    intros Hd. assert (E : (crymax d == crymin d + inject_Z (fd_h d - 1))%Q) by (unfold crymax, crymin; ring).
    rewrite E, Hd, inject_Z_plus. ring.
  Qed.

  Lemma segment_of_grid t gxmin gymin xmin ymin d st :
    (gxmin == inject_Z xmin + cx)%Q -> (gymin == inject_Z ymin + cy)%Q ->
    (crxmin d == inject_Z (ax d) + cx)%Q -> (crymin d == inject_Z (ay d) + cy)%Q ->
    1 <= fd_w d -> 1 <= fd_h d ->
    compute_for_subimage t (ax d - xmin) (ay d - ymin) (fd_w d) (fd_h d) = Some st ->
    segment_of t gxmin gymin d = Some (mkSeg (ax d - xmin) (ay d - ymin) st).
  Proof.
    intros Hgx Hgy Hdx Hdy Hw Hh Hst. unfold segment_of.
    rewrite (Qfloor_eqZ _ _ (grid_diff _ _ _ _ _ Hdx Hgx)).
    rewrite (Qfloor_eqZ _ _ (grid_diff _ _ _ _ _ Hdy Hgy)).
    rewrite (Qceiling_eqZ _ _ (grid_diff _ _ _ _ _ (crxmax_grid d Hdx) Hgx)).
    rewrite (Qceiling_eqZ _ _ (grid_diff _ _ _ _ _ (crymax_grid d Hdy) Hgy)).
    destruct (ax d + (fd_w d - 1) - xmin <? ax d - xmin) eqn:E1; [apply Z.ltb_lt in E1; lia|].
    destruct (ay d + (fd_h d - 1) - ymin <? ay d - ymin) eqn:E2; [apply Z.ltb_lt in E2; lia|].
    cbn [orb].
    replace (ax d + (fd_w d - 1) - xmin + 1 - (ax d - xmin)) with (fd_w d) by lia.
    replace (ay d + (fd_h d - 1) - ymin + 1 - (ay d - ymin)) with (fd_h d) by lia.
    rewrite Hst. reflexivity.
  Qed.

  (* bounding box of the inputs on the common grid *)
  Definition xmin_of d0 rest := zmin_list (ax d0) (map ax rest).
  Definition ymin_of d0 rest := zmin_list (ay d0) (map ay rest).
  Definition xmax_of d0 rest := zmax_list (ax d0 + (fd_w d0 - 1)) (map (fun d => ax d + (fd_w d - 1)) rest).
  Definition ymax_of d0 rest := zmax_list (ay d0 + (fd_h d0 - 1)) (map (fun d => ay d + (fd_h d - 1)) rest).

  Lemma bbox_x d0 rest d :
    In d (d0 :: rest) -> xmin_of d0 rest <= ax d /\ ax d + (fd_w d - 1) <= xmax_of d0 rest.
  Proof.
    unfold xmin_of, xmax_of. intros [<-|Hd].
    - split; [apply (proj1 (zmin_list_le _ _))|apply (proj1 (zmax_list_ge _ _))].
    - split; [apply (proj2 (zmin_list_le _ _)); apply in_map; assumption|].
      apply (proj2 (zmax_list_ge _ _)). apply (in_map (fun d => ax d + (fd_w d - 1))). assumption.
  Qed.

  Lemma bbox_y d0 rest d :
    In d (d0 :: rest) -> ymin_of d0 rest <= ay d /\ ay d + (fd_h d - 1) <= ymax_of d0 rest.
  Proof.
    unfold ymin_of, ymax_of. intros [<-|Hd].
    - split; [apply (proj1 (zmin_list_le _ _))|apply (proj1 (zmax_list_ge _ _))].
    - split; [apply (proj2 (zmin_list_le _ _)); apply in_map; assumption|].
      apply (proj2 (zmax_list_ge _ _)). apply (in_map (fun d => ay d + (fd_h d - 1))). assumption.
  Qed.

  (* global pixelisation = the bounding box of the pasted inputs; every input's
     segment is the legal sub-image at its grid position, of the input's own
     size; the global reference pixel is every input's reference pixel *)
  Lemma global_pixelization_grid d0 rest :
    let ds := d0 :: rest in
    on_grid ds ->
    (forall d, In d ds -> fd_match d = fd_match d0 /\ 1 <= fd_w d /\ 1 <= fd_h d) ->
    let xmin := xmin_of d0 rest in let ymin := ymin_of d0 rest in
    let width := xmax_of d0 rest - xmin + 1 in let height := ymax_of d0 rest - ymin + 1 in
    exists g,
      compute_global_pixelization ds = Some g /\
      gp_width g = width /\ gp_height g = height /\ gp_match g = fd_match d0 /\
      study_tiling width height = Some (gp_tiling g) /\
      Forall2 (fun d s =>
                 sg_imin s = ax d - xmin /\ sg_jmin s = ay d - ymin /\
                 compute_for_subimage (gp_tiling g) (sg_imin s) (sg_jmin s) (fd_w d) (fd_h d)
                 = Some (sg_tiling s)) ds (gp_segments g) /\
      (forall d, In d ds ->
         (gp_crpix1 g - 1 == this_crpix1 d + inject_Z (ax d - xmin))%Q /\
         (gp_crpix2 g - 1 == this_crpix2 d + inject_Z (ay d - ymin))%Q).
  Proof.
    intros ds Hgrid Hok xmin ymin width height.
    assert (Hgrid0 := Hgrid d0 (or_introl eq_refl)). destruct Hgrid0 as [Hx0 Hy0].
    assert (Hrest : forall d, In d rest -> In d ds) by (intros; right; assumption).
    pose proof (qmin_list_grid crxmin ax cx rest _ _ Hx0 (fun d Hd => proj1 (Hgrid d (Hrest d Hd)))) as Egxmin.
    pose proof (qmin_list_grid crymin ay cy rest _ _ Hy0 (fun d Hd => proj2 (Hgrid d (Hrest d Hd)))) as Egymin.
    pose proof (qmax_list_grid crxmax (fun d => ax d + (fd_w d - 1)) cx rest _ _ (crxmax_grid d0 Hx0)
                  (fun d Hd => crxmax_grid d (proj1 (Hgrid d (Hrest d Hd))))) as Egxmax.
    pose proof (qmax_list_grid crymax (fun d => ay d + (fd_h d - 1)) cy rest _ _ (crymax_grid d0 Hy0)
                  (fun d Hd => crymax_grid d (proj2 (Hgrid d (Hrest d Hd))))) as Egymax.
    fold (xmin_of d0 rest) in Egxmin. fold (ymin_of d0 rest) in Egymin.
    fold (xmax_of d0 rest) in Egxmax. fold (ymax_of d0 rest) in Egymax.
    fold xmin in Egxmin. fold ymin in Egymin.
    set (gxmin := qmin_list (crxmin d0) (map crxmin rest)) in *.
    set (gymin := qmin_list (crymin d0) (map crymin rest)) in *.
    set (gxmax := qmax_list (crxmax d0) (map crxmax rest)) in *.
    set (gymax := qmax_list (crymax d0) (map crymax rest)) in *.
    assert (Ew : q_int (gxmax - gxmin) + 1 = width).
    { rewrite (q_int_Z _ _ (grid_diff _ _ _ _ _ Egxmax Egxmin)). reflexivity. }
    assert (Eh : q_int (gymax - gymin) + 1 = height).
    { rewrite (q_int_Z _ _ (grid_diff _ _ _ _ _ Egymax Egymin)). reflexivity. }
    destruct (Hok d0 (or_introl eq_refl)) as (_ & Hw0 & Hh0).
    destruct (bbox_x d0 rest d0 (or_introl eq_refl)) as [Bx1 Bx2].
    destruct (bbox_y d0 rest d0 (or_introl eq_refl)) as [By1 By2].
    fold xmin in Bx1. fold ymin in By1.
    assert (Hwpos : 1 <= width) by (unfold width; lia).
    assert (Hhpos : 1 <= height) by (unfold height; lia).
    destruct (proj1 (study_tiling_total width height) (conj Hwpos Hhpos)) as (t & Et).
    pose proof (p2n_minimal width height t Et) as (Etw & Eth & _).
    (* the segments *)
    set (sub := fun d => match compute_for_subimage t (ax d - xmin) (ay d - ymin) (fd_w d) (fd_h d) with
                         | Some st => st | None => t end).
    assert (Hsub : forall d, In d ds ->
              compute_for_subimage t (ax d - xmin) (ay d - ymin) (fd_w d) (fd_h d) = Some (sub d)).
    { intros d Hd. unfold sub.
      destruct (Hok d Hd) as (_ & Hw & Hh).
      destruct (bbox_x d0 rest d Hd) as [B1 B2]. destruct (bbox_y d0 rest d Hd) as [B3 B4].
      fold xmin in B1. fold ymin in B3.
      assert (Hl : legal_subimage t (ax d - xmin) (ay d - ymin) (fd_w d) (fd_h d)).
      { unfold legal_subimage. rewrite Etw, Eth. unfold width, height. lia. }
      destruct (proj1 (subimage_total width height t _ _ _ _ Et) Hl) as (st & Est).
      rewrite Est. reflexivity. }
    assert (Esegs : map_opt (segment_of t gxmin gymin) ds =
                    Some (map (fun d => mkSeg (ax d - xmin) (ay d - ymin) (sub d)) ds)).
    { apply map_opt_map. intros d Hd. destruct (Hgrid d Hd) as [Hdx Hdy].
      destruct (Hok d Hd) as (_ & Hw & Hh).
      apply segment_of_grid; try assumption. apply Hsub; assumption. }
    assert (Ematch : forallb (fun d => fd_match d =? fd_match d0) rest = true).
    { apply forallb_forall. intros d Hd. apply Z.eqb_eq. apply (Hok d (Hrest d Hd)). }
    subst ds. eexists. split.
    - unfold compute_global_pixelization. rewrite Ematch. cbn [negb]. cbv zeta.
      fold gxmin gymin gxmax gymax. rewrite Ew, Eh, Et, Esegs. reflexivity.
    - cbn [gp_width gp_height gp_match gp_tiling gp_segments gp_crpix1 gp_crpix2].
      split; [reflexivity|]. split; [reflexivity|]. split; [reflexivity|]. split; [assumption|]. split.
      + assert (HF : forall l, (forall d, In d l -> In d (d0 :: rest)) ->
                  Forall2 (fun d s => sg_imin s = ax d - xmin /\ sg_jmin s = ay d - ymin /\
                                      compute_for_subimage t (sg_imin s) (sg_jmin s) (fd_w d) (fd_h d) = Some (sg_tiling s))
                          l (map (fun d => mkSeg (ax d - xmin) (ay d - ymin) (sub d)) l)).
        { induction l as [|d l IH]; intros Hl; cbn [map]; constructor.
          - cbn [sg_imin sg_jmin sg_tiling]. split; [reflexivity|]. split; [reflexivity|].
            apply Hsub, Hl. left; reflexivity.
          - apply IH. intros; apply Hl; right; assumption. }
        apply HF. auto.
      + intros d Hd. destruct (Hgrid d Hd) as [Hdx Hdy].
        set (dl := last rest d0).
        assert (Hdl : In dl (d0 :: rest)).
        { subst dl. apply last_in. }
        destruct (Hgrid dl Hdl) as [Hlx Hly].
        assert (Tx : forall e, (this_crpix1 e == 0 - crxmin e)%Q) by (intros; unfold crxmin; ring).
        assert (Ty : forall e, (this_crpix2 e == 0 - crymin e)%Q) by (intros; unfold crymin; ring).
        split.
        * rewrite (Tx dl), (Tx d), Hlx, Hdx, Egxmin. unfold Z.sub.
          rewrite inject_Z_plus, inject_Z_opp. ring.
        * rewrite (Ty dl), (Ty d), Hly, Hdy, Egymin. unfold Z.sub.
          rewrite inject_Z_plus, inject_Z_opp. ring.
  Qed.
End FrontEnd.

(* ------------------------------------------------------------------ *)
(* end to end: compute_global_pixelization + tile on a common pixel grid *)
Section EndToEnd.
  Context {V : Type}.
  Variables (ax ay : fits_desc -> Z) (cx cy : Q).

  Lemma make_inputs_valid t (segs : list segment) ds (pxs : list (@pixels V)) :
    Forall2 (fun d s => compute_for_subimage t (sg_imin s) (sg_jmin s) (fd_w d) (fd_h d) = Some (sg_tiling s)) ds segs ->
    forall i, In i (make_inputs segs ds pxs) -> valid_input t i.
  Proof.
    intros HF. revert pxs. induction HF as [|d s ds' segs' Hds _ IH]; intros pxs i Hi; [destruct Hi|].
    destruct pxs as [|p pxs']; [destruct Hi|]. cbn [make_inputs] in Hi.
    destruct Hi as [<-|Hi]; [exact Hds|apply (IH pxs' i Hi)].
  Qed.

  (* C09 for the serial run of the whole processor *)
  Lemma process_eq_mosaic d0 rest (pxs : list (@pixels V)) inv :
    let ds := d0 :: rest in
    on_grid ax ay cx cy ds ->
    (forall d, In d ds -> fd_match d = fd_match d0 /\ 1 <= fd_w d /\ 1 <= fd_h d) ->
    forall g, compute_global_pixelization ds = Some g ->
    overlaps_agree (make_inputs (gp_segments g) ds pxs) ->
    exists s, process ds pxs inv = Some (g, s) /\
      forall R C, mosaic_display (gp_tiling g) inv s R C =
                  expected_mosaic (gp_tiling g) (pasted (make_inputs (gp_segments g) ds pxs)) R C.
  Proof.
    intros ds Hgrid Hok g Eg Hagree.
    destruct (global_pixelization_grid ax ay cx cy d0 rest Hgrid Hok) as (g' & Eg' & _ & _ & _ & Ht & HF & _).
    fold ds in Eg'. rewrite Eg in Eg'. injection Eg' as <-.
    assert (Hvalid : forall i, In i (make_inputs (gp_segments g) ds pxs) -> valid_input (gp_tiling g) i).
    { apply make_inputs_valid. clear -HF. induction HF as [|d s l l' (_ & _ & H) _ IH]; constructor; assumption. }
    destruct (serial_gives_mosaic _ _ _ Ht inv _ Hvalid Hagree) as (s & Es & Hs).
    exists s. split; [|exact Hs]. unfold process. rewrite Eg, Es. reflexivity.
  Qed.
End EndToEnd.

(* ------------------------------------------------------------------ *)
(* the bounding box does not depend on the order of the inputs *)
Lemma zmin_list_in l : forall a, zmin_list a l = a \/ In (zmin_list a l) l.
Proof.
  induction l as [|y l IH]; intros a; cbn [zmin_list]; [left; reflexivity|].
  destruct (IH (Z.min a y)) as [E|E].
  - rewrite E. destruct (Z.min_spec a y) as [[_ ->]|[_ ->]]; [left; reflexivity|right; left; reflexivity].
  - right; right; assumption.
Qed.

Lemma zmax_list_in l : forall a, zmax_list a l = a \/ In (zmax_list a l) l.
Proof.
  induction l as [|y l IH]; intros a; cbn [zmax_list]; [left; reflexivity|].
  destruct (IH (Z.max a y)) as [E|E].
  - rewrite E. destruct (Z.max_spec a y) as [[_ ->]|[_ ->]]; [right; left; reflexivity|left; reflexivity].
  - right; right; assumption.
Qed.

Lemma zmin_list_same a l b l' :
  (forall x, In x (a :: l) <-> In x (b :: l')) -> zmin_list a l = zmin_list b l'.
Proof.
  intros Hs.
  assert (H1 : In (zmin_list a l) (a :: l)) by (destruct (zmin_list_in l a) as [->|H]; [left; reflexivity|right; assumption]).
  assert (H2 : In (zmin_list b l') (b :: l')) by (destruct (zmin_list_in l' b) as [->|H]; [left; reflexivity|right; assumption]).
  assert (L1 : forall x, In x (a :: l) -> zmin_list a l <= x).
  { intros x [<-|Hx]; [apply (proj1 (zmin_list_le l a))|apply (proj2 (zmin_list_le l a)); assumption]. }
  assert (L2 : forall x, In x (b :: l') -> zmin_list b l' <= x).
  { intros x [<-|Hx]; [apply (proj1 (zmin_list_le l' b))|apply (proj2 (zmin_list_le l' b)); assumption]. }
  pose proof (L1 _ (proj2 (Hs _) H2)). pose proof (L2 _ (proj1 (Hs _) H1)). lia.
Qed.

Lemma zmax_list_same a l b l' :
  (forall x, In x (a :: l) <-> In x (b :: l')) -> zmax_list a l = zmax_list b l'.
Proof.
  intros Hs.
  assert (H1 : In (zmax_list a l) (a :: l)) by (destruct (zmax_list_in l a) as [->|H]; [left; reflexivity|right; assumption]).
  assert (H2 : In (zmax_list b l') (b :: l')) by (destruct (zmax_list_in l' b) as [->|H]; [left; reflexivity|right; assumption]).
  assert (L1 : forall x, In x (a :: l) -> x <= zmax_list a l).
  { intros x [<-|Hx]; [apply (proj1 (zmax_list_ge l a))|apply (proj2 (zmax_list_ge l a)); assumption]. }
  assert (L2 : forall x, In x (b :: l') -> x <= zmax_list b l').
  { intros x [<-|Hx]; [apply (proj1 (zmax_list_ge l' b))|apply (proj2 (zmax_list_ge l' b)); assumption]. }
  pose proof (L1 _ (proj2 (Hs _) H2)). pose proof (L2 _ (proj1 (Hs _) H1)). lia.
Qed.

Lemma bbox_order_independent (ax ay : fits_desc -> Z) d0 rest d0' rest' :
  (forall d, In d (d0 :: rest) <-> In d (d0' :: rest')) ->
  xmin_of ax d0 rest = xmin_of ax d0' rest' /\ ymin_of ay d0 rest = ymin_of ay d0' rest' /\
  xmax_of ax d0 rest = xmax_of ax d0' rest' /\ ymax_of ay d0 rest = ymax_of ay d0' rest'.
Proof.
  intros Hs.
  assert (Hmap : forall (f : fits_desc -> Z) x,
            In x (f d0 :: map f rest) <-> In x (f d0' :: map f rest')).
  { intros f x. change (f d0 :: map f rest) with (map f (d0 :: rest)).
    change (f d0' :: map f rest') with (map f (d0' :: rest')). rewrite !in_map_iff.
    split; intros (d & E & Hd); exists d; (split; [assumption|apply Hs; assumption]). }
  unfold xmin_of, ymin_of, xmax_of, ymax_of.
  repeat split.
  - apply zmin_list_same, (Hmap ax).
  - apply zmin_list_same, (Hmap ay).
  - apply zmax_list_same, (Hmap (fun d => ax d + (fd_w d - 1))).
  - apply zmax_list_same, (Hmap (fun d => ay d + (fd_h d - 1))).
Qed.
