(* Proofs for C13, part 1: the three position relations agree; the accepted-tree
   enumeration [pwalk] (and hence [generate_pos]) lists every in-scope position
   exactly once, children first. *)
From Coq Require Import List NArith ZArith Arith Bool Lia.
From Toasty Require Import Model.Quadtree Model.Reducer Proofs.QuadtreeP Proofs.ReducerP.
Import ListNotations.
Ltac Zify.zify_post_hook ::= Z.to_euclidean_division_equations.
Local Open Scope N_scope.

(* ---- small list facts -------------------------------------------------------- *)

Lemma NoDup_app_intro {T} (l1 l2 : list T) :
  NoDup l1 -> NoDup l2 -> (forall x, In x l1 -> ~ In x l2) -> NoDup (l1 ++ l2).
Proof.
  induction l1 as [|a l1 IH]; intros H1 H2 Hd; [exact H2|].
  cbn [app]. inversion H1; subst. constructor.
  - rewrite in_app_iff. intros [H|H]; [contradiction|]. apply (Hd a); [left; reflexivity|exact H].
  - apply IH; auto. intros x Hx. apply Hd. right. exact Hx.
Qed.

Lemma NoDup_filter' {T} (g : T -> bool) l : NoDup l -> NoDup (filter g l).
Proof.
  induction 1 as [|a l Hn Hd IH]; cbn [filter]; [constructor|].
  destruct (g a); [|exact IH]. constructor; [|exact IH].
  rewrite filter_In. tauto.
Qed.

Lemma filter_filter' {T} (g h : T -> bool) l :
  filter g (filter h l) = filter (fun x => h x && g x) l.
Proof.
  induction l as [|a l IH]; [reflexivity|]. cbn [filter].
  destruct (h a); cbn [filter andb]; [destruct (g a)|]; rewrite IH; reflexivity.
Qed.

Lemma filter_comm' {T} (g h : T -> bool) l : filter g (filter h l) = filter h (filter g l).
Proof.
  rewrite !filter_filter'. apply filter_ext. intros x. apply andb_comm.
Qed.

Lemma filter_all {T} (g : T -> bool) l : (forall x, In x l -> g x = true) -> filter g l = l.
Proof.
  induction l as [|a l IH]; intros H; [reflexivity|]. cbn [filter].
  rewrite (H a (or_introl eq_refl)). f_equal. apply IH. intros x Hx. apply H. right. exact Hx.
Qed.

Lemma filter_none {T} (g : T -> bool) l : (forall x, In x l -> g x = false) -> filter g l = [].
Proof.
  induction l as [|a l IH]; intros H; [reflexivity|]. cbn [filter].
  rewrite (H a (or_introl eq_refl)). apply IH. intros x Hx. apply H. right. exact Hx.
Qed.

Lemma filter_split_length {T} (g : T -> bool) l :
  (length (filter (fun x => negb (g x)) l) + length (filter g l) = length l)%nat.
Proof.
  induction l as [|a l IH]; [reflexivity|]. cbn [filter]. destruct (g a); cbn [negb length]; lia.
Qed.

(* ---- ancestors ---------------------------------------------------------------- *)

Lemma child_parent_pos c : (1 <= pn c)%nat -> In c (children (parent_pos c)).
Proof.
  destruct c as [[|n] x y]; cbn [pn]; [lia|]. intros _.
  apply (child_of_parent _ _ (x mod 2) (y mod 2)). reflexivity.
Qed.

Lemma children_cases p c : In c (children p) <-> c = c0 p \/ c = c1 p \/ c = c2 p \/ c = c3 p.
Proof. rewrite children_c. cbn [In]. intuition congruence. Qed.

Lemma c_distinct p :
  c0 p <> c1 p /\ c0 p <> c2 p /\ c0 p <> c3 p /\ c1 p <> c2 p /\ c1 p <> c3 p /\ c2 p <> c3 p.
Proof. unfold c0, c1, c2, c3. repeat split; intros H; injection H; lia. Qed.

Lemma ancestor_add i j q : ancestor (i + j) q = ancestor j (ancestor i q).
Proof.
  revert q. induction i as [|i IH]; intros q; [reflexivity|]. cbn [Nat.add ancestor]. apply IH.
Qed.

Lemma ancestor_px m c :
  (m <= pn c)%nat ->
  px (ancestor m c) = N.shiftr (px c) (N.of_nat m) /\ py (ancestor m c) = N.shiftr (py c) (N.of_nat m).
Proof.
  induction m as [|m IH]; intros Hm.
  - cbn [ancestor N.of_nat]. rewrite !N.shiftr_0_r. split; reflexivity.
  - destruct (IH ltac:(lia)) as [Hx Hy]. rewrite ancestor_S_out.
    pose proof (ancestor_pn m c) as Hn.
    destruct (ancestor m c) as [[|n] x y]; cbn [pn px py] in *; [lia|].
    unfold parent_pos, parent; cbn [pn px py].
    replace (N.of_nat (S m)) with (N.succ (N.of_nat m)) by lia.
    rewrite !N.shiftr_succ_r, <- Hx, <- Hy, !N.div2_div. split; reflexivity.
Qed.

(* ---- item 1: is_subtile, ancestor and the shift form agree -------------------- *)

Lemma is_subtile_none c p : is_subtile c p = None <-> (pn c < pn p)%nat.
Proof.
  unfold is_subtile. destruct (Nat.ltb_spec (pn c) (pn p)); split; intros H0;
    try reflexivity; try discriminate; lia.
Qed.

Lemma is_subtile_rec_anc m c p :
  is_subtile_rec m c p = N.eqb (px (ancestor m c)) (px p) && N.eqb (py (ancestor m c)) (py p).
Proof. revert c. induction m as [|m IH]; intros c; cbn [is_subtile_rec ancestor]; auto. Qed.

Lemma is_subtile_rec_iff c p :
  (pn p <= pn c)%nat ->
  is_subtile_rec (pn c - pn p) c p = true <-> ancestor (pn c - pn p) c = p.
Proof.
  intros Hle. rewrite is_subtile_rec_anc.
  pose proof (ancestor_pn (pn c - pn p) c) as Hn.
  destruct (ancestor (pn c - pn p) c) as [n x y], p as [n' x' y']; cbn [pn px py] in *.
  rewrite andb_true_iff, !N.eqb_eq. split.
  - intros [-> ->]. f_equal. lia.
  - intros H. injection H as _ -> ->. split; reflexivity.
Qed.

(* the recursive test through pos_parent = "p is the ancestor of c at p's level" *)
Theorem is_subtile_ancestor c p b :
  is_subtile c p = Some b ->
  (pn p <= pn c)%nat /\
  (b = true <-> exists m, ancestor m c = p /\ m = (pn c - pn p)%nat).
Proof.
  unfold is_subtile. destruct (Nat.ltb_spec (pn c) (pn p)) as [Hlt|Hle]; [discriminate|].
  intros H. injection H as <-. split; [exact Hle|].
  rewrite (is_subtile_rec_iff c p Hle). split.
  - intros H. eexists. split; [exact H|reflexivity].
  - intros (m & H & ->). exact H.
Qed.

Theorem is_subtile_some c p :
  (pn p <= pn c)%nat -> exists b, is_subtile c p = Some b.
Proof.
  intros Hle. unfold is_subtile. destruct (Nat.ltb_spec (pn c) (pn p)); [lia|]. eauto.
Qed.

Lemma below_iff c p :
  below c p = true <-> (pn p <= pn c)%nat /\ ancestor (pn c - pn p) c = p.
Proof.
  unfold below. rewrite !andb_true_iff, Nat.leb_le, !N.eqb_eq. split.
  - intros [[Hle Hx] Hy]. split; [exact Hle|].
    destruct (ancestor_px (pn c - pn p) c ltac:(lia)) as [Ex Ey].
    pose proof (ancestor_pn (pn c - pn p) c) as Hn.
    destruct (ancestor (pn c - pn p) c) as [n x y], p as [n' x' y']; cbn [pn px py] in *.
    f_equal; [lia|congruence|congruence].
  - intros [Hle H]. destruct (ancestor_px (pn c - pn p) c ltac:(lia)) as [Ex Ey].
    rewrite <- Ex, <- Ey, H. auto.
Qed.

(* ... = the shift form (no validity assumption is needed) *)
Theorem is_subtile_below c p :
  (pn p <= pn c)%nat -> is_subtile c p = Some (below c p).
Proof.
  intros Hle. unfold is_subtile. destruct (Nat.ltb_spec (pn c) (pn p)); [lia|]. f_equal.
  destruct (below c p) eqn:Eb.
  - apply is_subtile_rec_iff; [exact Hle|]. apply below_iff in Eb. tauto.
  - destruct (is_subtile_rec (pn c - pn p) c p) eqn:Er; [|reflexivity].
    apply is_subtile_rec_iff in Er; [|exact Hle].
    assert (below c p = true) by (apply below_iff; auto). congruence.
Qed.

Lemma below_shallower c p : (pn c < pn p)%nat -> below c p = false.
Proof. intros H. unfold below. destruct (Nat.leb_spec (pn p) (pn c)); [lia|reflexivity]. Qed.

Theorem child_is_subtile p c : In c (children p) -> is_subtile c p = Some true.
Proof.
  intros Hin. pose proof (children_level _ _ Hin) as Hn.
  rewrite is_subtile_below by lia. f_equal. apply below_iff. split; [lia|].
  replace (pn c - pn p)%nat with 1%nat by lia. cbn [ancestor]. apply parent_pos_child. exact Hin.
Qed.

Lemma below_refl a : below a a = true.
Proof. apply below_iff. split; [lia|]. rewrite Nat.sub_diag. reflexivity. Qed.

(* ---- validity along ancestors ------------------------------------------------- *)

Lemma valid_child p c : In c (children p) -> valid p = true -> valid c = true.
Proof.
  intros Hin Hv. destruct (parent_of_child _ _ Hin) as (ix & iy & _ & Hix & Hiy & ->).
  unfold valid in *; cbn [pn px py].
  apply andb_true_iff in Hv. destruct Hv as [Hx Hy]. apply N.ltb_lt in Hx, Hy.
  replace (N.of_nat (S (pn p))) with (N.succ (N.of_nat (pn p))) by lia.
  rewrite N.pow_succ_r'. apply andb_true_iff. split; apply N.ltb_lt; lia.
Qed.

Lemma valid_desc m : forall q p,
  pn q = (pn p + m)%nat -> ancestor m q = p -> valid p = true -> valid q = true.
Proof.
  induction m as [|m IH]; intros q p Hn Ha Hv.
  - cbn [ancestor] in Ha. subst. exact Hv.
  - cbn [ancestor] in Ha.
    apply (valid_child (parent_pos q)); [apply child_parent_pos; lia|].
    apply (IH _ p); auto. rewrite parent_pos_pn. lia.
Qed.

Lemma valid_ancestor m q : valid q = true -> valid (ancestor m q) = true.
Proof.
  revert q. induction m as [|m IH]; intros q Hv; [exact Hv|]. cbn [ancestor].
  apply IH. apply valid_parent. exact Hv.
Qed.

(* ---- item 3: membership of the accepted-tree enumeration ---------------------- *)

(* q lies m levels below p, p is its ancestor, and q and all its ancestors down
   from p are accepted *)
Definition desc_ok (acc : pos -> bool) (p q : pos) (m : nat) : Prop :=
  pn q = (pn p + m)%nat /\ ancestor m q = p /\
  forall i, (i <= m)%nat -> acc (ancestor i q) = true.

Lemma desc_ok_step acc p c q m :
  In c (children p) -> acc p = true -> desc_ok acc c q m -> desc_ok acc p q (S m).
Proof.
  intros Hc Ea (Hn & Ha & Hacc).
  split; [rewrite Hn, (children_level _ _ Hc); lia|]. split.
  - rewrite ancestor_S_out, Ha. apply parent_pos_child. exact Hc.
  - intros i Hi. destruct (Nat.eq_dec i (S m)) as [->|Hne].
    + rewrite ancestor_S_out, Ha, (parent_pos_child _ _ Hc). exact Ea.
    + apply Hacc. lia.
Qed.

Theorem pwalk_in k acc : forall p q,
  In q (pwalk k acc p) <-> exists m, (m < k)%nat /\ desc_ok acc p q m.
Proof.
  induction k as [|k IH]; intros p q.
  - cbn [pwalk In]. split; [tauto|]. intros (m & Hm & _). lia.
  - rewrite pwalk_S. destruct (acc p) eqn:Ea.
    + rewrite !in_app_iff. cbn [In]. rewrite !IH. split.
      * assert (Hc : forall c, In c (children p) ->
                  (exists m, (m < k)%nat /\ desc_ok acc c q m) ->
                  exists m, (m < S k)%nat /\ desc_ok acc p q m).
        { intros c Hc (m & Hm & Hd). exists (S m). split; [lia|].
          eapply desc_ok_step; eauto. }
        intros [H|[H|[H|[H|[H|[]]]]]].
        -- apply (Hc (c0 p)); [apply children_cases; auto|exact H].
        -- apply (Hc (c1 p)); [apply children_cases; auto|exact H].
        -- apply (Hc (c2 p)); [apply children_cases; auto|exact H].
        -- apply (Hc (c3 p)); [apply children_cases; auto 6|exact H].
        -- subst q. exists 0%nat. split; [lia|]. split; [lia|]. split; [reflexivity|].
           intros i Hi. assert (i = 0%nat) by lia. subst i. exact Ea.
      * intros (m & Hm & Hn & Ha & Hacc). destruct m as [|m].
        { cbn [ancestor] in Ha. subst q. auto 6. }
        set (c := ancestor m q).
        assert (Hcn : pn c = S (pn p)) by (unfold c; rewrite ancestor_pn; lia).
        assert (Hcp : parent_pos c = p) by (unfold c; rewrite <- ancestor_S_out; exact Ha).
        assert (Hin : In c (children p)) by (rewrite <- Hcp; apply child_parent_pos; lia).
        assert (Hd : (m < k)%nat /\ desc_ok acc c q m).
        { split; [lia|]. split; [lia|]. split; [reflexivity|]. intros i Hi. apply Hacc. lia. }
        apply children_cases in Hin. destruct Hin as [E|[E|[E|E]]]; rewrite <- E; eauto 8.
    + cbn [In]. split; [tauto|]. intros (m & Hm & Hn & Ha & Hacc).
      rewrite <- Ha, Hacc in Ea by lia. discriminate.
Qed.

Lemma pwalk_in_top k acc p q :
  In q (pwalk k acc p) ->
  (pn p <= pn q < pn p + k)%nat /\ ancestor (pn q - pn p) q = p /\ acc q = true.
Proof.
  intros H. apply pwalk_in in H. destruct H as (m & Hm & Hn & Ha & Hacc).
  replace (pn q - pn p)%nat with m by lia. split; [lia|]. split; [exact Ha|].
  apply (Hacc 0%nat). lia.
Qed.

Lemma pwalk_in_below k acc p q : In q (pwalk k acc p) -> below q p = true.
Proof. intros H. apply pwalk_in_top in H. apply below_iff. split; [lia|tauto]. Qed.

Lemma pwalk_self k acc p : acc p = true -> In p (pwalk (S k) acc p).
Proof. intros H. rewrite pwalk_S, H, !in_app_iff. cbn [In]. auto 6. Qed.

(* two walks started at the same level at different positions are disjoint *)
Lemma pwalk_disjoint k k' acc acc' a b q :
  pn a = pn b -> In q (pwalk k acc a) -> In q (pwalk k' acc' b) -> a = b.
Proof.
  intros Hn Ha Hb. apply pwalk_in_top in Ha, Hb.
  destruct Ha as (_ & Ha & _), Hb as (_ & Hb & _). rewrite Hn in Ha. congruence.
Qed.

Theorem pwalk_NoDup k acc : forall p, NoDup (pwalk k acc p).
Proof.
  induction k as [|k IH]; intros p; [constructor|].
  rewrite pwalk_S. destruct (acc p); [|constructor].
  destruct (c_distinct p) as (D01 & D02 & D03 & D12 & D13 & D23).
  assert (Hp : forall c, In c (children p) -> ~ In p (pwalk k acc c)).
  { intros c Hc H. apply pwalk_in_top in H. rewrite (children_level _ _ Hc) in H. lia. }
  assert (Hd : forall a b x, pn a = pn b -> a <> b -> In x (pwalk k acc a) -> ~ In x (pwalk k acc b)).
  { intros a b x Hn Hne H1 H2. apply Hne. eapply pwalk_disjoint; eauto. }
  repeat apply NoDup_app_intro; auto; try (constructor; [cbn [In]; tauto|constructor]);
    intros x Hx; rewrite ?in_app_iff; cbn [In]; intros Hy;
    repeat match goal with
    | H : _ \/ _ |- _ => destruct H
    | H : False |- _ => destruct H
    end;
    try (subst x; eapply Hp; [|eassumption]; apply children_cases; auto 6; fail);
    try (eapply (Hd _ _ x); [| |exact Hx|eassumption]; [reflexivity|assumption]; fail).
Qed.

(* ---- children first -------------------------------------------------------------- *)

(* no child of an element occurs after it *)
Fixpoint cfirst (l : list pos) : Prop :=
  match l with
  | [] => True
  | q :: l' => (forall c, In c (children q) -> ~ In c l') /\ cfirst l'
  end.

Lemma cfirst_app A B :
  cfirst (A ++ B) <-> cfirst A /\ cfirst B /\
                      (forall q c, In q A -> In c (children q) -> ~ In c B).
Proof.
  induction A as [|a A IH]; cbn [app cfirst].
  - split; [intros H; repeat split; auto; intros q c []|tauto].
  - rewrite IH. split.
    + intros (H1 & H2 & H3 & H4). repeat split; auto.
      * intros c Hc Hin. apply (H1 c Hc). apply in_app_iff. auto.
      * intros q c [<-|Hq] Hc Hin; [apply (H1 c Hc); apply in_app_iff; auto|eapply H4; eauto].
    + intros ((H1 & H2) & H3 & H4). repeat split; auto.
      * intros c Hc Hin. apply in_app_iff in Hin. destruct Hin as [Hin|Hin].
        -- eapply H1; eauto.
        -- eapply (H4 a c); eauto. left. reflexivity.
      * intros q c Hq. apply H4. right. exact Hq.
Qed.

Lemma cfirst_split l : forall l1 q l2,
  cfirst l -> l = l1 ++ q :: l2 -> forall c, In c (children q) -> ~ In c l2.
Proof.
  intros l1 q l2 H ->. apply cfirst_app in H. destruct H as (_ & H & _).
  cbn [cfirst] in H. tauto.
Qed.

Lemma pwalk_cfirst k acc : forall p, cfirst (pwalk k acc p).
Proof.
  induction k as [|k IH]; intros p; [exact I|].
  rewrite pwalk_S. destruct (acc p); [|exact I].
  destruct (c_distinct p) as (D01 & D02 & D03 & D12 & D13 & D23).
  (* a child of an element of one sibling's walk is not in another sibling's walk *)
  assert (Hd : forall a b q c, pn a = pn b -> a <> b ->
             In q (pwalk k acc a) -> In c (children q) -> ~ In c (pwalk k acc b)).
  { intros a b q c Hn Hne Hq Hc Hin. apply Hne.
    apply pwalk_in_top in Hq, Hin. destruct Hq as (Hq1 & Hq2 & _), Hin as (Hc1 & Hc2 & _).
    pose proof (children_level _ _ Hc) as Hl. pose proof (parent_pos_child _ _ Hc) as Hpp.
    replace (pn c - pn b)%nat with (S (pn q - pn a)) in Hc2 by lia.
    cbn [ancestor] in Hc2. rewrite Hpp in Hc2. congruence. }
  assert (Hp : forall a q c, In a (children p) -> In q (pwalk k acc a) -> In c (children q) -> c <> p).
  { intros a q c Ha Hq Hc ->. apply pwalk_in_top in Hq.
    rewrite (children_level _ _ Ha) in Hq. rewrite (children_level _ _ Hc) in Hq. lia. }
  repeat (apply cfirst_app; split; [apply IH|split]); try (cbn [cfirst In]; tauto);
    intros q c Hq Hc; rewrite ?in_app_iff; cbn [In]; intros Hy;
    repeat match goal with
    | H : _ \/ _ |- _ => destruct H
    | H : False |- _ => destruct H
    end;
    try (eapply (Hp _ q c); [|exact Hq|exact Hc|congruence]; apply children_cases; auto 6; fail);
    try (eapply (Hd _ _ q c); [| |exact Hq|exact Hc|eassumption]; [reflexivity|assumption]; fail).
Qed.

Theorem pwalk_children_first k acc p l1 q l2 c :
  pwalk k acc p = l1 ++ q :: l2 -> In c (children q) -> In c (pwalk k acc p) -> In c l1.
Proof.
  intros E Hc Hin. pose proof (cfirst_split _ l1 q l2 (pwalk_cfirst k acc p) E c Hc) as Hn.
  rewrite E in Hin. apply in_app_iff in Hin. destruct Hin as [H|[H|H]]; [exact H| |contradiction].
  subst c. apply children_level in Hc. lia.
Qed.

(* every child that the walk accepts and that is within depth does occur *)
Lemma pwalk_child_in k acc p q c :
  In q (pwalk k acc p) -> In c (children q) -> acc c = true -> (pn c < pn p + k)%nat ->
  In c (pwalk k acc p).
Proof.
  intros Hq Hc Ea Hlt. apply pwalk_in in Hq. destruct Hq as (m & Hm & Hd).
  apply pwalk_in. exists (S m). pose proof (children_level _ _ Hc) as Hl.
  destruct Hd as (Hn & Ha & Hacc). split; [lia|]. split; [lia|]. split.
  - cbn [ancestor]. rewrite (parent_pos_child _ _ Hc). exact Ha.
  - intros [|i] Hi; [exact Ea|]. cbn [ancestor]. rewrite (parent_pos_child _ _ Hc). apply Hacc. lia.
Qed.

(* ---- item 2: generate_pos ----------------------------------------------------- *)

Lemma generate_pos_pwalk d : generate_pos d = pwalk (S d) (fun _ => true) root.
Proof. apply postfix_pwalk. Qed.

Theorem generate_pos_NoDup d : NoDup (generate_pos d).
Proof. rewrite generate_pos_pwalk. apply pwalk_NoDup. Qed.

Theorem generate_pos_in d q :
  In q (generate_pos d) <-> valid q = true /\ (pn q <= d)%nat.
Proof.
  rewrite generate_pos_pwalk, pwalk_in. split.
  - intros (m & Hm & Hn & Ha & _). cbn [pn root] in Hn. split; [|lia].
    apply (valid_desc m q root); auto.
  - intros [Hv Hle]. exists (pn q). split; [lia|]. split; [reflexivity|]. split; [|reflexivity].
    apply ancestor_root. exact Hv.
Qed.

Lemma pwalk_all_length k : forall p,
  3 * N.of_nat (length (pwalk k (fun _ => true) p)) + 1 = 4 ^ N.of_nat k.
Proof.
  induction k as [|k IH]; intros p; [reflexivity|].
  rewrite pwalk_S. rewrite !app_length. cbn [length].
  pose proof (IH (c0 p)) as H0. pose proof (IH (c1 p)) as H1.
  pose proof (IH (c2 p)) as H2. pose proof (IH (c3 p)) as H3.
  replace (N.of_nat (S k)) with (N.succ (N.of_nat k)) by lia. rewrite N.pow_succ_r'. lia.
Qed.

Theorem generate_pos_length d : N.of_nat (length (generate_pos d)) = depth2tiles d.
Proof.
  rewrite generate_pos_pwalk. unfold depth2tiles.
  pose proof (pwalk_all_length (S d) root) as H.
  replace (N.of_nat d + 1) with (N.of_nat (S d)) by lia.
  set (n := N.of_nat (length _)) in *. set (w := 4 ^ N.of_nat (S d)) in *. lia.
Qed.

Theorem generate_pos_length_nat d : length (generate_pos d) = N.to_nat (depth2tiles d).
Proof. rewrite <- generate_pos_length. lia. Qed.

Theorem generate_pos_children_first d l1 q l2 :
  generate_pos d = l1 ++ q :: l2 -> (pn q < d)%nat ->
  forall c, In c (children q) -> In c l1.
Proof.
  intros E Hlt c Hc. rewrite generate_pos_pwalk in E.
  eapply pwalk_children_first; eauto.
  assert (Hq : In q (pwalk (S d) (fun _ => true) root)) by (rewrite E; apply in_app_iff; right; left; reflexivity).
  eapply pwalk_child_in; eauto. rewrite (children_level _ _ Hc). cbn [pn root]. lia.
Qed.
