(* the initial state of the parallel walk exists for every well-formed pyramid *)
From Coq Require Import List NArith Arith Bool.
From Toasty Require Import Model.Quadtree Model.Reducer Model.WalkPar Proofs.ReducerP Proofs.WalkParPrep.
Import ListNotations.

Lemma winit_defined P par pcap : wf_pyr P -> exists s0, winit P par pcap = Some s0.
Proof.
  intros Hwf. destruct (prep_facts P Hwf) as (pr & Hp & _).
  unfold winit. rewrite Hp. eexists. reflexivity.
Qed.
