(* C01: the parallel cascade walk (Model/WalkPar.v) over every schedule.
   Proofs/WalkParPrep.v : what the preparation pass computes (count, seeds, prefill)
   Proofs/WalkParInv.v  : the LTS invariant over an abstract operation set
   here                 : instantiation with spec_ops P and the headline theorems. *)
From Coq Require Import List NArith Arith Bool Lia Permutation.
From Toasty Require Import Model.Quadtree Model.Reducer Model.WalkPar
     Proofs.QuadtreeP Proofs.ReducerP Proofs.EnumP Proofs.CountsP
     Proofs.WalkParDefs Proofs.WalkParAux Proofs.WalkParPrep Proofs.WalkParInv.
Import ListNotations.

Notation nobad := (fun _ : pos => false).
Notation run := (wrun nobad).
Notation step := (wstep nobad).

(* ---- the initial state when there is nothing to do -------------------------------- *)

Definition s_empty (ap : pos) (par pcap : nat) (R : list (pos * N)) : wstate :=
  mkWS ap par pcap [] [] false false false (repeat [] par) [] (2 * par) R false DReturned [] [].

Lemma nth_repeat_nil {T} (n w : nat) : nth w (repeat (@nil T) n) [] = [].
Proof.
  destruct (nth_in_or_default w (repeat (@nil T) n) []) as [H|H]; [|exact H].
  apply repeat_spec in H. exact H.
Qed.

Lemma empty_disabled ap par pcap R a : wenabled (s_empty ap par pcap R) a = false.
Proof.
  destruct a; try reflexivity; unfold wenabled, wk_get, s_empty; cbn [wks dq_bufs rq_buf d_pc rq_closed];
    try (destruct w; reflexivity).
  unfold nth_buf. rewrite nth_repeat_nil. reflexivity.
Qed.

Lemma empty_run bad ap par pcap R l : wrun bad (s_empty ap par pcap R) l = s_empty ap par pcap R.
Proof.
  induction l as [|a l IH]; [reflexivity|]. cbn [wrun fold_left].
  unfold wstep at 2. rewrite empty_disabled. cbn [negb]. exact IH.
Qed.

(* ---- the initial state in general ----------------------------------------------------- *)

Section Walk.
  Variable P : pyr.
  Variables par pcap : nat.
  Hypothesis Hwf : wf_pyr P.
  Hypothesis Hpar : 1 <= par.
  Hypothesis Hpcap : 1 <= pcap.

  Lemma ops_level p : In p (spec_ops P) -> S (pn p) <= depth P.
  Proof. intros H. pose proof (spec_ops_scope P p Hwf H). lia. Qed.

  Lemma ops_above p : In p (spec_ops P) -> pn (apex P) <= pn p.
  Proof. intros H. pose proof (spec_ops_scope P p Hwf H). lia. Qed.

  Lemma ops_nodup : NoDup (spec_ops P).
  Proof. apply spec_NoDup. Qed.

  Lemma winit_cases :
    exists R,
      (forall p, In p (spec_ops P) -> S (pn p) < depth P ->
         rdy_get R p = bit4 (negb (memb (c0 p) (spec_ops P))) (negb (memb (c1 p) (spec_ops P)))
                            (negb (memb (c2 p) (spec_ops P))) (negb (memb (c3 p) (spec_ops P)))) /\
      winit P par pcap =
      Some (match spec_ops P with
            | [] => s_empty (apex P) par pcap R
            | _ => init0 (spec_ops P) (apex P) (depth P) par pcap R
            end).
  Proof.
    destruct (prep_facts P Hwf) as (pr & Ep & Et & Es & Er). exists (p_rdy pr). split; [exact Er|].
    unfold winit. rewrite Ep, Et. unfold init0, seeds. rewrite <- Es.
    destruct (spec_ops P) as [|p0 l0]; [reflexivity|].
    destruct (N.eqb_spec (N.of_nat (length (p0 :: l0))) 0) as [E|E]; [cbn [length] in E; lia|].
    reflexivity.
  Qed.

  (* the hypotheses of the abstract LTS proof hold for spec_ops P *)
  Section NonEmpty.
    Variable R : list (pos * N).
    Hypothesis HR : forall p, In p (spec_ops P) -> S (pn p) < depth P ->
         rdy_get R p = bit4 (negb (memb (c0 p) (spec_ops P))) (negb (memb (c1 p) (spec_ops P)))
                            (negb (memb (c2 p) (spec_ops P))) (negb (memb (c3 p) (spec_ops P))).
    Hypothesis Hne : spec_ops P <> [].

    Let Hap : In (apex P) (spec_ops P) := proj1 (ops_closure P Hwf) Hne.
    Let Hparent := proj1 (proj2 (ops_closure P Hwf)).
    Let Hchild := proj2 (proj2 (ops_closure P Hwf)).

    Notation I0 := (init0 (spec_ops P) (apex P) (depth P) par pcap R).
    Notation INV := (Inv nobad (spec_ops P) (apex P) (depth P) par pcap).

    Lemma ne_inv l : INV (run I0 l).
    Proof.
      apply (inv_reachable nobad (spec_ops P) (apex P) (depth P) par pcap R Hpar Hpcap ops_nodup Hap
               ops_level ops_above Hparent Hchild HR).
    Qed.

    Lemma ne_safe l : safe (spec_ops P) (run I0 l).
    Proof.
      apply (inv_safe nobad (spec_ops P) (apex P) (depth P) par pcap R Hpar Hpcap
               ops_level ops_above Hparent Hchild HR). apply ne_inv.
    Qed.

    Lemma ne_terminal l :
      d_pc (run I0 l) = DReturned ->
      Permutation (starts (cblog (run I0 l))) (spec_ops P) /\
      Permutation (ends (cblog (run I0 l))) (spec_ops P) /\
      length (wks (run I0 l)) = par /\
      (forall w x, nth_error (wks (run I0 l)) w = Some x -> fst x = KExited 0).
    Proof.
      intros Hr.
      destruct (inv_terminal nobad (spec_ops P) (apex P) (depth P) par pcap R Hpar Hpcap ops_nodup
               ops_level ops_above Hparent Hchild HR _ (ne_inv l) Hr) as (A & B & C & _ & D).
      repeat split; auto. intros w x Hx. apply (D (fun _ => eq_refl) w x Hx).
    Qed.

    Lemma ne_not_raised l : d_pc (run I0 l) <> DRaised.
    Proof.
      intros E.
      pose proof (i_wks _ _ _ _ _ _ _ (ne_inv l)) as Hw. unfold wks_ok in Hw.
      rewrite E in Hw. exact Hw.
    Qed.

    Lemma ne_progress l : d_pc (run I0 l) <> DReturned -> can_progress nobad (run I0 l).
    Proof.
      apply (no_deadlock nobad (spec_ops P) (apex P) (depth P) par pcap R Hpar Hpcap Hap
               ops_level ops_above Hparent Hchild HR _ (fun _ => eq_refl)). apply ne_inv.
    Qed.

    Lemma ne_measure l a :
      wenabled (run I0 l) a = true -> wpolling (run I0 l) a = false ->
      measure (spec_ops P) par (step (run I0 l) a) < measure (spec_ops P) par (run I0 l).
    Proof.
      apply (measure_decreases nobad (spec_ops P) (apex P) (depth P) par pcap R Hpar Hpcap Hap
               ops_level ops_above Hparent Hchild HR). apply ne_inv.
    Qed.
  End NonEmpty.

  (* ---- headline theorems ------------------------------------------------------------------ *)

  Variable s0 : wstate.
  Hypothesis Hinit : winit P par pcap = Some s0.

  Lemma s0_cases :
    (spec_ops P = [] /\ exists R, s0 = s_empty (apex P) par pcap R) \/
    (spec_ops P <> [] /\ exists R,
       (forall p, In p (spec_ops P) -> S (pn p) < depth P ->
          rdy_get R p = bit4 (negb (memb (c0 p) (spec_ops P))) (negb (memb (c1 p) (spec_ops P)))
                             (negb (memb (c2 p) (spec_ops P))) (negb (memb (c3 p) (spec_ops P)))) /\
       s0 = init0 (spec_ops P) (apex P) (depth P) par pcap R).
  Proof.
    destruct winit_cases as (R & HR & E). rewrite Hinit in E. injection E as E.
    destruct (spec_ops P) as [|p0 l0] eqn:EO.
    - left. split; [reflexivity|]. exists R. exact E.
    - right. split; [discriminate|]. exists R. split; [exact HR|exact E].
  Qed.

  Theorem walk_par_safety l :
    let s := run s0 l in
    (forall p w, In (false, p, w) (cblog s) -> In p (spec_ops P)) /\
    NoDup (starts (cblog s)) /\ NoDup (ends (cblog s)) /\
    (forall l1 p w l2, cblog s = l1 ++ (true, p, w) :: l2 -> exists w', In (false, p, w') l2) /\
    (forall l1 p w l2, cblog s = l1 ++ (false, p, w) :: l2 ->
       forall c, In c (children p) -> In c (spec_ops P) -> exists w', In (true, c, w') l2).
  Proof.
    intros s. subst s. destruct s0_cases as [(EO & R & ->)|(Hne & R & HR & ->)].
    - rewrite empty_run. unfold s_empty. cbn [cblog starts ends filter map].
      split; [intros p w []|]. split; [constructor|]. split; [constructor|]. split.
      + intros l1 p w l2 E. destruct l1; discriminate.
      + intros l1 p w l2 E. destruct l1; discriminate.
    - exact (ne_safe R HR Hne l).
  Qed.

  Theorem walk_par_terminal l :
    let s := run s0 l in
    d_pc s = DReturned ->
    Permutation (starts (cblog s)) (spec_ops P) /\
    Permutation (ends (cblog s)) (spec_ops P) /\
    (forall w x, nth_error (wks s) w = Some x -> fst x = KExited 0) /\
    (spec_ops P <> [] -> length (wks s) = par).
  Proof.
    intros s Hr. subst s. destruct s0_cases as [(EO & R & ->)|(Hne & R & HR & ->)].
    - rewrite empty_run. unfold s_empty. cbn [cblog wks starts ends filter map]. rewrite EO.
      repeat split; try constructor.
      + intros w x Hx. destruct w; discriminate.
      + intros Hc. congruence.
    - destruct (ne_terminal R HR Hne l Hr) as (A & B & C & D). auto.
  Qed.

  (* nothing to do: immediate return, no worker is ever started, no callback runs *)
  Theorem walk_par_immediate :
    spec_ops P = [] ->
    d_pc s0 = DReturned /\ wks s0 = [] /\ forall l, run s0 l = s0.
  Proof.
    intros EO. destruct s0_cases as [(_ & R & ->)|(Hne & _)]; [|congruence].
    repeat split. intros l. apply empty_run.
  Qed.

  Theorem walk_par_eq_serial l :
    let s := run s0 l in
    d_pc s = DReturned ->
    exists cbs, walk_serial P = Some cbs /\
      Permutation (starts (cblog s)) cbs /\ Permutation (ends (cblog s)) cbs /\
      (forall p, (exists w, In (true, p, w) (cblog s)) <-> In p cbs).
  Proof.
    intros s Hr. exists (spec_ops P). split; [apply walk_serial_spec; exact Hwf|].
    destruct (walk_par_terminal l Hr) as (A & B & _). fold s in A, B. repeat split; auto.
    - intros H. apply in_ends in H. eapply Permutation_in; eauto.
    - intros H. apply in_ends. eapply Permutation_in; [apply Permutation_sym; exact B|exact H].
  Qed.

  Theorem walk_par_never_raises l : d_pc (run s0 l) <> DRaised.
  Proof.
    destruct s0_cases as [(EO & R & ->)|(Hne & R & HR & ->)].
    - rewrite empty_run. discriminate.
    - exact (ne_not_raised R HR Hne l).
  Qed.

  Theorem walk_par_no_deadlock l :
    let s := run s0 l in d_pc s <> DReturned -> can_progress nobad s.
  Proof.
    intros s Hr. subst s. destruct s0_cases as [(EO & R & ->)|(Hne & R & HR & ->)].
    - rewrite empty_run in Hr. exfalso. apply Hr. reflexivity.
    - exact (ne_progress R HR Hne l Hr).
  Qed.

  Theorem walk_par_measure l a :
    let s := run s0 l in
    wenabled s a = true -> wpolling s a = false ->
    measure (spec_ops P) par (step s a) < measure (spec_ops P) par s.
  Proof.
    intros s En Hp. subst s. destruct s0_cases as [(EO & R & ->)|(Hne & R & HR & ->)].
    - rewrite empty_run, empty_disabled in En. discriminate.
    - exact (ne_measure R HR Hne l a En Hp).
  Qed.
End Walk.
