(* Proofs about Model/VisitPar.v (the current, "flag before get" worker protocol). *)
From Coq Require Import List Arith Bool Lia.
From Toasty Require Import Model.VisitPar.
Import ListNotations.

(* ---- worker list helpers ---------------------------------------------------- *)

Lemma set_w_length l w x : w < length l -> length (set_w l w x) = length l.
Proof.
  intros H. unfold set_w. rewrite app_length, firstn_length. cbn [length].
  rewrite skipn_length. lia.
Qed.

Lemma nth_error_set_w_eq l w x : w < length l -> nth_error (set_w l w x) w = Some x.
Proof.
  intros H. unfold set_w. rewrite nth_error_app2; rewrite firstn_length; [|lia].
  replace (w - Nat.min w (length l)) with 0 by lia. reflexivity.
Qed.

Lemma nth_error_firstn' {T} (l : list T) : forall n i, i < n -> nth_error (firstn n l) i = nth_error l i.
Proof.
  induction l as [|y l IH]; intros n i H.
  - rewrite firstn_nil. reflexivity.
  - destruct n; [lia|]. destruct i; [reflexivity|]. cbn [firstn nth_error]. apply IH. lia.
Qed.

Lemma nth_error_skipn' {T} (l : list T) : forall n i, nth_error (skipn n l) i = nth_error l (n + i).
Proof.
  induction l as [|y l IH]; intros n i.
  - rewrite skipn_nil. destruct i, n; reflexivity.
  - destruct n; [reflexivity|]. cbn [skipn plus nth_error]. apply IH.
Qed.

Lemma nth_error_set_w_neq l w x w' : w < length l -> w' <> w -> nth_error (set_w l w x) w' = nth_error l w'.
Proof.
  intros H Hne. unfold set_w.
  destruct (Nat.lt_ge_cases w' w) as [Hlt|Hge].
  - rewrite nth_error_app1 by (rewrite firstn_length; lia). apply nth_error_firstn'; lia.
  - rewrite nth_error_app2 by (rewrite firstn_length; lia). rewrite firstn_length.
    replace (Nat.min w (length l)) with w by lia.
    destruct (w' - w) as [|m] eqn:E; [lia|]. cbn [nth_error].
    rewrite nth_error_skipn'. f_equal. lia.
Qed.

Lemma nth_error_lt {T} (l : list T) w x : nth_error l w = Some x -> w < length l.
Proof. intros H. apply nth_error_Some. congruence. Qed.

(* ---- the invariant ------------------------------------------------------------ *)

Definition flag_pc (p : ppc) : bool :=
  match p with PJoin _ | PReturned => true | _ => false end.

Definition past_close (p : ppc) : bool :=
  match p with PPut | PClose => false | _ => true end.

Definition past_join_feeder (p : ppc) : bool :=
  match p with PPut | PClose | PJoinFeeder => false | _ => true end.

(* a worker that has not left its loop normally: still looping, or crashed *)
Definition not_exit0 (x : wst) : bool :=
  match x with WExited 0 => false | _ => true end.

Record Inv (bad : nat -> bool) (par : nat) (s : vstate) : Prop := {
  i_fixed : v_fixed s = true;
  i_ord : nrecv s <= npiped s /\ npiped s <= nput s /\ nput s <= v_n s;
  i_put : pc s = PPut -> nput s < v_n s;
  i_notput : pc s <> PPut -> nput s = v_n s;
  i_closed : closed s = past_close (pc s);
  i_fdone : fdone s = true -> closed s = true /\ npiped s = nput s;
  i_pjf : past_join_feeder (pc s) = true -> npiped s = v_n s;
  i_flag : flag s = flag_pc (pc s);
  i_len : length (ws s) = par;
  i_seen : forall w, nth_error (ws s) w = Some (WAtGet true) -> flag s = true;
  i_exit0 : v_cont s = false -> forall w, nth_error (ws s) w = Some (WExited 0) -> nrecv s = v_n s;
  i_live : nrecv s < v_n s -> exists h x, nth_error (ws s) h = Some x /\ not_exit0 x = true;
  i_exit_code : forall w c, nth_error (ws s) w = Some (WExited c) -> c = 0 \/ (c = 1 /\ exists i, i < nrecv s /\ bad i = true);
  i_started : map fst (started s) = rev (seq 0 (nrecv s));
  i_finished : finished s = filter (fun i => negb (bad i)) (map fst (started s));
  i_join : forall k, pc s = PJoin k -> k < par /\ forall w, w < k -> exists c, nth_error (ws s) w = Some (WExited c);
  i_ret : pc s = PReturned -> forall w, w < par -> exists c, nth_error (ws s) w = Some (WExited c)
}.

Lemma inv_init_c bad n par cap pcap cont : 1 <= par -> Inv bad par (init_c n par cap pcap true cont).
Proof.
  intros Hpar.
  unfold init_c. constructor; cbn [v_fixed v_cont nrecv npiped nput v_n pc closed fdone flag ws started finished].
  - reflexivity.
  - lia.
  - destruct n; [discriminate|lia].
  - destruct n; [reflexivity|congruence].
  - destruct n; reflexivity.
  - discriminate.
  - destruct n; discriminate.
  - destruct n; reflexivity.
  - apply repeat_length.
  - intros w H. apply nth_error_In, repeat_spec in H. discriminate.
  - intros _ w H. apply nth_error_In, repeat_spec in H. discriminate.
  - intros _. exists 0, WAtFlag. split; [|reflexivity].
    destruct par; [lia|reflexivity].
  - intros w c H. apply nth_error_In, repeat_spec in H. discriminate.
  - reflexivity.
  - reflexivity.
  - destruct n; discriminate.
  - destruct n; discriminate.
Qed.

Lemma inv_init bad n par cap pcap : 1 <= par -> Inv bad par (init n par cap pcap true).
Proof. apply inv_init_c. Qed.

Ltac inv_fields H :=
  destruct H as [Hfx Hord Hput Hnput Hcl Hfd Hpjf Hfl Hlen Hseen Hex0 Hlive Hexc Hst Hfin Hjoin Hret].

Lemma seq_snoc a n : seq a (S n) = seq a n ++ [a + n].
Proof. rewrite seq_S. reflexivity. Qed.

Ltac fin := cbn [v_fixed v_cont nrecv npiped nput v_n pc closed fdone flag ws started finished].

Lemma inv_step bad par s a : 1 <= par -> Inv bad par s -> Inv bad par (step bad s a).
Proof.
  intros Hpar H. unfold step. destruct (enabled_b s a) eqn:En; cbn [negb]; [|exact H].
  inv_fields H.
  destruct a as [| | | | | |w|w|w|w|w]; unfold enabled_b in En.
  - (* Put *)
    destruct (pc s) eqn:Epc; try discriminate.
    apply andb_true_iff in En. destruct En as [E1 E2]. apply Nat.ltb_lt in E1, E2.
    constructor; fin; auto.
    + lia.
    + destruct (Nat.eqb_spec (S (nput s)) (v_n s)); [discriminate|]. intros _. lia.
    + destruct (Nat.eqb_spec (S (nput s)) (v_n s)); [auto|congruence].
    + rewrite Hcl. destruct (Nat.eqb (S (nput s)) (v_n s)); reflexivity.
    + intros Hf. destruct (Hfd Hf) as [Hc _]. rewrite Hcl in Hc. discriminate.
    + destruct (Nat.eqb (S (nput s)) (v_n s)); discriminate.
    + rewrite Hfl. destruct (Nat.eqb (S (nput s)) (v_n s)); reflexivity.
    + destruct (Nat.eqb (S (nput s)) (v_n s)); discriminate.
    + destruct (Nat.eqb (S (nput s)) (v_n s)); discriminate.
  - (* Close *)
    destruct (pc s) eqn:Epc; try discriminate.
    constructor; fin; auto; try discriminate.
    + intros _. apply Hnput. congruence.
    + intros Hf. destruct (Hfd Hf) as [Hc _]. rewrite Hcl in Hc. discriminate.
  - (* Flush *)
    apply andb_true_iff in En. destruct En as [E1 E2]. apply Nat.ltb_lt in E1, E2.
    constructor; fin; auto.
    + lia.
    + intros Hf. destruct (Hfd Hf). lia.
    + intros Hp. specialize (Hpjf Hp). lia.
  - (* FeederExit *)
    apply andb_true_iff in En. destruct En as [En E4].
    apply andb_true_iff in En. destruct En as [En E3].
    apply andb_true_iff in En. destruct En as [E1 E2].
    apply Nat.eqb_eq in E3.
    constructor; fin; auto.
  - (* JoinThread *)
    destruct (pc s) eqn:Epc; try discriminate.
    assert (Hn : nput s = v_n s) by (apply Hnput; congruence).
    assert (Hp : npiped s = v_n s).
    { apply orb_true_iff in En. destruct En as [E|E].
      - apply Nat.eqb_eq in E. lia.
      - destruct (Hfd E). lia. }
    unfold upd_pc.
    constructor; fin; auto; try discriminate.
  - (* Set *)
    destruct (pc s) eqn:Epc; try discriminate.
    constructor; fin; auto; try discriminate.
    + intros _. apply Hnput. congruence.
    + intros k Hk. injection Hk as <-. split; [lia|]. intros w Hw. lia.
  - (* Join *)
    destruct (pc s) as [| | | |k|] eqn:Epc; try discriminate.
    apply andb_true_iff in En. destruct En as [E1 E2]. apply Nat.eqb_eq in E1. subst k.
    destruct (Hjoin w eq_refl) as [Hk Hprev].
    assert (Hw : exists c, nth_error (ws s) w = Some (WExited c)).
    { unfold is_exited, get_w in E2. destruct (nth_error (ws s) w) as [[| |c]|]; try discriminate. eauto. }
    unfold upd_pc.
    constructor; fin; auto.
    + destruct (Nat.eqb (S w) (length (ws s))); discriminate.
    + intros _. apply Hnput. congruence.
    + rewrite Hcl. destruct (Nat.eqb (S w) (length (ws s))); reflexivity.
    + rewrite Hfl. destruct (Nat.eqb (S w) (length (ws s))); reflexivity.
    + intros k Hk'. destruct (Nat.eqb_spec (S w) (length (ws s))); [discriminate|].
      injection Hk' as <-. split; [lia|]. intros w' Hw'.
      destruct (Nat.eq_dec w' w) as [->|]; [assumption|]. apply Hprev. lia.
    + intros Hr. destruct (Nat.eqb_spec (S w) (length (ws s))); [|discriminate].
      intros w' Hw'. destruct (Nat.eq_dec w' w) as [->|]; [assumption|]. apply Hprev. lia.
  - (* Recv *)
    unfold get_w in En. destruct (nth_error (ws s) w) as [[|seen|c]|] eqn:Ew; try discriminate.
    apply Nat.ltb_lt in En. pose proof (nth_error_lt _ _ _ Ew) as Hwl.
    rewrite Hfx.
    constructor; fin; auto.
    + lia.
    + rewrite set_w_length; auto.
    + intros w' Hw'. destruct (Nat.eq_dec w' w) as [->|Hne].
      * rewrite nth_error_set_w_eq in Hw' by assumption. destruct (bad (nrecv s)); discriminate.
      * rewrite nth_error_set_w_neq in Hw' by assumption. eauto.
    + intros Hc w' Hw'. destruct (Nat.eq_dec w' w) as [->|Hne].
      * rewrite nth_error_set_w_eq in Hw' by assumption. destruct (bad (nrecv s)); discriminate.
      * rewrite nth_error_set_w_neq in Hw' by assumption. specialize (Hex0 Hc _ Hw'). lia.
    + intros Hlt. destruct Hlive as (h & x & Hh & Hx); [lia|].
      destruct (Nat.eq_dec h w) as [->|Hne].
      * exists w. eexists. split; [apply nth_error_set_w_eq; assumption|].
        destruct (bad (nrecv s)); reflexivity.
      * exists h, x. split; [|assumption]. rewrite nth_error_set_w_neq by assumption. assumption.
    + intros w' c Hw'. destruct (Nat.eq_dec w' w) as [->|Hne].
      * rewrite nth_error_set_w_eq in Hw' by assumption.
        destruct (bad (nrecv s)) eqn:Eb; [|discriminate]. injection Hw' as <-.
        right. split; [reflexivity|]. exists (nrecv s). split; [lia|assumption].
      * rewrite nth_error_set_w_neq in Hw' by assumption.
        destruct (Hexc _ _ Hw') as [->|[-> (i & Hi & Hb)]]; [left; reflexivity|].
        right. split; [reflexivity|]. exists i. split; [lia|assumption].
    + cbn [map fst]. rewrite Hst, seq_snoc, rev_app_distr. reflexivity.
    + cbn [map fst filter]. rewrite Hfin. destruct (bad (nrecv s)); reflexivity.
    + intros k Hk. destruct (Hjoin k Hk) as [Hk1 Hk2]. split; [assumption|].
      intros w' Hw'. destruct (Hk2 w' Hw') as (c & Hc).
      destruct (Nat.eq_dec w' w) as [->|Hne]; [congruence|].
      rewrite nth_error_set_w_neq by assumption. eauto.
    + intros Hr w' Hw'. destruct (Hret Hr w' Hw') as (c & Hc).
      destruct (Nat.eq_dec w' w) as [->|Hne]; [congruence|].
      rewrite nth_error_set_w_neq by assumption. eauto.
  - (* Timeout *)
    unfold get_w in *. destruct (nth_error (ws s) w) as [[|seen|c]|] eqn:Ew; try discriminate.
    apply Nat.eqb_eq in En. pose proof (nth_error_lt _ _ _ Ew) as Hwl.
    rewrite Hfx. unfold upd_ws.
    constructor; fin; auto.
    + rewrite set_w_length; auto.
    + intros w' Hw'. destruct (Nat.eq_dec w' w) as [->|Hne].
      * rewrite nth_error_set_w_eq in Hw' by assumption. destruct seen; discriminate.
      * rewrite nth_error_set_w_neq in Hw' by assumption. eauto.
    + intros Hc w' Hw'. destruct (Nat.eq_dec w' w) as [->|Hne].
      * rewrite nth_error_set_w_eq in Hw' by assumption. destruct seen; [|discriminate].
        assert (Hf : flag s = true) by (apply (Hseen w); assumption).
        rewrite Hfl in Hf. assert (Hp : npiped s = v_n s).
        { apply Hpjf. destruct (pc s); try discriminate; reflexivity. }
        lia.
      * rewrite nth_error_set_w_neq in Hw' by assumption. eauto.
    + intros Hlt. destruct (Hlive Hlt) as (h & x & Hh & Hx).
      destruct (Nat.eq_dec h w) as [->|Hne].
      * exists w. eexists. split; [apply nth_error_set_w_eq; assumption|].
        destruct seen; [|reflexivity]. exfalso.
        assert (Hf : flag s = true) by (apply (Hseen w); assumption).
        rewrite Hfl in Hf. assert (Hp : npiped s = v_n s).
        { apply Hpjf. destruct (pc s); try discriminate; reflexivity. }
        lia.
      * exists h, x. split; [|assumption]. rewrite nth_error_set_w_neq by assumption. assumption.
    + intros w' c Hw'. destruct (Nat.eq_dec w' w) as [->|Hne].
      * rewrite nth_error_set_w_eq in Hw' by assumption. destruct seen; [|discriminate].
        injection Hw' as <-. left. reflexivity.
      * rewrite nth_error_set_w_neq in Hw' by assumption. eauto.
    + intros k Hk. destruct (Hjoin k Hk) as [Hk1 Hk2]. split; [assumption|].
      intros w' Hw'. destruct (Hk2 w' Hw') as (c & Hc).
      destruct (Nat.eq_dec w' w) as [->|Hne]; [congruence|].
      rewrite nth_error_set_w_neq by assumption. eauto.
    + intros Hr w' Hw'. destruct (Hret Hr w' Hw') as (c & Hc).
      destruct (Nat.eq_dec w' w) as [->|Hne]; [congruence|].
      rewrite nth_error_set_w_neq by assumption. eauto.
  - (* IsSet *)
    unfold get_w in *. destruct (nth_error (ws s) w) as [[|seen|c]|] eqn:Ew; try discriminate.
    pose proof (nth_error_lt _ _ _ Ew) as Hwl.
    rewrite Hfx. unfold upd_ws.
    constructor; fin; auto.
    + rewrite set_w_length; auto.
    + intros w' Hw'. destruct (Nat.eq_dec w' w) as [->|Hne].
      * rewrite nth_error_set_w_eq in Hw' by assumption. congruence.
      * rewrite nth_error_set_w_neq in Hw' by assumption. eauto.
    + intros Hc w' Hw'. destruct (Nat.eq_dec w' w) as [->|Hne].
      * rewrite nth_error_set_w_eq in Hw' by assumption. discriminate.
      * rewrite nth_error_set_w_neq in Hw' by assumption. eauto.
    + intros Hlt. destruct (Hlive Hlt) as (h & x & Hh & Hx).
      destruct (Nat.eq_dec h w) as [->|Hne].
      * exists w. eexists. split; [apply nth_error_set_w_eq; assumption|reflexivity].
      * exists h, x. split; [|assumption]. rewrite nth_error_set_w_neq by assumption. assumption.
    + intros w' c Hw'. destruct (Nat.eq_dec w' w) as [->|Hne].
      * rewrite nth_error_set_w_eq in Hw' by assumption. discriminate.
      * rewrite nth_error_set_w_neq in Hw' by assumption. eauto.
    + intros k Hk. destruct (Hjoin k Hk) as [Hk1 Hk2]. split; [assumption|].
      intros w' Hw'. destruct (Hk2 w' Hw') as (c & Hc).
      destruct (Nat.eq_dec w' w) as [->|Hne]; [congruence|].
      rewrite nth_error_set_w_neq by assumption. eauto.
    + intros Hr w' Hw'. destruct (Hret Hr w' Hw') as (c & Hc).
      destruct (Nat.eq_dec w' w) as [->|Hne]; [congruence|].
      rewrite nth_error_set_w_neq by assumption. eauto.
  - (* CTimeout: Empty under reader-lock contention *)
    apply andb_true_iff in En. destruct En as [En Eoth].
    apply andb_true_iff in En. destruct En as [En Epipe].
    apply andb_true_iff in En. destruct En as [Econt Eat].
    unfold get_w, at_get in *. destruct (nth_error (ws s) w) as [[|seen|c]|] eqn:Ew; try discriminate.
    pose proof (nth_error_lt _ _ _ Ew) as Hwl.
    (* the other worker inside get() *)
    unfold other_at_get in Eoth. apply existsb_exists in Eoth. destruct Eoth as (h & _ & Eh).
    apply andb_true_iff in Eh. destruct Eh as [Ehw Ehg]. apply negb_true_iff, Nat.eqb_neq in Ehw.
    destruct (nth_error (ws s) h) as [[|seenh|ch]|] eqn:Eh; try discriminate.
    rewrite Hfx. unfold upd_ws.
    constructor; fin; auto.
    + rewrite set_w_length; auto.
    + intros w' Hw'. destruct (Nat.eq_dec w' w) as [->|Hne].
      * rewrite nth_error_set_w_eq in Hw' by assumption. destruct seen; discriminate.
      * rewrite nth_error_set_w_neq in Hw' by assumption. eauto.
    + intros Hc. congruence.
    + intros _. exists h, (WAtGet seenh). split; [|reflexivity].
      rewrite nth_error_set_w_neq by assumption. exact Eh.
    + intros w' c Hw'. destruct (Nat.eq_dec w' w) as [->|Hne].
      * rewrite nth_error_set_w_eq in Hw' by assumption. destruct seen; [|discriminate].
        injection Hw' as <-. left. reflexivity.
      * rewrite nth_error_set_w_neq in Hw' by assumption. eauto.
    + intros k Hk. destruct (Hjoin k Hk) as [Hk1 Hk2]. split; [assumption|].
      intros w' Hw'. destruct (Hk2 w' Hw') as (c & Hc).
      destruct (Nat.eq_dec w' w) as [->|Hne]; [congruence|].
      rewrite nth_error_set_w_neq by assumption. eauto.
    + intros Hr w' Hw'. destruct (Hret Hr w' Hw') as (c & Hc).
      destruct (Nat.eq_dec w' w) as [->|Hne]; [congruence|].
      rewrite nth_error_set_w_neq by assumption. eauto.
Qed.

(* ---- every reachable state ---------------------------------------------------- *)

Lemma inv_run bad par l : forall s, 1 <= par -> Inv bad par s -> Inv bad par (run bad s l).
Proof.
  induction l as [|a l IH]; intros s Hp H; [exact H|]. cbn [run fold_left].
  apply IH; [assumption|]. apply inv_step; assumption.
Qed.

Lemma inv_reachable_c bad n par cap pcap cont l :
  1 <= par -> Inv bad par (run bad (init_c n par cap pcap true cont) l).
Proof. intros Hp. apply inv_run; [assumption|apply inv_init_c; assumption]. Qed.

Lemma inv_reachable bad n par cap pcap l :
  1 <= par -> Inv bad par (run bad (init n par cap pcap true) l).
Proof. apply inv_reachable_c. Qed.

(* ---- terminal states ---------------------------------------------------------- *)

(* In a Returned state every worker has exited; if no callback raised, every item
   0..n-1 was received exactly once (in FIFO order), each by exactly one worker,
   its callback completed, and every worker left its loop normally. *)
Lemma terminal_facts bad par s :
  1 <= par -> Inv bad par s -> pc s = PReturned ->
  (forall i, i < v_n s -> bad i = false) ->
  nrecv s = v_n s /\
  map fst (started s) = rev (seq 0 (v_n s)) /\
  finished s = rev (seq 0 (v_n s)) /\
  (forall w, w < par -> nth_error (ws s) w = Some (WExited 0)).
Proof.
  intros Hpar H Hr Hbad. inv_fields H.
  assert (Hall : forall w, w < par -> nth_error (ws s) w = Some (WExited 0)).
  { intros w Hw. destruct (Hret Hr w Hw) as (c & Hc).
    destruct (Hexc _ _ Hc) as [->|[-> (i & Hi & Hb)]]; [assumption|].
    rewrite Hbad in Hb by lia. discriminate. }
  assert (Hn : nrecv s = v_n s).
  { destruct (Nat.eq_dec (nrecv s) (v_n s)) as [E|NE]; [exact E|]. exfalso.
    destruct Hlive as (h & x & Hh & Hx); [lia|].
    pose proof (nth_error_lt _ _ _ Hh) as Hl. rewrite Hlen in Hl.
    rewrite (Hall h Hl) in Hh. injection Hh as <-. discriminate. }
  repeat split; auto.
  - rewrite Hst, Hn. reflexivity.
  - rewrite Hfin, Hst, Hn.
    assert (Hf : forall l, (forall i, In i l -> i < v_n s) -> filter (fun i => negb (bad i)) l = l).
    { induction l as [|x l IH]; intros Hl; [reflexivity|]. cbn [filter].
      rewrite (Hbad x) by (apply Hl; left; reflexivity). cbn [negb]. f_equal. apply IH.
      intros i Hi. apply Hl. right. exact Hi. }
    apply Hf. intros i Hi. apply in_rev, in_seq in Hi. lia.
Qed.

(* without lock contention a worker never leaves its loop normally while items
   are outstanding; with it, some worker is still looping (or has crashed) *)
Lemma no_early_exit bad par s w :
  Inv bad par s -> v_cont s = false -> nth_error (ws s) w = Some (WExited 0) -> nrecv s = v_n s.
Proof. intros H Hc. apply (i_exit0 _ _ _ H Hc). Qed.

Lemma someone_stays bad par s :
  Inv bad par s -> nrecv s < v_n s ->
  exists h x, nth_error (ws s) h = Some x /\ not_exit0 x = true.
Proof. intros H. apply (i_live _ _ _ H). Qed.

(* ---- progress ------------------------------------------------------------------ *)

(* measure: strictly decreased by every non-polling action *)
Definition pc_rank (p : ppc) (par : nat) : nat :=
  match p with
  | PPut => par + 5 | PClose => par + 4 | PJoinFeeder => par + 3 | PSet => par + 2
  | PJoin k => S (par - k) | PReturned => 0
  end.

Definition w_rank (x : wst) : nat :=
  match x with WAtGet false => 3 | WAtFlag => 2 | WAtGet true => 1 | WExited _ => 0 end.

Fixpoint sum_rank (l : list wst) : nat :=
  match l with [] => 0 | x :: l' => w_rank x + sum_rank l' end.

Definition measure (par : nat) (s : vstate) : nat :=
  (v_n s - nput s) + (v_n s - npiped s) + 4 * (v_n s - nrecv s)
  + (if fdone s then 0 else 1) + pc_rank (pc s) par + sum_rank (ws s).

Lemma sum_rank_set_w l w x y :
  nth_error l w = Some x -> sum_rank (set_w l w y) + w_rank x = sum_rank l + w_rank y.
Proof.
  revert w. induction l as [|z l IH]; intros w H; [destruct w; discriminate|].
  destruct w as [|w].
  - injection H as ->. unfold set_w. cbn [firstn skipn app sum_rank]. lia.
  - cbn [nth_error] in H. specialize (IH w H). unfold set_w in *.
    change (firstn (S w) (z :: l)) with (z :: firstn w l).
    change (skipn (S (S w)) (z :: l)) with (skipn (S w) l).
    cbn [app sum_rank]. lia.
Qed.

Lemma measure_decreases bad par s a :
  1 <= par -> Inv bad par s -> enabled_b s a = true -> polling s a = false ->
  measure par (step bad s a) < measure par s.
Proof.
  intros Hpar H En Hpoll. pose proof H as H'. inv_fields H.
  unfold step. rewrite En. cbn [negb].
  destruct a as [| | | | | |w|w|w|w|w]; unfold enabled_b in En; unfold measure.
  - destruct (pc s) eqn:Epc; try discriminate.
    apply andb_true_iff in En. destruct En as [E1 E2]. apply Nat.ltb_lt in E1, E2. fin.
    destruct (Nat.eqb (S (nput s)) (v_n s)); cbn [pc_rank]; destruct (fdone s); lia.
  - destruct (pc s) eqn:Epc; try discriminate. fin. cbn [pc_rank]. destruct (fdone s); lia.
  - apply andb_true_iff in En. destruct En as [E1 E2]. apply Nat.ltb_lt in E1, E2. fin. destruct (fdone s); lia.
  - apply andb_true_iff in En. destruct En as [En E4]. apply negb_true_iff in E4.
    fin. rewrite E4. lia.
  - destruct (pc s) eqn:Epc; try discriminate. unfold upd_pc. fin. cbn [pc_rank]. destruct (fdone s); lia.
  - destruct (pc s) eqn:Epc; try discriminate. fin. cbn [pc_rank]. destruct (fdone s); lia.
  - destruct (pc s) as [| | | |k|] eqn:Epc; try discriminate.
    apply andb_true_iff in En. destruct En as [E1 E2]. apply Nat.eqb_eq in E1. subst k.
    destruct (Hjoin w eq_refl) as [Hk _]. unfold upd_pc. fin.
    destruct (Nat.eqb (S w) (length (ws s))); cbn [pc_rank]; destruct (fdone s); lia.
  - unfold get_w in En. destruct (nth_error (ws s) w) as [[|seen|c]|] eqn:Ew; try discriminate.
    apply Nat.ltb_lt in En. rewrite Hfx. fin.
    pose proof (sum_rank_set_w (ws s) w _ (if bad (nrecv s) then WExited 1 else WAtFlag) Ew) as Hs.
    assert (w_rank (if bad (nrecv s) then WExited 1 else WAtFlag) <= 2) by (destruct (bad (nrecv s)); cbn; lia).
    assert (w_rank (WAtGet seen) >= 1) by (destruct seen; cbn; lia).
    destruct (fdone s); lia.
  - unfold get_w in *. destruct (nth_error (ws s) w) as [[|seen|c]|] eqn:Ew; try discriminate.
    rewrite Hfx. unfold upd_ws. fin.
    cbn [polling] in Hpoll. apply negb_false_iff in Hpoll.
    pose proof (sum_rank_set_w (ws s) w _ (if seen then WExited 0 else WAtFlag) Ew) as Hs.
    destruct seen; cbn [w_rank] in *; destruct (fdone s); lia.
  - unfold get_w in *. destruct (nth_error (ws s) w) as [[|seen|c]|] eqn:Ew; try discriminate.
    rewrite Hfx. unfold upd_ws. fin.
    cbn [polling] in Hpoll. apply negb_false_iff in Hpoll. rewrite Hpoll.
    pose proof (sum_rank_set_w (ws s) w _ (WAtGet true) Ew) as Hs.
    cbn [w_rank] in *. destruct (fdone s); lia.
  - apply andb_true_iff in En. destruct En as [En _].
    apply andb_true_iff in En. destruct En as [En _].
    apply andb_true_iff in En. destruct En as [_ Eat].
    unfold get_w, at_get in *. destruct (nth_error (ws s) w) as [[|seen|c]|] eqn:Ew; try discriminate.
    rewrite Hfx. unfold upd_ws. fin.
    cbn [polling] in Hpoll. apply negb_false_iff in Hpoll.
    pose proof (sum_rank_set_w (ws s) w _ (if seen then WExited 0 else WAtFlag) Ew) as Hs.
    destruct seen; cbn [w_rank] in *; destruct (fdone s); lia.
Qed.

(* ---- no deadlock ---------------------------------------------------------------- *)

Definition can_progress (bad : nat -> bool) (s : vstate) : Prop :=
  (exists a, enabled_b s a = true /\ polling s a = false) \/
  (exists a0 a1, enabled_b s a0 = true /\
                 enabled_b (step bad s a0) a1 = true /\ polling (step bad s a0) a1 = false).

Lemma worker_can_receive bad par s :
  Inv bad par s -> (forall i, i < v_n s -> bad i = false) ->
  nrecv s < npiped s -> nrecv s < v_n s ->
  can_progress bad s.
Proof.
  intros H Hbad Hpipe Hn. pose proof H as H'. inv_fields H.
  destruct (Hlive Hn) as (w & x & Ew & Hx).
  destruct x as [|seen|c].
  - right. exists (AIsSet w), (ARecv w).
    assert (E0 : enabled_b s (AIsSet w) = true) by (unfold enabled_b, get_w; rewrite Ew; reflexivity).
    split; [exact E0|]. unfold step. rewrite E0. cbn [negb]. rewrite Hfx. unfold upd_ws, enabled_b, get_w. fin.
    rewrite nth_error_set_w_eq by (eapply nth_error_lt; eauto).
    split; [apply Nat.ltb_lt; assumption|reflexivity].
  - left. exists (ARecv w). split; [|reflexivity].
    unfold enabled_b, get_w. rewrite Ew. apply Nat.ltb_lt. assumption.
  - exfalso. destruct (Hexc _ _ Ew) as [->|[-> (i & Hi & Hb)]].
    + discriminate.
    + rewrite Hbad in Hb by lia. discriminate.
Qed.

Theorem no_deadlock bad par s :
  1 <= par -> 1 <= v_cap s -> 1 <= v_pcap s ->
  Inv bad par s -> (forall i, i < v_n s -> bad i = false) ->
  pc s <> PReturned -> can_progress bad s.
Proof.
  intros Hpar Hcap Hpcap H Hbad Hnr. pose proof H as H'. inv_fields H.
  destruct (pc s) as [| | | |k|] eqn:Epc; [| | | | |congruence].
  - (* producing *)
    specialize (Hput eq_refl).
    destruct (Nat.ltb (nput s - nrecv s) (v_cap s)) eqn:E1.
    + left. exists APut. split; [|reflexivity]. unfold enabled_b. rewrite Epc, E1.
      apply andb_true_iff. split; [apply Nat.ltb_lt; lia|reflexivity].
    + apply Nat.ltb_ge in E1.
      destruct (Nat.ltb (npiped s) (nput s) && Nat.ltb (npiped s - nrecv s) (v_pcap s)) eqn:E2.
      * left. exists AFlush. split; [exact E2|reflexivity].
      * apply (worker_can_receive bad par s H' Hbad); try lia.
        apply andb_false_iff in E2. destruct E2 as [E2|E2]; apply Nat.ltb_ge in E2; lia.
  - left. exists AClose. split; [|reflexivity]. unfold enabled_b. rewrite Epc. reflexivity.
  - (* waiting for the feeder *)
    assert (Hn : nput s = v_n s) by (apply Hnput; congruence).
    destruct (Nat.eqb (nput s) 0 || fdone s) eqn:E1.
    + left. exists AJoinThread. split; [|reflexivity]. unfold enabled_b. rewrite Epc. exact E1.
    + apply orb_false_iff in E1. destruct E1 as [E0 Efd]. apply Nat.eqb_neq in E0.
      destruct (Nat.eq_dec (npiped s) (nput s)) as [Eq|Neq].
      * left. exists AFeederExit. split; [|reflexivity]. unfold enabled_b.
        rewrite Hcl, Efd. cbn [past_close negb andb].
        apply andb_true_iff. split; [|reflexivity].
        apply andb_true_iff. split; [apply Nat.ltb_lt; lia|apply Nat.eqb_eq; assumption].
      * destruct (Nat.ltb (npiped s - nrecv s) (v_pcap s)) eqn:E2.
        -- left. exists AFlush. split; [|reflexivity]. unfold enabled_b. rewrite E2.
           apply andb_true_iff. split; [apply Nat.ltb_lt; lia|reflexivity].
        -- apply Nat.ltb_ge in E2. apply (worker_can_receive bad par s H' Hbad); lia.
  - left. exists ASet. split; [|reflexivity]. unfold enabled_b. rewrite Epc. reflexivity.
  - (* joining worker k *)
    destruct (Hjoin k eq_refl) as [Hk _].
    assert (Hflag : flag s = true) by (rewrite Hfl; reflexivity).
    destruct (nth_error (ws s) k) as [x|] eqn:Ew.
    2:{ apply nth_error_None in Ew. lia. }
    left. destruct x as [|seen|c].
    + exists (AIsSet k). split.
      * unfold enabled_b, get_w. rewrite Ew. reflexivity.
      * cbn [polling]. rewrite Hflag. reflexivity.
    + destruct (Nat.ltb (nrecv s) (npiped s)) eqn:E1.
      * exists (ARecv k). split; [|reflexivity]. unfold enabled_b, get_w. rewrite Ew. exact E1.
      * exists (ATimeout k). split.
        -- unfold enabled_b, get_w. rewrite Ew. apply Nat.eqb_eq. apply Nat.ltb_ge in E1. lia.
        -- cbn [polling]. rewrite Hflag. reflexivity.
    + exists (AJoin k). split; [|reflexivity]. unfold enabled_b, get_w, is_exited.
      rewrite Epc, Ew, Nat.eqb_refl. reflexivity.
Qed.

(* the queue parameters never change *)
Lemma params_step bad s a :
  v_n (step bad s a) = v_n s /\ v_cap (step bad s a) = v_cap s /\
  v_pcap (step bad s a) = v_pcap s /\ v_fixed (step bad s a) = v_fixed s /\
  v_cont (step bad s a) = v_cont s.
Proof.
  unfold step. destruct (enabled_b s a); cbn [negb]; [|auto 6].
  destruct a; unfold upd_pc, upd_ws; cbn; auto 6;
  destruct (get_w (ws s) w) as [[|seen|c]|]; cbn; auto 6.
Qed.

Lemma params_run bad l : forall s,
  v_n (run bad s l) = v_n s /\ v_cap (run bad s l) = v_cap s /\
  v_pcap (run bad s l) = v_pcap s /\ v_fixed (run bad s l) = v_fixed s /\
  v_cont (run bad s l) = v_cont s.
Proof.
  induction l as [|a l IH]; intros s; [auto 6|]. cbn [run fold_left].
  destruct (IH (step bad s a)) as (A & B & C & D & E).
  destruct (params_step bad s a) as (A' & B' & C' & D' & E').
  unfold run in *. rewrite A, B, C, D, E. auto 6.
Qed.

(* ---- headline theorems over every schedule ------------------------------------
   [cont = false]: Empty only on an empty pipe (the property's quantifier);
   [cont = true]: also Empty raised under reader-lock contention. *)

Theorem visit_terminal_c n par cap pcap cont (l : list act) :
  1 <= par ->
  let s := run (fun _ => false) (init_c n par cap pcap true cont) l in
  pc s = PReturned ->
  nrecv s = n /\
  map fst (started s) = rev (seq 0 n) /\
  finished s = rev (seq 0 n) /\
  (forall w, w < par -> nth_error (ws s) w = Some (WExited 0)).
Proof.
  intros Hpar s Hr.
  pose proof (inv_reachable_c (fun _ => false) n par cap pcap cont l Hpar) as HI. fold s in HI.
  destruct (params_run (fun _ => false) l (init_c n par cap pcap true cont)) as (Hn & _).
  fold s in Hn. cbn [init_c v_n] in Hn.
  destruct (terminal_facts _ par s Hpar HI Hr (fun _ _ => eq_refl)) as (A & B & C & D).
  rewrite Hn in *. auto.
Qed.

Theorem visit_terminal n par cap pcap (l : list act) :
  1 <= par ->
  let s := run (fun _ => false) (init n par cap pcap true) l in
  pc s = PReturned ->
  nrecv s = n /\
  map fst (started s) = rev (seq 0 n) /\
  finished s = rev (seq 0 n) /\
  (forall w, w < par -> nth_error (ws s) w = Some (WExited 0)).
Proof. apply visit_terminal_c. Qed.

Theorem visit_no_deadlock_c n par cap pcap cont (l : list act) :
  1 <= par -> 1 <= cap -> 1 <= pcap ->
  let s := run (fun _ => false) (init_c n par cap pcap true cont) l in
  pc s <> PReturned -> can_progress (fun _ => false) s.
Proof.
  intros Hpar Hcap Hpcap s Hr.
  pose proof (inv_reachable_c (fun _ => false) n par cap pcap cont l Hpar) as HI. fold s in HI.
  destruct (params_run (fun _ => false) l (init_c n par cap pcap true cont)) as (Hn & Hc & Hp & _).
  fold s in Hn, Hc, Hp. cbn [init_c v_n v_cap v_pcap] in Hn, Hc, Hp.
  apply (no_deadlock _ par); auto; try lia.
Qed.

Theorem visit_no_deadlock n par cap pcap (l : list act) :
  1 <= par -> 1 <= cap -> 1 <= pcap ->
  let s := run (fun _ => false) (init n par cap pcap true) l in
  pc s <> PReturned -> can_progress (fun _ => false) s.
Proof. apply visit_no_deadlock_c. Qed.

Theorem visit_measure_c n par cap pcap cont (l : list act) a :
  1 <= par ->
  let s := run (fun _ => false) (init_c n par cap pcap true cont) l in
  enabled_b s a = true -> polling s a = false ->
  measure par (step (fun _ => false) s a) < measure par s.
Proof.
  intros Hpar s En Hp. apply measure_decreases; auto.
  apply inv_reachable_c. assumption.
Qed.

Theorem visit_measure n par cap pcap (l : list act) a :
  1 <= par ->
  let s := run (fun _ => false) (init n par cap pcap true) l in
  enabled_b s a = true -> polling s a = false ->
  measure par (step (fun _ => false) s a) < measure par s.
Proof. apply visit_measure_c. Qed.

(* exactly-once, stated on the log itself: in every reachable state the items
   handed to workers are 0..nrecv-1, each exactly once, in FIFO order *)
Theorem visit_safety bad n par cap pcap (l : list act) :
  1 <= par ->
  let s := run bad (init n par cap pcap true) l in
  map fst (started s) = rev (seq 0 (nrecv s)) /\ nrecv s <= n /\
  (forall w, nth_error (ws s) w = Some (WExited 0) -> nrecv s = n).
Proof.
  intros Hpar s.
  pose proof (inv_reachable bad n par cap pcap l Hpar) as HI. fold s in HI.
  destruct (params_run bad l (init n par cap pcap true)) as (Hn & _ & _ & _ & Hc).
  fold s in Hn, Hc. cbn [init init_c v_n v_cont] in Hn, Hc.
  inv_fields HI. rewrite <- Hn. repeat split; auto; [lia|]. apply Hex0. exact Hc.
Qed.

(* the same under lock contention: a worker may now leave its loop normally with
   items outstanding, but never the last one: some worker is still looping (or
   has crashed, which only a raising callback causes) *)
Theorem visit_safety_c bad n par cap pcap cont (l : list act) :
  1 <= par ->
  let s := run bad (init_c n par cap pcap true cont) l in
  map fst (started s) = rev (seq 0 (nrecv s)) /\ nrecv s <= n /\
  (nrecv s < n -> exists h x, nth_error (ws s) h = Some x /\ not_exit0 x = true) /\
  (forall w, nth_error (ws s) w = Some (WExited 1) -> exists i, i < nrecv s /\ bad i = true).
Proof.
  intros Hpar s.
  pose proof (inv_reachable_c bad n par cap pcap cont l Hpar) as HI. fold s in HI.
  destruct (params_run bad l (init_c n par cap pcap true cont)) as (Hn & _).
  fold s in Hn. cbn [init_c v_n] in Hn.
  inv_fields HI. rewrite <- Hn. repeat split; auto; [lia|].
  intros w Hw. destruct (Hexc _ _ Hw) as [E|[_ H]]; [discriminate|exact H].
Qed.

(* contention is not vacuous: a schedule in which worker 0 leaves its loop on a
   contended Empty while an item is still in the pipe, and worker 1 then takes it *)
Definition contended_schedule : list act :=
  [AIsSet 0; AIsSet 1; APut; AFlush; ARecv 0; APut; AFlush; AClose; AFeederExit; AJoinThread; ASet;
   AIsSet 0; AIsSet 1; ACTimeout 0; ARecv 1; AIsSet 1; ATimeout 1; AJoin 0; AJoin 1].

Lemma contended_exit_reachable :
  let s1 := run (fun _ => false) (init_c 2 2 4 4 true true) (firstn 14 contended_schedule) in
  let s2 := run (fun _ => false) (init_c 2 2 4 4 true true) contended_schedule in
  (nth_error (ws s1) 0 = Some (WExited 0) /\ nrecv s1 = 1) /\
  (pc s2 = PReturned /\ rev (started s2) = [(0, 0); (1, 1)]).
Proof. vm_compute. auto. Qed.

(* ---- raising callbacks (C19) ---------------------------------------------------- *)

(* a crashed worker stays crashed, and every raising item that was handed out has
   left a worker with exit status 1: the information a caller needs is there *)
Definition crash_recorded (bad : nat -> bool) (s : vstate) : Prop :=
  (exists i, i < nrecv s /\ bad i = true) -> exists w, nth_error (ws s) w = Some (WExited 1).

Lemma crash_recorded_step bad par s a :
  Inv bad par s -> crash_recorded bad s -> crash_recorded bad (step bad s a).
Proof.
  intros HI Hc. unfold step. destruct (enabled_b s a) eqn:En; cbn [negb]; [|exact Hc].
  pose proof (i_fixed _ _ _ HI) as Hfx.
  destruct a as [| | | | | |w|w|w|w|w]; unfold enabled_b in En; unfold crash_recorded in *; fin;
    try exact Hc; try (unfold upd_pc; fin; exact Hc).
  - unfold get_w in En. destruct (nth_error (ws s) w) as [[|seen|c]|] eqn:Ew; try discriminate.
    pose proof (nth_error_lt _ _ _ Ew) as Hwl.
    intros (i & Hi & Hb). destruct (bad (nrecv s)) eqn:Eb.
    + exists w. rewrite nth_error_set_w_eq by assumption. reflexivity.
    + assert (Hi' : i < nrecv s).
      { destruct (Nat.eq_dec i (nrecv s)) as [->|]; [congruence|lia]. }
      destruct (Hc (ex_intro _ i (conj Hi' Hb))) as (w' & Hw').
      exists w'. destruct (Nat.eq_dec w' w) as [->|Hne]; [congruence|].
      rewrite nth_error_set_w_neq by assumption. exact Hw'.
  - unfold get_w in *. destruct (nth_error (ws s) w) as [[|seen|c]|] eqn:Ew; try discriminate.
    pose proof (nth_error_lt _ _ _ Ew) as Hwl. unfold upd_ws. fin.
    intros H. destruct (Hc H) as (w' & Hw').
    exists w'. destruct (Nat.eq_dec w' w) as [->|Hne]; [congruence|].
    rewrite nth_error_set_w_neq by assumption. exact Hw'.
  - unfold get_w in *. destruct (nth_error (ws s) w) as [[|seen|c]|] eqn:Ew; try discriminate.
    pose proof (nth_error_lt _ _ _ Ew) as Hwl. unfold upd_ws. fin.
    intros H. destruct (Hc H) as (w' & Hw').
    exists w'. destruct (Nat.eq_dec w' w) as [->|Hne]; [congruence|].
    rewrite nth_error_set_w_neq by assumption. exact Hw'.
  - apply andb_true_iff in En. destruct En as [En _].
    apply andb_true_iff in En. destruct En as [En _].
    apply andb_true_iff in En. destruct En as [_ Eat].
    unfold get_w, at_get in *. destruct (nth_error (ws s) w) as [[|seen|c]|] eqn:Ew; try discriminate.
    pose proof (nth_error_lt _ _ _ Ew) as Hwl. unfold upd_ws. fin.
    intros H. destruct (Hc H) as (w' & Hw').
    exists w'. destruct (Nat.eq_dec w' w) as [->|Hne]; [congruence|].
    rewrite nth_error_set_w_neq by assumption. exact Hw'.
Qed.

Theorem crash_visible bad n par cap pcap (l : list act) :
  1 <= par ->
  let s := run bad (init n par cap pcap true) l in
  (exists i, i < nrecv s /\ bad i = true) <-> (exists w, nth_error (ws s) w = Some (WExited 1)).
Proof.
  intros Hpar s. split.
  - subst s. generalize (inv_init bad n par cap pcap Hpar). revert Hpar.
    assert (H0 : crash_recorded bad (init n par cap pcap true)).
    { intros (i & Hi & _). cbn in Hi. lia. }
    revert H0. generalize (init n par cap pcap true) as s0.
    induction l as [|a l IH]; intros s0 Hc Hpar HI; [exact Hc|].
    cbn [run fold_left]. apply IH; auto.
    + apply crash_recorded_step with par; assumption.
    + apply inv_step; assumption.
  - intros (w & Hw).
    pose proof (inv_reachable bad n par cap pcap l Hpar) as HI. fold s in HI.
    destruct (i_exit_code _ _ _ HI _ _ Hw) as [E|[_ H]]; [discriminate|exact H].
Qed.
