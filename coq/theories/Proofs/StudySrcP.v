(* toasty/study.py (class StudyTiling, with the one function of pyramid.py it uses) as TRANSLATED
   from the source on every build (Generated/StudySrc.v; harness/py2coq.py) agrees with the
   hand-written model (Model/Study.v) on every input.  A change of the source that alters one of
   these methods alters the generated definitions, and the corresponding lemma below no longer
   checks. *)
From Coq Require Import ZArith NArith List Bool Lia.
From Toasty Require Import Model.SrcPrelude Model.Study Proofs.StudyP Proofs.SrcPreludeP.
From Toasty Require Import Generated.StudySrc.
Import ListNotations.
Local Open Scope Z_scope.
Ltac Zify.zify_post_hook ::= Z.to_euclidean_division_equations.

(* equal records / tuples field by field, the integer fields by linear arithmetic: a rewrite of the
   source such as `256 * itx` for `itx * 256` does not break the lemmas below *)
Ltac struct_eq :=
  repeat match goal with
         | |- Some _ = Some _ => f_equal
         | |- (_, _) = (_, _) => f_equal
         | |- mkSP _ _ _ = mkSP _ _ _ => f_equal
         | |- mkST _ _ _ _ _ _ _ = mkST _ _ _ _ _ _ _ => f_equal
         | |- _ :: _ = _ :: _ => f_equal
         end; try reflexivity; try lia.

Lemma src_zrange_eq n : forall lo, src_zrange lo n = zrange lo n.
Proof. induction n as [|n IH]; intros lo; cbn [src_zrange zrange]; [reflexivity|]. rewrite IH. reflexivity. Qed.

Lemma src_range_eq a b : src_range a b = py_range a b.
Proof. unfold src_range, py_range. apply src_zrange_eq. Qed.

(* ---- next_highest_power_of_2 (this file's own translation of it) ------------------------------ *)

Lemma src_np2_loop_eq : forall (fuel : nat) (p n r : Z),
  np2_loop fuel p n = Some r -> src_next_highest_power_of_2_loop (S fuel) p n = Some r.
Proof.
  induction fuel as [|fuel IH]; intros p n r H; cbn [np2_loop] in H; cbn [src_next_highest_power_of_2_loop].
  - destruct (p <? n); [discriminate|exact H].
  - destruct (p <? n) eqn:E; [|exact H].
    rewrite Z.mul_comm. apply IH. exact H.
Qed.

Lemma src_next_highest_power_of_2_eq (n r : Z) :
  next_pow2 n = Some r ->
  src_next_highest_power_of_2 (S (Z.to_nat (Z.log2_up n))) n = Some r.
Proof.
  unfold next_pow2, src_next_highest_power_of_2. intros H.
  rewrite (src_np2_loop_eq _ _ _ _ H). reflexivity.
Qed.

Lemma src_np2_loop_mono : forall (fuel : nat) (p n r : Z),
  src_next_highest_power_of_2_loop fuel p n = Some r ->
  src_next_highest_power_of_2_loop (S fuel) p n = Some r.
Proof.
  induction fuel as [|fuel IH]; intros p n r H; [discriminate|].
  cbn [src_next_highest_power_of_2_loop] in H |- *.
  destruct (p <? n); [|exact H]. apply IH. exact H.
Qed.

(* ---- study.py: StudyTiling ----------------------------------------------------------------------- *)

Definition to_st (t : tiling) : stiling :=
  mkST (t_width t) (t_height t) (t_p2n t) (t_tile_size t) (t_levels t) (t_gx0 t) (t_gy0 t).

Definition to_stup (u : tup) : spos * Z * Z * Z * Z * Z * Z :=
  (mkSP (u_n u) (u_x u) (u_y u), u_w u, u_h u, u_ix u, u_iy u, u_tx u, u_ty u).

Lemma src_np2_loop_more : forall (k fuel : nat) (p n r : Z),
  src_next_highest_power_of_2_loop fuel p n = Some r ->
  src_next_highest_power_of_2_loop (k + fuel) p n = Some r.
Proof.
  induction k as [|k IH]; intros fuel p n r H; [exact H|].
  change (S k + fuel)%nat with (S (k + fuel)). apply src_np2_loop_mono. apply IH. exact H.
Qed.

Lemma src_np2_enough (n r : Z) (fuel : nat) :
  next_pow2 n = Some r -> (Z.to_nat (Z.log2_up n) < fuel)%nat ->
  src_next_highest_power_of_2 fuel n = Some r.
Proof.
  intros H Hf. pose proof (src_next_highest_power_of_2_eq n r H) as E.
  unfold src_next_highest_power_of_2 in E |- *.
  destruct (src_next_highest_power_of_2_loop (S (Z.to_nat (Z.log2_up n))) 256 n) as [r'|] eqn:E1; [|discriminate].
  replace fuel with ((fuel - S (Z.to_nat (Z.log2_up n))) + S (Z.to_nat (Z.log2_up n)))%nat by lia.
  rewrite (src_np2_loop_more _ _ _ _ _ E1). exact E.
Qed.

(* the constructor: the same ValueError guards, the same seven fields *)
Lemma src_init_eq (w h : Z) (fuel : nat) :
  (Z.to_nat (Z.log2_up (Z.max w h)) < fuel)%nat ->
  src_StudyTiling_init fuel w h = option_map to_st (study_tiling w h).
Proof.
  intros Hf. unfold src_StudyTiling_init, study_tiling.
  destruct (w <=? 0) eqn:Ew; [reflexivity|]. destruct (h <=? 0) eqn:Eh; [reflexivity|].
  destruct (next_pow2_total w) as [p2w Hw]. destruct (next_pow2_total h) as [p2h Hh].
  rewrite Hw, Hh.
  assert (Hlw : Z.log2_up w <= Z.log2_up (Z.max w h)) by (apply Z.log2_up_le_mono; lia).
  assert (Hlh : Z.log2_up h <= Z.log2_up (Z.max w h)) by (apply Z.log2_up_le_mono; lia).
  rewrite (src_np2_enough w p2w fuel Hw) by lia.
  rewrite (src_np2_enough h p2h fuel Hh) by lia.
  cbv beta iota zeta delta [option_map to_st t_width t_height t_p2n t_tile_size t_levels t_gx0 t_gy0].
  struct_eq.
Qed.

Lemma src_compute_for_subimage_eq (t : tiling) (ix iy sw sh : Z) (fuel : nat) :
  (Z.to_nat (Z.log2_up (Z.max (t_width t) (t_height t))) < fuel)%nat ->
  src_StudyTiling_compute_for_subimage fuel (to_st t) ix iy sw sh =
  option_map to_st (compute_for_subimage t ix iy sw sh).
Proof.
  intros Hf. unfold src_StudyTiling_compute_for_subimage, compute_for_subimage.
  cbn [to_st st_width st_height]. rewrite !Z.gtb_ltb.
  destruct ((sw <? 0) || (t_width t <? sw)); [reflexivity|].
  destruct ((sh <? 0) || (t_height t <? sh)); [reflexivity|].
  destruct ((ix <? 0) || (t_width t <? ix + sw)); [reflexivity|].
  destruct ((iy <? 0) || (t_height t <? iy + sh)); [reflexivity|].
  rewrite src_init_eq by exact Hf.
  destruct (study_tiling (t_width t) (t_height t)) as [s|]; [|reflexivity].
  cbv beta iota zeta delta [option_map to_st t_width t_height t_p2n t_tile_size t_levels t_gx0 t_gy0
       st_width st_height st_p2n st_tile_size st_tile_levels st_img_gx0 st_img_gy0].
  struct_eq.
Qed.

Lemma src_n_deepest_eq (t : tiling) :
  src_StudyTiling_n_deepest_layer_tiles (to_st t) = Some (n_deepest_layer_tiles t).
Proof. reflexivity. Qed.

Lemma src_image_to_tile_eq (t : tiling) (x y : Z) :
  src_StudyTiling_image_to_tile (to_st t) x y = Some (image_to_tile t x y).
Proof.
  unfold src_StudyTiling_image_to_tile, image_to_tile. cbn [to_st st_img_gx0 st_img_gy0]. cbv zeta.
  struct_eq.
Qed.

Lemma src_count_populated_eq (t : tiling) :
  src_StudyTiling_count_populated_positions (to_st t) = Some (count_populated_positions t).
Proof.
  unfold src_StudyTiling_count_populated_positions, count_populated_positions,
    tile_end_ty, tile_end_tx, tile_start_ty, tile_start_tx, img_gx1, img_gy1.
  cbn [to_st st_width st_height st_img_gx0 st_img_gy0]. cbv zeta. struct_eq.
Qed.

(* the generator: the same tuples in the same (row-major) order *)
Lemma src_generate_populated_eq (t : tiling) :
  src_StudyTiling_generate_populated_positions (to_st t) =
  Some (map to_stup (generate_populated_positions t)).
Proof.
  unfold src_StudyTiling_generate_populated_positions, generate_populated_positions.
  cbn [to_st st_width st_height st_img_gx0 st_img_gy0 st_tile_levels].
  rewrite !src_range_eq.
  rewrite (src_concat_map_some _
    (fun ity => map (fun itx => to_stup (tuple_at t itx ity)) (py_range (tile_start_tx t) (tile_end_tx t + 1)))).
  - f_equal. rewrite map_flat_map.
    unfold tile_start_ty, tile_end_ty, img_gy1.
    apply flat_map_ext. intros ity. rewrite map_map. reflexivity.
  - intros ity _.
    rewrite (src_concat_map_some _ (fun itx => [to_stup (tuple_at t itx ity)])).
    + rewrite flat_map_singleton. reflexivity.
    + intros itx _. unfold to_stup, tuple_at, img_gx1, img_gy1.
      cbn [u_n u_x u_y u_w u_h u_ix u_iy u_tx u_ty src_cons_opt]. cbv zeta. struct_eq.
Qed.
