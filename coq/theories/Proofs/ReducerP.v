(* Proofs about Model/Reducer.v: the PyramidReductionIterator refines plain
   structural recursion over the accepted tree. *)
From Coq Require Import List NArith ZArith Arith Bool Lia.
From Toasty Require Import Model.Quadtree Model.Reducer Proofs.QuadtreeP.
Import ListNotations.
Ltac Zify.zify_post_hook ::= Z.to_euclidean_division_equations.
Local Open Scope N_scope.

(* ---- children, explicitly ------------------------------------------------ *)

Lemma children_c p : children p = [c0 p; c1 p; c2 p; c3 p].
Proof. reflexivity. Qed.

Lemma parent_c0 p : parent (c0 p) = Some (p, 0, 0).
Proof.
  destruct p as [n x y]; unfold c0, parent; cbn [pn px py].
  assert (H : forall z, (2 * z) / 2 = z /\ (2 * z) mod 2 = 0) by (intros; lia).
  destruct (H x) as [-> ->], (H y) as [-> ->]. reflexivity.
Qed.
Lemma parent_c1 p : parent (c1 p) = Some (p, 1, 0).
Proof.
  destruct p as [n x y]; unfold c1, parent; cbn [pn px py].
  assert (H : forall z, (2 * z) / 2 = z /\ (2 * z) mod 2 = 0) by (intros; lia).
  destruct (div2_lemma x 1 ltac:(lia)) as [-> ->], (H y) as [-> ->]. reflexivity.
Qed.
Lemma parent_c2 p : parent (c2 p) = Some (p, 0, 1).
Proof.
  destruct p as [n x y]; unfold c2, parent; cbn [pn px py].
  assert (H : forall z, (2 * z) / 2 = z /\ (2 * z) mod 2 = 0) by (intros; lia).
  destruct (div2_lemma y 1 ltac:(lia)) as [-> ->], (H x) as [-> ->]. reflexivity.
Qed.
Lemma parent_c3 p : parent (c3 p) = Some (p, 1, 1).
Proof.
  destruct p as [n x y]; unfold c3, parent; cbn [pn px py].
  destruct (div2_lemma y 1 ltac:(lia)) as [-> ->], (div2_lemma x 1 ltac:(lia)) as [-> ->]. reflexivity.
Qed.

Lemma pwalk_S k acc p :
  pwalk (S k) acc p =
  if acc p then pwalk k acc (c0 p) ++ pwalk k acc (c1 p) ++ pwalk k acc (c2 p) ++ pwalk k acc (c3 p) ++ [p]
  else [].
Proof.
  cbn [pwalk]. destruct (acc p); [|reflexivity].
  rewrite children_c. cbn [flat_map]. rewrite app_nil_r, <- !app_assoc. reflexivity.
Qed.

Lemma rev4_unit {T} (a b c e : list T) (x : T) (log : list T) :
  x :: rev (a ++ b ++ c ++ e) ++ log = rev (a ++ b ++ c ++ e ++ [x]) ++ log.
Proof.
  replace (a ++ b ++ c ++ e ++ [x]) with ((a ++ b ++ c ++ e) ++ [x])
    by (rewrite <- !app_assoc; reflexivity).
  rewrite rev_unit. reflexivity.
Qed.

(* ---- the iterator over one subtree ---------------------------------------- *)

Section Refine.
  Context {A : Type}.
  Variable f : pos -> bool -> (A * A * A * A) -> A.
  Variable d : A.
  Variable dep : nat.
  Variable ap : pos.
  Variable acc : pos -> bool.

  Notation slot := (@slot A).
  Notation mkS p t := (mkSlot (px p) (py p) t).
  Notation dflt := (dflt4 d).
  Notation loop := (riter_loop f d dep ap).
  Notation TR := (tree_reduce f d).
  Notation TL := (tree_log f d).

  (* levels after _ensure_levels for q *)
  Definition ext (lv : list slot) (q : pos) : list slot :=
    new_levels d (S (pn q) - length lv) q ++ lv.

  Lemma ensure_ext lv q : lv <> [] -> ensure_levels d lv q = Some (ext lv q).
  Proof.
    intros Hne. unfold ensure_levels, ext.
    destruct (Nat.ltb_spec (pn q) (length lv)) as [Hlt|Hge].
    - replace (S (pn q) - length lv)%nat with 0%nat by lia. reflexivity.
    - destruct lv as [|s lv]; [congruence|]. cbn [length]. reflexivity.
  Qed.

  Inductive chain : list slot -> pos -> Prop :=
  | chain_one s q : pn q = 0%nat -> sx s = px q -> sy s = py q -> chain [s] q
  | chain_cons s lv q :
      pn q = S (pn (parent_pos q)) -> sx s = px q -> sy s = py q ->
      chain lv (parent_pos q) -> chain (s :: lv) q.

  Lemma chain_length lv q : chain lv q -> length lv = S (pn q).
  Proof. induction 1; cbn [length]; lia. Qed.

  Lemma chain_head lv q : chain lv q -> exists s lv', lv = s :: lv' /\ sx s = px q /\ sy s = py q.
  Proof. destruct 1; eauto. Qed.

  Lemma parent_pos_level q n : pn q = S n -> pn (parent_pos q) = n.
  Proof.
    unfold parent_pos, parent. destruct q as [m x y]; cbn [pn px py]. intros ->. reflexivity.
  Qed.

  Lemma ext_step lv c :
    (length lv <= pn c)%nat -> pn c = S (pn (parent_pos c)) ->
    ext lv c = mkS c dflt :: ext lv (parent_pos c).
  Proof.
    intros Hlen Hn. unfold ext.
    replace (S (pn c) - length lv)%nat with (S (pn c - length lv)) by lia.
    cbn [new_levels app]. f_equal. f_equal. f_equal. lia.
  Qed.

  Lemma ext_full lv q : (pn q < length lv)%nat -> ext lv q = lv.
  Proof. intros H. unfold ext. replace (S (pn q) - length lv)%nat with 0%nat by lia. reflexivity. Qed.

  Definition set_head (lv : list slot) (ix iy : N) (v : A) : list slot :=
    match lv with
    | [] => []
    | s :: lv' => mkSlot (sx s) (sy s) (set4 v ix iy (sd s)) :: lv'
    end.

  Lemma chain_set_head lv q ix iy v : chain lv q -> chain (set_head lv ix iy v) q.
  Proof. destruct 1; cbn [set_head]; constructor; auto. Qed.

  Lemma set_head_length lv ix iy v : length (set_head lv ix iy v) = length lv.
  Proof. destruct lv; reflexivity. Qed.

  (* the iteration step at a node strictly below the apex whose slot is on top *)
  Lemma step_inner lv c t R q ix iy :
    (pn ap < pn c)%nat ->
    lv <> [] -> ensure_levels d lv c = Some (mkS c t :: R) ->
    chain (mkS c t :: R) c ->
    parent c = Some (q, ix, iy) ->
    riter_step f d dep ap lv c =
      SCont (set_head R ix iy (f c (Nat.eqb (pn c) dep) t)) (c, Nat.eqb (pn c) dep, t).
  Proof.
    intros Hap Hne Hens Hch Hpar. unfold riter_step.
    destruct (Nat.ltb_spec (pn c) (pn ap)); [lia|].
    rewrite Hens. rewrite (chain_length _ _ Hch), Nat.eqb_refl. cbn [negb sx sy sd].
    rewrite !N.eqb_refl. cbn [andb negb].
    assert (Hneq : pos_eqb c ap = false).
    { destruct (pos_eqb c ap) eqn:E; [|reflexivity]. apply pos_eqb_eq in E. subst. lia. }
    rewrite Hneq, Hpar.
    inversion Hch as [s q' H0 _ _|s lv' q' Hn Hx Hy Hch']; subst.
    - unfold parent in Hpar. rewrite H0 in Hpar. discriminate.
    - assert (q = parent_pos c) as -> by (unfold parent_pos; rewrite Hpar; reflexivity).
      destruct (chain_head _ _ Hch') as (s2 & lv3 & -> & Hx2 & Hy2).
      rewrite <- Hx2, <- Hy2, !N.eqb_refl. cbn [andb negb set_head]. reflexivity.
  Qed.

  (* Precondition for running the subtree of c *)
  Definition pre (lv : list slot) (c : pos) : Prop :=
    lv <> [] /\ (length lv <= pn c)%nat /\ chain (ext lv c) c.

  Definition idx_of (c : pos) : N * N :=
    match parent c with Some (_, ix, iy) => (ix, iy) | None => (0, 0) end.

  Definition after (lv : list slot) (c : pos) (v : A) : list slot :=
    set_head (ext lv (parent_pos c)) (fst (idx_of c)) (snd (idx_of c)) v.

  Lemma pre_child lv c ci :
    In ci (children c) -> lv <> [] -> (length lv <= S (pn c))%nat -> chain (ext lv c) c -> pre lv ci.
  Proof.
    intros Hin Hne Hlen Hch.
    pose proof (children_level _ _ Hin) as Hn. pose proof (parent_pos_child _ _ Hin) as Hp.
    split; [assumption|]. split; [lia|].
    rewrite ext_step by (rewrite ?Hp; lia). rewrite Hp.
    apply chain_cons; rewrite ?Hp; auto.
  Qed.

  (* invariant while the children of c are processed: c's slot (with the data
     gathered so far) is what _ensure_levels will put on top *)
  Definition J (c : pos) (R : list slot) (lvm : list slot) (t : A * A * A * A) : Prop :=
    lvm <> [] /\ (length lvm <= S (pn c))%nat /\ ext lvm c = mkS c t :: R /\ chain (mkS c t :: R) c.

  Lemma J_pre c R lvm t ci : J c R lvm t -> In ci (children c) -> pre lvm ci.
  Proof.
    intros (Hne & Hlen & Hext & Hch) Hin. eapply pre_child; eauto. rewrite Hext. exact Hch.
  Qed.

  Section Node.
    Variable k' : nat.
    Hypothesis IH : forall c lv l' log,
      (k' + pn c = S dep)%nat -> (pn ap < pn c)%nat -> pre lv c ->
      loop lv (pwalk k' acc c ++ l') log =
      match k' with
      | O => loop lv l' log
      | S _ => if acc c
               then loop (after lv c (TR k' acc c)) l' (rev (TL k' acc c) ++ log)
               else loop lv l' log
      end.

    Lemma child_run c R ci ix iy t lvm l' log :
      (k' + S (pn c) = S dep)%nat -> (pn ap <= pn c)%nat ->
      J c R lvm t -> In ci (children c) -> parent ci = Some (c, ix, iy) ->
      exists lvm' t',
        loop lvm (pwalk k' acc ci ++ l') log = loop lvm' l' (rev (TL k' acc ci) ++ log) /\
        J c R lvm' t' /\
        (t' = set4 (TR k' acc ci) ix iy t \/ (t' = t /\ TR k' acc ci = d)).
    Proof.
      intros Hk Hap HJ Hin Hpar.
      pose proof (children_level _ _ Hin) as Hn. pose proof (parent_pos_child _ _ Hin) as Hp.
      pose proof (J_pre _ _ _ _ _ HJ Hin) as Hpre.
      destruct HJ as (Hne & Hlen & Hext & Hch).
      rewrite IH by (try assumption; lia).
      destruct k' as [|k''].
      - exists lvm, t. cbn [tree_log tree_reduce rev app]. repeat split; auto.
      - destruct (acc ci) eqn:Eacc.
        + exists (mkS c (set4 (TR (S k'') acc ci) ix iy t) :: R), (set4 (TR (S k'') acc ci) ix iy t).
          split.
          { f_equal. unfold after, idx_of. rewrite Hpar, Hp. cbn [fst snd]. rewrite Hext. reflexivity. }
          split; [|left; reflexivity].
          pose proof (chain_length _ _ Hch) as HL. cbn [length] in HL.
          split; [discriminate|]. split; [cbn [length]; lia|]. split.
          * apply ext_full. cbn [length]. lia.
          * inversion Hch; subst; constructor; auto.
        + exists lvm, t. cbn [tree_log tree_reduce]. rewrite Eacc. cbn [rev app].
          repeat split; auto.
    Qed.

    (* all four children *)
    Lemma children_run c R lv l' log :
      (k' + S (pn c) = S dep)%nat -> (pn ap <= pn c)%nat ->
      J c R lv dflt ->
      exists lvm,
        loop lv (pwalk k' acc (c0 c) ++ pwalk k' acc (c1 c) ++ pwalk k' acc (c2 c) ++ pwalk k' acc (c3 c) ++ l') log =
        loop lvm l'
             (rev (TL k' acc (c0 c) ++ TL k' acc (c1 c) ++ TL k' acc (c2 c) ++ TL k' acc (c3 c)) ++ log) /\
        J c R lvm (TR k' acc (c0 c), TR k' acc (c1 c), TR k' acc (c2 c), TR k' acc (c3 c)).
    Proof.
      intros Hk Hap HJ.
      assert (I0 : In (c0 c) (children c)) by (rewrite children_c; cbn; auto).
      assert (I1 : In (c1 c) (children c)) by (rewrite children_c; cbn; auto).
      assert (I2 : In (c2 c) (children c)) by (rewrite children_c; cbn; auto 6).
      assert (I3 : In (c3 c) (children c)) by (rewrite children_c; cbn; auto 6).
      destruct (child_run c R (c0 c) 0 0 dflt lv
                  (pwalk k' acc (c1 c) ++ pwalk k' acc (c2 c) ++ pwalk k' acc (c3 c) ++ l') log
                  Hk Hap HJ I0 (parent_c0 c)) as (lv1 & t1 & E1 & J1 & T1).
      destruct (child_run c R (c1 c) 1 0 t1 lv1
                  (pwalk k' acc (c2 c) ++ pwalk k' acc (c3 c) ++ l') (rev (TL k' acc (c0 c)) ++ log)
                  Hk Hap J1 I1 (parent_c1 c)) as (lv2 & t2 & E2 & J2 & T2).
      destruct (child_run c R (c2 c) 0 1 t2 lv2
                  (pwalk k' acc (c3 c) ++ l') (rev (TL k' acc (c1 c)) ++ rev (TL k' acc (c0 c)) ++ log)
                  Hk Hap J2 I2 (parent_c2 c)) as (lv3 & t3 & E3 & J3 & T3).
      destruct (child_run c R (c3 c) 1 1 t3 lv3 l'
                  (rev (TL k' acc (c2 c)) ++ rev (TL k' acc (c1 c)) ++ rev (TL k' acc (c0 c)) ++ log)
                  Hk Hap J3 I3 (parent_c3 c)) as (lv4 & t4 & E4 & J4 & T4).
      exists lv4. split.
      - rewrite E1, E2, E3, E4. f_equal. rewrite !rev_app_distr, <- !app_assoc. reflexivity.
      - assert (Ht : t4 = (TR k' acc (c0 c), TR k' acc (c1 c), TR k' acc (c2 c), TR k' acc (c3 c))).
        { unfold dflt4 in T1.
          destruct T1 as [->|[-> E1']], T2 as [->|[-> E2']], T3 as [->|[-> E3']], T4 as [->|[-> E4']];
            rewrite ?E1', ?E2', ?E3', ?E4'; reflexivity. }
        rewrite <- Ht. exact J4.
    Qed.
  End Node.

  Lemma J_init_inner lv c :
    pre lv c -> pn c = S (pn (parent_pos c)) -> J c (ext lv (parent_pos c)) lv dflt.
  Proof.
    intros (Hne & Hlen & Hch) Hn. split; [assumption|]. split; [lia|].
    rewrite <- ext_step by assumption. split; [reflexivity|assumption].
  Qed.

  (* the subtree of a node strictly below the apex *)
  Lemma subtree_run : forall k c lv l' log,
      (k + pn c = S dep)%nat -> (pn ap < pn c)%nat -> pre lv c ->
      loop lv (pwalk k acc c ++ l') log =
      match k with
      | O => loop lv l' log
      | S _ => if acc c
               then loop (after lv c (TR k acc c)) l' (rev (TL k acc c) ++ log)
               else loop lv l' log
      end.
  Proof.
    induction k as [|k' IH]; intros c lv l' log Hk Hap Hpre.
    - reflexivity.
    - rewrite pwalk_S. destruct (acc c) eqn:Eacc; [|reflexivity].
      assert (Hn : pn c = S (pn (parent_pos c))).
      { destruct c as [[|n] x y]; cbn [pn] in *; [lia|]. reflexivity. }
      pose proof (J_init_inner _ _ Hpre Hn) as HJ.
      rewrite <- !app_assoc.
      destruct (children_run k' IH c _ lv ([c] ++ l') log ltac:(lia) ltac:(lia) HJ) as (lvm & E & HJm).
      rewrite E. clear E.
      destruct HJm as (Hne & Hlen & Hext & Hch).
      cbn [app riter_loop].
      assert (Hpar : exists q ix iy, parent c = Some (q, ix, iy)).
      { unfold parent. destruct c as [[|n] x y]; cbn [pn] in *; [lia|]. eauto. }
      destruct Hpar as (q & ix & iy & Hpar).
      assert (Hens : ensure_levels d lvm c = Some (mkS c (TR k' acc (c0 c), TR k' acc (c1 c), TR k' acc (c2 c), TR k' acc (c3 c)) :: ext lv (parent_pos c))).
      { rewrite ensure_ext by assumption. rewrite Hext. reflexivity. }
      rewrite (step_inner lvm c _ _ q ix iy Hap Hne Hens Hch Hpar).
      f_equal.
      + unfold after, idx_of. rewrite Hpar. cbn [fst snd tree_reduce]. rewrite Eacc.
        replace (Nat.eqb (pn c) dep) with (Nat.eqb k' 0).
        * reflexivity.
        * destruct (Nat.eqb_spec k' 0), (Nat.eqb_spec (pn c) dep); try reflexivity; lia.
      + cbn [tree_log]. rewrite Eacc.
        replace (Nat.eqb (pn c) dep) with (Nat.eqb k' 0)
          by (destruct (Nat.eqb_spec k' 0), (Nat.eqb_spec (pn c) dep); try reflexivity; lia).
        apply rev4_unit.
  Qed.

  (* the subtree of the apex itself: the iteration stops with the apex's value *)
  Lemma apex_run k lv R l' log :
    (k + pn ap = S dep)%nat -> J ap R lv dflt ->
    loop lv (pwalk k acc ap ++ l') log =
    match k with
    | O => loop lv l' log
    | S _ => if acc ap then ROk (rev (rev (TL k acc ap) ++ log)) (TR k acc ap)
             else loop lv l' log
    end.
  Proof.
    intros Hk HJ. destruct k as [|k']; [reflexivity|].
    rewrite pwalk_S. destruct (acc ap) eqn:Eacc; [|reflexivity].
    rewrite <- !app_assoc.
    destruct (children_run k' (subtree_run k') ap R lv ([ap] ++ l') log ltac:(lia) ltac:(lia) HJ)
      as (lvm & E & HJm).
    rewrite E. clear E. destruct HJm as (Hne & Hlen & Hext & Hch).
    cbn [app riter_loop]. unfold riter_step.
    rewrite Nat.ltb_irrefl. rewrite ensure_ext by assumption. rewrite Hext.
    rewrite (chain_length _ _ Hch), Nat.eqb_refl. cbn [negb sx sy sd].
    rewrite !N.eqb_refl, pos_eqb_refl. cbn [andb negb].
    cbn [tree_log tree_reduce]. rewrite Eacc.
    replace (Nat.eqb (pn ap) dep) with (Nat.eqb k' 0)
      by (destruct (Nat.eqb_spec k' 0), (Nat.eqb_spec (pn ap) dep); try reflexivity; lia).
    f_equal. f_equal. apply rev4_unit.
  Qed.

  (* after the apex subtree: the generator's tail starts above the apex (or is empty) *)
  Definition tail_above (l : list pos) : Prop :=
    match l with [] => True | q :: _ => (pn q < pn ap)%nat end.

  Lemma tail_run lv l log : tail_above l -> loop lv l log = ROk (rev log) d.
  Proof.
    destruct l as [|q l]; intros H; [reflexivity|]. cbn [tail_above] in H.
    cbn [riter_loop]. unfold riter_step.
    destruct (Nat.ltb_spec (pn q) (pn ap)); [reflexivity|lia].
  Qed.

  (* initial levels: [[0, 0, d, d, d, d]] *)
  Lemma chain_init q :
    valid q = true -> chain (ext [mkSlot 0 0 dflt] q) q.
  Proof.
    remember (pn q) as n eqn:Hn. revert q Hn. induction n as [|n IH]; intros q Hn Hv.
    - rewrite ext_full by (cbn [length]; lia). constructor; auto; cbn [sx sy].
      + unfold valid in Hv. rewrite <- Hn in Hv. cbn in Hv.
        apply andb_true_iff in Hv. destruct Hv as [Hx _]. apply N.ltb_lt in Hx. lia.
      + unfold valid in Hv. rewrite <- Hn in Hv. cbn in Hv.
        apply andb_true_iff in Hv. destruct Hv as [_ Hy]. apply N.ltb_lt in Hy. lia.
    - assert (Hpn : pn (parent_pos q) = n) by (apply parent_pos_level; auto).
      rewrite ext_step by (cbn [length]; lia).
      apply chain_cons; cbn [sx sy]; auto; [lia|].
      apply IH; [auto|].
      unfold valid in *. rewrite Hpn, <- Hn in *. unfold parent_pos, parent. rewrite <- Hn.
      cbn [px py].
      apply andb_true_iff in Hv. destruct Hv as [Hx Hy]. apply N.ltb_lt in Hx, Hy.
      replace (N.of_nat (S n)) with (N.succ (N.of_nat n)) in * by lia.
      rewrite N.pow_succ_r' in *.
      apply andb_true_iff. split; apply N.ltb_lt.
      + apply N.div_lt_upper_bound; lia.
      + apply N.div_lt_upper_bound; lia.
  Qed.

  Lemma J_init :
    valid ap = true ->
    exists R, J ap R [mkSlot 0 0 dflt] dflt.
  Proof.
    intros Hv. pose proof (chain_init ap Hv) as Hch.
    destruct (pn ap) as [|n] eqn:Hn.
    - exists []. split; [discriminate|]. split; [cbn [length]; lia|].
      assert (Hx : px ap = 0 /\ py ap = 0).
      { unfold valid in Hv. rewrite Hn in Hv. cbn in Hv. apply andb_true_iff in Hv.
        destruct Hv as [Hx Hy]. apply N.ltb_lt in Hx, Hy. lia. }
      destruct Hx as [Hx Hy].
      rewrite ext_full in * by (cbn [length]; lia). rewrite Hx, Hy. split; [reflexivity|].
      constructor; auto.
    - exists (ext [mkSlot 0 0 dflt] (parent_pos ap)).
      assert (Hpn : pn (parent_pos ap) = n) by (apply parent_pos_level; auto).
      split; [discriminate|]. split; [cbn [length]; lia|].
      rewrite <- ext_step by (cbn [length]; lia). split; [reflexivity|assumption].
  Qed.

  (* the whole iteration over "apex subtree, then positions above the apex" *)
  Lemma run_from_apex k tail :
    valid ap = true -> (k + pn ap = S dep)%nat -> tail_above tail ->
    loop [mkSlot 0 0 dflt] (pwalk k acc ap ++ tail) [] =
    match k with
    | O => ROk [] d
    | S _ => if acc ap then ROk (TL k acc ap) (TR k acc ap) else ROk [] d
    end.
  Proof.
    intros Hv Hk Ht. destruct (J_init Hv) as (R & HJ).
    rewrite (apex_run k _ R tail [] Hk HJ).
    destruct k as [|k']; [apply (tail_run _ _ [] Ht)|].
    destruct (acc ap).
    - rewrite app_nil_r, rev_involutive. reflexivity.
    - apply (tail_run _ _ [] Ht).
  Qed.
End Refine.

(* ---- pointwise-equal filters give equal walks ------------------------------ *)

Lemma pwalk_agree_below k : forall acc1 acc2 p n0,
  (n0 <= pn p)%nat -> (forall q, (n0 <= pn q)%nat -> acc1 q = acc2 q) ->
  pwalk k acc1 p = pwalk k acc2 p.
Proof.
  induction k as [|k IH]; intros acc1 acc2 p n0 Hp Hag; [reflexivity|].
  rewrite !pwalk_S, (Hag p Hp). destruct (acc2 p); [|reflexivity].
  rewrite (IH acc1 acc2 (c0 p) n0), (IH acc1 acc2 (c1 p) n0), (IH acc1 acc2 (c2 p) n0),
    (IH acc1 acc2 (c3 p) n0); auto; cbn [pn c0 c1 c2 c3]; lia.
Qed.

Lemma TR_agree_below {A} (f : pos -> bool -> A*A*A*A -> A) d k : forall acc1 acc2 p n0,
  (n0 <= pn p)%nat -> (forall q, (n0 <= pn q)%nat -> acc1 q = acc2 q) ->
  tree_reduce f d k acc1 p = tree_reduce f d k acc2 p.
Proof.
  induction k as [|k IH]; intros acc1 acc2 p n0 Hp Hag; [reflexivity|].
  cbn [tree_reduce]. rewrite (Hag p Hp). destruct (acc2 p); [|reflexivity].
  rewrite (IH acc1 acc2 (c0 p) n0), (IH acc1 acc2 (c1 p) n0), (IH acc1 acc2 (c2 p) n0),
    (IH acc1 acc2 (c3 p) n0); auto; cbn [pn c0 c1 c2 c3]; lia.
Qed.

Lemma TL_agree_below {A} (f : pos -> bool -> A*A*A*A -> A) d k : forall acc1 acc2 p n0,
  (n0 <= pn p)%nat -> (forall q, (n0 <= pn q)%nat -> acc1 q = acc2 q) ->
  tree_log f d k acc1 p = tree_log f d k acc2 p.
Proof.
  induction k as [|k IH]; intros acc1 acc2 p n0 Hp Hag; [reflexivity|].
  cbn [tree_log]. rewrite (Hag p Hp). destruct (acc2 p); [|reflexivity].
  rewrite (IH acc1 acc2 (c0 p) n0), (IH acc1 acc2 (c1 p) n0), (IH acc1 acc2 (c2 p) n0),
    (IH acc1 acc2 (c3 p) n0); auto; cbn [pn c0 c1 c2 c3]; try lia.
  rewrite (TR_agree_below f d k acc1 acc2 (c0 p) n0), (TR_agree_below f d k acc1 acc2 (c1 p) n0),
    (TR_agree_below f d k acc1 acc2 (c2 p) n0), (TR_agree_below f d k acc1 acc2 (c3 p) n0);
    auto; cbn [pn c0 c1 c2 c3]; lia.
Qed.

Lemma postfix_pwalk k p : postfix k p = pwalk k (fun _ => true) p.
Proof.
  revert p. induction k as [|k IH]; intros p; [reflexivity|].
  cbn [postfix pwalk]. f_equal. rewrite children_c. cbn [flat_map]. rewrite !IH. reflexivity.
Qed.

(* agreement at the root of the walk and strictly below it *)
Lemma pwalk_agree_root k acc1 acc2 p :
  acc1 p = acc2 p -> (forall q, (pn p < pn q)%nat -> acc1 q = acc2 q) ->
  pwalk k acc1 p = pwalk k acc2 p.
Proof.
  intros Hp Hag. destruct k as [|k]; [reflexivity|].
  rewrite !pwalk_S, Hp. destruct (acc2 p); [|reflexivity].
  rewrite (pwalk_agree_below k acc1 acc2 (c0 p) (S (pn p))),
    (pwalk_agree_below k acc1 acc2 (c1 p) (S (pn p))),
    (pwalk_agree_below k acc1 acc2 (c2 p) (S (pn p))),
    (pwalk_agree_below k acc1 acc2 (c3 p) (S (pn p))); auto.
Qed.

Lemma TR_agree_root {A} (f : pos -> bool -> A*A*A*A -> A) d k acc1 acc2 p :
  acc1 p = acc2 p -> (forall q, (pn p < pn q)%nat -> acc1 q = acc2 q) ->
  tree_reduce f d k acc1 p = tree_reduce f d k acc2 p.
Proof.
  intros Hp Hag. destruct k as [|k]; [reflexivity|].
  cbn [tree_reduce]. rewrite Hp. destruct (acc2 p); [|reflexivity].
  rewrite (TR_agree_below f d k acc1 acc2 (c0 p) (S (pn p))),
    (TR_agree_below f d k acc1 acc2 (c1 p) (S (pn p))),
    (TR_agree_below f d k acc1 acc2 (c2 p) (S (pn p))),
    (TR_agree_below f d k acc1 acc2 (c3 p) (S (pn p))); auto.
Qed.

Lemma TL_agree_root {A} (f : pos -> bool -> A*A*A*A -> A) d k acc1 acc2 p :
  acc1 p = acc2 p -> (forall q, (pn p < pn q)%nat -> acc1 q = acc2 q) ->
  tree_log f d k acc1 p = tree_log f d k acc2 p.
Proof.
  intros Hp Hag. destruct k as [|k]; [reflexivity|].
  cbn [tree_log]. rewrite Hp. destruct (acc2 p); [|reflexivity].
  rewrite (TL_agree_below f d k acc1 acc2 (c0 p) (S (pn p))),
    (TL_agree_below f d k acc1 acc2 (c1 p) (S (pn p))),
    (TL_agree_below f d k acc1 acc2 (c2 p) (S (pn p))),
    (TL_agree_below f d k acc1 acc2 (c3 p) (S (pn p))); auto.
  rewrite (TR_agree_below f d k acc1 acc2 (c0 p) (S (pn p))),
    (TR_agree_below f d k acc1 acc2 (c1 p) (S (pn p))),
    (TR_agree_below f d k acc1 acc2 (c2 p) (S (pn p))),
    (TR_agree_below f d k acc1 acc2 (c3 p) (S (pn p))); auto.
Qed.

(* ---- generic sub-pyramid: the shifted enumeration is the apex subtree ------ *)

Lemma shift_c a p :
  shift a (c0 p) = c0 (shift a p) /\ shift a (c1 p) = c1 (shift a p) /\
  shift a (c2 p) = c2 (shift a p) /\ shift a (c3 p) = c3 (shift a p).
Proof.
  destruct a as [na ax ay], p as [n x y]. unfold shift, c0, c1, c2, c3; cbn [pn px py].
  replace (N.of_nat (S n)) with (N.succ (N.of_nat n)) by lia. rewrite N.pow_succ_r'.
  repeat split; f_equal; lia.
Qed.

Lemma shift_postfix a k p :
  map (shift a) (postfix k p) = postfix k (shift a p).
Proof.
  revert p. induction k as [|k IH]; intros p; [reflexivity|].
  cbn [postfix]. rewrite map_app. cbn [map]. f_equal.
  rewrite !children_c. cbn [flat_map]. rewrite !map_app, !IH. cbn [map].
  destruct (shift_c a p) as (-> & -> & -> & ->). reflexivity.
Qed.

Lemma shift_root a : shift a root = a.
Proof.
  destruct a as [na ax ay]. unfold shift, root; cbn [pn px py]. f_equal; cbn; lia.
Qed.

(* ---- ancestors -------------------------------------------------------------- *)

Lemma ancestor_S_out m p : ancestor (S m) p = parent_pos (ancestor m p).
Proof. revert p. induction m as [|m IH]; intros p; [reflexivity|]. cbn [ancestor] in *. apply IH. Qed.

Lemma parent_pos_pn q : pn (parent_pos q) = pred (pn q).
Proof. destruct q as [[|n] x y]; reflexivity. Qed.

Lemma ancestor_pn m p : pn (ancestor m p) = (pn p - m)%nat.
Proof.
  revert p. induction m as [|m IH]; intros p; cbn [ancestor]; [lia|].
  rewrite IH, parent_pos_pn. lia.
Qed.

Lemma ancestors_up_spec k p q :
  In q (ancestors_up k p) -> exists i, (1 <= i <= k)%nat /\ q = ancestor i p.
Proof.
  revert p. induction k as [|k IH]; intros p; cbn [ancestors_up In]; [tauto|].
  intros [<-|H].
  - exists 1%nat. split; [lia|reflexivity].
  - destruct (IH _ H) as (i & Hi & ->). exists (S i). split; [lia|reflexivity].
Qed.

Lemma ancestors_up_tail_above k p :
  (k <= pn p)%nat -> match ancestors_up k p with [] => True | q :: _ => (pn q < pn p)%nat end.
Proof.
  destruct k as [|k]; cbn [ancestors_up]; [tauto|]. intros H. rewrite parent_pos_pn. lia.
Qed.

(* ---- TOAST sub-pyramid: the walk from the root follows the apex's ancestors -- *)

Section Path.
  Variable ap : pos.
  Variable dep : nat.
  Variable u : pos -> bool.

  Definition accp (q : pos) : bool := Nat.eqb (pn q) 0 || (posfilter ap q && u q).

  Fixpoint okm (m : nat) : bool :=
    match m with O => true | S m' => okm m' && accp (ancestor (S m') ap) end.

  Lemma pwalk_rejected k q : accp q = false -> pwalk k accp q = [].
  Proof. intros H. destruct k; [reflexivity|]. rewrite pwalk_S, H. reflexivity. Qed.

  Lemma posfilter_offpath m c :
    (m <= pn ap)%nat -> pn c = (pn ap - m)%nat -> (1 <= pn c)%nat -> c <> ancestor m ap ->
    accp c = false.
  Proof.
    intros Hm Hn H1 Hne. unfold accp, posfilter.
    destruct (Nat.eqb_spec (pn c) 0); [lia|]. cbn [orb].
    destruct (Nat.ltb_spec (pn ap) (pn c)); [lia|].
    destruct (existsb (pos_eqb c) (ap :: ancestors_up (pn ap) ap)) eqn:E; [|reflexivity].
    exfalso. apply existsb_exists in E. destruct E as (q & Hin & Heq).
    apply pos_eqb_eq in Heq. subst q. destruct Hin as [<-|Hin].
    - assert (m = 0%nat) by lia. subst m. apply Hne. reflexivity.
    - destruct (ancestors_up_spec _ _ _ Hin) as (i & Hi & ->).
      rewrite ancestor_pn in Hn. assert (i = m) by lia. subst i. apply Hne. reflexivity.
  Qed.

  Definition head_above (T : list pos) : Prop :=
    match T with [] => True | q :: _ => (pn q < pn ap)%nat end.

  Lemma path_walk m :
    (m <= pn ap)%nat ->
    exists T, head_above T /\
      pwalk (S dep - pn ap + m) accp (ancestor m ap) =
      (if okm m then pwalk (S dep - pn ap) accp ap else []) ++ T.
  Proof.
    induction m as [|m IH]; intros Hm.
    - exists []. split; [exact I|]. cbn [ancestor okm]. rewrite Nat.add_0_r, app_nil_r. reflexivity.
    - destruct (IH ltac:(lia)) as (T & HT & E).
      set (b := ancestor m ap) in *. set (b' := ancestor (S m) ap).
      assert (Hb' : b' = parent_pos b) by apply ancestor_S_out.
      assert (Hbn : pn b = (pn ap - m)%nat) by apply ancestor_pn.
      assert (Hb'n : pn b' = (pn ap - S m)%nat) by apply ancestor_pn.
      replace (S dep - pn ap + S m)%nat with (S (S dep - pn ap + m)) by lia.
      rewrite pwalk_S. cbn [okm]. fold b'.
      destruct (accp b') eqn:Eacc.
      2:{ exists []. split; [exact I|]. rewrite andb_false_r. reflexivity. }
      rewrite andb_true_r.
      assert (Hin : In b (children b')).
      { destruct (parent b) as [[[q ix] iy]|] eqn:Ep.
        - pose proof (child_of_parent _ _ _ _ Ep) as Hc.
          assert (q = parent_pos b) by (unfold parent_pos; rewrite Ep; reflexivity). subst q.
          rewrite Hb'. exact Hc.
        - unfold parent in Ep. destruct (pn b) eqn:En; [lia|discriminate]. }
      assert (Hrej : forall c, In c (children b') -> c <> b -> pwalk (S dep - pn ap + m) accp c = []).
      { intros c Hc Hne. apply pwalk_rejected. apply (posfilter_offpath m); try lia.
        - rewrite (children_level _ _ Hc). lia.
        - rewrite (children_level _ _ Hc). lia.
        - exact Hne. }
      exists (T ++ [b']). split.
      { destruct T as [|q T]; cbn [app head_above] in *; [lia|exact HT]. }
      assert (D01 : c0 b' <> c1 b') by (unfold c0, c1; intros H; injection H; lia).
      assert (D02 : c0 b' <> c2 b') by (unfold c0, c2; intros H; injection H; lia).
      assert (D03 : c0 b' <> c3 b') by (unfold c0, c3; intros H; injection H; lia).
      assert (D12 : c1 b' <> c2 b') by (unfold c1, c2; intros H; injection H; lia).
      assert (D13 : c1 b' <> c3 b') by (unfold c1, c3; intros H; injection H; lia).
      assert (D23 : c2 b' <> c3 b') by (unfold c2, c3; intros H; injection H; lia).
      assert (I0 : In (c0 b') (children b')) by (rewrite children_c; cbn; auto).
      assert (I1 : In (c1 b') (children b')) by (rewrite children_c; cbn; auto).
      assert (I2 : In (c2 b') (children b')) by (rewrite children_c; cbn; auto 6).
      assert (I3 : In (c3 b') (children b')) by (rewrite children_c; cbn; auto 6).
      rewrite children_c in Hin. cbn [In] in Hin.
      destruct Hin as [Hb|[Hb|[Hb|[Hb|[]]]]].
      + rewrite (Hrej (c1 b')), (Hrej (c2 b')), (Hrej (c3 b')) by (auto; congruence).
        rewrite Hb, E. cbn [app]. rewrite <- app_assoc. reflexivity.
      + rewrite (Hrej (c0 b')), (Hrej (c2 b')), (Hrej (c3 b')) by (auto; congruence).
        rewrite Hb, E. cbn [app]. rewrite <- app_assoc. reflexivity.
      + rewrite (Hrej (c0 b')), (Hrej (c1 b')), (Hrej (c3 b')) by (auto; congruence).
        rewrite Hb, E. cbn [app]. rewrite <- app_assoc. reflexivity.
      + rewrite (Hrej (c0 b')), (Hrej (c1 b')), (Hrej (c2 b')) by (auto; congruence).
        rewrite Hb, E. cbn [app]. rewrite <- !app_assoc. reflexivity.
  Qed.
End Path.

(* ---- validity and the root ---------------------------------------------------- *)

Lemma valid_parent q : valid q = true -> valid (parent_pos q) = true.
Proof.
  destruct q as [[|n] x y]; [auto|]. unfold valid, parent_pos, parent; cbn [pn px py].
  intros Hv. apply andb_true_iff in Hv. destruct Hv as [Hx Hy]. apply N.ltb_lt in Hx, Hy.
  replace (N.of_nat (S n)) with (N.succ (N.of_nat n)) in * by lia.
  rewrite N.pow_succ_r' in *.
  apply andb_true_iff. split; apply N.ltb_lt; apply N.div_lt_upper_bound; lia.
Qed.

Lemma valid_level0 q : valid q = true -> pn q = 0%nat -> q = root.
Proof.
  destruct q as [n x y]; cbn [pn]. intros Hv ->. unfold valid in Hv; cbn in Hv.
  apply andb_true_iff in Hv. destruct Hv as [Hx Hy]. apply N.ltb_lt in Hx, Hy.
  unfold root. f_equal; lia.
Qed.

Lemma ancestor_root q : valid q = true -> ancestor (pn q) q = root.
Proof.
  remember (pn q) as n eqn:Hn. revert q Hn. induction n as [|n IH]; intros q Hn Hv.
  - apply valid_level0; auto.
  - cbn [ancestor]. apply IH; [|apply valid_parent; assumption].
    rewrite parent_pos_pn, <- Hn. reflexivity.
Qed.

Lemma ancestors_up_snoc k p :
  ancestors_up (S k) p = ancestors_up k p ++ [ancestor (S k) p].
Proof.
  revert p. induction k as [|k IH]; intros p; [reflexivity|].
  change (ancestors_up (S (S k)) p) with (parent_pos p :: ancestors_up (S k) (parent_pos p)).
  rewrite IH. reflexivity.
Qed.

Lemma ancestor_in_up k p i : (1 <= i <= k)%nat -> In (ancestor i p) (ancestors_up k p).
Proof.
  revert p i. induction k as [|k IH]; intros p i Hi; [lia|].
  destruct i as [|i]; [lia|]. cbn [ancestors_up ancestor].
  destruct i as [|i]; [left; reflexivity|]. right. apply (IH (parent_pos p) (S i)). lia.
Qed.

Lemma posfilter_on_path a q : In q (a :: ancestors_up (pn a) a) -> posfilter a q = true.
Proof.
  intros Hin. unfold posfilter. destruct (Nat.ltb (pn a) (pn q)); [reflexivity|].
  apply existsb_exists. exists q. split; [assumption|apply pos_eqb_refl].
Qed.

Lemma posfilter_below a q : (pn a < pn q)%nat -> posfilter a q = true.
Proof. intros H. unfold posfilter. destruct (Nat.ltb_spec (pn a) (pn q)); [reflexivity|lia]. Qed.

Lemma chain_ok_forallb k u p :
  chain_ok k u p = forallb (fun q => Nat.eqb (pn q) 0 || u q) (ancestors_up k p).
Proof.
  revert p. induction k as [|k IH]; intros p; [reflexivity|].
  cbn [chain_ok ancestors_up forallb]. rewrite IH. reflexivity.
Qed.

Lemma okm_forallb a u m :
  okm a u m = forallb (accp a u) (ancestors_up m a).
Proof.
  induction m as [|m IH]; [reflexivity|].
  rewrite ancestors_up_snoc, forallb_app. cbn [okm forallb]. rewrite IH, andb_true_r. reflexivity.
Qed.

Lemma forallb_ext_in' {T} (g h : T -> bool) l :
  (forall x, In x l -> g x = h x) -> forallb g l = forallb h l.
Proof.
  induction l as [|x l IH]; intros H; [reflexivity|]. cbn [forallb].
  rewrite (H x (or_introl eq_refl)), IH; [reflexivity|]. intros y Hy. apply H. right. exact Hy.
Qed.

Lemma okm_chain_ok a u :
  okm a u (pn a) = chain_ok (pn a) u a.
Proof.
  rewrite okm_forallb, chain_ok_forallb.
  apply forallb_ext_in'. intros q Hin. unfold accp.
  rewrite (posfilter_on_path a q) by (right; exact Hin). reflexivity.
Qed.


(* ---- the main refinement theorem ---------------------------------------------- *)

Definition wf_pyr (P : pyr) : Prop :=
  valid (apex P) = true /\ (pn (apex P) <= depth P)%nat /\ (sub P = false -> apex P = root).

Definition user_of (P : pyr) : pos -> bool :=
  match kd P with ToastFiltered => ufilt P | _ => fun _ => true end.

Section Main.
  Context {A : Type}.
  Variable f : pos -> bool -> (A * A * A * A) -> A.
  Variable d : A.

  Lemma gen_toast_sub P :
    kd P <> Generic -> sub P = true -> valid (apex P) = true ->
    gen_seq P = pwalk (S (depth P)) (accp (apex P) (user_of P)) root.
  Proof.
    intros Hk Hs Hv. unfold gen_seq. destruct (kd P) eqn:Ek; [congruence| |].
    - rewrite pwalk_S. unfold accp at 1. cbn [pn root Nat.eqb orb].
      rewrite children_c. cbn [flat_map]. rewrite app_nil_r, <- !app_assoc.
      unfold eff_filter, user_of. rewrite Ek, Hs.
      rewrite !(pwalk_agree_below (depth P) (posfilter (apex P)) (accp (apex P) (fun _ => true)) _ 1%nat);
        try (cbn [pn c0 c1 c2 c3 root]; lia); try reflexivity.
      all: intros q Hq; unfold accp; destruct (Nat.eqb_spec (pn q) 0); [lia|]; cbn [orb];
        rewrite andb_true_r; reflexivity.
    - rewrite pwalk_S. unfold accp at 1. cbn [pn root Nat.eqb orb].
      rewrite children_c. cbn [flat_map]. rewrite app_nil_r, <- !app_assoc.
      unfold eff_filter, user_of. rewrite Ek, Hs.
      rewrite !(pwalk_agree_below (depth P) (fun p => posfilter (apex P) p && ufilt P p)
                  (accp (apex P) (ufilt P)) _ 1%nat);
        try (cbn [pn c0 c1 c2 c3 root]; lia); try reflexivity.
      all: intros q Hq; unfold accp; destruct (Nat.eqb_spec (pn q) 0); [lia|]; reflexivity.
  Qed.

  Lemma gen_toast_nosub P :
    kd P <> Generic -> sub P = false ->
    gen_seq P = pwalk (S (depth P)) (in_filter P) root.
  Proof.
    intros Hk Hs. unfold gen_seq. destruct (kd P) eqn:Ek; [congruence| |].
    - rewrite pwalk_S. unfold in_filter at 1. rewrite Ek.
      rewrite children_c. cbn [flat_map]. rewrite app_nil_r, <- !app_assoc.
      unfold eff_filter, in_filter. rewrite Ek, Hs. reflexivity.
    - rewrite pwalk_S. unfold in_filter at 1. rewrite Ek. cbn [pn root Nat.eqb orb].
      rewrite children_c. cbn [flat_map]. rewrite app_nil_r, <- !app_assoc.
      unfold eff_filter, in_filter. rewrite Ek, Hs.
      rewrite !(pwalk_agree_below (depth P) (ufilt P) (fun p => Nat.eqb (pn p) 0 || ufilt P p) _ 1%nat);
        try (cbn [pn c0 c1 c2 c3 root]; lia); try reflexivity.
      all: intros q Hq; destruct (Nat.eqb_spec (pn q) 0); [lia|]; reflexivity.
  Qed.

  Lemma accp_in_filter_apex P :
    kd P <> Generic -> accp (apex P) (user_of P) (apex P) = in_filter P (apex P).
  Proof.
    intros Hk. unfold accp, in_filter, user_of.
    rewrite (posfilter_on_path (apex P) (apex P)) by (left; reflexivity).
    destruct (kd P); [congruence| |]; cbn [andb]; [|reflexivity].
    apply orb_true_r.
  Qed.

  Lemma accp_in_filter_below P q :
    kd P <> Generic -> (pn (apex P) < pn q)%nat -> accp (apex P) (user_of P) q = in_filter P q.
  Proof.
    intros Hk Hq. unfold accp, in_filter, user_of. rewrite posfilter_below by assumption.
    destruct (kd P); [congruence| |]; cbn [andb]; [|reflexivity].
    apply orb_true_r.
  Qed.

  Theorem riter_refines P :
    wf_pyr P ->
    riter_run f d P =
    if apex_reachable P
    then ROk (tree_log f d (sub_levels P) (in_filter P) (apex P))
             (tree_reduce f d (sub_levels P) (in_filter P) (apex P))
    else ROk [] d.
  Proof.
    intros (Hv & Hle & Hroot). unfold riter_run.
    assert (Hsl : (sub_levels P + pn (apex P) = S (depth P))%nat) by (unfold sub_levels; lia).
    destruct (kd P) eqn:Ek.
    - (* generic *)
      assert (Hr : apex_reachable P = true) by (unfold apex_reachable; rewrite Ek; reflexivity).
      assert (Hin : in_filter P = fun _ => true) by (unfold in_filter; rewrite Ek; reflexivity).
      rewrite Hr, Hin. unfold gen_seq. rewrite Ek.
      destruct (pn (apex P)) as [|na'] eqn:Ena; rewrite <- Ena in Hsl.
      + assert (Hap : apex P = root) by (apply valid_level0; assumption).
        unfold generate_pos. rewrite postfix_pwalk.
        rewrite <- (app_nil_r (pwalk _ _ _)).
        replace (S (depth P)) with (sub_levels P) by (unfold sub_levels; lia).
        rewrite <- Hap at 1.
        rewrite (run_from_apex f d (depth P) (apex P) (fun _ => true) (sub_levels P) [] Hv Hsl I).
        unfold sub_levels. rewrite Ena. reflexivity.
      + unfold generate_pos. rewrite shift_postfix, shift_root, postfix_pwalk.
        replace (S (depth P - S na')) with (sub_levels P) by (unfold sub_levels; lia).
        rewrite <- Ena.
        rewrite (run_from_apex f d (depth P) (apex P) (fun _ => true) (sub_levels P) _ Hv Hsl).
        * unfold sub_levels. rewrite Ena. replace (S (depth P) - S na')%nat with (S (depth P - S na')) by lia.
          reflexivity.
        * pose proof (ancestors_up_tail_above (pn (apex P)) (apex P) ltac:(lia)) as H.
          unfold tail_above. destruct (ancestors_up (pn (apex P)) (apex P)); auto.
    - (* toast *)
      destruct (sub P) eqn:Es.
      + rewrite (gen_toast_sub P) by (congruence || assumption).
        destruct (path_walk (apex P) (depth P) (user_of P) (pn (apex P)) (le_n _)) as (T & HT & E).
        rewrite (ancestor_root _ Hv) in E.
        replace (S (depth P) - pn (apex P) + pn (apex P))%nat with (S (depth P)) in E by lia.
        rewrite E, okm_chain_ok.
        assert (Hr : apex_reachable P = true) by (unfold apex_reachable; rewrite Ek; reflexivity).
        assert (Hc : chain_ok (pn (apex P)) (user_of P) (apex P) = true).
        { rewrite chain_ok_forallb. apply forallb_forall. intros q _. unfold user_of. rewrite Ek.
          apply orb_true_r. }
        rewrite Hr, Hc.
        change (S (depth P) - pn (apex P))%nat with (sub_levels P).
        rewrite (run_from_apex f d (depth P) (apex P) _ (sub_levels P) T Hv Hsl).
        2:{ unfold tail_above, head_above in *. exact HT. }
        assert (Hk : kd P <> Generic) by congruence.
        rewrite (TL_agree_root f d _ _ (in_filter P) (apex P) (accp_in_filter_apex P Hk)
                   (fun q Hq => accp_in_filter_below P q Hk Hq)).
        rewrite (TR_agree_root f d _ _ (in_filter P) (apex P) (accp_in_filter_apex P Hk)
                   (fun q Hq => accp_in_filter_below P q Hk Hq)).
        rewrite (accp_in_filter_apex P Hk).
        unfold sub_levels. replace (S (depth P) - pn (apex P))%nat with (S (depth P - pn (apex P))) by lia.
        assert (Hif : in_filter P (apex P) = true) by (unfold in_filter; rewrite Ek; reflexivity).
        rewrite Hif. reflexivity.
      + rewrite (gen_toast_nosub P) by (congruence || assumption).
        assert (Hap : apex P = root) by (apply Hroot; reflexivity).
        assert (Hr : apex_reachable P = true) by (unfold apex_reachable; rewrite Ek; reflexivity).
        rewrite Hr. rewrite <- (app_nil_r (pwalk _ _ _)).
        assert (Hs1 : S (depth P) = sub_levels P) by (unfold sub_levels; rewrite Hap; cbn [pn root]; lia).
        rewrite Hs1, <- Hap.
        rewrite (run_from_apex f d (depth P) (apex P) (in_filter P) (sub_levels P) [] Hv Hsl I).
        assert (Hif : in_filter P (apex P) = true) by (unfold in_filter; rewrite Ek; reflexivity).
        rewrite Hif. unfold sub_levels. replace (S (depth P) - pn (apex P))%nat with (S (depth P - pn (apex P))) by lia.
        reflexivity.
    - (* toast filtered *)
      destruct (sub P) eqn:Es.
      + rewrite (gen_toast_sub P) by (congruence || assumption).
        destruct (path_walk (apex P) (depth P) (user_of P) (pn (apex P)) (le_n _)) as (T & HT & E).
        rewrite (ancestor_root _ Hv) in E.
        replace (S (depth P) - pn (apex P) + pn (apex P))%nat with (S (depth P)) in E by lia.
        rewrite E, okm_chain_ok.
        assert (Hr : apex_reachable P = chain_ok (pn (apex P)) (user_of P) (apex P)).
        { unfold apex_reachable, user_of. rewrite Ek. reflexivity. }
        rewrite Hr.
        destruct (chain_ok (pn (apex P)) (user_of P) (apex P)).
        * change (S (depth P) - pn (apex P))%nat with (sub_levels P).
          rewrite (run_from_apex f d (depth P) (apex P) _ (sub_levels P) T Hv Hsl).
          2:{ unfold tail_above, head_above in *. exact HT. }
          assert (Hk : kd P <> Generic) by congruence.
          rewrite (TL_agree_root f d _ _ (in_filter P) (apex P) (accp_in_filter_apex P Hk)
                     (fun q Hq => accp_in_filter_below P q Hk Hq)).
          rewrite (TR_agree_root f d _ _ (in_filter P) (apex P) (accp_in_filter_apex P Hk)
                     (fun q Hq => accp_in_filter_below P q Hk Hq)).
          rewrite (accp_in_filter_apex P Hk).
          unfold sub_levels. replace (S (depth P) - pn (apex P))%nat with (S (depth P - pn (apex P))) by lia.
          cbn [tree_log tree_reduce].
          destruct (in_filter P (apex P)); reflexivity.
        * cbn [app]. apply (tail_run f d (depth P) (apex P) (fun _ => true) _ T []).
          unfold tail_above, head_above in *. exact HT.
      + rewrite (gen_toast_nosub P) by (congruence || assumption).
        assert (Hap : apex P = root) by (apply Hroot; reflexivity).
        assert (Hr : apex_reachable P = true).
        { unfold apex_reachable. rewrite Ek, Hap. reflexivity. }
        rewrite Hr. rewrite <- (app_nil_r (pwalk _ _ _)).
        assert (Hs1 : S (depth P) = sub_levels P) by (unfold sub_levels; rewrite Hap; cbn [pn root]; lia).
        rewrite Hs1, <- Hap.
        rewrite (run_from_apex f d (depth P) (apex P) (in_filter P) (sub_levels P) [] Hv Hsl I).
        assert (Hif : in_filter P (apex P) = true).
        { unfold in_filter; rewrite Ek, Hap. reflexivity. }
        rewrite Hif. unfold sub_levels. replace (S (depth P) - pn (apex P))%nat with (S (depth P - pn (apex P))) by lia.
        reflexivity.
  Qed.
End Main.
