(* Proofs about Model/Collection.v (property C20) *)
From Coq Require Import List ZArith NArith Bool Ascii Decimal Lia.
From Coq Require DecimalPos.
Ltac Zify.zify_post_hook ::= Z.to_euclidean_division_equations.
From Toasty Require Import Model.Collection.
Import ListNotations.
Local Open Scope Z_scope.

(* ------------------------------------------------------------------------ *)
(* The reading of the property statement the theorems are stated against.    *)

(* what the file at position k contributes when its HDU [i] is read with WCS
   key [kc] (kc is an error when the per-file key list has no entry for k) *)
Definition contribution (wd : bool) (k : nat) (f : fitsfile) (i : Z) (kc : res str) : res item :=
  match py_index f i with
  | None => Err EIndex
  | Some h =>
      if is_bintable h then Err ENoImage
      else match kc with
           | Err e => Err e
           | Ok c => match load_item wd h c with
                     | Ok (sh, t) => Ok (mkItem k i (h_uid h) sh t)
                     | Err e => Err e
                     end
           end
  end.

(* "a single index applies to every file, a list supplies the index for the
   file at the same list position"; None = no selection *)
Definition index_for (hs : hdu_sel) (k : nat) : option (res Z) :=
  match hs with
  | HNone => None
  | HScalar i => Some (Ok i)
  | HList l => Some (match nth_error l k with Some i => Ok i | None => Err EIndex end)
  end.

Definition key_for (ws : wcs_sel) (k : nat) : res str :=
  match ws with
  | WNone => Ok blank_key
  | WScalar c => Ok c
  | WList l => match nth_error l k with Some c => Ok c | None => Err EIndex end
  end.

(* "the first HDU holding image data": an image-like HDU with at least two axes *)
Definition holds_image (h : hdu) : Prop := h_kind h = KImage /\ (2 <= length (h_shape h))%nat.

Lemma loop_cond_meaning h : loop_cond h = true <-> holds_image h.
Proof.
  unfold loop_cond, holds_image, has_shape, is_bintable.
  destruct (h_kind h); cbn [andb negb]; rewrite ?andb_true_r, ?andb_false_r.
  - rewrite Nat.ltb_lt. split; [intros; split; [reflexivity|lia] | intros [_ H]; lia].
  - split; [discriminate | intros [H _]; discriminate].
  - split; [discriminate | intros [H _]; discriminate].
Qed.

Definition first_image_at (f : fitsfile) (j : nat) (h : hdu) : Prop :=
  nth_error f j = Some h /\ holds_image h /\
  forall j' h', (j' < j)%nat -> nth_error f j' = Some h' -> ~ holds_image h'.

(* ------------------------------------------------------------------------ *)
(* run_files *)

Lemma run_files_ext {A} (s1 s2 : nat -> fitsfile -> res A) files k :
  (forall j f, nth_error files j = Some f -> s1 (k + j)%nat f = s2 (k + j)%nat f) ->
  run_files s1 k files = run_files s2 k files.
Proof.
  revert k. induction files as [|f fs IH]; intros k H; [reflexivity|].
  cbn [run_files]. pose proof (H 0%nat f eq_refl) as H0. rewrite Nat.add_0_r in H0. rewrite H0.
  destruct (s2 k f); [|reflexivity].
  rewrite (IH (S k)); [reflexivity|].
  intros j g Hj. specialize (H (S j) g Hj). rewrite Nat.add_succ_r in H. exact H.
Qed.

Lemma run_files_ok {A} (step : nat -> fitsfile -> res A) files k items :
  run_files step k files = (items, None) <->
  (length items = length files /\
   forall j f, nth_error files j = Some f ->
     exists a, step (k + j)%nat f = Ok a /\ nth_error items j = Some a).
Proof.
  revert k items. induction files as [|f fs IH]; intros k items; cbn [run_files].
  - split.
    + intros H; injection H as <-. split; [reflexivity|]. intros [|j] g; discriminate.
    + intros [Hl _]. destruct items; [reflexivity|discriminate].
  - destruct (step k f) as [a|e] eqn:Hs.
    + split.
      * intros H. injection H as <- He.
        assert (Hr : run_files step (S k) fs = (fst (run_files step (S k) fs), None))
          by (rewrite <- He; destruct (run_files step (S k) fs); reflexivity).
        apply IH in Hr. destruct Hr as [Hl Hr]. split; [cbn [length]; lia|].
        intros [|j] g Hg; cbn [nth_error] in *.
        -- injection Hg as <-. exists a. rewrite Nat.add_0_r. auto.
        -- destruct (Hr j g Hg) as [b [Hb1 Hb2]]. exists b.
           rewrite Nat.add_succ_r. auto.
      * intros [Hl Hr]. destruct items as [|a' items']; [discriminate|].
        destruct (Hr 0%nat f eq_refl) as [b [Hb1 Hb2]]. rewrite Nat.add_0_r in Hb1.
        rewrite Hs in Hb1. injection Hb1 as <-. cbn [nth_error] in Hb2. injection Hb2 as <-.
        assert (Hrec : run_files step (S k) fs = (items', None)).
        { apply IH. split; [cbn [length] in Hl; lia|].
          intros j g Hg. destruct (Hr (S j) g Hg) as [b [Hb1 Hb2]].
          exists b. rewrite Nat.add_succ_r in Hb1. auto. }
        rewrite Hrec. reflexivity.
    + split; [discriminate|].
      intros [_ Hr]. destruct (Hr 0%nat f eq_refl) as [b [Hb1 _]].
      rewrite Nat.add_0_r, Hs in Hb1. discriminate.
Qed.

(* the failing file: everything before it was yielded *)
Lemma run_files_err {A} (step : nat -> fitsfile -> res A) files k items e :
  run_files step k files = (items, Some e) ->
  exists f, nth_error files (length items) = Some f /\ step (k + length items)%nat f = Err e /\
    forall j g, (j < length items)%nat -> nth_error files j = Some g ->
      exists a, step (k + j)%nat g = Ok a /\ nth_error items j = Some a.
Proof.
  revert k items. induction files as [|f fs IH]; intros k items; cbn [run_files]; [discriminate|].
  destruct (step k f) as [a|e'] eqn:Hs.
  - intros H. injection H as <- He.
    assert (Hr : run_files step (S k) fs = (fst (run_files step (S k) fs), Some e))
      by (rewrite <- He; destruct (run_files step (S k) fs); reflexivity).
    apply IH in Hr. destruct Hr as [g [Hg [Hge Hpre]]].
    exists g. cbn [length nth_error]. rewrite Nat.add_succ_r. repeat split; auto.
    intros [|j] g' Hj Hg'; cbn [nth_error] in *.
    + injection Hg' as <-. exists a. rewrite Nat.add_0_r. auto.
    + destruct (Hpre j g' ltac:(lia) Hg') as [b [Hb1 Hb2]]. exists b. rewrite Nat.add_succ_r. auto.
  - intros H. injection H as <- <-. exists f. cbn [length nth_error]. rewrite Nat.add_0_r.
    repeat split; auto. intros j g Hj; lia.
Qed.

(* two generators whose steps agree as long as the first succeeds *)
Lemma run_files_prefix {A} (s1 s2 : nat -> fitsfile -> res A) files k :
  (forall j f a, nth_error files j = Some f -> s1 (k + j)%nat f = Ok a -> s2 (k + j)%nat f = Ok a) ->
  exists more, fst (run_files s2 k files) = fst (run_files s1 k files) ++ more /\
               (snd (run_files s1 k files) = None -> more = [] /\ snd (run_files s2 k files) = None).
Proof.
  revert k. induction files as [|f fs IH]; intros k H; cbn [run_files].
  - exists []. cbn. auto.
  - destruct (s1 k f) as [a|e] eqn:H1.
    + pose proof (H 0%nat f a eq_refl) as H2. rewrite Nat.add_0_r in H2. rewrite (H2 H1).
      destruct (IH (S k)) as [more [Hm1 Hm2]].
      { intros j g b Hg. specialize (H (S j) g b Hg). rewrite Nat.add_succ_r in H. exact H. }
      exists more. cbn [fst snd]. rewrite Hm1. auto.
    + exists (fst (match s2 k f with Err e0 => ([], Some e0)
                   | Ok a => (a :: fst (run_files s2 (S k) fs), snd (run_files s2 (S k) fs)) end)).
      cbn [fst snd List.app]. split; [reflexivity|discriminate].
Qed.

(* ------------------------------------------------------------------------ *)
(* the default: first HDU holding image data *)

Lemma scan_loop_first f : forall i last j h,
  first_image_at f j h -> scan_loop i f last = Some ((i + j)%nat, h).
Proof.
  induction f as [|g f IH]; intros i last j h [Hn [Hh Hbefore]].
  - destruct j; discriminate.
  - cbn [scan_loop]. destruct j as [|j]; cbn [nth_error] in Hn.
    + injection Hn as ->. apply loop_cond_meaning in Hh. rewrite Hh, Nat.add_0_r. reflexivity.
    + destruct (loop_cond g) eqn:Hg.
      * exfalso. apply (Hbefore 0%nat g); [lia|reflexivity|]. apply loop_cond_meaning; exact Hg.
      * rewrite (IH (S i) (Some (i, g)) j h); [f_equal; f_equal; lia|].
        split; [exact Hn|]. split; [exact Hh|].
        intros j' h' Hj' Hn'. apply (Hbefore (S j') h'); [lia|exact Hn'].
Qed.

Lemma scan_loop_none f : forall i last,
  (forall h, In h f -> ~ holds_image h) ->
  scan_loop i f last =
    match f with [] => last | _ => Some ((i + length f - 1)%nat, List.last f (mkHdu KImage [] [] 0)) end.
Proof.
  induction f as [|g f IH]; intros i last Hno; [reflexivity|].
  cbn [scan_loop]. destruct (loop_cond g) eqn:Hg.
  - exfalso. apply (Hno g); [left; reflexivity|]. apply loop_cond_meaning; exact Hg.
  - rewrite IH by (intros h Hh; apply Hno; right; exact Hh).
    destruct f as [|g' f]; cbn [length List.last].
    + f_equal. f_equal. lia.
    + f_equal. f_equal. lia.
Qed.

(* conversely whatever the loop returns is the first image HDU or, when there
   is none, the last HDU *)
Lemma first_image_dec f :
  (exists j h, first_image_at f j h) \/ (forall h, In h f -> ~ holds_image h).
Proof.
  induction f as [|g f IH]; [right; intros h []|].
  destruct (loop_cond g) eqn:Hg.
  - left. exists 0%nat, g. split; [reflexivity|]. split; [apply loop_cond_meaning; exact Hg|].
    intros j' h' Hj'; lia.
  - assert (Hng : ~ holds_image g) by (intros H; apply loop_cond_meaning in H; congruence).
    destruct IH as [[j [h [Hn [Hh Hb]]]]|Hno].
    + left. exists (S j), h. split; [exact Hn|]. split; [exact Hh|].
      intros [|j'] h' Hj' Hn'; cbn [nth_error] in Hn'.
      * injection Hn' as <-. exact Hng.
      * apply (Hb j' h'); [lia|exact Hn'].
    + right. intros h [<-|Hh]; [exact Hng|apply Hno; exact Hh].
Qed.

Lemma default_is_first_image v k f j h :
  first_image_at f j h -> select_hdu v HNone k f = Ok (Z.of_nat j, h).
Proof.
  intros H. unfold select_hdu. rewrite (scan_loop_first f 0%nat None j h H). reflexivity.
Qed.

Lemma default_without_image v k f :
  f <> [] -> (forall h, In h f -> ~ holds_image h) ->
  select_hdu v HNone k f = Ok (Z.of_nat (length f - 1), List.last f (mkHdu KImage [] [] 0)).
Proof.
  intros Hne Hno. unfold select_hdu. rewrite (scan_loop_none f 0%nat None Hno).
  destruct f; [congruence|]. reflexivity.
Qed.

Lemma default_empty v k : select_hdu v HNone k [] = Err EUnbound.
Proof. reflexivity. Qed.

(* ------------------------------------------------------------------------ *)
(* the explicit selections *)

Lemma select_key_is_key_for ws k : select_key ws k = key_for ws k.
Proof. destruct ws; reflexivity. Qed.

(* one file, explicit selection: the model of the repaired code (and of the
   code as found, for the scalar form) reads exactly the selected HDU and key *)
Lemma load_step_explicit wd v hs ws k f ri :
  index_for hs k = Some ri ->
  (v = false \/ exists i, hs = HScalar i) ->
  load_step wd v hs ws k f =
    match ri with
    | Err e => Err e
    | Ok i => contribution wd k f i (key_for ws k)
    end.
Proof.
  intros Hi Hv. unfold load_step, scan_one, contribution. rewrite select_key_is_key_for.
  destruct hs as [|i|l]; cbn [index_for] in Hi; [discriminate| |].
  - injection Hi as <-. unfold select_hdu, hdul_getitem.
    destruct (py_index f i) as [h|]; [|reflexivity].
    destruct (is_bintable h); [reflexivity|].
    destruct (key_for ws k); [|reflexivity].
    destruct (load_item wd h a) as [[sh t]|]; reflexivity.
  - injection Hi as <-. destruct Hv as [->|[i Hc]]; [|discriminate].
    unfold select_hdu, hdul_getitem. destruct (nth_error l k) as [i|]; [|reflexivity].
    destruct (py_index f i) as [h|]; [|reflexivity].
    destruct (is_bintable h); [reflexivity|].
    destruct (key_for ws k); [|reflexivity].
    destruct (load_item wd h a) as [[sh t]|]; reflexivity.
Qed.

Lemma load_step_default wd v ws k f j h :
  first_image_at f j h ->
  load_step wd v HNone ws k f = contribution wd k f (Z.of_nat j) (key_for ws k).
Proof.
  intros H. unfold load_step, scan_one. rewrite (default_is_first_image v k f j h H).
  unfold contribution. rewrite select_key_is_key_for.
  destruct H as [Hn [Hh _]].
  assert (Hp : py_index f (Z.of_nat j) = Some h).
  { unfold py_index. assert (j < length f)%nat by (apply nth_error_Some; congruence).
    destruct (Z.of_nat j <? 0) eqn:E1; [lia|].
    destruct ((Z.of_nat j <? 0) || (Z.of_nat (length f) <=? Z.of_nat j)) eqn:E2.
    - apply orb_true_iff in E2. destruct E2; lia.
    - rewrite Nat2Z.id. exact Hn. }
  rewrite Hp. destruct (is_bintable h); [reflexivity|].
  destruct (key_for ws k); [|reflexivity].
  destruct (load_item wd h a) as [[sh t]|]; reflexivity.
Qed.

(* collection level *)
Definition spec_step (wd : bool) (hs : hdu_sel) (ws : wcs_sel) (k : nat) (f : fitsfile) : res item :=
  match index_for hs k with
  | Some (Ok i) => contribution wd k f i (key_for ws k)
  | Some (Err e) => Err e
  | None => load_step wd false HNone ws k f
  end.

Lemma load_coll_spec wd v hs ws files :
  (v = false \/ (forall l, hs <> HList l)) ->
  load_coll wd v hs ws files = run_files (spec_step wd hs ws) 0 files.
Proof.
  intros Hv. unfold load_coll. apply run_files_ext. intros j f _. cbn [Nat.add].
  unfold spec_step. destruct (index_for hs j) as [ri|] eqn:Hi.
  - rewrite (load_step_explicit wd v hs ws j f ri Hi).
    + destruct ri; reflexivity.
    + destruct Hv as [->|Hv]; [left; reflexivity|]. destruct hs as [|i|l].
      * discriminate.
      * right; exists i; reflexivity.
      * exfalso; apply (Hv l); reflexivity.
  - destruct hs; try discriminate. unfold load_step, scan_one, select_hdu. reflexivity.
Qed.

Lemma scalar_all wd v i c files :
  load_coll wd v (HScalar i) (WScalar c) files =
  run_files (fun k f => contribution wd k f i (Ok c)) 0 files.
Proof.
  rewrite load_coll_spec by (right; intros l; discriminate). reflexivity.
Qed.

Lemma list_positional wd l cs files :
  load_coll wd false (HList l) (WList cs) files =
  run_files (fun k f =>
    match nth_error l k with
    | None => Err EIndex
    | Some i => contribution wd k f i
                  (match nth_error cs k with Some c => Ok c | None => Err EIndex end)
    end) 0 files.
Proof.
  rewrite load_coll_spec by (left; reflexivity).
  apply run_files_ext. intros j f _. cbn [Nat.add]. unfold spec_step; cbn [index_for key_for].
  destruct (nth_error l j); reflexivity.
Qed.

(* success, read per file *)
Lemma load_coll_per_file wd hs ws files items :
  load_coll wd false hs ws files = (items, None) <->
  (length items = length files /\
   forall k f, nth_error files k = Some f ->
     exists it, nth_error items k = Some it /\ spec_step wd hs ws k f = Ok it).
Proof.
  rewrite load_coll_spec by (left; reflexivity). rewrite run_files_ok.
  split; intros [Hl H]; (split; [exact Hl|]); intros k f Hk;
    destruct (H k f Hk) as [a [H1 H2]]; exists a; cbn [Nat.add] in *; auto.
Qed.

(* ------------------------------------------------------------------------ *)
(* the code as found: a per-file HDU list never loads *)

Lemma old_list_never_loads wd l ws f files :
  snd (load_coll wd true (HList l) ws (f :: files)) <> None.
Proof.
  unfold load_coll; cbn [run_files]. unfold load_step, scan_one, select_hdu.
  destruct (nth_error l 0); cbn [snd]; discriminate.
Qed.

Definition wit_img (uid tag : Z) (sh : list N) : hdu := mkHdu KImage sh [(" "%char, tag)] uid.
Definition wit_files : list fitsfile :=
  [ [mkHdu KImage [] [] 100; wit_img 101 11 [3; 4]%N];
    [wit_img 200 20 [2; 3]%N; wit_img 201 21 [5; 6]%N; wit_img 202 22 [7; 8]%N] ].

Lemma list_positional_refuted :
  exists files l ws items,
    run_files (spec_step false (HList l) ws) 0 files = (items, None) /\
    length items = length files /\
    descriptions true (HList l) ws files = ([], Some EKey).
Proof.
  exists wit_files, [1; 2], (WScalar blank_key).
  eexists. split; [vm_compute; reflexivity|]. split; reflexivity.
Qed.

(* ------------------------------------------------------------------------ *)
(* descriptions / images / export_simple agree *)

Lemma load_item_data_desc h c sh t :
  load_item true h c = Ok (sh, t) -> load_item false h c = Ok (sh, t).
Proof.
  unfold load_item. destruct (wcs_lookup h c); [|discriminate].
  destruct (negb (has_shape h)); [discriminate|].
  destruct (h_shape h) as [|x1 [|x2 [|x3 r]]]; try discriminate; auto.
Qed.

Lemma load_step_data_desc v hs ws k f it :
  load_step true v hs ws k f = Ok it -> load_step false v hs ws k f = Ok it.
Proof.
  unfold load_step. destruct (scan_one v hs ws k f) as [[[i h] c]|]; [|discriminate].
  destruct (load_item true h c) as [[sh t]|] eqn:E; [|discriminate].
  rewrite (load_item_data_desc h c sh t E). auto.
Qed.

(* everything images() yields, descriptions() yields too, identically and in
   the same order; when images() completes so does descriptions() *)
Lemma images_prefix_of_descriptions v hs ws files :
  exists more,
    fst (descriptions v hs ws files) = fst (images v hs ws files) ++ more /\
    (snd (images v hs ws files) = None -> more = [] /\ snd (descriptions v hs ws files) = None).
Proof.
  unfold descriptions, images, load_coll. apply run_files_prefix.
  intros j f a _. apply load_step_data_desc.
Qed.

Lemma images_ok_descriptions_same v hs ws files items :
  images v hs ws files = (items, None) -> descriptions v hs ws files = (items, None).
Proof.
  intros H. destruct (images_prefix_of_descriptions v hs ws files) as [more [H1 H2]].
  rewrite H in H1, H2. cbn [fst snd] in *. destruct (H2 eq_refl) as [-> H3].
  rewrite app_nil_r in H1. destruct (descriptions v hs ws files); cbn [fst snd] in *; subst; reflexivity.
Qed.

(* the only way descriptions() completes and images() does not: a selected HDU
   that holds no data *)
Lemma descriptions_ok_images_fail v hs ws files ditems iitems e :
  descriptions v hs ws files = (ditems, None) ->
  images v hs ws files = (iitems, Some e) ->
  e = ENoData /\
  exists f i h c, nth_error files (length iitems) = Some f /\
    scan_one v hs ws (length iitems) f = Ok (i, h, c) /\ h_shape h = [].
Proof.
  unfold descriptions, images, load_coll. intros Hd Hi.
  apply run_files_err in Hi. destruct Hi as [f [Hf [He _]]].
  apply run_files_ok in Hd. destruct Hd as [_ Hd]. destruct (Hd _ f Hf) as [a [Ha _]].
  cbn [Nat.add] in *. unfold load_step in *.
  destruct (scan_one v hs ws (length iitems) f) as [[[i h] c]|] eqn:Hsc; [|discriminate].
  unfold load_item in *. destruct (wcs_lookup h c); [|discriminate].
  destruct (negb (has_shape h)); [discriminate|].
  destruct (h_shape h) as [|x [|y [|z r]]] eqn:Hs; try discriminate.
  injection He as <-. split; [reflexivity|]. exists f, i, h, c. auto.
Qed.

Lemma export_matches_descriptions v hs ws files items :
  descriptions v hs ws files = (items, None) ->
  export_simple v hs ws files = (map (fun it => (it_file it, it_index it)) items, None).
Proof.
  unfold descriptions, load_coll, export_simple. rewrite !run_files_ok.
  intros [Hl H]. split; [rewrite map_length; exact Hl|].
  intros j f Hf. destruct (H j f Hf) as [a [H1 H2]].
  exists (it_file a, it_index a). split.
  - cbn [Nat.add] in *. unfold export_step, load_step in *.
    destruct (scan_one v hs ws j f) as [[[i h] c]|]; [|discriminate].
    destruct (load_item false h c) as [[sh t]|]; [|discriminate].
    injection H1 as <-. reflexivity.
  - rewrite nth_error_map, H2. reflexivity.
Qed.

(* items come out in input order *)
Lemma items_in_input_order wd v hs ws files items e k it :
  load_coll wd v hs ws files = (items, e) -> nth_error items k = Some it -> it_file it = k.
Proof.
  unfold load_coll. intros H Hk.
  assert (G : forall files k0 items e, run_files (load_step wd v hs ws) k0 files = (items, e) ->
              forall k it, nth_error items k = Some it -> it_file it = (k0 + k)%nat).
  { clear. induction files as [|f fs IH]; intros k0 items e H k it Hk; cbn [run_files] in H.
    - injection H as <- _. destruct k; discriminate.
    - destruct (load_step wd v hs ws k0 f) as [a|e'] eqn:Hs.
      + injection H as <- He. destruct k as [|k]; cbn [nth_error] in Hk.
        * injection Hk as <-. unfold load_step in Hs.
          destruct (scan_one v hs ws k0 f) as [[[i h] c]|]; [|discriminate].
          destruct (load_item wd h c) as [[sh t]|]; [|discriminate].
          injection Hs as <-. cbn. lia.
        * rewrite Nat.add_succ_r.
          apply (IH (S k0) (fst (run_files (load_step wd v hs ws) (S k0) fs))
                    (snd (run_files (load_step wd v hs ws) (S k0) fs))); [|exact Hk].
          destruct (run_files (load_step wd v hs ws) (S k0) fs); reflexivity.
      + injection H as <- _. destruct k; discriminate. }
  rewrite (G files 0%nat items e H k it Hk). reflexivity.
Qed.

(* ------------------------------------------------------------------------ *)
(* command-line text *)

Definition nonspace (c : ascii) : Prop := is_space c = false.

Lemma lstrip_id l : (match l with c :: _ => nonspace c | [] => True end) -> lstrip l = l.
Proof. destruct l as [|c l]; [reflexivity|]. cbn [lstrip]. intros ->. reflexivity. Qed.

Lemma strip_id l : Forall nonspace l -> strip l = l.
Proof.
  intros H. unfold strip.
  rewrite (lstrip_id l) by (destruct H; auto).
  rewrite lstrip_id; [apply rev_involutive|].
  assert (Hr : Forall nonspace (List.rev l)) by (apply Forall_rev; exact H).
  destruct Hr; auto.
Qed.

Definition is_digit (c : ascii) : Prop := digit_char c <> None.

Lemma uint_chars_digits u : Forall is_digit (uint_chars u).
Proof. induction u; cbn [uint_chars]; constructor; auto; unfold is_digit; cbn; discriminate. Qed.

Lemma digit_nonspace c : is_digit c -> nonspace c.
Proof.
  unfold is_digit, nonspace.
  destruct c as [[] [] [] [] [] [] [] []]; cbn; intros H; try reflexivity; congruence.
Qed.

Lemma parse_uint_chars u b : (u <> Nil \/ b = true) -> parse_digits (uint_chars u) b = Some u.
Proof.
  revert b. induction u; intros b Hb; cbn [uint_chars parse_digits digit_char];
    try (rewrite IHu by (right; reflexivity); reflexivity).
  destruct Hb as [Hb| ->]; [congruence|reflexivity].
Qed.

Lemma dec_Z_nonspace z : Forall nonspace (dec_Z z).
Proof.
  destruct z; cbn [dec_Z].
  - constructor; [reflexivity|constructor].
  - eapply Forall_impl; [apply digit_nonspace|apply uint_chars_digits].
  - constructor; [reflexivity|]. eapply Forall_impl; [apply digit_nonspace|apply uint_chars_digits].
Qed.

Lemma uint_chars_head_digit p :
  match uint_chars (Pos.to_uint p) with c :: _ => is_digit c | [] => False end.
Proof.
  pose proof (DecimalPos.Unsigned.to_uint_nonnil p) as H.
  pose proof (uint_chars_digits (Pos.to_uint p)) as Hd.
  destruct (Pos.to_uint p); [congruence| | | | | | | | | |]; cbn [uint_chars] in *; inversion Hd; auto.
Qed.

Lemma py_int_dec z : py_int (dec_Z z) = Some z.
Proof.
  unfold py_int. rewrite strip_id by apply dec_Z_nonspace.
  destruct z as [|p|p]; cbn [dec_Z].
  - reflexivity.
  - pose proof (uint_chars_head_digit p) as Hh.
    pose proof (parse_uint_chars (Pos.to_uint p) false
                  (or_introl (DecimalPos.Unsigned.to_uint_nonnil p))) as Hp.
    destruct (uint_chars (Pos.to_uint p)) as [|c r] eqn:E; [contradiction|].
    assert (Hc : c <> "-"%char /\ c <> "+"%char).
    { split; intros ->; apply Hh; reflexivity. }
    destruct Hc as [Hm Hpl].
    assert (G : forall (X : Type) (a b d : X),
               match c with "-"%char => a | "+"%char => b | _ => d end = d).
    { intros. destruct c as [[] [] [] [] [] [] [] []]; try reflexivity; congruence. }
    transitivity (option_map uint_Z (parse_digits (c :: r) false)).
    + destruct c as [[] [] [] [] [] [] [] []]; try reflexivity; congruence.
    + rewrite Hp. cbn [option_map]. unfold uint_Z. unfold N.of_uint.
      rewrite DecimalPos.Unsigned.of_to. reflexivity.
  - rewrite parse_uint_chars by (left; apply DecimalPos.Unsigned.to_uint_nonnil).
    cbn [option_map]. unfold uint_Z, N.of_uint. rewrite DecimalPos.Unsigned.of_to. reflexivity.
Qed.

(* a string containing a comma is not an integer *)
Lemma parse_digits_comma l b : In ","%char l -> parse_digits l b = None.
Proof.
  revert b. induction l as [|c l IH]; intros b; [intros []|].
  intros [->|H]; cbn [parse_digits].
  - reflexivity.
  - destruct (digit_char c); [rewrite (IH true H); reflexivity|].
    destruct (Ascii.eqb c "_" && b); [apply IH; exact H|reflexivity].
Qed.

Lemma lstrip_keeps_comma l : In ","%char l -> In ","%char (lstrip l).
Proof.
  induction l as [|c l IH]; [intros []|]. intros [->|H]; cbn [lstrip].
  - left; reflexivity.
  - destruct (is_space c); [apply IH; exact H|right; exact H].
Qed.

Lemma py_int_comma s : In ","%char s -> py_int s = None.
Proof.
  intros H. unfold py_int.
  assert (Hs : In ","%char (strip s)).
  { unfold strip. apply -> in_rev. apply lstrip_keeps_comma. apply -> in_rev.
    apply lstrip_keeps_comma. exact H. }
  destruct (strip s) as [|c r]; [destruct Hs|].
  assert (Hr : c = ","%char \/ In ","%char r) by (destruct Hs; auto).
  assert (P0 : parse_digits (c :: r) false = None) by (apply parse_digits_comma; exact Hs).
  destruct Hr as [->|Hr].
  - reflexivity.
  - pose proof (parse_digits_comma r false Hr) as P1.
    destruct c as [[] [] [] [] [] [] [] []]; rewrite ?P0, ?P1; reflexivity.
Qed.

Definition nocomma (t : str) : Prop := ~ In ","%char t.

Lemma split_comma_nonnil l : split_comma l <> [].
Proof.
  destruct l as [|c l]; cbn [split_comma]; [discriminate|].
  destruct (Ascii.eqb c ","); [discriminate|]. destruct (split_comma l); discriminate.
Qed.

Lemma split_comma_app t rest :
  nocomma t ->
  split_comma (t ++ rest) =
    match split_comma rest with x :: xs => (t ++ x) :: xs | [] => [t] end.
Proof.
  induction t as [|c t IH]; intros Hn; cbn [List.app].
  - destruct (split_comma rest) eqn:E; [exfalso; eapply split_comma_nonnil; eauto|reflexivity].
  - cbn [split_comma]. destruct (Ascii.eqb c ",") eqn:Ec.
    + apply Ascii.eqb_eq in Ec. exfalso. apply Hn. left. auto.
    + rewrite IH by (intros H; apply Hn; right; exact H).
      destruct (split_comma rest) eqn:E; [exfalso; eapply split_comma_nonnil; eauto|reflexivity].
Qed.

Lemma split_comma_nocomma t : nocomma t -> split_comma t = [t].
Proof.
  intros H. rewrite <- (app_nil_r t) at 1. rewrite split_comma_app by exact H.
  cbn [split_comma]. rewrite app_nil_r. reflexivity.
Qed.

Lemma split_join toks : toks <> [] -> Forall nocomma toks -> split_comma (join_comma toks) = toks.
Proof.
  induction toks as [|t ts IH]; [congruence|]. intros _ Hf. inversion Hf as [|? ? Ht Hts]; subst.
  destruct ts as [|t' ts].
  - cbn [join_comma]. apply split_comma_nocomma; exact Ht.
  - change (join_comma (t :: t' :: ts)) with (t ++ ","%char :: join_comma (t' :: ts)).
    rewrite split_comma_app by exact Ht.
    change (split_comma (","%char :: join_comma (t' :: ts))) with ([] :: split_comma (join_comma (t' :: ts))).
    rewrite IH by (auto; discriminate). rewrite app_nil_r. reflexivity.
Qed.

Lemma dec_Z_nocomma z : nocomma (dec_Z z).
Proof.
  unfold nocomma. intros H.
  assert (G : forall u, ~ In ","%char (uint_chars u)).
  { induction u; cbn [uint_chars In]; try tauto; intros [E|E]; try discriminate; auto. }
  destruct z; cbn [dec_Z In] in H.
  - destruct H as [E|[]]; discriminate.
  - apply (G _ H).
  - destruct H as [E|H]; [discriminate|apply (G _ H)].
Qed.

Lemma map_opt_dec l : map_opt py_int (map dec_Z l) = Some l.
Proof.
  induction l as [|z l IH]; [reflexivity|]. cbn [map map_opt]. rewrite py_int_dec, IH. reflexivity.
Qed.

Lemma join_has_comma t t' ts : In ","%char (join_comma (t :: t' :: ts)).
Proof.
  change (join_comma (t :: t' :: ts)) with (t ++ ","%char :: join_comma (t' :: ts)).
  apply in_or_app. right. left. reflexivity.
Qed.

Lemma parse_hdu_scalar i : parse_hdu_arg (dec_Z i) = Ok (HScalar i).
Proof. unfold parse_hdu_arg. rewrite py_int_dec. reflexivity. Qed.

Lemma parse_hdu_list l : (2 <= length l)%nat -> parse_hdu_arg (join_comma (map dec_Z l)) = Ok (HList l).
Proof.
  intros Hl. destruct l as [|a [|b l]]; cbn [length] in Hl; try lia.
  unfold parse_hdu_arg. cbn [map]. rewrite py_int_comma by apply join_has_comma.
  change (dec_Z a :: dec_Z b :: map dec_Z l) with (map dec_Z (a :: b :: l)).
  rewrite split_join.
  - rewrite map_opt_dec. reflexivity.
  - discriminate.
  - apply Forall_forall. intros t Ht. apply in_map_iff in Ht. destruct Ht as [z [<- _]].
    apply dec_Z_nocomma.
Qed.

Lemma key_ok_nocomma k : key_ok k = true -> nocomma k.
Proof.
  destruct k as [|c [|c' r]]; cbn [key_ok]; try discriminate.
  intros H [E|[]]. subst c. discriminate.
Qed.

Lemma parse_wcs_scalar k : key_ok k = true -> parse_wcs_arg k = Ok (WScalar k).
Proof.
  intros H. unfold parse_wcs_arg. rewrite split_comma_nocomma by (apply key_ok_nocomma; exact H).
  cbn [forallb]. rewrite H. reflexivity.
Qed.

Lemma parse_wcs_list l :
  (2 <= length l)%nat -> forallb key_ok l = true -> parse_wcs_arg (join_comma l) = Ok (WList l).
Proof.
  intros Hl Hk. unfold parse_wcs_arg. rewrite split_join.
  - rewrite Hk. destruct l as [|a [|b l]]; cbn [length] in Hl; try lia. reflexivity.
  - destruct l; [cbn in Hl; lia|discriminate].
  - apply Forall_forall. intros t Ht. apply key_ok_nocomma.
    rewrite forallb_forall in Hk. apply Hk; exact Ht.
Qed.

(* the documented ambiguity (collection.py:444-447): a one-element list cannot
   be written on the command line, its text means "every file" *)
Lemma parse_hdu_singleton i : parse_hdu_arg (join_comma (map dec_Z [i])) = Ok (HScalar i).
Proof. apply parse_hdu_scalar. Qed.
