(* Shared small definitions for the proofs about Model/WalkPar.v (C01):
   boolean list membership on positions and the 4-bit readiness word. *)
From Coq Require Import List NArith Arith Bool.
From Toasty Require Import Model.Quadtree Proofs.QuadtreeP.
Import ListNotations.

Definition memb (p : pos) (l : list pos) : bool := existsb (pos_eqb p) l.

Lemma memb_in p l : memb p l = true <-> In p l.
Proof.
  unfold memb. rewrite existsb_exists. split.
  - intros (x & Hx & E). apply pos_eqb_eq in E. subst. exact Hx.
  - intros H. exists p. split; [exact H|apply pos_eqb_refl].
Qed.

Lemma memb_false p l : memb p l = false <-> ~ In p l.
Proof.
  rewrite <- memb_in. destruct (memb p l); split; intros H; try reflexivity; try discriminate.
  exfalso. apply H. reflexivity.
Qed.

(* readiness word: bit k set iff b_k *)
Definition bit4 (b0 b1 b2 b3 : bool) : N :=
  ((if b0 then 1 else 0) + (if b1 then 2 else 0) + (if b2 then 4 else 0) + (if b3 then 8 else 0))%N.
