From Coq Require Import ZArith List Bool Lia.
From Toasty Require Import Model.LoaderArgs.
Import ListNotations.
Local Open Scope Z_scope.

(* an accepted --crop is four non-negative numbers in the order top, right, bottom, left; the one-
   and two-value forms are symmetric: V,H removes V rows at top and bottom, H columns at each side *)
Lemma expand_crop_shape (l c : list Z) :
  expand_crop l = Some c ->
  length c = 4%nat /\ Forall (fun x => 0 <= x) c /\
  (forall v, l = [v] -> c = [v; v; v; v]) /\
  (forall v h, l = [v; h] -> c = [v; h; v; h]) /\
  (length l = 4%nat -> c = l).
Proof.
  unfold expand_crop. destruct (forallb (fun c0 => 0 <=? c0) l) eqn:F; [|discriminate].
  rewrite forallb_forall in F.
  assert (Hnn : Forall (fun x => 0 <= x) l).
  { apply Forall_forall. intros x Hx. apply Z.leb_le. apply F. exact Hx. }
  destruct l as [|a [|b [|c0 [|d [|e r]]]]]; try discriminate; intros H; injection H as <-.
  - inversion Hnn; subst. repeat split; auto; try (intros; congruence). discriminate.
  - inversion Hnn as [|? ? Ha Hr]; subst. inversion Hr; subst.
    repeat split; auto; try (intros; congruence). discriminate.
  - repeat split; auto; intros; congruence.
Qed.

Lemma expand_crop_rejects (l : list Z) :
  (exists x, In x l /\ x < 0) \/ (length l <> 1 /\ length l <> 2 /\ length l <> 4)%nat -> expand_crop l = None.
Proof.
  intros [(x & Hx & Hn)|(H1 & H2 & H4)]; unfold expand_crop.
  - destruct (forallb (fun c => 0 <=? c) l) eqn:F; [|reflexivity].
    rewrite forallb_forall in F. apply F in Hx. apply Z.leb_le in Hx. lia.
  - destruct (forallb (fun c => 0 <=? c) l); [|reflexivity].
    destruct l as [|a [|b [|c0 [|d [|e r]]]]]; cbn [length] in *; try reflexivity;
      first [exfalso; apply H1; reflexivity | exfalso; apply H2; reflexivity | exfalso; apply H4; reflexivity].
Qed.

(* the region tiled after --crop=V,H on a w x h input: w - 2H columns, h - 2V rows, starting at (H, V) *)
Lemma crop_two_values (w h v hh : Z) (c : list Z) :
  expand_crop [v; hh] = Some c ->
  crop_box w h c = (hh, v, w - hh, h - v) /\ cropped_size w h c = (w - 2 * hh, h - 2 * v).
Proof.
  intros H. destruct (expand_crop_shape _ _ H) as (_ & _ & _ & H2 & _). rewrite (H2 v hh eq_refl).
  unfold cropped_size, crop_box. cbn [nth]. split; [reflexivity|]. f_equal; lia.
Qed.

(* the options go into the new loader; the class defaults are not touched, so a later plain
   ImageLoader() -- PyramidIO.read_image makes one for every tile a cascade reads -- has them *)
Lemma create_from_args_leaves_class (cls : loader_opts) b2t csp psd crop new cls' :
  create_from_args cls b2t csp psd crop = Some (new, cls') ->
  cls' = cls /\ lo_b2t new = b2t /\ lo_csp new = csp /\ lo_psd new = psd /\
  (crop = None -> lo_crop new = lo_crop cls) /\
  (forall l, crop = Some l -> lo_crop new = expand_crop l).
Proof.
  unfold create_from_args. destruct crop as [l|].
  - destruct (expand_crop l) as [c|] eqn:E; [|discriminate]. intros H; injection H as <- <-.
    repeat split; auto; try discriminate. intros l0 Hl. injection Hl as <-. symmetry; exact E.
  - intros H; injection H as <- <-. repeat split; auto. discriminate.
Qed.
