(* Proofs for C13, part 2: the three counters, the serial walk / leaf visit and the
   sub-pyramid restriction, all read off [riter_refines]. *)
From Coq Require Import List NArith ZArith Arith Bool Lia.
From Toasty Require Import Model.Quadtree Model.Reducer Proofs.QuadtreeP Proofs.ReducerP Proofs.EnumP.
Import ListNotations.
Ltac Zify.zify_post_hook ::= Z.to_euclidean_division_equations.
Local Open Scope N_scope.

(* the three selections of the accepted tree, as predicates on positions;
   [D] is the pyramid depth *)
Definition gleaf (D : nat) (q : pos) : bool := Nat.eqb (pn q) D.
Definition glive (acc : pos -> bool) (D : nat) (q : pos) : bool := live (S D - pn q) acc q.
Definition gops (acc : pos -> bool) (D : nat) (q : pos) : bool := glive acc D q && negb (gleaf D q).

Lemma live_S k acc p :
  live (S k) acc p =
  acc p && (Nat.eqb k 0 || live k acc (c0 p) || live k acc (c1 p) || live k acc (c2 p) || live k acc (c3 p)).
Proof. reflexivity. Qed.

Lemma filter_pwalk_S g k acc p :
  filter g (pwalk (S k) acc p) =
  if acc p then filter g (pwalk k acc (c0 p)) ++ filter g (pwalk k acc (c1 p)) ++
                filter g (pwalk k acc (c2 p)) ++ filter g (pwalk k acc (c3 p)) ++
                (if g p then [p] else [])
  else [].
Proof.
  rewrite pwalk_S. destruct (acc p); [|reflexivity]. rewrite !filter_app. reflexivity.
Qed.

(* ---- what the four reductions compute ------------------------------------------ *)

Lemma f_leaf_eq q leaf a b c e :
  f_leaf q leaf (a, b, c, e) = if leaf then 1 else a + b + c + e.
Proof. reflexivity. Qed.
Lemma f_live_eq q leaf a b c e :
  f_live q leaf (a, b, c, e) =
  if leaf then 1 else if N.eqb (a + b + c + e) 0 then 0 else a + b + c + e + 1.
Proof. reflexivity. Qed.
Lemma f_ops_eq q leaf a b c e :
  f_ops q leaf (a, b, c, e) =
  if leaf then (true, 0) else
  (fst a || fst b || fst c || fst e,
   if fst a || fst b || fst c || fst e then snd a + snd b + snd c + snd e + 1
   else snd a + snd b + snd c + snd e).
Proof. reflexivity. Qed.
Lemma f_walk_eq q leaf a b c e :
  f_walk q leaf (a, b, c, e) = if leaf then true else a || b || c || e.
Proof. reflexivity. Qed.

Section Reductions.
  Variable acc : pos -> bool.
  Variable D : nat.

  Lemma TR_walk k : forall p, tree_reduce f_walk false k acc p = live k acc p.
  Proof.
    induction k as [|k IH]; intros p; [reflexivity|].
    cbn [tree_reduce]. rewrite live_S. destruct (acc p); [|reflexivity]. cbn [andb].
    rewrite f_walk_eq, !IH. destruct (Nat.eqb k 0); reflexivity.
  Qed.

  Lemma TR_leaf k : forall p, (pn p + k = S D)%nat ->
    tree_reduce f_leaf 0 k acc p = N.of_nat (length (filter (gleaf D) (pwalk k acc p))).
  Proof.
    induction k as [|k IH]; intros p Hk; [reflexivity|].
    cbn [tree_reduce]. rewrite filter_pwalk_S. destruct (acc p); [|reflexivity].
    rewrite f_leaf_eq. destruct (Nat.eqb_spec k 0) as [->|Hk0].
    - cbn [pwalk filter app]. unfold gleaf.
      replace (Nat.eqb (pn p) D) with true by (symmetry; apply Nat.eqb_eq; lia). reflexivity.
    - rewrite !IH by (cbn [pn c0 c1 c2 c3]; lia). rewrite !app_length.
      replace (gleaf D p) with false by (symmetry; apply Nat.eqb_neq; lia). cbn [length]. lia.
  Qed.

  Lemma glive_top k p : (pn p + k = S D)%nat -> glive acc D p = live k acc p.
  Proof. intros H. unfold glive. f_equal. lia. Qed.

  Lemma TR_live k : forall p, (pn p + k = S D)%nat ->
    tree_reduce f_live 0 k acc p = N.of_nat (length (filter (glive acc D) (pwalk k acc p))) /\
    live k acc p = negb (Nat.eqb (length (filter (glive acc D) (pwalk k acc p))) 0).
  Proof.
    induction k as [|k IH]; intros p Hk; [split; reflexivity|].
    cbn [tree_reduce]. rewrite filter_pwalk_S, (glive_top (S k) p Hk), live_S.
    destruct (acc p); [|split; reflexivity]. cbn [andb].
    rewrite f_live_eq. destruct (Nat.eqb_spec k 0) as [->|Hk0].
    - cbn [pwalk filter app orb length Nat.eqb negb]. split; reflexivity.
    - destruct (IH (c0 p)) as [E0 L0]; [cbn [pn c0]; lia|].
      destruct (IH (c1 p)) as [E1 L1]; [cbn [pn c1]; lia|].
      destruct (IH (c2 p)) as [E2 L2]; [cbn [pn c2]; lia|].
      destruct (IH (c3 p)) as [E3 L3]; [cbn [pn c3]; lia|].
      rewrite E0, E1, E2, E3, L0, L1, L2, L3, !app_length. cbn [orb].
      set (n0 := length (filter _ (pwalk k acc (c0 p)))).
      set (n1 := length (filter _ (pwalk k acc (c1 p)))).
      set (n2 := length (filter _ (pwalk k acc (c2 p)))).
      set (n3 := length (filter _ (pwalk k acc (c3 p)))).
      destruct (N.eqb_spec (N.of_nat n0 + N.of_nat n1 + N.of_nat n2 + N.of_nat n3) 0) as [E|E].
      + assert (H : n0 = 0%nat /\ n1 = 0%nat /\ n2 = 0%nat /\ n3 = 0%nat) by lia.
        destruct H as (-> & -> & -> & ->). cbn. split; reflexivity.
      + destruct n0 as [|n0]; [destruct n1 as [|n1]; [destruct n2 as [|n2]; [destruct n3 as [|n3]; [lia|]|]|]|];
          cbn [Nat.eqb negb orb length]; rewrite ?orb_true_r;
          (split; [lia|]);
          match goal with |- true = negb (Nat.eqb ?x 0) => destruct x eqn:Ex; [lia|reflexivity] end.
  Qed.

  Lemma TR_ops k : forall p, (pn p + k = S D)%nat ->
    tree_reduce f_ops (false, 0) k acc p =
    (live k acc p, N.of_nat (length (filter (gops acc D) (pwalk k acc p)))).
  Proof.
    induction k as [|k IH]; intros p Hk; [reflexivity|].
    cbn [tree_reduce]. rewrite filter_pwalk_S, live_S.
    destruct (acc p) eqn:Ea; [|reflexivity]. cbn [andb].
    unfold gops at 5. rewrite (glive_top (S k) p Hk), live_S, Ea. cbn [andb].
    rewrite f_ops_eq. destruct (Nat.eqb_spec k 0) as [->|Hk0].
    - cbn [pwalk filter app orb]. unfold gleaf.
      replace (Nat.eqb (pn p) D) with true by (symmetry; apply Nat.eqb_eq; lia). reflexivity.
    - rewrite !IH by (cbn [pn c0 c1 c2 c3]; lia). cbn [fst snd orb].
      replace (gleaf D p) with false by (symmetry; apply Nat.eqb_neq; lia).
      rewrite !app_length, andb_true_r.
      destruct (live k acc (c0 p) || live k acc (c1 p) || live k acc (c2 p) || live k acc (c3 p));
        cbn [length]; f_equal; lia.
  Qed.

  (* the log lists the accepted tree *)
  Lemma TL_pos {A} (f : pos -> bool -> A * A * A * A -> A) (d : A) k : forall p,
    map (fun e => fst (fst e)) (tree_log f d k acc p) = pwalk k acc p.
  Proof.
    induction k as [|k IH]; intros p; [reflexivity|].
    cbn [tree_log]. rewrite pwalk_S. destruct (acc p); [|reflexivity].
    rewrite !map_app, !IH. reflexivity.
  Qed.

  (* callbacks of _walk_serial *)
  Lemma walk_log k : forall p, (pn p + k = S D)%nat ->
    map (fun e => fst (fst e))
        (filter (fun e : pos * bool * (bool * bool * bool * bool) =>
                   let '(_, leaf, (a, b, c, e')) := e in negb leaf && (a || b || c || e'))
                (tree_log f_walk false k acc p)) =
    filter (gops acc D) (pwalk k acc p).
  Proof.
    induction k as [|k IH]; intros p Hk; [reflexivity|].
    cbn [tree_log]. rewrite filter_pwalk_S. destruct (acc p) eqn:Ea; [|reflexivity].
    rewrite !filter_app, !map_app, !IH by (cbn [pn c0 c1 c2 c3]; lia).
    do 4 f_equal. cbn [filter]. rewrite !TR_walk.
    unfold gops. rewrite (glive_top (S k) p Hk), live_S, Ea. cbn [andb]. unfold gleaf.
    destruct (Nat.eqb_spec k 0) as [->|Hk0].
    - replace (Nat.eqb (pn p) D) with true by (symmetry; apply Nat.eqb_eq; lia). reflexivity.
    - replace (Nat.eqb (pn p) D) with false by (symmetry; apply Nat.eqb_neq; lia).
      cbn [negb andb orb]. rewrite andb_true_r.
      destruct (live k acc (c0 p) || live k acc (c1 p) || live k acc (c2 p) || live k acc (c3 p));
        reflexivity.
  Qed.

  (* callbacks of _visit_leaves_serial *)
  Lemma visit_log k : forall p, (pn p + k = S D)%nat ->
    map (fun e => fst (fst e))
        (filter (fun e : pos * bool * (unit * unit * unit * unit) => snd (fst e))
                (tree_log f_unit tt k acc p)) =
    filter (gleaf D) (pwalk k acc p).
  Proof.
    induction k as [|k IH]; intros p Hk; [reflexivity|].
    cbn [tree_log]. rewrite filter_pwalk_S. destruct (acc p) eqn:Ea; [|reflexivity].
    rewrite !filter_app, !map_app, !IH by (cbn [pn c0 c1 c2 c3]; lia).
    do 4 f_equal. cbn [filter fst snd]. unfold gleaf.
    replace (Nat.eqb (pn p) D) with (Nat.eqb k 0)
      by (destruct (Nat.eqb_spec k 0), (Nat.eqb_spec (pn p) D); try reflexivity; lia).
    destruct (Nat.eqb k 0); reflexivity.
  Qed.

  (* live = an accepted deepest-level tile is reachable through accepted tiles *)
  Lemma live_iff k : forall p,
    live k acc p = true <-> exists l, In l (pwalk k acc p) /\ (pn l + 1 = pn p + k)%nat.
  Proof.
    induction k as [|k IH]; intros p.
    - cbn [live pwalk In]. split; [discriminate|]. intros (l & [] & _).
    - rewrite live_S, pwalk_S. destruct (acc p) eqn:Ea.
      2:{ cbn [andb In]. split; [discriminate|]. intros (l & [] & _). }
      cbn [andb]. destruct (Nat.eqb_spec k 0) as [->|Hk0].
      + cbn [orb pwalk app In]. split; [|reflexivity]. intros _. exists p. split; [auto|lia].
      + cbn [orb]. rewrite !orb_true_iff, !IH. split.
        * intros [[[(l & Hl & Hn)|(l & Hl & Hn)]|(l & Hl & Hn)]|(l & Hl & Hn)];
            exists l; (split; [rewrite !in_app_iff; auto 6|cbn [pn c0 c1 c2 c3] in Hn; lia]).
        * intros (l & Hl & Hn). rewrite !in_app_iff in Hl. cbn [In] in Hl.
          destruct Hl as [Hl|[Hl|[Hl|[Hl|[Hl|[]]]]]].
          -- left; left; left. exists l. split; [exact Hl|cbn [pn c0]; lia].
          -- left; left; right. exists l. split; [exact Hl|cbn [pn c1]; lia].
          -- left; right. exists l. split; [exact Hl|cbn [pn c2]; lia].
          -- right. exists l. split; [exact Hl|cbn [pn c3]; lia].
          -- subst l. lia.
  Qed.

  (* an accepted tile of the deepest level is live; the leaves are the live tiles of
     the deepest level *)
  Lemma leaf_live k p :
    (pn p + k = S D)%nat ->
    filter (gleaf D) (filter (glive acc D) (pwalk k acc p)) = filter (gleaf D) (pwalk k acc p).
  Proof.
    intros Hk. rewrite filter_filter'. apply filter_ext_in. intros q Hq.
    apply pwalk_in_top in Hq. destruct Hq as (_ & _ & Hacc).
    unfold gleaf, glive. destruct (Nat.eqb_spec (pn q) D) as [->|]; [|apply andb_false_r].
    replace (S D - D)%nat with 1%nat by lia. cbn [live Nat.eqb orb]. rewrite Hacc. reflexivity.
  Qed.

  Lemma ops_plus_leaves k p :
    (pn p + k = S D)%nat ->
    (length (filter (gops acc D) (pwalk k acc p)) + length (filter (gleaf D) (pwalk k acc p))
     = length (filter (glive acc D) (pwalk k acc p)))%nat.
  Proof.
    intros Hk. rewrite <- (leaf_live k p Hk).
    unfold gops. rewrite <- filter_filter'. apply filter_split_length.
  Qed.
End Reductions.

(* ---- the unfiltered tree: closed forms ------------------------------------------ *)

Lemma live_all k : forall p, live (S k) (fun _ => true) p = true.
Proof.
  induction k as [|k IH]; intros p; [reflexivity|].
  rewrite live_S, IH. cbn [andb]. destruct (Nat.eqb (S k) 0); reflexivity.
Qed.

Lemma live_all_filter D k p :
  (pn p + k = S D)%nat ->
  filter (glive (fun _ => true) D) (pwalk k (fun _ => true) p) = pwalk k (fun _ => true) p.
Proof.
  intros Hk. apply filter_all. intros q Hq. apply pwalk_in_top in Hq. unfold glive.
  replace (S D - pn q)%nat with (S (D - pn q)) by lia. apply live_all.
Qed.

Lemma leaves_all_length D k : forall p, (pn p + S k = S D)%nat ->
  N.of_nat (length (filter (gleaf D) (pwalk (S k) (fun _ => true) p))) = 4 ^ N.of_nat k.
Proof.
  induction k as [|k IH]; intros p Hk.
  - cbn [pwalk filter app flat_map children]. unfold gleaf.
    replace (Nat.eqb (pn p) D) with true by (symmetry; apply Nat.eqb_eq; lia). reflexivity.
  - rewrite filter_pwalk_S. rewrite !app_length.
    replace (gleaf D p) with false by (symmetry; apply Nat.eqb_neq; lia). cbn [length].
    pose proof (IH (c0 p) ltac:(cbn [pn c0]; lia)) as H0.
    pose proof (IH (c1 p) ltac:(cbn [pn c1]; lia)) as H1.
    pose proof (IH (c2 p) ltac:(cbn [pn c2]; lia)) as H2.
    pose proof (IH (c3 p) ltac:(cbn [pn c3]; lia)) as H3.
    replace (N.of_nat (S k)) with (N.succ (N.of_nat k)) by lia. rewrite N.pow_succ_r'. lia.
Qed.

(* ---- pyramids --------------------------------------------------------------------- *)

Lemma wf_levels P : wf_pyr P -> (pn (apex P) + sub_levels P = S (depth P))%nat.
Proof. intros (_ & Hle & _). unfold sub_levels. lia. Qed.

Lemma wf_levels' P : wf_pyr P -> sub_levels P = S (depth P - pn (apex P)).
Proof. intros (_ & Hle & _). unfold sub_levels. lia. Qed.

Lemma spec_leaves_eq P :
  spec_leaves P =
  if apex_reachable P
  then filter (gleaf (depth P)) (pwalk (sub_levels P) (in_filter P) (apex P)) else [].
Proof. reflexivity. Qed.

Lemma spec_live_eq P :
  wf_pyr P ->
  spec_live P =
  if apex_reachable P
  then filter (glive (in_filter P) (depth P)) (pwalk (sub_levels P) (in_filter P) (apex P)) else [].
Proof.
  intros Hwf. unfold spec_live, live_list, tree_pos. destruct (apex_reachable P); [|reflexivity].
  apply filter_ext. intros q. unfold glive. f_equal. pose proof (wf_levels P Hwf). lia.
Qed.

Lemma spec_ops_eq P :
  wf_pyr P ->
  spec_ops P =
  if apex_reachable P
  then filter (gops (in_filter P) (depth P)) (pwalk (sub_levels P) (in_filter P) (apex P)) else [].
Proof.
  intros Hwf. unfold spec_ops. rewrite (spec_live_eq P Hwf).
  destruct (apex_reachable P); [|reflexivity]. rewrite filter_filter'. reflexivity.
Qed.

(* the reducer always computes the right numbers ... *)
Theorem reducer_leaf P :
  wf_pyr P -> res_or 0 (riter_run f_leaf 0 P) = Some (N.of_nat (length (spec_leaves P))).
Proof.
  intros Hwf. rewrite (riter_refines f_leaf 0 P Hwf), spec_leaves_eq.
  destruct (apex_reachable P); [|reflexivity]. cbn [res_or]. f_equal.
  apply TR_leaf. apply wf_levels. exact Hwf.
Qed.

Theorem reducer_live P :
  wf_pyr P -> res_or 0 (riter_run f_live 0 P) = Some (N.of_nat (length (spec_live P))).
Proof.
  intros Hwf. rewrite (riter_refines f_live 0 P Hwf), (spec_live_eq P Hwf).
  destruct (apex_reachable P); [|reflexivity]. cbn [res_or]. f_equal.
  apply TR_live. apply wf_levels. exact Hwf.
Qed.

Theorem reducer_ops P :
  wf_pyr P ->
  option_map snd (res_or (false, 0) (riter_run f_ops (false, 0) P)) =
  Some (N.of_nat (length (spec_ops P))).
Proof.
  intros Hwf. rewrite (riter_refines f_ops (false, 0) P Hwf), (spec_ops_eq P Hwf).
  destruct (apex_reachable P); [|reflexivity]. cbn [res_or option_map].
  rewrite (TR_ops (in_filter P) (depth P)) by (apply wf_levels; exact Hwf). reflexivity.
Qed.

(* ... and without a filter the lists have the closed-form lengths *)
Lemma nofilter_facts P :
  has_filter P = false -> in_filter P = (fun _ => true) /\ apex_reachable P = true.
Proof.
  unfold has_filter, in_filter, apex_reachable. destruct (kd P); auto. discriminate.
Qed.

Theorem nofilter_leaves P :
  wf_pyr P -> has_filter P = false ->
  N.of_nat (length (spec_leaves P)) = 4 ^ N.of_nat (depth P - pn (apex P)).
Proof.
  intros Hwf Hf. destruct (nofilter_facts P Hf) as [Ei Er].
  rewrite spec_leaves_eq, Er, Ei. pose proof (wf_levels P Hwf) as Hl.
  rewrite (wf_levels' P Hwf) in *.
  apply leaves_all_length. lia.
Qed.

Theorem nofilter_live P :
  wf_pyr P -> has_filter P = false ->
  N.of_nat (length (spec_live P)) = (4 ^ (N.of_nat (depth P - pn (apex P)) + 1) - 1) / 3.
Proof.
  intros Hwf Hf. destruct (nofilter_facts P Hf) as [Ei Er].
  rewrite (spec_live_eq P Hwf), Er, Ei. pose proof (wf_levels P Hwf) as Hl.
  rewrite live_all_filter by exact Hl.
  pose proof (pwalk_all_length (sub_levels P) (apex P)) as H.
  replace (N.of_nat (depth P - pn (apex P)) + 1) with (N.of_nat (sub_levels P))
    by (rewrite (wf_levels' P Hwf); lia).
  set (n := N.of_nat (length _)) in *. set (w := 4 ^ N.of_nat (sub_levels P)) in *. lia.
Qed.

Theorem ops_leaves_live P :
  wf_pyr P ->
  (length (spec_ops P) + length (spec_leaves P) = length (spec_live P))%nat.
Proof.
  intros Hwf. rewrite (spec_ops_eq P Hwf), (spec_live_eq P Hwf), spec_leaves_eq.
  destruct (apex_reachable P); [|reflexivity].
  apply ops_plus_leaves. apply wf_levels. exact Hwf.
Qed.

Theorem nofilter_ops P :
  wf_pyr P -> has_filter P = false ->
  N.of_nat (length (spec_ops P)) = (4 ^ N.of_nat (depth P - pn (apex P)) - 1) / 3.
Proof.
  intros Hwf Hf. pose proof (ops_leaves_live P Hwf) as Hs.
  pose proof (nofilter_leaves P Hwf Hf) as H1. pose proof (nofilter_live P Hwf Hf) as H2.
  rewrite N.pow_add_r in H2. change (4 ^ 1) with 4 in H2.
  set (w := 4 ^ N.of_nat (depth P - pn (apex P))) in *.
  assert (Hw : 1 <= w).
  { unfold w. pose proof (N.pow_nonzero 4 (N.of_nat (depth P - pn (apex P))) ltac:(lia)). lia. }
  lia.
Qed.

(* item 4: the counters as coded *)
Theorem count_leaf_correct P :
  wf_pyr P -> count_leaf_tiles P = Some (N.of_nat (length (spec_leaves P))).
Proof.
  intros Hwf. unfold count_leaf_tiles. destruct (has_filter P) eqn:Hf.
  - apply reducer_leaf. exact Hwf.
  - rewrite (nofilter_leaves P Hwf Hf). reflexivity.
Qed.

Theorem count_live_correct P :
  wf_pyr P -> count_live_tiles P = Some (N.of_nat (length (spec_live P))).
Proof.
  intros Hwf. unfold count_live_tiles. destruct (has_filter P) eqn:Hf.
  - apply reducer_live. exact Hwf.
  - rewrite (nofilter_live P Hwf Hf). reflexivity.
Qed.

Theorem count_ops_correct P :
  wf_pyr P -> count_operations P = Some (N.of_nat (length (spec_ops P))).
Proof.
  intros Hwf. unfold count_operations. destruct (has_filter P) eqn:Hf.
  - apply reducer_ops. exact Hwf.
  - rewrite (nofilter_ops P Hwf Hf). reflexivity.
Qed.

Theorem counts_sum P :
  wf_pyr P ->
  exists o l v, count_operations P = Some o /\ count_leaf_tiles P = Some l /\
                count_live_tiles P = Some v /\ o + l = v.
Proof.
  intros Hwf. do 3 eexists.
  rewrite (count_ops_correct P Hwf), (count_leaf_correct P Hwf), (count_live_correct P Hwf).
  repeat split. pose proof (ops_leaves_live P Hwf). lia.
Qed.

(* the analytic shortcut and the reducer agree whenever the shortcut is taken *)
Theorem shortcut_eq_reducer P :
  wf_pyr P -> has_filter P = false ->
  res_or 0 (riter_run f_leaf 0 P) = Some (tiles_at_depth (depth P - pn (apex P))) /\
  res_or 0 (riter_run f_live 0 P) = Some (depth2tiles (depth P - pn (apex P))) /\
  option_map snd (res_or (false, 0) (riter_run f_ops (false, 0) P)) =
    Some ((4 ^ N.of_nat (depth P - pn (apex P)) - 1) / 3).
Proof.
  intros Hwf Hf.
  rewrite (reducer_leaf P Hwf), (reducer_live P Hwf), (reducer_ops P Hwf).
  rewrite (nofilter_leaves P Hwf Hf), (nofilter_live P Hwf Hf), (nofilter_ops P Hwf Hf).
  repeat split.
Qed.

(* ---- item 5: what is visited ----------------------------------------------------- *)

Theorem visit_serial_spec P : wf_pyr P -> visit_serial P = Some (spec_leaves P).
Proof.
  intros Hwf. unfold visit_serial. rewrite (count_leaf_correct P Hwf).
  destruct (N.of_nat (length (spec_leaves P))) eqn:En.
  - destruct (spec_leaves P); [reflexivity|cbn [length] in En; lia].
  - rewrite (riter_refines f_unit tt P Hwf), spec_leaves_eq.
    destruct (apex_reachable P); [|reflexivity]. f_equal.
    apply visit_log. apply wf_levels. exact Hwf.
Qed.

Theorem walk_serial_spec P : wf_pyr P -> walk_serial P = Some (spec_ops P).
Proof.
  intros Hwf. unfold walk_serial. rewrite (count_ops_correct P Hwf).
  destruct (N.of_nat (length (spec_ops P))) eqn:En.
  - destruct (spec_ops P); [reflexivity|cbn [length] in En; lia].
  - rewrite (riter_refines f_walk false P Hwf), (spec_ops_eq P Hwf).
    destruct (apex_reachable P); [|reflexivity]. f_equal.
    apply walk_log. apply wf_levels. exact Hwf.
Qed.

(* membership of the three lists *)
Definition in_tree (P : pyr) (q : pos) : Prop :=
  apex_reachable P = true /\
  exists m, (m < sub_levels P)%nat /\ desc_ok (in_filter P) (apex P) q m.

Theorem spec_leaves_in P q :
  In q (spec_leaves P) <-> in_tree P q /\ pn q = depth P.
Proof.
  rewrite spec_leaves_eq. unfold in_tree. destruct (apex_reachable P).
  - rewrite filter_In, pwalk_in. unfold gleaf. rewrite Nat.eqb_eq. tauto.
  - cbn [In]. split; [tauto|]. intros [[H _] _]. discriminate.
Qed.

Theorem spec_live_in P q :
  wf_pyr P ->
  (In q (spec_live P) <->
   in_tree P q /\
   exists l, In l (pwalk (S (depth P) - pn q) (in_filter P) q) /\ pn l = depth P).
Proof.
  intros Hwf. rewrite (spec_live_eq P Hwf). unfold in_tree. destruct (apex_reachable P).
  - rewrite filter_In, pwalk_in. unfold glive. rewrite live_iff.
    pose proof (wf_levels P Hwf) as Hl. split.
    + intros [(m & Hm & Hd) (l & Hin & Hn)]. split; [split; [reflexivity|eauto]|].
      exists l. split; [exact Hin|]. destruct Hd as (Hq & _). lia.
    + intros [[_ (m & Hm & Hd)] (l & Hin & Hn)]. split; [eauto|].
      exists l. split; [exact Hin|]. destruct Hd as (Hq & _). lia.
  - cbn [In]. split; [tauto|]. intros [[H _] _]. discriminate.
Qed.

Theorem spec_ops_in P q :
  In q (spec_ops P) <-> In q (spec_live P) /\ pn q <> depth P.
Proof.
  unfold spec_ops. rewrite filter_In, negb_true_iff, Nat.eqb_neq. tauto.
Qed.

Lemma spec_live_sub P q : wf_pyr P -> In q (spec_live P) -> In q (pwalk (sub_levels P) (in_filter P) (apex P)).
Proof.
  intros Hwf. rewrite (spec_live_eq P Hwf). destruct (apex_reachable P); [|intros []].
  rewrite filter_In. tauto.
Qed.

(* never a rejected tile, a tile outside the sub-pyramid or deeper than the pyramid *)
Theorem spec_live_scope P q :
  wf_pyr P -> In q (spec_live P) ->
  in_filter P q = true /\ below q (apex P) = true /\ (pn (apex P) <= pn q <= depth P)%nat.
Proof.
  intros Hwf H. apply (spec_live_sub P q Hwf) in H.
  pose proof (pwalk_in_below _ _ _ _ H) as Hb. apply pwalk_in_top in H.
  pose proof (wf_levels P Hwf). repeat split; try tauto; lia.
Qed.

Theorem spec_leaves_scope P q :
  In q (spec_leaves P) ->
  in_filter P q = true /\ below q (apex P) = true /\ pn q = depth P.
Proof.
  rewrite spec_leaves_eq. destruct (apex_reachable P); [|intros []].
  rewrite filter_In. intros [H Hn]. apply Nat.eqb_eq in Hn.
  pose proof (pwalk_in_below _ _ _ _ H) as Hb. apply pwalk_in_top in H. tauto.
Qed.

Theorem spec_ops_scope P q :
  wf_pyr P -> In q (spec_ops P) ->
  in_filter P q = true /\ below q (apex P) = true /\ (pn (apex P) <= pn q < depth P)%nat.
Proof.
  intros Hwf H. apply spec_ops_in in H. destruct H as [H Hn].
  pose proof (spec_live_scope P q Hwf H). repeat split; try tauto; lia.
Qed.

Theorem spec_NoDup P :
  NoDup (spec_leaves P) /\ NoDup (spec_live P) /\ NoDup (spec_ops P).
Proof.
  assert (H1 : NoDup (spec_leaves P)).
  { unfold spec_leaves. destruct (apex_reachable P); [|constructor].
    apply NoDup_filter', pwalk_NoDup. }
  assert (H2 : NoDup (spec_live P)).
  { unfold spec_live, live_list. destruct (apex_reachable P); [|constructor].
    apply NoDup_filter', pwalk_NoDup. }
  repeat split; auto. unfold spec_ops. apply NoDup_filter'. exact H2.
Qed.

(* the walk's callbacks are children first as well *)
Lemma cfirst_filter g l : cfirst l -> cfirst (filter g l).
Proof.
  induction l as [|a l IH]; [auto|]. cbn [cfirst filter]. intros [H1 H2].
  destruct (g a); [|auto]. cbn [cfirst]. split; [|auto].
  intros c Hc Hin. apply filter_In in Hin. apply (H1 c Hc). tauto.
Qed.

Theorem spec_children_first P :
  cfirst (spec_leaves P) /\ cfirst (spec_live P) /\ cfirst (spec_ops P).
Proof.
  assert (H2 : cfirst (spec_live P)).
  { unfold spec_live, live_list. destruct (apex_reachable P); [|exact I].
    apply cfirst_filter, pwalk_cfirst. }
  repeat split; auto.
  - unfold spec_leaves. destruct (apex_reachable P); [|exact I]. apply cfirst_filter, pwalk_cfirst.
  - unfold spec_ops. apply cfirst_filter. exact H2.
Qed.

Theorem spec_ops_children_first P l1 q l2 c :
  spec_ops P = l1 ++ q :: l2 -> In c (children q) -> In c (spec_ops P) -> In c l1.
Proof.
  intros E Hc Hin. destruct (spec_children_first P) as (_ & _ & H).
  pose proof (cfirst_split _ l1 q l2 H E c Hc) as Hn.
  rewrite E in Hin. apply in_app_iff in Hin. destruct Hin as [Hi|[Hi|Hi]]; [exact Hi| |contradiction].
  subst c. apply children_level in Hc. lia.
Qed.

(* ---- item 6: sub-pyramid restriction ---------------------------------------------- *)

Lemma filter_below_pwalk acc a : forall m k p,
  pn a = (pn p + m)%nat -> ancestor m a = p -> (m < k)%nat ->
  filter (fun q => below q a) (pwalk k acc p) =
  if forallb acc (ancestors_up m a) then pwalk (k - m) acc a else [].
Proof.
  induction m as [|m IH]; intros k p Hn Ha Hk.
  - cbn [ancestor] in Ha. subst p. cbn [ancestors_up forallb]. rewrite Nat.sub_0_r.
    apply filter_all. intros q Hq. eapply pwalk_in_below; eauto.
  - destruct k as [|k]; [lia|].
    rewrite ancestors_up_snoc, forallb_app. cbn [forallb]. rewrite Ha, andb_true_r.
    rewrite filter_pwalk_S. destruct (acc p) eqn:Ea; [|rewrite andb_false_r; reflexivity].
    rewrite andb_true_r.
    set (c := ancestor m a).
    assert (Hcn : pn c = S (pn p)) by (unfold c; rewrite ancestor_pn; lia).
    assert (Hcp : parent_pos c = p) by (unfold c; rewrite <- ancestor_S_out; exact Ha).
    assert (Hin : In c (children p)) by (rewrite <- Hcp; apply child_parent_pos; lia).
    replace (below p a) with false by (symmetry; apply below_shallower; lia).
    assert (Hrej : forall ci, In ci (children p) -> ci <> c ->
                     filter (fun q => below q a) (pwalk k acc ci) = []).
    { intros ci Hci Hne. apply filter_none. intros q Hq.
      destruct (below q a) eqn:Eb; [|reflexivity]. exfalso. apply Hne.
      apply below_iff in Eb. destruct Eb as [Hle Hqa].
      apply pwalk_in_top in Hq. destruct Hq as (Hq1 & Hq2 & _).
      pose proof (children_level _ _ Hci) as Hl.
      replace (pn q - pn ci)%nat with ((pn q - pn a) + m)%nat in Hq2 by lia.
      rewrite ancestor_add, Hqa in Hq2. symmetry. exact Hq2. }
    specialize (IH k c ltac:(lia) eq_refl ltac:(lia)).
    replace (S k - S m)%nat with (k - m)%nat by lia.
    destruct (c_distinct p) as (D01 & D02 & D03 & D12 & D13 & D23).
    assert (I0 : In (c0 p) (children p)) by (apply children_cases; auto).
    assert (I1 : In (c1 p) (children p)) by (apply children_cases; auto).
    assert (I2 : In (c2 p) (children p)) by (apply children_cases; auto).
    assert (I3 : In (c3 p) (children p)) by (apply children_cases; auto 6).
    apply children_cases in Hin. destruct Hin as [E|[E|[E|E]]].
    + rewrite (Hrej (c1 p)), (Hrej (c2 p)), (Hrej (c3 p)) by (auto; congruence).
      rewrite <- E, IH. cbn [app]. apply app_nil_r.
    + rewrite (Hrej (c0 p)), (Hrej (c2 p)), (Hrej (c3 p)) by (auto; congruence).
      rewrite <- E, IH. cbn [app]. apply app_nil_r.
    + rewrite (Hrej (c0 p)), (Hrej (c1 p)), (Hrej (c3 p)) by (auto; congruence).
      rewrite <- E, IH. cbn [app]. apply app_nil_r.
    + rewrite (Hrej (c0 p)), (Hrej (c1 p)), (Hrej (c2 p)) by (auto; congruence).
      rewrite <- E, IH. cbn [app]. apply app_nil_r.
Qed.

(* the pyramid returned by subpyramid(a) *)
Definition subpyr (P : pyr) (a : pos) : pyr := mkPyr (kd P) (depth P) (ufilt P) a true.

Lemma forallb_true {T} (l : list T) : forallb (fun _ => true) l = true.
Proof. induction l; auto. Qed.

Lemma apex_reachable_forallb P :
  apex_reachable P = forallb (in_filter P) (ancestors_up (pn (apex P)) (apex P)).
Proof.
  unfold apex_reachable, in_filter. destruct (kd P); try (rewrite forallb_true; reflexivity).
  apply chain_ok_forallb.
Qed.

Section Restrict.
  Variable P : pyr.
  Variable a : pos.
  Hypothesis Hroot : apex P = root.
  Hypothesis Hv : valid a = true.
  Hypothesis Hle : (pn a <= depth P)%nat.

  Lemma wf_full : wf_pyr P.
  Proof. split; [rewrite Hroot; reflexivity|]. split; [rewrite Hroot; cbn; lia|auto]. Qed.

  Lemma wf_subpyr : wf_pyr (subpyr P a).
  Proof. split; [exact Hv|]. split; [exact Hle|]. cbn [sub subpyr]. discriminate. Qed.

  Lemma full_reachable : apex_reachable P = true.
  Proof. rewrite apex_reachable_forallb, Hroot. reflexivity. Qed.

  Lemma restrict_gen (g : pos -> bool) :
    (if apex_reachable (subpyr P a)
     then filter g (pwalk (sub_levels (subpyr P a)) (in_filter (subpyr P a)) (apex (subpyr P a)))
     else []) =
    filter (fun q => below q a)
      (if apex_reachable P then filter g (pwalk (sub_levels P) (in_filter P) (apex P)) else []).
  Proof.
    rewrite full_reachable, filter_comm'.
    rewrite (apex_reachable_forallb (subpyr P a)).
    change (in_filter (subpyr P a)) with (in_filter P).
    change (apex (subpyr P a)) with a.
    unfold sub_levels. change (depth (subpyr P a)) with (depth P).
    change (apex (subpyr P a)) with a. rewrite Hroot.
    rewrite (filter_below_pwalk (in_filter P) a (pn a) (S (depth P) - pn root) root);
      [|reflexivity|apply ancestor_root; exact Hv|cbn [pn root]; lia].
    cbn [pn root]. rewrite Nat.sub_0_r.
    destruct (forallb (in_filter P) (ancestors_up (pn a) a)); reflexivity.
  Qed.

  Theorem restrict_leaves :
    spec_leaves (subpyr P a) = filter (fun q => below q a) (spec_leaves P).
  Proof. rewrite !spec_leaves_eq. apply restrict_gen. Qed.

  Theorem restrict_live :
    spec_live (subpyr P a) = filter (fun q => below q a) (spec_live P).
  Proof.
    rewrite (spec_live_eq _ wf_subpyr), (spec_live_eq _ wf_full).
    apply (restrict_gen (glive (in_filter P) (depth P))).
  Qed.

  Theorem restrict_ops :
    spec_ops (subpyr P a) = filter (fun q => below q a) (spec_ops P).
  Proof.
    rewrite (spec_ops_eq _ wf_subpyr), (spec_ops_eq _ wf_full).
    apply (restrict_gen (gops (in_filter P) (depth P))).
  Qed.

  (* a rejected ancestor of the apex (or of the apex itself) empties the sub-pyramid *)
  Theorem restrict_unreachable :
    apex_reachable (subpyr P a) = false ->
    spec_live (subpyr P a) = [] /\ spec_leaves (subpyr P a) = [] /\ spec_ops (subpyr P a) = [] /\
    forall q, In q (spec_live P) -> below q a = false.
  Proof.
    intros Hr. assert (E : spec_live (subpyr P a) = []) by (unfold spec_live; rewrite Hr; reflexivity).
    repeat split.
    - exact E.
    - unfold spec_leaves. rewrite Hr. reflexivity.
    - unfold spec_ops. rewrite E. reflexivity.
    - intros q Hq. destruct (below q a) eqn:Eb; [|reflexivity].
      assert (Hin : In q (filter (fun q => below q a) (spec_live P))) by (apply filter_In; auto).
      rewrite <- restrict_live, E in Hin. destruct Hin.
  Qed.

  (* the counters of the sub-pyramid count the part of the full result below the apex *)
  Theorem restrict_counts :
    count_live_tiles (subpyr P a) =
      Some (N.of_nat (length (filter (fun q => below q a) (spec_live P)))) /\
    count_leaf_tiles (subpyr P a) =
      Some (N.of_nat (length (filter (fun q => below q a) (spec_leaves P)))) /\
    count_operations (subpyr P a) =
      Some (N.of_nat (length (filter (fun q => below q a) (spec_ops P)))).
  Proof.
    rewrite (count_live_correct _ wf_subpyr), (count_leaf_correct _ wf_subpyr),
      (count_ops_correct _ wf_subpyr), restrict_live, restrict_leaves, restrict_ops.
    repeat split.
  Qed.
End Restrict.

(* ---- concrete instances used by the non-vacuity examples of Properties/C13.v ------ *)

(* depth 3; (2,2,0) is accepted but has no accepted child (not live); (3,7,7) is
   accepted but its parent (2,3,3) is not (a gap: never reached) *)
Definition ex_accept : list pos :=
  [ mkPos 1 0 0; mkPos 1 1 0;
    mkPos 2 0 0; mkPos 2 1 1; mkPos 2 2 0;
    mkPos 3 0 0; mkPos 3 1 1; mkPos 3 2 2; mkPos 3 7 7 ].
Definition ex_filter (p : pos) : bool := existsb (pos_eqb p) ex_accept.

Definition ex_full : pyr := mkPyr ToastFiltered 3 ex_filter root false.
Definition ex_sub : pyr := subpyr ex_full (mkPos 1 0 0).        (* apex inside the filter *)
Definition ex_sub_deep : pyr := subpyr ex_full (mkPos 3 1 1).   (* apex depth = pyramid depth *)
Definition ex_sub_disjoint : pyr := subpyr ex_full (mkPos 1 1 1). (* filter disjoint from it *)
Definition ex_sub_gap : pyr := subpyr ex_full (mkPos 3 7 7).    (* accepted apex, rejected ancestor *)
Definition ex_generic_sub : pyr := mkPyr Generic 3 (fun _ => true) (mkPos 2 1 3) true.
Definition ex_toast_sub : pyr := mkPyr Toast 2 (fun _ => true) (mkPos 1 1 0) true.
Definition ex_depth0 : pyr := mkPyr Toast 0 (fun _ => true) root false.
