(* cli.tile_allsky_impl as TRANSLATED from toasty/cli.py on every build (Generated/CliAllskySrc.v)
   behaves like the hand-written model (Model/CliScript.v) under every valuation of its settings;
   in the model each projection name selects its own sampler factory and planet / panorama flags. *)
From Coq Require Import ZArith String List Bool.
From Toasty Require Import Model.SrcPrelude Model.CliScript.
From Toasty Require Import Generated.CliAllskySrc.
Import ListNotations.
Local Open Scope string_scope.

Lemma src_tile_allsky_impl_eq (is_none : sval unit -> bool) (eq_lit : sval unit -> string -> bool) (is_true : sval unit -> bool) :
  run_tree is_none eq_lit is_true src_cli_tile_allsky_impl = tile_allsky_impl_model eq_lit is_true.
Proof.
  unfold tile_allsky_impl_model, projection_table, src_cli_tile_allsky_impl. cbn [run_tree allsky_from].
  unfold allsky_calls, as_builder, as_image, pyramid_at, setting.
  repeat (match goal with |- context [eq_lit ?v ?l] => destruct (eq_lit v l) end;
          [match goal with |- context [is_true ?v] => destruct (is_true v) end; reflexivity|]).
  reflexivity.
Qed.

(* for a command line that names projection p (the tests compare the setting with literals), the
   table entry of p decides: its sampler factory, its flags; an unknown name dies *)
Lemma allsky_projection_selects (p fn : string) (pl pa : bool) (is_true : sval unit -> bool) :
  In (p, (fn, pl, pa)) projection_table ->
  tile_allsky_impl_model (fun _ s => String.eqb p s) is_true = (true, allsky_calls fn pl pa is_true).
Proof.
  unfold projection_table. cbn [In].
  intros [H|[H|[H|[H|[H|[H|[H|[]]]]]]]]; injection H as <- <- <- <-; reflexivity.
Qed.

Lemma allsky_unknown_projection_dies (p : string) (is_true : sval unit -> bool) :
  (forall name v, In (name, v) projection_table -> String.eqb p name = false) ->
  tile_allsky_impl_model (fun _ s => String.eqb p s) is_true = (false, []).
Proof.
  intros H. unfold tile_allsky_impl_model, projection_table in *. cbn [allsky_from].
  rewrite (H "plate-carree" _ (or_introl eq_refl)).
  rewrite (H "plate-carree-galactic" _ (or_intror (or_introl eq_refl))).
  rewrite (H "plate-carree-ecliptic" _ (or_intror (or_intror (or_introl eq_refl)))).
  rewrite (H "plate-carree-planet" _ (or_intror (or_intror (or_intror (or_introl eq_refl))))).
  rewrite (H "plate-carree-planet-zeroleft" _ (or_intror (or_intror (or_intror (or_intror (or_introl eq_refl)))))).
  rewrite (H "plate-carree-planet-zeroright" _ (or_intror (or_intror (or_intror (or_intror (or_intror (or_introl eq_refl))))))).
  rewrite (H "plate-carree-panorama" _ (or_intror (or_intror (or_intror (or_intror (or_intror (or_intror (or_introl eq_refl)))))))).
  reflexivity.
Qed.
