(* Proofs about Model/ParUtil.v. *)
From Coq Require Import ZArith Bool Lia.
From Toasty Require Import Model.ParUtil.
Local Open Scope Z_scope.

Lemma resolve_positive fork slurm cpus req : 1 <= resolve_parallelism fork slurm cpus req.
Proof.
  unfold resolve_parallelism. cbv zeta.
  match goal with |- 1 <= (if 1 <? ?p then _ else _) => destruct (1 <? p) eqn:E end;
    [apply Z.ltb_lt in E; lia|lia].
Qed.

(* an explicit request of at least 1 is what the stages get, whatever the environment says *)
Lemma resolve_explicit fork slurm cpus n :
  1 <= n -> resolve_parallelism fork slurm cpus (Some n) = if fork then n else 1.
Proof.
  intros Hn. unfold resolve_parallelism. cbv zeta.
  destruct fork; cbn [negb andb]; rewrite ?andb_false_r, ?andb_true_r;
    destruct (1 <? n) eqn:E; rewrite ?E; try reflexivity.
  apply Z.ltb_ge in E. lia.
Qed.

(* a request for serial processing is honoured in every environment *)
Lemma resolve_serial_request fork slurm cpus n :
  n <= 1 -> resolve_parallelism fork slurm cpus (Some n) = 1 /\ runs_serially fork slurm cpus (Some n) = true.
Proof.
  intros Hn. assert (E : resolve_parallelism fork slurm cpus (Some n) = 1).
  { unfold resolve_parallelism. cbv zeta.
    replace (1 <? n) with false by (symmetry; apply Z.ltb_ge; lia). cbn [andb].
    replace (1 <? n) with false by (symmetry; apply Z.ltb_ge; lia). reflexivity. }
  split; [exact E|]. unfold runs_serially. rewrite E. reflexivity.
Qed.

(* without fork every stage runs serially *)
Lemma resolve_no_fork slurm cpus req : resolve_parallelism false slurm cpus req = 1.
Proof.
  unfold resolve_parallelism. cbv zeta. cbn [negb].
  destruct req as [n|]; rewrite ?andb_true_r.
  - destruct (1 <? n) eqn:E; [reflexivity|]. rewrite E. reflexivity.
  - reflexivity.
Qed.

(* unspecified: the Slurm allocation when it parses, else the CPU count (fork) *)
Lemma resolve_default_slurm cpus n :
  resolve_parallelism true (Some (Some n)) cpus None = Z.max 1 n.
Proof.
  unfold resolve_parallelism. cbv zeta. cbn [negb]. rewrite andb_false_r.
  destruct (1 <? n) eqn:E; [apply Z.ltb_lt in E|apply Z.ltb_ge in E]; lia.
Qed.

Lemma resolve_default_cpus slurm cpus :
  (slurm = None \/ slurm = Some None) -> resolve_parallelism true slurm cpus None = Z.max 1 cpus.
Proof.
  intros [-> | ->]; unfold resolve_parallelism; cbv zeta; cbn [negb]; rewrite andb_false_r;
    (destruct (1 <? cpus) eqn:E; [apply Z.ltb_lt in E|apply Z.ltb_ge in E]; lia).
Qed.
