(* Lemmas about Model/AutoTiler.v (C17): recorded tile levels vs deepest written
   layer; FitsTiler.tile along histories of calls. *)
From Coq Require Import NArith ZArith String List Bool Lia.
From Toasty Require Import Model.Paths Model.AutoTiler.
Import ListNotations.
Local Open Scope N_scope.

(* ------------------------------------------------------------------ deepest layer *)

Lemma deepest_generic L (base : N -> N -> Prop) cascaded :
  (exists x y, base x y) -> deepest_populated (pyramid_written L base cascaded) L.
Proof.
  intros [x [y Hb]]. split.
  - exists x, y. left. auto.
  - intros n x' y' [[E _] | [_ [Hlt _]]]; lia.
Qed.

(* without a base tile nothing at all is written *)
Lemma nothing_without_base L (base : N -> N -> Prop) cascaded n x y :
  (forall x y, ~ base x y) -> ~ pyramid_written L base cascaded n x y.
Proof.
  intros Hn [[_ Hb] | [_ [_ [X [Y [Hb _]]]]]]; eapply Hn; eauto.
Qed.

Lemma study_base_corner w h :
  1 <= w -> 1 <= h ->
  let t := study_init w h in study_base t (st_tx0 t) (st_ty0 t) = true.
Proof.
  intros Hw Hh t. unfold study_base.
  assert (A : st_tx0 t <= st_tx1 t).
  { unfold st_tx0, st_tx1. apply N.div_le_mono; [lia |]. cbn [st_width t]. unfold t, study_init; cbn. lia. }
  assert (B : st_ty0 t <= st_ty1 t).
  { unfold st_ty0, st_ty1. apply N.div_le_mono; [lia |]. unfold t, study_init; cbn. lia. }
  rewrite !andb_true_iff, !N.leb_le. repeat split; try lia.
Qed.

Lemma study_levels_deepest w h cascaded :
  1 <= w -> 1 <= h ->
  deepest_populated (study_written w h cascaded) (study_recorded_levels w h).
Proof.
  intros Hw Hh. unfold study_written, study_recorded_levels.
  apply deepest_generic.
  exists (st_tx0 (study_init w h)), (st_ty0 (study_init w h)).
  apply study_base_corner; assumption.
Qed.

Lemma toast_levels_deepest depth cascaded :
  deepest_populated (toast_written depth cascaded) (toast_recorded_levels depth).
Proof.
  unfold toast_written, toast_recorded_levels. apply deepest_generic.
  exists 0, 0. unfold toast_base.
  assert (0 < 2 ^ depth) by (apply N.neq_0_lt_0, N.pow_nonzero; lia). lia.
Qed.

(* filtered TOAST (tile_fits in TOAST mode) and multi-image TAN mosaics: any
   non-empty base layer at the recorded level *)
Lemma subset_levels_deepest L (base : N -> N -> Prop) cascaded :
  (exists x y, base x y) -> deepest_populated (pyramid_written L base cascaded) L.
Proof. apply deepest_generic. Qed.

(* ---- the executable set equals the specification set ---- *)

Lemma range_div a b m x :
  0 < m -> a <= b ->
  ((exists X, (a <= X /\ X <= b) /\ X / m = x) <-> (a / m <= x /\ x <= b / m)).
Proof.
  intros Hm Hab. split.
  - intros [X [[H1 H2] E]]. subst x. split; apply N.div_le_mono; lia.
  - intros [H1 H2]. destruct (N.eq_dec x (a / m)) as [E | NE].
    + exists a. repeat split; try lia; auto.
    + exists (x * m). assert (Hx : a / m + 1 <= x) by lia.
      pose proof (N.mul_succ_div_gt a m ltac:(lia)) as G1.
      pose proof (N.mul_div_le b m ltac:(lia)) as G2.
      assert (G3 : (a / m + 1) * m <= x * m) by (apply N.mul_le_mono_r; exact Hx).
      assert (G4 : x * m <= (b / m) * m) by (apply N.mul_le_mono_r; exact H2).
      repeat split; try lia.
      apply N.div_mul. lia.
Qed.

Lemma study_written_b_spec w h cascaded n x y :
  1 <= w -> 1 <= h ->
  (study_written_b w h cascaded n x y = true <-> study_written w h cascaded n x y).
Proof.
  intros Hw Hh. unfold study_written_b, study_written, pyramid_written.
  set (t := study_init w h). set (L := st_levels t).
  assert (Ax : st_tx0 t <= st_tx1 t).
  { unfold st_tx0, st_tx1. apply N.div_le_mono; [lia |]. unfold t, study_init; cbn. lia. }
  assert (Ay : st_ty0 t <= st_ty1 t).
  { unfold st_ty0, st_ty1. apply N.div_le_mono; [lia |]. unfold t, study_init; cbn. lia. }
  destruct (N.eqb_spec n L) as [E | NE].
  - split.
    + intros H. left. auto.
    + intros [[_ H] | [_ [Hlt _]]]; [exact H | lia].
  - destruct cascaded; cbn [andb].
    + destruct (N.ltb_spec n L) as [Hlt | Hge].
      * set (k := L - n). set (m := 2 ^ k).
        assert (Hm : 0 < m) by (apply N.neq_0_lt_0, N.pow_nonzero; lia).
        rewrite !N.shiftr_div_pow2. fold m.
        pose proof (range_div (st_tx0 t) (st_tx1 t) m x Hm Ax) as Rx.
        pose proof (range_div (st_ty0 t) (st_ty1 t) m y Hm Ay) as Ry.
        rewrite !andb_true_iff, !N.leb_le. split.
        -- intros [[[H1 H2] H3] H4]. right. split; [reflexivity |]. split; [exact Hlt |].
           destruct (proj2 Rx (conj H1 H2)) as [X [[X1 X2] X3]].
           destruct (proj2 Ry (conj H3 H4)) as [Y [[Y1 Y2] Y3]].
           exists X, Y. split; [| split; assumption].
           unfold study_base. rewrite !andb_true_iff, !N.leb_le. auto.
        -- intros [[E _] | [_ [_ [X [Y [Hb [EX EY]]]]]]]; [contradiction |].
           unfold study_base in Hb. rewrite !andb_true_iff, !N.leb_le in Hb.
           destruct Hb as [[[B1 B2] B3] B4].
           destruct (proj1 Rx (ex_intro _ X (conj (conj B1 B2) EX))) as [H1 H2].
           destruct (proj1 Ry (ex_intro _ Y (conj (conj B3 B4) EY))) as [H3 H4].
           auto.
      * split; [discriminate |].
        intros [[E _] | [_ [Hlt _]]]; [contradiction | lia].
    + split; [discriminate |].
      intros [[E _] | [F _]]; [contradiction | discriminate].
Qed.

Lemma toast_written_b_spec depth cascaded n x y :
  toast_written_b depth cascaded n x y = true <-> toast_written depth cascaded n x y.
Proof.
  unfold toast_written_b, toast_written, pyramid_written, toast_base.
  destruct (N.eqb_spec n depth) as [E | NE].
  - subst n. rewrite andb_true_iff, !N.ltb_lt. split.
    + intros H. left. auto.
    + intros [[_ H] | [_ [Hlt _]]]; [exact H | lia].
  - destruct cascaded; cbn [andb].
    + destruct (N.ltb_spec n depth) as [Hlt | Hge]; cbn [andb].
      * set (k := depth - n).
        assert (Hk : 0 < 2 ^ k) by (apply N.neq_0_lt_0, N.pow_nonzero; lia).
        assert (Hp : 2 ^ depth = 2 ^ n * 2 ^ k) by (rewrite <- N.pow_add_r; f_equal; unfold k; lia).
        rewrite andb_true_iff, !N.ltb_lt. split.
        -- intros [Hx Hy]. right. split; [reflexivity |]. split; [exact Hlt |].
           exists (x * 2 ^ k), (y * 2 ^ k). rewrite Hp. repeat split.
           ++ apply N.mul_lt_mono_pos_r; assumption.
           ++ apply N.mul_lt_mono_pos_r; assumption.
           ++ apply N.div_mul; lia.
           ++ apply N.div_mul; lia.
        -- intros [[E _] | [_ [_ [X [Y [[HX HY] [EX EY]]]]]]]; [contradiction |].
           subst x y. rewrite Hp in HX, HY.
           split; apply N.div_lt_upper_bound; try lia.
      * split; [discriminate |].
        intros [[E _] | [_ [Hlt _]]]; [contradiction | lia].
    + split; [discriminate |].
      intros [[E _] | [F _]]; [contradiction | discriminate].
Qed.

Lemma list_written_b_spec L base cascaded n x y :
  list_written_b L base cascaded n x y = true
  <-> pyramid_written L (fun x y => in_base base x y = true) cascaded n x y.
Proof.
  unfold list_written_b, pyramid_written.
  destruct (N.eqb_spec n L) as [E | NE].
  - split.
    + intros H. left. auto.
    + intros [[_ H] | [_ [Hlt _]]]; [exact H | lia].
  - destruct cascaded; cbn [andb].
    + destruct (N.ltb_spec n L) as [Hlt | Hge].
      * rewrite existsb_exists. split.
        -- intros [[X Y] [Hin H]]. cbn [fst snd] in H.
           rewrite andb_true_iff, !N.eqb_eq, !N.shiftr_div_pow2 in H.
           right. split; [reflexivity |]. split; [exact Hlt |].
           exists X, Y. split; [| exact H].
           unfold in_base. rewrite existsb_exists. exists (X, Y). cbn [fst snd].
           rewrite !N.eqb_refl. auto.
        -- intros [[E _] | [_ [_ [X [Y [Hb [EX EY]]]]]]]; [contradiction |].
           unfold in_base in Hb. rewrite existsb_exists in Hb.
           destruct Hb as [[X' Y'] [Hin H]]. cbn [fst snd] in H.
           rewrite andb_true_iff, !N.eqb_eq in H. destruct H; subst X' Y'.
           exists (X, Y). split; [exact Hin |]. cbn [fst snd].
           rewrite andb_true_iff, !N.eqb_eq, !N.shiftr_div_pow2. auto.
      * split; [discriminate |].
        intros [[E _] | [_ [Hlt _]]]; [contradiction | lia].
    + split; [discriminate |].
      intros [[E _] | [F _]]; [contradiction | discriminate].
Qed.

(* ------------------------------------------------------------------ FitsTiler.tile *)

Section Tiler.
  Variable p : pyramid_io.
  Variable name : string.
  Variables tiling hips : desc -> desc.

  Let produce := tiling (fresh_builder p name).

  (* the directory states reachable by the TAN / TOAST workflows: absent, or
     present without HiPS properties and with an index_rel.wtml *)
  Definition plain_disk (d : disk) : Prop := d = NoDir \/ exists w, d = Dir false (Some w).

  (* -- as coded -- *)

  Lemma coded_fresh_agrees ov :
    let o := tile_coded p name tiling hips ov NoDir in
    agrees o /\ returns_self o = true /\ builder o = produce.
  Proof. cbn. split; [exists false; reflexivity | auto]. Qed.

  Lemma coded_override_agrees d :
    let o := tile_coded p name tiling hips true d in
    agrees o /\ returns_self o = true /\ builder o = produce.
  Proof. destruct d; cbn; (split; [exists false; reflexivity | auto]). Qed.

  (* reuse: the fresh default builder is handed back, whatever the WTML says *)
  Lemma coded_reuse w :
    let o := tile_coded p name tiling hips false (Dir false (Some w)) in
    builder o = fresh_builder p name /\ returns_self o = false /\ disk_after o = Dir false (Some w).
  Proof. cbn. auto. Qed.

  Lemma coded_reuse_agrees_iff w :
    agrees (tile_coded p name tiling hips false (Dir false (Some w))) <-> w = fresh_builder p name.
  Proof.
    cbn. unfold agrees. cbn. split.
    - intros [pr E]. injection E. auto.
    - intros ->. exists false. reflexivity.
  Qed.

  Lemma coded_reuse_full w :
    let o := tile_coded p name tiling hips false (Dir false (Some w)) in
    (builder o = fresh_builder p name /\ returns_self o = false /\ disk_after o = Dir false (Some w))
    /\ (agrees o <-> w = fresh_builder p name).
  Proof. split. apply coded_reuse. apply coded_reuse_agrees_iff. Qed.

  (* -- repaired -- *)

  Lemma fixed_step ov d :
    plain_disk d ->
    let o := tile_fixed p name tiling hips ov d in
    agrees o /\ returns_self o = true /\ plain_disk (disk_after o).
  Proof.
    intros [-> | [w ->]].
    - cbn. split; [exists false; reflexivity |]. split; [reflexivity |]. right. eexists. reflexivity.
    - destruct ov; cbn.
      + split; [exists false; reflexivity |]. split; [reflexivity |]. right. eexists. reflexivity.
      + split; [exists false; reflexivity |]. split; [reflexivity |]. right. eexists. reflexivity.
  Qed.

  Lemma fixed_all_histories h d :
    plain_disk d ->
    Forall (fun o => agrees o /\ returns_self o = true) (run (tile_fixed p name tiling hips) h d).
  Proof.
    revert d. induction h as [| ov h IH]; intros d Hd; cbn [run].
    - constructor.
    - destruct (fixed_step ov d Hd) as [A [B C]].
      constructor; [split; assumption |]. apply IH. exact C.
  Qed.

  (* identical calls: starting from no directory, every call of every history
     hands back the description the first call produced, and that is what the
     WTML on disk says *)
  Lemma fixed_step_const ov d :
    (d = NoDir \/ d = Dir false (Some produce)) ->
    let o := tile_fixed p name tiling hips ov d in
    builder o = produce /\ disk_after o = Dir false (Some produce).
  Proof. intros [-> | ->]; destruct ov; cbn; auto. Qed.

  Lemma fixed_history_constant h d :
    (d = NoDir \/ d = Dir false (Some produce)) ->
    Forall (fun o => builder o = produce /\ disk_after o = Dir false (Some produce) /\ returns_self o = true)
           (run (tile_fixed p name tiling hips) h d).
  Proof.
    revert d. induction h as [| ov h IH]; intros d Hd; cbn [run].
    - constructor.
    - destruct (fixed_step_const ov d Hd) as [A B].
      constructor.
      + split; [exact A |]. split; [exact B |].
        destruct Hd as [-> | ->]; destruct ov; reflexivity.
      + apply IH. right. exact B.
  Qed.

  (* the two versions differ only on the reuse branch *)
  Lemma fixed_eq_coded_elsewhere ov d :
    (ov = true \/ d = NoDir) ->
    tile_fixed p name tiling hips ov d = tile_coded p name tiling hips ov d.
  Proof. intros [-> | ->]; [destruct d |]; reflexivity. Qed.
End Tiler.

(* the witness: a 300 x 300 image (one tile level), two plain calls *)
Definition witness_pio : pyramid_io := mkPio "out" LsYsYX Fits.
Definition witness_tiling (d : desc) : desc :=
  let d' := study_apply (study_recorded_levels 300 300) d in
  mkDesc (d_url d') (d_file_type d') (d_levels d') (d_proj d') (d_name d') [50%Z; 10%Z].

Lemma coded_reuse_refuted :
  exists p name tiling hips h,
    ~ Forall agrees (run (tile_coded p name tiling hips) h NoDir).
Proof.
  exists witness_pio, "out"%string, witness_tiling, (fun d => d), [false; false].
  intros H. cbn [run] in H. apply Forall_inv_tail in H. apply Forall_inv in H.
  unfold agrees in H. vm_compute in H. destruct H as [pr E]. discriminate E.
Qed.

Lemma coded_reuse_witness_values :
  let os := run (tile_coded witness_pio "out" witness_tiling (fun d => d)) [false; false] NoDir in
  map (fun o => (d_levels (builder o), d_proj (builder o), d_astro (builder o), returns_self o, agrees_b o)) os
  = [ (1, Tan, [50%Z; 10%Z], true, true); (0, SkyImage, [], false, false) ].
Proof. vm_compute. reflexivity. Qed.

Lemma fixed_witness_values :
  let os := run (tile_fixed witness_pio "out" witness_tiling (fun d => d)) [false; false; true] NoDir in
  map (fun o => (d_levels (builder o), d_proj (builder o), d_astro (builder o), returns_self o, agrees_b o)) os
  = [ (1, Tan, [50%Z; 10%Z], true, true); (1, Tan, [50%Z; 10%Z], true, true); (1, Tan, [50%Z; 10%Z], true, true) ].
Proof. vm_compute. reflexivity. Qed.
