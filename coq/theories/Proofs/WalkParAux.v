(* Helper lemmas for the proofs about Model/WalkPar.v (C01): occurrence counts,
   list update, the readiness table and the 4-bit readiness word. *)
From Coq Require Import List NArith Arith Bool Lia Permutation.
From Toasty Require Import Model.Quadtree Model.Reducer Model.WalkPar
     Proofs.QuadtreeP Proofs.ReducerP Proofs.EnumP Proofs.WalkParDefs.
Import ListNotations.

(* ---- occurrence counts of positions ------------------------------------------- *)

Definition cnt (q : pos) (l : list pos) : nat := count_occ pos_eq_dec l q.

Lemma cnt_nil q : cnt q [] = 0.
Proof. reflexivity. Qed.

Lemma cnt_app q l1 l2 : cnt q (l1 ++ l2) = cnt q l1 + cnt q l2.
Proof. apply count_occ_app. Qed.

Lemma cnt_cons q p l : cnt q (p :: l) = cnt q [p] + cnt q l.
Proof. change (p :: l) with ([p] ++ l). apply cnt_app. Qed.

Lemma cnt_one_same p : cnt p [p] = 1.
Proof. unfold cnt. rewrite count_occ_cons_eq by reflexivity. reflexivity. Qed.

Lemma cnt_one_diff q p : q <> p -> cnt q [p] = 0.
Proof. intros H. unfold cnt. rewrite count_occ_cons_neq by congruence. reflexivity. Qed.

Lemma cnt_one_le q p : cnt q [p] <= 1.
Proof.
  destruct (pos_eq_dec q p) as [->|H]; [rewrite cnt_one_same|rewrite cnt_one_diff by exact H]; lia.
Qed.

Lemma cnt_one_pos q p : cnt q [p] >= 1 -> q = p.
Proof.
  intros H. destruct (pos_eq_dec q p) as [->|Hn]; [reflexivity|].
  rewrite cnt_one_diff in H by exact Hn. lia.
Qed.

Lemma cnt_in q l : In q l <-> cnt q l >= 1.
Proof. unfold cnt. rewrite (count_occ_In pos_eq_dec). lia. Qed.

Lemma cnt_notin q l : ~ In q l <-> cnt q l = 0.
Proof. unfold cnt. apply count_occ_not_In. Qed.

Lemma cnt_nodup l : NoDup l <-> forall q, cnt q l <= 1.
Proof. apply NoDup_count_occ. Qed.

Lemma cnt_nodup_in l q : NoDup l -> In q l -> cnt q l = 1.
Proof.
  intros Hn Hi. pose proof (proj1 (cnt_nodup l) Hn q). apply cnt_in in Hi. lia.
Qed.

Lemma cnt_perm l1 l2 : (forall q, cnt q l1 = cnt q l2) -> Permutation l1 l2.
Proof. intros H. apply (Permutation_count_occ pos_eq_dec). exact H. Qed.

Lemma cnt_le_length q l : cnt q l <= length l.
Proof.
  induction l as [|a l IH]; [cbn; lia|]. rewrite cnt_cons. pose proof (cnt_one_le q a).
  cbn [length]. lia.
Qed.

(* ---- set_nth -------------------------------------------------------------------- *)

Lemma set_nth_split {T} (l : list T) w old x :
  nth_error l w = Some old ->
  exists l1 l2, l = l1 ++ old :: l2 /\ length l1 = w /\ set_nth l w x = l1 ++ x :: l2.
Proof.
  revert w. induction l as [|a l IH]; intros w H; [destruct w; discriminate|].
  destruct w as [|w].
  - injection H as ->. exists [], l. repeat split.
  - cbn [nth_error] in H. destruct (IH w H) as (l1 & l2 & E & Hl & Es).
    exists (a :: l1), l2. split; [cbn [app]; rewrite <- E; reflexivity|].
    split; [cbn [length]; lia|].
    unfold set_nth in *.
    change (firstn (S w) (a :: l)) with (a :: firstn w l).
    change (skipn (S (S w)) (a :: l)) with (skipn (S w) l).
    cbn [app]. rewrite Es. reflexivity.
Qed.

Lemma set_nth_length {T} (l : list T) w x : w < length l -> length (set_nth l w x) = length l.
Proof.
  intros H. unfold set_nth. rewrite app_length, firstn_length. cbn [length].
  rewrite skipn_length. lia.
Qed.

Lemma nth_error_lt {T} (l : list T) w x : nth_error l w = Some x -> w < length l.
Proof. intros H. apply nth_error_Some. congruence. Qed.

Lemma nth_error_set_nth_eq {T} (l : list T) w x : w < length l -> nth_error (set_nth l w x) w = Some x.
Proof.
  intros H. unfold set_nth. rewrite nth_error_app2; rewrite firstn_length; [|lia].
  replace (w - Nat.min w (length l)) with 0 by lia. reflexivity.
Qed.

Lemma nth_error_set_nth_neq {T} (l : list T) w x w' :
  w < length l -> w' <> w -> nth_error (set_nth l w x) w' = nth_error l w'.
Proof.
  intros H Hne.
  destruct (nth_error l w) as [old|] eqn:E; [|apply nth_error_None in E; lia].
  destruct (set_nth_split l w old x E) as (l1 & l2 & El & Hl & Es).
  rewrite Es, El. destruct (Nat.lt_ge_cases w' w) as [Hlt|Hge].
  - rewrite !nth_error_app1 by lia. reflexivity.
  - rewrite !nth_error_app2 by lia. destruct (w' - length l1) as [|m] eqn:Em; [lia|]. reflexivity.
Qed.

Lemma nth_set_nth_eq {T} (l : list T) w x d : w < length l -> nth w (set_nth l w x) d = x.
Proof. intros H. apply nth_error_nth. apply nth_error_set_nth_eq. exact H. Qed.

Lemma nth_set_nth_neq {T} (l : list T) w x w' d :
  w < length l -> w' <> w -> nth w' (set_nth l w x) d = nth w' l d.
Proof.
  intros H Hne. pose proof (nth_error_set_nth_neq l w x w' H Hne) as E.
  destruct (nth_error l w') as [y|] eqn:Ey.
  - rewrite (nth_error_nth _ _ _ E), (nth_error_nth _ _ _ Ey). reflexivity.
  - rewrite !nth_overflow; [reflexivity| |].
    + apply nth_error_None. exact Ey.
    + apply nth_error_None. exact E.
Qed.

Lemma nth_error_some_nth {T} (l : list T) w d : w < length l -> nth_error l w = Some (nth w l d).
Proof. intros H. apply nth_error_nth'. exact H. Qed.

(* counts through an update of one entry *)
Lemma cnt_flat_set_nth {T} (f : T -> list pos) l w old x q :
  nth_error l w = Some old ->
  cnt q (flat_map f (set_nth l w x)) + cnt q (f old) = cnt q (flat_map f l) + cnt q (f x).
Proof.
  intros H. destruct (set_nth_split l w old x H) as (l1 & l2 & El & _ & Es).
  rewrite Es. rewrite El. rewrite !flat_map_app. cbn [flat_map]. rewrite !cnt_app. lia.
Qed.

Lemma len_flat_set_nth {T U} (f : T -> list U) l w old x :
  nth_error l w = Some old ->
  length (flat_map f (set_nth l w x)) + length (f old) = length (flat_map f l) + length (f x).
Proof.
  intros H. destruct (set_nth_split l w old x H) as (l1 & l2 & El & _ & Es).
  rewrite Es. rewrite El. rewrite !flat_map_app. cbn [flat_map]. rewrite !app_length. lia.
Qed.

Lemma cnt_flat_nth {T} (f : T -> list pos) l w x q :
  nth_error l w = Some x -> cnt q (f x) <= cnt q (flat_map f l).
Proof.
  intros H. destruct (nth_error_split l w H) as (l1 & l2 & -> & _).
  rewrite flat_map_app. cbn [flat_map]. rewrite !cnt_app. lia.
Qed.

Lemma len_flat_nth {T U} (f : T -> list U) l w x :
  nth_error l w = Some x -> length (f x) <= length (flat_map f l).
Proof.
  intros H. destruct (nth_error_split l w H) as (l1 & l2 & -> & _).
  rewrite flat_map_app. cbn [flat_map]. rewrite !app_length. lia.
Qed.

Lemma flat_map_repeat_nil {T U} (f : T -> list U) x n : f x = [] -> flat_map f (repeat x n) = [].
Proof. intros H. induction n as [|n IH]; [reflexivity|]. cbn [repeat flat_map]. rewrite H, IH. reflexivity. Qed.

Lemma flat_map_all_nil {T U} (f : T -> list U) l :
  flat_map f l = [] -> forall x, In x l -> f x = [].
Proof.
  induction l as [|a l IH]; intros H x Hx; [destruct Hx|]. cbn [flat_map] in H.
  apply app_eq_nil in H. destruct H as [Ha Hl]. destruct Hx as [<-|Hx]; auto.
Qed.

(* ---- the readiness table -------------------------------------------------------- *)

Lemma rdy_get_remove r p q :
  rdy_get (rdy_remove r p) q = if pos_eq_dec q p then 0%N else rdy_get r q.
Proof.
  unfold rdy_get, rdy_remove. induction r as [|[a v] r IH].
  - cbn. destruct (pos_eq_dec q p); reflexivity.
  - cbn [filter fst]. destruct (pos_eqb a p) eqn:Eap; cbn [negb].
    + apply pos_eqb_eq in Eap. subst a. rewrite IH. cbn [find fst].
      destruct (pos_eq_dec q p) as [->|Hne]; [reflexivity|].
      destruct (pos_eqb p q) eqn:E; [apply pos_eqb_eq in E; congruence|reflexivity].
    + cbn [find fst]. destruct (pos_eqb a q) eqn:Eaq.
      * apply pos_eqb_eq in Eaq. subst a.
        destruct (pos_eq_dec q p) as [->|Hne]; [rewrite pos_eqb_refl in Eap; discriminate|reflexivity].
      * exact IH.
Qed.

Lemma rdy_get_set r p v q :
  rdy_get (rdy_set r p v) q = if pos_eq_dec q p then v else rdy_get r q.
Proof.
  unfold rdy_set. unfold rdy_get at 1. cbn [find fst].
  destruct (pos_eq_dec q p) as [->|Hne].
  - rewrite pos_eqb_refl. reflexivity.
  - destruct (pos_eqb p q) eqn:E; [apply pos_eqb_eq in E; congruence|].
    fold (rdy_get (rdy_remove r p) q). rewrite rdy_get_remove.
    destruct (pos_eq_dec q p); [congruence|reflexivity].
Qed.

(* ---- the readiness word ----------------------------------------------------------- *)

Lemma bit4_15 b0 b1 b2 b3 : N.eqb (bit4 b0 b1 b2 b3) 15 = b0 && b1 && b2 && b3.
Proof. destruct b0, b1, b2, b3; reflexivity. Qed.

Lemma bit4_or0 b0 b1 b2 b3 :
  N.lor (bit4 b0 b1 b2 b3) (N.shiftl 1 (2 * 0 + 0)) = bit4 true b1 b2 b3.
Proof. destruct b0, b1, b2, b3; reflexivity. Qed.
Lemma bit4_or1 b0 b1 b2 b3 :
  N.lor (bit4 b0 b1 b2 b3) (N.shiftl 1 (2 * 0 + 1)) = bit4 b0 true b2 b3.
Proof. destruct b0, b1, b2, b3; reflexivity. Qed.
Lemma bit4_or2 b0 b1 b2 b3 :
  N.lor (bit4 b0 b1 b2 b3) (N.shiftl 1 (2 * 1 + 0)) = bit4 b0 b1 true b3.
Proof. destruct b0, b1, b2, b3; reflexivity. Qed.
Lemma bit4_or3 b0 b1 b2 b3 :
  N.lor (bit4 b0 b1 b2 b3) (N.shiftl 1 (2 * 1 + 1)) = bit4 b0 b1 b2 true.
Proof. destruct b0, b1, b2, b3; reflexivity. Qed.

(* a position's index in its parent *)
Lemma parent_kid p pp ix iy :
  parent p = Some (pp, ix, iy) ->
  (ix = 0%N /\ iy = 0%N /\ p = c0 pp) \/ (ix = 1%N /\ iy = 0%N /\ p = c1 pp) \/
  (ix = 0%N /\ iy = 1%N /\ p = c2 pp) \/ (ix = 1%N /\ iy = 1%N /\ p = c3 pp).
Proof.
  intros H. pose proof (child_of_parent _ _ _ _ H) as Hin.
  apply children_cases in Hin.
  destruct Hin as [E|[E|[E|E]]]; subst p.
  - rewrite parent_c0 in H. injection H as <- <-. auto.
  - rewrite parent_c1 in H. injection H as <- <-. auto.
  - rewrite parent_c2 in H. injection H as <- <-. auto 6.
  - rewrite parent_c3 in H. injection H as <- <-. auto 8.
Qed.

Lemma parent_pos_c p : parent_pos (c0 p) = p /\ parent_pos (c1 p) = p /\ parent_pos (c2 p) = p /\ parent_pos (c3 p) = p.
Proof.
  unfold parent_pos. rewrite parent_c0, parent_c1, parent_c2, parent_c3. auto.
Qed.

Lemma pn_c p : pn (c0 p) = S (pn p) /\ pn (c1 p) = S (pn p) /\ pn (c2 p) = S (pn p) /\ pn (c3 p) = S (pn p).
Proof. auto. Qed.

(* ---- callback log ------------------------------------------------------------------ *)

Definition ev_t : Type := (bool * pos * nat)%type.

Definition starts (lg : list ev_t) : list pos :=
  map (fun e => snd (fst e)) (filter (fun e : ev_t => negb (fst (fst e))) lg).
Definition ends (lg : list ev_t) : list pos :=
  map (fun e => snd (fst e)) (filter (fun e : ev_t => fst (fst e)) lg).

Lemma starts_cons_s p w lg : starts ((false, p, w) :: lg) = p :: starts lg.
Proof. reflexivity. Qed.
Lemma starts_cons_e p w lg : starts ((true, p, w) :: lg) = starts lg.
Proof. reflexivity. Qed.
Lemma ends_cons_s p w lg : ends ((false, p, w) :: lg) = ends lg.
Proof. reflexivity. Qed.
Lemma ends_cons_e p w lg : ends ((true, p, w) :: lg) = p :: ends lg.
Proof. reflexivity. Qed.

Lemma in_starts p lg : In p (starts lg) <-> exists w, In (false, p, w) lg.
Proof.
  unfold starts. rewrite in_map_iff. split.
  - intros ([[b p'] w] & E & Hin). cbn [fst snd] in E. subst p'.
    apply filter_In in Hin. destruct Hin as [Hin Hb]. cbn [fst] in Hb.
    destruct b; [discriminate|]. eauto.
  - intros (w & Hin). exists (false, p, w). split; [reflexivity|].
    apply filter_In. split; [exact Hin|reflexivity].
Qed.

Lemma in_ends p lg : In p (ends lg) <-> exists w, In (true, p, w) lg.
Proof.
  unfold ends. rewrite in_map_iff. split.
  - intros ([[b p'] w] & E & Hin). cbn [fst snd] in E. subst p'.
    apply filter_In in Hin. destruct Hin as [Hin Hb]. cbn [fst] in Hb.
    destruct b; [|discriminate]. eauto.
  - intros (w & Hin). exists (true, p, w). split; [reflexivity|].
    apply filter_In. split; [exact Hin|reflexivity].
Qed.
