(* cli.transform_impl as TRANSLATED from toasty/cli.py on every build (Generated/CliTransformSrc.v;
   harness/py2coq.py) behaves like the hand-written model (Model/CliScript.v) under every valuation
   of its settings, and in the model every setting reaches the argument it is meant for. *)
From Coq Require Import ZArith String List Bool.
From Toasty Require Import Model.SrcPrelude Model.CliScript.
From Toasty Require Import Generated.CliTransformSrc.
Import ListNotations.
Local Open Scope string_scope.

Lemma src_transform_impl_eq (is_none : sval unit -> bool) (eq_lit : sval unit -> string -> bool) (is_true : sval unit -> bool) :
  run_tree is_none eq_lit is_true src_cli_transform_impl = transform_impl_model is_none eq_lit.
Proof.
  unfold transform_impl_model, transform_call, src_cli_transform_impl. cbn [run_tree].
  destruct (is_none (setting "transform_command")) eqn:E0; unfold setting in *; rewrite ?E0; [reflexivity|].
  destruct (eq_lit (SAttr "transform_command" (SName "settings")) "fx3-to-rgb");
    [destruct (is_none (SAttr "outdir" (SName "settings"))); reflexivity|].
  destruct (eq_lit (SAttr "transform_command" (SName "settings")) "u8-to-rgb");
    [destruct (is_none (SAttr "outdir" (SName "settings"))); reflexivity|reflexivity].
Qed.

(* every call the command makes -- whichever sub-command, in place or with --outdir -- works on the
   pyramid at pyramid_dir down to settings.start with settings.parallelism workers, and writes into
   the pyramid at settings.outdir exactly when that is given *)
Lemma transform_plumbing (is_none : sval unit -> bool) (eq_lit : sval unit -> string -> bool) (e : sevent unit) :
  In e (snd (transform_impl_model is_none eq_lit)) ->
  call_pos e = [pyramid_at (setting "pyramid_dir") []; setting "start"] /\
  call_kw "parallel" e = Some (setting "parallelism") /\
  call_kw "pio_out" e = Some (if is_none (setting "outdir") then SNoneV else pyramid_at (setting "outdir") []).
Proof.
  unfold transform_impl_model.
  destruct (is_none (setting "transform_command")); [intros []|].
  destruct (eq_lit (setting "transform_command") "fx3-to-rgb").
  - intros [<-|[]]. repeat split.
  - destruct (eq_lit (setting "transform_command") "u8-to-rgb"); [|intros []].
    intros [<-|[]]. repeat split.
Qed.

(* the two sub-commands call their own stage *)
Lemma transform_dispatch (is_none : sval unit -> bool) (eq_lit : sval unit -> string -> bool) :
  is_none (setting "transform_command") = false ->
  (eq_lit (setting "transform_command") "fx3-to-rgb" = true ->
   exists p k, snd (transform_impl_model is_none eq_lit) = [SCall "f16x3_to_rgb" p k]) /\
  (eq_lit (setting "transform_command") "fx3-to-rgb" = false -> eq_lit (setting "transform_command") "u8-to-rgb" = true ->
   exists p k, snd (transform_impl_model is_none eq_lit) = [SCall "u8_to_rgb" p k]).
Proof.
  intros H0. unfold transform_impl_model. rewrite H0. split.
  - intros H1. rewrite H1. unfold transform_call. eexists. eexists. reflexivity.
  - intros H1 H2. rewrite H1, H2. unfold transform_call. eexists. eexists. reflexivity.
Qed.
