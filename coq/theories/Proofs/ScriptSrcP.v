(* FitsTiler._tile_toast as TRANSLATED from toasty/fits_tiler.py on every build
   (Generated/ScriptSrc.v; harness/py2coq.py) makes exactly the calls of the hand-written script
   (Model/TileToastScript.v), for every list of images, start, worker count and progress flag; and
   the closure it hands to the cascade is the union filter of Model/MultiToast.v. *)
From Coq Require Import ZArith String List Bool Lia.
From Toasty Require Import Model.SrcPrelude Model.MultiToast Model.TileToastScript.
From Toasty Require Import Generated.ScriptSrc.
Import ListNotations.
Local Open Scope Z_scope.

Lemma src_tile_filters_is_union (tile : Type) (fs : list (tile -> bool)) (t : tile) :
  src_tile_toast_tile_filters fs t = union_filter tile fs t.
Proof.
  unfold src_tile_toast_tile_filters, union_filter.
  induction fs as [|f fs IH]; cbn [src_first_some existsb]; [reflexivity|].
  destruct (f t); [reflexivity|exact IH].
Qed.

Section P.
  Variable image : Type.
  Variable has_wcs : image -> bool.
  Variable guess : image -> Z.

  Lemma level_fold_eq : forall (images : list image) (s : Z),
    fold_left (fun s0 im => if has_wcs im then let l := guess im in if l >? s0 then let s1 := l in s1 else s0 else s0) images s
    = fold_left (fun s0 l => match l with Some v => if s0 <? v then v else s0 | None => s0 end)
                (levels image has_wcs guess images) s.
  Proof.
    induction images as [|im images IH]; intros s; cbn [fold_left levels map]; [reflexivity|].
    fold (levels image has_wcs guess images). rewrite <- IH.
    destruct (has_wcs im); [|reflexivity]. cbv zeta. rewrite Z.gtb_ltb. reflexivity.
  Qed.

  Lemma src_tile_toast_eq (images : list image) (cp : bool) (par given : option Z) :
    src_tile_toast image has_wcs guess images cp par given = tile_toast_script image has_wcs guess images cp par given.
  Proof.
    unfold src_tile_toast, tile_toast_script.
    destruct (rev images) as [|last rest]; [reflexivity|]. cbv zeta.
    assert (E : match given with
                | Some v => v
                | None => fold_left (fun s0 im => if has_wcs im then let l := guess im in if l >? s0 then let s1 := l in s1 else s0 else s0) images 1
                end = start_level given (levels image has_wcs guess images)).
    { unfold start_level, auto_start. destruct given as [v|]; [reflexivity|]. apply level_fold_eq. }
    cbv zeta in E. rewrite E. reflexivity.
  Qed.
End P.
