(* The invariant of the parallel cascade walk LTS (Model/WalkPar.v), proved over an
   abstract set of operations O (a NoDup list closed under "parent below the apex"
   and "some child above the seed level") so that it is independent of the reducer.
   Instantiated with spec_ops P in Proofs/WalkParP.v. *)
From Coq Require Import List NArith Arith Bool Lia Permutation.
From Toasty Require Import Model.Quadtree Model.Reducer Model.WalkPar
     Proofs.QuadtreeP Proofs.ReducerP Proofs.EnumP Proofs.WalkParDefs Proofs.WalkParAux.
Import ListNotations.

(* ---- where a position is ---------------------------------------------------------- *)

Definition dpend (d : dpc) : list pos :=
  match d with DSeed l => l | DRelease p => [p] | _ => [] end.
Definition cbpos (x : wpc * bool) : list pos := match fst x with KInCb p => [p] | _ => [] end.
Definition putpos (x : wpc * bool) : list pos := match fst x with KAtPut p => [p] | _ => [] end.
Definition idl (b : list pos) : list pos := b.

Definition n_rq (s : wstate) (q : pos) : nat :=
  cnt q (dpend (d_pc s)) + cnt q (rq_buf s) + cnt q (rq_pipe s).
Definition n_cb (s : wstate) (q : pos) : nat := cnt q (flat_map cbpos (wks s)).
Definition n_put (s : wstate) (q : pos) : nat := cnt q (flat_map putpos (wks s)).
Definition n_dq (s : wstate) (q : pos) : nat := cnt q (flat_map idl (dq_bufs s)) + cnt q (dq_pipe s).
Definition n_st (s : wstate) (q : pos) : nat := cnt q (starts (cblog s)).
Definition n_en (s : wstate) (q : pos) : nat := cnt q (ends (cblog s)).
(* processed by the dispatcher: ended, and no longer on its way back *)
Definition acked (s : wstate) (q : pos) : nat := n_en s q - n_put s q - n_dq s q.
(* the callback of q raised: started, not running, never ended *)
Definition n_cr (s : wstate) (q : pos) : nat := n_st s q - n_cb s q - n_en s q.

Definition in_loop (d : dpc) : bool :=
  match d with DSeed _ | DLoop | DRelease _ => true | _ => false end.
Definition flag_pc (d : dpc) : bool :=
  match d with DJoin _ | DReturned => true | _ => false end.
Definition past_close (d : dpc) : bool :=
  match d with DJoinFeeder | DSet | DJoin _ | DReturned => true | _ => false end.


Ltac unf :=
  unfold n_rq, n_cb, n_put, n_dq, n_st, n_en, set_dpc, set_wk, upd in *;
  cbn [s_apex s_par s_pcap rq_buf rq_pipe rq_everput rq_closed rq_fdone dq_bufs dq_pipe dq_sem
       rdy wflag d_pc wks cblog dpend] in *.

Section LTS.
  Variable bad : pos -> bool.       (* positions whose callback raises *)
  Notation step := (wstep bad).
  Notation run := (wrun bad).
  Variable O : list pos.
  Variable ap : pos.
  Variable dep par pcap : nat.
  Variable R0 : list (pos * N).
  Hypothesis Hpar : 1 <= par.
  Hypothesis Hpcap : 1 <= pcap.
  Hypothesis O_nodup : NoDup O.
  Hypothesis O_apex : In ap O.
  Hypothesis O_level : forall p, In p O -> S (pn p) <= dep.
  Hypothesis O_above : forall p, In p O -> pn ap <= pn p.
  Hypothesis O_parent : forall p, In p O -> p <> ap ->
    exists pp ix iy, parent p = Some (pp, ix, iy) /\ In pp O.
  Hypothesis O_child : forall p, In p O -> S (pn p) < dep -> exists c, In c (children p) /\ In c O.
  Hypothesis R0_spec : forall p, In p O -> S (pn p) < dep ->
    rdy_get R0 p = bit4 (negb (memb (c0 p) O)) (negb (memb (c1 p) O))
                        (negb (memb (c2 p) O)) (negb (memb (c3 p) O)).

  Definition seeds : list pos := filter (fun q => Nat.eqb (S (pn q)) dep) O.

  Definition init0 : wstate :=
    let base dp ws :=
        mkWS ap par pcap [] [] false false false (repeat [] par) [] (2 * par) R0 false dp ws [] in
    match seeds with
    | [] => base DLoop (start_workers par)
    | l => base (DSeed l) []
    end.

  (* child c counts as ready for its parent: not an operation, or processed *)
  Definition g (s : wstate) (c : pos) : bool := negb (memb c O) || Nat.eqb (acked s c) 1.

  (* the log: an End after its Start, a Start after the Ends of all children in O *)
  Fixpoint logok (lg : list ev_t) : Prop :=
    match lg with
    | [] => True
    | (b, p, _) :: lg' =>
        (if b then In p (starts lg')
         else forall c, In c (children p) -> In c O -> In c (ends lg')) /\ logok lg'
    end.

  Record QI (s : wstate) (q : pos) : Prop := {
    q_c1 : n_cb s q + n_en s q <= n_st s q;
    q_c2 : n_put s q + n_dq s q <= n_en s q;
    q_c3 : n_rq s q + n_st s q <= 1;
    q_c4 : n_rq s q + n_st s q >= 1 -> In q O;
    q_c5 : In q O -> S (pn q) = dep -> n_rq s q + n_st s q = 1;
    q_c6 : In q O -> S (pn q) < dep -> n_rq s q + n_st s q = 1 ->
           forall c, In c (children q) -> In c O -> acked s c = 1;
    q_c7 : In q O -> S (pn q) < dep -> n_rq s q + n_st s q = 0 ->
           rdy_get (rdy s) q = bit4 (g s (c0 q)) (g s (c1 q)) (g s (c2 q)) (g s (c3 q)) /\
           g s (c0 q) && g s (c1 q) && g s (c2 q) && g s (c3 q) = false;
    q_c8 : n_cr s q >= 1 -> bad q = true
  }.

  Definition wks_ok (s : wstate) : Prop :=
    match d_pc s with
    | DSeed l => l <> [] /\ wks s = []
    | DRaised => False
    | _ => length (wks s) = par
    end.

  Definition exit_ok (s : wstate) (x : wpc * bool) : Prop :=
    match fst x with
    | KExiting c | KExited c => (c = 0 /\ wflag s = true) \/ (c = 1 /\ exists p, bad p = true)
    | _ => True
    end.

  Record Inv (s : wstate) : Prop := {
    i_q : forall q, QI s q;
    i_ap : s_apex s = ap;
    i_par : s_par s = par;
    i_pcap : s_pcap s = pcap;
    i_bufs : length (dq_bufs s) = par;
    i_sem : dq_sem s + length (flat_map idl (dq_bufs s)) + length (dq_pipe s) = 2 * par;
    i_wks : wks_ok s;
    i_loop : in_loop (d_pc s) = true -> acked s ap = 0;
    i_past : in_loop (d_pc s) = false -> forall q, In q O -> acked s q = 1;
    i_flag : wflag s = flag_pc (d_pc s);
    i_closed : rq_closed s = past_close (d_pc s);
    i_fdone : rq_fdone s = true -> rq_closed s = true;
    i_exit : forall w x, nth_error (wks s) w = Some x -> exit_ok s x;
    i_join : forall k, d_pc s = DJoin k ->
             k < par /\ forall w, w < k -> exists c ev, nth_error (wks s) w = Some (KExited c, ev);
    i_ret : d_pc s = DReturned ->
            forall w, w < par -> exists c ev, nth_error (wks s) w = Some (KExited c, ev);
    i_log : logok (cblog s)
  }.

  (* ---- initial state ------------------------------------------------------------ *)

  Lemma seeds_in q : In q seeds <-> In q O /\ S (pn q) = dep.
  Proof. unfold seeds. rewrite filter_In, Nat.eqb_eq. tauto. Qed.

  Lemma seeds_nodup : NoDup seeds.
  Proof. apply NoDup_filter'. exact O_nodup. Qed.

  Lemma flat_start f : (forall ev, f (KAtGet, ev) = @nil pos) -> flat_map f (start_workers par) = [].
  Proof. intros H. apply flat_map_repeat_nil. apply H. Qed.

  Lemma flat_bufs_init : flat_map idl (repeat (@nil pos) par) = [].
  Proof. apply flat_map_repeat_nil. reflexivity. Qed.

  Lemma init_counts q :
    n_rq init0 q = cnt q seeds /\ n_cb init0 q = 0 /\ n_put init0 q = 0 /\
    n_dq init0 q = 0 /\ n_st init0 q = 0 /\ n_en init0 q = 0.
  Proof.
    unfold init0. destruct seeds as [|a l]; unf; rewrite ?flat_bufs_init, ?flat_start by reflexivity;
      cbn [flat_map starts ends filter map]; rewrite ?cnt_nil; repeat split; lia.
  Qed.

  Lemma init_rdy : rdy init0 = R0.
  Proof. unfold init0. destruct seeds; reflexivity. Qed.

  Lemma g_init c : (forall q, acked init0 q = 0) -> g init0 c = negb (memb c O).
  Proof. intros H. unfold g. rewrite H. cbn [Nat.eqb]. apply orb_false_r. Qed.

  Lemma inv_init : Inv init0.
  Proof.
    assert (Hack : forall q, acked init0 q = 0).
    { intros q. unfold acked. destruct (init_counts q) as (_ & _ & _ & _ & _ & ->). reflexivity. }
    constructor.
    - intros q. destruct (init_counts q) as (Erq & Ecb & Eput & Edq & Est & Een).
      pose proof (proj1 (cnt_nodup seeds) seeds_nodup q) as Hle.
      constructor; rewrite ?Erq, ?Ecb, ?Eput, ?Edq, ?Est, ?Een; try lia.
      + intros H. assert (Hi : In q seeds) by (apply cnt_in; lia). apply seeds_in in Hi. tauto.
      + intros Hq Hn. assert (Hi : In q seeds) by (apply seeds_in; auto).
        apply cnt_in in Hi. lia.
      + intros Hq Hn H1. assert (Hi : In q seeds) by (apply cnt_in; lia).
        apply seeds_in in Hi. lia.
      + intros Hq Hn _. rewrite init_rdy, !g_init by exact Hack. split; [apply R0_spec; assumption|].
        destruct (O_child q Hq Hn) as (c & Hc & HcO). apply memb_in in HcO.
        apply children_cases in Hc. destruct Hc as [E|[E|[E|E]]]; subst c; rewrite HcO; cbn [negb andb];
          rewrite ?andb_false_r; reflexivity.
      + unfold n_cr. rewrite Ecb, Est, Een. lia.
    - unfold init0. destruct seeds; reflexivity.
    - unfold init0. destruct seeds; reflexivity.
    - unfold init0. destruct seeds; reflexivity.
    - unfold init0. destruct seeds; cbn [dq_bufs]; apply repeat_length.
    - unfold init0. destruct seeds; cbn [dq_bufs dq_pipe dq_sem]; rewrite flat_bufs_init; cbn [length]; lia.
    - unfold init0, wks_ok. destruct seeds; cbn [d_pc wks].
      + apply repeat_length.
      + split; [discriminate|reflexivity].
    - intros _. apply Hack.
    - unfold init0. destruct seeds; discriminate.
    - unfold init0. destruct seeds; reflexivity.
    - unfold init0. destruct seeds; reflexivity.
    - unfold init0. destruct seeds; discriminate.
    - unfold init0. intros w x H. destruct seeds; cbn [wks] in H.
      + apply nth_error_In, repeat_spec in H. subst x. exact I.
      + destruct w; discriminate.
    - unfold init0. destruct seeds; discriminate.
    - unfold init0. destruct seeds; discriminate.
    - unfold init0. destruct seeds; exact I.
  Qed.

  (* ---- frame: a step that leaves every status and the table unchanged ----------- *)

  Lemma g_same s s' c : acked s' c = acked s c -> g s' c = g s c.
  Proof. intros H. unfold g. rewrite H. reflexivity. Qed.

  Lemma QI_frame0 s s' q :
    QI s q ->
    n_cb s' q + n_en s' q <= n_st s' q ->
    (n_cr s' q >= 1 -> bad q = true) ->
    n_put s' q + n_dq s' q <= n_en s' q ->
    n_rq s' q + n_st s' q = n_rq s q + n_st s q ->
    (forall c, acked s' c = acked s c) ->
    rdy s' = rdy s ->
    QI s' q.
  Proof.
    intros [C1 C2 C3 C4 C5 C6 C7 C8] H1 H1' H2 H3 Hack Hr.
    constructor; try assumption; rewrite ?H3; try assumption.
    - intros Hq Hn Hw c Hc HcO. rewrite Hack. eapply C6; eauto.
    - intros Hq Hn Hw. rewrite Hr, !(g_same s s') by apply Hack. apply C7; assumption.
  Qed.

  Lemma QI_frame s s' q :
    QI s q ->
    n_cb s' q + n_en s' q <= n_st s' q ->
    n_st s' q - n_cb s' q - n_en s' q <= n_st s q - n_cb s q - n_en s q ->
    n_put s' q + n_dq s' q <= n_en s' q ->
    n_rq s' q + n_st s' q = n_rq s q + n_st s q ->
    (forall c, acked s' c = acked s c) ->
    rdy s' = rdy s ->
    QI s' q.
  Proof.
    intros [C1 C2 C3 C4 C5 C6 C7 C8] H1 H1' H2 H3 Hack Hr.
    constructor; try assumption; rewrite ?H3; try assumption;
      try (intros Hx; apply C8; unfold n_cr in *; lia).
    - intros Hq Hn Hw c Hc HcO. rewrite Hack. eapply C6; eauto.
    - intros Hq Hn Hw. rewrite Hr, !(g_same s s') by apply Hack. apply C7; assumption.
  Qed.

  (* ---- steps that move no position between the stages -------------------------------- *)

  Definition same_counts (s s' : wstate) : Prop := forall q,
    n_rq s' q = n_rq s q /\ n_cb s' q = n_cb s q /\ n_put s' q = n_put s q /\
    n_dq s' q = n_dq s q /\ n_st s' q = n_st s q /\ n_en s' q = n_en s q.

  Lemma same_acked s s' : same_counts s s' -> forall c, acked s' c = acked s c.
  Proof. intros H c. unfold acked. destruct (H c) as (_ & _ & -> & -> & _ & ->). reflexivity. Qed.

  Lemma QI_same s s' q : same_counts s s' -> rdy s' = rdy s -> QI s q -> QI s' q.
  Proof.
    intros H Hr HQ. pose proof (same_acked s s' H) as Hack.
    destruct (H q) as (E1 & E2 & E3 & E4 & E5 & E6).
    apply (QI_frame s s' q HQ); rewrite ?E1, ?E2, ?E3, ?E4, ?E5, ?E6; auto; apply HQ.
  Qed.

  Lemma nth_error_start w x : nth_error (start_workers par) w = Some x -> x = (KAtGet, false).
  Proof. intros H. apply nth_error_In, repeat_spec in H. exact H. Qed.

  Lemma inv_DPut s : Inv s -> wenabled s DPut = true -> Inv (step s DPut).
  Proof.
    intros H En. unfold wstep. rewrite En. cbn [negb]. unfold wenabled in En.
    pose proof (i_wks s H) as Hw. unfold wks_ok in Hw.
    pose proof (i_flag s H) as Hfl. pose proof (i_closed s H) as Hcl.
    pose proof (i_loop s H) as Hlp.
    destruct (d_pc s) as [l| |p| | | |k| |] eqn:Epc; try discriminate.
    - destruct l as [|p l]; [discriminate|]. destruct Hw as [_ Hw].
      assert (HS : same_counts s (upd s (rq_buf s ++ [p]) (rq_pipe s) true (rq_closed s) (rq_fdone s)
                     (dq_bufs s) (dq_pipe s) (dq_sem s) (rdy s) (wflag s)
                     (match l with [] => DLoop | _ => DSeed l end)
                     (match l with [] => start_workers (s_par s) | _ => wks s end) (cblog s))).
      { intros q. unf. rewrite Epc, Hw, (i_par s H). cbn [dpend flat_map].
        destruct l as [|p' l]; cbn [dpend]; rewrite ?flat_start by reflexivity; cbn [flat_map];
          rewrite cnt_app; try rewrite (cnt_cons q p (p' :: l)); rewrite ?cnt_nil; repeat split; lia. }
      constructor; try solve [unf; apply H].
      + intros q. apply (QI_same s); [exact HS|reflexivity|apply H].
      + unfold wks_ok. unf. rewrite (i_par s H). destruct l; [apply repeat_length|].
        split; [discriminate|exact Hw].
      + intros _. rewrite (same_acked _ _ HS). apply Hlp. reflexivity.
      + unf. destruct l; discriminate.
      + unf. rewrite Hfl. destruct l; reflexivity.
      + unf. rewrite Hcl. destruct l; reflexivity.
      + unf. intros w x Hx. unfold exit_ok. unf. destruct l.
        * rewrite (i_par s H) in Hx. apply nth_error_start in Hx. subst x. exact I.
        * rewrite Hw in Hx. destruct w; discriminate.
      + unf. intros k Hk. destruct l; discriminate.
      + unf. intros Hk. destruct l; discriminate.
    - assert (HS : same_counts s (upd s (rq_buf s ++ [p]) (rq_pipe s) true (rq_closed s) (rq_fdone s)
                     (dq_bufs s) (dq_pipe s) (dq_sem s) (rdy s) (wflag s) DLoop (wks s) (cblog s))).
      { intros q. unf. rewrite Epc. cbn [dpend]. rewrite cnt_app, ?cnt_nil; repeat split; lia. }
      constructor; try solve [unf; apply H].
      + intros q. apply (QI_same s); [exact HS|reflexivity|apply H].
      + unfold wks_ok. unf. exact Hw.
      + intros _. rewrite (same_acked _ _ HS). apply Hlp. reflexivity.
      + unf. discriminate.
      + unf. rewrite Hfl. reflexivity.
      + unf. rewrite Hcl. reflexivity.
      + unf. discriminate.
      + unf. discriminate.
  Qed.

  Lemma nth_buf_some (l : list (list pos)) w p b :
    nth_buf l w = p :: b -> nth_error l w = Some (p :: b) /\ w < length l.
  Proof.
    unfold nth_buf. intros E. destruct (Nat.lt_ge_cases w (length l)) as [Hlt|Hge].
    - split; [|exact Hlt]. rewrite <- E. apply nth_error_some_nth. exact Hlt.
    - rewrite nth_overflow in E by exact Hge. discriminate.
  Qed.

  Lemma inv_DCloseQ s : Inv s -> wenabled s DCloseQ = true -> Inv (step s DCloseQ).
  Proof.
    intros H En. unfold wstep. rewrite En. cbn [negb]. unfold wenabled in En.
    pose proof (i_wks s H) as Hw. unfold wks_ok in Hw.
    pose proof (i_flag s H) as Hfl. pose proof (i_past s H) as Hpa.
    destruct (d_pc s) eqn:Epc; try discriminate.
    assert (HS : same_counts s (upd s (rq_buf s) (rq_pipe s) (rq_everput s) true (rq_fdone s) (dq_bufs s)
                   (dq_pipe s) (dq_sem s) (rdy s) (wflag s) DJoinFeeder (wks s) (cblog s))).
    { intros q. unf. rewrite Epc. cbn [dpend]. repeat split. }
    constructor; try solve [unf; apply H]; unf; try discriminate; try reflexivity.
    - intros q. apply (QI_same s); [exact HS|reflexivity|apply H].
    - exact Hw.
    - intros _ q Hq. rewrite (same_acked _ _ HS). apply Hpa; auto.
    - exact Hfl.
  Qed.

  Lemma inv_DJoinThread s : Inv s -> wenabled s DJoinThread = true -> Inv (step s DJoinThread).
  Proof.
    intros H En. unfold wstep. rewrite En. cbn [negb]. unfold wenabled in En.
    pose proof (i_wks s H) as Hw. unfold wks_ok in Hw.
    pose proof (i_flag s H) as Hfl. pose proof (i_past s H) as Hpa. pose proof (i_closed s H) as Hcl.
    destruct (d_pc s) eqn:Epc; try discriminate.
    assert (HS : same_counts s (set_dpc s DSet)).
    { intros q. unf. rewrite Epc. cbn [dpend]. repeat split. }
    constructor; try solve [unf; apply H]; unf; try discriminate; try reflexivity.
    - intros q. apply (QI_same s); [exact HS|reflexivity|apply H].
    - exact Hw.
    - intros _ q Hq. rewrite (same_acked _ _ HS). apply Hpa; auto.
    - exact Hfl.
    - exact Hcl.
  Qed.

  Lemma inv_DSetFlag s : Inv s -> wenabled s DSetFlag = true -> Inv (step s DSetFlag).
  Proof.
    intros H En. unfold wstep. rewrite En. cbn [negb]. unfold wenabled in En.
    pose proof (i_wks s H) as Hw. unfold wks_ok in Hw.
    pose proof (i_past s H) as Hpa. pose proof (i_closed s H) as Hcl.
    destruct (d_pc s) eqn:Epc; try discriminate.
    assert (HS : same_counts s (upd s (rq_buf s) (rq_pipe s) (rq_everput s) (rq_closed s) (rq_fdone s)
                   (dq_bufs s) (dq_pipe s) (dq_sem s) (rdy s) true (DJoin 0) (wks s) (cblog s))).
    { intros q. unf. rewrite Epc. cbn [dpend]. repeat split. }
    constructor; try solve [unf; apply H]; unf; try discriminate; try reflexivity.
    - intros q. apply (QI_same s); [exact HS|reflexivity|apply H].
    - exact Hw.
    - intros _ q Hq. rewrite (same_acked _ _ HS). apply Hpa; auto.
    - exact Hcl.
    - intros w x Hx. pose proof (i_exit s H w x Hx) as He. unfold exit_ok in *. unf.
      destruct (fst x); auto; (destruct He as [[-> _]|He]; [left; auto|right; exact He]).
    - intros k Hk. injection Hk as <-. split; [lia|]. intros w Hlt. lia.
  Qed.

  Lemma inv_DJoinW s w : Inv s -> wenabled s (DJoinW w) = true -> Inv (step s (DJoinW w)).
  Proof.
    intros H En. unfold wstep. rewrite En. cbn [negb]. unfold wenabled in En.
    pose proof (i_wks s H) as Hw. unfold wks_ok in Hw.
    pose proof (i_flag s H) as Hfl. pose proof (i_past s H) as Hpa. pose proof (i_closed s H) as Hcl.
    pose proof (i_join s H) as Hj.
    destruct (d_pc s) as [| | | | | |k| |] eqn:Epc; try discriminate.
    apply andb_true_iff in En. destruct En as [E1 E2]. apply Nat.eqb_eq in E1. subst k.
    destruct (Hj w eq_refl) as [Hk Hprev].
    assert (Hex : exists c ev, nth_error (wks s) w = Some (KExited c, ev)).
    { unfold wk_exited, wk_get in E2. destruct (nth_error (wks s) w) as [[[] ev]|] eqn:Ew; try discriminate.
      eauto. }
    assert (HS : same_counts s (set_dpc s (if Nat.eqb (S w) (length (wks s)) then DReturned else DJoin (S w)))).
    { intros q. unf. rewrite Epc. destruct (Nat.eqb (S w) (length (wks s))); cbn [dpend]; repeat split. }
    rewrite Hw in *.
    constructor; try solve [unf; apply H]; unf.
    - intros q. apply (QI_same s); [exact HS|reflexivity|apply H].
    - unfold wks_ok. unf. destruct (Nat.eqb (S w) par); exact Hw.
    - destruct (Nat.eqb (S w) par); discriminate.
    - intros _ q Hq. rewrite (same_acked _ _ HS). apply Hpa; auto.
    - rewrite Hfl. destruct (Nat.eqb (S w) par); reflexivity.
    - rewrite Hcl. destruct (Nat.eqb (S w) par); reflexivity.
    - intros k Hk'. destruct (Nat.eqb_spec (S w) par); [discriminate|].
      injection Hk' as <-. split; [lia|]. intros w' Hw'.
      destruct (Nat.eq_dec w' w) as [->|]; [assumption|]. apply Hprev. lia.
    - intros Hr. destruct (Nat.eqb_spec (S w) par); [|discriminate].
      intros w' Hw'. destruct (Nat.eq_dec w' w) as [->|]; [assumption|]. apply Hprev. lia.
  Qed.

  Lemma inv_FFeederExit s : Inv s -> wenabled s FFeederExit = true -> Inv (step s FFeederExit).
  Proof.
    intros H En. unfold wstep. rewrite En. cbn [negb]. unfold wenabled in En.
    assert (HS : same_counts s (upd s (rq_buf s) (rq_pipe s) (rq_everput s) (rq_closed s) true (dq_bufs s)
                   (dq_pipe s) (dq_sem s) (rdy s) (wflag s) (d_pc s) (wks s) (cblog s))).
    { intros q. unf. repeat split. }
    constructor; try solve [unf; apply H]; unf.
    - intros q. apply (QI_same s); [exact HS|reflexivity|apply H].
    - intros _. destruct (rq_closed s); [reflexivity|discriminate].
  Qed.

  Lemma inv_FFlushReady s : Inv s -> wenabled s FFlushReady = true -> Inv (step s FFlushReady).
  Proof.
    intros H En. unfold wstep. rewrite En. cbn [negb]. unfold wenabled in En.
    destruct (rq_buf s) as [|p b] eqn:Eb; [discriminate|].
    assert (HS : same_counts s (upd s b (rq_pipe s ++ [p]) (rq_everput s) (rq_closed s) (rq_fdone s)
                   (dq_bufs s) (dq_pipe s) (dq_sem s) (rdy s) (wflag s) (d_pc s) (wks s) (cblog s))).
    { intros q. unf. rewrite Eb, cnt_app, (cnt_cons q p b). repeat split. lia. }
    constructor; try solve [unf; apply H]; unf.
    intros q. apply (QI_same s); [exact HS|reflexivity|apply H].
  Qed.

  Lemma inv_FFlushDone s w : Inv s -> wenabled s (FFlushDone w) = true -> Inv (step s (FFlushDone w)).
  Proof.
    intros H En. unfold wstep. rewrite En. cbn [negb]. unfold wenabled in En.
    destruct (nth_buf (dq_bufs s) w) as [|p b] eqn:Eb; [discriminate|].
    destruct (nth_buf_some _ _ _ _ Eb) as [Ew Hlt].
    assert (HS : same_counts s (upd s (rq_buf s) (rq_pipe s) (rq_everput s) (rq_closed s) (rq_fdone s)
                   (set_nth (dq_bufs s) w b) (dq_pipe s ++ [p])
                   (dq_sem s) (rdy s) (wflag s) (d_pc s) (wks s) (cblog s))).
    { intros q. unf. pose proof (cnt_flat_set_nth idl (dq_bufs s) w _ b q Ew) as Hc.
      unfold idl at 2 4 in Hc. rewrite (cnt_cons q p b) in Hc. rewrite cnt_app. repeat split. lia. }
    constructor; try solve [unf; apply H]; unf.
    - intros q. apply (QI_same s); [exact HS|reflexivity|apply H].
    - rewrite set_nth_length by exact Hlt. apply H.
    - pose proof (len_flat_set_nth idl (dq_bufs s) w _ b Ew) as Hc. unfold idl at 2 4 in Hc.
      cbn [length] in Hc. rewrite app_length. cbn [length]. pose proof (i_sem s H). lia.
    - intros Hl. rewrite (same_acked _ _ HS). apply (i_loop s H Hl).
    - intros Hl q Hq. rewrite (same_acked _ _ HS). apply (i_past s H Hl q Hq).
  Qed.

  (* ---- worker steps ------------------------------------------------------------------ *)

  Lemma wks_len s w x :
    Inv s -> nth_error (wks s) w = Some x ->
    length (wks s) = par /\ w < par /\ in_loop (d_pc s) = true \/ length (wks s) = par /\ w < par.
  Proof.
    intros H Hx. pose proof (i_wks s H) as Hw. unfold wks_ok in Hw.
    pose proof (nth_error_lt _ _ _ Hx) as Hlt.
    destruct (d_pc s); try (right; split; [exact Hw|lia]); try contradiction.
    destruct Hw as [_ Hw]. rewrite Hw in Hx. destruct w; discriminate.
  Qed.

  Lemma wks_len' s w x : Inv s -> nth_error (wks s) w = Some x -> length (wks s) = par /\ w < par.
  Proof. intros H Hx. destruct (wks_len s w x H Hx) as [(A & B & _)|(A & B)]; auto. Qed.

  Lemma wks_ok_upd s w old (l' : list (wpc * bool)) :
    Inv s -> nth_error (wks s) w = Some old -> length l' = length (wks s) ->
    match d_pc s with DSeed l => l <> [] /\ l' = [] | DRaised => False | _ => length l' = par end.
  Proof.
    intros H Hx Hl. pose proof (i_wks s H) as Hw. unfold wks_ok in Hw.
    destruct (d_pc s); try contradiction; try (rewrite Hl; exact Hw).
    destruct Hw as [_ Hw]. rewrite Hw in Hx. destruct w; discriminate.
  Qed.

  Lemma upd_all {T} (P : T -> Prop) (l : list T) w x :
    (forall w' x', nth_error l w' = Some x' -> P x') -> P x -> w < length l ->
    forall w' x', nth_error (set_nth l w x) w' = Some x' -> P x'.
  Proof.
    intros Hall Hx Hlt w' x' H'. destruct (Nat.eq_dec w' w) as [->|Hne].
    - rewrite nth_error_set_nth_eq in H' by exact Hlt. injection H' as <-. exact Hx.
    - rewrite nth_error_set_nth_neq in H' by assumption. eauto.
  Qed.

  Lemma upd_exited (l : list (wpc * bool)) w old x w' c0 ev :
    nth_error l w = Some old -> (forall c, fst old <> KExited c) ->
    nth_error l w' = Some (KExited c0, ev) -> nth_error (set_nth l w x) w' = Some (KExited c0, ev).
  Proof.
    intros Ho Hne H'. destruct (Nat.eq_dec w' w) as [->|Hd].
    - rewrite Ho in H'. injection H' as ->. exfalso. apply (Hne c0). reflexivity.
    - rewrite nth_error_set_nth_neq; [exact H'|eapply nth_error_lt; eauto|exact Hd].
  Qed.

  Lemma inv_set_wk s w old x :
    Inv s -> nth_error (wks s) w = Some old ->
    cbpos old = [] -> putpos old = [] -> cbpos x = [] -> putpos x = [] ->
    exit_ok s x -> (forall c, fst old <> KExited c) ->
    Inv (set_wk s w x).
  Proof.
    intros H Ho Hc1 Hp1 Hc2 Hp2 Hex Hne.
    pose proof (nth_error_lt _ _ _ Ho) as Hlt.
    assert (HS : same_counts s (set_wk s w x)).
    { intros q. unf. pose proof (cnt_flat_set_nth cbpos (wks s) w old x q Ho) as A.
      pose proof (cnt_flat_set_nth putpos (wks s) w old x q Ho) as B.
      rewrite Hc1, Hc2, cnt_nil in A. rewrite Hp1, Hp2, cnt_nil in B. repeat split; lia. }
    constructor; try solve [unf; apply H]; unf.
    - intros q. apply (QI_same s); [exact HS|reflexivity|apply H].
    - unfold wks_ok. unf. apply (wks_ok_upd s w old); auto. apply set_nth_length. exact Hlt.
    - intros Hl. rewrite (same_acked _ _ HS). apply (i_loop s H Hl).
    - intros Hl q Hq. rewrite (same_acked _ _ HS). apply (i_past s H Hl q Hq).
    - apply (upd_all (exit_ok s)); [apply H|exact Hex|exact Hlt].
    - intros k Hk. destruct (i_join s H k Hk) as [A B]. split; [exact A|].
      intros w' Hw'. destruct (B w' Hw') as (c' & ev' & E). exists c', ev'. eapply upd_exited; eauto.
    - intros Hr w' Hw'. destruct (i_ret s H Hr w' Hw') as (c' & ev' & E). exists c', ev'. eapply upd_exited; eauto.
  Qed.

  Lemma inv_KTimeout s w : Inv s -> wenabled s (KTimeout w) = true -> Inv (step s (KTimeout w)).
  Proof.
    intros H En. unfold wstep. rewrite En. cbn [negb]. unfold wenabled, wk_get in *.
    destruct (nth_error (wks s) w) as [[[] ev]|] eqn:Ew; try discriminate.
    apply (inv_set_wk s w (KAtGet, ev)); auto; try reflexivity. intros c. discriminate.
  Qed.

  Lemma inv_KCTimeout s w : Inv s -> wenabled s (KCTimeout w) = true -> Inv (step s (KCTimeout w)).
  Proof.
    intros H En. unfold wstep. rewrite En. cbn [negb]. unfold wenabled, wk_get in *.
    destruct (nth_error (wks s) w) as [[[] ev]|] eqn:Ew; try discriminate.
    apply (inv_set_wk s w (KAtGet, ev)); auto; try reflexivity. intros c. discriminate.
  Qed.

  Lemma inv_KIsSet s w : Inv s -> wenabled s (KIsSet w) = true -> Inv (step s (KIsSet w)).
  Proof.
    intros H En. unfold wstep. rewrite En. cbn [negb]. unfold wenabled, wk_get in *.
    destruct (nth_error (wks s) w) as [[[] ev]|] eqn:Ew; try discriminate.
    apply (inv_set_wk s w (KAtFlag, ev)); auto; try reflexivity.
    - destruct (wflag s), ev; reflexivity.
    - destruct (wflag s), ev; reflexivity.
    - unfold exit_ok. destruct (wflag s) eqn:Ef; [|exact I]. destruct ev; cbn; left; auto.
    - intros c. discriminate.
  Qed.

  Lemma inv_KExit s w : Inv s -> wenabled s (KExit w) = true -> Inv (step s (KExit w)).
  Proof.
    intros H En. unfold wstep. rewrite En. cbn [negb]. unfold wenabled, wk_get in *.
    destruct (nth_error (wks s) w) as [[[] ev]|] eqn:Ew; try discriminate.
    apply (inv_set_wk s w (KExiting code, ev)); auto; try reflexivity.
    - apply (i_exit s H w _ Ew).
    - intros c. discriminate.
  Qed.

  Ltac name_state s' := cbv beta iota; match goal with |- Inv ?X => set (s' := X) end.

  Lemma inv_KRecv s w : Inv s -> wenabled s (KRecv w) = true -> Inv (step s (KRecv w)).
  Proof.
    intros H En. unfold wstep. rewrite En. cbn [negb]. unfold wenabled, wk_get in *.
    destruct (nth_error (wks s) w) as [[[] ev]|] eqn:Ew; try discriminate.
    destruct (rq_pipe s) as [|p rest] eqn:Ep; [discriminate|].
    pose proof (nth_error_lt _ _ _ Ew) as Hlt. name_state s'.
    assert (HD : forall q, n_rq s' q + cnt q [p] = n_rq s q /\ n_cb s' q = n_cb s q + cnt q [p] /\
                           n_put s' q = n_put s q /\ n_dq s' q = n_dq s q /\
                           n_st s' q = n_st s q + cnt q [p] /\ n_en s' q = n_en s q).
    { intros q. subst s'. unf. rewrite Ep, starts_cons_s, ends_cons_s, (cnt_cons q p rest), (cnt_cons q p (starts _)).
      pose proof (cnt_flat_set_nth cbpos (wks s) w _ (KInCb p, ev) q Ew) as A.
      pose proof (cnt_flat_set_nth putpos (wks s) w _ (KInCb p, ev) q Ew) as B.
      cbn [cbpos putpos fst] in A, B. rewrite cnt_nil in *. repeat split; lia. }
    assert (Hack : forall c, acked s' c = acked s c).
    { intros c. unfold acked. destruct (HD c) as (_ & _ & -> & -> & _ & ->). reflexivity. }
    constructor; try solve [subst s'; unf; apply H].
    - intros q. destruct (HD q) as (D1 & D2 & D3 & D4 & D5 & D6).
      pose proof (i_q s H q) as HQ. pose proof HQ as [C1 C2 C3 C4 C5 C6 C7 C8].
      apply (QI_frame s s' q HQ); try lia; auto.
    - unfold wks_ok. subst s'. unf. apply (wks_ok_upd s w (KAtGet, ev)); auto. apply set_nth_length. exact Hlt.
    - intros Hl. rewrite Hack. apply (i_loop s H Hl).
    - intros Hl q Hq. rewrite Hack. apply (i_past s H Hl q Hq).
    - subst s'. unf. apply (upd_all (exit_ok s)); [apply H|exact I|exact Hlt].
    - subst s'. unf. intros k Hk. destruct (i_join s H k Hk) as [A B]. split; [exact A|].
      intros w' Hw'. destruct (B w' Hw') as (c' & ev' & E). exists c', ev'. eapply upd_exited; eauto. intros c; discriminate.
    - subst s'. unf. intros Hr w' Hw'. destruct (i_ret s H Hr w' Hw') as (c' & ev' & E). exists c', ev'.
      eapply upd_exited; eauto. intros c; discriminate.
    - subst s'. unf. cbn [logok]. split; [|apply H]. intros c Hc HcO.
      pose proof (i_q s H p) as [C1 C2 C3 C4 C5 C6 C7 C8].
      assert (Hrq : n_rq s p >= 1). { unf. rewrite Ep, (cnt_cons p p rest), cnt_one_same. lia. }
      assert (HpO : In p O) by (apply C4; lia).
      pose proof (O_level p HpO) as L1. pose proof (O_level c HcO) as L2.
      rewrite (children_level _ _ Hc) in L2.
      assert (Ha : acked s c = 1) by (apply (C6 HpO); auto; lia).
      apply cnt_in. unfold acked, n_en in Ha. lia.
  Qed.

  Lemma inv_KCb s w : Inv s -> wenabled s (KCb w) = true -> Inv (step s (KCb w)).
  Proof.
    intros H En. unfold wstep. rewrite En. cbn [negb]. unfold wenabled, wk_get in *.
    destruct (nth_error (wks s) w) as [[[| |p| | |] ev]|] eqn:Ew; try discriminate.
    pose proof (nth_error_lt _ _ _ Ew) as Hlt.
    destruct (bad p) eqn:Ebad.
    { (* the callback raises: the worker dies, the position is never reported *)
      name_state s'.
      assert (HD : forall q, n_rq s' q = n_rq s q /\ n_cb s' q + cnt q [p] = n_cb s q /\
                             n_put s' q = n_put s q /\ n_dq s' q = n_dq s q /\
                             n_st s' q = n_st s q /\ n_en s' q = n_en s q).
      { intros q. subst s'. unf.
        pose proof (cnt_flat_set_nth cbpos (wks s) w _ (leave ev 1, ev) q Ew) as A.
        pose proof (cnt_flat_set_nth putpos (wks s) w _ (leave ev 1, ev) q Ew) as B.
        destruct ev; cbn [leave cbpos putpos fst] in *; rewrite cnt_nil in *; repeat split; lia. }
      assert (Hack : forall c, acked s' c = acked s c).
      { intros c. unfold acked. destruct (HD c) as (_ & _ & -> & -> & _ & ->). reflexivity. }
      constructor; try solve [subst s'; unf; apply H].
      - intros q. destruct (HD q) as (D1 & D2 & D3 & D4 & D5 & D6).
        pose proof (i_q s H q) as HQ. pose proof HQ as [C1 C2 C3 C4 C5 C6 C7 C8].
        apply (QI_frame0 s s' q HQ); try lia; auto.
        intros Hx. destruct (pos_eq_dec q p) as [->|Hq]; [exact Ebad|].
        rewrite cnt_one_diff in D2 by exact Hq. apply C8. unfold n_cr in *. lia.
      - unfold wks_ok. subst s'. unf. apply (wks_ok_upd s w (KInCb p, ev)); auto. apply set_nth_length. exact Hlt.
      - intros Hl. rewrite Hack. apply (i_loop s H Hl).
      - intros Hl q Hq. rewrite Hack. apply (i_past s H Hl q Hq).
      - subst s'. unf. apply (upd_all (exit_ok s)); [apply H| |exact Hlt].
        unfold exit_ok. destruct ev; cbn [leave fst]; right; split; eauto.
      - subst s'. unf. intros k Hk. destruct (i_join s H k Hk) as [A B]. split; [exact A|].
        intros w' Hw'. destruct (B w' Hw') as (c' & ev' & E). exists c', ev'. eapply upd_exited; eauto. intros c; discriminate.
      - subst s'. unf. intros Hr w' Hw'. destruct (i_ret s H Hr w' Hw') as (c' & ev' & E). exists c', ev'.
        eapply upd_exited; eauto. intros c; discriminate. }
    name_state s'.
    assert (HD : forall q, n_rq s' q = n_rq s q /\ n_cb s' q + cnt q [p] = n_cb s q /\
                           n_put s' q = n_put s q + cnt q [p] /\ n_dq s' q = n_dq s q /\
                           n_st s' q = n_st s q /\ n_en s' q = n_en s q + cnt q [p]).
    { intros q. subst s'. unf. rewrite starts_cons_e, ends_cons_e, (cnt_cons q p (ends _)).
      pose proof (cnt_flat_set_nth cbpos (wks s) w _ (KAtPut p, ev) q Ew) as A.
      pose proof (cnt_flat_set_nth putpos (wks s) w _ (KAtPut p, ev) q Ew) as B.
      cbn [cbpos putpos fst] in A, B. rewrite cnt_nil in *. repeat split; lia. }
    assert (Hack : forall c, acked s' c = acked s c).
    { intros c. unfold acked. destruct (HD c) as (_ & _ & -> & -> & _ & ->). lia. }
    constructor; try solve [subst s'; unf; apply H].
    - intros q. destruct (HD q) as (D1 & D2 & D3 & D4 & D5 & D6).
      pose proof (i_q s H q) as HQ. pose proof HQ as [C1 C2 C3 C4 C5 C6 C7 C8].
      apply (QI_frame s s' q HQ); try lia; auto.
    - unfold wks_ok. subst s'. unf. apply (wks_ok_upd s w (KInCb p, ev)); auto. apply set_nth_length. exact Hlt.
    - intros Hl. rewrite Hack. apply (i_loop s H Hl).
    - intros Hl q Hq. rewrite Hack. apply (i_past s H Hl q Hq).
    - subst s'. unf. apply (upd_all (exit_ok s)); [apply H|exact I|exact Hlt].
    - subst s'. unf. intros k Hk. destruct (i_join s H k Hk) as [A B]. split; [exact A|].
      intros w' Hw'. destruct (B w' Hw') as (c' & ev' & E). exists c', ev'. eapply upd_exited; eauto. intros c; discriminate.
    - subst s'. unf. intros Hr w' Hw'. destruct (i_ret s H Hr w' Hw') as (c' & ev' & E). exists c', ev'.
      eapply upd_exited; eauto. intros c; discriminate.
    - subst s'. unf. cbn [logok]. split; [|apply H].
      pose proof (i_q s H p) as [C1 C2 C3 C4 C5 C6 C7 C8].
      pose proof (cnt_flat_nth cbpos (wks s) w _ p Ew) as A. cbn [cbpos fst] in A. rewrite cnt_one_same in A.
      apply cnt_in. unf. lia.
  Qed.

  Lemma inv_KPut s w : Inv s -> wenabled s (KPut w) = true -> Inv (step s (KPut w)).
  Proof.
    intros H En. unfold wstep. rewrite En. cbn [negb]. unfold wenabled, wk_get in *.
    destruct (nth_error (wks s) w) as [[[| | |p| |] ev]|] eqn:Ew; try discriminate.
    apply Nat.ltb_lt in En.
    pose proof (nth_error_lt _ _ _ Ew) as Hlt. destruct (wks_len' s w _ H Ew) as [Hlen Hwp].
    assert (Eb : nth_error (dq_bufs s) w = Some (nth_buf (dq_bufs s) w)).
    { apply nth_error_some_nth. rewrite (i_bufs s H). exact Hwp. }
    name_state s'.
    assert (HD : forall q, n_rq s' q = n_rq s q /\ n_cb s' q = n_cb s q /\
                           n_put s' q + cnt q [p] = n_put s q /\ n_dq s' q = n_dq s q + cnt q [p] /\
                           n_st s' q = n_st s q /\ n_en s' q = n_en s q).
    { intros q. subst s'. unf.
      pose proof (cnt_flat_set_nth cbpos (wks s) w _ (KAtGet, true) q Ew) as A.
      pose proof (cnt_flat_set_nth putpos (wks s) w _ (KAtGet, true) q Ew) as B.
      pose proof (cnt_flat_set_nth idl (dq_bufs s) w _ (nth_buf (dq_bufs s) w ++ [p]) q Eb) as C.
      unfold idl at 2 4 in C. rewrite cnt_app in C.
      cbn [cbpos putpos fst] in A, B. rewrite cnt_nil in *. repeat split; lia. }
    assert (Hack : forall c, acked s' c = acked s c).
    { intros c. unfold acked. destruct (HD c) as (_ & _ & D3 & D4 & _ & D6). lia. }
    constructor; try solve [subst s'; unf; apply H].
    - intros q. destruct (HD q) as (D1 & D2 & D3 & D4 & D5 & D6).
      pose proof (i_q s H q) as HQ. pose proof HQ as [C1 C2 C3 C4 C5 C6 C7 C8].
      apply (QI_frame s s' q HQ); try lia; auto.
    - subst s'. unf. rewrite set_nth_length; [apply H|]. rewrite (i_bufs s H). exact Hwp.
    - subst s'. unf. pose proof (len_flat_set_nth idl (dq_bufs s) w _ (nth_buf (dq_bufs s) w ++ [p]) Eb) as C.
      unfold idl at 2 4 in C. rewrite app_length in C. cbn [length] in C. pose proof (i_sem s H). lia.
    - unfold wks_ok. subst s'. unf. apply (wks_ok_upd s w (KAtPut p, ev)); auto. apply set_nth_length. exact Hlt.
    - intros Hl. rewrite Hack. apply (i_loop s H Hl).
    - intros Hl q Hq. rewrite Hack. apply (i_past s H Hl q Hq).
    - subst s'. unf. apply (upd_all (exit_ok s)); [apply H|exact I|exact Hlt].
    - subst s'. unf. intros k Hk. destruct (i_join s H k Hk) as [A B]. split; [exact A|].
      intros w' Hw'. destruct (B w' Hw') as (c' & ev' & E). exists c', ev'. eapply upd_exited; eauto. intros c; discriminate.
    - subst s'. unf. intros Hr w' Hw'. destruct (i_ret s H Hr w' Hw') as (c' & ev' & E). exists c', ev'.
      eapply upd_exited; eauto. intros c; discriminate.
  Qed.

  (* ---- the dispatcher receives a finished position ------------------------------------ *)

  Lemma g_other s s' p q :
    (forall c, acked s' c = if pos_eq_dec c p then 1 else acked s c) ->
    ~ In p (children q) ->
    g s' (c0 q) = g s (c0 q) /\ g s' (c1 q) = g s (c1 q) /\
    g s' (c2 q) = g s (c2 q) /\ g s' (c3 q) = g s (c3 q).
  Proof.
    intros Hack Hn.
    assert (Hc : forall c, In c (children q) -> g s' c = g s c).
    { intros c Hc. unfold g. rewrite Hack. destruct (pos_eq_dec c p) as [->|]; [contradiction|reflexivity]. }
    repeat split; apply Hc; apply children_cases; auto 6.
  Qed.

  Lemma QI_frame2 s s' p q :
    QI s q ->
    n_cb s' q + n_en s' q <= n_st s' q ->
    n_st s' q - n_cb s' q - n_en s' q <= n_st s q - n_cb s q - n_en s q ->
    n_put s' q + n_dq s' q <= n_en s' q ->
    n_rq s' q + n_st s' q = n_rq s q + n_st s q ->
    (forall c, acked s' c = if pos_eq_dec c p then 1 else acked s c) ->
    rdy_get (rdy s') q = rdy_get (rdy s) q ->
    (In q O -> ~ In p (children q)) ->
    QI s' q.
  Proof.
    intros [C1 C2 C3 C4 C5 C6 C7 C8] H1 H1' H2 H3 Hack Hr Hnp.
    constructor; try assumption; rewrite ?H3; try assumption;
      try (intros Hx; apply C8; unfold n_cr in *; lia).
    - intros Hq Hn Hw c Hc HcO. rewrite Hack. destruct (pos_eq_dec c p); [reflexivity|]. eapply C6; eauto.
    - intros Hq Hn Hw. destruct (g_other s s' p q Hack (Hnp Hq)) as (-> & -> & -> & ->).
      rewrite Hr. apply C7; assumption.
  Qed.

  Lemma drecv_facts s p rest :
    Inv s -> dq_pipe s = p :: rest ->
    n_dq s p = 1 /\ n_en s p = 1 /\ n_put s p = 0 /\ n_st s p = 1 /\ n_rq s p = 0 /\ n_cb s p = 0 /\
    In p O /\ acked s p = 0.
  Proof.
    intros H Ep. pose proof (i_q s H p) as [C1 C2 C3 C4 C5 C6 C7 C8].
    assert (Hd : n_dq s p >= 1). { unf. rewrite Ep, (cnt_cons p p rest), cnt_one_same. lia. }
    assert (HpO : In p O) by (apply C4; lia). unfold acked. repeat split; try lia; auto.
  Qed.

  (* everything below a processed position has been processed *)
  Lemma all_acked s :
    (forall q, QI s q) -> acked s ap = 1 -> forall q, In q O -> acked s q = 1.
  Proof.
    intros HQ Hap.
    assert (Hn : forall n q, pn q <= n -> In q O -> acked s q = 1).
    { induction n as [|n IH]; intros q Hle Hq.
      - destruct (pos_eq_dec q ap) as [->|Hne]; [exact Hap|].
        destruct (O_parent q Hq Hne) as (pp & ix & iy & Hp & _).
        unfold parent in Hp. destruct (pn q); [discriminate|lia].
      - destruct (pos_eq_dec q ap) as [->|Hne]; [exact Hap|].
        destruct (O_parent q Hq Hne) as (pp & ix & iy & Hp & HppO).
        pose proof (child_of_parent _ _ _ _ Hp) as Hc. pose proof (children_level _ _ Hc) as Hl.
        assert (Ha : acked s pp = 1) by (apply IH; [lia|exact HppO]).
        pose proof (HQ pp) as [C1 C2 C3 C4 C5 C6 C7 C8]. pose proof (O_level q Hq) as L.
        apply (C6 HppO); auto; [lia|]. unfold acked in Ha. lia. }
    intros q Hq. apply (Hn (pn q)); auto.
  Qed.

  Lemma drecv_counts s s' p rest :
    Inv s -> dq_pipe s = p :: rest ->
    wks s' = wks s -> cblog s' = cblog s -> dq_bufs s' = dq_bufs s -> dq_pipe s' = rest ->
    (forall q, n_cb s' q = n_cb s q /\ n_put s' q = n_put s q /\ n_st s' q = n_st s q /\
               n_en s' q = n_en s q /\ n_dq s' q + cnt q [p] = n_dq s q) /\
    (forall c, acked s' c = if pos_eq_dec c p then 1 else acked s c).
  Proof.
    intros H Ep E1 E2 E3 E4.
    assert (HC : forall q, n_cb s' q = n_cb s q /\ n_put s' q = n_put s q /\ n_st s' q = n_st s q /\
               n_en s' q = n_en s q /\ n_dq s' q + cnt q [p] = n_dq s q).
    { intros q. unfold n_cb, n_put, n_st, n_en, n_dq. rewrite E1, E2, E3, E4, Ep, (cnt_cons q p rest).
      repeat split. lia. }
    split; [exact HC|]. intros c.
    destruct (drecv_facts s p rest H Ep) as (F1 & F2 & F3 & F4 & F5 & F6 & HpO & F8).
    destruct (HC c) as (_ & D2 & _ & D4 & D5). unfold acked.
    destruct (pos_eq_dec c p) as [->|Hne].
    - rewrite cnt_one_same in D5. lia.
    - rewrite cnt_one_diff in D5 by exact Hne. lia.
  Qed.

  Lemma inv_DRecv s : Inv s -> wenabled s DRecv = true -> Inv (step s DRecv).
  Proof.
    intros H En. unfold wstep. rewrite En. cbn [negb]. unfold wenabled in En.
    pose proof (i_wks s H) as Hw. unfold wks_ok in Hw.
    pose proof (i_flag s H) as Hfl. pose proof (i_closed s H) as Hcl. pose proof (i_loop s H) as Hlp.
    destruct (d_pc s) eqn:Epc; try discriminate.
    destruct (dq_pipe s) as [|p rest] eqn:Ep; [discriminate|]. clear En.
    destruct (drecv_facts s p rest H Ep) as (F1 & F2 & F3 & F4 & F5 & F6 & HpO & F8).
    pose proof (i_sem s H) as Hsem. rewrite Ep in Hsem. cbn [length] in Hsem.
    rewrite (i_ap s H). cbv zeta.
    destruct (pos_eqb p ap) eqn:Eap.
    - (* the apex: leave the loop *)
      apply pos_eqb_eq in Eap. subst p. name_state s'.
      destruct (drecv_counts s s' ap rest H Ep eq_refl eq_refl eq_refl eq_refl) as [HC Hack].
      assert (Hrq : forall q, n_rq s' q = n_rq s q).
      { intros q. subst s'. unf. rewrite Epc. reflexivity. }
      assert (HQ : forall q, QI s' q).
      { intros q. destruct (HC q) as (D1 & D2 & D3 & D4 & D5).
        pose proof (i_q s H q) as HQ. pose proof HQ as [C1 C2 C3 C4 C5 C6 C7 C8].
        apply (QI_frame2 s s' ap q HQ); try (rewrite ?Hrq; lia); auto.
        intros Hq Hc. apply children_level in Hc. pose proof (O_above q Hq). lia. }
      constructor; try solve [subst s'; unf; apply H]; try (subst s'; unf; discriminate).
      + exact HQ.
      + subst s'. unf. lia.
      + unfold wks_ok. subst s'. unf. exact Hw.
      + intros _. apply all_acked; [exact HQ|]. rewrite Hack.
        destruct (pos_eq_dec ap ap); [reflexivity|congruence].
      + subst s'. unf. exact Hfl.
      + subst s'. unf. exact Hcl.
    - assert (Hne : p <> ap).
      { intros ->. rewrite pos_eqb_refl in Eap. discriminate. }
      destruct (O_parent p HpO Hne) as (pp & ix & iy & Hp & HppO).
      rewrite Hp. cbv beta iota zeta.
      pose proof (child_of_parent _ _ _ _ Hp) as Hch. pose proof (children_level _ _ Hch) as Hlv.
      pose proof (O_level p HpO) as Lp.
      assert (Lpp : S (pn pp) < dep) by lia.
      pose proof (i_q s H pp) as [P1 P2 P3 P4 P5 P6 P7 P8].
      assert (Hwait : n_rq s pp + n_st s pp = 0).
      { destruct (Nat.eq_dec (n_rq s pp + n_st s pp) 1) as [E|E]; [|lia].
        pose proof (P6 HppO Lpp E p Hch HpO). lia. }
      destruct (P7 HppO Lpp Hwait) as [Hrdy _].
      set (gp := fun c => negb (memb c O) || Nat.eqb (if pos_eq_dec c p then 1 else acked s c) 1).
      assert (Hgp_p : gp p = true).
      { unfold gp. destruct (pos_eq_dec p p); [|congruence]. apply orb_true_r. }
      assert (Hgp_o : forall c, c <> p -> g s c = gp c).
      { intros c Hc. unfold gp, g. destruct (pos_eq_dec c p); [contradiction|reflexivity]. }
      assert (Hflags : N.lor (rdy_get (rdy s) pp) (N.shiftl 1 (2 * iy + ix)) =
                       bit4 (gp (c0 pp)) (gp (c1 pp)) (gp (c2 pp)) (gp (c3 pp))).
      { rewrite Hrdy. destruct (c_distinct pp) as (D01 & D02 & D03 & D12 & D13 & D23).
        destruct (parent_kid _ _ _ _ Hp) as [(-> & -> & Ec)|[(-> & -> & Ec)|[(-> & -> & Ec)|(-> & -> & Ec)]]].
        - rewrite bit4_or0, <- Ec, Hgp_p.
          rewrite !Hgp_o by (rewrite Ec; congruence). reflexivity.
        - rewrite bit4_or1, <- Ec, Hgp_p.
          rewrite !Hgp_o by (rewrite Ec; congruence). reflexivity.
        - rewrite bit4_or2, <- Ec, Hgp_p.
          rewrite !Hgp_o by (rewrite Ec; congruence). reflexivity.
        - rewrite bit4_or3, <- Ec, Hgp_p.
          rewrite !Hgp_o by (rewrite Ec; congruence). reflexivity. }
      rewrite Hflags, bit4_15.
      assert (Hpar_p : parent_pos p = pp) by (unfold parent_pos; rewrite Hp; reflexivity).
      assert (Hother : forall q, q <> pp -> ~ In p (children q)).
      { intros q Hq Hc. apply parent_pos_child in Hc. congruence. }
      destruct (gp (c0 pp) && gp (c1 pp) && gp (c2 pp) && gp (c3 pp)) eqn:E15.
      + (* all children ready: release the parent *)
        name_state s'.
        destruct (drecv_counts s s' p rest H Ep eq_refl eq_refl eq_refl eq_refl) as [HC Hack].
        assert (Hrq : forall q, n_rq s' q = n_rq s q + cnt q [pp]).
        { intros q. subst s'. unf. rewrite Epc. cbn [dpend]. rewrite cnt_nil. lia. }
        assert (Hg : forall c, g s' c = gp c).
        { intros c. unfold g, gp. rewrite Hack. reflexivity. }
        constructor; try solve [subst s'; unf; apply H]; try (subst s'; unf; discriminate).
        * intros q. destruct (HC q) as (D1 & D2 & D3 & D4 & D5). specialize (Hrq q).
          pose proof (i_q s H q) as HQ. pose proof HQ as [C1 C2 C3 C4 C5 C6 C7 C8].
          destruct (pos_eq_dec q pp) as [->|Hq].
          -- rewrite cnt_one_same in Hrq.
             constructor; try lia; auto.
             ++ intros _ _ _ c Hc HcO.
                assert (Hgc : gp c = true).
                { apply andb_true_iff in E15. destruct E15 as [E15 G3].
                  apply andb_true_iff in E15. destruct E15 as [E15 G2].
                  apply andb_true_iff in E15. destruct E15 as [G0 G1].
                  apply children_cases in Hc. destruct Hc as [ -> | [ -> | [ -> | -> ] ] ]; assumption. }
                rewrite <- Hg in Hgc. unfold g in Hgc. apply memb_in in HcO. rewrite HcO in Hgc.
                cbn [negb orb] in Hgc. apply Nat.eqb_eq in Hgc. exact Hgc.
          -- rewrite cnt_one_diff in Hrq by exact Hq.
             apply (QI_frame2 s s' p q HQ); try lia; auto.
             subst s'. unf. rewrite rdy_get_remove. destruct (pos_eq_dec q pp); [contradiction|reflexivity].
        * subst s'. unf. lia.
        * unfold wks_ok. subst s'. unf. exact Hw.
        * intros _. rewrite Hack. destruct (pos_eq_dec ap p); [congruence|]. apply Hlp. reflexivity.
        * subst s'. unf. exact Hfl.
        * subst s'. unf. exact Hcl.
      + (* some child still outstanding: record the bit *)
        name_state s'.
        destruct (drecv_counts s s' p rest H Ep eq_refl eq_refl eq_refl eq_refl) as [HC Hack].
        assert (Hrq : forall q, n_rq s' q = n_rq s q).
        { intros q. subst s'. unf. rewrite Epc. reflexivity. }
        assert (Hg : forall c, g s' c = gp c).
        { intros c. unfold g, gp. rewrite Hack. reflexivity. }
        constructor; try solve [subst s'; unf; apply H]; try (subst s'; unf; discriminate).
        * intros q. destruct (HC q) as (D1 & D2 & D3 & D4 & D5). specialize (Hrq q).
          pose proof (i_q s H q) as HQ. pose proof HQ as [C1 C2 C3 C4 C5 C6 C7 C8].
          destruct (pos_eq_dec q pp) as [->|Hq].
          -- constructor; try lia; auto.
             intros _ _ _. rewrite !Hg. split; [|exact E15].
                subst s'. unf. rewrite rdy_get_set. destruct (pos_eq_dec pp pp); [reflexivity|congruence].
          -- apply (QI_frame2 s s' p q HQ); try lia; auto.
             subst s'. unf. rewrite rdy_get_set. destruct (pos_eq_dec q pp); [contradiction|reflexivity].
        * subst s'. unf. lia.
        * unfold wks_ok. subst s'. unf. exact Hw.
        * intros _. rewrite Hack. destruct (pos_eq_dec ap p); [congruence|]. apply Hlp. reflexivity.
        * subst s'. unf. exact Hfl.
        * subst s'. unf. exact Hcl.
  Qed.

  (* ---- every reachable state ------------------------------------------------------------ *)

  Lemma inv_step s a : Inv s -> Inv (step s a).
  Proof.
    intros H. destruct (wenabled s a) eqn:En.
    2:{ unfold wstep. rewrite En. exact H. }
    destruct a.
    - apply inv_DPut; assumption.
    - apply inv_DRecv; assumption.
    - unfold wstep. rewrite En. exact H.
    - apply inv_DCloseQ; assumption.
    - apply inv_DJoinThread; assumption.
    - apply inv_DSetFlag; assumption.
    - apply inv_DJoinW; assumption.
    - apply inv_FFlushReady; assumption.
    - apply inv_FFeederExit; assumption.
    - apply inv_FFlushDone; assumption.
    - apply inv_KRecv; assumption.
    - apply inv_KTimeout; assumption.
    - apply inv_KIsSet; assumption.
    - apply inv_KCb; assumption.
    - apply inv_KPut; assumption.
    - apply inv_KExit; assumption.
    - apply inv_KCTimeout; assumption.
  Qed.

  Lemma inv_run l : forall s, Inv s -> Inv (run s l).
  Proof.
    induction l as [|a l IH]; intros s H; [exact H|]. cbn [wrun fold_left].
    apply IH. apply inv_step. exact H.
  Qed.

  Lemma inv_reachable l : Inv (run init0 l).
  Proof. apply inv_run, inv_init. Qed.

  (* ---- safety ------------------------------------------------------------------------------ *)

  Lemma logok_split lg : logok lg -> forall l1 b p w l2, lg = l1 ++ (b, p, w) :: l2 ->
    if b then In p (starts l2) else forall c, In c (children p) -> In c O -> In c (ends l2).
  Proof.
    induction lg as [|[[b' p'] w'] lg IH]; intros Hl l1 b p w l2 E.
    - destruct l1; discriminate.
    - cbn [logok] in Hl. destruct Hl as [Hh Ht]. destruct l1 as [|e l1].
      + cbn [app] in E. injection E as -> -> -> ->. exact Hh.
      + cbn [app] in E. injection E as _ E. eapply IH; eauto.
  Qed.

  Definition safe (s : wstate) : Prop :=
    (forall p w, In (false, p, w) (cblog s) -> In p O) /\
    NoDup (starts (cblog s)) /\ NoDup (ends (cblog s)) /\
    (forall l1 p w l2, cblog s = l1 ++ (true, p, w) :: l2 -> exists w', In (false, p, w') l2) /\
    (forall l1 p w l2, cblog s = l1 ++ (false, p, w) :: l2 ->
       forall c, In c (children p) -> In c O -> exists w', In (true, c, w') l2).

  Lemma inv_safe s : Inv s -> safe s.
  Proof.
    intros H. unfold safe. repeat split.
    - intros p w Hin. pose proof (i_q s H p) as [C1 C2 C3 C4 C5 C6 C7 C8]. apply C4.
      assert (Hs : In p (starts (cblog s))) by (apply in_starts; eauto).
      apply cnt_in in Hs. unf. lia.
    - apply cnt_nodup. intros q. pose proof (i_q s H q) as [C1 C2 C3 C4 C5 C6 C7 C8]. unf. lia.
    - apply cnt_nodup. intros q. pose proof (i_q s H q) as [C1 C2 C3 C4 C5 C6 C7 C8]. unf. lia.
    - intros l1 p w l2 E. pose proof (logok_split _ (i_log s H) l1 true p w l2 E) as Hs.
      cbv beta iota in Hs. apply in_starts. exact Hs.
    - intros l1 p w l2 E c Hc HcO.
      pose proof (logok_split _ (i_log s H) l1 false p w l2 E) as Hs.
      cbv beta iota in Hs. apply in_ends. apply Hs; assumption.
  Qed.

  (* ---- terminal states ----------------------------------------------------------------------- *)

  Lemma inv_terminal s :
    Inv s -> d_pc s = DReturned ->
    Permutation (starts (cblog s)) O /\ Permutation (ends (cblog s)) O /\
    length (wks s) = par /\
    (forall w x, nth_error (wks s) w = Some x -> exists c, fst x = KExited c) /\
    ((forall p, bad p = false) -> forall w x, nth_error (wks s) w = Some x -> fst x = KExited 0).
  Proof.
    intros H Hr.
    assert (Hpa : forall q, In q O -> acked s q = 1) by (apply (i_past s H); rewrite Hr; reflexivity).
    assert (Hcnt : forall q, n_st s q = cnt q O /\ n_en s q = cnt q O).
    { intros q. pose proof (i_q s H q) as [C1 C2 C3 C4 C5 C6 C7 C8].
      destruct (in_dec pos_eq_dec q O) as [Hq|Hq].
      - rewrite (cnt_nodup_in O q O_nodup Hq). specialize (Hpa q Hq). unfold acked in Hpa. lia.
      - assert (E0 : cnt q O = 0) by (apply cnt_notin; exact Hq). rewrite E0.
        assert (n_rq s q + n_st s q = 0) by (destruct (Nat.eq_dec (n_rq s q + n_st s q) 0); [assumption|]; exfalso; apply Hq, C4; lia).
        lia. }
    pose proof (i_wks s H) as Hw. unfold wks_ok in Hw. rewrite Hr in Hw.
    repeat split.
    - apply cnt_perm. intros q. apply (Hcnt q).
    - apply cnt_perm. intros q. apply (Hcnt q).
    - exact Hw.
    - intros w x Hx. pose proof (nth_error_lt _ _ _ Hx) as Hlt. rewrite Hw in Hlt.
      destruct (i_ret s H Hr w Hlt) as (c & ev & E). rewrite E in Hx. injection Hx as <-. exists c. reflexivity.
    - intros Hnb w x Hx. pose proof (nth_error_lt _ _ _ Hx) as Hlt. rewrite Hw in Hlt.
      destruct (i_ret s H Hr w Hlt) as (c & ev & E). pose proof (i_exit s H w _ E) as He.
      rewrite E in Hx. injection Hx as <-. unfold exit_ok in He. cbn [fst] in *.
      destruct He as [[-> _]|[_ (p & Hb)]]; [reflexivity|]. rewrite Hnb in Hb. discriminate.
  Qed.

  (* ---- no deadlock -------------------------------------------------------------------------- *)

  (* a non-polling action is enabled, possibly after one polling move (a worker's
     flag test that sends it back to the blocking get) *)
  Definition can_progress (s : wstate) : Prop :=
    (exists a, wenabled s a = true /\ wpolling s a = false) \/
    (exists a0 a1, wenabled s a0 = true /\ wpolling s a0 = true /\
                   wenabled (step s a0) a1 = true /\ wpolling (step s a0) a1 = false).

  Lemma flat_nonempty {T U} (f : T -> list U) (l : list T) :
    flat_map f l <> [] -> exists w x, nth_error l w = Some x /\ f x <> [].
  Proof.
    induction l as [|a l IH]; intros Hne; [exfalso; apply Hne; reflexivity|]. cbn [flat_map] in Hne.
    destruct (f a) eqn:Ea.
    - destruct (IH Hne) as (w & x & Hx & Hf). exists (S w), x. auto.
    - exists 0, a. split; [reflexivity|congruence].
  Qed.

  Lemma busy_contra s p :
    Inv s -> in_loop (d_pc s) = false ->
    n_rq s p + n_cb s p + n_put s p + n_dq s p >= 1 -> False.
  Proof.
    intros H Hl Hb. pose proof (i_q s H p) as [C1 C2 C3 C4 C5 C6 C7 C8].
    assert (HpO : In p O) by (apply C4; lia).
    pose proof (i_past s H Hl p HpO) as Ha. unfold acked in Ha. lia.
  Qed.

  Lemma past_empty s :
    Inv s -> in_loop (d_pc s) = false ->
    rq_buf s = [] /\ rq_pipe s = [] /\ dq_pipe s = [] /\ flat_map idl (dq_bufs s) = [] /\
    flat_map cbpos (wks s) = [] /\ flat_map putpos (wks s) = [].
  Proof.
    intros H Hl.
    assert (Hz : forall l, (forall p, cnt p l <= n_rq s p + n_cb s p + n_put s p + n_dq s p) -> l = []).
    { intros [|p l] Hc; [reflexivity|]. exfalso. apply (busy_contra s p H Hl).
      specialize (Hc p). rewrite (cnt_cons p p l), cnt_one_same in Hc. lia. }
    repeat split; apply Hz; intros p; unf; lia.
  Qed.

  Lemma acked_le1 s q : Inv s -> acked s q <= 1.
  Proof. intros H. pose proof (i_q s H q) as [C1 C2 C3 C4 C5 C6 C7 C8]. unfold acked. lia. Qed.

  Lemma quiescent_false s :
    (forall p, bad p = false) ->
    Inv s -> in_loop (d_pc s) = true ->
    (forall q, n_rq s q = 0 /\ n_cb s q = 0 /\ n_put s q = 0 /\ n_dq s q = 0) -> False.
  Proof.
    intros Hnb H Hl Hz.
    assert (Hn : forall n q, dep - pn q <= n -> In q O -> acked s q = 0 -> False).
    { induction n as [|n IH]; intros q Hle Hq Ha; pose proof (O_level q Hq) as L; [lia|].
      pose proof (i_q s H q) as [C1 C2 C3 C4 C5 C6 C7 C8]. destruct (Hz q) as (Z1 & Z2 & Z3 & Z4).
      unfold acked in Ha.
      assert (Hcr : n_cr s q = 0).
      { destruct (Nat.eq_dec (n_cr s q) 0) as [E|E]; [exact E|]. rewrite Hnb in C8. discriminate C8. lia. }
      unfold n_cr in Hcr.
      assert (Hwait : n_rq s q + n_st s q = 0) by lia.
      destruct (Nat.eq_dec (S (pn q)) dep) as [E|E]; [specialize (C5 Hq E); lia|].
      destruct (C7 Hq ltac:(lia) Hwait) as [_ Hg].
      assert (Hc : forall c, In c (children q) -> g s c = false -> False).
      { intros c Hc Hgc. unfold g in Hgc. apply orb_false_iff in Hgc. destruct Hgc as [G1 G2].
        apply negb_false_iff, memb_in in G1. apply Nat.eqb_neq in G2.
        pose proof (acked_le1 s c H). apply (IH c); [rewrite (children_level _ _ Hc); lia|exact G1|lia]. }
      destruct (g s (c0 q)) eqn:G0; [|apply (Hc (c0 q)); [apply children_cases; auto|exact G0]].
      destruct (g s (c1 q)) eqn:G1; [|apply (Hc (c1 q)); [apply children_cases; auto|exact G1]].
      destruct (g s (c2 q)) eqn:G2; [|apply (Hc (c2 q)); [apply children_cases; auto|exact G2]].
      destruct (g s (c3 q)) eqn:G3; [|apply (Hc (c3 q)); [apply children_cases; auto 6|exact G3]].
      discriminate. }
    apply (Hn (dep - pn ap) ap); [lia|exact O_apex|apply (i_loop s H Hl)].
  Qed.

  Lemma enabled_after_isset s ev p rest :
    nth_error (wks s) 0 = Some (KAtFlag, ev) -> wflag s = false -> rq_pipe s = p :: rest ->
    wenabled (step s (KIsSet 0)) (KRecv 0) = true.
  Proof.
    intros Ew Hf Ep.
    assert (En : wenabled s (KIsSet 0) = true) by (unfold wenabled, wk_get; rewrite Ew; reflexivity).
    unfold wstep. rewrite En. cbn [negb]. unfold wk_get. rewrite Ew, Hf.
    unfold wenabled, wk_get, set_wk. unf.
    rewrite nth_error_set_nth_eq by (eapply nth_error_lt; eauto). rewrite Ep. reflexivity.
  Qed.

  Theorem no_deadlock s : (forall p, bad p = false) -> Inv s -> d_pc s <> DReturned -> can_progress s.
  Proof.
    intros Hnb H Hnr.
    pose proof (i_wks s H) as Hw. unfold wks_ok in Hw.
    pose proof (i_flag s H) as Hfl. pose proof (i_closed s H) as Hcl.
    destruct (d_pc s) as [l| |p| | | |k| |] eqn:Epc; try congruence; try contradiction.
    - (* seeding *)
      left. exists DPut. split; [|reflexivity]. unfold wenabled. rewrite Epc.
      destruct l; [destruct Hw; congruence|reflexivity].
    - (* the dispatcher loop *)
      destruct (dq_pipe s) as [|p rest] eqn:Edq.
      2:{ left. exists DRecv. split; [|reflexivity]. unfold wenabled. rewrite Epc, Edq. reflexivity. }
      destruct (flat_map idl (dq_bufs s)) as [|p0 r0] eqn:Ebufs.
      2:{ destruct (flat_nonempty idl (dq_bufs s)) as (w & x & Hx & Hf); [congruence|].
          left. exists (FFlushDone w). split; [|reflexivity]. unfold wenabled, nth_buf.
          rewrite (nth_error_nth _ _ _ Hx), Edq, (i_pcap s H). unfold idl in Hf.
          destruct x; [congruence|]. cbn [negb andb length]. apply Nat.ltb_lt. lia. }
      pose proof (i_sem s H) as Hsem. rewrite Ebufs, Edq in Hsem. cbn [length] in Hsem.
      destruct (flat_map putpos (wks s)) as [|p1 r1] eqn:Eput.
      2:{ destruct (flat_nonempty putpos (wks s)) as (w & [st ev] & Hx & Hf); [congruence|].
          unfold putpos in Hf. cbn [fst] in Hf. destruct st; try congruence.
          left. exists (KPut w). split; [|reflexivity]. unfold wenabled, wk_get. rewrite Hx.
          apply Nat.ltb_lt. lia. }
      destruct (flat_map cbpos (wks s)) as [|p2 r2] eqn:Ecb.
      2:{ destruct (flat_nonempty cbpos (wks s)) as (w & [st ev] & Hx & Hf); [congruence|].
          unfold cbpos in Hf. cbn [fst] in Hf. destruct st; try congruence.
          left. exists (KCb w). split; [|reflexivity]. unfold wenabled, wk_get. rewrite Hx. reflexivity. }
      destruct (rq_pipe s) as [|p rest] eqn:Erq.
      + destruct (rq_buf s) as [|p b] eqn:Ebuf.
        * exfalso. apply (quiescent_false s Hnb H); [rewrite Epc; reflexivity|].
          intros q. unf. rewrite Epc, Ebuf, Erq, Ebufs, Edq, Eput, Ecb. cbn [dpend]. rewrite !cnt_nil. auto.
        * left. exists FFlushReady. split; [|reflexivity]. unfold wenabled.
          rewrite Ebuf, Erq, (i_pcap s H). cbn [negb andb length]. apply Nat.ltb_lt. lia.
      + destruct (nth_error (wks s) 0) as [[st ev]|] eqn:E0.
        2:{ apply nth_error_None in E0. lia. }
        pose proof (i_exit s H 0 _ E0) as Hex. unfold exit_ok in Hex. cbn [fst] in Hex.
        rewrite Hfl in Hex. cbn [flag_pc] in Hex.
        assert (Hcb0 : cbpos (st, ev) = []).
        { apply (flat_map_all_nil cbpos (wks s) Ecb). eapply nth_error_In; eauto. }
        assert (Hput0 : putpos (st, ev) = []).
        { apply (flat_map_all_nil putpos (wks s) Eput). eapply nth_error_In; eauto. }
        destruct st; try (destruct Hex as [[_ Hf]|[_ (p' & Hb)]]; [discriminate|rewrite Hnb in Hb; discriminate]); try discriminate.
        * left. exists (KRecv 0). split; [|reflexivity]. unfold wenabled, wk_get. rewrite E0, Erq. reflexivity.
        * right. exists (KIsSet 0), (KRecv 0). split; [|split; [|split]].
          -- unfold wenabled, wk_get. rewrite E0. reflexivity.
          -- cbn [wpolling]. rewrite Hfl. reflexivity.
          -- apply (enabled_after_isset s ev p rest); auto.
          -- reflexivity.
    - (* releasing *)
      left. exists DPut. split; [|reflexivity]. unfold wenabled. rewrite Epc. reflexivity.
    - left. exists DCloseQ. split; [|reflexivity]. unfold wenabled. rewrite Epc. reflexivity.
    - (* waiting for the feeder of the ready queue *)
      destruct (past_empty s H) as (Eb & _); [rewrite Epc; reflexivity|].
      destruct (negb (rq_everput s) || rq_fdone s) eqn:E1.
      + left. exists DJoinThread. split; [|reflexivity]. unfold wenabled. rewrite Epc. exact E1.
      + apply orb_false_iff in E1. destruct E1 as [E1 E2]. apply negb_false_iff in E1.
        left. exists FFeederExit. split; [|reflexivity]. unfold wenabled.
        rewrite Hcl, E1, E2, Eb. reflexivity.
    - left. exists DSetFlag. split; [|reflexivity]. unfold wenabled. rewrite Epc. reflexivity.
    - (* joining worker k *)
      destruct (i_join s H k Epc) as [Hk _].
      destruct (past_empty s H) as (_ & Erq & _ & Ebufs & Ecb & Eput); [rewrite Epc; reflexivity|].
      destruct (nth_error (wks s) k) as [[st ev]|] eqn:Ek.
      2:{ apply nth_error_None in Ek. lia. }
      assert (Hcb0 : cbpos (st, ev) = []).
      { apply (flat_map_all_nil cbpos (wks s) Ecb). eapply nth_error_In; eauto. }
      assert (Hput0 : putpos (st, ev) = []).
      { apply (flat_map_all_nil putpos (wks s) Eput). eapply nth_error_In; eauto. }
      left. destruct st; try discriminate.
      + exists (KTimeout k). split.
        * unfold wenabled, wk_get. rewrite Ek, Erq. reflexivity.
        * cbn [wpolling]. rewrite Hfl. reflexivity.
      + exists (KIsSet k). split.
        * unfold wenabled, wk_get. rewrite Ek. reflexivity.
        * cbn [wpolling]. rewrite Hfl. reflexivity.
      + exists (KExit k). split; [|reflexivity]. unfold wenabled, wk_get. rewrite Ek.
        assert (Eb : nth_buf (dq_bufs s) k = []).
        { unfold nth_buf. destruct (nth_error (dq_bufs s) k) as [b|] eqn:Eb.
          - rewrite (nth_error_nth _ _ _ Eb).
            apply (flat_map_all_nil idl (dq_bufs s) Ebufs). eapply nth_error_In; eauto.
          - apply nth_overflow. apply nth_error_None. exact Eb. }
        rewrite Eb. reflexivity.
      + exists (DJoinW k). split; [|reflexivity]. unfold wenabled, wk_get. rewrite Epc, Ek, Nat.eqb_refl.
        reflexivity.
  Qed.

  (* ---- progress measure --------------------------------------------------------------------- *)

  Definition drank (d : dpc) : nat :=
    match d with
    | DSeed _ => 4 * par + 10
    | DLoop | DRelease _ => par + 6
    | DClose => par + 5 | DJoinFeeder => par + 4 | DSet => par + 3
    | DJoin k => S (par - k) | DReturned => 0 | DRaised => 0
    end.

  (* [fl] = the shutdown flag: while it is clear the flag test is a polling move *)
  Definition wrank (fl : bool) (x : wpc) : nat :=
    match x with
    | KExited _ => 0 | KExiting _ => 1 | KAtFlag => if fl then 2 else 3 | KAtGet => 3
    | KInCb _ => 2 | KAtPut _ => 9
    end.

  Definition wtok (fl : bool) (x : wpc * bool) : list unit := repeat tt (wrank fl (fst x)).

  Definition measure (s : wstate) : nat :=
    3 * length (dpend (d_pc s)) + 2 * length (rq_buf s) + length (rq_pipe s)
    + 10 * (length O - length (ends (cblog s)))
    + 5 * length (flat_map idl (dq_bufs s)) + 4 * length (dq_pipe s)
    + (if rq_fdone s then 0 else 1) + drank (d_pc s) + length (flat_map (wtok (wflag s)) (wks s)).

  Lemma wtok_len fl x : length (wtok fl x) = wrank fl (fst x).
  Proof. apply repeat_length. Qed.

  Lemma wtok_start fl : length (flat_map (wtok fl) (start_workers par)) = 3 * par.
  Proof.
    unfold start_workers. generalize par as n. induction n as [|n IH]; [reflexivity|].
    cbn [repeat flat_map]. rewrite app_length, IH. cbn. lia.
  Qed.

  Lemma ends_lt s p : Inv s -> n_cb s p >= 1 -> length (ends (cblog s)) < length O.
  Proof.
    intros H Hc. pose proof (i_q s H p) as [C1 C2 C3 C4 C5 C6 C7 C8].
    assert (Hnd : NoDup (p :: ends (cblog s))).
    { constructor; [apply cnt_notin; unf; lia|]. apply (inv_safe s H). }
    assert (Hincl : incl (p :: ends (cblog s)) O).
    { intros x [<-|Hx]; [apply C4; lia|].
      pose proof (i_q s H x) as [X1 X2 X3 X4 X5 X6 X7 X8]. apply X4. apply cnt_in in Hx. unf. lia. }
    pose proof (NoDup_incl_length Hnd Hincl) as Hl. cbn [length] in Hl. lia.
  Qed.

  Lemma wtok_flag_le fl l : length (flat_map (wtok true) l) <= length (flat_map (wtok fl) l).
  Proof.
    induction l as [|[st ev] l IH]; [reflexivity|]. cbn [flat_map]. rewrite !app_length, !wtok_len. cbn [fst].
    assert (wrank true st <= wrank fl st) by (destruct st, fl; cbn; lia). lia.
  Qed.

  Ltac msr := cbv beta iota zeta; unfold measure; unf; cbn [dpend drank length]; rewrite ?app_length; cbn [length].

  Theorem measure_decreases s a :
    Inv s -> wenabled s a = true -> wpolling s a = false -> measure (step s a) < measure s.
  Proof.
    intros H En Hpoll. unfold wstep. rewrite En. cbn [negb]. unfold wk_get.
    pose proof (i_wks s H) as Hw. unfold wks_ok in Hw.
    destruct a as [| | | | | |w| | |w|w|w|w|w|w|w|w]; unfold wenabled, wk_get in En; cbn [wpolling] in Hpoll;
      try discriminate.
    - (* DPut *)
      destruct (d_pc s) as [l| |p| | | |k| |] eqn:Epc; try discriminate.
      + destruct l as [|p l]; [discriminate|]. destruct Hw as [_ Hw].
        destruct l as [|p' l]; msr; rewrite ?Epc, ?Hw, ?(i_par s H), ?wtok_start; cbn [dpend drank length flat_map];
          destruct (rq_fdone s); lia.
      + msr. rewrite Epc. cbn [dpend drank length]. destruct (rq_fdone s); lia.
    - (* DRecv *)
      destruct (d_pc s) eqn:Epc; try discriminate.
      destruct (dq_pipe s) as [|p rest] eqn:Ep; [discriminate|]. cbv zeta.
      destruct (pos_eqb p (s_apex s)).
      + msr. rewrite Epc, Ep. cbn [dpend drank length]. destruct (rq_fdone s); lia.
      + destruct (parent p) as [[[pp ix] iy]|].
        * destruct (N.eqb _ 15); msr; rewrite Epc, Ep; cbn [dpend drank length]; destruct (rq_fdone s); lia.
        * msr. rewrite Epc, Ep. cbn [dpend drank length]. destruct (rq_fdone s); lia.
    - (* DCloseQ *)
      destruct (d_pc s) eqn:Epc; try discriminate. msr. rewrite Epc. cbn [dpend drank length].
      destruct (rq_fdone s); lia.
    - (* DJoinThread *)
      destruct (d_pc s) eqn:Epc; try discriminate. msr. rewrite Epc. cbn [dpend drank length].
      destruct (rq_fdone s); lia.
    - (* DSetFlag *)
      destruct (d_pc s) eqn:Epc; try discriminate. msr. rewrite Epc. cbn [dpend drank length].
      pose proof (wtok_flag_le (wflag s) (wks s)). destruct (rq_fdone s); lia.
    - (* DJoinW *)
      destruct (d_pc s) as [| | | | | |k| |] eqn:Epc; try discriminate.
      apply andb_true_iff in En. destruct En as [E1 _]. apply Nat.eqb_eq in E1. subst k.
      destruct (i_join s H w Epc) as [Hk _]. msr. rewrite Epc.
      destruct (Nat.eqb (S w) (length (wks s))); cbn [dpend drank length]; destruct (rq_fdone s); lia.
    - (* FFlushReady *)
      destruct (rq_buf s) as [|p b] eqn:Eb; [discriminate|]. msr. rewrite Eb. cbn [length].
      destruct (rq_fdone s); lia.
    - (* FFeederExit *)
      apply andb_true_iff in En. destruct En as [_ E4]. apply negb_true_iff in E4. msr. rewrite E4. lia.
    - (* FFlushDone *)
      destruct (nth_buf (dq_bufs s) w) as [|p b] eqn:Eb; [discriminate|].
      destruct (nth_buf_some _ _ _ _ Eb) as [Ew Hlt]. msr.
      pose proof (len_flat_set_nth idl (dq_bufs s) w _ b Ew) as Hc. unfold idl at 2 4 in Hc.
      cbn [length] in Hc. destruct (rq_fdone s); lia.
    - (* KRecv *)
      destruct (nth_error (wks s) w) as [[[] ev]|] eqn:Ew; try discriminate.
      destruct (rq_pipe s) as [|p rest] eqn:Ep; [discriminate|]. msr. rewrite Ep, ends_cons_s. cbn [length].
      pose proof (len_flat_set_nth (wtok (wflag s)) (wks s) w _ (KInCb p, ev) Ew) as Hc. rewrite !wtok_len in Hc.
      cbn [fst wrank] in Hc. destruct (rq_fdone s); lia.
    - (* KTimeout *)
      apply negb_false_iff in Hpoll.
      destruct (nth_error (wks s) w) as [[[] ev]|] eqn:Ew; try discriminate. msr. rewrite Hpoll.
      pose proof (len_flat_set_nth (wtok true) (wks s) w _ (KAtFlag, ev) Ew) as Hc. rewrite !wtok_len in Hc.
      cbn [fst wrank] in Hc. destruct (rq_fdone s); lia.
    - (* KIsSet *)
      apply negb_false_iff in Hpoll.
      destruct (nth_error (wks s) w) as [[[] ev]|] eqn:Ew; try discriminate. rewrite Hpoll. msr. rewrite Hpoll.
      pose proof (len_flat_set_nth (wtok true) (wks s) w _ (leave ev 0, ev) Ew) as Hc. rewrite !wtok_len in Hc.
      cbn [fst wrank] in Hc. destruct ev; cbn [leave wrank] in *; destruct (rq_fdone s); lia.
    - (* KCb *)
      destruct (nth_error (wks s) w) as [[[| |p| | |] ev]|] eqn:Ew; try discriminate.
      destruct (bad p) eqn:Ebad.
      { msr. pose proof (len_flat_set_nth (wtok (wflag s)) (wks s) w _ (leave ev 1, ev) Ew) as Hc. rewrite !wtok_len in Hc.
        cbn [fst wrank] in Hc. destruct ev; cbn [leave wrank] in *; destruct (rq_fdone s); lia. }
      msr. rewrite ends_cons_e. cbn [length].
      pose proof (len_flat_set_nth (wtok (wflag s)) (wks s) w _ (KAtPut p, ev) Ew) as Hc. rewrite !wtok_len in Hc.
      cbn [fst wrank] in Hc.
      assert (Hlt : length (ends (cblog s)) < length O).
      { apply (ends_lt s p H). pose proof (cnt_flat_nth cbpos (wks s) w _ p Ew) as A.
        cbn [cbpos fst] in A. rewrite cnt_one_same in A. unf. lia. }
      destruct (rq_fdone s); lia.
    - (* KPut *)
      destruct (nth_error (wks s) w) as [[[| | |p| |] ev]|] eqn:Ew; try discriminate.
      destruct (wks_len' s w _ H Ew) as [Hlen Hwp].
      assert (Eb : nth_error (dq_bufs s) w = Some (nth_buf (dq_bufs s) w)).
      { apply nth_error_some_nth. rewrite (i_bufs s H). exact Hwp. }
      msr.
      pose proof (len_flat_set_nth (wtok (wflag s)) (wks s) w _ (KAtGet, true) Ew) as Hc. rewrite !wtok_len in Hc.
      cbn [fst wrank] in Hc.
      pose proof (len_flat_set_nth idl (dq_bufs s) w _ (nth_buf (dq_bufs s) w ++ [p]) Eb) as C.
      unfold idl at 2 4 in C. rewrite app_length in C. cbn [length] in C.
      destruct (rq_fdone s); lia.
    - (* KExit *)
      destruct (nth_error (wks s) w) as [[[] ev]|] eqn:Ew; try discriminate. msr.
      pose proof (len_flat_set_nth (wtok (wflag s)) (wks s) w _ (KExited code, ev) Ew) as Hc. rewrite !wtok_len in Hc.
      cbn [fst wrank] in Hc. destruct (rq_fdone s); lia.
    - (* KCTimeout *)
      apply negb_false_iff in Hpoll.
      destruct (nth_error (wks s) w) as [[[] ev]|] eqn:Ew; try discriminate. msr. rewrite Hpoll.
      pose proof (len_flat_set_nth (wtok true) (wks s) w _ (KAtFlag, ev) Ew) as Hc. rewrite !wtok_len in Hc.
      cbn [fst wrank] in Hc. destruct (rq_fdone s); lia.
  Qed.

  (* polling moves (and the dispatcher's timeout) leave the measure unchanged *)
  Theorem measure_polling s a :
    wenabled s a = true -> wpolling s a = true -> measure (step s a) = measure s.
  Proof.
    intros En Hpoll. unfold wstep. rewrite En. cbn [negb]. unfold wk_get.
    destruct a as [| | | | | |w| | |w|w|w|w|w|w|w|w]; unfold wenabled, wk_get in En; cbn [wpolling] in Hpoll;
      try discriminate.
    - reflexivity.
    - apply negb_true_iff in Hpoll.
      destruct (nth_error (wks s) w) as [[[] ev]|] eqn:Ew; try discriminate. msr. rewrite Hpoll.
      pose proof (len_flat_set_nth (wtok false) (wks s) w _ (KAtFlag, ev) Ew) as Hc. rewrite !wtok_len in Hc.
      cbn [fst wrank] in Hc. lia.
    - apply negb_true_iff in Hpoll.
      destruct (nth_error (wks s) w) as [[[] ev]|] eqn:Ew; try discriminate. rewrite Hpoll. msr. rewrite Hpoll.
      pose proof (len_flat_set_nth (wtok false) (wks s) w _ (KAtGet, ev) Ew) as Hc. rewrite !wtok_len in Hc.
      cbn [fst wrank] in Hc. lia.
    - apply negb_true_iff in Hpoll.
      destruct (nth_error (wks s) w) as [[[] ev]|] eqn:Ew; try discriminate. msr. rewrite Hpoll.
      pose proof (len_flat_set_nth (wtok false) (wks s) w _ (KAtFlag, ev) Ew) as Hc. rewrite !wtok_len in Hc.
      cbn [fst wrank] in Hc. lia.
  Qed.
End LTS.
