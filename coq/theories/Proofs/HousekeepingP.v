(* Housekeeping cannot make refresh skip a partially published image: as long as ignore-rejects
   walks a directory holding rejected images only, an image that is not rejected carries no
   skip.flag after any history of (faulted) publish runs and ignore-rejects calls, so refresh
   decides about it by index.wtml alone -- and the publish theorems (PublishP.v) apply. *)
From Coq Require Import List NArith Arith Bool.
From Toasty Require Import Model.Publish Model.Housekeeping Proofs.PublishP.
Import ListNotations.

Lemma hrun_world (atomic : bool) (ops : list hop) (h : hworld) :
  h_w (hrun atomic ops h) = run_all atomic (runs_of ops) (h_w h).
Proof.
  revert h. induction ops as [|o ops IH]; intros h; [reflexivity|].
  unfold hrun in *. cbn [fold_left]. rewrite IH. destruct o as [r|l]; reflexivity.
Qed.

Lemma existsb_eqb_in (u : imgid) (l : list imgid) : existsb (N.eqb u) l = true -> In u l.
Proof.
  intros H. apply existsb_exists in H. destruct H as (x & Hx & E). apply N.eqb_eq in E. subst. exact Hx.
Qed.

Lemma flags_only_on_rejected (atomic : bool) (rejected : imgid -> bool) (ops : list hop) (h : hworld) :
  ignores_only rejected ops ->
  forall u, rejected u = false -> h_flag (hrun atomic ops h) u = h_flag h u.
Proof.
  revert h. induction ops as [|o ops IH]; intros h Hig u Hu; [reflexivity|].
  unfold hrun in *. cbn [fold_left].
  rewrite IH; [| intros l Hl; apply Hig; right; exact Hl | exact Hu].
  destruct o as [r|l]; [reflexivity|]. cbn.
  destruct (existsb (N.eqb u) l) eqn:E; [|reflexivity].
  apply existsb_eqb_in in E. rewrite (Hig l (or_introl eq_refl) u E) in Hu. discriminate.
Qed.

(* refresh after any such history: a non-rejected image without a flag at the start is skipped
   exactly when index.wtml is in the store *)
Lemma refresh_full_is_index_test (atomic : bool) (rejected : imgid -> bool) (ops : list hop) (h : hworld) (u : imgid) :
  ignores_only rejected ops -> rejected u = false -> h_flag h u = false ->
  refresh_skips_full (hrun atomic ops h) u = refresh_skips (run_all atomic (runs_of ops) (h_w h)) u.
Proof.
  intros Hig Hu Hf. unfold refresh_skips_full.
  rewrite (flags_only_on_rejected atomic rejected ops h Hig u Hu), Hf, hrun_world. apply orb_false_r.
Qed.

(* with the repaired store: a non-rejected image that refresh skips has all its other files complete *)
Lemma housekeeping_never_skips_partial (files : imgid -> list name) (rejected : imgid -> bool)
      (ops : list hop) (h : hworld) (u : imgid) :
  (forall r, In r (runs_of ops) -> run_wf files r) -> WorldOk files (h_w h) ->
  ignores_only rejected ops -> rejected u = false -> h_flag h u = false ->
  refresh_skips_full (hrun true ops h) u = true ->
  Others (files u) (w_store (h_w (hrun true ops h)) u).
Proof.
  intros Hwf Hok Hig Hu Hf Hs.
  rewrite (refresh_full_is_index_test true rejected ops h u Hig Hu Hf) in Hs.
  rewrite hrun_world.
  apply (refresh_skip_sound files); [|exact Hs].
  apply run_all_atomic_safe; assumption.
Qed.

(* the hypothesis on the listings is needed: were ignore-rejects to walk a directory holding an
   approved, partially published image, refresh would skip it (witness) *)
Definition wit_h_ops : list hop :=
  [HPublish (mkRun [1%N] [(1%N, [1%N; 2%N; 0%N])] (Before 2)); HIgnore [1%N]].
Lemma housekeeping_hypothesis_needed :
  let h := hrun true wit_h_ops clean_hworld in
  refresh_skips_full h 1%N = true /\ w_store (h_w h) 1%N 2%N = Absent /\ w_store (h_w h) 1%N INDEX = Absent /\
  w_published (h_w h) 1%N = false.
Proof. vm_compute. repeat split. Qed.
