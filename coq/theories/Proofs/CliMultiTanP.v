(* cli.tile_multi_tan_impl as TRANSLATED from toasty/cli.py on every build (Generated/CliMultiTanSrc.v)
   makes the calls of the hand-written model (Model/CliScript.v), in which the collection is built
   from the paths, the HDU selection and the WCS-key selection the user gave. *)
From Coq Require Import ZArith String List Bool.
From Toasty Require Import Model.SrcPrelude Model.CliScript.
From Toasty Require Import Generated.CliMultiTanSrc.
Import ListNotations.
Local Open Scope string_scope.

Lemma src_tile_multi_tan_impl_eq (is_none : sval unit -> bool) (eq_lit : sval unit -> string -> bool) (is_true : sval unit -> bool) :
  run_tree is_none eq_lit is_true src_cli_tile_multi_tan_impl = tile_multi_tan_impl_model.
Proof. reflexivity. Qed.

(* the user's paths, --hdu-index and --wcs-key reach the collection the tiler reads, and --parallelism
   reaches the tiler *)
Lemma multi_tan_plumbing :
  mt_collection = SNewP "SimpleFitsCollection" [setting "paths"]
                        [("hdu_index", setting "hdu_index"); ("wcs_key", setting "wcs_key")] /\
  exists e, nth_error (snd tile_multi_tan_impl_model) 1 = Some e /\
            e = SMethod (SNewP "MultiTanProcessor" [mt_collection] []) "tile" (call_pos e) [("parallel", setting "parallelism"); ("cli_progress", SB true)].
Proof. split; [reflexivity|]. eexists. split; reflexivity. Qed.

(* ---- toasty view (local) ---- *)
Lemma src_view_locally_eq (is_none : sval unit -> bool) (eq_lit : sval unit -> string -> bool) (is_true : sval unit -> bool) :
  run_tree is_none eq_lit is_true src_cli_view_locally = view_locally_model eq_lit is_true.
Proof.
  unfold view_locally_model, tiling_method_table, src_cli_view_locally. cbn [run_tree view_from].
  unfold view_calls, view_tiler, view_collection, setting.
  repeat (match goal with |- context [eq_lit ?v ?l] => destruct (eq_lit v l) end;
          [match goal with |- context [is_true ?v] => destruct (is_true v) end; reflexivity|]).
  reflexivity.
Qed.

(* the collection `toasty view` tiles is loaded from the paths exactly as given (a path named twice
   stays twice, so per-file --hdu-index / --wcs-key lists keep their positions), by the loader built
   from the settings; every method name selects its own TilingMethod; --parallelism reaches the tiler *)
Lemma view_plumbing (m tm : string) (is_true : sval unit -> bool) :
  In (m, tm) tiling_method_table ->
  exists rest,
    view_locally_model (fun _ s => String.eqb m s) is_true
    = (true, SMethod (SName "warnings") "simplefilter" [SStr "ignore"] []
             :: SMethod (SNewP "FitsTiler"
                               [SCallA "load_paths" (SCallA "create_from_args" (SName "CollectionLoader") [SName "settings"] [])
                                       [setting "paths"] []]
                               [("tiling_method", SAttr tm (SName "TilingMethod"))])
                        "tile" [] [("cli_progress", SB true); ("parallel", setting "parallelism")]
             :: rest).
Proof.
  unfold tiling_method_table. cbn [In].
  intros [H|[H|[H|[H|[]]]]]; injection H as <- <-; eexists; reflexivity.
Qed.
