(* cli.tile_multi_tan_impl as TRANSLATED from toasty/cli.py on every build (Generated/CliMultiTanSrc.v)
   makes the calls of the hand-written model (Model/CliScript.v), in which the collection is built
   from the paths, the HDU selection and the WCS-key selection the user gave. *)
From Coq Require Import ZArith String List Bool.
From Toasty Require Import Model.SrcPrelude Model.CliScript.
From Toasty Require Import Generated.CliMultiTanSrc.
Import ListNotations.
Local Open Scope string_scope.

Lemma src_tile_multi_tan_impl_eq (is_none : sval unit -> bool) (eq_lit : sval unit -> string -> bool) (is_true : sval unit -> bool) :
  run_tree is_none eq_lit is_true src_cli_tile_multi_tan_impl = tile_multi_tan_impl_model.
Proof. reflexivity. Qed.

(* the user's paths, --hdu-index and --wcs-key reach the collection the tiler reads, and --parallelism
   reaches the tiler *)
Lemma multi_tan_plumbing :
  mt_collection = SNewP "SimpleFitsCollection" [setting "paths"]
                        [("hdu_index", setting "hdu_index"); ("wcs_key", setting "wcs_key")] /\
  exists e, nth_error (snd tile_multi_tan_impl_model) 1 = Some e /\
            e = SMethod (SNewP "MultiTanProcessor" [mt_collection] []) "tile" (call_pos e) [("parallel", setting "parallelism"); ("cli_progress", SB true)].
Proof. split; [reflexivity|]. eexists. split; reflexivity. Qed.
