(* Proofs about Model/MultiToast.v. *)
From Coq Require Import ZArith List Bool Lia.
From Toasty Require Import Model.MultiToast.
Import ListNotations.
Local Open Scope Z_scope.

Section P.
  Variable tile : Type.

  (* the cascade's filter accepts a tile exactly when some image's filter does *)
  Lemma union_spec (fs : list (tile -> bool)) (t : tile) :
    union_filter tile fs t = true <-> exists f, In f fs /\ f t = true.
  Proof. unfold union_filter. apply existsb_exists. Qed.

  Lemma union_accepts (fs : list (tile -> bool)) (f : tile -> bool) (t : tile) :
    In f fs -> f t = true -> union_filter tile fs t = true.
  Proof. intros Hin Hf. apply union_spec. exists f. split; assumption. Qed.

  (* no holes above the base level: if every image filter is monotone towards the root (a filter
     accepting a tile accepts its parent: C07's filter_monotone for the box filters), so is the
     union, and every ancestor of a tile some image wrote into is visited by the cascade *)
  Lemma union_monotone (parent : tile -> tile) (fs : list (tile -> bool)) :
    (forall f, In f fs -> forall t, f t = true -> f (parent t) = true) ->
    forall t, union_filter tile fs t = true -> union_filter tile fs (parent t) = true.
  Proof.
    intros Hm t Ht. apply union_spec in Ht. destruct Ht as (f & Hin & Hf).
    apply (union_accepts fs f); [exact Hin|apply Hm; assumption].
  Qed.

  Lemma union_ancestors (parent : tile -> tile) (fs : list (tile -> bool)) :
    (forall f, In f fs -> forall t, f t = true -> f (parent t) = true) ->
    forall (k : nat) (f : tile -> bool) (t : tile), In f fs -> f t = true ->
    union_filter tile fs (Nat.iter k parent t) = true.
  Proof.
    intros Hm k f t Hin Hf. induction k as [|k IH]; cbn [Nat.iter].
    - apply (union_accepts fs f); assumption.
    - apply (union_monotone parent fs Hm). exact IH.
  Qed.
End P.

(* the automatic start level: at least 1, at least every image's guess, and attained *)
Lemma auto_start_fold_ge : forall (levels : list (option Z)) (s : Z),
  s <= fold_left (fun s l => match l with Some v => if s <? v then v else s | None => s end) levels s.
Proof.
  induction levels as [|l levels IH]; intros s; cbn [fold_left]; [lia|].
  destruct l as [v|]; [|apply IH].
  destruct (s <? v) eqn:E.
  - apply Z.ltb_lt in E. pose proof (IH v). lia.
  - apply IH.
Qed.

Lemma auto_start_ge_1 levels : 1 <= auto_start levels.
Proof. unfold auto_start. apply auto_start_fold_ge. Qed.

Lemma auto_start_fold_covers : forall (levels : list (option Z)) (s v : Z),
  In (Some v) levels ->
  v <= fold_left (fun s l => match l with Some v => if s <? v then v else s | None => s end) levels s.
Proof.
  induction levels as [|l levels IH]; intros s v Hin; [destruct Hin|].
  cbn [fold_left]. destruct Hin as [->|Hin].
  - destruct (s <? v) eqn:E.
    + apply auto_start_fold_ge.
    + apply Z.ltb_ge in E. pose proof (auto_start_fold_ge levels s). lia.
  - apply IH. exact Hin.
Qed.

Lemma auto_start_covers levels v : In (Some v) levels -> v <= auto_start levels.
Proof. apply auto_start_fold_covers. Qed.

(* every image is sampled at one common depth, which is the level recorded for the WTML, and the
   script ends with exactly one cascade, carrying the caller's worker count like every sampling call *)
Lemma script_shape (given : option Z) (levels : list (option Z)) (par : option Z) :
  length (script given levels par) = S (length levels) /\
  last (script given levels par) (Cascade None) = Cascade par /\
  forall i, (i < length levels)%nat ->
            nth i (script given levels par) (Cascade None) =
            ToastBase i (recorded_levels given levels) i par.
Proof.
  unfold script, recorded_levels. repeat split.
  - rewrite app_length, map_length, seq_length. cbn [length]. lia.
  - apply last_last.
  - intros i Hi. rewrite app_nth1 by (rewrite map_length, seq_length; exact Hi).
    rewrite (nth_indep _ _ (ToastBase 0 (start_level given levels) 0 par))
      by (rewrite map_length, seq_length; exact Hi).
    change (ToastBase 0 (start_level given levels) 0 par)
      with ((fun i => ToastBase i (start_level given levels) i par) 0%nat).
    rewrite map_nth, seq_nth by exact Hi. reflexivity.
Qed.
