(* Composition of C09 (multi-TAN tiling) and C10 (locked tile update).

   C09 treats every update [apply_op] of a tile as one atomic read-modify-write
   ("atomic under the tile's lock — property C10", Model/MultiTan.v:148) and proves
   that any sequence made of exactly the updates of the inputs gives the mosaic.
   C10 (Model/Lock.v) proves, for ONE tile and arbitrary update functions on an
   abstract tile type, that every complete run of the update_image protocol
   (try-acquire / read / in-place write / release, arbitrary interleaving) leaves
   the tile that results from applying all updates one after another in
   acquisition order.  Here the two are connected without changing either model:

   - the abstract tile type of Lock.v is instantiated with 256 x 256 tables
     ([table]; a table rather than MultiTan's function type so that C10's
     hypothesis "a completely masked tile IS the tile a missing file reads as"
     holds as an equality); the update function of an op is MultiTan's
     [update_buffer] transported to tables ([tab_fn]); [masked] is MultiTan's
     [completely_masked];
   - [tile_linearizable_thm]: for one tile, every complete run of the lock protocol
     by the ops that target the tile leaves the content that [run_ops] (C09's
     atomic semantics) produces for some arrangement of exactly these ops;
   - the parallel tile phase is the product of independent per-tile instances of
     Lock.v ([gstep]: an action names a tile and a protocol step of one updater
     of that tile; updater u of a tile is the u-th op of [the_ops] that targets
     it).  Every schedule of the product, whichever worker runs which op,
     projects to a schedule of Lock.v on each tile ([grun_proj]);
   - [multitan_parallel_eq_serial_thm]: in every state of the product in which all
     updaters are done, the files on disk show the mosaic of the pasted inputs,
     which is what the serial tile phase produces (C09 processor_eq_mosaic).

   What the product adds as a modelling statement (it is not part of either
   model): updates of different tiles do not interact (different tile files,
   different lock files, pyramid.py:430-432), an op's image ([op_img]) is fixed
   before its update starts, and the worker structure only restricts which
   schedules occur. *)
From Coq Require Import ZArith List Bool Arith Lia Permutation.
From Toasty Require Import Model.Study Proofs.StudyP Model.MultiTan Proofs.MultiTanP Model.Lock Proofs.LockP.
Import ListNotations.
Local Open Scope Z_scope.

(* ---- lists --------------------------------------------------------------------------- *)

Lemma map_const_repeat {A B} (d : B) (l : list A) : map (fun _ => d) l = repeat d (length l).
Proof. induction l as [|a l IH]; [reflexivity|]. cbn [map length repeat]. rewrite IH. reflexivity. Qed.

Lemma all_eq_repeat {A} (d : A) (l : list A) : (forall x, In x l -> x = d) -> l = repeat d (length l).
Proof.
  induction l as [|a l IH]; intros H; [reflexivity|]. cbn [length repeat].
  rewrite (H a (or_introl eq_refl)). f_equal. apply IH. intros x Hx. apply H. right. exact Hx.
Qed.

Lemma forallb_map' {A B} (f : A -> B) (p : B -> bool) (l : list A) :
  forallb p (map f l) = forallb (fun a => p (f a)) l.
Proof. induction l as [|a l IH]; [reflexivity|]. cbn [map forallb]. rewrite IH. reflexivity. Qed.

Lemma forallb_ext' {A} (f g : A -> bool) (l : list A) : (forall x, f x = g x) -> forallb f l = forallb g l.
Proof. intros H. induction l as [|a l IH]; [reflexivity|]. cbn [forallb]. rewrite H, IH. reflexivity. Qed.

Lemma Some_inj {A} (a b : A) : Some a = Some b -> a = b.
Proof. congruence. Qed.

Lemma filter_id {A} (f : A -> bool) (l : list A) : (forall x, In x l -> f x = true) -> filter f l = l.
Proof.
  induction l as [|a l IH]; intros H; [reflexivity|]. cbn [filter].
  rewrite (H a (or_introl eq_refl)). f_equal. apply IH. intros x Hx. apply H. right. exact Hx.
Qed.

Lemma filter_neg_none {A} (f : A -> bool) (l : list A) : filter f (filter (fun o => negb (f o)) l) = [].
Proof.
  induction l as [|o l IH]; [reflexivity|]. cbn [filter].
  destruct (f o) eqn:E; cbn [negb filter]; [exact IH|]. rewrite E. exact IH.
Qed.

Lemma filter_partition_perm {A} (f : A -> bool) (l : list A) :
  Permutation (filter (fun o => negb (f o)) l ++ filter f l) l.
Proof.
  induction l as [|o l IH]; [constructor|]. cbn [filter].
  destruct (f o); cbn [negb app].
  - eapply Permutation_trans; [apply Permutation_sym, Permutation_middle|]. constructor. exact IH.
  - constructor. exact IH.
Qed.

Lemma fold_left_cons' {A B} (f : A -> B -> A) (b : B) (l : list B) (a : A) :
  fold_left f (b :: l) a = fold_left f l (f a b).
Proof. reflexivity. Qed.

Lemma fold_left_filter_nil {A B} (f : A -> B -> A) (g : B -> bool) (a : A) : fold_left f (filter g []) a = a.
Proof. reflexivity. Qed.

Lemma filter_cons' {A} (g : A -> bool) (o : A) (l : list A) :
  filter g (o :: l) = if g o then o :: filter g l else filter g l.
Proof. reflexivity. Qed.

Lemma filter_none' {A} (f : A -> bool) (l : list A) : (forall x, In x l -> f x = false) -> filter f l = [].
Proof.
  induction l as [|a l IH]; intros H; [reflexivity|]. cbn [filter].
  rewrite (H a (or_introl eq_refl)). apply IH. intros x Hx. apply H. right. exact Hx.
Qed.

Lemma filter_or_perm {A} (f g : A -> bool) (l : list A) :
  (forall x, f x = true -> g x = false) ->
  Permutation (filter f l ++ filter g l) (filter (fun x => f x || g x) l).
Proof.
  intros Hd. induction l as [|a l IH]; [constructor|]. cbn [filter].
  destruct (f a) eqn:Ef; cbn [orb].
  - rewrite (Hd a Ef). cbn [app]. constructor. exact IH.
  - destruct (g a); [|exact IH].
    eapply Permutation_trans; [apply Permutation_sym, Permutation_middle|]. constructor. exact IH.
Qed.

(* a file never holds a completely masked tile: an invariant of Model/Lock.v *)
Definition file_canon {T} (masked : T -> bool) (f : @fstate T) : Prop :=
  match f with FWhole t => masked t = false | _ => True end.

Lemma lstep_file_canon {T} (dflt : T) masked fs (s : @lstate T) a :
  file_canon masked (file s) -> file_canon masked (file (lstep dflt masked fs s a)).
Proof.
  intros H. unfold lstep. destruct (negb (lenabled s a)); [exact H|].
  destruct a as [u|u|u|u|u].
  - destruct (lock s); exact H.
  - exact H.
  - destruct (nth_error (us s) u) as [[| |seen| | |]|]; try exact H. exact I.
  - destruct (nth_error (us s) u) as [[| | |t| |]|]; try exact H. cbn [file].
    destruct (masked t) eqn:E; [exact I|exact E].
  - exact H.
Qed.

Lemma lrun_file_canon {T} (dflt : T) masked fs l : forall (s : @lstate T),
  file_canon masked (file s) -> file_canon masked (file (lrun dflt masked fs s l)).
Proof.
  induction l as [|a l IH]; intros s H; [exact H|]. cbn [lrun fold_left].
  apply IH. apply lstep_file_canon. exact H.
Qed.

(* every tile's protocol can be run to completion (from C10's progress theorems) *)
Lemma tile_completes {T} (dflt : T) masked (fs : list (T -> T))
      (Hm : forall t, masked t = true -> t = dflt) t0 file0 (H0 : content dflt file0 = Some t0) :
  exists l, all_done (lrun dflt masked fs (linit fs file0) l) = true.
Proof.
  assert (Hgen : forall m l, (lmeasure (us (lrun dflt masked fs (linit fs file0) l)) <= m)%nat ->
                             exists l', all_done (lrun dflt masked fs (linit fs file0) (l ++ l')) = true).
  { induction m as [|m IH]; intros l Hle.
    - destruct (all_done (lrun dflt masked fs (linit fs file0) l)) eqn:Ed.
      + exists []. rewrite app_nil_r. exact Ed.
      + destruct (LockP.lock_no_deadlock dflt masked fs Hm t0 file0 H0 l Ed) as (a & Hen & Hpol).
        pose proof (LockP.lock_measure dflt masked fs _ a Hen Hpol). lia.
    - destruct (all_done (lrun dflt masked fs (linit fs file0) l)) eqn:Ed.
      + exists []. rewrite app_nil_r. exact Ed.
      + destruct (LockP.lock_no_deadlock dflt masked fs Hm t0 file0 H0 l Ed) as (a & Hen & Hpol).
        pose proof (LockP.lock_measure dflt masked fs _ a Hen Hpol) as Hlt.
        destruct (IH (l ++ [a])) as (l' & Hl').
        * unfold lrun in *. rewrite fold_left_app. cbn [fold_left]. lia.
        * exists (a :: l'). rewrite <- app_assoc in Hl'. exact Hl'. }
  destruct (Hgen _ [] (le_n _)) as (l' & Hl'). exists l'. exact Hl'.
Qed.

Lemma lrun_no_updaters {T} (dflt : T) masked file0 l :
  lrun dflt masked [] (linit [] file0) l = linit [] file0.
Proof.
  induction l as [|a l IH]; [reflexivity|]. cbn [lrun fold_left].
  assert (E : lstep dflt masked [] (linit [] file0) a = linit [] file0).
  { unfold lstep. destruct a as [u|u|u|u|u]; unfold lenabled, linit; cbn [us length repeat];
      destruct u; reflexivity. }
  rewrite E. exact IH.
Qed.

(* elements of [os] at the indices [idxs] (indices out of range are skipped) *)
Definition pick {A} (os : list A) (idxs : list nat) : list A :=
  flat_map (fun u => match nth_error os u with Some o => [o] | None => [] end) idxs.

Lemma pick_cons_S {A} (a : A) os idxs : pick (a :: os) (map S idxs) = pick os idxs.
Proof. unfold pick. induction idxs as [|u idxs IH]; [reflexivity|]. cbn [map flat_map nth_error]. rewrite IH. reflexivity. Qed.

Lemma pick_all {A} (os : list A) : pick os (seq 0 (length os)) = os.
Proof.
  induction os as [|a os IH]; [reflexivity|]. cbn [length seq]. rewrite <- seq_shift.
  change (pick (a :: os) (0%nat :: map S (seq 0 (length os)))) with (a :: pick (a :: os) (map S (seq 0 (length os)))).
  rewrite pick_cons_S, IH. reflexivity.
Qed.

Lemma pick_perm {A} (os : list A) idxs idxs' : Permutation idxs idxs' -> Permutation (pick os idxs) (pick os idxs').
Proof. intros H. unfold pick. apply Permutation_flat_map. exact H. Qed.

Lemma pick_in {A} (os : list A) idxs o : In o (pick os idxs) -> In o os.
Proof.
  unfold pick. rewrite in_flat_map. intros (u & _ & Hin).
  destruct (nth_error os u) as [o'|] eqn:E; [|destruct Hin].
  destruct Hin as [<-|[]]. eapply nth_error_In; eauto.
Qed.

Section Glue.
  Context {V : Type}.
  Notation pixels := (@pixels V).
  Notation store := (@store V).
  Notation op := (@op V).

  (* ---- 256 x 256 tables ------------------------------------------------------------ *)

  Definition table : Type := list (list (option V)).
  Definition rng : list Z := zrange 0 256.

  Definition tab (b : pixels) : table := map (fun r => map (fun c => b r c) rng) rng.

  Definition inwin (r c : Z) : bool := (0 <=? r) && (r <? 256) && (0 <=? c) && (c <? 256).

  Definition untab (t : table) : pixels :=
    fun r c => if inwin r c then nth (Z.to_nat c) (nth (Z.to_nat r) t []) None else None.

  Definition tdflt : table := tab (fun _ _ => None).

  Definition row_masked (row : list (option V)) : bool :=
    Nat.eqb (length row) 256 && forallb (@is_none V) row.
  Definition tmasked (t : table) : bool := Nat.eqb (length t) 256 && forallb row_masked t.

  Lemma inwin_true r c : inwin r c = true <-> 0 <= r < 256 /\ 0 <= c < 256.
  Proof. unfold inwin. rewrite !andb_true_iff, !Z.leb_le, !Z.ltb_lt. lia. Qed.

  Lemma nth_map_rng {B} (f : Z -> B) (d : B) r : 0 <= r < 256 -> nth (Z.to_nat r) (map f rng) d = f r.
  Proof.
    intros Hr. unfold rng.
    assert (E : nth_error (zrange 0 256) (Z.to_nat r) = Some r).
    { rewrite nth_error_zrange by lia. f_equal. lia. }
    apply nth_error_nth. apply map_nth_error. exact E.
  Qed.

  Lemma untab_tab b r c : untab (tab b) r c = if inwin r c then b r c else None.
  Proof.
    unfold untab, tab. destruct (inwin r c) eqn:E; [|reflexivity].
    apply inwin_true in E. rewrite (nth_map_rng _ [] r), (nth_map_rng _ None c) by lia. reflexivity.
  Qed.

  Lemma tab_ext b b' : (forall r c, 0 <= r < 256 -> 0 <= c < 256 -> b r c = b' r c) -> tab b = tab b'.
  Proof.
    intros H. unfold tab, rng. apply map_ext_in. intros r Hr. apply map_ext_in. intros c Hc.
    apply in_zrange in Hr, Hc. apply H; lia.
  Qed.

  Lemma tab_untab_tab b : tab (untab (tab b)) = tab b.
  Proof.
    apply tab_ext. intros r c Hr Hc. rewrite untab_tab.
    destruct (inwin r c) eqn:E; [reflexivity|]. assert (inwin r c = true) by (apply inwin_true; lia). congruence.
  Qed.

  Lemma tmasked_tab b : tmasked (tab b) = completely_masked b.
  Proof.
    unfold tmasked, tab, completely_masked, rng. rewrite map_length, length_zrange, Nat.eqb_refl.
    cbn [andb]. rewrite forallb_map'. apply forallb_ext'. intros r.
    unfold row_masked. rewrite map_length, length_zrange, Nat.eqb_refl. cbn [andb].
    apply forallb_map'.
  Qed.

  (* C10's hypothesis masked_is_dflt, for tables *)
  Lemma tmasked_is_dflt t : tmasked t = true -> t = tdflt.
  Proof.
    unfold tmasked. rewrite andb_true_iff, Nat.eqb_eq, forallb_forall. intros [Hl Hr].
    assert (Ed : tdflt = repeat (repeat None 256) 256).
    { unfold tdflt, tab, rng.
      rewrite (map_const_repeat (map (fun _ : Z => @None V) (zrange 0 256)) (zrange 0 256)).
      rewrite (map_const_repeat (@None V) (zrange 0 256)), length_zrange. reflexivity. }
    rewrite Ed. rewrite (all_eq_repeat (repeat None 256) t); [rewrite Hl; reflexivity|].
    intros row Hin. specialize (Hr row Hin).
    unfold row_masked in Hr. rewrite andb_true_iff, Nat.eqb_eq, forallb_forall in Hr. destruct Hr as [Hrl Hra].
    rewrite (all_eq_repeat None row); [rewrite Hrl; reflexivity|].
    intros v Hv. specialize (Hra v Hv). destruct v as [v0|]; [cbn in Hra; discriminate Hra|reflexivity].
  Qed.

  (* from here on [tab] is used through the lemmas above only *)
  Opaque tab.

  (* ---- one op as an updater of its tile ---------------------------------------------- *)

  Definition tab_fn (o : op) : table -> table :=
    fun t => tab (update_buffer (op_img o) (op_pl o) (untab t)).

  Definition targets (n x y : Z) (o : op) : bool :=
    same_pos (p_n (op_pl o)) (p_x (op_pl o)) (p_y (op_pl o)) n x y.

  Lemma apply_op_other (s : store) o n x y : targets n x y o = false -> apply_op s o n x y = s n x y.
  Proof.
    intros H. unfold apply_op, write_image. cbv beta zeta. unfold targets in H. rewrite H. reflexivity.
  Qed.

  Lemma apply_op_here (s : store) o n x y :
    targets n x y o = true ->
    apply_op s o n x y =
    (if completely_masked (update_buffer (op_img o) (op_pl o) (read_image_masked s n x y))
     then None else Some (update_buffer (op_img o) (op_pl o) (read_image_masked s n x y))).
  Proof.
    intros H. unfold targets in H. pose proof H as H'. apply same_pos_true in H'. destruct H' as (<- & <- & <-).
    unfold apply_op, write_image. cbv beta zeta. rewrite H. reflexivity.
  Qed.

  (* C09's atomic update of the tile, seen through tables, is the updater *)
  Lemma tab_apply_op (s : store) o n x y :
    targets n x y o = true ->
    tab (read_image_masked (apply_op s o) n x y) = tab_fn o (tab (read_image_masked s n x y)).
  Proof.
    intros H. pose proof (apply_op_here s o n x y H) as HH. unfold read_image_masked at 1. rewrite HH. clear HH.
    set (old := read_image_masked s n x y).
    assert (E : tab_fn o (tab old) = tab (update_buffer (op_img o) (op_pl o) old)).
    { unfold tab_fn. apply tab_ext. intros r c Hr Hc. unfold update_buffer.
      rewrite untab_tab. assert (Ew : inwin r c = true) by (apply inwin_true; lia). rewrite Ew. reflexivity. }
    rewrite E. destruct (completely_masked (update_buffer (op_img o) (op_pl o) old)) eqn:Em; [|reflexivity].
    apply tab_ext. intros r c Hr Hc. symmetry. apply (completely_masked_spec _ Em r c Hr Hc).
  Qed.

  Lemma run_ops_cons (o : op) (os : list op) (s : store) : run_ops (o :: os) s = run_ops os (apply_op s o).
  Proof. reflexivity. Qed.

  Lemma run_ops_nil (s : store) : run_ops [] s = s.
  Proof. reflexivity. Qed.

  Lemma read_apply_op_other (s : store) o n x y :
    targets n x y o = false -> read_image_masked (apply_op s o) n x y = read_image_masked s n x y.
  Proof. intros E. unfold read_image_masked. rewrite (apply_op_other s o n x y E). reflexivity. Qed.

  (* (every step below is a rewrite with a generic list lemma: conversions that
     mention [tab] on both sides are expensive for the kernel) *)
  Lemma run_ops_cell n x y : forall (os : list op) (s : store),
    tab (read_image_masked (run_ops os s) n x y) =
    fold_left (fun t o => tab_fn o t) (filter (targets n x y) os) (tab (read_image_masked s n x y)).
  Proof.
    induction os as [|o os IH]; intros s.
    - rewrite run_ops_nil, fold_left_filter_nil. reflexivity.
    - rewrite run_ops_cons, IH, filter_cons'.
      destruct (targets n x y o) eqn:E.
      + rewrite fold_left_cons'. apply f_equal. exact (tab_apply_op s o n x y E).
      + rewrite (read_apply_op_other s o n x y E). reflexivity.
  Qed.

  (* ---- the lock protocol on one tile ---------------------------------------------------- *)

  Definition file_of (c : option pixels) : @fstate table :=
    match c with Some b => FWhole (tab b) | None => FAbsent end.

  Definition cell_of (f : @fstate table) : option pixels :=
    match f with FWhole t => Some (untab t) | _ => None end.

  Lemma file_of_content (c : option pixels) :
    content tdflt (file_of c) = Some (tab (match c with Some b => b | None => fun _ _ => None end)).
  Proof. destruct c; reflexivity. Qed.

  Lemma fn_map_tab_fn (os : list op) u t :
    fn (map tab_fn os) u t = match nth_error os u with Some o => tab_fn o t | None => t end.
  Proof.
    unfold fn. destruct (nth_error os u) as [o|] eqn:E.
    - rewrite (nth_error_nth (map tab_fn os) u (fun t => t) (map_nth_error tab_fn u os E)). reflexivity.
    - rewrite nth_overflow; [reflexivity|]. rewrite map_length. apply nth_error_None. exact E.
  Qed.

  Lemma apply_order_pick (os : list op) t0 ord :
    apply_order (map tab_fn os) t0 ord = fold_left (fun t o => tab_fn o t) (pick os (rev ord)) t0.
  Proof.
    unfold apply_order. rewrite <- (rev_involutive ord) at 1. rewrite fold_left_rev_right.
    generalize (rev ord) as idxs. intros idxs. revert t0.
    induction idxs as [|u idxs IH]; intros t0; [reflexivity|].
    cbn [fold_left]. unfold pick in *. cbn [flat_map]. rewrite fold_left_app, <- IH.
    f_equal. rewrite fn_map_tab_fn. destruct (nth_error os u); reflexivity.
  Qed.

  Section Tile.
    Variable ops : list op.           (* all updates of the run *)
    Variables n x y : Z.              (* the tile *)
    Variable s0 : store.              (* the files before the run *)

    Definition ops_at : list op := filter (targets n x y) ops.
    Definition fs_at : list (table -> table) := map tab_fn ops_at.

    (* every complete run of the lock protocol by the updaters of the tile leaves
       what the atomic updates, taken in acquisition order, leave *)
    Lemma tile_linearizable (l : list lact) :
      let s := lrun tdflt tmasked fs_at (linit fs_at (file_of (s0 n x y))) l in
      all_done s = true ->
      lock s = None /\
      Permutation (pick ops_at (rev (order s))) ops_at /\
      content tdflt (file s) =
      Some (tab (read_image_masked (run_ops (pick ops_at (rev (order s))) s0) n x y)).
    Proof.
      intros s Hd.
      destruct (LockP.linearizable tdflt tmasked fs_at tmasked_is_dflt _ (file_of (s0 n x y))
                  (file_of_content (s0 n x y)) l Hd) as (Hl & Hc & Hp).
      fold s in Hl, Hc, Hp. split; [exact Hl|].
      assert (Hperm : Permutation (pick ops_at (rev (order s))) ops_at).
      { rewrite <- (pick_all ops_at) at 2. apply pick_perm.
        eapply Permutation_trans; [apply Permutation_sym, Permutation_rev|].
        unfold fs_at in Hp. rewrite map_length in Hp. exact Hp. }
      split; [exact Hperm|]. rewrite Hc. f_equal. unfold fs_at. rewrite apply_order_pick.
      rewrite run_ops_cell. f_equal.
      symmetry. apply filter_id. intros o Ho. apply pick_in in Ho. unfold ops_at in Ho.
      apply filter_In in Ho. tauto.
    Qed.
  End Tile.

  Lemma tab_eq_window b b' r c : tab b = tab b' -> 0 <= r < 256 -> 0 <= c < 256 -> b r c = b' r c.
  Proof.
    intros E Hr Hc. pose proof (f_equal (fun t => untab t r c) E) as E'. cbv beta in E'.
    rewrite !untab_tab in E'. assert (Ew : inwin r c = true) by (apply inwin_true; lia).
    rewrite Ew in E'. exact E'.
  Qed.

  (* ---- the product of the per-tile protocols ------------------------------------------ *)

  Section Product.
    Variable ops : list op.

    (* an action: a tile (level, x, y) and a protocol step of one of its updaters *)
    Definition gact : Type := ((Z * Z * Z) * lact)%type.
    Definition gstate : Type := Z -> Z -> Z -> @lstate table.

    Definition key_is (k : Z * Z * Z) (n x y : Z) : bool :=
      let '(a, b, c) := k in same_pos a b c n x y.

    Definition gstep (g : gstate) (a : gact) : gstate :=
      fun n x y => if key_is (fst a) n x y
                   then lstep tdflt tmasked (fs_at ops n x y) (g n x y) (snd a)
                   else g n x y.

    Definition grun (g : gstate) (l : list gact) : gstate := fold_left gstep l g.

    Definition ginit (s0 : store) : gstate :=
      fun n x y => linit (fs_at ops n x y) (file_of (s0 n x y)).

    (* the tile files on disk *)
    Definition par_store (g : gstate) : store := fun n x y => cell_of (file (g n x y)).

    (* what a schedule of the product does on one tile *)
    Definition proj (n x y : Z) (l : list gact) : list lact :=
      map snd (filter (fun a => key_is (fst a) n x y) l).

    Lemma grun_proj l : forall g n x y,
      grun g l n x y = lrun tdflt tmasked (fs_at ops n x y) (g n x y) (proj n x y l).
    Proof.
      induction l as [|a l IH]; intros g n x y; [reflexivity|].
      unfold grun. cbn [fold_left]. fold (grun (gstep g a) l). rewrite IH.
      unfold proj. cbn [filter]. unfold gstep at 1.
      destruct (key_is (fst a) n x y); reflexivity.
    Qed.

    Variable s0 : store.
    Variable gl : list gact.
    Let g := grun (ginit s0) gl.
    Hypothesis Hdone : forall n x y, all_done (g n x y) = true.

    (* the updates of a tile in the order in which their updaters acquired its lock *)
    Definition tile_seq (n x y : Z) : list op := pick (ops_at ops n x y) (rev (order (g n x y))).

    Lemma g_proj n x y :
      g n x y = lrun tdflt tmasked (fs_at ops n x y) (linit (fs_at ops n x y) (file_of (s0 n x y))) (proj n x y gl).
    Proof. unfold g. rewrite grun_proj. reflexivity. Qed.

    Lemma par_tile_exact n x y :
      Permutation (tile_seq n x y) (ops_at ops n x y) /\ lock (g n x y) = None /\
      content tdflt (file (g n x y)) = Some (tab (read_image_masked (run_ops (tile_seq n x y) s0) n x y)).
    Proof.
      pose proof (Hdone n x y) as Hd. unfold tile_seq. rewrite g_proj in *.
      destruct (tile_linearizable ops n x y s0 (proj n x y gl) Hd) as (Hl & Hp & Hc). auto.
    Qed.

    Lemma par_tile n x y :
      exists seq, Permutation seq (ops_at ops n x y) /\ lock (g n x y) = None /\
        tab (read_image_masked (par_store g) n x y) = tab (read_image_masked (run_ops seq s0) n x y).
    Proof.
      destruct (par_tile_exact n x y) as (Hp & Hl & Hc).
      exists (tile_seq n x y). split; [exact Hp|]. split; [exact Hl|].
      unfold read_image_masked at 1. unfold par_store.
      destruct (file (g n x y)) as [|tt|]; cbn [content cell_of] in *.
      - apply Some_inj in Hc. exact Hc.
      - apply Some_inj in Hc. rewrite Hc. apply tab_untab_tab.
      - discriminate.
    Qed.

    (* a complete arrangement of all the updates that agrees with the parallel run on a given tile *)
    Lemma par_tile_seq n x y :
      exists seq, (forall o, In o seq <-> In o ops) /\ Permutation seq ops /\
        tab (read_image_masked (par_store g) n x y) = tab (read_image_masked (run_ops seq s0) n x y).
    Proof.
      destruct (par_tile n x y) as (sk & Hp & _ & Ht).
      assert (Hsk : filter (targets n x y) sk = sk).
      { apply filter_id. intros o Ho. apply (Permutation_in _ Hp) in Ho. apply filter_In in Ho. tauto. }
      set (rest := filter (fun o => negb (targets n x y o)) ops).
      assert (Hrest : filter (targets n x y) rest = []) by apply filter_neg_none.
      assert (Hperm : Permutation (rest ++ sk) ops).
      { eapply Permutation_trans; [apply Permutation_app_head; exact Hp|].
        apply filter_partition_perm. }
      exists (rest ++ sk). split; [|split; [exact Hperm|]].
      - intros o. split; intros Ho.
        + eapply Permutation_in; [exact Hperm|exact Ho].
        + eapply Permutation_in; [apply Permutation_sym; exact Hperm|exact Ho].
      - rewrite Ht. rewrite (run_ops_cell n x y sk s0), (run_ops_cell n x y (rest ++ sk) s0).
        rewrite filter_app, Hrest. reflexivity.
    Qed.

    (* ---- one arrangement of all the updates that agrees with the run on every tile ---- *)

    Definition tkey (o : op) : Z * Z * Z := (p_n (op_pl o), p_x (op_pl o), p_y (op_pl o)).
    Definition tgk (k : Z * Z * Z) (o : op) : bool := let '(n, x, y) := k in targets n x y o.
    Definition tseq (k : Z * Z * Z) : list op := let '(n, x, y) := k in tile_seq n x y.
    Definition gseq (keys : list (Z * Z * Z)) : list op := flat_map tseq keys.
    Definition in_keys (keys : list (Z * Z * Z)) (o : op) : bool := existsb (fun k => tgk k o) keys.

    Lemma key_dec (a b : Z * Z * Z) : {a = b} + {a <> b}.
    Proof. repeat decide equality. Qed.

    Lemma tgk_key o : tgk (tkey o) o = true.
    Proof. unfold tgk, tkey, targets. apply same_pos_true. auto. Qed.

    Lemma tgk_unique k k' o : tgk k o = true -> tgk k' o = true -> k = k'.
    Proof.
      destruct k as [[n x] y], k' as [[n' x'] y']. unfold tgk, targets. rewrite !same_pos_true.
      intros (A & B & C) (A' & B' & C'). congruence.
    Qed.

    Lemma tseq_targets k o : In o (tseq k) -> In o ops /\ tgk k o = true.
    Proof.
      destruct k as [[n x] y]. unfold tseq, tile_seq, tgk. intros H. apply pick_in in H.
      unfold ops_at in H. apply filter_In in H. exact H.
    Qed.

    Lemma tseq_perm k : Permutation (tseq k) (filter (tgk k) ops).
    Proof. destruct k as [[n x] y]. exact (proj1 (par_tile_exact n x y)). Qed.

    Lemma gseq_filter keys : NoDup keys -> forall k,
      filter (tgk k) (gseq keys) = if in_dec key_dec k keys then tseq k else [].
    Proof.
      induction 1 as [|k0 ks Hn Hnd IH]; intros k; [reflexivity|].
      unfold gseq in *. cbn [flat_map]. rewrite filter_app, IH.
      destruct (in_dec key_dec k (k0 :: ks)) as [Hin|Hnin].
      - destruct (key_dec k0 k) as [->|Hne].
        + destruct (in_dec key_dec k ks); [contradiction|]. rewrite app_nil_r.
          apply filter_id. intros o Ho. apply tseq_targets in Ho. tauto.
        + destruct Hin as [E|Hin]; [congruence|]. destruct (in_dec key_dec k ks); [|contradiction].
          rewrite filter_none'; [reflexivity|]. intros o Ho. apply tseq_targets in Ho.
          destruct (tgk k o) eqn:E; [|reflexivity]. exfalso. apply Hne.
          eapply tgk_unique; [apply Ho|exact E].
      - destruct (in_dec key_dec k ks) as [H1|_]; [exfalso; apply Hnin; right; exact H1|].
        rewrite app_nil_r. apply filter_none'. intros o Ho. apply tseq_targets in Ho.
        destruct (tgk k o) eqn:E; [|reflexivity]. exfalso. apply Hnin. left.
        eapply tgk_unique; [apply Ho|exact E].
    Qed.

    Lemma gseq_perm keys : NoDup keys -> Permutation (gseq keys) (filter (in_keys keys) ops).
    Proof.
      induction 1 as [|k0 ks Hn Hnd IH].
      - cbn [gseq flat_map]. rewrite filter_none'; [constructor|]. reflexivity.
      - unfold gseq in *. cbn [flat_map].
        eapply Permutation_trans; [apply Permutation_app; [apply tseq_perm|exact IH]|].
        apply (filter_or_perm (tgk k0) (in_keys ks) ops).
        intros o Ho. destruct (in_keys ks o) eqn:E; [|reflexivity]. exfalso.
        unfold in_keys in E. apply existsb_exists in E. destruct E as (k & Hk & Hko).
        apply Hn. rewrite (tgk_unique k0 k o Ho Hko). exact Hk.
    Qed.

    Definition keys0 : list (Z * Z * Z) := nodup key_dec (map tkey ops).
    Definition global_seq : list op := gseq keys0.

    Lemma global_seq_perm : Permutation global_seq ops.
    Proof.
      unfold global_seq. eapply Permutation_trans; [apply gseq_perm, NoDup_nodup|].
      rewrite filter_id; [apply Permutation_refl|]. intros o Ho. unfold in_keys. apply existsb_exists.
      exists (tkey o). split; [apply nodup_In, in_map; exact Ho|apply tgk_key].
    Qed.

    Lemma global_seq_tile n x y : filter (targets n x y) global_seq = tile_seq n x y.
    Proof.
      change (filter (tgk (n, x, y)) global_seq = tseq (n, x, y)).
      unfold global_seq. rewrite gseq_filter by apply NoDup_nodup.
      destruct (in_dec key_dec (n, x, y) keys0) as [Hin|Hnin]; [reflexivity|].
      destruct (tseq (n, x, y)) as [|o l] eqn:E; [reflexivity|]. exfalso.
      assert (Ho : In o (tseq (n, x, y))) by (rewrite E; left; reflexivity).
      apply tseq_targets in Ho. destruct Ho as [Hin Ht]. apply Hnin.
      rewrite <- (tgk_unique (tkey o) (n, x, y) o (tgk_key o) Ht). apply nodup_In, in_map. exact Hin.
    Qed.

    (* the parallel run is an atomic run: ONE arrangement of exactly the updates,
       applied atomically in that order (C09's semantics), leaves on EVERY tile the
       content the parallel run leaves *)
    Lemma par_global_linearization :
      Permutation global_seq ops /\
      forall n x y,
        lock (g n x y) = None /\
        content tdflt (file (g n x y)) = Some (tab (read_image_masked (run_ops global_seq s0) n x y)).
    Proof.
      split; [exact global_seq_perm|]. intros n x y.
      destruct (par_tile_exact n x y) as (Hp & Hl & Hc). split; [exact Hl|].
      rewrite Hc. f_equal.
      rewrite (run_ops_cell n x y (tile_seq n x y) s0), (run_ops_cell n x y global_seq s0).
      rewrite global_seq_tile. f_equal. apply filter_id. intros o Ho.
      apply (Permutation_in _ Hp) in Ho. unfold ops_at in Ho. apply filter_In in Ho. tauto.
    Qed.

    (* ... and the same set of tile files *)
    Hypothesis Hcanon0 : canon s0.

    Lemma run_ops_canon : forall (os : list op) (s : store), canon s -> canon (run_ops os s).
    Proof.
      induction os as [|o os IH]; intros s Hc; [exact Hc|]. rewrite run_ops_cons. apply IH.
      unfold apply_op. apply write_image_canon. exact Hc.
    Qed.

    Lemma completely_masked_none : completely_masked (fun _ _ : Z => @None V) = true.
    Proof.
      unfold completely_masked. apply forallb_forall. intros r _. apply forallb_forall. intros c _. reflexivity.
    Qed.

    Lemma g_file_canon n x y : file_canon tmasked (file (g n x y)).
    Proof.
      rewrite g_proj. apply lrun_file_canon. unfold linit. cbn [file].
      destruct (s0 n x y) as [b|] eqn:E; cbn [file_of file_canon]; [|exact I].
      rewrite tmasked_tab. exact (Hcanon0 n x y b E).
    Qed.

    Lemma par_files n x y : par_store g n x y = None <-> run_ops global_seq s0 n x y = None.
    Proof.
      destruct par_global_linearization as (_ & Hall). destruct (Hall n x y) as (_ & Hc).
      pose proof (g_file_canon n x y) as Hf. unfold par_store.
      pose proof (run_ops_canon global_seq s0 Hcanon0 n x y) as Hrc.
      unfold read_image_masked in Hc.
      destruct (file (g n x y)) as [|tt|]; cbn [content cell_of file_canon] in *.
      - apply Some_inj in Hc. split; [intros _|reflexivity].
        destruct (run_ops global_seq s0 n x y) as [b|]; [|reflexivity]. exfalso.
        destruct (completely_masked_false b (Hrc b eq_refl)) as (r & c & Hr & Hc' & Hne).
        apply Hne. symmetry. unfold tdflt in Hc. apply (tab_eq_window _ _ r c Hc Hr Hc').
      - apply Some_inj in Hc. split; [discriminate|]. intros E. rewrite E in Hc.
        rewrite Hc, tmasked_tab, completely_masked_none in Hf. discriminate.
      - discriminate.
    Qed.

    Lemma par_global_read n x y :
      tab (read_image_masked (par_store g) n x y) = tab (read_image_masked (run_ops global_seq s0) n x y).
    Proof.
      destruct par_global_linearization as (_ & Hall). destruct (Hall n x y) as (_ & Hc).
      unfold read_image_masked at 1. unfold par_store.
      destruct (file (g n x y)) as [|tt|]; cbn [content cell_of] in *.
      - apply Some_inj in Hc. exact Hc.
      - apply Some_inj in Hc. rewrite Hc. apply tab_untab_tab.
      - discriminate.
    Qed.
  End Product.

  (* ---- C09 + C10 ---------------------------------------------------------------------- *)

  Lemma multitan_parallel_lemma W H t inv (ins : list (@input V)) (gl : list gact) :
    study_tiling W H = Some t -> (forall i, In i ins -> valid_input t i) -> overlaps_agree ins ->
    let g := grun (the_ops inv ins) (ginit (the_ops inv ins) empty_store) gl in
    (forall n x y, all_done (g n x y) = true) ->
    (forall n x y, lock (g n x y) = None) /\
    (forall R C, mosaic_display t inv (par_store g) R C = expected_mosaic t (pasted ins) R C) /\
    (exists s_ser, tile_serial inv ins = Some s_ser /\
       forall R C, mosaic_display t inv (par_store g) R C = mosaic_display t inv s_ser R C).
  Proof.
    intros Ht Hv Ha g Hdone.
    assert (Hdisp : forall R C, mosaic_display t inv (par_store g) R C = expected_mosaic t (pasted ins) R C).
    { intros R C.
      destruct (par_tile_seq (the_ops inv ins) empty_store gl Hdone (t_levels t) (C / 256) (R / 256))
        as (seq & Hmem & _ & Ht').
      transitivity (mosaic_display t inv (run_ops seq empty_store) R C);
        [|exact (any_order_gives_mosaic W H t Ht inv ins Hv Ha seq Hmem R C)].
      unfold mosaic_display. apply tab_eq_window; [exact Ht'| |].
      - pose proof (Z.mod_pos_bound R 256 ltac:(lia)). unfold display_row. destruct inv; lia.
      - apply Z.mod_pos_bound. lia. }
    split; [|split; [exact Hdisp|]].
    - intros n x y. destruct (par_tile (the_ops inv ins) empty_store gl Hdone n x y) as (_ & _ & Hl & _). exact Hl.
    - destruct (serial_gives_mosaic W H t Ht inv ins Hv Ha) as (s_ser & E & Hs).
      exists s_ser. split; [exact E|]. intros R C. rewrite Hdisp. symmetry. apply Hs.
  Qed.

  (* ---- the hypothesis "all updaters done" is satisfiable for every run ---------------- *)

  Lemma key_is_self n x y : key_is (n, x, y) n x y = true.
  Proof. unfold key_is. apply same_pos_true. auto. Qed.

  Lemma key_is_other k n x y : k <> (n, x, y) -> key_is k n x y = false.
  Proof.
    destruct k as [[a b] c]. intros Hne. unfold key_is. destruct (same_pos a b c n x y) eqn:E; [|reflexivity].
    apply same_pos_true in E. destruct E as (-> & -> & ->). contradiction.
  Qed.

  Lemma proj_app n x y l1 l2 : proj n x y (l1 ++ l2) = proj n x y l1 ++ proj n x y l2.
  Proof. unfold proj. rewrite filter_app, map_app. reflexivity. Qed.

  Lemma proj_own n x y (l : list lact) : proj n x y (map (pair (n, x, y)) l) = l.
  Proof.
    unfold proj. induction l as [|a l IH]; [reflexivity|]. cbn [map filter fst].
    rewrite key_is_self. cbn [map snd]. rewrite IH. reflexivity.
  Qed.

  Lemma proj_foreign n x y (l : list gact) :
    (forall a, In a l -> fst a <> (n, x, y)) -> proj n x y l = [].
  Proof.
    unfold proj. intros H. rewrite filter_none'; [reflexivity|].
    intros a Ha. apply key_is_other. apply H. exact Ha.
  Qed.

  Lemma product_completes (ops : list op) (s0 : store) :
    exists gl, forall n x y, all_done (grun ops (ginit ops s0) gl n x y) = true.
  Proof.
    assert (Hk : forall ks : list (Z * Z * Z), NoDup ks ->
              exists gl, (forall a, In a gl -> In (fst a) ks) /\
                         forall n x y, In (n, x, y) ks ->
                           all_done (lrun tdflt tmasked (fs_at ops n x y)
                                       (linit (fs_at ops n x y) (file_of (s0 n x y))) (proj n x y gl)) = true).
    { induction 1 as [|k0 ks Hn Hnd IH].
      - exists []. split; [intros a []|intros n x y []].
      - destruct IH as (gl' & Hin' & Hd'). destruct k0 as [[n0 x0] y0].
        destruct (tile_completes tdflt tmasked (fs_at ops n0 x0 y0) tmasked_is_dflt _ (file_of (s0 n0 x0 y0))
                    (file_of_content (s0 n0 x0 y0))) as (l0 & Hl0).
        exists (map (pair (n0, x0, y0)) l0 ++ gl'). split.
        + intros a Ha. apply in_app_or in Ha. destruct Ha as [Ha|Ha].
          * apply in_map_iff in Ha. destruct Ha as (b & <- & _). left. reflexivity.
          * right. apply Hin'. exact Ha.
        + intros n x y [E|Hin].
          * injection E as <- <- <-. rewrite proj_app, proj_own, (proj_foreign n0 x0 y0 gl'), app_nil_r; [exact Hl0|].
            intros a Ha E. apply Hn. rewrite <- E. apply Hin'. exact Ha.
          * rewrite proj_app, (proj_foreign n x y (map _ l0)); [apply Hd'; exact Hin|].
            intros a Ha E. apply in_map_iff in Ha. destruct Ha as (b & <- & _). cbn [fst] in E.
            apply Hn. rewrite E. exact Hin. }
    destruct (Hk (nodup key_dec (map tkey ops)) (NoDup_nodup _ _)) as (gl & _ & Hd).
    exists gl. intros n x y. rewrite grun_proj. unfold ginit.
    destruct (in_dec key_dec (n, x, y) (nodup key_dec (map tkey ops))) as [Hin|Hnin]; [apply Hd; exact Hin|].
    assert (E : fs_at ops n x y = []).
    { unfold fs_at, ops_at. rewrite filter_none'; [reflexivity|]. intros o Ho.
      destruct (targets n x y o) eqn:Et; [|reflexivity]. exfalso. apply Hnin.
      change (tgk (n, x, y) o = true) in Et.
      rewrite <- (tgk_unique (tkey o) (n, x, y) o (tgk_key o) Et). apply nodup_In, in_map. exact Ho. }
    rewrite E, lrun_no_updaters. reflexivity.
  Qed.

  Lemma multitan_parallel_atomic_lemma W H t inv (ins : list (@input V)) (gl : list gact) :
    study_tiling W H = Some t -> (forall i, In i ins -> valid_input t i) -> overlaps_agree ins ->
    let g := grun (the_ops inv ins) (ginit (the_ops inv ins) empty_store) gl in
    (forall n x y, all_done (g n x y) = true) ->
    exists seq s_ref,
      Permutation seq (the_ops inv ins) /\
      tile_image true t inv (pasted ins) = Some s_ref /\
      forall n x y,
        content tdflt (file (g n x y)) = Some (tab (read_image_masked (run_ops seq empty_store) n x y)) /\
        (par_store g n x y = None <-> run_ops seq empty_store n x y = None) /\
        (par_store g n x y = None <-> s_ref n x y = None) /\
        (forall r c, 0 <= r < 256 -> 0 <= c < 256 ->
           read_image_masked (par_store g) n x y r c = read_image_masked s_ref n x y r c).
  Proof.
    intros Ht Hv Ha g Hdone.
    assert (Hcan : canon (@empty_store V)) by (intros n x y b E; discriminate).
    set (seq := global_seq (the_ops inv ins) empty_store gl).
    destruct (par_global_linearization (the_ops inv ins) empty_store gl Hdone) as (Hperm & Hall).
    fold seq in Hperm, Hall.
    assert (Hmem : forall o, In o seq <-> In o (the_ops inv ins)).
    { intros o. split; intros Ho; [eapply Permutation_in; [exact Hperm|exact Ho]|
                                   eapply Permutation_in; [apply Permutation_sym; exact Hperm|exact Ho]]. }
    destruct (tiles_identical W H t Ht inv ins Hv Ha seq Hmem) as (s_ref & Eref & Hsame).
    exists seq, s_ref. split; [exact Hperm|]. split; [exact Eref|]. intros n x y.
    destruct (Hall n x y) as (_ & Hc). destruct (Hsame n x y) as (Hnone & Hread).
    pose proof (par_files (the_ops inv ins) empty_store gl Hdone Hcan n x y) as Hpf. fold seq in Hpf.
    split; [exact Hc|]. split; [exact Hpf|].
    split; [split; intros X; [apply Hnone, Hpf, X|apply Hpf, Hnone, X]|].
    intros r c Hr Hc'. rewrite <- (Hread r c Hr Hc').
    apply tab_eq_window; [|exact Hr|exact Hc'].
    exact (par_global_read (the_ops inv ins) empty_store gl Hdone n x y).
  Qed.
End Glue.

(* ---- packaged statements (Properties/C09.v) -------------------------------------------- *)

(* one tile: every complete run of update_image's protocol by the updates that
   target tile (n, x, y) leaves the lock free and the content that C09's atomic
   updates leave when applied in the order in which the lock was acquired; that
   order contains each of these updates exactly once *)
Theorem tile_linearizable_thm :
  forall (V : Type) (ops : list (@op V)) (n x y : Z) (s0 : @store V) (l : list lact),
  let fs := fs_at ops n x y in
  let s := lrun tdflt tmasked fs (linit fs (file_of (s0 n x y))) l in
  all_done s = true ->
  lock s = None /\
  Permutation (pick (ops_at ops n x y) (rev (order s))) (ops_at ops n x y) /\
  content tdflt (file s) =
  Some (tab (read_image_masked (run_ops (pick (ops_at ops n x y) (rev (order s))) s0) n x y)).
Proof. intros V ops n x y s0 l. exact (tile_linearizable ops n x y s0 l). Qed.

(* the parallel tile phase, all tiles, every schedule: displayed mosaic *)
Theorem multitan_parallel_eq_serial_thm :
  forall (V : Type) W H t inv (ins : list (@input V)) (gl : list gact),
  study_tiling W H = Some t -> (forall i, In i ins -> valid_input t i) -> overlaps_agree ins ->
  let g := grun (the_ops inv ins) (ginit (the_ops inv ins) empty_store) gl in
  (forall n x y, all_done (g n x y) = true) ->
  (forall n x y, lock (g n x y) = None) /\
  (forall R C, mosaic_display t inv (par_store g) R C = expected_mosaic t (pasted ins) R C) /\
  (exists s_ser, tile_serial inv ins = Some s_ser /\
     forall R C, mosaic_display t inv (par_store g) R C = mosaic_display t inv s_ser R C).
Proof. intros V W H t inv ins gl. exact (multitan_parallel_lemma W H t inv ins gl). Qed.

(* ... it is an atomic run of exactly the updates, and leaves the tile files of
   the pasted mosaic *)
Theorem multitan_parallel_atomic_thm :
  forall (V : Type) W H t inv (ins : list (@input V)) (gl : list gact),
  study_tiling W H = Some t -> (forall i, In i ins -> valid_input t i) -> overlaps_agree ins ->
  let g := grun (the_ops inv ins) (ginit (the_ops inv ins) empty_store) gl in
  (forall n x y, all_done (g n x y) = true) ->
  exists seq s_ref,
    Permutation seq (the_ops inv ins) /\
    tile_image true t inv (pasted ins) = Some s_ref /\
    forall n x y,
      content tdflt (file (g n x y)) = Some (tab (read_image_masked (run_ops seq empty_store) n x y)) /\
      (par_store g n x y = None <-> run_ops seq empty_store n x y = None) /\
      (par_store g n x y = None <-> s_ref n x y = None) /\
      (forall r c, 0 <= r < 256 -> 0 <= c < 256 ->
         read_image_masked (par_store g) n x y r c = read_image_masked s_ref n x y r c).
Proof. intros V W H t inv ins gl. exact (multitan_parallel_atomic_lemma W H t inv ins gl). Qed.

(* a schedule of the product acts on each tile as a schedule of Model/Lock.v *)
Theorem product_projection_thm :
  forall (V : Type) (ops : list (@op V)) (l : list gact) (g : @gstate V) n x y,
  grun ops g l n x y = lrun tdflt tmasked (fs_at ops n x y) (g n x y) (proj n x y l).
Proof. intros V ops l g n x y. exact (grun_proj ops l g n x y). Qed.

(* the hypothesis of the two theorems above is satisfiable for every run: some
   schedule of the product completes every updater (from C10's lock_no_deadlock
   and lock_measure) *)
Theorem product_completes_thm :
  forall (V : Type) (ops : list (@op V)) (s0 : @store V),
  exists gl, forall n x y, all_done (grun ops (ginit ops s0) gl n x y) = true.
Proof. intros V ops s0. exact (product_completes ops s0). Qed.
