(* Composition of C09 (multi-TAN tiling) and C10 (locked tile update).

   C09 treats every update [apply_op] of a tile as one atomic read-modify-write
   ("atomic under the tile's lock — property C10", Model/MultiTan.v:148) and proves
   that any sequence made of exactly the updates of the inputs gives the mosaic.
   C10 (Model/Lock.v) proves, for ONE tile and arbitrary update functions on an
   abstract tile type, that every complete run of the update_image protocol
   (try-acquire / read / in-place write / release, arbitrary interleaving) leaves
   the tile that results from applying all updates one after another in
   acquisition order.  Here the two are connected without changing either model:

   - the abstract tile type of Lock.v is instantiated with 256 x 256 tables
     ([table]; a table rather than MultiTan's function type so that C10's
     hypothesis "a completely masked tile IS the tile a missing file reads as"
     holds as an equality); the update function of an op is MultiTan's
     [update_buffer] transported to tables ([tab_fn]); [masked] is MultiTan's
     [completely_masked];
   - [tile_linearizable_thm]: for one tile, every complete run of the lock protocol
     by the ops that target the tile leaves the content that [run_ops] (C09's
     atomic semantics) produces for some arrangement of exactly these ops;
   - the parallel tile phase is the product of independent per-tile instances of
     Lock.v ([gstep]: an action names a tile and a protocol step of one updater
     of that tile; updater u of a tile is the u-th op of [the_ops] that targets
     it).  Every schedule of the product, whichever worker runs which op,
     projects to a schedule of Lock.v on each tile ([grun_proj]);
   - [multitan_parallel_eq_serial_thm]: in every state of the product in which all
     updaters are done, the files on disk show the mosaic of the pasted inputs,
     which is what the serial tile phase produces (C09 processor_eq_mosaic).

   What the product adds as a modelling statement (it is not part of either
   model): updates of different tiles do not interact (different tile files,
   different lock files, pyramid.py:430-432), an op's image ([op_img]) is fixed
   before its update starts, and the worker structure only restricts which
   schedules occur. *)
From Coq Require Import ZArith List Bool Arith Lia Permutation.
From Toasty Require Import Model.Study Proofs.StudyP Model.MultiTan Proofs.MultiTanP Model.Lock Proofs.LockP.
Import ListNotations.
Local Open Scope Z_scope.

(* ---- lists --------------------------------------------------------------------------- *)

Lemma map_const_repeat {A B} (d : B) (l : list A) : map (fun _ => d) l = repeat d (length l).
Proof. induction l as [|a l IH]; [reflexivity|]. cbn [map length repeat]. rewrite IH. reflexivity. Qed.

Lemma all_eq_repeat {A} (d : A) (l : list A) : (forall x, In x l -> x = d) -> l = repeat d (length l).
Proof.
  induction l as [|a l IH]; intros H; [reflexivity|]. cbn [length repeat].
  rewrite (H a (or_introl eq_refl)). f_equal. apply IH. intros x Hx. apply H. right. exact Hx.
Qed.

Lemma forallb_map' {A B} (f : A -> B) (p : B -> bool) (l : list A) :
  forallb p (map f l) = forallb (fun a => p (f a)) l.
Proof. induction l as [|a l IH]; [reflexivity|]. cbn [map forallb]. rewrite IH. reflexivity. Qed.

Lemma forallb_ext' {A} (f g : A -> bool) (l : list A) : (forall x, f x = g x) -> forallb f l = forallb g l.
Proof. intros H. induction l as [|a l IH]; [reflexivity|]. cbn [forallb]. rewrite H, IH. reflexivity. Qed.

Lemma filter_id {A} (f : A -> bool) (l : list A) : (forall x, In x l -> f x = true) -> filter f l = l.
Proof.
  induction l as [|a l IH]; intros H; [reflexivity|]. cbn [filter].
  rewrite (H a (or_introl eq_refl)). f_equal. apply IH. intros x Hx. apply H. right. exact Hx.
Qed.

(* elements of [os] at the indices [idxs] (indices out of range are skipped) *)
Definition pick {A} (os : list A) (idxs : list nat) : list A :=
  flat_map (fun u => match nth_error os u with Some o => [o] | None => [] end) idxs.

Lemma pick_cons_S {A} (a : A) os idxs : pick (a :: os) (map S idxs) = pick os idxs.
Proof. unfold pick. induction idxs as [|u idxs IH]; [reflexivity|]. cbn [map flat_map nth_error]. rewrite IH. reflexivity. Qed.

Lemma pick_all {A} (os : list A) : pick os (seq 0 (length os)) = os.
Proof.
  induction os as [|a os IH]; [reflexivity|]. cbn [length seq]. rewrite <- seq_shift.
  change (pick (a :: os) (0%nat :: map S (seq 0 (length os)))) with (a :: pick (a :: os) (map S (seq 0 (length os)))).
  rewrite pick_cons_S, IH. reflexivity.
Qed.

Lemma pick_perm {A} (os : list A) idxs idxs' : Permutation idxs idxs' -> Permutation (pick os idxs) (pick os idxs').
Proof. intros H. unfold pick. apply Permutation_flat_map. exact H. Qed.

Lemma pick_in {A} (os : list A) idxs o : In o (pick os idxs) -> In o os.
Proof.
  unfold pick. rewrite in_flat_map. intros (u & _ & Hin).
  destruct (nth_error os u) as [o'|] eqn:E; [|destruct Hin].
  destruct Hin as [<-|[]]. eapply nth_error_In; eauto.
Qed.

Section Glue.
  Context {V : Type}.
  Notation pixels := (@pixels V).
  Notation store := (@store V).
  Notation op := (@op V).

  (* ---- 256 x 256 tables ------------------------------------------------------------ *)

  Definition table : Type := list (list (option V)).
  Definition rng : list Z := zrange 0 256.

  Definition tab (b : pixels) : table := map (fun r => map (fun c => b r c) rng) rng.

  Definition inwin (r c : Z) : bool := (0 <=? r) && (r <? 256) && (0 <=? c) && (c <? 256).

  Definition untab (t : table) : pixels :=
    fun r c => if inwin r c then nth (Z.to_nat c) (nth (Z.to_nat r) t []) None else None.

  Definition tdflt : table := tab (fun _ _ => None).

  Definition row_masked (row : list (option V)) : bool :=
    Nat.eqb (length row) 256 && forallb (@is_none V) row.
  Definition tmasked (t : table) : bool := Nat.eqb (length t) 256 && forallb row_masked t.

  Lemma inwin_true r c : inwin r c = true <-> 0 <= r < 256 /\ 0 <= c < 256.
  Proof. unfold inwin. rewrite !andb_true_iff, !Z.leb_le, !Z.ltb_lt. lia. Qed.

  Lemma nth_map_rng {B} (f : Z -> B) (d : B) r : 0 <= r < 256 -> nth (Z.to_nat r) (map f rng) d = f r.
  Proof.
    intros Hr. unfold rng.
    assert (E : nth_error (zrange 0 256) (Z.to_nat r) = Some r).
    { rewrite nth_error_zrange by lia. f_equal. lia. }
    apply nth_error_nth. apply map_nth_error. exact E.
  Qed.

  Lemma untab_tab b r c : untab (tab b) r c = if inwin r c then b r c else None.
  Proof.
    unfold untab, tab. destruct (inwin r c) eqn:E; [|reflexivity].
    apply inwin_true in E. rewrite (nth_map_rng _ [] r), (nth_map_rng _ None c) by lia. reflexivity.
  Qed.

  Lemma tab_ext b b' : (forall r c, 0 <= r < 256 -> 0 <= c < 256 -> b r c = b' r c) -> tab b = tab b'.
  Proof.
    intros H. unfold tab, rng. apply map_ext_in. intros r Hr. apply map_ext_in. intros c Hc.
    apply in_zrange in Hr, Hc. apply H; lia.
  Qed.

  Lemma tab_untab_tab b : tab (untab (tab b)) = tab b.
  Proof.
    apply tab_ext. intros r c Hr Hc. rewrite untab_tab.
    destruct (inwin r c) eqn:E; [reflexivity|]. assert (inwin r c = true) by (apply inwin_true; lia). congruence.
  Qed.

  Lemma tmasked_tab b : tmasked (tab b) = completely_masked b.
  Proof.
    unfold tmasked, tab, completely_masked, rng. rewrite map_length, length_zrange, Nat.eqb_refl.
    cbn [andb]. rewrite forallb_map'. apply forallb_ext'. intros r.
    unfold row_masked. rewrite map_length, length_zrange, Nat.eqb_refl. cbn [andb].
    apply forallb_map'.
  Qed.

  (* C10's hypothesis masked_is_dflt, for tables *)
  Lemma tmasked_is_dflt t : tmasked t = true -> t = tdflt.
  Proof.
    unfold tmasked. rewrite andb_true_iff, Nat.eqb_eq, forallb_forall. intros [Hl Hr].
    assert (Ed : tdflt = repeat (repeat None 256) 256).
    { unfold tdflt, tab, rng.
      rewrite (map_const_repeat (map (fun _ : Z => @None V) (zrange 0 256)) (zrange 0 256)).
      rewrite (map_const_repeat (@None V) (zrange 0 256)), length_zrange. reflexivity. }
    rewrite Ed. rewrite (all_eq_repeat (repeat None 256) t); [rewrite Hl; reflexivity|].
    intros row Hin. specialize (Hr row Hin).
    unfold row_masked in Hr. rewrite andb_true_iff, Nat.eqb_eq, forallb_forall in Hr. destruct Hr as [Hrl Hra].
    rewrite (all_eq_repeat None row); [rewrite Hrl; reflexivity|].
    intros v Hv. specialize (Hra v Hv). destruct v; [discriminate|reflexivity].
  Qed.

  (* ---- one op as an updater of its tile ---------------------------------------------- *)

  Definition tab_fn (o : op) : table -> table :=
    fun t => tab (update_buffer (op_img o) (op_pl o) (untab t)).

  Definition targets (n x y : Z) (o : op) : bool :=
    same_pos (p_n (op_pl o)) (p_x (op_pl o)) (p_y (op_pl o)) n x y.

  Lemma apply_op_other (s : store) o n x y : targets n x y o = false -> apply_op s o n x y = s n x y.
  Proof.
    intros H. unfold apply_op, write_image. cbv beta zeta. unfold targets in H. rewrite H. reflexivity.
  Qed.

  Lemma apply_op_here (s : store) o n x y :
    targets n x y o = true ->
    apply_op s o n x y =
    (if completely_masked (update_buffer (op_img o) (op_pl o) (read_image_masked s n x y))
     then None else Some (update_buffer (op_img o) (op_pl o) (read_image_masked s n x y))).
  Proof.
    intros H. unfold targets in H. pose proof H as H'. apply same_pos_true in H'. destruct H' as (<- & <- & <-).
    unfold apply_op, write_image. cbv beta zeta. rewrite H. reflexivity.
  Qed.

  (* C09's atomic update of the tile, seen through tables, is the updater *)
  Lemma tab_apply_op (s : store) o n x y :
    targets n x y o = true ->
    tab (read_image_masked (apply_op s o) n x y) = tab_fn o (tab (read_image_masked s n x y)).
  Proof.
    intros H. pose proof (apply_op_here s o n x y H) as HH. unfold read_image_masked at 1. rewrite HH. clear HH.
    set (old := read_image_masked s n x y).
    assert (E : tab_fn o (tab old) = tab (update_buffer (op_img o) (op_pl o) old)).
    { unfold tab_fn. apply tab_ext. intros r c Hr Hc. unfold update_buffer.
      rewrite untab_tab. assert (Ew : inwin r c = true) by (apply inwin_true; lia). rewrite Ew. reflexivity. }
    rewrite E. destruct (completely_masked (update_buffer (op_img o) (op_pl o) old)) eqn:Em; [|reflexivity].
    apply tab_ext. intros r c Hr Hc. symmetry. apply (completely_masked_spec _ Em r c Hr Hc).
  Qed.

  Lemma run_ops_cell n x y : forall (os : list op) (s : store),
    tab (read_image_masked (run_ops os s) n x y) =
    fold_left (fun t o => tab_fn o t) (filter (targets n x y) os) (tab (read_image_masked s n x y)).
  Proof.
    induction os as [|o os IH]; intros s; [reflexivity|].
    unfold run_ops. cbn [fold_left filter]. fold (run_ops os (apply_op s o)). rewrite IH.
    destruct (targets n x y o) eqn:E.
    - cbn [fold_left]. rewrite (tab_apply_op s o n x y E). reflexivity.
    - unfold read_image_masked at 1. rewrite (apply_op_other s o n x y E). reflexivity.
  Qed.

  (* ---- the lock protocol on one tile ---------------------------------------------------- *)

  Definition file_of (c : option pixels) : @fstate table :=
    match c with Some b => FWhole (tab b) | None => FAbsent end.

  Definition cell_of (f : @fstate table) : option pixels :=
    match f with FWhole t => Some (untab t) | _ => None end.

  Lemma file_of_content (c : option pixels) :
    content tdflt (file_of c) = Some (tab (match c with Some b => b | None => fun _ _ => None end)).
  Proof. destruct c; reflexivity. Qed.

  Lemma fn_map_tab_fn (os : list op) u t :
    fn (map tab_fn os) u t = match nth_error os u with Some o => tab_fn o t | None => t end.
  Proof.
    unfold fn. destruct (nth_error os u) as [o|] eqn:E.
    - rewrite (nth_error_nth (map tab_fn os) u (fun t => t) (map_nth_error tab_fn u os E)). reflexivity.
    - rewrite nth_overflow; [reflexivity|]. rewrite map_length. apply nth_error_None. exact E.
  Qed.

  Lemma apply_order_pick (os : list op) t0 ord :
    apply_order (map tab_fn os) t0 ord = fold_left (fun t o => tab_fn o t) (pick os (rev ord)) t0.
  Proof.
    unfold apply_order. rewrite <- (rev_involutive ord) at 1. rewrite fold_left_rev_right.
    generalize (rev ord) as idxs. intros idxs. revert t0.
    induction idxs as [|u idxs IH]; intros t0; [reflexivity|].
    cbn [fold_left]. unfold pick in *. cbn [flat_map]. rewrite fold_left_app, <- IH.
    f_equal. rewrite fn_map_tab_fn. destruct (nth_error os u); reflexivity.
  Qed.

  Section Tile.
    Variable ops : list op.           (* all updates of the run *)
    Variables n x y : Z.              (* the tile *)
    Variable s0 : store.              (* the files before the run *)

    Definition ops_at : list op := filter (targets n x y) ops.
    Definition fs_at : list (table -> table) := map tab_fn ops_at.

    (* every complete run of the lock protocol by the updaters of the tile leaves
       what the atomic updates, taken in acquisition order, leave *)
    Lemma tile_linearizable (l : list lact) :
      let s := lrun tdflt tmasked fs_at (linit fs_at (file_of (s0 n x y))) l in
      all_done s = true ->
      lock s = None /\
      Permutation (pick ops_at (rev (order s))) ops_at /\
      content tdflt (file s) =
      Some (tab (read_image_masked (run_ops (pick ops_at (rev (order s))) s0) n x y)).
    Proof.
      intros s Hd.
      destruct (LockP.linearizable tdflt tmasked fs_at tmasked_is_dflt _ (file_of (s0 n x y))
                  (file_of_content (s0 n x y)) l Hd) as (Hl & Hc & Hp).
      fold s in Hl, Hc, Hp. split; [exact Hl|].
      assert (Hperm : Permutation (pick ops_at (rev (order s))) ops_at).
      { rewrite <- (pick_all ops_at) at 2. apply pick_perm.
        eapply Permutation_trans; [apply Permutation_sym, Permutation_rev|].
        unfold fs_at in Hp. rewrite map_length in Hp. exact Hp. }
      split; [exact Hperm|]. rewrite Hc. f_equal. unfold fs_at. rewrite apply_order_pick.
      rewrite run_ops_cell. f_equal.
      symmetry. apply filter_id. intros o Ho. apply pick_in in Ho. unfold ops_at in Ho.
      apply filter_In in Ho. tauto.
    Qed.
  End Tile.

  Lemma tab_eq_window b b' r c : tab b = tab b' -> 0 <= r < 256 -> 0 <= c < 256 -> b r c = b' r c.
  Proof.
    intros E Hr Hc. pose proof (f_equal (fun t => untab t r c) E) as E'. cbv beta in E'.
    rewrite !untab_tab in E'. assert (Ew : inwin r c = true) by (apply inwin_true; lia).
    rewrite Ew in E'. exact E'.
  Qed.

  (* ---- the product of the per-tile protocols ------------------------------------------ *)

  Section Product.
    Variable ops : list op.

    (* an action: a tile (level, x, y) and a protocol step of one of its updaters *)
    Definition gact : Type := ((Z * Z * Z) * lact)%type.
    Definition gstate : Type := Z -> Z -> Z -> @lstate table.

    Definition key_is (k : Z * Z * Z) (n x y : Z) : bool :=
      let '(a, b, c) := k in same_pos a b c n x y.

    Definition gstep (g : gstate) (a : gact) : gstate :=
      fun n x y => if key_is (fst a) n x y
                   then lstep tdflt tmasked (fs_at ops n x y) (g n x y) (snd a)
                   else g n x y.

    Definition grun (g : gstate) (l : list gact) : gstate := fold_left gstep l g.

    Definition ginit (s0 : store) : gstate :=
      fun n x y => linit (fs_at ops n x y) (file_of (s0 n x y)).

    (* the tile files on disk *)
    Definition par_store (g : gstate) : store := fun n x y => cell_of (file (g n x y)).

    (* what a schedule of the product does on one tile *)
    Definition proj (n x y : Z) (l : list gact) : list lact :=
      map snd (filter (fun a => key_is (fst a) n x y) l).

    Lemma grun_proj l : forall g n x y,
      grun g l n x y = lrun tdflt tmasked (fs_at ops n x y) (g n x y) (proj n x y l).
    Proof.
      induction l as [|a l IH]; intros g n x y; [reflexivity|].
      unfold grun. cbn [fold_left]. fold (grun (gstep g a) l). rewrite IH.
      unfold proj. cbn [filter]. unfold gstep at 1.
      destruct (key_is (fst a) n x y); reflexivity.
    Qed.

    Variable s0 : store.
    Variable gl : list gact.
    Let g := grun (ginit s0) gl.
    Hypothesis Hdone : forall n x y, all_done (g n x y) = true.

    Lemma par_tile n x y :
      exists seq, Permutation seq (ops_at ops n x y) /\ lock (g n x y) = None /\
        tab (read_image_masked (par_store g) n x y) = tab (read_image_masked (run_ops seq s0) n x y).
    Proof.
      pose proof (Hdone n x y) as Hd. unfold g in Hd. rewrite grun_proj in Hd. unfold ginit in Hd.
      destruct (tile_linearizable ops n x y s0 (proj n x y gl) Hd) as (Hl & Hp & Hc).
      exists (pick (ops_at ops n x y)
                (rev (order (lrun tdflt tmasked (fs_at ops n x y)
                               (linit (fs_at ops n x y) (file_of (s0 n x y))) (proj n x y gl))))).
      split; [exact Hp|]. unfold g. rewrite grun_proj. unfold ginit. split; [exact Hl|].
      unfold read_image_masked at 1. unfold par_store. rewrite grun_proj. unfold ginit.
      destruct (file (lrun tdflt tmasked (fs_at ops n x y)
                       (linit (fs_at ops n x y) (file_of (s0 n x y))) (proj n x y gl))) as [|tt|];
        cbn [content cell_of] in *.
      - injection Hc as Hc. exact Hc.
      - injection Hc as Hc. rewrite Hc. apply tab_untab_tab.
      - discriminate.
    Qed.

    (* a complete arrangement of all the updates that agrees with the parallel run on a given tile *)
    Lemma par_tile_seq n x y :
      exists seq, (forall o, In o seq <-> In o ops) /\ Permutation seq ops /\
        tab (read_image_masked (par_store g) n x y) = tab (read_image_masked (run_ops seq s0) n x y).
    Proof.
      destruct (par_tile n x y) as (sk & Hp & _ & Ht).
      assert (Hsk : filter (targets n x y) sk = sk).
      { apply filter_id. intros o Ho. apply (Permutation_in _ Hp) in Ho. apply filter_In in Ho. tauto. }
      set (rest := filter (fun o => negb (targets n x y o)) ops).
      assert (Hrest : filter (targets n x y) rest = []).
      { unfold rest. induction ops as [|o l IH]; [reflexivity|]. cbn [filter].
        destruct (targets n x y o) eqn:E; cbn [negb filter]; [exact IH|]. rewrite E. exact IH. }
      assert (Hperm : Permutation (rest ++ sk) ops).
      { eapply Permutation_trans; [apply Permutation_app_head; exact Hp|].
        unfold rest, ops_at. clear. induction ops as [|o l IH]; [constructor|]. cbn [filter].
        destruct (targets n x y o); cbn [negb app].
        - eapply Permutation_trans; [apply Permutation_sym, Permutation_middle|]. constructor. exact IH.
        - constructor. exact IH. }
      exists (rest ++ sk). split; [|split; [exact Hperm|]].
      - intros o. split; intros Ho.
        + eapply Permutation_in; [exact Hperm|exact Ho].
        + eapply Permutation_in; [apply Permutation_sym; exact Hperm|exact Ho].
      - rewrite Ht, !run_ops_cell, filter_app, Hrest. reflexivity.
    Qed.
  End Product.

  (* ---- C09 + C10 ---------------------------------------------------------------------- *)

  Lemma multitan_parallel_lemma W H t inv (ins : list (@input V)) (gl : list gact) :
    study_tiling W H = Some t -> (forall i, In i ins -> valid_input t i) -> overlaps_agree ins ->
    let g := grun (the_ops inv ins) (ginit (the_ops inv ins) empty_store) gl in
    (forall n x y, all_done (g n x y) = true) ->
    (forall n x y, lock (g n x y) = None) /\
    (forall R C, mosaic_display t inv (par_store g) R C = expected_mosaic t (pasted ins) R C) /\
    (exists s_ser, tile_serial inv ins = Some s_ser /\
       forall R C, mosaic_display t inv (par_store g) R C = mosaic_display t inv s_ser R C).
  Proof.
    intros Ht Hv Ha g Hdone.
    assert (Hdisp : forall R C, mosaic_display t inv (par_store g) R C = expected_mosaic t (pasted ins) R C).
    { intros R C.
      destruct (par_tile_seq (the_ops inv ins) empty_store gl Hdone (t_levels t) (C / 256) (R / 256))
        as (seq & Hmem & _ & Ht').
      rewrite <- (any_order_gives_mosaic W H t Ht inv ins Hv Ha seq Hmem R C).
      unfold MultiTanP.D, mosaic_display. apply tab_eq_window; [exact Ht'| |].
      - pose proof (Z.mod_pos_bound R 256 ltac:(lia)). unfold display_row. destruct inv; lia.
      - apply Z.mod_pos_bound. lia. }
    split; [|split; [exact Hdisp|]].
    - intros n x y. destruct (par_tile (the_ops inv ins) empty_store gl Hdone n x y) as (_ & _ & Hl & _). exact Hl.
    - destruct (serial_gives_mosaic W H t Ht inv ins Hv Ha) as (s_ser & E & Hs).
      exists s_ser. split; [exact E|]. intros R C. rewrite Hdisp. symmetry. apply Hs.
  Qed.
End Glue.
