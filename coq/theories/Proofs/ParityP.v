(* Proofs about Model/Parity.v (property C16) *)
From Coq Require Import List ZArith QArith Lia Lqa.
From Toasty Require Import Model.Parity.
Import ListNotations.
Local Open Scope Q_scope.

Lemma flip_cd11 ht h : cd11 (flip_hdr ht h) == cd11 h.
Proof. unfold flip_hdr, cd11 at 1; cbn [cdelt1 pc11 dflt]. ring. Qed.
Lemma flip_cd12 ht h : cd12 (flip_hdr ht h) == - cd12 h.
Proof. unfold flip_hdr, cd12 at 1; cbn [cdelt1 pc12 dflt]. ring. Qed.
Lemma flip_cd21 ht h : cd21 (flip_hdr ht h) == cd21 h.
Proof. unfold flip_hdr, cd21 at 1; cbn [cdelt2 pc21 dflt]. ring. Qed.
Lemma flip_cd22 ht h : cd22 (flip_hdr ht h) == - cd22 h.
Proof. unfold flip_hdr, cd22 at 1; cbn [cdelt2 pc22 dflt]. ring. Qed.
Lemma flip_crpix1 ht h : crpix1 (flip_hdr ht h) = crpix1 h.
Proof. reflexivity. Qed.
Lemma flip_crpix2 ht h : crpix2 (flip_hdr ht h) = inject_Z ht + 1 - crpix2 h.
Proof. reflexivity. Qed.

Lemma det_flip ht h : det (flip_hdr ht h) == - det h.
Proof.
  unfold det. rewrite flip_cd11, flip_cd12, flip_cd21, flip_cd22. ring.
Qed.

Lemma parity_sign_values h : parity_sign h = 1%Z \/ parity_sign h = (-1)%Z.
Proof. unfold parity_sign. destruct (Qle_bool 0 (det h)); auto. Qed.

Lemma parity_sign_pos h : parity_sign h = 1%Z <-> det h < 0.
Proof.
  unfold parity_sign. destruct (Qle_bool 0 (det h)) eqn:E.
  - apply Qle_bool_iff in E. split; [discriminate|intros H; lra].
  - split; [intros _|reflexivity]. apply Qnot_le_lt. intros H. apply Qle_bool_iff in H. congruence.
Qed.

Lemma parity_sign_neg h : parity_sign h = (-1)%Z <-> 0 <= det h.
Proof.
  unfold parity_sign. destruct (Qle_bool 0 (det h)) eqn:E.
  - apply Qle_bool_iff in E. split; [intros _; exact E|reflexivity].
  - split; [discriminate|]. intros H. apply Qle_bool_iff in H. congruence.
Qed.

(* flipping negates the parity sign of every non-singular WCS *)
Lemma flip_negates_sign_hdr ht h :
  ~ det h == 0 -> parity_sign (flip_hdr ht h) = (- parity_sign h)%Z.
Proof.
  intros Hns. pose proof (det_flip ht h) as Hd.
  destruct (parity_sign_values h) as [Hs|Hs]; rewrite Hs.
  - apply parity_sign_pos in Hs. apply parity_sign_neg. lra.
  - apply parity_sign_neg in Hs. apply parity_sign_pos.
    assert (0 < det h) by (destruct (Qlt_le_dec 0 (det h)) as [H|H]; [exact H|exfalso; apply Hns; lra]).
    lra.
Qed.

(* no pixel moves: the intermediate world coordinates of (x, y) before the flip
   are those of (x, height - 1 - y) after it -- for every CD, CRPIX, height *)
Lemma flip_fixes_iw1 ht h x y : iw1 (flip_hdr ht h) x (inject_Z ht - 1 - y) == iw1 h x y.
Proof.
  unfold iw1. rewrite flip_cd11, flip_cd12, flip_crpix1, flip_crpix2. ring.
Qed.

Lemma flip_fixes_iw2 ht h x y : iw2 (flip_hdr ht h) x (inject_Z ht - 1 - y) == iw2 h x y.
Proof.
  unfold iw2. rewrite flip_cd21, flip_cd22, flip_crpix1, flip_crpix2. ring.
Qed.

(* rows *)
Lemma flip_height {A} (im : image A) : height_of (image_flip im) = height_of im.
Proof. unfold height_of, image_flip; cbn [rows]. rewrite rev_length. reflexivity. Qed.

Lemma flip_reverses_rows_nth {A} (im : image A) (d : A) (y : nat) :
  (y < length (rows im))%nat ->
  nth y (rows (image_flip im)) d = nth (length (rows im) - 1 - y) (rows im) d.
Proof.
  intros Hy. unfold image_flip; cbn [rows]. rewrite rev_nth by exact Hy. f_equal. lia.
Qed.

(* the pixel row that was y is now height-1-y, and sits at the same place on the sky *)
Lemma flip_moves_no_pixel_img {A} (im : image A) (d : A) (x : Q) (y : nat) :
  (y < length (rows im))%nat ->
  let im' := image_flip im in
  let y' := (length (rows im) - 1 - y)%nat in
  nth y' (rows im') d = nth y (rows im) d /\
  iw1 (i_hdr im') x (inject_Z (Z.of_nat y')) == iw1 (i_hdr im) x (inject_Z (Z.of_nat y)) /\
  iw2 (i_hdr im') x (inject_Z (Z.of_nat y')) == iw2 (i_hdr im) x (inject_Z (Z.of_nat y)).
Proof.
  intros Hy im' y'.
  assert (Hy' : (y' < length (rows im))%nat) by (unfold y'; lia).
  assert (E : inject_Z (Z.of_nat y') == inject_Z (height_of im) - 1 - inject_Z (Z.of_nat y)).
  { unfold height_of, y'. rewrite <- (Qplus_0_r (inject_Z (Z.of_nat (length (rows im) - 1 - y)))).
    replace (Z.of_nat (length (rows im) - 1 - y)) with (Z.of_nat (length (rows im)) - 1 - Z.of_nat y)%Z by lia.
    unfold Zminus. rewrite !inject_Z_plus, !inject_Z_opp. change (inject_Z 1) with 1. ring. }
  split; [|split].
  - unfold im'. rewrite flip_reverses_rows_nth by exact Hy'. f_equal. unfold y'. lia.
  - unfold im', image_flip; cbn [i_hdr]. unfold iw1 at 1. rewrite E.
    exact (flip_fixes_iw1 (height_of im) (i_hdr im) x (inject_Z (Z.of_nat y))).
  - unfold im', image_flip; cbn [i_hdr]. unfold iw2 at 1. rewrite E.
    exact (flip_fixes_iw2 (height_of im) (i_hdr im) x (inject_Z (Z.of_nat y))).
Qed.

(* involution *)
Lemma flip_hdr_involutive ht h : hdr_equiv (flip_hdr ht (flip_hdr ht h)) h.
Proof.
  unfold hdr_equiv.
  rewrite !flip_cd11, !flip_cd12, !flip_cd21, !flip_cd22, !flip_crpix1, !flip_crpix2.
  repeat split; ring.
Qed.

Lemma image_flip_involutive {A} (im : image A) :
  rows (image_flip (image_flip im)) = rows im /\
  hdr_equiv (i_hdr (image_flip (image_flip im))) (i_hdr im).
Proof.
  split.
  - unfold image_flip; cbn [rows]. apply rev_involutive.
  - unfold image_flip at 1. cbn [i_hdr]. rewrite flip_height. unfold image_flip; cbn [i_hdr].
    apply flip_hdr_involutive.
Qed.

Lemma desc_flip_involutive d :
  d_height (desc_flip (desc_flip d)) = d_height d /\ d_width (desc_flip (desc_flip d)) = d_width d /\
  hdr_equiv (d_hdr (desc_flip (desc_flip d))) (d_hdr d).
Proof.
  split; [reflexivity|]. split; [reflexivity|].
  unfold desc_flip; cbn [d_hdr d_height]. apply flip_hdr_involutive.
Qed.

(* ensure_negative_parity *)
Lemma ensure_hdr_negative ht h :
  parity_sign (if Z.eqb (parity_sign h) 1 then flip_hdr ht h else h) = (-1)%Z.
Proof.
  destruct (Z.eqb (parity_sign h) 1) eqn:E.
  - apply Z.eqb_eq in E. apply parity_sign_pos in E. apply parity_sign_neg.
    pose proof (det_flip ht h). lra.
  - apply Z.eqb_neq in E. destruct (parity_sign_values h); [contradiction|assumption].
Qed.

Lemma image_ensure_negative_is_neg {A} (im : image A) :
  parity_sign (i_hdr (image_ensure_negative im)) = (-1)%Z.
Proof.
  unfold image_ensure_negative. pose proof (ensure_hdr_negative (height_of im) (i_hdr im)) as H.
  destruct (Z.eqb (parity_sign (i_hdr im)) 1); exact H.
Qed.

Lemma image_ensure_negative_idempotent {A} (im : image A) :
  image_ensure_negative (image_ensure_negative im) = image_ensure_negative im.
Proof.
  unfold image_ensure_negative at 1. rewrite image_ensure_negative_is_neg. reflexivity.
Qed.

Lemma desc_ensure_negative_is_neg d : parity_sign (d_hdr (desc_ensure_negative d)) = (-1)%Z.
Proof.
  unfold desc_ensure_negative. pose proof (ensure_hdr_negative (d_height d) (d_hdr d)) as H.
  destruct (Z.eqb (parity_sign (d_hdr d)) 1); exact H.
Qed.

Lemma desc_ensure_negative_idempotent d :
  desc_ensure_negative (desc_ensure_negative d) = desc_ensure_negative d.
Proof.
  unfold desc_ensure_negative at 1. rewrite desc_ensure_negative_is_neg. reflexivity.
Qed.

(* ensure_negative either leaves the image alone or flips it -- so it too moves no pixel *)
Lemma image_ensure_negative_cases {A} (im : image A) :
  (parity_sign (i_hdr im) = (-1)%Z /\ image_ensure_negative im = im) \/
  (parity_sign (i_hdr im) = 1%Z /\ image_ensure_negative im = image_flip im).
Proof.
  unfold image_ensure_negative. destruct (parity_sign_values (i_hdr im)) as [H|H]; rewrite H; cbn; auto.
Qed.

Lemma desc_flip_keeps_shape d :
  d_height (desc_flip d) = d_height d /\ d_width (desc_flip d) = d_width d.
Proof. split; reflexivity. Qed.

Lemma hdr_equivb_sound a b : hdr_equivb a b = true -> hdr_equiv a b.
Proof.
  unfold hdr_equivb, hdr_equiv. rewrite !Bool.andb_true_iff, !Qeq_bool_iff. tauto.
Qed.

(* image / description level statements of the sign flip *)
Lemma image_flip_negates_sign {A} (im : image A) :
  ~ det (i_hdr im) == 0 -> parity_sign (i_hdr (image_flip im)) = (- parity_sign (i_hdr im))%Z.
Proof. intros H. unfold image_flip; cbn [i_hdr]. apply flip_negates_sign_hdr; exact H. Qed.

Lemma desc_flip_negates_sign d :
  ~ det (d_hdr d) == 0 -> parity_sign (d_hdr (desc_flip d)) = (- parity_sign (d_hdr d))%Z.
Proof. intros H. unfold desc_flip; cbn [d_hdr]. apply flip_negates_sign_hdr; exact H. Qed.

Lemma desc_flip_fixes_sky d x y :
  iw1 (d_hdr (desc_flip d)) x (inject_Z (d_height d) - 1 - y) == iw1 (d_hdr d) x y /\
  iw2 (d_hdr (desc_flip d)) x (inject_Z (d_height d) - 1 - y) == iw2 (d_hdr d) x y.
Proof. unfold desc_flip; cbn [d_hdr]. split; [apply flip_fixes_iw1|apply flip_fixes_iw2]. Qed.

Lemma flip_fixes_sky_hdr ht h x y :
  iw1 (flip_hdr ht h) x (inject_Z ht - 1 - y) == iw1 h x y /\
  iw2 (flip_hdr ht h) x (inject_Z ht - 1 - y) == iw2 h x y.
Proof. split; [apply flip_fixes_iw1|apply flip_fixes_iw2]. Qed.
