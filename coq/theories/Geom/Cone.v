(* L-real, part 1: vectors of R^3, the determinant used by toast.py's half-space test
   (np.dot(np.cross(a, b), p)), cones over spherical triangles, and ONE step of the HTM
   subdivision of a triangle by (any positive multiples of) its edge midpoints:
     tri_cover, tri_children_inside, tri_strict_inside, tri_interiors_disjoint,
     orientation_preserved.
   All of it is polynomial arithmetic over R; nothing here depends on the midpoints being
   normalised.  Not executable. *)
From Coq Require Import Reals Lra Psatz.
Local Open Scope R_scope.

Record vec := mkV { vx : R; vy : R; vz : R }.

Definition vadd (a b : vec) : vec := mkV (vx a + vx b) (vy a + vy b) (vz a + vz b).
Definition vscale (s : R) (a : vec) : vec := mkV (s * vx a) (s * vy a) (s * vz a).
Definition dot (a b : vec) : R := vx a * vx b + vy a * vy b + vz a * vz b.
Definition cross (a b : vec) : vec :=
  mkV (vy a * vz b - vz a * vy b) (vz a * vx b - vx a * vz b) (vx a * vy b - vy a * vx b).
(* toast.py:171 _left_of_half_space_score: np.dot(np.cross(point_a, point_b), test_point) *)
Definition det (a b p : vec) : R := dot (cross a b) p.
Definition norm2 (a : vec) : R := dot a a.
(* the (scaled) midpoint of a and b *)
Definition smid (s : R) (a b : vec) : vec := vscale s (vadd a b).

Ltac vring := unfold norm2, det, dot, cross, smid, vscale, vadd; cbn [vx vy vz]; ring.

Lemma det_cyc a b c : det a b c = det b c a. Proof. vring. Qed.
Lemma det_swap a b c : det a b c = - det b a c. Proof. vring. Qed.
Lemma det_aab a b : det a a b = 0. Proof. vring. Qed.
Lemma det_aba a b : det a b a = 0. Proof. vring. Qed.
Lemma det_baa a b : det b a a = 0. Proof. vring. Qed.
Lemma det_smid_r u v s x y : det u v (smid s x y) = s * (det u v x + det u v y). Proof. vring. Qed.
Lemma det_smid_m u v s x y : det u (smid s x y) v = s * (det u x v + det u y v). Proof. vring. Qed.
Lemma det_smid_l u v s x y : det (smid s x y) u v = s * (det x u v + det y u v). Proof. vring. Qed.

(* Cramer: p * det(a,b,c) = det(p,b,c) a + det(a,p,c) b + det(a,b,p) c, seen through det(u,v,.) *)
Lemma cramer a b c u v p :
  det u v p * det a b c = det p b c * det u v a + det a p c * det u v b + det a b p * det u v c.
Proof. vring. Qed.

Lemma comb_nonneg D X c1 c2 c3 e1 e2 e3 :
  0 < D -> X * D = c1 * e1 + c2 * e2 + c3 * e3 ->
  0 <= c1 -> 0 <= c2 -> 0 <= c3 -> 0 <= e1 -> 0 <= e2 -> 0 <= e3 -> 0 <= X.
Proof.
  intros HD HX H1 H2 H3 K1 K2 K3.
  assert (0 <= c1 * e1) by (apply Rmult_le_pos; assumption).
  assert (0 <= c2 * e2) by (apply Rmult_le_pos; assumption).
  assert (0 <= c3 * e3) by (apply Rmult_le_pos; assumption).
  destruct (Rle_or_lt 0 X) as [|Hn]; [assumption|].
  assert (X * D < 0) by (rewrite <- (Rmult_0_l D); apply Rmult_lt_compat_r; assumption). lra.
Qed.

Lemma comb_pos D X c1 c2 c3 e1 e2 e3 :
  0 < D -> X * D = c1 * e1 + c2 * e2 + c3 * e3 ->
  0 <= c1 -> 0 <= c2 -> 0 <= c3 -> 0 <= e1 -> 0 <= e2 -> 0 <= e3 ->
  (0 < c1 * e1 \/ 0 < c2 * e2 \/ 0 < c3 * e3) -> 0 < X.
Proof.
  intros HD HX H1 H2 H3 K1 K2 K3 Hp.
  assert (0 <= c1 * e1) by (apply Rmult_le_pos; assumption).
  assert (0 <= c2 * e2) by (apply Rmult_le_pos; assumption).
  assert (0 <= c3 * e3) by (apply Rmult_le_pos; assumption).
  destruct (Rlt_or_le 0 X) as [|Hn]; [assumption|].
  assert (X * D <= 0).
  { rewrite <- (Rmult_0_l D). apply Rmult_le_compat_r; lra. }
  lra.
Qed.

(* closed / open cone over the triangle (a, b, c), counter-clockwise seen from outside *)
Definition inT (a b c p : vec) : Prop := 0 <= det a b p /\ 0 <= det b c p /\ 0 <= det c a p.
Definition inTs (a b c p : vec) : Prop := 0 < det a b p /\ 0 < det b c p /\ 0 < det c a p.

Lemma inT_rot a b c p : inT a b c p -> inT b c a p.
Proof. unfold inT; tauto. Qed.
Lemma inTs_rot a b c p : inTs a b c p -> inTs b c a p.
Proof. unfold inTs; tauto. Qed.
Lemma inTs_inT a b c p : inTs a b c p -> inT a b c p.
Proof. unfold inT, inTs; lra. Qed.

(* a half-space (through the origin) that contains the three vertices contains the cone *)
Lemma cone_in_halfspace a b c u v p :
  0 < det a b c -> inT a b c p ->
  0 <= det u v a -> 0 <= det u v b -> 0 <= det u v c -> 0 <= det u v p.
Proof.
  intros HD (H1 & H2 & H3) Ka Kb Kc.
  assert (E1 : det p b c = det b c p) by vring. assert (E2 : det a p c = det c a p) by vring.
  apply (comb_nonneg (det a b c) _ (det p b c) (det a p c) (det a b p) _ _ _ HD (cramer a b c u v p));
    try assumption; rewrite ?E1, ?E2; assumption.
Qed.

(* ... strictly, when p is strictly inside and one vertex is strictly inside the half-space *)
Lemma cone_in_halfspace_strict a b c u v p :
  0 < det a b c -> inTs a b c p ->
  0 <= det u v a -> 0 <= det u v b -> 0 <= det u v c ->
  (0 < det u v a \/ 0 < det u v b \/ 0 < det u v c) -> 0 < det u v p.
Proof.
  intros HD (H1 & H2 & H3) Ka Kb Kc Hs.
  assert (E1 : det p b c = det b c p) by vring. assert (E2 : det a p c = det c a p) by vring.
  apply (comb_pos (det a b c) _ (det p b c) (det a p c) (det a b p) _ _ _ HD (cramer a b c u v p));
    try assumption; try (rewrite ?E1, ?E2; lra).
  rewrite E1, E2. destruct Hs as [Hs|[Hs|Hs]]; [left|right; left|right; right]; apply Rmult_lt_0_compat; assumption.
Qed.

(* ------------------------------------------------------------------ one HTM step *)
Section HTM.
  Variables a b c : vec.
  Variables s0 s1 s2 : R.
  Hypothesis Hs0 : 0 < s0.
  Hypothesis Hs1 : 0 < s1.
  Hypothesis Hs2 : 0 < s2.
  (* w0 opposite a, w1 opposite b, w2 opposite c (HTM naming) *)
  Let w0 := smid s0 b c.
  Let w1 := smid s1 c a.
  Let w2 := smid s2 a b.
  Hypothesis Hor : 0 < det a b c.

  Lemma mul_pos_nonneg s x : 0 < s -> 0 <= x -> 0 <= s * x.
  Proof. intros; apply Rmult_le_pos; lra. Qed.

  (* every direction of the triangle lies in one of the four children *)
  Theorem tri_cover p : inT a b c p ->
    inT a w2 w1 p \/ inT b w0 w2 p \/ inT c w1 w0 p \/ inT w0 w1 w2 p.
  Proof.
    intros (H1 & H2 & H3).
    assert (E1 : det a w2 p = s2 * det a b p) by (unfold w2; vring).
    assert (E2 : det w1 a p = s1 * det c a p) by (unfold w1; vring).
    assert (E3 : det b w0 p = s0 * det b c p) by (unfold w0; vring).
    assert (E4 : det w2 b p = s2 * det a b p) by (unfold w2; vring).
    assert (E5 : det c w1 p = s1 * det c a p) by (unfold w1; vring).
    assert (E6 : det w0 c p = s0 * det b c p) by (unfold w0; vring).
    assert (A1 : det w1 w2 p = - det w2 w1 p) by vring.
    assert (A2 : det w2 w0 p = - det w0 w2 p) by vring.
    assert (A3 : det w0 w1 p = - det w1 w0 p) by vring.
    unfold inT. rewrite E1, E2, E3, E4, E5, E6.
    pose proof (mul_pos_nonneg s2 _ Hs2 H1). pose proof (mul_pos_nonneg s1 _ Hs1 H3).
    pose proof (mul_pos_nonneg s0 _ Hs0 H2).
    destruct (Rle_or_lt 0 (det w2 w1 p)); [left; tauto|].
    destruct (Rle_or_lt 0 (det w0 w2 p)); [right; left; tauto|].
    destruct (Rle_or_lt 0 (det w1 w0 p)); [right; right; left; tauto|].
    right; right; right. rewrite A1, A2, A3. lra.
  Qed.

  (* the children are positively oriented *)
  Theorem orientation_preserved :
    0 < det a w2 w1 /\ 0 < det b w0 w2 /\ 0 < det c w1 w0 /\ 0 < det w0 w1 w2.
  Proof.
    assert (E1 : det a w2 w1 = s2 * s1 * det a b c) by (unfold w1, w2; vring).
    assert (E2 : det b w0 w2 = s0 * s2 * det a b c) by (unfold w0, w2; vring).
    assert (E3 : det c w1 w0 = s1 * s0 * det a b c) by (unfold w0, w1; vring).
    assert (E4 : det w0 w1 w2 = 2 * (s0 * s1 * s2) * det a b c) by (unfold w0, w1, w2; vring).
    rewrite E1, E2, E3, E4.
    assert (0 < s2 * s1) by (apply Rmult_lt_0_compat; assumption).
    assert (0 < s0 * s2) by (apply Rmult_lt_0_compat; assumption).
    assert (0 < s1 * s0) by (apply Rmult_lt_0_compat; assumption).
    assert (0 < s0 * s1 * s2) by (repeat apply Rmult_lt_0_compat; assumption).
    repeat split; try (apply Rmult_lt_0_compat; lra).
  Qed.

  (* det(u,v,.) of the nine points in terms of the corners *)
  Lemma dw0 u v : det u v w0 = s0 * (det u v b + det u v c). Proof. unfold w0; vring. Qed.
  Lemma dw1 u v : det u v w1 = s1 * (det u v c + det u v a). Proof. unfold w1; vring. Qed.
  Lemma dw2 u v : det u v w2 = s2 * (det u v a + det u v b). Proof. unfold w2; vring. Qed.

  Let Hab : det a b a = 0 := det_aba a b.
  Let Habb : det a b b = 0 := det_baa b a.

  Ltac edge_facts :=
    rewrite ?dw0, ?dw1, ?dw2;
    replace (det a b a) with 0 by vring; replace (det a b b) with 0 by vring;
    replace (det b c b) with 0 by vring; replace (det b c c) with 0 by vring;
    replace (det c a c) with 0 by vring; replace (det c a a) with 0 by vring;
    replace (det b c a) with (det a b c) by vring; replace (det c a b) with (det a b c) by vring.

  Lemma edge_nonneg s x y : 0 < s -> 0 <= x -> 0 <= y -> 0 <= s * (x + y).
  Proof. intros. apply Rmult_le_pos; lra. Qed.
  Lemma edge_pos s x y : 0 < s -> 0 <= x -> 0 <= y -> (0 < x \/ 0 < y) -> 0 < s * (x + y).
  Proof. intros. apply Rmult_lt_0_compat; lra. Qed.

  Ltac side := first [ lra | apply edge_nonneg; lra | apply edge_pos; lra ].

  (* each child lies in the parent *)
  Theorem tri_children_inside p :
    (inT a w2 w1 p -> inT a b c p) /\ (inT b w0 w2 p -> inT a b c p) /\
    (inT c w1 w0 p -> inT a b c p) /\ (inT w0 w1 w2 p -> inT a b c p).
  Proof.
    destruct orientation_preserved as (O1 & O2 & O3 & O4).
    split; [|split; [|split]]; intros Hin; unfold inT; (split; [|split]).
    all: first [ apply (cone_in_halfspace _ _ _ _ _ p O1 Hin)
               | apply (cone_in_halfspace _ _ _ _ _ p O2 Hin)
               | apply (cone_in_halfspace _ _ _ _ _ p O3 Hin)
               | apply (cone_in_halfspace _ _ _ _ _ p O4 Hin) ];
      edge_facts; side.
  Qed.

  Ltac side_strict :=
    first [ left; first [ lra | apply edge_pos; lra ]
          | right; left; first [ lra | apply edge_pos; lra ]
          | right; right; first [ lra | apply edge_pos; lra ] ].

  (* ... and strictly so *)
  Theorem tri_strict_inside p :
    (inTs a w2 w1 p -> inTs a b c p) /\ (inTs b w0 w2 p -> inTs a b c p) /\
    (inTs c w1 w0 p -> inTs a b c p) /\ (inTs w0 w1 w2 p -> inTs a b c p).
  Proof.
    destruct orientation_preserved as (O1 & O2 & O3 & O4).
    split; [|split; [|split]]; intros Hin; unfold inTs; (split; [|split]).
    all: first [ apply (cone_in_halfspace_strict _ _ _ _ _ p O1 Hin)
               | apply (cone_in_halfspace_strict _ _ _ _ _ p O2 Hin)
               | apply (cone_in_halfspace_strict _ _ _ _ _ p O3 Hin)
               | apply (cone_in_halfspace_strict _ _ _ _ _ p O4 Hin) ];
      edge_facts; first [ side | side_strict ].
  Qed.

  (* distinct children have disjoint interiors *)
  Lemma mid_mid_facts :
    det w2 w0 a = s2 * s0 * det a b c /\ det w2 w0 w1 = 2 * (s0 * s1 * s2) * det a b c /\ det w2 w0 w2 = 0 /\
    det w0 w1 a = s0 * s1 * det a b c /\ det w0 w1 w2 = 2 * (s0 * s1 * s2) * det a b c /\ det w0 w1 w1 = 0 /\
    det w0 w1 b = s0 * s1 * det a b c /\ det w0 w1 w0 = 0.
  Proof. unfold w0, w1, w2. repeat split; vring. Qed.

  Theorem tri_interiors_disjoint p :
    ~ (inTs a w2 w1 p /\ inTs b w0 w2 p) /\ ~ (inTs a w2 w1 p /\ inTs c w1 w0 p) /\
    ~ (inTs b w0 w2 p /\ inTs c w1 w0 p) /\
    ~ (inTs a w2 w1 p /\ inTs w0 w1 w2 p) /\ ~ (inTs b w0 w2 p /\ inTs w0 w1 w2 p) /\
    ~ (inTs c w1 w0 p /\ inTs w0 w1 w2 p).
  Proof.
    destruct orientation_preserved as (O1 & O2 & O3 & O4).
    destruct mid_mid_facts as (F1 & F2 & F3 & F4 & F5 & F6 & F7 & F8).
    assert (P02 : 0 < s2 * s0) by (apply Rmult_lt_0_compat; assumption).
    assert (P01 : 0 < s0 * s1) by (apply Rmult_lt_0_compat; assumption).
    assert (P012 : 0 < s0 * s1 * s2) by (repeat apply Rmult_lt_0_compat; assumption).
    assert (Q1 : 0 < s2 * s0 * det a b c) by (apply Rmult_lt_0_compat; assumption).
    assert (Q2 : 0 < s0 * s1 * det a b c) by (apply Rmult_lt_0_compat; assumption).
    assert (Q3 : 0 < 2 * (s0 * s1 * s2) * det a b c) by (apply Rmult_lt_0_compat; lra).
    assert (A1 : det w1 w2 p = - det w2 w1 p) by vring.
    assert (A2 : det w2 w0 p = - det w0 w2 p) by vring.
    assert (A3 : det w0 w1 p = - det w1 w0 p) by vring.
    repeat split; intros (H & K).
    - assert (0 < det w2 w0 p).
      { apply (cone_in_halfspace_strict _ _ _ _ _ p O1 H); rewrite ?F1, ?F2, ?F3; try lra; try (left; lra). }
      destruct K as (_ & K & _). lra.
    - assert (0 < det w0 w1 p).
      { apply (cone_in_halfspace_strict _ _ _ _ _ p O1 H); rewrite ?F4, ?F5, ?F6; try lra; try (left; lra). }
      destruct K as (_ & K & _). lra.
    - assert (0 < det w0 w1 p).
      { apply (cone_in_halfspace_strict _ _ _ _ _ p O2 H); rewrite ?F7, ?F8, ?F5; try lra; try (left; lra). }
      destruct K as (_ & K & _). lra.
    - destruct H as (_ & H & _). destruct K as (_ & K & _). lra.
    - destruct H as (_ & H & _). destruct K as (_ & _ & K). lra.
    - destruct H as (_ & H & _). destruct K as (K & _ & _). lra.
  Qed.
End HTM.
