(* L-real, part 2: the generic TOAST model (Model/ToastTerm.v) instantiated at unit vectors
   of R^3 with mid = normalised sum; tiles as unions of two spherical triangles (cones);
   cover / nesting / disjoint interiors at every depth by induction from the one-step HTM
   lemmas of Geom/Cone.v; centres; the point lookup with exact arithmetic.  Not executable. *)
From Coq Require Import Reals Lra Psatz List NArith Arith Bool Lia.
From Toasty Require Import Model.Quadtree Model.ToastTerm Proofs.ToastTermP Geom.Cone.
Import ListNotations.
Local Open Scope R_scope.

(* ------------------------------------------------------------------ the real instance *)
Definition inv_norm (v : vec) : R := / sqrt (norm2 v).
(* _libtoasty.pyx _mid: the great-circle midpoint = the normalised sum (validated numerically
   against the libm code by the harness, not proved) *)
Definition rmid (a b : vec) : vec := smid (inv_norm (vadd a b)) a b.

(* toast.py:158-170 _equ_to_xyz: (cos lon cos lat, sin lat, sin lon cos lat) at the level-1 vertices *)
Definition rbase (k : N) : vec :=
  match (k / 4)%N with
  | 0%N => match (k mod 4)%N with
           | 0%N => mkV 1 0 0 | 1%N => mkV 0 0 1 | 2%N => mkV (-1) 0 0 | _ => mkV 0 0 (-1)
           end
  | 1%N => mkV 0 1 0
  | _ => mkV 0 (-1) 0
  end.

Fixpoint eval (p : pt) : vec :=
  match p with Base k => rbase k | Mid a b => rmid (eval a) (eval b) end.

Notation rtile := (gtile vec).
Notation rtile_at := (tile_at rbase rmid).
Notation rtile_at1 := (tile_at1 rbase rmid).
Notation rchild := (child rmid).

(* the real tile of a position is the evaluation of the term tile *)
Theorem eval_tile_at cs p :
  gmap pt vec eval (tile_at Base Mid cs p) = rtile_at cs p.
Proof. exact (gmap_tile_at pt vec Base Mid rbase rmid eval (fun k => eq_refl) (fun a b => eq_refl) cs p). Qed.

(* a tile is the union of the two triangles along its diagonal (toast.py:129-155) *)
Definition inU (t : rtile) (p : vec) : Prop :=
  if incr t then inT (c_ul t) (c_ur t) (c_ll t) p \/ inT (c_ur t) (c_lr t) (c_ll t) p
  else inT (c_ul t) (c_ur t) (c_lr t) p \/ inT (c_ul t) (c_lr t) (c_ll t) p.
(* its interior, less the open diagonal *)
Definition intU (t : rtile) (p : vec) : Prop :=
  if incr t then inTs (c_ul t) (c_ur t) (c_ll t) p \/ inTs (c_ur t) (c_lr t) (c_ll t) p
  else inTs (c_ul t) (c_ur t) (c_lr t) p \/ inTs (c_ul t) (c_lr t) (c_ll t) p.
(* both triangles counter-clockwise *)
Definition wfU (t : rtile) : Prop :=
  if incr t then 0 < det (c_ul t) (c_ur t) (c_ll t) /\ 0 < det (c_ur t) (c_lr t) (c_ll t)
  else 0 < det (c_ul t) (c_ur t) (c_lr t) /\ 0 < det (c_ul t) (c_lr t) (c_ll t).

(* ------------------------------------------------------------------ scale factors *)
Lemma norm2_add_pos a b x : det a b x <> 0 -> 0 < norm2 (vadd a b).
Proof.
  intros Hd. unfold norm2, dot, vadd; cbn [vx vy vz].
  destruct (Rlt_or_le 0 ((vx a + vx b) * (vx a + vx b) + (vy a + vy b) * (vy a + vy b) + (vz a + vz b) * (vz a + vz b)))
    as [|Hle]; [assumption|exfalso].
  set (u := vx a + vx b) in *. set (v := vy a + vy b) in *. set (w := vz a + vz b) in *.
  pose proof (Rle_0_sqr u) as Hu. pose proof (Rle_0_sqr v) as Hv. pose proof (Rle_0_sqr w) as Hw.
  unfold Rsqr in Hu, Hv, Hw.
  assert (E1 : u = 0) by (assert (Z : u * u = 0) by lra; apply Rmult_integral in Z; tauto).
  assert (E2 : v = 0) by (assert (Z : v * v = 0) by lra; apply Rmult_integral in Z; tauto).
  assert (E3 : w = 0) by (assert (Z : w * w = 0) by lra; apply Rmult_integral in Z; tauto).
  unfold u, v, w in E1, E2, E3.
  apply Hd. unfold det, dot, cross; cbn [vx vy vz].
  replace (vx a) with (- vx b) by lra. replace (vy a) with (- vy b) by lra. replace (vz a) with (- vz b) by lra. ring.
Qed.

Lemma inv_norm_pos a b x : det a b x <> 0 -> 0 < inv_norm (vadd a b).
Proof.
  intros H. unfold inv_norm. apply Rinv_0_lt_compat, sqrt_lt_R0. eapply norm2_add_pos; eassumption.
Qed.

Lemma rmid_comm a b : rmid a b = rmid b a.
Proof.
  unfold rmid, smid. replace (vadd b a) with (vadd a b); [reflexivity|].
  unfold vadd; f_equal; ring.
Qed.

(* positivity of the three scale factors of a positively oriented triangle *)
Lemma tri_scales a b c : 0 < det a b c ->
  0 < inv_norm (vadd b c) /\ 0 < inv_norm (vadd c a) /\ 0 < inv_norm (vadd a b).
Proof.
  intros H. repeat split.
  - apply (inv_norm_pos b c a). rewrite <- det_cyc. lra.
  - apply (inv_norm_pos c a b). rewrite det_cyc. lra.
  - apply (inv_norm_pos a b c). lra.
Qed.

(* the four HTM children of (a, b, c) with the normalised midpoints *)
Section HTMr.
  Variables a b c : vec.
  Hypothesis Hor : 0 < det a b c.
  Let w0 := rmid b c.
  Let w1 := rmid c a.
  Let w2 := rmid a b.

  Lemma r_cover p : inT a b c p ->
    inT a w2 w1 p \/ inT b w0 w2 p \/ inT c w1 w0 p \/ inT w0 w1 w2 p.
  Proof.
    destruct (tri_scales a b c Hor) as (S0 & S1 & S2).
    exact (tri_cover a b c _ _ _ S0 S1 S2 p).
  Qed.

  Lemma r_orient : 0 < det a w2 w1 /\ 0 < det b w0 w2 /\ 0 < det c w1 w0 /\ 0 < det w0 w1 w2.
  Proof.
    destruct (tri_scales a b c Hor) as (S0 & S1 & S2).
    exact (orientation_preserved a b c _ _ _ S0 S1 S2 Hor).
  Qed.

  Lemma r_inside p :
    (inT a w2 w1 p -> inT a b c p) /\ (inT b w0 w2 p -> inT a b c p) /\
    (inT c w1 w0 p -> inT a b c p) /\ (inT w0 w1 w2 p -> inT a b c p).
  Proof.
    destruct (tri_scales a b c Hor) as (S0 & S1 & S2).
    exact (tri_children_inside a b c _ _ _ S0 S1 S2 Hor p).
  Qed.

  Lemma r_strict p :
    (inTs a w2 w1 p -> inTs a b c p) /\ (inTs b w0 w2 p -> inTs a b c p) /\
    (inTs c w1 w0 p -> inTs a b c p) /\ (inTs w0 w1 w2 p -> inTs a b c p).
  Proof.
    destruct (tri_scales a b c Hor) as (S0 & S1 & S2).
    exact (tri_strict_inside a b c _ _ _ S0 S1 S2 Hor p).
  Qed.

  Lemma r_disjoint p :
    ~ (inTs a w2 w1 p /\ inTs b w0 w2 p) /\ ~ (inTs a w2 w1 p /\ inTs c w1 w0 p) /\
    ~ (inTs b w0 w2 p /\ inTs c w1 w0 p) /\
    ~ (inTs a w2 w1 p /\ inTs w0 w1 w2 p) /\ ~ (inTs b w0 w2 p /\ inTs w0 w1 w2 p) /\
    ~ (inTs c w1 w0 p /\ inTs w0 w1 w2 p).
  Proof.
    destruct (tri_scales a b c Hor) as (S0 & S1 & S2).
    exact (tri_interiors_disjoint a b c _ _ _ S0 S1 S2 Hor p).
  Qed.
End HTMr.

(* ------------------------------------------------------------------ one _div4 step on tiles *)
Ltac rot_asm :=
  first [ assumption | apply inT_rot; assumption | apply inT_rot, inT_rot; assumption ].
Ltac pick_tri := first [ left; rot_asm | right; rot_asm ].
Ltac pick_child4 :=
  first [ left; pick_tri | right; left; pick_tri | right; right; left; pick_tri | right; right; right; pick_tri ].

Lemma children_cover (t : rtile) p : wfU t -> inU t p ->
  inU (rchild t 0 0) p \/ inU (rchild t 1 0) p \/ inU (rchild t 0 1) p \/ inU (rchild t 1 1) p.
Proof.
  destruct t as [pos a b c d inc].
  rewrite child_00, child_10, child_01, child_11. unfold inU, wfU, ce_of; cbn [c_ul c_ur c_lr c_ll incr].
  destruct inc; intros (O1 & O2) [H|H].
  - rewrite (rmid_comm d b).
    destruct (r_cover a b d O1 p H) as [K|[K|[K|K]]]; pick_child4.
  - destruct (r_cover b c d O2 p H) as [K|[K|[K|K]]]; pick_child4.
  - rewrite (rmid_comm a c).
    destruct (r_cover a b c O1 p H) as [K|[K|[K|K]]]; pick_child4.
  - destruct (r_cover a c d O2 p H) as [K|[K|[K|K]]]; pick_child4.
Qed.

Ltac use4 L :=
  first [ apply (proj1 L); rot_asm | apply (proj1 (proj2 L)); rot_asm
        | apply (proj1 (proj2 (proj2 L))); rot_asm | apply (proj2 (proj2 (proj2 L))); rot_asm ].

Lemma child_inside (t : rtile) ix iy p : wfU t -> (ix < 2)%N -> (iy < 2)%N ->
  inU (rchild t ix iy) p -> inU t p.
Proof.
  intros Hw Hx Hy. destruct (bit_cases _ Hx) as [-> | ->], (bit_cases _ Hy) as [-> | ->];
    destruct t as [pos a b c d inc];
    rewrite ?child_00, ?child_10, ?child_01, ?child_11; unfold inU, wfU, ce_of in *; cbn [c_ul c_ur c_lr c_ll incr] in *;
    destruct inc; destruct Hw as (O1 & O2); intros [H|H].
  all: first [ left; rewrite ?(rmid_comm d b), ?(rmid_comm a c) in H;
               first [ use4 (r_inside a b d O1 p) | use4 (r_inside a b c O1 p) ]
             | right; first [ use4 (r_inside b c d O2 p) | use4 (r_inside a c d O2 p) ] ].
Qed.

Ltac rot_s :=
  first [ assumption | apply inTs_rot; assumption | apply inTs_rot, inTs_rot; assumption ].
Ltac use4s L :=
  first [ apply (proj1 L); rot_s | apply (proj1 (proj2 L)); rot_s
        | apply (proj1 (proj2 (proj2 L))); rot_s | apply (proj2 (proj2 (proj2 L))); rot_s ].
Ltac cyc_asm :=
  first [ assumption | rewrite det_cyc; assumption | rewrite <- det_cyc; assumption ].

Lemma child_strict (t : rtile) ix iy p : wfU t -> (ix < 2)%N -> (iy < 2)%N ->
  intU (rchild t ix iy) p -> intU t p.
Proof.
  intros Hw Hx Hy. destruct (bit_cases _ Hx) as [-> | ->], (bit_cases _ Hy) as [-> | ->];
    destruct t as [pos a b c d inc];
    rewrite ?child_00, ?child_10, ?child_01, ?child_11; unfold intU, wfU, ce_of in *; cbn [c_ul c_ur c_lr c_ll incr] in *;
    destruct inc; destruct Hw as (O1 & O2); intros [H|H].
  all: first [ left; rewrite ?(rmid_comm d b), ?(rmid_comm a c) in H;
               first [ use4s (r_strict a b d O1 p) | use4s (r_strict a b c O1 p) ]
             | right; first [ use4s (r_strict b c d O2 p) | use4s (r_strict a c d O2 p) ] ].
Qed.

Lemma child_wfU (t : rtile) ix iy : wfU t -> (ix < 2)%N -> (iy < 2)%N -> wfU (rchild t ix iy).
Proof.
  intros Hw Hx Hy. destruct (bit_cases _ Hx) as [-> | ->], (bit_cases _ Hy) as [-> | ->];
    destruct t as [pos a b c d inc];
    rewrite ?child_00, ?child_10, ?child_01, ?child_11; unfold wfU, ce_of in *; cbn [c_ul c_ur c_lr c_ll incr] in *;
    destruct inc; destruct Hw as (O1 & O2).
  all: try (pose proof (r_orient a b d O1) as (A1 & A2 & A3 & A4); pose proof (r_orient b c d O2) as (B1 & B2 & B3 & B4);
            rewrite ?(rmid_comm b d) in * ).
  all: try (pose proof (r_orient a b c O1) as (A1 & A2 & A3 & A4); pose proof (r_orient a c d O2) as (B1 & B2 & B3 & B4);
            rewrite ?(rmid_comm c a) in * ).
  all: split; cyc_asm.
Qed.

Ltac kill_by D :=
  first [ apply (proj1 D); split; rot_s
        | apply (proj1 (proj2 D)); split; rot_s
        | apply (proj1 (proj2 (proj2 D))); split; rot_s
        | apply (proj1 (proj2 (proj2 (proj2 D)))); split; rot_s
        | apply (proj1 (proj2 (proj2 (proj2 (proj2 D))))); split; rot_s
        | apply (proj2 (proj2 (proj2 (proj2 (proj2 D))))); split; rot_s ].

Lemma siblings_disjoint (t : rtile) ix iy ix' iy' p : wfU t ->
  (ix < 2)%N -> (iy < 2)%N -> (ix' < 2)%N -> (iy' < 2)%N -> (ix, iy) <> (ix', iy') ->
  intU (rchild t ix iy) p -> intU (rchild t ix' iy') p -> False.
Proof.
  intros Hw Hx Hy Hx' Hy' Hne.
  destruct (bit_cases _ Hx) as [-> | ->], (bit_cases _ Hy) as [-> | ->],
           (bit_cases _ Hx') as [-> | ->], (bit_cases _ Hy') as [-> | ->]; try (exfalso; apply Hne; reflexivity);
    destruct t as [pos a b c d inc];
    rewrite ?child_00, ?child_10, ?child_01, ?child_11; unfold intU, wfU, ce_of in *; cbn [c_ul c_ur c_lr c_ll incr] in *;
    destruct inc; destruct Hw as (O1 & O2); intros [H|H] [H'|H'].
  all: try (pose proof (r_disjoint a b d O1 p) as D1; pose proof (r_disjoint b c d O2 p) as D2;
            pose proof (r_strict a b d O1 p) as S1; pose proof (r_strict b c d O2 p) as S2;
            rewrite ?(rmid_comm b d) in *;
            assert (E : det d b p = - det b d p) by vring).
  all: try (pose proof (r_disjoint a b c O1 p) as D1; pose proof (r_disjoint a c d O2 p) as D2;
            pose proof (r_strict a b c O1 p) as S1; pose proof (r_strict a c d O2 p) as S2;
            rewrite ?(rmid_comm c a) in *;
            assert (E : det a c p = - det c a p) by vring).
  all: first [ kill_by D1 | kill_by D2
             | (assert (K1 : inTs a b d p) by use4s S1; assert (K2 : inTs b c d p) by use4s S2;
                destruct K1 as (_ & K1 & _); destruct K2 as (_ & _ & K2); lra)
             | (assert (K1 : inTs a b c p) by use4s S1; assert (K2 : inTs a c d p) by use4s S2;
                destruct K1 as (_ & _ & K1); destruct K2 as (K2 & _ & _); lra) ].
Qed.

(* ------------------------------------------------------------------ level 1 *)
Local Open Scope N_scope.
Ltac rcompute := cbv - [Rplus Rmult Rminus Ropp IZR Rlt Rle Rinv sqrt Rdiv].

Lemma level1_wf cs x y : x < 2 -> y < 2 -> wfU (rtile_at1 cs 0 x y).
Proof.
  intros Hx Hy. destruct (bit_cases _ Hx) as [-> | ->], (bit_cases _ Hy) as [-> | ->]; destruct cs;
    rcompute; split; lra.
Qed.

(* the four level-1 tiles (eight octants) cover every direction *)
Lemma level1_cover cs (p : vec) : exists x y, x < 2 /\ y < 2 /\ inU (rtile_at1 cs 0 x y) p.
Proof.
  destruct p as [px py pz].
  destruct cs; destruct (Rle_or_lt 0 px), (Rle_or_lt 0 pz), (Rle_or_lt 0 py).
  all: first
    [ exists 0, 0; split; [lia|split; [lia|]]; rcompute; first [left; repeat split; lra | right; repeat split; lra]
    | exists 1, 0; split; [lia|split; [lia|]]; rcompute; first [left; repeat split; lra | right; repeat split; lra]
    | exists 0, 1; split; [lia|split; [lia|]]; rcompute; first [left; repeat split; lra | right; repeat split; lra]
    | exists 1, 1; split; [lia|split; [lia|]]; rcompute; first [left; repeat split; lra | right; repeat split; lra] ].
Qed.

Lemma level1_disjoint cs x y x' y' p : x < 2 -> y < 2 -> x' < 2 -> y' < 2 ->
  intU (rtile_at1 cs 0 x y) p -> intU (rtile_at1 cs 0 x' y') p -> x = x' /\ y = y'.
Proof.
  intros Hx Hy Hx' Hy'. destruct p as [px py pz].
  destruct (bit_cases _ Hx) as [-> | ->], (bit_cases _ Hy) as [-> | ->],
           (bit_cases _ Hx') as [-> | ->], (bit_cases _ Hy') as [-> | ->]; try (intros; split; reflexivity);
    destruct cs; rcompute; intros [(H1 & H2 & H3)|(H1 & H2 & H3)] [(K1 & K2 & K3)|(K1 & K2 & K3)]; exfalso; lra.
Qed.

(* ------------------------------------------------------------------ every depth *)
Lemma wf_all cs : forall m x y, x < 2 ^ N.of_nat (S m) -> y < 2 ^ N.of_nat (S m) -> wfU (rtile_at1 cs m x y).
Proof.
  induction m as [|m IH]; intros x y Hx Hy.
  - apply level1_wf; change (2 ^ N.of_nat 1) with 2 in *; assumption.
  - rewrite pow2_S in Hx, Hy. cbn [ToastTerm.tile_at1].
    apply child_wfU; [|apply N.mod_lt; lia|apply N.mod_lt; lia].
    apply IH; apply N.div_lt_upper_bound; lia.
Qed.

(* every direction lies in some tile of depth m+1 *)
Theorem tiles_cover_all cs : forall m p, exists x y,
  x < 2 ^ N.of_nat (S m) /\ y < 2 ^ N.of_nat (S m) /\ inU (rtile_at1 cs m x y) p.
Proof.
  induction m as [|m IH]; intros p.
  - destruct (level1_cover cs p) as (x & y & Hx & Hy & H). exists x, y. change (2 ^ N.of_nat 1) with 2. auto.
  - destruct (IH p) as (x & y & Hx & Hy & H).
    pose proof (children_cover _ p (wf_all cs m x y Hx Hy) H) as Hc.
    rewrite (pow2_S (S m)).
    destruct Hc as [K|[K|[K|K]]];
      [exists (2 * x + 0), (2 * y + 0) | exists (2 * x + 1), (2 * y + 0)
      | exists (2 * x + 0), (2 * y + 1) | exists (2 * x + 1), (2 * y + 1)];
      (split; [lia|split; [lia|]]); rewrite tile_at1_child by lia; exact K.
Qed.

(* a tile lies in its parent *)
Theorem nesting_step cs m x y p : x < 2 ^ N.of_nat (S (S m)) -> y < 2 ^ N.of_nat (S (S m)) ->
  inU (rtile_at1 cs (S m) x y) p -> inU (rtile_at1 cs m (x / 2) (y / 2)) p.
Proof.
  intros Hx Hy. rewrite pow2_S in Hx, Hy. cbn [ToastTerm.tile_at1].
  apply child_inside; [|apply N.mod_lt; lia|apply N.mod_lt; lia].
  apply wf_all; apply N.div_lt_upper_bound; lia.
Qed.

Lemma desc_wf (t : rtile) : wfU t -> forall k x y, wfU (desc rmid t k x y).
Proof.
  intros Hw. induction k as [|k IH]; intros x y; cbn [desc]; [assumption|].
  apply child_wfU; [apply IH|apply N.mod_lt; lia|apply N.mod_lt; lia].
Qed.

(* ... and so does every descendant, at any relative depth *)
Theorem nesting_desc (t : rtile) p : wfU t -> forall k x y, inU (desc rmid t k x y) p -> inU t p.
Proof.
  intros Hw. induction k as [|k IH]; intros x y; cbn [desc]; [auto|].
  intros H. apply (IH (x / 2)%N (y / 2)%N).
  eapply child_inside; [apply desc_wf; assumption| | |exact H]; apply N.mod_lt; lia.
Qed.

(* distinct tiles of one depth have disjoint interiors *)
Theorem tiles_disjoint_all cs : forall m x y x' y' p,
  x < 2 ^ N.of_nat (S m) -> y < 2 ^ N.of_nat (S m) -> x' < 2 ^ N.of_nat (S m) -> y' < 2 ^ N.of_nat (S m) ->
  intU (rtile_at1 cs m x y) p -> intU (rtile_at1 cs m x' y') p -> x = x' /\ y = y'.
Proof.
  induction m as [|m IH]; intros x y x' y' p Hx Hy Hx' Hy'.
  - change (2 ^ N.of_nat 1) with 2 in *. apply level1_disjoint; assumption.
  - rewrite pow2_S in Hx, Hy, Hx', Hy'. cbn [ToastTerm.tile_at1]. intros H H'.
    assert (Bx : x / 2 < 2 ^ N.of_nat (S m)) by (apply N.div_lt_upper_bound; lia).
    assert (By : y / 2 < 2 ^ N.of_nat (S m)) by (apply N.div_lt_upper_bound; lia).
    assert (Bx' : x' / 2 < 2 ^ N.of_nat (S m)) by (apply N.div_lt_upper_bound; lia).
    assert (By' : y' / 2 < 2 ^ N.of_nat (S m)) by (apply N.div_lt_upper_bound; lia).
    assert (Mx : x mod 2 < 2) by (apply N.mod_lt; lia). assert (My : y mod 2 < 2) by (apply N.mod_lt; lia).
    assert (Mx' : x' mod 2 < 2) by (apply N.mod_lt; lia). assert (My' : y' mod 2 < 2) by (apply N.mod_lt; lia).
    pose proof (child_strict _ _ _ p (wf_all cs m _ _ Bx By) Mx My H) as P.
    pose proof (child_strict _ _ _ p (wf_all cs m _ _ Bx' By') Mx' My' H') as P'.
    destruct (IH _ _ _ _ p Bx By Bx' By' P P') as (E1 & E2).
    rewrite <- E1, <- E2 in H'.
    destruct (N.eq_dec (x mod 2) (x' mod 2)) as [F1|F1]; destruct (N.eq_dec (y mod 2) (y' mod 2)) as [F2|F2];
      try (split; lia);
      exfalso; eapply (siblings_disjoint _ (x mod 2) (y mod 2) (x' mod 2) (y' mod 2) p (wf_all cs m _ _ Bx By));
      try eassumption; intros Q; injection Q; intros; contradiction.
Qed.

(* the centre of a tile (the point _subsample writes for a 1 x 1 grid) lies in the tile *)
Lemma centre_in_tile (t : rtile) : wfU t -> inU t (centre rmid t).
Proof.
  destruct t as [pos a b c d inc]. unfold wfU, inU, centre; cbn [c_ul c_ur c_lr c_ll incr].
  destruct inc; intros (O1 & O2).
  - destruct (tri_scales a b d O1) as (S0 & _ & _). left. rewrite (rmid_comm d b). unfold rmid, inT.
    rewrite !det_smid_r. replace (det a b b) with 0%R by vring. replace (det b d b) with 0%R by vring.
    replace (det b d d) with 0%R by vring. replace (det d a d) with 0%R by vring.
    replace (det d a b) with (det a b d) by vring. repeat split; nra.
  - destruct (tri_scales a b c O1) as (_ & S1 & _). left. rewrite (rmid_comm a c). unfold rmid, inT.
    rewrite !det_smid_r. replace (det a b a) with 0%R by vring. replace (det b c c) with 0%R by vring.
    replace (det c a c) with 0%R by vring. replace (det c a a) with 0%R by vring.
    replace (det b c a) with (det a b c) by vring. repeat split; nra.
Qed.

(* C05: the centre of every descendant lies in the tile *)
Theorem centre_inside_all cs p k j i : valid p = true -> (1 <= pn p)%nat ->
  inU (rtile_at cs p) (centre rmid (desc rmid (rtile_at cs p) k j i)).
Proof.
  intros Hv Hn.
  assert (Hw : wfU (rtile_at cs p)).
  { unfold tile_at. destruct p as [n x y]; cbn [pn px py] in *. destruct n as [|m]; [lia|]. cbn [pred].
    apply valid_iff in Hv; cbn [pn px py] in Hv. apply wf_all; tauto. }
  apply (nesting_desc _ _ Hw k j i). apply centre_in_tile. apply desc_wf. assumption.
Qed.

(* evaluation respects commutativity of Mid, so term-level statements "up to ~" are equalities in R^3 *)
Lemma eval_peq a b : peq a b -> eval a = eval b.
Proof.
  induction 1; cbn [eval]; try congruence.
  - apply rmid_comm.
Qed.

(* C05: the sky position of pixel (row i, column j) of toast_tile_get_coords, evaluated in R^3,
   is the centre of the tile eight levels deeper and lies in the tile *)
Theorem pixel_is_centre_real cs p i j : (1 <= pn p)%nat -> i < 256 -> j < 256 ->
  eval (tile_coords Mid (tile_at Base Mid cs p) i j) =
  centre rmid (rtile_at cs (mkPos (8 + pn p) (256 * px p + j) (256 * py p + i))).
Proof.
  intros Hn Hi Hj.
  rewrite (eval_peq _ _ (tile_coords_is_centres cs p i j Hn Hi Hj)).
  rewrite (gmap_centre pt vec Mid rmid eval (fun a b => eq_refl)).
  rewrite eval_tile_at. reflexivity.
Qed.

Theorem pixel_in_tile cs p i j : valid p = true -> (1 <= pn p)%nat -> i < 256 -> j < 256 ->
  inU (rtile_at cs p) (eval (tile_coords Mid (tile_at Base Mid cs p) i j)).
Proof.
  intros Hv Hn Hi Hj. rewrite pixel_is_centre_real by assumption.
  change 256 with (2 ^ N.of_nat 8) in *.
  rewrite (tile_at_desc vec rbase rmid cs p 8 j i Hn Hj Hi).
  apply centre_inside_all; assumption.
Qed.

(* ------------------------------------------------------------------ convex quadrilaterals *)
(* toast.py:234-244: the code's containment test for depth >= 2 is four half-spaces.  It
   coincides with the union of the two triangles because TOAST tiles are convex at the ends
   of their diagonal; that is where the corners being UNIT vectors matters. *)
Local Open Scope R_scope.

Definition inQ (t : rtile) (p : vec) : Prop :=
  0 <= det (c_ul t) (c_ur t) p /\ 0 <= det (c_ur t) (c_lr t) p /\
  0 <= det (c_lr t) (c_ll t) p /\ 0 <= det (c_ll t) (c_ul t) p.

Definition unit (v : vec) : Prop := norm2 v = 1.

Definition wfQ (t : rtile) : Prop :=
  unit (c_ul t) /\ unit (c_ur t) /\ unit (c_lr t) /\ unit (c_ll t) /\ wfU t /\
  0 <= det (c_ul t) (c_ur t) (c_ll t) /\ 0 <= det (c_ur t) (c_lr t) (c_ll t) /\
  0 <= det (c_lr t) (c_ll t) (c_ul t) /\ 0 <= det (c_ul t) (c_ur t) (c_lr t).

Lemma inQ_inU t p : inQ t p -> inU t p.
Proof.
  destruct t as [pos a b c d inc]. unfold inQ, inU, inT; cbn [c_ul c_ur c_lr c_ll incr].
  intros (H1 & H2 & H3 & H4). destruct inc.
  - assert (E : det d b p = - det b d p) by vring.
    destruct (Rle_or_lt 0 (det b d p)); [left|right]; repeat split; lra.
  - assert (E : det a c p = - det c a p) by vring.
    destruct (Rle_or_lt 0 (det c a p)); [left|right]; repeat split; lra.
Qed.

Lemma inU_inQ t p : wfQ t -> inU t p -> inQ t p.
Proof.
  destruct t as [pos a b c d inc]. unfold wfQ, wfU, inQ, inU; cbn [c_ul c_ur c_lr c_ll incr].
  intros (_ & _ & _ & _ & Hw & D1 & D2 & D3 & D4).
  assert (Z1 : forall x y : vec, det x y x = 0) by (intros; vring).
  assert (Z2 : forall x y : vec, det x y y = 0) by (intros; vring).
  assert (C1 : det b c a = det a b c) by vring. assert (C2 : det c d b = det b c d) by vring.
  assert (C3 : det d a b = det a b d) by vring. assert (C4 : det d a c = det c d a) by vring.
  assert (C5 : det c a b = det a b c) by vring. assert (C6 : det d b c = det b c d) by vring.
  assert (C7 : det a c d = det c d a) by vring. assert (C8 : det b d a = det a b d) by vring.
  destruct inc; destruct Hw as (O1 & O2); intros [H|H]; pose proof H as (H1 & H2 & H3); repeat split; try assumption.
  all: first [ apply (cone_in_halfspace _ _ _ _ _ p O1 H) | apply (cone_in_halfspace _ _ _ _ _ p O2 H) ];
    rewrite ?Z1, ?Z2, ?C1, ?C2, ?C3, ?C4, ?C5, ?C6, ?C7, ?C8; lra.
Qed.

(* four unit vectors: each of the four corner determinants is at most the sum of the others *)
Lemma unit_dot_le u v : unit u -> unit v -> dot u v <= 1 /\ - dot u v <= 1.
Proof.
  unfold unit, norm2, dot. intros Hu Hv.
  pose proof (Rle_0_sqr (vx u - vx v)). pose proof (Rle_0_sqr (vy u - vy v)). pose proof (Rle_0_sqr (vz u - vz v)).
  pose proof (Rle_0_sqr (vx u + vx v)). pose proof (Rle_0_sqr (vy u + vy v)). pose proof (Rle_0_sqr (vz u + vz v)).
  unfold Rsqr in *. split; nra.
Qed.

Lemma norm_triangle u v w z al be ga de :
  unit u -> unit v -> unit w -> unit z -> 0 <= al -> 0 <= be -> 0 <= ga -> 0 <= de ->
  de * vx z = al * vx u + be * vx v - ga * vx w ->
  de * vy z = al * vy u + be * vy v - ga * vy w ->
  de * vz z = al * vz u + be * vz v - ga * vz w ->
  de <= al + be + ga.
Proof.
  intros Hu Hv Hw Hz Ha Hb Hg Hd Ex Ey Ez.
  destruct (unit_dot_le u v Hu Hv) as (B1 & _).
  destruct (unit_dot_le u w Hu Hw) as (_ & B2).
  destruct (unit_dot_le v w Hv Hw) as (_ & B3).
  assert (Sq : de * de = al * al + be * be + ga * ga + 2 * (al * be) * dot u v - 2 * (al * ga) * dot u w - 2 * (be * ga) * dot v w).
  { unfold unit, norm2, dot in *.
    replace (de * de) with (de * de * (vx z * vx z + vy z * vy z + vz z * vz z)) by (rewrite Hz; ring).
    replace (de * de * (vx z * vx z + vy z * vy z + vz z * vz z))
      with ((de * vx z) * (de * vx z) + (de * vy z) * (de * vy z) + (de * vz z) * (de * vz z)) by ring.
    rewrite Ex, Ey, Ez.
    replace (al * al) with (al * al * (vx u * vx u + vy u * vy u + vz u * vz u)) by (rewrite Hu; ring).
    replace (be * be) with (be * be * (vx v * vx v + vy v * vy v + vz v * vz v)) by (rewrite Hv; ring).
    replace (ga * ga) with (ga * ga * (vx w * vx w + vy w * vy w + vz w * vz w)) by (rewrite Hw; ring).
    ring. }
  assert (P1 : 0 <= al * be) by (apply Rmult_le_pos; assumption).
  assert (P2 : 0 <= al * ga) by (apply Rmult_le_pos; assumption).
  assert (P3 : 0 <= be * ga) by (apply Rmult_le_pos; assumption).
  assert (Q1 : (al * be) * dot u v <= al * be) by nra.
  assert (Q2 : (al * ga) * (- dot u w) <= al * ga) by nra.
  assert (Q3 : (be * ga) * (- dot v w) <= be * ga) by nra.
  assert (Le : de * de <= (al + be + ga) * (al + be + ga)) by nra.
  destruct (Rle_or_lt de (al + be + ga)) as [|Hlt]; [assumption|exfalso].
  assert (0 <= al + be + ga) by lra.
  assert ((al + be + ga) * (al + be + ga) < de * de) by nra. lra.
Qed.

Lemma corner_dets_bounded a b c d :
  unit a -> unit b -> unit c -> unit d ->
  0 <= det a b d -> 0 <= det b c d -> 0 <= det c d a -> 0 <= det a b c ->
  det a b c <= det a b d + det b c d + det c d a /\
  det c d a <= det a b d + det b c d + det a b c /\
  det b c d <= det c d a + det a b c + det a b d /\
  det a b d <= det c d a + det a b c + det b c d.
Proof.
  intros Ua Ub Uc Ud D1 D2 D3 D4. repeat split.
  - (* D4 d = D2 a + D1 c - D3 b *)
    pose proof (norm_triangle a c b d (det b c d) (det a b d) (det c d a) (det a b c) Ua Uc Ub Ud D2 D1 D3 D4) as H.
    assert (K : det a b c <= det b c d + det a b d + det c d a) by (apply H; vring). lra.
  - (* D3 b = D2 a + D1 c - D4 d *)
    pose proof (norm_triangle a c d b (det b c d) (det a b d) (det a b c) (det c d a) Ua Uc Ud Ub D2 D1 D4 D3) as H.
    assert (K : det c d a <= det b c d + det a b d + det a b c) by (apply H; vring). lra.
  - (* D2 a = D3 b + D4 d - D1 c *)
    pose proof (norm_triangle b d c a (det c d a) (det a b c) (det a b d) (det b c d) Ub Ud Uc Ua D3 D4 D1 D2) as H.
    assert (K : det b c d <= det c d a + det a b c + det a b d) by (apply H; vring). lra.
  - (* D1 c = D3 b + D4 d - D2 a *)
    pose proof (norm_triangle b d a c (det c d a) (det a b c) (det b c d) (det a b d) Ub Ud Ua Uc D3 D4 D2 D1) as H.
    assert (K : det a b d <= det c d a + det a b c + det b c d) by (apply H; vring). lra.
Qed.

Lemma det_vscale_l s x y z : det (vscale s x) y z = s * det x y z. Proof. vring. Qed.
Lemma det_vscale_m s x y z : det x (vscale s y) z = s * det x y z. Proof. vring. Qed.
Lemma det_vscale_r s x y z : det x y (vscale s z) = s * det x y z. Proof. vring. Qed.

Lemma rmid_unit x y : 0 < norm2 (vadd x y) -> unit (rmid x y).
Proof.
  intros Hn. unfold unit, rmid, smid, inv_norm.
  replace (norm2 (vscale (/ sqrt (norm2 (vadd x y))) (vadd x y)))
    with (/ sqrt (norm2 (vadd x y)) * / sqrt (norm2 (vadd x y)) * norm2 (vadd x y)) by vring.
  set (n := norm2 (vadd x y)) in *.
  assert (Hs : sqrt n * sqrt n = n) by (apply sqrt_sqrt; lra).
  assert (Hp : 0 < sqrt n) by (apply sqrt_lt_R0; assumption).
  rewrite <- Hs at 3. field. lra.
Qed.

Lemma rmid_unit_det x y z : det x y z <> 0 -> unit (rmid x y).
Proof. intros H. apply rmid_unit. eapply norm2_add_pos; eassumption. Qed.

Ltac scale_out :=
  unfold rmid, smid; rewrite ?det_vscale_l, ?det_vscale_m, ?det_vscale_r;
  repeat (apply Rmult_le_pos; [lra|]).

Ltac corner_cand a b c d X :=
  first [ replace X with (det a b d) by vring; lra
        | replace X with (det b c d) by vring; lra
        | replace X with (det c d a) by vring; lra
        | replace X with (det a b c) by vring; lra
        | replace X with (2 * det a b d) by vring; lra
        | replace X with (2 * det b c d) by vring; lra
        | replace X with (2 * det c d a) by vring; lra
        | replace X with (2 * det a b c) by vring; lra
        | replace X with (det a b d + det b c d + det c d a - det a b c) by vring; lra
        | replace X with (det a b d + det b c d + det a b c - det c d a) by vring; lra
        | replace X with (det c d a + det a b c + det a b d - det b c d) by vring; lra
        | replace X with (det c d a + det a b c + det b c d - det a b d) by vring; lra ].

Lemma child_wfQ (t : rtile) ix iy : wfQ t -> (ix < 2)%N -> (iy < 2)%N -> wfQ (rchild t ix iy).
Proof.
  intros Hq Hx Hy.
  assert (HwU : wfU (rchild t ix iy)) by (apply child_wfU; [apply Hq|assumption|assumption]).
  revert HwU.
  destruct (bit_cases _ Hx) as [-> | ->], (bit_cases _ Hy) as [-> | ->];
    destruct t as [pos a b c d inc];
    rewrite ?child_00, ?child_10, ?child_01, ?child_11; unfold wfQ, wfU, ce_of in *; cbn [c_ul c_ur c_lr c_ll incr] in *;
    destruct Hq as (Ua & Ub & Uc & Ud & Hw & D1 & D2 & D3 & D4);
    destruct (corner_dets_bounded a b c d Ua Ub Uc Ud D1 D2 D3 D4) as (B4 & B3 & B2 & B1);
    destruct inc; destruct Hw as (O1 & O2); intros HwU.
  all: try (destruct (tri_scales a b d O1) as (Sbd & Sda & Sab); destruct (tri_scales b c d O2) as (Scd & Sdb & Sbc);
            assert (Ute : unit (rmid a b)) by (apply (rmid_unit_det a b d); lra);
            assert (Uri : unit (rmid b c)) by (apply (rmid_unit_det b c d); lra);
            assert (Ubo : unit (rmid c d)) by (apply (rmid_unit_det c d b); replace (det c d b) with (det b c d) by vring; lra);
            assert (Ule : unit (rmid d a)) by (apply (rmid_unit_det d a b); replace (det d a b) with (det a b d) by vring; lra);
            assert (Uce : unit (rmid d b)) by (apply (rmid_unit_det d b c); replace (det d b c) with (det b c d) by vring; lra)).
  all: try (destruct (tri_scales a b c O1) as (Sbc & Sca & Sab); destruct (tri_scales a c d O2) as (Scd & Sda & Sac);
            assert (Ute : unit (rmid a b)) by (apply (rmid_unit_det a b c); lra);
            assert (Uri : unit (rmid b c)) by (apply (rmid_unit_det b c a); replace (det b c a) with (det a b c) by vring; lra);
            assert (Ubo : unit (rmid c d)) by (apply (rmid_unit_det c d a); replace (det c d a) with (det a c d) by vring; lra);
            assert (Ule : unit (rmid d a)) by (apply (rmid_unit_det d a c); replace (det d a c) with (det a c d) by vring; lra);
            assert (Uce : unit (rmid a c)) by (apply (rmid_unit_det a c d); lra)).
  all: repeat split; try assumption; try apply HwU.
  all: scale_out;
       match goal with |- 0 <= ?X => corner_cand a b c d X end.
Qed.

(* ------------------------------------------------------------------ the point lookup over R *)
(* toast.py:158-170 *)
Definition xyz (lat lon : R) : vec := mkV (cos lon * cos lat) (sin lat) (sin lon * cos lat).

(* toast.py:174-188 / 234-244: sum over the four edges of min(det, 0) *)
Definition rscore (p : vec) (t : rtile) : R :=
  Rmin (det (c_ul t) (c_ur t) p) 0 + Rmin (det (c_ur t) (c_lr t) p) 0 +
  Rmin (det (c_lr t) (c_ll t) p) 0 + Rmin (det (c_ll t) (c_ul t) p) 0.

Lemma Rmin0_le x : Rmin x 0 <= 0.
Proof. apply Rmin_r. Qed.
Lemma Rmin0_zero x : Rmin x 0 = 0 <-> 0 <= x.
Proof.
  unfold Rmin. destruct (Rle_dec x 0); split; intros; lra.
Qed.

Lemma rscore_zero p t : rscore p t = 0 <-> inQ t p.
Proof.
  unfold rscore, inQ.
  pose proof (Rmin0_le (det (c_ul t) (c_ur t) p)). pose proof (Rmin0_le (det (c_ur t) (c_lr t) p)).
  pose proof (Rmin0_le (det (c_lr t) (c_ll t) p)). pose proof (Rmin0_le (det (c_ll t) (c_ul t) p)).
  rewrite <- !Rmin0_zero. split; [intros; repeat split; lra|intros (A & B & C & D); lra].
Qed.

(* float comparisons "== 0.0" and ">" on exact reals *)
Definition is0R (s : R) : bool := if Req_EM_T s 0 then true else false.
Definition gtbR (a b : R) : bool := if Rlt_dec b a then true else false.

Lemma is0R_true s : is0R s = true <-> s = 0.
Proof. unfold is0R. destruct (Req_EM_T s 0); split; intros; try assumption; try reflexivity; try discriminate; contradiction. Qed.

(* toast.py:223-232, the interval of a longitude in [0, 2 pi] *)
Definition quad (l : R) : N :=
  if Rle_dec l (PI / 2) then 0%N
  else if Rle_dec l PI then 1%N
  else if Rlt_dec l (3 * (PI / 2)) then 2%N
  else 3%N.

(* _toast_tile_containment_score(tile, lat, lon): by tile.pos.n.  [l1] is the longitude handed
   to the level-1 test, [p] the point used by the half-space test *)
Definition score_R (l1 : R) (p : vec) (t : rtile) : R :=
  match pn (tpos t) with
  | O => 0
  | S O => if level1_hit_coded (quad l1) t then 0 else -100
  | _ => rscore p t
  end.

(* lon % TWOPI *)
Definition rmod2pi (l : R) : R := l - IZR (Int_part (l / (2 * PI))) * (2 * PI).

Definition shiftR (cs : coordsys) : R := match cs with Astro => 0 | Planet => PI end.

(* toast_tile_for_point as it stands (level-1 test on lon itself) ... *)
Definition lookup_R_coded (cs : coordsys) (depth : nat) (lat lon : R) : option rtile :=
  let l0 := rmod2pi lon in
  lookup rbase rmid is0R gtbR (score_R l0 (xyz lat l0)) cs depth.
(* ... and repaired (fixes/C12-1.patch: level-1 test on (lon + pi) % 2 pi for the planetary system) *)
Definition lookup_R (cs : coordsys) (depth : nat) (lat lon : R) : option rtile :=
  let l0 := rmod2pi lon in
  let l1 := match cs with Astro => l0 | Planet => rmod2pi (l0 + PI) end in
  lookup rbase rmid is0R gtbR (score_R l1 (xyz lat l0)) cs depth.

Lemma rmod2pi_range l : 0 <= rmod2pi l < 2 * PI.
Proof.
  unfold rmod2pi. pose proof PI_RGT_0 as Hpi.
  destruct (base_Int_part (l / (2 * PI))) as (H1 & H2).
  assert (E : l = l / (2 * PI) * (2 * PI)) by (field; lra).
  set (k := IZR (Int_part (l / (2 * PI)))) in *. set (q := l / (2 * PI)) in *.
  split; rewrite E at 1; nra.
Qed.

Lemma Int_part_unique r z : r - 1 < IZR z <= r -> z = Int_part r.
Proof.
  intros (H1 & H2). unfold Int_part.
  assert (E : (z + 1)%Z = up r) by (apply tech_up; rewrite plus_IZR; lra). lia.
Qed.

Lemma rmod2pi_period l (k : Z) : rmod2pi (l + IZR k * (2 * PI)) = rmod2pi l.
Proof.
  unfold rmod2pi. pose proof PI_RGT_0 as Hpi.
  replace ((l + IZR k * (2 * PI)) / (2 * PI)) with (l / (2 * PI) + IZR k) by (field; lra).
  assert (E : Int_part (l / (2 * PI) + IZR k) = (Int_part (l / (2 * PI)) + k)%Z).
  { symmetry. apply Int_part_unique. rewrite plus_IZR.
    destruct (base_Int_part (l / (2 * PI))) as (H1 & H2). lra. }
  rewrite E, plus_IZR. ring.
Qed.

(* zero-score children are found *)
Lemma pick_child_finds_zero (score : rtile -> R) : forall l best cur,
  (exists c, In c l /\ is0R (score c) = true) ->
  is0R (score (pick_child is0R gtbR score l best cur)) = true.
Proof.
  induction l as [|c l IH]; intros best cur (c0 & Hin & Hz); [destruct Hin|].
  cbn [pick_child]. destruct (is0R (score c)) eqn:E; [assumption|].
  destruct Hin as [<-|Hin]; [congruence|].
  destruct best as [bs|]; [destruct (gtbR (score c) bs)|]; apply IH; exists c0; auto.
Qed.

(* ---- the descent keeps the point inside (exact arithmetic) *)
Definition Jinv (p : vec) (t : rtile) : Prop := wfQ t /\ inU t p /\ (1 <= pn (tpos t))%nat.

Lemma score_R_deep l1 p (t : rtile) : (2 <= pn (tpos t))%nat -> score_R l1 p t = rscore p t.
Proof. unfold score_R. destruct (pn (tpos t)) as [|[|n]]; intros; try lia; reflexivity. Qed.

Lemma descent_step l1 p (t : rtile) : Jinv p t ->
  Jinv p (pick_child is0R gtbR (score_R l1 p) (div4 rmid t) None t).
Proof.
  intros (Hq & Hin & Hn).
  assert (Hex : exists c, In c (div4 rmid t) /\ is0R (score_R l1 p c) = true).
  { pose proof (children_cover t p (proj1 (proj2 (proj2 (proj2 (proj2 Hq))))) Hin) as Hc.
    assert (F : forall ix iy, (ix < 2)%N -> (iy < 2)%N -> inU (rchild t ix iy) p ->
                exists c, In c (div4 rmid t) /\ is0R (score_R l1 p c) = true).
    { intros ix iy Hx Hy K. exists (rchild t ix iy). split; [apply child_in; assumption|].
      apply is0R_true. rewrite score_R_deep by (rewrite child_pos by assumption; cbn [pn]; lia).
      apply rscore_zero. apply inU_inQ; [apply child_wfQ; assumption|assumption]. }
    destruct Hc as [K|[K|[K|K]]]; eapply F; try eassumption; lia. }
  pose proof (pick_child_finds_zero (score_R l1 p) (div4 rmid t) None t Hex) as Hz.
  destruct (in_div4 vec rmid _ _ (pick_step_in vec rmid R is0R gtbR (score_R l1 p) t)) as (ix & iy & Hx & Hy & E).
  rewrite E in *. unfold Jinv. split; [apply child_wfQ; assumption|]. split.
  - apply inQ_inU. apply rscore_zero. rewrite <- (score_R_deep l1) by (rewrite child_pos by assumption; cbn [pn]; lia).
    apply is0R_true. assumption.
  - rewrite child_pos by assumption. cbn [pn]. lia.
Qed.

Lemma descent_all l1 p : forall d (t : rtile), Jinv p t ->
  Jinv p (lookup_desc rmid is0R gtbR (score_R l1 p) d t).
Proof.
  induction d as [|d IH]; intros t Ht; cbn [lookup_desc]; [assumption|].
  apply IH. apply descent_step. assumption.
Qed.

(* ---- level 1 *)
Lemma is0R_0 : is0R 0 = true.
Proof. apply is0R_true. reflexivity. Qed.
Lemma is0R_m100 : is0R (-100) = false.
Proof. unfold is0R. destruct (Req_EM_T (-100) 0); [lra|reflexivity]. Qed.

Lemma level1_pick_R cs l1 p :
  pick_first0 is0R (score_R l1 p) (level1 rbase cs) (l1_default rbase cs) = level1_pick rbase cs (quad l1).
Proof.
  unfold level1_pick, level1. cbn [pick_first0]. unfold score_R; cbn [tpos pn].
  repeat match goal with
         | |- context [level1_hit_coded ?q ?t] =>
             destruct (level1_hit_coded q t); rewrite ?is0R_0, ?is0R_m100; try reflexivity
         end.
Qed.

Definition sgn_ok (q : N) (X Z : R) : Prop :=
  match q with
  | 0%N => 0 <= X /\ 0 <= Z
  | 1%N => X <= 0 /\ 0 <= Z
  | 2%N => X <= 0 /\ Z <= 0
  | _ => 0 <= X /\ Z <= 0
  end.

Lemma level1_wfQ cs q : (q < 4)%N -> wfQ (level1_pick rbase cs q) /\ pn (tpos (level1_pick rbase cs q)) = 1%nat.
Proof.
  intros Hq. assert (q = 0 \/ q = 1 \/ q = 2 \/ q = 3)%N as [-> | [-> | [-> | ->]]] by lia; destruct cs;
    (split; [|reflexivity]); rcompute; repeat split; lra.
Qed.

Lemma level1_pick_contains cs q X Y Z : (q < 4)%N ->
  sgn_ok ((q + lshift cs) mod 4)%N X Z -> inU (level1_pick rbase cs q) (mkV X Y Z).
Proof.
  intros Hq. assert (q = 0 \/ q = 1 \/ q = 2 \/ q = 3)%N as [-> | [-> | [-> | ->]]] by lia; destruct cs;
    rcompute; intros (H1 & H2); destruct (Rle_or_lt 0 Y);
    first [left; repeat split; lra | right; repeat split; lra].
Qed.

Lemma quad_lt4 l : (quad l < 4)%N.
Proof. unfold quad. destruct (Rle_dec l (PI / 2)), (Rle_dec l PI), (Rlt_dec l (3 * (PI / 2))); lia. Qed.

Lemma quad_signs l : 0 <= l < 2 * PI -> sgn_ok (quad l) (cos l) (sin l).
Proof.
  intros (H0 & H2). pose proof PI_RGT_0 as Hpi. unfold quad, sgn_ok.
  destruct (Rle_dec l (PI / 2)) as [A|A].
  - split; [apply cos_ge_0; lra|apply sin_ge_0; lra].
  - destruct (Rle_dec l PI) as [B|B].
    + split; [apply cos_le_0; lra|apply sin_ge_0; lra].
    + destruct (Rlt_dec l (3 * (PI / 2))) as [C|C].
      * split; [apply cos_le_0; lra|apply sin_le_0; lra].
      * split; [apply cos_ge_0_3PI2; lra|apply sin_le_0; lra].
Qed.

(* periodicity of cos and sin over integer multiples of 2 pi *)
Lemma cos_sin_period_Z x (k : Z) : cos (x + IZR k * (2 * PI)) = cos x /\ sin (x + IZR k * (2 * PI)) = sin x.
Proof.
  destruct (Z_le_gt_dec 0 k) as [Hk|Hk].
  - rewrite <- (Z2Nat.id k Hk), <- INR_IZR_INZ.
    replace (x + INR (Z.to_nat k) * (2 * PI)) with (x + 2 * INR (Z.to_nat k) * PI) by ring.
    split; [apply cos_period|apply sin_period].
  - assert (Hk' : (0 <= - k)%Z) by lia.
    set (y := x + IZR k * (2 * PI)).
    replace x with (y + 2 * INR (Z.to_nat (- k)) * PI).
    + rewrite cos_period, sin_period. split; reflexivity.
    + unfold y. rewrite INR_IZR_INZ, (Z2Nat.id _ Hk'), opp_IZR. ring.
Qed.

Lemma rmod2pi_trig l : cos (rmod2pi l) = cos l /\ sin (rmod2pi l) = sin l.
Proof.
  unfold rmod2pi.
  replace (l - IZR (Int_part (l / (2 * PI))) * (2 * PI)) with (l + IZR (- Int_part (l / (2 * PI))) * (2 * PI))
    by (rewrite opp_IZR; ring).
  apply cos_sin_period_Z.
Qed.

Lemma xyz_rmod lat lon : xyz lat (rmod2pi lon) = xyz lat lon.
Proof. unfold xyz. destruct (rmod2pi_trig lon) as (-> & ->). reflexivity. Qed.

Lemma level1_contains cs lat lon : - (PI / 2) <= lat <= PI / 2 ->
  let l0 := rmod2pi lon in
  let l1 := match cs with Astro => l0 | Planet => rmod2pi (l0 + PI) end in
  inU (level1_pick rbase cs (quad l1)) (xyz lat l0).
Proof.
  intros Hlat l0 l1. pose proof (rmod2pi_range lon) as R0. fold l0 in R0.
  assert (Cl : 0 <= cos lat) by (apply cos_ge_0; lra).
  unfold xyz. apply level1_pick_contains; [apply quad_lt4|].
  destruct cs; unfold l1, lshift.
  - rewrite N.add_0_r, N.mod_small by apply quad_lt4.
    pose proof (quad_signs l0 R0) as S. unfold sgn_ok in *.
    destruct (quad l0) as [|[[|[]|]|[|[]|]|]]; destruct S; split; nra.
  - pose proof (rmod2pi_range (l0 + PI)) as R1. pose proof (quad_signs _ R1) as S.
    destruct (rmod2pi_trig (l0 + PI)) as (Ec & Es). rewrite Ec, Es, neg_cos, neg_sin in S.
    pose proof (quad_lt4 (rmod2pi (l0 + PI))) as Hq. unfold sgn_ok in *.
    set (q := quad (rmod2pi (l0 + PI))) in *.
    assert (q = 0 \/ q = 1 \/ q = 2 \/ q = 3)%N as [E | [E | [E | E]]] by lia; rewrite E in *;
      cbn in S |- *; destruct S; split; nra.
Qed.

(* ---- C12, real layer: the repaired lookup returns a tile that contains the point *)
Theorem lookup_contains_R cs depth lat lon t :
  - (PI / 2) <= lat <= PI / 2 ->
  lookup_R cs depth lat lon = Some t ->
  inU t (xyz lat lon) /\ inQ t (xyz lat lon) /\ pn (tpos t) = depth.
Proof.
  intros Hlat. unfold lookup_R, lookup. destruct depth as [|d]; [discriminate|].
  set (l0 := rmod2pi lon). set (l1 := match cs with Astro => l0 | Planet => rmod2pi (l0 + PI) end).
  intros H. apply (f_equal (fun o => match o with Some x => x | None => t end)) in H. cbv beta iota in H. subst t.
  rewrite level1_pick_R. rewrite <- (xyz_rmod lat lon). fold l0.
  destruct (level1_wfQ cs (quad l1) (quad_lt4 l1)) as (Hq & Hn).
  assert (J1 : Jinv (xyz lat l0) (level1_pick rbase cs (quad l1))).
  { split; [assumption|]. split; [apply (level1_contains cs lat lon Hlat)|lia]. }
  pose proof (descent_all l1 (xyz lat l0) d _ J1) as (Jq & Ju & Jn).
  split; [assumption|]. split; [apply inU_inQ; assumption|].
  pose proof (lookup_desc_good vec rbase rmid R is0R gtbR (score_R l1 (xyz lat l0)) cs d
                (level1_pick rbase cs (quad l1))) as G.
  assert (Hg : good vec rbase rmid cs (level1_pick rbase cs (quad l1))).
  { pose proof (quad_lt4 l1) as Hlt. set (q := quad l1) in *.
    assert (q = 0 \/ q = 1 \/ q = 2 \/ q = 3)%N as [E | [E | [E | E]]] by lia; rewrite E;
      apply (good_level1 vec rbase rmid cs); destruct cs; cbn; auto. }
  destruct (G Hg) as (_ & G2). rewrite G2, Hn. reflexivity.
Qed.

(* longitudes differing by a multiple of 2 pi give the same answer *)
Theorem lookup_periodic_R cs depth lat lon (k : Z) :
  lookup_R cs depth lat (lon + IZR k * (2 * PI)) = lookup_R cs depth lat lon.
Proof. unfold lookup_R. rewrite rmod2pi_period. reflexivity. Qed.

Lemma rmod2pi_id l : 0 <= l < 2 * PI -> rmod2pi l = l.
Proof.
  intros (H0 & H2). pose proof PI_RGT_0 as Hpi. unfold rmod2pi.
  assert (E : 0%Z = Int_part (l / (2 * PI))).
  { apply Int_part_unique. cbn [IZR]. split.
    - assert (l / (2 * PI) < 1); [|lra]. apply (Rmult_lt_reg_r (2 * PI)); [lra|]. unfold Rdiv.
      rewrite Rmult_assoc, Rinv_l by lra. lra.
    - apply Rmult_le_pos; [lra|]. left. apply Rinv_0_lt_compat. lra. }
  rewrite <- E. cbn [IZR]. ring.
Qed.

(* F4: the lookup as coded (level-1 test on lon itself) returns, for the planetary system, a
   tile that does not contain the point -- witness lat = 0, lon = pi/4, depth 1 *)
Theorem lookup_planetary_refuted_R :
  exists lat lon depth t, - (PI / 2) <= lat <= PI / 2 /\
    lookup_R_coded Planet depth lat lon = Some t /\ ~ inU t (xyz lat lon).
Proof.
  pose proof PI_RGT_0 as Hpi.
  exists 0, (PI / 4), 1%nat, (level1_pick rbase Planet 0). split; [lra|]. split.
  - unfold lookup_R_coded, lookup. cbn [lookup_desc]. rewrite level1_pick_R.
    rewrite rmod2pi_id by lra.
    replace (quad (PI / 4)) with 0%N; [reflexivity|].
    unfold quad. destruct (Rle_dec (PI / 4) (PI / 2)); [reflexivity|lra].
  - unfold xyz. rewrite cos_0, sin_0, cos_PI4, sin_PI4.
    assert (Hs : 0 < 1 / sqrt 2).
    { apply Rdiv_lt_0_compat; [lra|]. apply sqrt_lt_R0. lra. }
    generalize dependent (1 / sqrt 2). intros s Hs. clear Hpi. rcompute.
    intros [(H1 & H2 & H3)|(H1 & H2 & H3)]; lra.
Qed.

(* ... while for the astronomical system the coded and the repaired lookups coincide *)
Theorem lookup_coded_astronomical depth lat lon :
  lookup_R_coded Astro depth lat lon = lookup_R Astro depth lat lon.
Proof. reflexivity. Qed.

(* ---- C05 latitude clause, the half that is proved: spherical caps smaller than a hemisphere
   are convex, so a tile whose corners lie in the cap { v | e.v >= m }, m >= 0, has all its
   pixel centres (and all lattice points of all depths) in that cap.  With e = (0, 1, 0) and
   e = (0, -1, 0): a tile lying in one hemisphere has |sin lat| of every pixel centre at least
   the minimum of |sin lat| over its corners (the EQUATORWARD bound).  The poleward bound
   (pixel latitude <= max corner latitude) is NOT proved here. *)
Lemma mid_cap_bound e x y m : unit x -> unit y -> 0 < norm2 (vadd x y) -> 0 <= m ->
  m <= dot e x -> m <= dot e y -> m <= dot e (rmid x y).
Proof.
  intros Ux Uy Hn Hm Hx Hy.
  assert (E : dot e (rmid x y) = (dot e x + dot e y) * / sqrt (norm2 (vadd x y))) by (unfold rmid, inv_norm; vring).
  rewrite E. set (n := norm2 (vadd x y)) in *.
  assert (Hn4 : n <= 4).
  { destruct (unit_dot_le x y Ux Uy) as (B & _). unfold n. unfold unit in *.
    replace (norm2 (vadd x y)) with (norm2 x + norm2 y + 2 * dot x y) by vring. lra. }
  assert (Hs2 : sqrt n <= 2).
  { replace 2 with (sqrt (2 * 2)) by (apply sqrt_square; lra). apply sqrt_le_1_alt. lra. }
  assert (Hs0 : 0 < sqrt n) by (apply sqrt_lt_R0; assumption).
  assert (Hi : / 2 <= / sqrt n) by (apply Rinv_le_contravar; assumption).
  assert (Hsum : 2 * m <= dot e x + dot e y) by lra.
  assert (0 < / sqrt n) by (apply Rinv_0_lt_compat; assumption).
  nra.
Qed.

Definition in_cap (e : vec) (m : R) (t : rtile) : Prop :=
  wfU t /\ (unit (c_ul t) /\ unit (c_ur t) /\ unit (c_lr t) /\ unit (c_ll t)) /\
  (m <= dot e (c_ul t) /\ m <= dot e (c_ur t) /\ m <= dot e (c_lr t) /\ m <= dot e (c_ll t)).

Lemma in_cap_child e m (t : rtile) ix iy : 0 <= m -> in_cap e m t -> (ix < 2)%N -> (iy < 2)%N ->
  in_cap e m (rchild t ix iy).
Proof.
  intros Hm (Hw & (Ua & Ub & Uc & Ud) & (Ma & Mb & Mc & Md)) Hx Hy.
  assert (HwU : wfU (rchild t ix iy)) by (apply child_wfU; assumption).
  revert HwU.
  destruct (bit_cases _ Hx) as [-> | ->], (bit_cases _ Hy) as [-> | ->];
    destruct t as [pos a b c d inc];
    rewrite ?child_00, ?child_10, ?child_01, ?child_11; unfold in_cap, wfU, ce_of in *; cbn [c_ul c_ur c_lr c_ll incr] in *;
    destruct inc; destruct Hw as (O1 & O2); intros HwU.
  all: try (assert (Nab : 0 < norm2 (vadd a b)) by (apply (norm2_add_pos a b d); lra);
            assert (Nbc : 0 < norm2 (vadd b c)) by (apply (norm2_add_pos b c d); lra);
            assert (Ncd : 0 < norm2 (vadd c d)) by (apply (norm2_add_pos c d b); replace (det c d b) with (det b c d) by vring; lra);
            assert (Nda : 0 < norm2 (vadd d a)) by (apply (norm2_add_pos d a b); replace (det d a b) with (det a b d) by vring; lra);
            assert (Nce : 0 < norm2 (vadd d b)) by (apply (norm2_add_pos d b c); replace (det d b c) with (det b c d) by vring; lra)).
  all: try (assert (Nab : 0 < norm2 (vadd a b)) by (apply (norm2_add_pos a b c); lra);
            assert (Nbc : 0 < norm2 (vadd b c)) by (apply (norm2_add_pos b c a); replace (det b c a) with (det a b c) by vring; lra);
            assert (Ncd : 0 < norm2 (vadd c d)) by (apply (norm2_add_pos c d a); replace (det c d a) with (det a c d) by vring; lra);
            assert (Nda : 0 < norm2 (vadd d a)) by (apply (norm2_add_pos d a c); replace (det d a c) with (det a c d) by vring; lra);
            assert (Nce : 0 < norm2 (vadd a c)) by (apply (norm2_add_pos a c d); lra)).
  all: repeat split; try assumption; try apply HwU; try (apply rmid_unit; assumption);
       try (apply mid_cap_bound; assumption).
Qed.

Lemma in_cap_desc e m (t : rtile) : 0 <= m -> in_cap e m t -> forall k x y, in_cap e m (desc rmid t k x y).
Proof.
  intros Hm Hc. induction k as [|k IH]; intros x y; cbn [desc]; [assumption|].
  apply in_cap_child; [assumption|apply IH|apply N.mod_lt; lia|apply N.mod_lt; lia].
Qed.

Theorem cap_bound_centres e m (t : rtile) k x y : 0 <= m -> in_cap e m t ->
  m <= dot e (centre rmid (desc rmid t k x y)).
Proof.
  intros Hm Hc. pose proof (in_cap_desc e m t Hm Hc k x y) as Hd.
  destruct (desc rmid t k x y) as [pos a b c d inc].
  destruct Hd as (Hw & (Ua & Ub & Uc & Ud) & (Ma & Mb & Mc & Md)).
  unfold centre, wfU in *; cbn [c_ul c_ur c_lr c_ll incr] in *. destruct inc; destruct Hw as (O1 & O2).
  - apply mid_cap_bound; try assumption.
    apply (norm2_add_pos d b c). replace (det d b c) with (det b c d) by vring. lra.
  - apply mid_cap_bound; try assumption.
    apply (norm2_add_pos a c d). lra.
Qed.

(* every tile of the pyramid has unit corners *)
Lemma units_all cs : forall m x y, (x < 2 ^ N.of_nat (S m))%N -> (y < 2 ^ N.of_nat (S m))%N ->
  let t := rtile_at1 cs m x y in unit (c_ul t) /\ unit (c_ur t) /\ unit (c_lr t) /\ unit (c_ll t).
Proof.
  intros m x y Hx Hy.
  assert (Hq : wfQ (rtile_at1 cs m x y)).
  { revert x y Hx Hy. induction m as [|m IH]; intros x y Hx Hy.
    - change (2 ^ N.of_nat 1)%N with 2%N in *.
      destruct (bit_cases _ Hx) as [-> | ->], (bit_cases _ Hy) as [-> | ->]; destruct cs; rcompute; repeat split; lra.
    - rewrite pow2_S in Hx, Hy. cbn [tile_at1].
      apply child_wfQ; [|apply N.mod_lt; lia|apply N.mod_lt; lia].
      apply IH; apply N.div_lt_upper_bound; lia. }
  destruct Hq as (A & B & C & D & _). auto.
Qed.

(* sin(latitude) of a direction is its y coordinate (xyz above).  Equatorward latitude bound for
   the pixel centres of toast_tile_get_coords, northern and southern form. *)
Theorem pixel_lat_equatorward cs p i j (m : R) :
  valid p = true -> (1 <= pn p)%nat -> (i < 256)%N -> (j < 256)%N -> 0 <= m ->
  let t := rtile_at cs p in
  let px := eval (tile_coords Mid (tile_at Base Mid cs p) i j) in
  (m <= vy (c_ul t) /\ m <= vy (c_ur t) /\ m <= vy (c_lr t) /\ m <= vy (c_ll t) -> m <= vy px) /\
  (vy (c_ul t) <= - m /\ vy (c_ur t) <= - m /\ vy (c_lr t) <= - m /\ vy (c_ll t) <= - m -> vy px <= - m).
Proof.
  intros Hv Hn Hi Hj Hm t px.
  assert (Hw : wfU t /\ (unit (c_ul t) /\ unit (c_ur t) /\ unit (c_lr t) /\ unit (c_ll t))).
  { unfold t, tile_at. destruct p as [n x y]; cbn [pn Quadtree.px py] in *. destruct n as [|k]; [lia|]. cbn [pred].
    apply valid_iff in Hv; cbn [pn Quadtree.px py] in Hv. split; [apply wf_all; tauto|apply units_all; tauto]. }
  assert (Epx : px = centre rmid (desc rmid t 8 j i)).
  { unfold px. rewrite pixel_is_centre_real by assumption.
    change 256%N with (2 ^ N.of_nat 8)%N in *. unfold t.
    rewrite (tile_at_desc vec rbase rmid cs p 8 j i Hn Hj Hi). reflexivity. }
  rewrite Epx. destruct Hw as (Hw & Hu). split; intros (Ma & Mb & Mc & Md).
  - pose proof (cap_bound_centres (mkV 0 1 0) m t 8 j i Hm) as B.
    assert (Ey : forall v, dot (mkV 0 1 0) v = vy v) by (intros; unfold dot; cbn [vx vy vz]; ring).
    rewrite Ey in B. apply B. unfold in_cap. rewrite !Ey. tauto.
  - pose proof (cap_bound_centres (mkV 0 (-1) 0) m t 8 j i Hm) as B.
    assert (Ey : forall v, dot (mkV 0 (-1) 0) v = - vy v) by (intros; unfold dot; cbn [vx vy vz]; ring).
    rewrite Ey in B. assert (m <= - vy (centre rmid (desc rmid t 8 j i))); [|lra].
    apply B. unfold in_cap. rewrite !Ey. repeat split; try tauto; lra.
Qed.

Lemma inQ_iff_inU (t : rtile) p : wfQ t -> (inQ t p <-> inU t p).
Proof. intros Hq. split; [apply inQ_inU|apply inU_inQ; exact Hq]. Qed.

(* the diamond of Properties.C04.diamond_is_equator really is the equator: y = sin(lat) = 0 *)
Lemma equatorial_y0 p : equatorial p = true -> vy (eval p) = 0.
Proof.
  induction p as [k|a IHa b IHb]; cbn [equatorial eval].
  - intros H. apply N.ltb_lt in H.
    assert (k = 0 \/ k = 1 \/ k = 2 \/ k = 3)%N as [-> | [-> | [-> | ->]]] by lia; reflexivity.
  - intros H. apply andb_true_iff in H. destruct H as (Ha & Hb).
    unfold rmid, smid, vscale, vadd; cbn [vy]. rewrite (IHa Ha), (IHb Hb). ring.
Qed.
