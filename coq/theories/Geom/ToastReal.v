(* L-real, part 2: the generic TOAST model (Model/ToastTerm.v) instantiated at unit vectors
   of R^3 with mid = normalised sum; tiles as unions of two spherical triangles (cones);
   cover / nesting / disjoint interiors at every depth by induction from the one-step HTM
   lemmas of Geom/Cone.v; centres; the point lookup with exact arithmetic.  Not executable. *)
From Coq Require Import Reals Lra Psatz List NArith Arith Bool Lia.
From Toasty Require Import Model.Quadtree Model.ToastTerm Proofs.ToastTermP Geom.Cone.
Import ListNotations.
Local Open Scope R_scope.

(* ------------------------------------------------------------------ the real instance *)
Definition inv_norm (v : vec) : R := / sqrt (norm2 v).
(* _libtoasty.pyx _mid: the great-circle midpoint = the normalised sum (validated numerically
   against the libm code by the harness, not proved) *)
Definition rmid (a b : vec) : vec := smid (inv_norm (vadd a b)) a b.

(* toast.py:158-170 _equ_to_xyz: (cos lon cos lat, sin lat, sin lon cos lat) at the level-1 vertices *)
Definition rbase (k : N) : vec :=
  match (k / 4)%N with
  | 0%N => match (k mod 4)%N with
           | 0%N => mkV 1 0 0 | 1%N => mkV 0 0 1 | 2%N => mkV (-1) 0 0 | _ => mkV 0 0 (-1)
           end
  | 1%N => mkV 0 1 0
  | _ => mkV 0 (-1) 0
  end.

Fixpoint eval (p : pt) : vec :=
  match p with Base k => rbase k | Mid a b => rmid (eval a) (eval b) end.

Notation rtile := (gtile vec).
Notation rtile_at := (tile_at rbase rmid).
Notation rtile_at1 := (tile_at1 rbase rmid).
Notation rchild := (child rmid).

(* the real tile of a position is the evaluation of the term tile *)
Theorem eval_tile_at cs p :
  gmap pt vec eval (tile_at Base Mid cs p) = rtile_at cs p.
Proof. exact (gmap_tile_at pt vec Base Mid rbase rmid eval (fun k => eq_refl) (fun a b => eq_refl) cs p). Qed.

(* a tile is the union of the two triangles along its diagonal (toast.py:129-155) *)
Definition inU (t : rtile) (p : vec) : Prop :=
  if incr t then inT (c_ul t) (c_ur t) (c_ll t) p \/ inT (c_ur t) (c_lr t) (c_ll t) p
  else inT (c_ul t) (c_ur t) (c_lr t) p \/ inT (c_ul t) (c_lr t) (c_ll t) p.
(* its interior, less the open diagonal *)
Definition intU (t : rtile) (p : vec) : Prop :=
  if incr t then inTs (c_ul t) (c_ur t) (c_ll t) p \/ inTs (c_ur t) (c_lr t) (c_ll t) p
  else inTs (c_ul t) (c_ur t) (c_lr t) p \/ inTs (c_ul t) (c_lr t) (c_ll t) p.
(* both triangles counter-clockwise *)
Definition wfU (t : rtile) : Prop :=
  if incr t then 0 < det (c_ul t) (c_ur t) (c_ll t) /\ 0 < det (c_ur t) (c_lr t) (c_ll t)
  else 0 < det (c_ul t) (c_ur t) (c_lr t) /\ 0 < det (c_ul t) (c_lr t) (c_ll t).

(* ------------------------------------------------------------------ scale factors *)
Lemma norm2_add_pos a b x : det a b x <> 0 -> 0 < norm2 (vadd a b).
Proof.
  intros Hd. unfold norm2, dot, vadd; cbn [vx vy vz].
  destruct (Rlt_or_le 0 ((vx a + vx b) * (vx a + vx b) + (vy a + vy b) * (vy a + vy b) + (vz a + vz b) * (vz a + vz b)))
    as [|Hle]; [assumption|exfalso].
  set (u := vx a + vx b) in *. set (v := vy a + vy b) in *. set (w := vz a + vz b) in *.
  pose proof (Rle_0_sqr u) as Hu. pose proof (Rle_0_sqr v) as Hv. pose proof (Rle_0_sqr w) as Hw.
  unfold Rsqr in Hu, Hv, Hw.
  assert (E1 : u = 0) by (assert (Z : u * u = 0) by lra; apply Rmult_integral in Z; tauto).
  assert (E2 : v = 0) by (assert (Z : v * v = 0) by lra; apply Rmult_integral in Z; tauto).
  assert (E3 : w = 0) by (assert (Z : w * w = 0) by lra; apply Rmult_integral in Z; tauto).
  unfold u, v, w in E1, E2, E3.
  apply Hd. unfold det, dot, cross; cbn [vx vy vz].
  replace (vx a) with (- vx b) by lra. replace (vy a) with (- vy b) by lra. replace (vz a) with (- vz b) by lra. ring.
Qed.

Lemma inv_norm_pos a b x : det a b x <> 0 -> 0 < inv_norm (vadd a b).
Proof.
  intros H. unfold inv_norm. apply Rinv_0_lt_compat, sqrt_lt_R0. eapply norm2_add_pos; eassumption.
Qed.

Lemma rmid_comm a b : rmid a b = rmid b a.
Proof.
  unfold rmid, smid. replace (vadd b a) with (vadd a b); [reflexivity|].
  unfold vadd; f_equal; ring.
Qed.

(* positivity of the three scale factors of a positively oriented triangle *)
Lemma tri_scales a b c : 0 < det a b c ->
  0 < inv_norm (vadd b c) /\ 0 < inv_norm (vadd c a) /\ 0 < inv_norm (vadd a b).
Proof.
  intros H. repeat split.
  - apply (inv_norm_pos b c a). rewrite <- det_cyc. lra.
  - apply (inv_norm_pos c a b). rewrite det_cyc. lra.
  - apply (inv_norm_pos a b c). lra.
Qed.

(* the four HTM children of (a, b, c) with the normalised midpoints *)
Section HTMr.
  Variables a b c : vec.
  Hypothesis Hor : 0 < det a b c.
  Let w0 := rmid b c.
  Let w1 := rmid c a.
  Let w2 := rmid a b.

  Lemma r_cover p : inT a b c p ->
    inT a w2 w1 p \/ inT b w0 w2 p \/ inT c w1 w0 p \/ inT w0 w1 w2 p.
  Proof.
    destruct (tri_scales a b c Hor) as (S0 & S1 & S2).
    exact (tri_cover a b c _ _ _ S0 S1 S2 p).
  Qed.

  Lemma r_orient : 0 < det a w2 w1 /\ 0 < det b w0 w2 /\ 0 < det c w1 w0 /\ 0 < det w0 w1 w2.
  Proof.
    destruct (tri_scales a b c Hor) as (S0 & S1 & S2).
    exact (orientation_preserved a b c _ _ _ S0 S1 S2 Hor).
  Qed.

  Lemma r_inside p :
    (inT a w2 w1 p -> inT a b c p) /\ (inT b w0 w2 p -> inT a b c p) /\
    (inT c w1 w0 p -> inT a b c p) /\ (inT w0 w1 w2 p -> inT a b c p).
  Proof.
    destruct (tri_scales a b c Hor) as (S0 & S1 & S2).
    exact (tri_children_inside a b c _ _ _ S0 S1 S2 Hor p).
  Qed.

  Lemma r_strict p :
    (inTs a w2 w1 p -> inTs a b c p) /\ (inTs b w0 w2 p -> inTs a b c p) /\
    (inTs c w1 w0 p -> inTs a b c p) /\ (inTs w0 w1 w2 p -> inTs a b c p).
  Proof.
    destruct (tri_scales a b c Hor) as (S0 & S1 & S2).
    exact (tri_strict_inside a b c _ _ _ S0 S1 S2 Hor p).
  Qed.

  Lemma r_disjoint p :
    ~ (inTs a w2 w1 p /\ inTs b w0 w2 p) /\ ~ (inTs a w2 w1 p /\ inTs c w1 w0 p) /\
    ~ (inTs b w0 w2 p /\ inTs c w1 w0 p) /\
    ~ (inTs a w2 w1 p /\ inTs w0 w1 w2 p) /\ ~ (inTs b w0 w2 p /\ inTs w0 w1 w2 p) /\
    ~ (inTs c w1 w0 p /\ inTs w0 w1 w2 p).
  Proof.
    destruct (tri_scales a b c Hor) as (S0 & S1 & S2).
    exact (tri_interiors_disjoint a b c _ _ _ S0 S1 S2 Hor p).
  Qed.
End HTMr.

(* ------------------------------------------------------------------ one _div4 step on tiles *)
Ltac rot_asm :=
  first [ assumption | apply inT_rot; assumption | apply inT_rot, inT_rot; assumption ].
Ltac pick_tri := first [ left; rot_asm | right; rot_asm ].
Ltac pick_child4 :=
  first [ left; pick_tri | right; left; pick_tri | right; right; left; pick_tri | right; right; right; pick_tri ].

Lemma children_cover (t : rtile) p : wfU t -> inU t p ->
  inU (rchild t 0 0) p \/ inU (rchild t 1 0) p \/ inU (rchild t 0 1) p \/ inU (rchild t 1 1) p.
Proof.
  destruct t as [pos a b c d inc].
  rewrite child_00, child_10, child_01, child_11. unfold inU, wfU, ce_of; cbn [c_ul c_ur c_lr c_ll incr].
  destruct inc; intros (O1 & O2) [H|H].
  - rewrite (rmid_comm d b).
    destruct (r_cover a b d O1 p H) as [K|[K|[K|K]]]; pick_child4.
  - destruct (r_cover b c d O2 p H) as [K|[K|[K|K]]]; pick_child4.
  - rewrite (rmid_comm a c).
    destruct (r_cover a b c O1 p H) as [K|[K|[K|K]]]; pick_child4.
  - destruct (r_cover a c d O2 p H) as [K|[K|[K|K]]]; pick_child4.
Qed.

Ltac use4 L :=
  first [ apply (proj1 L); rot_asm | apply (proj1 (proj2 L)); rot_asm
        | apply (proj1 (proj2 (proj2 L))); rot_asm | apply (proj2 (proj2 (proj2 L))); rot_asm ].

Lemma child_inside (t : rtile) ix iy p : wfU t -> (ix < 2)%N -> (iy < 2)%N ->
  inU (rchild t ix iy) p -> inU t p.
Proof.
  intros Hw Hx Hy. destruct (bit_cases _ Hx) as [-> | ->], (bit_cases _ Hy) as [-> | ->];
    destruct t as [pos a b c d inc];
    rewrite ?child_00, ?child_10, ?child_01, ?child_11; unfold inU, wfU, ce_of in *; cbn [c_ul c_ur c_lr c_ll incr] in *;
    destruct inc; destruct Hw as (O1 & O2); intros [H|H].
  all: first [ left; rewrite ?(rmid_comm d b), ?(rmid_comm a c) in H;
               first [ use4 (r_inside a b d O1 p) | use4 (r_inside a b c O1 p) ]
             | right; first [ use4 (r_inside b c d O2 p) | use4 (r_inside a c d O2 p) ] ].
Qed.

Ltac rot_s :=
  first [ assumption | apply inTs_rot; assumption | apply inTs_rot, inTs_rot; assumption ].
Ltac use4s L :=
  first [ apply (proj1 L); rot_s | apply (proj1 (proj2 L)); rot_s
        | apply (proj1 (proj2 (proj2 L))); rot_s | apply (proj2 (proj2 (proj2 L))); rot_s ].
Ltac cyc_asm :=
  first [ assumption | rewrite det_cyc; assumption | rewrite <- det_cyc; assumption ].

Lemma child_strict (t : rtile) ix iy p : wfU t -> (ix < 2)%N -> (iy < 2)%N ->
  intU (rchild t ix iy) p -> intU t p.
Proof.
  intros Hw Hx Hy. destruct (bit_cases _ Hx) as [-> | ->], (bit_cases _ Hy) as [-> | ->];
    destruct t as [pos a b c d inc];
    rewrite ?child_00, ?child_10, ?child_01, ?child_11; unfold intU, wfU, ce_of in *; cbn [c_ul c_ur c_lr c_ll incr] in *;
    destruct inc; destruct Hw as (O1 & O2); intros [H|H].
  all: first [ left; rewrite ?(rmid_comm d b), ?(rmid_comm a c) in H;
               first [ use4s (r_strict a b d O1 p) | use4s (r_strict a b c O1 p) ]
             | right; first [ use4s (r_strict b c d O2 p) | use4s (r_strict a c d O2 p) ] ].
Qed.

Lemma child_wfU (t : rtile) ix iy : wfU t -> (ix < 2)%N -> (iy < 2)%N -> wfU (rchild t ix iy).
Proof.
  intros Hw Hx Hy. destruct (bit_cases _ Hx) as [-> | ->], (bit_cases _ Hy) as [-> | ->];
    destruct t as [pos a b c d inc];
    rewrite ?child_00, ?child_10, ?child_01, ?child_11; unfold wfU, ce_of in *; cbn [c_ul c_ur c_lr c_ll incr] in *;
    destruct inc; destruct Hw as (O1 & O2).
  all: try (pose proof (r_orient a b d O1) as (A1 & A2 & A3 & A4); pose proof (r_orient b c d O2) as (B1 & B2 & B3 & B4);
            rewrite ?(rmid_comm b d) in * ).
  all: try (pose proof (r_orient a b c O1) as (A1 & A2 & A3 & A4); pose proof (r_orient a c d O2) as (B1 & B2 & B3 & B4);
            rewrite ?(rmid_comm c a) in * ).
  all: split; cyc_asm.
Qed.

Ltac kill_by D :=
  first [ apply (proj1 D); split; rot_s
        | apply (proj1 (proj2 D)); split; rot_s
        | apply (proj1 (proj2 (proj2 D))); split; rot_s
        | apply (proj1 (proj2 (proj2 (proj2 D)))); split; rot_s
        | apply (proj1 (proj2 (proj2 (proj2 (proj2 D))))); split; rot_s
        | apply (proj2 (proj2 (proj2 (proj2 (proj2 D))))); split; rot_s ].

Lemma siblings_disjoint (t : rtile) ix iy ix' iy' p : wfU t ->
  (ix < 2)%N -> (iy < 2)%N -> (ix' < 2)%N -> (iy' < 2)%N -> (ix, iy) <> (ix', iy') ->
  intU (rchild t ix iy) p -> intU (rchild t ix' iy') p -> False.
Proof.
  intros Hw Hx Hy Hx' Hy' Hne.
  destruct (bit_cases _ Hx) as [-> | ->], (bit_cases _ Hy) as [-> | ->],
           (bit_cases _ Hx') as [-> | ->], (bit_cases _ Hy') as [-> | ->]; try (exfalso; apply Hne; reflexivity);
    destruct t as [pos a b c d inc];
    rewrite ?child_00, ?child_10, ?child_01, ?child_11; unfold intU, wfU, ce_of in *; cbn [c_ul c_ur c_lr c_ll incr] in *;
    destruct inc; destruct Hw as (O1 & O2); intros [H|H] [H'|H'].
  all: try (pose proof (r_disjoint a b d O1 p) as D1; pose proof (r_disjoint b c d O2 p) as D2;
            pose proof (r_strict a b d O1 p) as S1; pose proof (r_strict b c d O2 p) as S2;
            rewrite ?(rmid_comm b d) in *;
            assert (E : det d b p = - det b d p) by vring).
  all: try (pose proof (r_disjoint a b c O1 p) as D1; pose proof (r_disjoint a c d O2 p) as D2;
            pose proof (r_strict a b c O1 p) as S1; pose proof (r_strict a c d O2 p) as S2;
            rewrite ?(rmid_comm c a) in *;
            assert (E : det a c p = - det c a p) by vring).
  all: first [ kill_by D1 | kill_by D2
             | (assert (K1 : inTs a b d p) by use4s S1; assert (K2 : inTs b c d p) by use4s S2;
                destruct K1 as (_ & K1 & _); destruct K2 as (_ & _ & K2); lra)
             | (assert (K1 : inTs a b c p) by use4s S1; assert (K2 : inTs a c d p) by use4s S2;
                destruct K1 as (_ & _ & K1); destruct K2 as (K2 & _ & _); lra) ].
Qed.
