"""C12 correspondence: point lookup returns the containing tile and pixel.

Implementation side: the real toasty.toast.toast_tile_for_point / toast_pixel_for_point /
_toast_tile_containment_score, run (where terms are needed) under the recording `mid` of
harness/toast_terms.py.
Model side (vm_compute): Model/ToastTerm.v `lookup` (descent "first child with score 0, else
first maximal score") with a scripted score table shared with the implementation, and
`level1_pick` for the level-1 longitude intervals (repaired behaviour: the planetary system
hands the level-1 test lon + pi, fixes/C12-1.patch).
Property predicates on the implementation (numeric tests): returned tile contains the point
(half-space margin >= -1e-9), nesting across depths (exact), 2 pi periodicity (points with
margin > 1e-9), fractional pixel within 2 px of the nearest pixel centre (points >= 1 degree
from the poles).  The pixel-position clause has no Gallina model (LAPACK lstsq): it is decided
by this numeric test only.
"""
import math

import numpy as np

import common
import toast_terms as TT

TRUSTED = [
    "harness/toast_terms.py recording mid; 63-bit hash image of corner terms",
    "numeric tests only (not proof): containment margin 1e-9, periodicity on points with margin > 1e-9, "
    "pixel position within 2 px (Euclidean, pixel units) of the nearest pixel centre by chord distance -- the "
    "pixel-position clause is NOT covered by any theorem (LAPACK lstsq is not modelled)",
    "float determinants (numpy) as the reference for _toast_tile_containment_score, compared only when |margin| > 1e-9",
]
ASSUMPTIONS = [
    "scores are finite, non-NaN floats (best_score = -inf is modelled by 'no best yet')",
    "lat in [-pi/2, pi/2]; lon any real (toast_tile_for_point reduces it mod 2 pi)",
    "level-1 choice is compared with the model for lon at least 1e-9 away from a multiple of pi/2; on the "
    "boundaries either adjacent tile is accepted (both contain the point) and only containment is judged",
]
IMPORTS = ["Model.Quadtree", "Model.ToastTerm"]

KEY_F4 = "C12/toast.py:_toast_tile_containment_score/planetary-level1"
KEY_F5 = "C12/toast.py:toast_pixel_for_point/lon-branch"

COQ_DEFS = TT.COQ_DIGEST_DEFS + r"""
Definition sc_hash (seed : N) (t : htile) : N :=
  ((N.of_nat (pn (tpos t)) * 73856093 + px (tpos t) * 19349663 + py (tpos t) * 83492791 + seed * 2654435761) mod 1000003).
(* scripted containment score: mode 0 -> {0,-1,-2}; mode 1 -> {-1..-4} (never 0); mode 2 -> {0..-6} *)
Definition sc_fn (seed mode : N) (t : htile) : Z :=
  match mode with
  | 0 => - Z.of_N (sc_hash seed t mod 3)
  | 1 => - Z.of_N (sc_hash seed t mod 4 + 1)
  | _ => - Z.of_N (sc_hash seed t mod 7)
  end.
Inductive c12case :=
| KSel (planet : bool) (depth : nat) (seed mode : N) (obs : option htile)
| KL1 (planet : bool) (q : N) (obs : pos).
Definition chk12 (c : c12case) : nat :=
  match c with
  | KSel pl depth seed mode obs =>
      match lookup hbase hmid (fun s => Z.eqb s 0) Z.gtb (sc_fn seed mode) (cs_of pl) depth, obs with
      | Some t, Some o => if htile_eqb t o then 0%nat else 1%nat
      | None, None => 0%nat
      | _, _ => 1%nat
      end
  | KL1 pl q obs =>
      if pos_eqb (tpos (level1_pick hbase (cs_of pl) ((q + lshift (cs_of pl)) mod 4))) obs then 0%nat else 2%nat
  end.
"""
REL = {1: "lookup (descent: first zero score, else first maximal) ~ toast_tile_for_point with a scripted score table",
       2: "level1_pick (repaired: planetary test on lon + pi) ~ level-1 choice of toast_tile_for_point"}


def g_bool(b):
    return "true" if b else "false"


def sc_hash(seed, n, x, y):
    return (n * 73856093 + x * 19349663 + y * 83492791 + seed * 2654435761) % 1000003


def sc_fn(seed, mode, n, x, y):
    h = sc_hash(seed, n, x, y)
    if mode == 0:
        return -float(h % 3)
    if mode == 1:
        return -float(h % 4 + 1)
    return -float(h % 7)


def quadrant(lon):
    """interval index of toast.py:223-232 for lon in [0, 2pi]"""
    if 0 <= lon <= 0.5 * math.pi:
        return 0
    if lon <= math.pi:
        return 1
    if lon < 1.5 * math.pi:
        return 2
    return 3


def corners_f(tile):
    return [(float(c[0]), float(c[1])) for c in tile.corners]


def nearest_pixel(lons, lats, lon, lat):
    cl = np.cos(lats)
    P = np.stack([np.cos(lons) * cl, np.sin(lats), np.sin(lons) * cl], axis=-1)
    v = np.array(TT.xyz(lon, lat))
    d = ((P - v) ** 2).sum(axis=-1)
    iy, ix = np.unravel_index(np.argmin(d), d.shape)
    return int(ix), int(iy)


def special_points(rng, T, Pos, systems):
    """edges, corners, equator diamond, seam, poles"""
    pts = []
    hp = 0.5 * math.pi
    for k in range(9):
        pts.append((0.0, k * math.pi / 4))                 # equator, incl. seam 0 and 2 pi
    for lon in (0.0, 1.0, hp, math.pi, 4.0, 3 * hp, 2 * math.pi):
        pts.append((hp, lon))
        pts.append((-hp, lon))
    for lat in (-1.2, -0.3, 0.4, 1.5):
        for lon in (0.0, hp, math.pi, 3 * hp, 2 * math.pi):   # the meridians of the level-1 edges and the seam
            pts.append((lat, lon))
    for _ in range(40):                                    # corners and edge points of the depth-3 lattice
        cs = rng.choice(systems)
        t = T.create_single_tile(Pos(3, rng.randrange(8), rng.randrange(8)), cs)
        c = corners_f(t)
        a, b = c[rng.randrange(4)], None
        pts.append((a[1], a[0] % (2 * math.pi)))
        i = rng.randrange(4)
        m = T.mid(c[i], c[(i + 1) % 4])
        pts.append((float(m[1]), float(m[0]) % (2 * math.pi)))
    return pts


def deep_containment(rng, V, n_points):
    """Containment at large depths, judged in ANGLE (distance of the point outside each edge's great
    circle, i.e. the half-space score divided by the edge length), so that the test keeps its
    resolution when tiles shrink: at depth 26 a tile is ~5e-8 rad wide."""
    import numpy as np
    import toasty.toast as T
    n = 0
    for cs in (T.ToastCoordinateSystem.ASTRONOMICAL, T.ToastCoordinateSystem.PLANETARY):
        for _ in range(n_points):
            lat = rng.uniform(-1.55, 1.55)
            lon = rng.uniform(0.0, 2 * np.pi)
            p = T._equ_to_xyz(lat, lon)
            for depth in (18, 22, 26):
                t = T.toast_tile_for_point(depth, lat, lon, coordsys=cs)
                c = [T._equ_to_xyz(t.corners[i][1], t.corners[i][0]) for i in range(4)]
                worst = 0.0
                for a, b in ((c[0], c[1]), (c[1], c[2]), (c[2], c[3]), (c[3], c[0])):
                    nrm = np.cross(a, b)
                    worst = min(worst, float(np.dot(nrm, p)) / float(np.linalg.norm(nrm)))
                n += 1
                # "up to rounding on shared edges": accumulated round-off of the corner construction
                # reaches ~1e-10 rad at depth 26 (0.4 % of a tile width); a wrong tile is off by >= 1 width
                if t.pos.n != depth or worst < -(0.05 * np.pi / 2 ** depth + 1e-12):
                    V.disagreement("lookup_contains at large depth (angular containment, tolerance 5 % of a tile width)",
                                   dict(route="deep", planet=cs.value == "planetary", depth=depth, lat=lat, lon=lon),
                                   "the returned tile contains the point",
                                   dict(pos=list(map(int, t.pos)), outside_by_rad=-worst,
                                        tile_width_rad=float(np.pi / 2 ** depth)), True)
                    return n
    return n


def run(ctx, V):
    import toasty.toast as T
    from toasty.pyramid import Pos

    rng = common.rng_for(ctx["seed"], "C12")
    quick = ctx["tier"] == "quick"
    n_deep = deep_containment(common.rng_for(ctx["seed"], "C12deep"), V, 60 if quick else 500)
    systems = TT.coordsystems()
    slow = getattr(T.subsample, "__module__", "") == "_libtoasty_transpiled"
    terms, meta = [], []
    hist = {}
    numeric = {}
    replay = (ctx.get("replay") or {}).get("case") or {}

    def h(k):
        hist[k] = hist.get(k, 0) + 1

    # ---- A. selection logic with a scripted score table (real descent, real _div4, recording mid)
    real_score = T._toast_tile_containment_score
    with TT.recording():
        try:
            for i in range(150 if quick else 1500):
                planet = rng.random() < 0.5
                depth = rng.choice((0, 1, 2, 3, 4, 6, 9, 14))
                seed = rng.randrange(10 ** 6)
                mode = rng.choice((0, 0, 1, 2, 2))
                if i == 0 and replay.get("route") == "selection":
                    planet, depth, seed, mode = replay["planet"], replay["depth"], replay["seed"], replay["mode"]
                T._toast_tile_containment_score = lambda tile, lat, lon, s=seed, m=mode: sc_fn(s, m, tile.pos.n, tile.pos.x, tile.pos.y)
                t = T.toast_tile_for_point(depth, 0.3, 1.0, systems[planet])
                if depth == 0:
                    ok = tuple(t.pos) == (0, 0, 0) and all(c is None for c in t.corners)
                    obs = "None" if ok else "(Some %s)" % TT.g_htile((0, 0, 0, (0, 0, 0, 0), False))
                else:
                    obs = "(Some %s)" % TT.g_htile(TT.tile_row(t))
                terms.append("(KSel %s %d %d %d %s)" % (g_bool(planet), depth, seed, mode, obs))
                meta.append(dict(route="selection", planet=planet, depth=depth, seed=seed, mode=mode))
                h(f"selection/mode{mode}/depth{depth}")
        finally:
            T._toast_tile_containment_score = real_score

    # ---- B. level-1 choice by longitude interval (real score function)
    l1_cases = []
    for planet in (False, True):
        for q in range(4):
            for frac in (1e-6, 0.013, 0.25, 0.5, 0.77, 1 - 1e-6):
                for lat in (0.0, 0.9, -1.3):
                    lon = (q + frac) * 0.5 * math.pi
                    for turns in (0, 1, -2):
                        l1_cases.append((planet, q, lat, lon + turns * 2 * math.pi))
    if replay.get("route") == "level1":
        l1_cases.insert(0, (bool(replay["planet"]), int(replay["q"]), replay["lat"], replay["lon"]))
    for planet, q, lat, lon in l1_cases:
        t = T.toast_tile_for_point(1, lat, lon, systems[planet])
        terms.append("(KL1 %s %d (mkPos %d %d %d))" % (g_bool(planet), q, t.pos.n, t.pos.x, t.pos.y))
        meta.append(dict(route="level1", planet=planet, q=q, depth=1, lat=lat, lon=lon))
        h(f"level1/{'planetary' if planet else 'astronomical'}")

    bad = common.coq_eval_sharded(COQ_DEFS, terms, "chk12", IMPORTS, shard=400, jobs=12, name="c12")

    # ---- C. real containment score vs float determinants (the L-real score: sum of min(det, 0))
    worst_score = 0.0
    n_score = 0
    score_fail = []
    for _ in range(300 if quick else 3000):
        n = rng.choice((2, 3, 4, 6, 8))
        planet = rng.random() < 0.5
        tile = T.create_single_tile(Pos(n, rng.randrange(2 ** n), rng.randrange(2 ** n)), systems[planet])
        c = corners_f(tile)
        ce = T.mid(c[0], c[2])
        spread = rng.choice((0.3, 1.0, 3.0)) * math.pi / 2 ** n
        lat = max(-math.pi / 2, min(math.pi / 2, float(ce[1]) + rng.uniform(-spread, spread)))
        lon = (float(ce[0]) + rng.uniform(-spread, spread)) % (2 * math.pi)
        s = real_score(tile, lat, lon)
        p = TT.xyz(lon, lat)
        cc = [TT.xyz(*q) for q in c]
        dets = [TT.det3(cc[i], cc[(i + 1) % 4], p) for i in range(4)]
        ref = sum(min(d, 0.0) for d in dets)
        n_score += 1
        worst_score = max(worst_score, abs(s - ref))
        if abs(s - ref) > 1e-12 or (min(dets) > 1e-9 and s != 0.0) or (min(dets) < -1e-9 and s == 0.0):
            score_fail.append(dict(route="score", planet=planet, pos=list(tile.pos), lat=lat, lon=lon, score=float(s), reference=ref))
    numeric["score_vs_determinants"] = dict(samples=n_score, worst_abs_difference=worst_score, tolerance=1e-12)

    # ---- D/E/F. containment, nesting, periodicity on the real lookup
    pts = special_points(rng, T, Pos, systems)
    n_special = len(pts)
    for _ in range(250 if quick else 4000):
        pts.append((math.asin(rng.uniform(-1, 1)), rng.uniform(0, 2 * math.pi)))
    if replay.get("route") in ("lookup", "pixel"):
        pts.insert(0, (replay["lat"], replay["lon"]))
    fails = []     # (why, case, finding_key)
    n_lookup = 0
    worst_margin = np.inf
    depths = (1, 2, 3, 5, 8, 12) if quick else (1, 2, 3, 4, 5, 6, 8, 10, 12, 16, 20)
    for idx, (lat, lon) in enumerate(pts):
        for planet in (False, True):
            cs = systems[planet]
            prev = None
            l1_ok = True
            for depth in depths:
                t = T.toast_tile_for_point(depth, lat, lon, cs)
                n_lookup += 1
                m = TT.contains_margin(corners_f(t), (lon, lat))
                worst_margin = min(worst_margin, m)
                case = dict(route="lookup", planet=planet, depth=depth, lat=lat, lon=lon)
                if depth == 1:
                    l1_ok = m >= -1e-9
                if t.pos.n != depth:
                    fails.append((f"depth {depth} lookup returned a tile of depth {t.pos.n}", case, None))
                if m < -1e-9:
                    fails.append((f"tile {tuple(t.pos)} returned for lat={lat} lon={lon} does not contain the point (margin {m:.3g})",
                                  case, KEY_F4 if (planet and not l1_ok) else None))
                if prev is not None:
                    k = depth - prev.pos.n
                    if (t.pos.x >> k, t.pos.y >> k) != (prev.pos.x, prev.pos.y):
                        fails.append((f"depth {depth} answer {tuple(t.pos)} is not below the depth {prev.pos.n} answer {tuple(prev.pos)}", case, None))
                prev = t
                if m > 1e-9 and depth in (1, 3, 8):
                    for turns in (1, -1, 3):
                        t2 = T.toast_tile_for_point(depth, lat, lon + turns * 2 * math.pi, cs)
                        if tuple(t2.pos) != tuple(t.pos):
                            fails.append((f"lon + {turns}*2pi gives {tuple(t2.pos)} instead of {tuple(t.pos)}",
                                          dict(case, lon=lon + turns * 2 * math.pi), None))
    numeric["containment"] = dict(lookups=n_lookup, points=len(pts), special_points=n_special, worst_margin=float(worst_margin), tolerance=-1e-9)

    # ---- G. pixel position (numeric test only; no theorem covers it)
    n_pix = 0
    worst_px = {(pl, q): 0.0 for pl in (False, True) for q in range(4)}
    one_deg = math.radians(1.0)
    pix_pts = []
    for pl in (False, True):
        for q in range(4):
            for _ in range((6 if quick else 60) if not slow else 1):
                lat = math.asin(rng.uniform(-1, 1))
                if abs(lat) > math.pi / 2 - one_deg:
                    lat = math.copysign(math.pi / 2 - one_deg, lat)
                pix_pts.append((pl, lat, (q + rng.random()) * math.pi / 2, rng.choice((1, 2, 3, 5, 8, 11))))
    for pl in (False, True):      # close to the poles (1 degree away), the seam and the level-1 meridians
        for lat in (math.pi / 2 - one_deg, -(math.pi / 2 - one_deg), 0.0):
            for lon in (0.0, 1e-4, 1.0, math.pi / 2, math.pi + 1e-4, 3 * math.pi / 2, 5.5, 2 * math.pi - 1e-4):
                pix_pts.append((pl, lat, lon, rng.choice((1, 2, 4, 7))))
    if slow:
        pix_pts = pix_pts[:12]
    if replay.get("route") == "pixel":
        pix_pts.insert(0, (replay["planet"], replay["lat"], replay["lon"], replay["depth"]))
    for pl, lat, lon, depth in pix_pts:
        case = dict(route="pixel", planet=pl, depth=depth, lat=lat, lon=lon)
        try:
            tile, x, y = T.toast_pixel_for_point(depth, lat, lon, systems[pl])
        except Exception as e:
            fails.append((f"toast_pixel_for_point raised {e!r}", case, None))
            continue
        # the tile handed back by the PIXEL lookup is the one the TILE lookup gives in the requested system
        # (seeded change C04-n dropped the system on the way: an astronomical tile contains the point too,
        # but it is not the planetary tile the caller asked about)
        ref = T.toast_tile_for_point(depth, lat, lon, systems[pl])
        if tuple(ref.pos) != tuple(tile.pos) or not np.array_equal(np.asarray(ref.corners, dtype=float), np.asarray(tile.corners, dtype=float)):
            fails.append((f"toast_pixel_for_point returned tile {tuple(tile.pos)}, toast_tile_for_point in the same system {tuple(ref.pos)}", case, None))
        lons, lats = T.toast_tile_get_coords(tile)
        ix, iy = nearest_pixel(lons, lats, lon, lat)
        e = math.hypot(float(x) - ix, float(y) - iy)
        n_pix += 1
        q = min(3, int((lon % (2 * math.pi)) // (math.pi / 2)))
        inside = TT.contains_margin(corners_f(tile), (lon, lat)) >= -1e-9
        if inside:
            worst_px[(pl, q)] = max(worst_px[(pl, q)], e if math.isfinite(e) else 1e30)
        else:
            # the tile handed back by the PIXEL lookup must itself contain the point (it is the result of
            # the tile lookup in the requested coordinate system; seeded change C04-n dropped the system)
            fails.append((f"toast_pixel_for_point returned tile {tuple(tile.pos)}, which does not contain the point", case,
                          KEY_F4 if pl else None))
        if not (e <= 2.0):
            branch = float(np.abs(lons - (lon % (2 * math.pi))).max()) > math.pi
            key = KEY_F4 if (pl and not inside) else (KEY_F5 if branch else None)
            fails.append((f"pixel position ({float(x):.3f}, {float(y):.3f}) is {e:.3g} px from the nearest pixel centre ({ix}, {iy})", case, key))
    numeric["pixel_position"] = dict(points=n_pix, tolerance_px=2.0,
                                     worst_px_by_system_and_quadrant={f"{'planetary' if pl else 'astronomical'}/q{q}": v for (pl, q), v in worst_px.items()})

    # ---- verdicts
    geo_fail_f4 = [f for f in fails if f[2] == KEY_F4]
    for i, code in sorted(bad.items()):
        m = meta[i]
        if code == 2:
            t = T.toast_tile_for_point(1, m["lat"], m["lon"], systems[m["planet"]])
            pf = TT.contains_margin(corners_f(t), (m["lon"], m["lat"])) < -1e-9
            V.disagreement("ToastTerm.v ~ toast.py: " + REL[2], m, "model value (vm_compute)", list(t.pos), pf,
                           finding_key=KEY_F4 if (m["planet"] and pf) else None)
        else:
            V.disagreement("ToastTerm.v ~ toast.py: " + REL.get(code, str(code)), m, "model value (vm_compute)", terms[i][:300],
                           True if [f for f in fails if f[2] is None] else None)
    per_key = {}
    for why, case, key in fails:
        per_key[key] = per_key.get(key, 0) + 1
        if per_key[key] <= 40:
            V.disagreement("C12 predicate on implementation", case, "property holds", why, True, finding_key=key)
    for sf in score_fail[:3]:
        V.disagreement("_toast_tile_containment_score ~ sum of min(det, 0) over the four edges", sf, sf["reference"], sf["score"], None)

    nontrivial = {(m["route"], m["planet"], m.get("depth"), m.get("seed"), m.get("q"), m.get("lon")) for m in meta if m.get("depth", 1) >= 1}
    return dict(evaluations=len(terms) + n_score + n_lookup + n_pix, distinct_nontrivial=len(nontrivial) + len(pts) + n_pix,
                rule="selection: random (system, depth 0-14, scripted score table incl. ties and all-negative scores) compared with the "
                     "Coq lookup on hash tiles; level 1: each longitude interval x 6 offsets x 3 latitudes x 3 turns x both systems; "
                     "containment/nesting/periodicity: special points (edges, corners, equator diamond, seam, poles) + random points x "
                     "depths x both systems; pixel position: all four quadrants x both systems, >= 1 degree from the poles; "
                     "non-trivial = distinct cases of depth >= 1",
                pixel_position_clause="numeric test on the implementation only (no Gallina model of LAPACK lstsq; not decided by proof)",
                numeric_validation_tests=numeric, input_histogram=hist, transpiled_source_installed=slow,
                property_predicate_failures=len(fails), known_finding_hits=len(geo_fail_f4),
                samples=meta[:2] + [m for m in meta if m["route"] == "level1"][:2]
                        + [dict(route="lookup", lat=pts[n_special][0], lon=pts[n_special][1])])
