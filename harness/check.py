"""bin/check <Cxx> --tier quick|thorough | --replay <path>

1. hygiene gate over the Coq development (fail closed);
2. proof obligations: full .vo build of Properties/<Cxx>.vo, Print Assumptions;
3. correspondence: harness/corr_<Cxx>.py runs the real toasty code from /repo's
   working tree and the Gallina model on the same cases;
4. verdict: exit 0, or VIOLATION line(s) with a replay file.
"""
import argparse
import importlib
import json
import os
import sys
import time
import traceback

sys.path.insert(0, os.path.dirname(os.path.abspath(__file__)))
import common  # noqa: E402


def main():
    ap = argparse.ArgumentParser()
    ap.add_argument("pid")
    ap.add_argument("--tier", default=os.environ.get("VERIF_TIER", "quick"), choices=["quick", "thorough"])
    ap.add_argument("--replay")
    ap.add_argument("--seed", type=int, default=int(os.environ.get("VERIF_SEED", "20260930")))
    args = ap.parse_args()
    pid = args.pid
    t0 = time.time()

    V = common.Verdict(pid, args.tier, args.seed)

    # 1. hygiene
    probs = common.hygiene()
    if probs:
        V.disagreement("hygiene-gate", dict(problems=probs[:20]), "no axioms / admits / disabled checks",
                       "forbidden construct present", None)

    # 2. proof obligations
    ob = common.property_obligations(pid)
    if not ob["ok"]:
        V.disagreement(f"proof obligations of Properties/{pid}.v",
                       dict(theorems=ob["theorems"], log=ob["log"][-1500:]),
                       "all property theorems check", "build failed", None)
    axioms = sorted({a for l in ob["assumptions"].values() for a in l})

    # 2b. the Cython source cannot be rebuilt here: tie the checks to the .pyx in the
    #     working tree through the fail-closed transpiler (harness/pyx2py.py)
    pyx_info = None
    if pid in ("C04", "C05", "C06", "C07", "C12"):
        import pyx2py
        pyx_info = pyx2py.tie(V, str(common.REPO), common.rng_for(args.seed, "pyx"))

    # 2a'. C13 / C08: the position arithmetic and generators of pyramid.py, and class StudyTiling of
    #      study.py, are TRANSLATED into Gallina on every build (harness/py2coq.py ->
    #      Generated/PyramidSrc.v, Generated/StudySrc.v; proofs in Proofs/PyramidSrcP.v,
    #      Proofs/StudySrcP.v).  bin/build translates /repo; when the tree under test is a scratch
    #      copy (TOASTY_REPO), translate it here and check the same proofs against it privately.
    translated = None
    BUILDER_TIE = ("builder", "BuilderSrc", "BuilderSrcP", "toasty/builder.py (class Builder, straight-line methods)", "scripts of Model/BuilderScript.v")
    TIES = {"C13": [("pyramid", "PyramidSrc", "PyramidSrcP", "toasty/pyramid.py", "position algebra and generators")],
            "C08": [("study", "StudySrc", "StudySrcP", "toasty/study.py", "StudyTiling model"), BUILDER_TIE],
            "C17": [("paths", "PathSrc", "PathSrcP", "toasty/pyramid.py (class PyramidIO, tile naming)", "naming model (Model/Paths.v)"),
                    ("cli_wwtl", "CliWwtlSrc", "CliWwtlP", "toasty/cli.py (tile_wwtl_impl)", "model of the command (Model/CliScript.v)"), BUILDER_TIE],
            "C07": [("script", "ScriptSrc", "ScriptSrcP", "toasty/fits_tiler.py (FitsTiler._tile_toast)", "script of calls (Model/TileToastScript.v)")],
            "C02": [("cli_cascade", "CliCascadeSrc", "CliCascadeP", "toasty/cli.py (cascade_impl)", "model of the command (Model/CliScript.v)")],
            "C03": [("cli_transform", "CliTransformSrc", "CliTransformP", "toasty/cli.py (transform_impl)", "model of the command (Model/CliScript.v)")],
            "C11": [("cli_allsky", "CliAllskySrc", "CliAllskyP", "toasty/cli.py (tile_allsky_impl)", "model of the command (Model/CliScript.v)")],
            "C20": [("cli_multi_tan", "CliMultiTanSrc", "CliMultiTanP", "toasty/cli.py (tile_multi_tan_impl, view_locally)", "models of the commands (Model/CliScript.v)")],
            "C06": [("cli_healpix", "CliHealpixSrc", "CliHealpixP", "toasty/cli.py (tile_healpix_impl)", "model of the command (Model/CliScript.v)")]}
    translated_all = []
    for which, gen, prf, srcname, what in TIES.get(pid, []):
        import hashlib
        import py2coq
        try:
            text = {"pyramid": py2coq.translate_pyramid, "study": py2coq.translate_study,
                    "paths": py2coq.translate_paths, "script": py2coq.translate_script,
                    "cli_cascade": py2coq.translate_cli_cascade, "cli_transform": py2coq.translate_cli_transform,
                    "cli_allsky": py2coq.translate_cli_allsky, "cli_multi_tan": py2coq.translate_cli_multi_tan,
                    "cli_healpix": py2coq.translate_cli_healpix, "cli_wwtl": py2coq.translate_cli_wwtl,
                    "builder": py2coq.translate_builder}[which](common.REPO)
            funcs = {"pyramid": py2coq.PYRAMID_FUNCS,
                     "study": ["next_highest_power_of_2"] + ["StudyTiling." + m for m in py2coq.STUDY_METHODS],
                     "paths": ["PyramidIO." + m for m in py2coq.PATH_METHODS],
                     "script": ["FitsTiler._tile_toast"], "cli_cascade": ["cli.cascade_impl"],
                     "cli_transform": ["cli.transform_impl"], "cli_allsky": ["cli.tile_allsky_impl"],
                     "cli_multi_tan": ["cli.tile_multi_tan_impl", "cli.view_locally"],
                     "cli_healpix": ["cli.tile_healpix_impl"], "cli_wwtl": ["cli.tile_wwtl_impl"],
                     "builder": ["Builder." + m for m in py2coq.BUILDER_METHODS]}[which]
            translated = dict(source=srcname, functions=funcs, sha256=hashlib.sha256(text.encode()).hexdigest()[:16])
            translated_all.append(translated)
            tree_file = common.COQ / "theories" / "Generated" / (gen + ".v")
            if not tree_file.exists() or tree_file.read_text() != text:
                w = common.workdir() / "gen"
                (w / "Generated").mkdir(parents=True, exist_ok=True)
                (w / "Proofs").mkdir(parents=True, exist_ok=True)
                (w / "Generated" / (gen + ".v")).write_text(text)
                proof = (common.COQ / "theories" / "Proofs" / (prf + ".v")).read_text()
                old = f"From Toasty Require Import Generated.{gen}."
                if old not in proof:
                    raise RuntimeError(f"Proofs/{prf}.v does not import Generated.{gen} on a line of its own")
                proof = proof.replace(old, f"From ToastyAlt Require Import Generated.{gen}.")
                (w / "Proofs" / (prf + ".v")).write_text(proof)
                log = ""
                ok = True
                for f in (w / "Generated" / (gen + ".v"), w / "Proofs" / (prf + ".v")):
                    rc, so, se = common.coqc_file(f, extra_q=[(w, "ToastyAlt")])
                    if rc != 0:
                        ok, log = False, (so + se)[-1500:]
                        break
                translated["checked"] = "privately (tree under test differs from /repo)"
                if not ok:
                    V.disagreement(f"translation tie: {srcname} as translated by harness/py2coq.py no longer agrees with the "
                                   f"hand-written {what} (Proofs/{prf}.v)", dict(part="translated-source", log=log),
                                   f"every lemma of {prf}.v checks against the translated source", "a proof no longer checks", None)
            else:
                translated["checked"] = f"by the build (Properties/{pid}.vo depends on Generated/{gen}.v)"
        except py2coq.Unsupported as e:
            V.disagreement(f"translation tie: {srcname} left the subset harness/py2coq.py translates",
                           dict(part="translated-source", error=str(e)), "translatable source", str(e), None)

    # 2c. answers of the TOAST geometry API must not depend on the calls made before
    hist_calls = None
    if pid in ("C04", "C05", "C06", "C12"):
        import history_probe
        try:
            hist_calls = history_probe.run(V, str(common.REPO), common.rng_for(args.seed, "history", pid), label=pid)
        except Exception as e:
            traceback.print_exc()
            V.disagreement("history-independence probe", dict(error=repr(e)), "probe completes", "probe raised", None)

    # 3. correspondence
    mod = importlib.import_module(f"corr_{pid}")

    # watchdog: code under test that blocks or spins outside the modelled synchronisation
    # points (e.g. a different lock class polling in a sleep loop) must end in a verdict,
    # not in a check that never returns
    import threading
    budget = float(os.environ.get("VERIF_WATCHDOG", "1800" if args.tier == "quick" else "14400"))

    def _expired():
        V.disagreement("correspondence harness",
                       dict(error=f"the correspondence run did not finish within {budget:.0f} s"),
                       "harness completes", "the implementation blocks or spins outside the modelled synchronisation points "
                       "(or is far slower than the unchanged tree)", None)
        cov0 = dict(obligations=max(ob["obligations"], 1), discharged=ob["discharged"],
                    checker_cmd="watchdog expired", trusted_base=common.GLOBAL_TRUSTED, theorems=ob["theorems"],
                    print_assumptions=ob["assumptions"], evaluations=0, distinct_nontrivial=0,
                    rule="watchdog expired before the correspondence run finished", samples=[])
        rc0 = V.finish(cov0, ["watchdog expired"])
        common.log(f"[{pid}] tier={args.tier} seed={args.seed} WATCHDOG after {budget:.0f}s rc={rc0}")
        sys.stdout.flush()
        os._exit(rc0 or 1)

    wd = threading.Timer(budget, _expired)
    wd.daemon = True
    wd.start()
    ctx = dict(tier=args.tier, seed=args.seed, replay=None)
    if args.replay:
        ctx["replay"] = json.load(open(args.replay))
    try:
        cov = mod.run(ctx, V)
    except Exception as e:  # harness failure: the tie is not established
        traceback.print_exc()
        V.disagreement("correspondence harness", dict(error=repr(e)), "harness completes",
                       "harness raised", None)
        cov = dict(evaluations=0, distinct_nontrivial=0, rule="harness failed", samples=[repr(e)])

    # 3b. workflow probes: the property's predicate on the implementation through the user-facing
    #     entry points (the glue around the modelled core; harness/workflow_probe.py)
    probes = None
    if not args.replay:
        import workflow_probe
        try:
            probes = workflow_probe.run(V, pid, args.tier)
        except Exception as e:
            traceback.print_exc()
            V.disagreement("workflow probes", dict(error=repr(e)), "probes complete", "probe runner raised", None)

    coverage = dict(
        obligations=max(ob["obligations"], 1),
        discharged=ob["discharged"],
        checker_cmd=f"make -C coq theories/Properties/{pid}.vo && coqc Properties/{pid}.v (Print Assumptions)",
        trusted_base=common.GLOBAL_TRUSTED + getattr(mod, "TRUSTED", []),
        theorems=ob["theorems"],
        print_assumptions=ob["assumptions"],
    )
    coverage.update(cov)
    if pyx_info is not None:
        coverage["pyx_tie"] = pyx_info
    if translated_all:
        coverage["translated_source"] = translated_all[0]
        if len(translated_all) > 1:
            coverage["translated_source_more"] = translated_all[1:]
    if hist_calls is not None:
        coverage["history_independence_probe_calls"] = hist_calls
    if probes is not None:
        coverage["workflow_probes"] = probes
    if args.tier == "thorough":
        chk = common.coqchk(pid)
        coverage["coqchk"] = chk
    assumptions = list(getattr(mod, "ASSUMPTIONS", []))
    assumptions.append("axioms reported by Print Assumptions: " + (", ".join(axioms) if axioms else "none (closed under the global context)"))
    wd.cancel()
    rc = V.finish(coverage, assumptions)
    common.log(f"[{pid}] tier={args.tier} seed={args.seed} wall={time.time()-t0:.1f}s "
               f"obligations={ob['discharged']}/{ob['obligations']} evaluations={cov.get('evaluations')} rc={rc}")
    sys.exit(rc)


if __name__ == "__main__":
    main()
