"""C07 correspondence: tile filters never drop a tile holding data.

Implementation side (from $TOASTY_REPO): the compiled
toasty._libtoasty.tile_intersects_latlon_bbox (source: _libtoasty.pyx 147-272),
toasty.samplers._latlon_tile_filter, WcsSampler._image_bounds/filter/sampler,
ChunkedPlateCarreeSampler, plate_carree_planet_sampler,
toasty.toast.sample_layer / sample_layer_filtered / generate_tiles(_filtered).
Model side: Model/Filter.v evaluated by vm_compute on the exact rationals of the
doubles involved.

Parts
  A  bbox function vs model (decision, margin > 1e-9), in-place effect on the array
  B  _latlon_tile_filter on generated Tiles: representation, purity, aliasing branches
  C  chunk bounds / chunk sampler vs model, chunk grids end to end vs whole-map sampling
  D  _image_bounds index logic vs model (fake WCS, axis lengths 1-200); F7 witness
  E  sample_layer_filtered == sample_layer for lat/lon boxes
  F  TAN images through WcsSampler: end to end and the property predicate near the rim
"""
import contextlib
import io
import math
import os
import shutil
import warnings
from fractions import Fraction as F

import numpy as np

import common
from common import g_bool, g_list, g_Z

TRUSTED = [
    "compiled toasty/_libtoasty*.so is what _libtoasty.pyx says (Cython is not available to rebuild it; "
    "the .pyx was read as its source and the .so is exercised on ~2e4 inputs)",
    "float rounding is outside the model: decisions are compared only when every comparison's distance to a tie "
    "exceeds 1e-9 (margin computed by the model on the exact rationals of the doubles)",
    "astropy.wcs (TAN projection) for the image-footprint cases; a synthetic WCS object for the index logic",
    "fake chunked image object implementing shape / n_chunks / chunk_spec / chunk_data like toasty/jpeg2000.py",
]
ASSUMPTIONS = [
    "corner longitudes of a tile fit in a half-turn after unwrapping (hypothesis of bbox_terminates_half_turn; "
    "checked on every generated tile before the compiled function is called, since the C loop would not return)",
    "tile geometry (pixel centres lie inside the tile and inside its corners' lat/unwrapped-lon range) is the "
    "parameter tile_holds of box_filter_complete, owned by C04/C05; here it is exercised end to end",
    "the continuous TAN footprint attains its extremes at (or within a second-order sliver of) a sampled pixel "
    "position, as the code's own comment assumes; projection trigonometry lives in wcslib",
]

FINDING_F7 = "C07/samplers.py:_image_bounds/linspace-n1"
FINDING_POLE = "C07/samplers.py:_image_bounds/pole-interior"

TAU = 6.28318530717958623200      # DEF TWOPI in _libtoasty.pyx:144 (== 2*np.pi)
PI = float(np.pi)
HALFPI = 0.5 * np.pi
THR = 1.5707963
EPS = F(1, 10 ** 9)
FUEL = 80

IMPORTS = ["Model.Quadtree", "Model.Filter"]


def gq(x):
    f = F(x)
    return f"(Qmake ({f.numerator})%Z {f.denominator}%positive)"


def q4(v):
    return "(" + ", ".join(gq(x) for x in v) + ")"


COQ_DEFS = f"""
From Coq Require Import QArith Qabs Qminmax Qround.
Local Open Scope Q_scope.
Definition TAU := {gq(TAU)}. Definition PI := {gq(PI)}. Definition HALFPI := {gq(HALFPI)}.
Definition THR := {gq(THR)}.
Definition EPS := (1 # 1000000000).
Definition TOL := (1 # 1000000000000).
Definition FUEL := {FUEL}%nat.
Definition close (a b : Q) : bool := Qle_bool (Qabs (a - b)) TOL.
Definition close4 (x y : Q4) : bool :=
  let '(a, b, c, d) := x in let '(a', b', c', d') := y in close a a' && close b b' && close c c' && close d d'.
(* A: one tile, many boxes.  code per box: 0 agree, 100 margin too small (not compared), 1 decision differs, 9 fuel *)
Definition chk_box (cs : corners) (bo : box * bool) : nat :=
  match bbox TAU PI THR FUEL cs (fst bo) with
  | None => 9%nat
  | Some r => if Qle_bool (r_margin r) EPS then 100%nat
              else if Bool.eqb (r_dec r) (snd bo) then 0%nat else 1%nat
  end.
Definition chk_tile (c : corners * list (box * bool)) : list nat := map (chk_box (fst c)) (snd c).
(* array after the call *)
Definition chk_arr (c : corners * box * Q4) : nat :=
  let '(cs, bx, arr) := c in
  match bbox TAU PI THR FUEL cs bx with
  | None => 9%nat
  | Some r => if close4 (r_lons r) arr then 0%nat else 2%nat
  end.
(* B: aliasing branches.  repr code: 0 tuple, 1 writable ndarray, 2 read-only ndarray;
   observed: result code (0 False, 1 True, 2 ValueError) and the Tile's longitude column afterwards *)
Definition repr_of (k : nat) : crepr := match k with 0%nat => CTuple | 1%nat => CArrayRW | _ => CArrayRO end.
Definition repr_code (r : crepr) : nat := match r with CTuple => 0%nat | CArrayRW => 1%nat | CArrayRO => 2%nat end.
Definition chk_alias (c : nat * corners * box * nat * Q4) : nat :=
  let '(k, cs, bx, ores, oarr) := c in
  let '(out, t') := latlon_tile_filter TAU PI THR FUEL bx (mkTile (repr_of k) cs) in
  if negb (close4 (lons (t_c t')) oarr) then 3%nat else
  match out with
  | FRaise => if Nat.eqb ores 2 then 0%nat else 4%nat
  | FFuel => 9%nat
  | FRet b m => if Qle_bool m EPS then 100%nat
                else if Nat.eqb ores (if b then 1 else 0)%nat then 0%nat else 1%nat
  end.
Definition chk_repr (c : bool * nat * nat) : nat :=
  let '(planetary, n, obs) := c in
  if Nat.eqb (repr_code (repr_at_level planetary n)) obs then 0%nat else 5%nat.
(* C: chunks *)
Definition chk_cbounds (c : Z * Z * (Z * Z * Z * Z) * Q4) : nat :=
  let '(W, H, (cx, cy, cw, ch), (a, b, lo, hi)) := c in
  let bx := chunk_bounds TAU PI HALFPI W H cx cy cw ch in
  if close (b_lon_min bx) a && close (b_lon_max bx) b && close (b_lat_min bx) lo && close (b_lat_max bx) hi
  then 0%nat else 6%nat.
Definition seam_margin (lon : Q) : Q :=
  let x := (lon + PI) / TAU in
  let f := x - inject_Z (Qfloor x) in Qmin f (1 - f) * TAU.
(* observed: None = masked, Some (iy, ix) = chunk-local source pixel *)
Definition chk_csample (c : Z * Z * (Z * Z * Z * Z) * list (Q * Q * option (Z * Z))) : list nat :=
  let '(W, H, (cx, cy, cw, ch), pts) := c in
  let bx := chunk_bounds TAU PI HALFPI W H cx cy cw ch in
  map (fun p => let '(lon, lat, obs) := p in
     if Qle_bool (Qmin (chunk_sample_margin TAU PI bx cw ch lon lat) (seam_margin lon)) EPS then 100%nat else
     match chunk_sample TAU PI bx cw ch lon lat, obs with
     | None, None => 0%nat
     | Some (iy, ix), Some (oy, ox) => if (iy =? oy)%Z && (ix =? ox)%Z then 0%nat else 7%nat
     | _, _ => 8%nat
     end) pts.
(* model-side whole-map agreement on the same points: the grid of chunks yields exactly the whole-map pixel *)
Definition chk_grid (c : Z * Z * list Z * list Z * list (Q * Q)) : list nat :=
  let '(W, H, cols, rows, pts) := c in
  map (fun p => let '(lon, lat) := p in
     if Qle_bool (Qmin (Qmin (tie_margin (whole_gx TAU PI W lon)) (tie_margin (whole_gy PI HALFPI H lat))) (seam_margin lon)) EPS
     then 100%nat else
     match grid_samples TAU PI HALFPI W H cols rows lon lat with
     | [yx] => if (fst yx =? fst (whole_sample TAU PI HALFPI W H lon lat))%Z &&
                  (snd yx =? snd (whole_sample TAU PI HALFPI W H lon lat))%Z then 0%nat else 7%nat
     | _ => 8%nat
     end) pts.
(* D: _image_bounds sampling positions.  kind 0: refine_lat with extreme at lattice (e1, e2), observed
   (n, first, last) per axis; kind 1: refine_lon at edge index e, observed n and first/last of both columns.
   0 = as coded, 50 = as repaired, else the first relation that differs from both *)
Definition hd_last (l : list Q) : Q * Q := (hd 0 l, last l 0).
Definition obs_axis := (Z * Q * Q)%type.
Definition ax_ok (l : list Q) (o : obs_axis) : bool :=
  let '(n, a, b) := o in (Z.of_nat (length l) =? n)%Z && close (fst (hd_last l)) a && close (snd (hd_last l)) b.
Definition chk_lat_with (extra : Z) (n1 n2 e1 e2 : Z) (o1 o2 : obs_axis) : bool :=
  let '(l1, l2) := refine_lat_axes extra n1 n2 e1 e2 in ax_ok l1 o1 && ax_ok l2 o2.
Definition chk_lon_with (extra : Z) (n1 n2 e : Z) (o1 o2 : obs_axis) : bool :=
  let pts := refine_lon_pts extra n1 n2 e in
  ax_ok (map fst pts) o1 && ax_ok (map snd pts) o2.
Inductive bcase :=
| BLat (n1 n2 e1 e2 : Z) (o1 o2 : obs_axis)
| BLon (n1 n2 e : Z) (o1 o2 : obs_axis)
| BCoarse (n1 n2 : Z) (o1 o2 : obs_axis)
| BUnwrap (vals : list Q) (e : Z) (d : Z).
Definition chk_bounds (c : bcase) : nat :=
  match c with
  | BLat n1 n2 e1 e2 o1 o2 =>
      if chk_lat_with 0 n1 n2 e1 e2 o1 o2 then 0%nat
      else if chk_lat_with 1 n1 n2 e1 e2 o1 o2 then 50%nat else 11%nat
  | BLon n1 n2 e o1 o2 =>
      if chk_lon_with 0 n1 n2 e o1 o2 then 0%nat
      else if chk_lon_with 1 n1 n2 e o1 o2 then 50%nat else 12%nat
  | BCoarse n1 n2 o1 o2 =>
      if ax_ok (map (cidx n1) (zrange 0 32)) o1 && ax_ok (map (cidx n2) (zrange 0 32)) o2 then 0%nat else 13%nat
  | BUnwrap vals e d =>
      match vals with
      | [] => 14%nat
      | v0 :: rest =>
          match unwrap_edge 64 v0 rest with
          | None => 9%nat
          | Some l => let ds := 0%Z :: map snd l in
                      if (nth (Z.to_nat e) ds 0 =? d)%Z then 0%nat else 14%nat
          end
      end
  end.
(* does the sampling as coded look at the coarse extreme?  (the property-level question behind F7) *)
Definition coded_includes (c : bcase) : bool :=
  match c with
  | BLat n1 n2 e1 e2 _ _ =>
      existsb (Qeq_bool (cidx n1 e1)) (refine_axis 0 n1 e1) && existsb (Qeq_bool (cidx n2 e2)) (refine_axis 0 n2 e2)
  | BLon n1 n2 e _ _ =>
      mem_pt (cidx n1 (fst (edge_walk e)), cidx n2 (snd (edge_walk e))) (refine_lon_pts 0 n1 n2 e)
  | _ => true
  end.
"""


# ---------------------------------------------------------------------------
# generic helpers


def quiet():
    return contextlib.redirect_stdout(io.StringIO())


def parse_nested(val):
    """'[[0; 1]; [100]]' -> [[0,1],[100]] ; '[0; 1]' -> [0, 1]"""
    s = val.replace("%nat", "").replace(";", ",")
    s = s.replace("nil", "[]")
    return eval(s, {"__builtins__": {}})  # digits, brackets and commas only


def coq_lists(terms, checker, name, shard, jobs=8):
    """map `checker` over terms (each giving nat or list nat); returns list of results"""
    from concurrent.futures import ThreadPoolExecutor
    shards = [terms[i:i + shard] for i in range(0, len(terms), shard)]

    def one(k):
        body = [COQ_DEFS, "Definition cases__ := [" + ";\n ".join(shards[k]) + "].",
                f"Eval vm_compute in (map {checker} cases__)."]
        out = common.coq_eval("\n".join(body), name=f"{name}_{k}", imports=IMPORTS)
        vals = common.parse_evals(out)
        if not vals:
            raise common.CoqError("no Eval output: " + out[-400:])
        res = parse_nested(vals[-1])
        if len(res) != len(shards[k]):
            raise common.CoqError(f"case count mismatch in {name}_{k}")
        return res

    out = []
    with ThreadPoolExecutor(max_workers=jobs) as ex:
        for r in ex.map(one, range(len(shards))):
            out.extend(r)
    return out


def frac_mod_range(lons):
    """minimal-span unwrapping of four longitudes (exact): returns (tmin, tmax) or None
    when they do not fit in a half-turn.  Independent of the code's loop: cut the
    circle at the largest gap."""
    tau = F(TAU)
    res = sorted((F(x) % tau) for x in lons)
    gaps = [(res[(i + 1) % 4] - res[i]) % tau if i < 3 else (res[0] + tau - res[3]) for i in range(4)]
    i = max(range(4), key=lambda k: gaps[k])
    span = tau - gaps[i]
    if span > F(PI):
        return None
    start = res[(i + 1) % 4]
    return start, start + span


def py_expect(corn, box):
    """The property's own predicate for the bbox test, from the statement: 'T' when
    tile range and box certainly overlap (by more than EPS), 'F' when they are
    certainly apart, '?' within EPS of a tie.  Exact arithmetic."""
    lats = [F(x) for x in corn[:, 1]]
    tmin_lat, tmax_lat = min(lats), max(lats)
    bl0, bl1, ba0, ba1 = (F(x) for x in box)
    m = min(abs(ba0 - tmax_lat), abs(ba1 - tmin_lat))
    if ba0 > tmax_lat or ba1 < tmin_lat:
        return ("F" if m > EPS else "?")
    mp = min(abs(tmax_lat - F(THR)), abs(tmin_lat + F(THR)))
    if tmax_lat > F(THR) or tmin_lat < -F(THR):
        return "T" if min(m, mp) > EPS else "?"
    r = frac_mod_range(corn[:, 0])
    if r is None:
        return "?"
    t0, t1 = r
    tau = F(TAU)
    # overlap of [t0 + n tau, t1 + n tau] with [bl0, bl1] for some integer n
    best = None
    n_lo = math.floor((bl0 - t1) / tau) - 1
    n_hi = math.ceil((bl1 - t0) / tau) + 1
    for n in range(n_lo, n_hi + 1):
        a, b = t0 + n * tau, t1 + n * tau
        ov = min(b, bl1) - max(a, bl0)       # > 0: overlap length, < 0: gap
        best = ov if best is None else max(best, ov)
    if min(m, mp) <= EPS or abs(best) <= EPS:
        return "?"
    return "T" if best > 0 else "F"


# ---------------------------------------------------------------------------
# A. bbox function


def real_tiles(depth, coordsys):
    from toasty import toast
    return list(toast.generate_tiles(depth, bottom_only=False, coordsys=coordsys))


def corner_array(t):
    return np.array([[float(c[0]), float(c[1])] for c in t.corners], dtype=np.float64)


def gen_boxes(rng, corn, k):
    """boxes of every width/origin, many placed relative to the tile so that near misses,
    seam crossings and pole contacts are frequent"""
    lo_t, hi_t = float(np.min(corn[:, 0])), float(np.max(corn[:, 0]))
    la_t, lb_t = float(np.min(corn[:, 1])), float(np.max(corn[:, 1]))
    out = []
    for _ in range(k):
        mode = rng.choice(("rand", "near", "near", "touch", "wide", "seam", "pole", "latmiss"))
        turns = rng.randint(-3, 3) * TAU
        if mode == "rand":
            lo = rng.uniform(-15, 15)
            w = rng.choice((rng.uniform(1e-4, 0.2), rng.uniform(0.2, 3.0), rng.uniform(3.0, 6.5)))
        elif mode == "near":
            w = rng.uniform(0.01, 1.0)
            lo = rng.choice((hi_t + rng.uniform(-0.05, 0.05), lo_t - w + rng.uniform(-0.05, 0.05))) + turns
        elif mode == "touch":
            w = rng.uniform(0.01, 2.0)
            d = rng.choice((1e-6, -1e-6, 1e-8, -1e-8, 3e-10))
            lo = rng.choice((hi_t + d, lo_t - w + d)) + turns
        elif mode == "wide":
            lo = rng.uniform(-20, 20)
            w = rng.uniform(6.0, 14.0)
        elif mode == "seam":
            w = rng.uniform(0.05, 2.5)
            lo = rng.choice((0.0, TAU, -TAU, PI, -PI)) - rng.uniform(0, w)
        else:
            lo = rng.uniform(-7, 7)
            w = rng.uniform(0.1, 6.5)
        if mode == "pole":
            la, lb = rng.choice(((rng.uniform(0.5, 1.55), HALFPI), (-HALFPI, rng.uniform(-1.55, -0.5)),
                                 (-HALFPI, HALFPI), (1.5707, 1.5708), (-2.0, 2.0)))
        elif mode == "latmiss":
            if rng.random() < 0.5:
                la = lb_t + rng.choice((1e-6, 1e-3, 0.2))
                lb = la + rng.uniform(0.01, 0.5)
            else:
                lb = la_t - rng.choice((1e-6, 1e-3, 0.2))
                la = lb - rng.uniform(0.01, 0.5)
        else:
            la = rng.uniform(-1.6, 1.5)
            if rng.random() < 0.4:
                la = la_t + rng.uniform(-0.3, 0.3)
            lb = la + rng.uniform(0.001, 1.5)
        out.append((float(lo), float(lo + w), float(la), float(lb)))
    return out


def synth_corners(rng):
    """four corner longitudes that fit a half-turn after unwrapping, scattered over several sheets"""
    centre = rng.uniform(-7, 7)
    half = rng.uniform(0.001, PI / 2 - 1e-3)
    lons = [centre + rng.uniform(-half, half) + rng.randint(-2, 2) * TAU for _ in range(4)]
    if rng.random() < 0.2:
        lons[rng.randrange(4)] = lons[rng.randrange(4)]      # ties in the network
    la = rng.uniform(-1.5, 1.4)
    lats = [min(max(la + rng.uniform(0, 0.3), -1.57), 1.57) for _ in range(4)]
    if rng.random() < 0.15:
        lats[rng.randrange(4)] = rng.choice((HALFPI, -HALFPI, 1.5707963, 1.5707964))
    return np.array(list(zip(lons, lats)), dtype=np.float64)


def part_A(rng, tier, V, replay=None):
    from toasty._libtoasty import tile_intersects_latlon_bbox as impl
    from toasty.toast import ToastCoordinateSystem as CS
    depth = 6 if tier == "quick" else 7
    pool = []
    for cs in (CS.ASTRONOMICAL, CS.PLANETARY):
        tl = real_tiles(depth, cs)
        shallow = [t for t in tl if t.pos.n <= 3]
        deep = [t for t in tl if t.pos.n > 3]
        k = 95 if tier == "quick" else 620
        pool += [(cs.value, t) for t in shallow[:: (3 if tier == "quick" else 1)]]
        pool += [(cs.value, t) for t in rng.sample(deep, k)]
    nsyn = 60 if tier == "quick" else 300
    items = [(f"{cs}:{tuple(t.pos)}", corner_array(t)) for cs, t in pool]
    items += [(f"synthetic:{i}", synth_corners(rng)) for i in range(nsyn)]
    if replay is not None:
        items.insert(0, ("replay", np.array(replay["corners"], dtype=np.float64)))
    per = 13
    cases, terms = [], []
    nonfit = 0
    for idx, (name, corn) in enumerate(items):
        if frac_mod_range(corn[:, 0]) is None and max(corn[:, 1]) <= THR and min(corn[:, 1]) >= -THR:
            # the compiled loop would not return; a generated tile like this is itself a finding
            nonfit += 1
            if not name.startswith("synthetic"):
                V.disagreement("hypothesis of bbox_terminates_half_turn on a generated tile",
                               dict(kind="bbox", tile=name, corners=corn.tolist()),
                               "corner longitudes fit a half-turn", "they do not", True)
            continue
        boxes = gen_boxes(rng, corn, per)
        if replay is not None and idx == 0:
            boxes = [tuple(replay["box"])] + boxes
        obs = []
        for b in boxes:
            a = corn.copy()
            r = bool(impl(a, *b))
            obs.append((b, r, a))
        cases.append((name, corn, obs))
        terms.append("(mkC %s %s, [%s])" % (
            q4(corn[:, 0]), q4(corn[:, 1]),
            "; ".join(f"(mkBox {gq(b[0])} {gq(b[1])} {gq(b[2])} {gq(b[3])}, {g_bool(r)})" for b, r, _a in obs)))
    codes = coq_lists(terms, "chk_tile", "c07a", shard=30, jobs=12)
    n_cmp = n_skip = n_true = 0
    hist = {}
    nontrivial = set()
    for (name, corn, obs), cl in zip(cases, codes):
        for (b, r, a), code in zip(obs, cl):
            exp = py_expect(corn, b)
            pf = (exp == "T" and not r)
            if code == 100:
                n_skip += 1
            else:
                n_cmp += 1
            n_true += r
            width = b[1] - b[0]
            key = ("w>tau" if width > TAU else "w>pi" if width > PI else "w<=pi") + ("/T" if r else "/F")
            hist[key] = hist.get(key, 0) + 1
            if exp != "?" and code != 100:
                nontrivial.add((name, b))
            if code not in (0, 100) or pf or (exp == "F" and r and False):
                V.disagreement("Filter.v bbox ~ _libtoasty.tile_intersects_latlon_bbox (decision)"
                               if code not in (0, 100) else "bbox_sound on the implementation",
                               dict(kind="bbox", tile=name, corners=corn.tolist(), box=list(b)),
                               dict(model_code=code, predicate=exp), dict(returned=r), pf)
            # in-place effect, judged directly: unchanged unless the sort is reached; then sorted,
            # congruent to the input multiset, span <= pi
            lat_rej = b[2] > max(corn[:, 1]) or b[3] < min(corn[:, 1])
            polar = max(corn[:, 1]) > THR or min(corn[:, 1]) < -THR
            if lat_rej or polar:
                okm = np.array_equal(a, corn)
            else:
                col = a[:, 0]
                okm = np.array_equal(a[:, 1], corn[:, 1]) and all(col[i] <= col[i + 1] for i in range(3)) \
                    and col[3] - col[0] <= PI + 1e-12
                res_in = sorted(((F(x) % F(TAU)) for x in corn[:, 0]))
                res_out = sorted(((F(x) % F(TAU)) for x in col))
                okm = okm and all(min(abs(x - y), F(TAU) - abs(x - y)) < F(1, 10 ** 12) for x, y in zip(res_in, res_out)) \
                    if max(res_in) - min(res_in) < F(TAU) - F(1, 10 ** 9) and all(
                        res_in[i + 1] - res_in[i] > F(1, 10 ** 9) for i in range(3)) else okm
            if not okm:
                V.disagreement("in-place effect of the bbox function on its array (unwrapped_range_meaning)",
                               dict(kind="bbox", tile=name, corners=corn.tolist(), box=list(b)),
                               "unchanged before line 204; sorted unwrapped column after", dict(after=a.tolist()), None)
    # array after the call vs the model's r_lons on a subset
    sub = []
    for (name, corn, obs) in cases[:: max(1, len(cases) // (150 if tier == "quick" else 600))]:
        b, r, a = obs[0]
        sub.append((name, corn, b, a))
    aterms = ["(mkC %s %s, mkBox %s %s %s %s, %s)" % (q4(c[:, 0]), q4(c[:, 1]), gq(b[0]), gq(b[1]), gq(b[2]), gq(b[3]),
                                                      q4(a[:, 0])) for _n, c, b, a in sub]
    acodes = coq_lists(aterms, "chk_arr", "c07m", shard=40, jobs=8)
    for (name, corn, b, a), code in zip(sub, acodes):
        if code != 0:
            V.disagreement("Filter.v r_lons ~ array after tile_intersects_latlon_bbox",
                           dict(kind="bbox", tile=name, corners=corn.tolist(), box=list(b)),
                           dict(model_code=code), dict(after=a.tolist()), None)
    return dict(bbox_decisions=n_cmp + n_skip, bbox_compared=n_cmp, bbox_margin_skipped=n_skip,
                bbox_true=int(n_true), bbox_tiles=len(cases), bbox_array_checks=len(sub),
                bbox_histogram=hist, bbox_nonfit_synthetic=nonfit), nontrivial, \
        [dict(tile=c[0], corners=c[1].tolist(), box=list(c[2][0][0]), returned=c[2][0][1]) for c in cases[:2]]


# ---------------------------------------------------------------------------
# B. _latlon_tile_filter on Tiles


def part_B(rng, tier, V):
    from toasty import toast
    from toasty.samplers import _latlon_tile_filter
    from toasty.toast import ToastCoordinateSystem as CS, Tile
    from toasty.pyramid import Pos
    n_eval = 0
    rterms, rinfo = [], []
    for cs in (CS.ASTRONOMICAL, CS.PLANETARY):
        planetary = cs == CS.PLANETARY
        for bx in [(0.3, 1.2, -0.4, 0.9), (-3.0, 9.0, -1.5, 1.5), (5.9, 6.6, 0.1, 0.2), (1.0, 1.1, 1.3, 1.5)]:
            flt = _latlon_tile_filter(*bx)
            tiles = real_tiles(3, cs)
            for t in tiles:
                c = t.corners
                if isinstance(c, np.ndarray):
                    code = 1 if c.flags.writeable else 2
                    before = c.copy()
                elif isinstance(c, tuple):
                    code = 0
                    before = tuple(tuple(float(v) for v in x) for x in c)
                else:
                    code = 7
                    before = None
                try:
                    res = flt(t)
                    exc = None
                except Exception as e:  # noqa: BLE001
                    res, exc = None, repr(e)
                n_eval += 1
                after = t.corners
                same = (type(after) is type(c)) and (
                    np.array_equal(after, before) if isinstance(c, np.ndarray)
                    else tuple(tuple(float(v) for v in x) for x in after) == before)
                direct = None
                if exc is None:
                    from toasty._libtoasty import tile_intersects_latlon_bbox as impl
                    direct = bool(impl(corner_array(t), *bx))
                if exc is not None or not same or bool(res) != direct:
                    V.disagreement("filter_pure on a generated Tile", dict(kind="filter", coordsys=cs.value,
                                   pos=list(t.pos), box=list(bx)),
                                   "tile unchanged, no exception, result = bbox(corners)",
                                   dict(exc=exc, unchanged=same, result=res, direct=direct), True)
                if bx == (0.3, 1.2, -0.4, 0.9):
                    rterms.append(f"({g_bool(planetary)}, {t.pos.n}%nat, {code}%nat)")
                    rinfo.append((cs.value, tuple(t.pos), code))
    codes = coq_lists(rterms, "chk_repr", "c07r", shard=400, jobs=2)
    for info, code in zip(rinfo, codes):
        if code != 0:
            V.disagreement("Filter.v repr_at_level ~ type of Tile.corners", dict(kind="repr", tile=list(info)),
                           "level 1: ndarray (read-only unless planetary); deeper: tuple", dict(observed=info[2]), None)
    # the asserts of _latlon_tile_filter (box_ok)
    for bad in [(1.0, 1.0, 0.0, 1.0), (2.0, 1.0, 0.0, 1.0), (0.0, 1.0, 0.5, 0.5), (0.0, 1.0, 0.6, 0.5)]:
        try:
            _latlon_tile_filter(*bad)
            V.disagreement("box_ok (asserts at samplers.py 720-721)", dict(kind="box_ok", box=list(bad)),
                           "AssertionError", "accepted", None)
        except AssertionError:
            pass
    # aliasing branches of the model on hand-made Tiles (no generator makes these)
    aterms, ainfo = [], []
    n_alias = 30 if tier == "quick" else 150
    for i in range(n_alias):
        corn = synth_corners(rng)
        k = rng.choice((0, 1, 2))
        bx = gen_boxes(rng, corn, 1)[0]
        if frac_mod_range(corn[:, 0]) is None:
            continue
        if k == 0:
            tc = tuple((float(a), float(b)) for a, b in corn)
        else:
            tc = corn.copy()
            tc.flags.writeable = (k == 1)
        t = Tile(Pos(5, 0, 0), tc, True)
        try:
            r = 1 if _latlon_tile_filter(*bx)(t) else 0
        except ValueError:
            r = 2
        after = np.array([[float(a), float(b)] for a, b in t.corners])
        aterms.append("(%d%%nat, mkC %s %s, mkBox %s %s %s %s, %d%%nat, %s)" % (
            k, q4(corn[:, 0]), q4(corn[:, 1]), gq(bx[0]), gq(bx[1]), gq(bx[2]), gq(bx[3]), r, q4(after[:, 0])))
        ainfo.append((k, corn, bx, r, after))
    codes = coq_lists(aterms, "chk_alias", "c07al", shard=60, jobs=4)
    for (k, corn, bx, r, after), code in zip(ainfo, codes):
        if code not in (0, 100):
            V.disagreement("Filter.v latlon_tile_filter aliasing (np.asarray view / copy / read-only)",
                           dict(kind="alias", repr=k, corners=corn.tolist(), box=list(bx)),
                           dict(model_code=code), dict(result=r, after=after.tolist()), None)
    return dict(filter_tile_calls=n_eval, alias_cases=len(ainfo))


# ---------------------------------------------------------------------------
# C. chunks


class FakeChunked:
    """Stand-in for toasty.jpeg2000.ChunkedJPEG2000Reader: same four members."""

    def __init__(self, data, cols, rows):
        self._data = data
        self._spec = []
        y = 0
        for h in rows:
            x = 0
            for w in cols:
                self._spec.append((x, y, w, h))
                x += w
            y += h

    @property
    def shape(self):
        return self._data.shape

    @property
    def n_chunks(self):
        return len(self._spec)

    def chunk_spec(self, ichunk):
        if ichunk < 0 or ichunk >= self.n_chunks:
            raise ValueError("bad ichunk")
        return self._spec[ichunk]

    def chunk_data(self, ichunk):
        x, y, w, h = self._spec[ichunk]
        return self._data[y:y + h, x:x + w]


def rand_split(rng, total, parts):
    cuts = sorted(rng.sample(range(1, total), parts - 1)) if parts > 1 else []
    edges = [0] + cuts + [total]
    return [edges[i + 1] - edges[i] for i in range(parts)]


def read_pyramid(base):
    """{relative path: decoded array in display orientation}"""
    from toasty.image import ImageLoader
    out = {}
    for root, _d, files in os.walk(base):
        for fn in files:
            if fn.endswith(".lock"):
                continue
            p = os.path.join(root, fn)
            rel = os.path.relpath(p, base)
            if fn.endswith(".npy"):
                out[rel] = np.load(p)
            else:
                out[rel] = ImageLoader().load_path(p).asarray()
    return out


def diff_pyramids(a, b):
    """list of (path, what) where the two decoded pyramids differ"""
    out = []
    for k in sorted(set(a) | set(b)):
        if k not in a:
            out.append((k, "missing-in-first"))
        elif k not in b:
            out.append((k, "missing-in-second"))
        else:
            x, y = a[k], b[k]
            if x.shape != y.shape or not np.array_equal(x, y, equal_nan=(x.dtype.kind == "f")):
                nbad = int(np.sum(~((x == y) | ((x != x) & (y != y))))) if x.shape == y.shape else -1
                out.append((k, f"{nbad} pixels differ"))
    return out


def only_ties(rel, A, B, W, H, fmt):
    """True when the two decoded tiles differ only at pixels whose real-valued source index is within
    1e-9 of a rounding tie (there either neighbouring source pixel is a correct answer)."""
    from toasty import toast
    from toasty.pyramid import Pos
    from toasty.toast import ToastCoordinateSystem as CS
    if rel not in A or rel not in B or A[rel].shape != B[rel].shape:
        return False
    n, y, fn = rel.split(os.sep)
    x = fn.split(".")[0].split("_")[1]
    import corr_C06
    lon, lat = corr_C06.expected_coords(CS.PLANETARY, (int(n), int(x), int(y)))     # handles the level-0 tile
    gx = (((lon + np.pi) % (2 * np.pi)) / (2 * np.pi)) * W - 0.5
    gy = ((HALFPI - lat) / np.pi) * H - 0.5
    tie = (np.abs(gx - np.floor(gx) - 0.5) < 1e-9) | (np.abs(gy - np.floor(gy) - 0.5) < 1e-9)
    a, b = A[rel], B[rel]
    neq = ~((a == b) | ((a != a) & (b != b))) if a.dtype.kind == "f" else (a != b)
    if neq.ndim == 3:
        neq = neq.any(axis=-1)
    return not bool(np.any(neq & ~tie))


def part_C(rng, tier, V, replay=None):
    from toasty import toast
    from toasty.samplers import ChunkedPlateCarreeSampler, plate_carree_planet_sampler
    from toasty.toast import ToastCoordinateSystem as CS, sample_layer, sample_layer_filtered
    from toasty.pyramid import PyramidIO, Pos
    from toasty._libtoasty import tile_intersects_latlon_bbox as impl
    work = common.workdir()
    grids = [(1, 1), (2, 1), (1, 2), (2, 2), (3, 2), (4, 3), (3, 3), (4, 1)]
    if tier == "thorough":
        grids += [(nc, nr) for nc in range(1, 5) for nr in range(1, 4)]
    bterms, binfo, sterms, sinfo, gterms, ginfo = [], [], [], [], [], []
    n_e2e = 0
    specs = []
    for gi, (nc, nr) in enumerate(grids):
        W = rng.randint(max(nc, 4), 40)
        H = rng.randint(max(nr, 3), 24)
        if tier == "thorough":
            depth = rng.choice((1, 2, 2, 3)) if nc * nr <= 6 else rng.choice((1, 2))
        else:
            depth = 2 if nc * nr <= 2 else 1
        specs.append((W, H, rand_split(rng, W, nc), rand_split(rng, H, nr), rng.choice(("f32", "rgb")), depth))
    # chunk-by-chunk sampling of the whole-sphere tile (depth 0)
    specs.append((24, 12, rand_split(rng, 24, 3), rand_split(rng, 12, 2), "f32", 0))
    if replay is not None:
        specs.insert(0, (replay["W"], replay["H"], replay["cols"], replay["rows"], replay["mode"], replay["depth"]))
    for gi, (W, H, cols, rows, mode, depth) in enumerate(specs):
        if mode == "f32":
            glob = (np.arange(W * H, dtype=np.float32) + 1).reshape(H, W)
        else:
            idx = np.arange(W * H).reshape(H, W) + 1
            glob = np.stack([idx % 251, (idx // 251) % 251, (idx * 7) % 251], axis=-1).astype(np.uint8)
        img = FakeChunked(glob, cols, rows)
        chunker = ChunkedPlateCarreeSampler(img, planetary=True)
        case = dict(kind="chunks", W=W, H=H, cols=cols, rows=rows, mode=mode, depth=depth)
        # bounds + filter wiring
        some_tiles = rng.sample(real_tiles(3, CS.PLANETARY), 12)
        for ic in range(chunker.n_chunks):
            spec = img.chunk_spec(ic)
            bnd = chunker._chunk_bounds(ic)
            bterms.append("(%s, %s, (%s, %s, %s, %s), %s)" % (g_Z(W), g_Z(H), *[g_Z(v) for v in spec], q4(bnd)))
            binfo.append((case, ic, spec, bnd))
            flt = chunker.filter(ic)
            for t in some_tiles:
                if bool(flt(t)) != bool(impl(corner_array(t), *bnd)):
                    V.disagreement("ChunkedPlateCarreeSampler.filter = bbox filter of _chunk_bounds", dict(case, ichunk=ic,
                                   pos=list(t.pos)), "same decision", "differs", None)
        # chunk sampler on the pixel grid of a real tile: a sample of pixels goes to Coq
        t = rng.choice(some_tiles)
        lon, lat = toast.toast_tile_get_coords(t)
        pick = [(rng.randrange(256), rng.randrange(256)) for _ in range(10)]
        for ic in range(chunker.n_chunks):
            x0, y0, cw, ch = img.chunk_spec(ic)
            out = np.array(chunker.sampler(ic)(lon, lat))
            pts = []
            for (i, j) in pick:
                v = out[i, j]
                if mode == "f32":
                    o = None if not np.isfinite(v) else divmod(int(v) - 1, W)
                else:
                    if v[3] == 0:
                        o = None
                    else:
                        cand = np.argwhere(np.all(glob == v[:3], axis=-1))
                        o = tuple(int(q) for q in cand[0]) if len(cand) == 1 else ("ambiguous",)
                if o is not None and len(o) == 2:
                    o = (o[0] - y0, o[1] - x0)
                if o is not None and len(o) != 2:
                    continue
                pts.append((float(lon[i, j]), float(lat[i, j]), o))
            sterms.append("(%s, %s, (%s, %s, %s, %s), [%s])" % (
                g_Z(W), g_Z(H), g_Z(x0), g_Z(y0), g_Z(cw), g_Z(ch),
                "; ".join("(%s, %s, %s)" % (gq(a), gq(b), "(@None (Z * Z))" if o is None else f"(Some ({g_Z(o[0])}, {g_Z(o[1])}))")
                          for a, b, o in pts)))
            sinfo.append((case, ic, pts))
        gterms.append("(%s, %s, %s, %s, [%s])" % (g_Z(W), g_Z(H), g_list([g_Z(c) for c in cols]), g_list([g_Z(r) for r in rows]),
                                                   "; ".join(f"({gq(float(lon[i, j]))}, {gq(float(lat[i, j]))})" for i, j in pick)))
        ginfo.append((case, pick))
        # end to end: all chunks one after another with update  ==  whole-map sampling
        fmt = "npy" if mode == "f32" else "png"
        da, db = work / f"cA{gi}", work / f"cB{gi}"
        for d in (da, db):
            shutil.rmtree(d, ignore_errors=True)
        pa, pb = PyramidIO(str(da), default_format=fmt), PyramidIO(str(db), default_format=fmt)
        with quiet():
            for ic in range(chunker.n_chunks):
                sample_layer_filtered(pa, chunker.filter(ic), chunker.sampler(ic), depth, coordsys=CS.PLANETARY, parallel=1)
            sample_layer(pb, plate_carree_planet_sampler(glob), depth, coordsys=CS.PLANETARY, parallel=1)
        A, B = read_pyramid(str(da)), read_pyramid(str(db))
        if mode == "rgb":
            A = {k: v[..., :3] if (v.ndim == 3 and v.shape[2] == 4 and np.all(v[..., 3] == 255)) else v for k, v in A.items()}
            B = {k: v[..., :3] if (v.ndim == 3 and v.shape[2] == 4) else v for k, v in B.items()}
        n_e2e += 1
        d = [x for x in diff_pyramids(A, B) if not only_ties(x[0], A, B, W, H, fmt)]
        expected_files = 4 ** depth
        if d or len(B) != expected_files:
            V.disagreement("chunks_cover + chunk_unmasked_in_box + box_filter_complete, end to end "
                           "(sequential chunk sampling with update == whole-map sampling)",
                           case, f"{expected_files} identical tiles", dict(differences=d[:6], files=(len(A), len(B))), True)
        shutil.rmtree(da, ignore_errors=True)
        shutil.rmtree(db, ignore_errors=True)
    from concurrent.futures import ThreadPoolExecutor
    with ThreadPoolExecutor(max_workers=3) as ex:
        fb = ex.submit(coq_lists, bterms, "chk_cbounds", "c07cb", 30, 3)
        fs = ex.submit(coq_lists, sterms, "chk_csample", "c07cs", 8, 8)
        fg = ex.submit(coq_lists, gterms, "chk_grid", "c07cg", 2, 6)
        codes, scodes, gcodes = fb.result(), fs.result(), fg.result()
    for (case, ic, spec, bnd), code in zip(binfo, codes):
        if code != 0:
            V.disagreement("Filter.v chunk_bounds ~ ChunkedPlateCarreeSampler._chunk_bounds", dict(case, ichunk=ic),
                           dict(model_code=code), dict(spec=list(spec), bounds=list(bnd)), None)
    n_pts = n_cmp = 0
    for (case, ic, pts), cl in zip(sinfo, scodes):
        for (a, b, o), code in zip(pts, cl):
            n_pts += 1
            n_cmp += code != 100
            if code not in (0, 100):
                V.disagreement("Filter.v chunk_sample ~ ChunkedPlateCarreeSampler.sampler (mask and source pixel)",
                               dict(case, ichunk=ic, lon=a, lat=b), dict(model_code=code), dict(observed=o), None)
    for (case, pick), cl in zip(ginfo, gcodes):
        for code in cl:
            if code not in (0, 100):
                V.disagreement("chunks_cover evaluated on the model", case, "singleton = whole-map pixel", dict(model_code=code), None)
    return dict(chunk_grids=len(specs), chunk_bounds_checked=len(binfo), chunk_sample_points=n_pts,
                chunk_sample_compared=n_cmp, chunk_e2e_runs=n_e2e), \
        [dict(s[0], ichunk=s[1]) for s in sinfo[:1]]


# ---------------------------------------------------------------------------
# D. _image_bounds index logic


class FakeWcs:
    """wcs_pix2world(pix, 1) with a synthetic, exactly representable world function;
    records the pixel arrays it is asked about."""

    def __init__(self, fn):
        self.fn = fn
        self.calls = []

    def wcs_pix2world(self, pix, origin):
        assert origin == 1
        pix = np.asarray(pix, dtype=float)
        self.calls.append(pix.copy())
        return self.fn(pix)

    def wcs_world2pix(self, world, origin):
        # the synthetic world function has no poles inside the image
        return np.full((len(world), 2), np.nan)


def make_world_fn(rng, n1, n2):
    """lat peaks at a chosen pixel position (possibly interior, possibly on the rim);
    lon varies along the rim with its extreme at a chosen place and may wrap.
    All values are multiples of 1/64 degree so that they are exact rationals."""
    px, py = rng.uniform(0.5, n1 + 0.5), rng.uniform(0.5, n2 + 0.5)
    if rng.random() < 0.5:
        px = rng.choice((0.5, n1 + 0.5, px))
        py = rng.choice((0.5, n2 + 0.5, py))
    sign = rng.choice((1, -1))
    ang = rng.uniform(0, 2 * math.pi)
    lon0 = rng.choice((0.0, 10.0, 180.0, 350.0, 359.0))
    amp = rng.choice((5.0, 40.0, 170.0))
    sc = max(n1, n2)

    def fn(pix):
        x, y = pix[:, 0], pix[:, 1]
        lat = sign * (60.0 - 50.0 * (np.hypot((x - px) / sc, (y - py) / sc)))
        u = ((x - 0.5) / n1 - 0.5) * math.cos(ang) + ((y - 0.5) / n2 - 0.5) * math.sin(ang)
        lon = (lon0 + amp * u) % 360.0
        return np.stack([np.round(lon * 64) / 64, np.round(lat * 64) / 64], axis=1)

    return fn


def py_unwrap(vals):
    out, deltas = [vals[0]], [0]
    for v in vals[1:]:
        v0, v1, d = out[-1], v, 0
        while v1 - v0 > 180:
            v1 -= 360
            d -= 1
        while v0 - v1 > 180:
            v1 += 360
            d += 1
        out.append(v1)
        deltas.append(d)
    return np.array(out), deltas


def axis_obs(arr):
    return f"({g_Z(len(arr))}, {gq(float(arr[0]))}, {gq(float(arr[-1]))})"


def part_D(rng, tier, V, replay=None):
    from toasty.samplers import WcsSampler
    D2R = np.pi / 180
    n_cases = 60 if tier == "quick" else 400
    sizes = [(1, 1), (31, 31), (10, 200), (2, 3), (15, 16), (32, 33), (200, 200), (64, 5)]
    while len(sizes) < n_cases:
        pick = rng.choice(("small", "small", "mid", "any"))
        hi = dict(small=34, mid=80, any=200)[pick]
        sizes.append((rng.randint(1, hi), rng.randint(1, hi)))
    if replay is not None:
        sizes.insert(0, tuple(replay["naxis"]))
    terms, info = [], []
    for ci, (n1, n2) in enumerate(sizes):
        sub = common.rng_for(rng.random(), "D", ci) if replay is None or ci else common.rng_for(replay.get("subseed", 0), "D")
        subseed = sub.random()
        sub = common.rng_for(subseed, "fn")
        fn = make_world_fn(sub, n1, n2)
        w = FakeWcs(fn)
        s = WcsSampler(np.zeros((n2, n1)), w)
        try:
            bounds = s._image_bounds()
        except Exception as e:  # noqa: BLE001
            V.disagreement("_image_bounds runs", dict(kind="bounds", naxis=[n1, n2], subseed=subseed), "returns", repr(e), None)
            continue
        case = dict(kind="bounds", naxis=[n1, n2], subseed=subseed)
        calls = w.calls
        if len(calls) != 5:
            V.disagreement("_image_bounds call structure (coarse, 2 x refine_lat, 2 x refine_lon)", case, 5, len(calls), None)
            continue
        coarse = calls[0].reshape(32, 32, 2)
        world = fn(calls[0]).reshape(32, 32, 2)
        terms.append(f"(BCoarse {g_Z(n1)} {g_Z(n2)} {axis_obs(coarse[:, 0, 0])} {axis_obs(coarse[0, :, 1])})")
        info.append((case, "coarse", None))
        clat = world[..., 1]
        # the same coarse numbers the code saw -> the same argmin/argmax
        for k, op in ((1, np.argmin), (2, np.argmax)):
            e1, e2 = np.unravel_index(op(clat), clat.shape)
            pts = calls[k]
            # refined_pix has shape (n1r, n2r, 2) with idx1 varying along axis 0: the leading
            # run of rows sharing the first idx1 value has length n2r
            n2r = 1
            while n2r < len(pts) and pts[n2r, 0] == pts[0, 0]:
                n2r += 1
            if len(pts) % n2r:
                n2r = len(pts)
            grid = pts.reshape(-1, n2r, 2)
            a1, a2 = grid[:, 0, 0], grid[0, :, 1]
            regular = np.array_equal(grid[..., 0], np.repeat(a1[:, None], n2r, axis=1)) and \
                np.array_equal(grid[..., 1], np.repeat(a2[None, :], len(a1), axis=0)) and evenly(a1) and evenly(a2)
            terms.append(f"(BLat {g_Z(n1)} {g_Z(n2)} {g_Z(e1)} {g_Z(e2)} {axis_obs(a1)} {axis_obs(a2)})")
            # value-level predicate: the returned bound is at least as extreme as every coarse sample
            ret = bounds[2] if k == 1 else bounds[3]
            ext = float(clat.min() if k == 1 else clat.max()) * D2R
            short = (ret - ext) if k == 1 else (ext - ret)
            info.append((case, "lat-min" if k == 1 else "lat-max", dict(e=[int(e1), int(e2)], regular=bool(regular),
                         short_deg=float(short / D2R), n=[len(a1), len(a2)])))
        clon = world[..., 0]
        nm = 31
        edge = np.empty(4 * nm + 1)
        edge[0:nm] = clon[:nm, 0]
        edge[nm:2 * nm] = clon[nm, :nm]
        edge[2 * nm:3 * nm] = clon[-1:0:-1, nm]
        edge[3 * nm:] = clon[0, -1::-1]
        un, deltas = py_unwrap(list(edge))
        for k, op in ((3, np.argmin), (4, np.argmax)):
            e = int(op(un))
            pts = calls[k]
            terms.append(f"(BLon {g_Z(n1)} {g_Z(n2)} {g_Z(e)} {axis_obs(pts[:, 0])} {axis_obs(pts[:, 1])})")
            ret = bounds[0] if k == 3 else bounds[1]
            ext = float(un.min() if k == 3 else un.max()) * D2R
            short = (ret - ext) if k == 3 else (ext - ret)
            raw = fn(pts)[:, 0]
            # delta actually applied = (returned - raw extreme) / 360
            dd = {int(round((ret / D2R - r) / 360.0)) for r in raw if abs(((ret / D2R - r) / 360.0) - round((ret / D2R - r) / 360.0)) < 1e-9}
            info.append((case, "lon-min" if k == 3 else "lon-max", dict(e=e, regular=bool(evenly(pts[:, 0]) and evenly(pts[:, 1])),
                         short_deg=float(short / D2R), n=[len(pts)], delta_model=deltas[e], delta_seen=sorted(dd))))
            terms.append("(BUnwrap %s %s %s)" % (g_list([gq(float(v)) for v in edge]), g_Z(e),
                                                 g_Z(sorted(dd)[0] if len(dd) == 1 else deltas[e])))
            info.append((case, "unwrap", dict(e=e, ambiguous=len(dd) != 1)))
    codes = coq_lists(terms, "chk_bounds", "c07d", shard=120, jobs=8)
    incl = coq_lists(terms, "(fun c => if coded_includes c then 1%nat else 0%nat)", "c07di", shard=120, jobs=8)
    n_coded = n_fixed = n_f7 = 0
    for (case, what, ob), code, inc in zip(info, codes, incl):
        if what in ("coarse", "unwrap"):
            if code != 0:
                V.disagreement("Filter.v cidx/unwrap_edge ~ _image_bounds (" + what + ")", case, "model", dict(model_code=code, obs=ob), None)
            continue
        n_coded += code == 0
        n_fixed += code == 50
        if code not in (0, 50) or not ob["regular"]:
            V.disagreement("Filter.v refine_lat_axes/refine_lon_pts ~ _image_bounds sampling positions (" + what + ")",
                           case, "as coded (extra=0) or as repaired (extra=1)", dict(model_code=code, obs=ob), None)
            continue
        fails = ob["short_deg"] > 1e-9          # refined extreme less extreme than a coarse sample
        if fails:
            # F7: the code as it stands, sampling that (per the model) skips the coarse extreme
            is_f7 = (code == 0 and inc == 0)
            n_f7 += is_f7
            V.disagreement("refine_includes_coarse (refuted for the code as it stands: refine_includes_coarse_refuted)",
                           dict(case, which=what), "returned bound at least as extreme as every coarse sample",
                           dict(short_by_deg=ob["short_deg"], samples=ob["n"], e=ob["e"]), True,
                           finding_key=FINDING_F7 if is_f7 else None)
        elif code == 0 and inc == 0 and what.startswith("lat"):
            pass   # extreme skipped but a neighbour happened to be as extreme; nothing observable
    return dict(bounds_cases=len(sizes), bounds_refinements=n_coded + n_fixed, bounds_as_coded=n_coded,
                bounds_as_repaired=n_fixed, bounds_short_of_coarse=n_f7), \
        [dict(info[1][0], which=info[1][1], obs=info[1][2])] if len(info) > 1 else []


def evenly(a):
    a = np.asarray(a, dtype=float)
    if len(a) < 3:
        return True
    d = np.diff(a)
    return bool(np.all(np.abs(d - d[0]) < 1e-9))


# ---------------------------------------------------------------------------
# E. boxes end to end


def box_sampler(box):
    lo, hi, la, lb = box

    def samp(lon, lat):
        inside = (lat >= la) & (lat <= lb)
        if hi - lo < 2 * np.pi:
            inside &= ((lon - lo) % (2 * np.pi)) <= (hi - lo)
        val = 1.0 + (lon % (2 * np.pi)) + 10.0 * lat
        return np.where(inside, val, np.nan)

    return samp


def run_pair(work, tag, flt, sampler, depth, coordsys, fmt="npy"):
    from toasty.toast import sample_layer, sample_layer_filtered
    from toasty.pyramid import PyramidIO
    da, db = work / f"{tag}A", work / f"{tag}B"
    for d in (da, db):
        shutil.rmtree(d, ignore_errors=True)
    pa, pb = PyramidIO(str(da), default_format=fmt), PyramidIO(str(db), default_format=fmt)
    with quiet():
        sample_layer_filtered(pa, flt, sampler, depth, coordsys=coordsys, parallel=1)
        sample_layer(pb, sampler, depth, coordsys=coordsys, parallel=1)
    A, B = read_pyramid(str(da)), read_pyramid(str(db))
    shutil.rmtree(da, ignore_errors=True)
    shutil.rmtree(db, ignore_errors=True)
    return A, B


def part_E(rng, tier, V, replay=None):
    from toasty.samplers import _latlon_tile_filter
    from toasty.toast import ToastCoordinateSystem as CS
    work = common.workdir()
    boxes = [((0.3, 1.2, -0.4, 0.9), 2, "astronomical"), ((6.0, 6.9, -1.5, -1.2), 3, "planetary"),
             ((-0.2, 0.1, 1.2, HALFPI), 2, "astronomical"), ((2.0, 9.5, -0.1, 0.1), 2, "planetary"),
             # the whole-sphere tile (depth 0: its grid is built by the sampler itself) and depth 1, both systems
             ((0.3, 1.2, -0.4, 0.9), 0, "planetary"), ((2.0, 9.5, -0.1, 0.1), 0, "astronomical"),
             ((6.0, 6.9, -1.5, -1.2), 1, "planetary")]
    n = 2 if tier == "quick" else 14
    for _ in range(n):
        lo = rng.uniform(-10, 10)
        w = rng.choice((rng.uniform(0.02, 0.5), rng.uniform(0.5, 3), rng.uniform(6.3, 8)))
        la = rng.uniform(-1.57, 1.3)
        lb = min(la + rng.uniform(0.02, 1.0), HALFPI)
        boxes.append(((lo, lo + w, la, lb), rng.choice((2, 2, 3)) if tier == "quick" else rng.choice((2, 3, 4)),
                      rng.choice(("astronomical", "planetary"))))
    if replay is not None:
        boxes.insert(0, (tuple(replay["box"]), replay["depth"], replay["coordsys"]))
    n_pruned = 0
    for i, (box, depth, csn) in enumerate(boxes):
        cs = CS(csn)
        A, B = run_pair(work, f"e{i}", _latlon_tile_filter(*box), box_sampler(box), depth, cs)
        d = diff_pyramids(A, B)
        n_pruned += len(B) < 4 ** depth
        if d:
            V.disagreement("filtered_eq_unfiltered, lat/lon box, end to end (sample_layer_filtered == sample_layer)",
                           dict(kind="box_e2e", box=list(box), depth=depth, coordsys=csn),
                           "identical file sets and pixels", dict(differences=d[:6], files=(len(A), len(B))), True)
    return dict(box_e2e_runs=len(boxes), box_e2e_with_empty_tiles=n_pruned), \
        [dict(kind="box_e2e", box=list(boxes[0][0]), depth=boxes[0][1], coordsys=boxes[0][2])]


# ---------------------------------------------------------------------------
# F. TAN images


def mk_tan(nx, ny, ra, dec, scale, rot, parity):
    from astropy.wcs import WCS
    w = WCS(naxis=2)
    w.wcs.ctype = ["RA---TAN", "DEC--TAN"]
    w.wcs.crval = [ra, dec]
    w.wcs.crpix = [(nx + 1) / 2, (ny + 1) / 2]
    r = np.radians(rot)
    w.wcs.cd = scale * np.array([[-np.cos(r), np.sin(r) * parity], [np.sin(r), np.cos(r) * parity]])
    return w


def true_bounds(w, nx, ny, bounds):
    """dense scan of the image rim (and interior for latitude): the footprint's real extent,
    longitudes unwrapped next to the code's own lon_min"""
    t = np.linspace(0.5, nx + 0.5, 8 * nx + 1)
    u = np.linspace(0.5, ny + 0.5, 8 * ny + 1)
    rim = np.concatenate([np.stack([t, np.full_like(t, 0.5)], 1), np.stack([t, np.full_like(t, ny + 0.5)], 1),
                          np.stack([np.full_like(u, 0.5), u], 1), np.stack([np.full_like(u, nx + 0.5), u], 1)])
    wr = w.wcs_pix2world(rim, 1)
    gx, gy = np.meshgrid(np.linspace(0.5, nx + 0.5, 4 * min(nx, 60) + 1), np.linspace(0.5, ny + 0.5, 4 * min(ny, 60) + 1))
    wi = w.wcs_pix2world(np.stack([gx.ravel(), gy.ravel()], 1), 1)
    lat = np.radians(np.concatenate([wr[:, 1], wi[:, 1]]))
    mid = 0.5 * (bounds[0] + bounds[1])
    lon = np.radians(wr[:, 0])
    lon = mid + ((lon - mid + np.pi) % (2 * np.pi) - np.pi)
    return float(lon.min()), float(lon.max()), float(lat.min()), float(lat.max())


def interior_poles(w, nx, ny):
    """which poles (+1 north, -1 south) project inside the image rectangle"""
    out = []
    for sgn in (1, -1):
        with np.errstate(all="ignore"):
            p = w.wcs_world2pix(np.array([[0.0, 90.0 * sgn]]), 1)[0]
        if np.all(np.isfinite(p)) and 0.5 <= p[0] <= nx + 0.5 and 0.5 <= p[1] <= ny + 0.5:
            out.append(sgn)
    return out


def pole_probe(V, case, flt, samp, sgn, short_rad):
    """The tile with a corner at the pole, at a depth where it is smaller than the
    shortfall of the latitude bound: every pixel centre is inside the image; is the
    tile (and its ancestors) accepted?"""
    from toasty import toast
    from toasty.pyramid import Pos
    if short_rad <= 0:
        return 0
    d = min(20, max(3, int(math.ceil(math.log2(math.pi / short_rad))) + 1))
    chain = []
    for k in range(1, d + 1):
        pos = Pos(k, 0, 0) if sgn < 0 else Pos(k, 2 ** (k - 1), 2 ** (k - 1))
        chain.append(bool(flt(toast.create_single_tile(pos))))
    t = toast.create_single_tile(pos)
    lon, lat = toast.toast_tile_get_coords(t)
    n = int(np.isfinite(samp(lon, lat)).sum())
    if n and not all(chain):
        V.disagreement("box_filter_complete for an image footprint containing a pole: latitude bound stops short of "
                       "the pole, so the small tiles around it are rejected although they hold data",
                       dict(case, kind="tan", pole=sgn), "tile and ancestors accepted",
                       dict(tile=list(pos), pixel_centres_inside=n, first_rejected_level=chain.index(False) + 1,
                            lat_bound_short_deg=math.degrees(short_rad)), True, finding_key=FINDING_POLE)
        return 1
    return 0


def tan_case(V, case, n_single, want_e2e, work, tag):
    """One generated image: (a) shortfall of _image_bounds against the dense scan,
    (b) the property predicate on the tiles the real filter rejects near the rim,
    (c) optionally sample_layer_filtered == sample_layer."""
    from toasty import toast
    from toasty.samplers import WcsSampler, _latlon_tile_filter
    from toasty.toast import ToastCoordinateSystem as CS
    nx, ny, ra, dec, scale, rot, parity, depth = (case[k] for k in ("nx", "ny", "ra", "dec", "scale", "rot", "parity", "depth"))
    w = mk_tan(nx, ny, ra, dec, scale, rot, parity)
    data = (np.arange(nx * ny, dtype=np.float64) + 1).reshape(ny, nx)
    s = WcsSampler(data, w)
    bounds = s._image_bounds()
    flt, samp = s.filter(), s.sampler()
    tb = list(true_bounds(w, nx, ny, bounds))
    poles = interior_poles(w, nx, ny)
    if 1 in poles:
        tb[3] = HALFPI
    if -1 in poles:
        tb[2] = -HALFPI
    px = math.radians(scale)
    short = [(bounds[0] - tb[0]) / px, (tb[1] - bounds[1]) / px, (bounds[2] - tb[2]) / px, (tb[3] - bounds[3]) / px]
    if poles:
        short[0] = short[1] = 0.0      # all longitudes are covered when a pole is inside (checked below)
    # the F7 condition: some refinement window of this image spans <= 1 pixel (axes <= 31 px)
    f7_possible = min(nx, ny) <= 31
    side = int(np.argmax(short))
    worst = short[side]
    pole_side = (side == 3 and 1 in poles) or (side == 2 and -1 in poles)
    key = FINDING_POLE if pole_side else (FINDING_F7 if f7_possible else None)
    n_probe = 0
    for sgn in poles:
        sh = (HALFPI - bounds[3]) if sgn > 0 else (bounds[2] + HALFPI)
        n_probe += pole_probe(V, case, flt, samp, sgn, sh)
        if bounds[1] - bounds[0] < 2 * np.pi - 1e-6:
            V.disagreement("image containing a pole covers all longitudes", dict(case, kind="tan"), ">= 2 pi",
                           dict(lon_span=bounds[1] - bounds[0]), None)
    # candidate tiles: in the true footprint's box (slightly enlarged) but rejected by the real filter
    m = 0.02 * px
    big = _latlon_tile_filter(tb[0] - m, tb[1] + m, max(tb[2] - m, -HALFPI), min(tb[3] + m, HALFPI))
    acc = {tuple(t.pos) for t in toast.generate_tiles_filtered(depth, flt, bottom_only=True)}
    holes = []
    n_cand = 0
    for t in toast.generate_tiles_filtered(depth, big, bottom_only=True):
        if tuple(t.pos) in acc:
            continue
        n_cand += 1
        if n_cand > n_single:
            break
        lon, lat = toast.toast_tile_get_coords(t)
        v = samp(lon, lat)
        k = int(np.isfinite(v).sum())
        if k:
            holes.append((list(t.pos), k))
    if holes:
        V.disagreement("box_filter_complete for an image footprint (WcsSampler.filter): a tile with pixel centres "
                       "inside the image is rejected", dict(case, kind="tan"),
                       "every tile holding data is accepted",
                       dict(rejected_tiles_with_data=holes[:4], bounds_short_by_px=[round(x, 3) for x in short]), True,
                       finding_key=key if worst > 0.02 else None)
    elif worst > 0.25 and not pole_side:
        # bounds fall short by a sizeable fraction of a pixel although no tile of this depth was lost
        V.disagreement("image bounds contain the footprint (dense rim scan)", dict(case, kind="tan"),
                       "shortfall below 0.25 px", dict(bounds_short_by_px=[round(x, 3) for x in short]), None,
                       finding_key=key)
    n_e2e = 0
    if want_e2e:
        A, B = run_pair(work, tag, flt, samp, case["e2e_depth"], CS.ASTRONOMICAL, fmt="npy")
        n_e2e = 1
        d = diff_pyramids(A, B)
        if d:
            V.disagreement("filtered_eq_unfiltered, TAN image via WcsSampler, end to end", dict(case, kind="tan"),
                           "identical file sets and pixels", dict(differences=d[:6], files=(len(A), len(B))), True,
                           finding_key=key if worst > 0.02 else None)
    return n_cand + n_probe, len(holes) + n_probe, worst, n_e2e


F7_WITNESS = dict(nx=4, ny=4, ra=40.0, dec=10.0, scale=15.0, rot=10.0, parity=1, depth=5, e2e_depth=2)
POLE_WITNESS = dict(nx=109, ny=117, ra=345.03971547346663, dec=-80.0, scale=0.2502860318453916,
                    rot=24.524504892160152, parity=-1, depth=4, e2e_depth=2)


def part_F(rng, tier, V, replay=None):
    work = common.workdir()
    cases = [dict(F7_WITNESS), dict(POLE_WITNESS)]
    # non-square images with a pole far along the LONG axis (pixel x > ny resp. y > nx):
    # an inside-the-image test that mixes up (x, y) with (ny, nx) misses these
    for (nx0, ny0) in ((120, 30), (30, 120)):
        for rot0 in range(0, 360, 5):
            w0 = mk_tan(nx0, ny0, 10.0, -80.0, 0.25, float(rot0), -1)
            with np.errstate(invalid="ignore"):
                px0, py0 = w0.wcs_world2pix([[0.0, -90.0]], 1)[0]
            inside = 0.5 <= px0 <= nx0 + 0.5 and 0.5 <= py0 <= ny0 + 0.5
            if inside and ((nx0 > ny0 and px0 > ny0 + 2) or (ny0 > nx0 and py0 > nx0 + 2)):
                cases.append(dict(nx=nx0, ny=ny0, ra=10.0, dec=-80.0, scale=0.25, rot=float(rot0), parity=-1,
                                  depth=4, e2e_depth=2))
                break
    n = 6 if tier == "quick" else 40
    for i in range(n):
        big = rng.random() < 0.5
        nx = rng.randint(33, 120) if big else rng.randint(1, 31)
        ny = rng.randint(33, 120) if big else rng.randint(1, 40)
        field = rng.uniform(8, 50)                        # degrees across the larger axis
        scale = field / max(nx, ny)
        ra = rng.choice((rng.uniform(0, 360), rng.choice((0.0, 359.5, 0.7, 180.0))))
        dec = rng.choice((rng.uniform(-60, 60), rng.uniform(-60, 60), rng.choice((75.0, -80.0, 0.0))))
        depth = rng.choice((4, 5)) if tier == "quick" else rng.choice((4, 5, 6))
        cases.append(dict(nx=nx, ny=ny, ra=ra, dec=dec, scale=scale, rot=rng.uniform(0, 360), parity=rng.choice((1, -1)),
                          depth=depth, e2e_depth=rng.choice((2, 2, 3)) if tier == "quick" else rng.choice((2, 3, 4))))
    if replay is not None:
        cases.insert(0, {k: replay[k] for k in F7_WITNESS})
    tot_c = tot_h = tot_e = 0
    worst_all = 0.0
    n_e2e_budget = 4 if tier == "quick" else 14
    for i, c in enumerate(cases):
        want = (i % 2 == 1 or i == 0) and tot_e < n_e2e_budget
        nc, nh, worst, ne = tan_case(V, c, 60 if tier == "quick" else 200, want, work, f"f{i}")
        tot_c += nc
        tot_h += nh
        tot_e += ne
        worst_all = max(worst_all, worst)
    return dict(tan_images=len(cases), tan_rim_tiles_examined=tot_c, tan_tiles_with_data_rejected=tot_h,
                tan_e2e_runs=tot_e, tan_worst_shortfall_px=round(worst_all, 3)), [dict(cases[1], kind="tan")]


# ---------------------------------------------------------------------------


def part_P(rng, tier, V):
    """'... and never modifies the tile it inspects': tiles obtained by each of the four construction routes are
    handed to each kind of filter; corners, orientation and the pixel grid must be the same afterwards, and a
    second call must decide the same."""
    from toasty import toast
    from toasty.pyramid import Pos
    from toasty.samplers import _latlon_tile_filter, ChunkedPlateCarreeSampler
    from toasty.toast import ToastCoordinateSystem as CS
    n = 0
    boxes = [(0.3, 1.2, -0.4, 0.9), (6.0, 6.9, -1.5, -1.2), (2.0, 9.5, -0.1, 0.1), (-0.2, 0.1, 1.2, HALFPI)]
    glob = (np.arange(24 * 12, dtype=np.float32) + 1).reshape(12, 24)
    chunker = ChunkedPlateCarreeSampler(FakeChunked(glob, [8, 8, 8], [6, 6]), planetary=True)
    filters = [("latlon box %s" % (b,), _latlon_tile_filter(*b)) for b in boxes]
    filters += [(f"chunk {ic}", chunker.filter(ic)) for ic in (0, 4)]
    for csn in ("astronomical", "planetary"):
        cs = CS(csn)
        tiles = []
        for _ in range(6 if tier == "quick" else 40):
            d = rng.choice((2, 3, 4, 5))
            p = Pos(d, rng.randrange(2 ** d), rng.randrange(2 ** d))
            tiles.append(("create_single_tile", toast.create_single_tile(p, cs)))
            lat, lon = rng.uniform(-1.4, 1.4), rng.uniform(0, 6.28)
            tiles.append(("toast_tile_for_point", toast.toast_tile_for_point(d, lat, lon, coordsys=cs)))
        gen = list(toast.generate_tiles(3, bottom_only=False, coordsys=cs))
        tiles += [("generate_tiles", t) for t in rng.sample(gen, 6)]
        genf = list(toast.generate_tiles_filtered(3, lambda t: True, bottom_only=False, coordsys=cs))
        tiles += [("generate_tiles_filtered", t) for t in rng.sample(genf, 6)]
        for route, t in tiles:
            for fname, flt in filters:
                before = (tuple(map(int, t.pos)), [tuple(float(v) for v in c) for c in t.corners], bool(t.increasing))
                lon0, lat0 = toast.toast_tile_get_coords(t)
                d1 = bool(flt(t))
                after = (tuple(map(int, t.pos)), [tuple(float(v) for v in c) for c in t.corners], bool(t.increasing))
                lon1, lat1 = toast.toast_tile_get_coords(t)
                d2 = bool(flt(t))
                n += 1
                if before != after or not (np.array_equal(lon0, lon1) and np.array_equal(lat0, lat1)) or d1 != d2:
                    V.disagreement("filter purity: a tile filter never modifies the tile it inspects (theorem filter_pure)",
                                   dict(kind="purity", route=route, coordsys=csn, pos=list(before[0]), filter=fname),
                                   dict(corners=before[1]), dict(corners_after=after[1], decisions=[d1, d2],
                                                                 pixel_grid_changed=not np.array_equal(lon0, lon1)), True)
                    return dict(filter_purity_calls=n)
    return dict(filter_purity_calls=n)


# ---------------------------------------------------------------------------------------------
# part M: the orchestration of FitsTiler._tile_toast (several images into one TOAST pyramid)
# against Model/MultiToast.v: one sampling call per image with its own filter at one common
# depth, then one cascade whose filter is the union, the worker count carried into every call

MT_DEFS = """
From Coq Require Import ZArith List Bool.
Import ListNotations.
Local Open Scope Z_scope.
Definition oz_eqb (a b : option Z) : bool :=
  match a, b with Some x, Some y => x =? y | None, None => true | _, _ => false end.
Definition ev_eqb (a b : event) : bool :=
  match a, b with
  | ToastBase i d f p, ToastBase i' d' f' p' => Nat.eqb i i' && (d =? d') && Nat.eqb f f' && oz_eqb p p'
  | Cascade p, Cascade p' => oz_eqb p p'
  | _, _ => false
  end.
Fixpoint evs_eqb (a b : list event) : bool :=
  match a, b with
  | [], [] => true
  | x :: a', y :: b' => ev_eqb x y && evs_eqb a' b'
  | _, _ => false
  end.
Record mtcase := mkMT { mt_given : option Z; mt_levels : list (option Z); mt_par : option Z;
                        mt_events : list event; mt_cascade_depth : Z; mt_probe : list (list bool * bool) }.
(* 1: the calls differ from the script; 2: the cascade did not start at the common depth;
   3: the cascade's filter is not the union of the images' filters on some probe tile *)
Definition chk_mt (c : mtcase) : nat :=
  if negb (evs_eqb (mt_events c) (script (mt_given c) (mt_levels c) (mt_par c))) then 1%nat
  else if negb (mt_cascade_depth c =? recorded_levels (mt_given c) (mt_levels c)) then 2%nat
  else if forallb (fun pr => Bool.eqb (union_filter bool (map (fun b => fun _ : bool => b) (fst pr)) true) (snd pr)) (mt_probe c)
       then 0%nat else 3%nat.
"""


def part_M(rng, tier, V, replay=None):
    from unittest import mock
    from astropy.io import fits
    import toasty
    from toasty import TilingMethod, builder as B, pyramid as P, toast as T, collection as COL
    work = common.workdir() / "mt"
    shutil.rmtree(work, ignore_errors=True)
    os.makedirs(work)
    # three small TAN images far apart, of different resolution, the finest NOT last
    specs = [(40.0, 25.0, 0.05), (215.0, -35.0, 0.2), (130.0, 60.0, 0.1)]
    rng.shuffle(specs)
    if specs[-1][2] == 0.05:
        specs[0], specs[-1] = specs[-1], specs[0]
    paths = []
    for k, (ra, dec, sc) in enumerate(specs):
        w = mk_tan(48, 40, ra, dec, sc, rng.uniform(0, 90), 1)
        data = (np.arange(48 * 40, dtype=np.float32).reshape(40, 48) % 97) + 10 * (k + 1)
        pth = str(work / f"img{k}.fits")
        fits.PrimaryHDU(data, header=w.to_header()).writeto(pth, overwrite=True)
        paths.append(pth)
    with quiet(), warnings.catch_warnings():
        warnings.simplefilter("ignore")
        levels = [P.guess_base_layer_level(wcs=im.wcs) if im.has_wcs() else None for im in COL.load(paths).images()]
    runs = [(None, 1), (3, 2)] if tier == "quick" else [(None, 1), (3, 2), (None, 3), (2, 1), (5, 2)]
    terms, metas = [], []
    for given, par in runs:
        events, filters, casc = [], [], {}
        orig_tb, orig_c = B.Builder.toast_base, B.Builder.cascade

        def rec_tb(self, sampler, depth, *a, **kw):
            events.append(("tb", int(depth), kw.get("tile_filter"), kw.get("parallel", "missing")))
            return orig_tb(self, sampler, depth, *a, **kw)

        def rec_c(self, **kw):
            events.append(("c", kw.get("tile_filter"), kw.get("parallel", "missing")))
            casc["depth"] = int(self.imgset.tile_levels)
            return orig_c(self, **kw)

        out = str(work / f"out_{given}_{par}")
        kwargs = dict(out_dir=out, tiling_method=TilingMethod.TOAST, parallel=par, override=True)
        if given is not None:
            kwargs["start"] = given
        case = dict(kind="multi_toast", images=[list(sp) for sp in specs], start=given, parallel=par, guessed_levels=levels)
        with quiet(), warnings.catch_warnings(), mock.patch.object(B.Builder, "toast_base", rec_tb), \
                mock.patch.object(B.Builder, "cascade", rec_c):
            warnings.simplefilter("ignore")
            try:
                toasty.tile_fits(paths, **kwargs)
            except Exception as e:  # noqa: BLE001
                V.disagreement("tile_fits(several images, TOAST) completes", case, "returns", repr(e), True)
                continue
        tb = [e for e in events if e[0] == "tb"]
        cs = [e for e in events if e[0] == "c"]
        # which image does a sampling call's filter belong to?  the one whose centre tile it accepts
        start_used = tb[0][1] if tb else 1
        # (at depth 6 a tile is about 1.4 degrees across; the images are 40 degrees and more apart)
        centres = [T.toast_tile_for_point(6, math.radians(dec), math.radians(ra)) for ra, dec, _sc in specs]

        def owner(flt):
            if flt is None:
                return 99
            acc = [j for j, t in enumerate(centres) if flt(t)]
            return acc[0] if len(acc) == 1 else 98

        def g_par(v):
            return "None" if v == "missing" or v is None else f"(Some {int(v)}%Z)"
        ev_terms = []
        k = 0
        for e in events:
            if e[0] == "tb":
                ev_terms.append(f"(ToastBase {k}%nat {e[1]}%Z {owner(e[2])}%nat {g_par(e[3])})")
                k += 1
            else:
                ev_terms.append(f"(Cascade {g_par(e[2])})")
        # probe: every tile down to depth min(start, 4), each image's filter and the cascade's filter
        probe = []
        cflt = cs[0][1] if cs else None
        flts = [e[2] for e in tb]
        for t in T.generate_tiles(min(start_used, 4), bottom_only=False):
            ind = [bool(f(t)) if f is not None else False for f in flts]
            probe.append((ind, bool(cflt(t)) if cflt is not None else True))
        g_b = lambda b: "true" if b else "false"   # noqa: E731
        g_probe = "[" + "; ".join("([" + "; ".join(g_b(b) for b in ind) + "], " + g_b(c) + ")" for ind, c in probe) + "]"
        g_levels = "[" + "; ".join("None" if l is None else f"(Some {int(l)}%Z)" for l in levels) + "]"
        g_given = "None" if given is None else f"(Some {given}%Z)"
        terms.append(f"(mkMT {g_given} {g_levels} (Some {par}%Z) [{'; '.join(ev_terms)}] {casc.get('depth', -1)}%Z {g_probe})")
        metas.append((case, dict(calls=[(e[0], e[1] if e[0] == "tb" else None, owner(e[2] if e[0] == "tb" else None) if e[0] == "tb" else None,
                                         e[3] if e[0] == "tb" else e[2]) for e in events], cascade_depth=casc.get("depth"))))
        # the statement itself on the files: every ancestor of a base-level tile exists (no holes)
        have = {}
        for root, _d, names in os.walk(out):
            for nm in names:
                if nm.endswith(".fits"):
                    rel = os.path.relpath(os.path.join(root, nm), out).split(os.sep)
                    if len(rel) == 3:
                        y, x = rel[2][:-5].split("_")
                        have[(int(rel[0]), int(x), int(y))] = True
        deepest = max((p[0] for p in have), default=0)
        holes = []
        for (n, x, y) in sorted(have):
            if n == deepest:
                for up in range(1, n + 1):
                    anc = (n - up, x >> up, y >> up)
                    if anc not in have:
                        holes.append([list((n, x, y)), list(anc)])
        if holes:
            V.disagreement("C07 on tile_fits(several images, TOAST): every tile above a written base tile exists (no holes)",
                           case, "all ancestors present", dict(missing_ancestors=holes[:6]), True)
        shutil.rmtree(out, ignore_errors=True)
    bad = common.coq_eval_sharded(MT_DEFS, terms, "chk_mt", ["Model.MultiToast"], shard=10, jobs=2, name="c07m")
    REL = {1: "the sampling / cascade calls and their arguments are the script of MultiToast.script "
              "(one call per image, its own filter, one common depth, the caller's worker count in every call)",
           2: "the cascade starts at the depth the images were sampled at (MultiToast.recorded_levels)",
           3: "the cascade's filter is the union of the images' filters (MultiToast.union_filter) on every tile down to depth 4"}
    for i, code in bad.items():
        case, obs = metas[i]
        V.disagreement("MultiToast.v ~ FitsTiler._tile_toast: " + REL.get(code, str(code)), case, "model script (vm_compute)", obs, None)
    shutil.rmtree(work, ignore_errors=True)
    return dict(multi_toast_runs=len(terms))


def run(ctx, V):
    tier = ctx["tier"]
    rp = (ctx.get("replay") or {}).get("case") or {}
    kind = rp.get("kind")
    cov = dict(bbox_decisions=0, filter_tile_calls=0, alias_cases=0, chunk_bounds_checked=0, chunk_sample_points=0,
               chunk_e2e_runs=0, bounds_refinements=0, box_e2e_runs=0, tan_images=0, tan_e2e_runs=0)
    samples = []
    nontrivial = set()

    def part(name, fn, *args):
        """a part that raises does not hide the others: the exception is itself a disagreement"""
        import traceback
        try:
            return fn(common.rng_for(ctx["seed"], "C07", name), tier, V, *args)
        except Exception as e:  # noqa: BLE001
            traceback.print_exc()
            V.disagreement(f"correspondence harness, part {name}", dict(kind="harness", part=name, error=repr(e)),
                           "part completes", "raised", None)
            return None

    r = part("A", part_A, rp if kind == "bbox" and "box" in rp else None)
    if r:
        cov.update(r[0])
        nontrivial = r[1]
        samples += r[2]
    r = part("B", part_B)
    if r:
        cov.update(r)
    r = part("P", part_P)
    if r:
        cov.update(r)
    r = part("M", part_M)
    if r:
        cov.update(r)
    for name, fn, k in (("C", part_C, "chunks"), ("D", part_D, "bounds"), ("E", part_E, "box_e2e"), ("F", part_F, "tan")):
        r = part(name, fn, rp if kind == k else None)
        if r:
            cov.update(r[0])
            samples += r[1]
    evaluations = (cov["bbox_decisions"] + cov["filter_tile_calls"] + cov["alias_cases"] + cov["chunk_bounds_checked"]
                   + cov["chunk_sample_points"] + cov["chunk_e2e_runs"] + cov["bounds_refinements"]
                   + cov["box_e2e_runs"] + cov["tan_images"] + cov["tan_e2e_runs"])
    cov.update(evaluations=int(evaluations), distinct_nontrivial=len(nontrivial),
               rule="bbox: (tile, box) pairs; tiles = real generator output (both coordinate systems, all of levels 1-3, "
                    "random deeper tiles to depth 6/7) plus synthetic corner sets on several sheets; boxes of every "
                    "width/origin incl. > 2pi, placed to touch/near-miss the tile, the seam and the poles; non-trivial = "
                    "distinct pairs whose decision margin exceeds 1e-9 and whose exact overlap predicate is decided. "
                    "Also: Tile purity on generated tiles, aliasing branches, chunk bounds/sampler/grids (1x1..4x3), "
                    "_image_bounds sampling positions on synthetic WCSs (axes 1-200), end-to-end filtered == unfiltered "
                    "for boxes, TAN images and chunk grids.",
               samples=samples[:6])
    return cov
