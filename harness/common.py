"""Shared machinery for the toasty verification checks.

Everything here runs with /venv/bin/python, PYTHONPATH=/repo, PYTHONHASHSEED=0
(bin/check sets these).  Nothing is kept under /tmp; scratch lives in
/verif/work/<pid> and is removed on exit.
"""
import atexit
import fcntl
import json
import os
import random
import re
import shutil
import subprocess
import sys
import time
from pathlib import Path

VERIF = Path(__file__).resolve().parent.parent
REPO = Path(os.environ.get("TOASTY_REPO", "/repo"))
COQ = VERIF / "coq"
BUILD = VERIF / "build"
WORK = VERIF / "work" / str(os.getpid())
EVIDENCE = VERIF / "evidence"
REPLAYS = VERIF / "replays"

COQ_WARN = "-notation-overridden,-deprecated-hint-without-locality,-deprecated-instance-without-locality"

HYGIENE_RE = re.compile(
    r"\b(Admitted|admit|Axiom|Axioms|Parameter|Parameters|Conjecture|Conjectures|Hypothesis|Hypotheses|Variable|Variables)\b"
    r"|Unset\s+Guard|bypass_check|type-in-type|impredicative-set|Admit\s+Obligations"
)


def workdir():
    WORK.mkdir(parents=True, exist_ok=True)
    return WORK


def _cleanup():
    shutil.rmtree(WORK, ignore_errors=True)
    try:
        WORK.parent.rmdir()
    except OSError:
        pass


atexit.register(_cleanup)


def log(*a):
    print(*a, file=sys.stderr, flush=True)


# --------------------------------------------------------------------------
# hygiene gate


def _strip_comments(text):
    out = []
    depth = 0
    i = 0
    n = len(text)
    while i < n:
        if text.startswith("(*", i):
            depth += 1
            i += 2
        elif text.startswith("*)", i) and depth > 0:
            depth -= 1
            i += 2
        else:
            if depth == 0:
                out.append(text[i])
            i += 1
    return "".join(out)


def hygiene():
    """Fail closed on anything that would declare an axiom or switch off a check.
    `Variable`/`Hypothesis`/`Context` are allowed only inside a Section."""
    problems = []
    for path in sorted((COQ / "theories").rglob("*.v")):
        text = _strip_comments(path.read_text())
        depth = 0
        for lineno, line in enumerate(text.splitlines(), 1):
            s = line.strip()
            if re.match(r"^(Section|Module\s+Type)\b", s):
                depth += 1
            m = HYGIENE_RE.search(s)
            if m:
                word = m.group(0)
                if word in ("Variable", "Variables", "Hypothesis", "Hypotheses") and depth > 0:
                    pass
                else:
                    problems.append(f"{path.relative_to(VERIF)}:{lineno}: {word}")
            if re.match(r"^End\b", s) and depth > 0:
                depth -= 1
    for f in (COQ / "_CoqProject", VERIF / "bin" / "build"):
        if f.exists():
            txt = f.read_text()
            for bad in ("type-in-type", "impredicative-set", "-vos ", "-vok ", "-noinit"):
                if bad in txt and "never -vos" not in txt.split(bad)[0][-40:]:
                    problems.append(f"{f.name}: {bad}")
    return problems


# --------------------------------------------------------------------------
# Coq build and evaluation


class CoqError(Exception):
    pass


def coq_make(targets=(), timeout=1800):
    """Full .vo build of the requested targets (all when empty) through bin/build
    (which regenerates _CoqProject from the files on disk, under a lock)."""
    env = dict(os.environ, BUILD_TIMEOUT=str(timeout))
    r = subprocess.run([str(VERIF / "bin" / "build")] + list(targets), capture_output=True, text=True, env=env)
    return r.returncode, r.stdout + r.stderr


def coqc_file(path, timeout=600, extra_q=()):
    cmd = ["timeout", str(timeout), "coqc", "-w", COQ_WARN, "-Q", str(COQ / "theories"), "Toasty"]
    for d, name in extra_q:
        cmd += ["-Q", str(d), name]
    cmd.append(str(path))
    env = dict(os.environ)
    r = subprocess.run(cmd, capture_output=True, text=True, cwd=str(Path(path).parent), env=env)
    return r.returncode, r.stdout, r.stderr


def property_obligations(pid):
    """Build Properties/<pid>.vo, then re-run coqc on the property file to collect
    the Print Assumptions output.  Returns dict(obligations, discharged, theorems,
    assumptions, ok, log)."""
    src = COQ / "theories" / "Properties" / f"{pid}.v"
    text = _strip_comments(src.read_text())
    theorems = re.findall(r"^\s*(?:Theorem|Corollary)\s+([A-Za-z0-9_']+)", text, re.M)
    rc, out = coq_make([f"theories/Properties/{pid}.vo"])
    res = dict(obligations=len(theorems), discharged=0, theorems=theorems,
               assumptions={}, ok=False, log=out[-4000:])
    if rc != 0:
        return res
    # copy to scratch so that the .vo in the tree is not clobbered mid-build
    w = workdir() / f"pa_{pid}"
    w.mkdir(exist_ok=True)
    dst = w / f"{pid}_pa.v"
    dst.write_text(src.read_text())
    rc, so, se = coqc_file(dst)
    if rc != 0:
        res["log"] = (so + se)[-4000:]
        return res
    # parse Print Assumptions blocks, in order
    blocks = re.split(r"(?m)^(?=Closed under the global context|Axioms:|Fetching opaque)", so)
    assum = []
    for b in blocks:
        b = b.strip()
        if b.startswith("Closed under the global context"):
            assum.append([])
        elif b.startswith("Axioms:"):
            names = re.findall(r"(?m)^([A-Za-z0-9_.']+)\s*:", b[len("Axioms:"):])
            assum.append(names)
    names = re.findall(r"Print\s+Assumptions\s+([A-Za-z0-9_']+(?:\.[A-Za-z0-9_']+)*)", text)
    res["assumptions"] = {n: a for n, a in zip(names, assum)}
    res["discharged"] = len(theorems)
    res["ok"] = len(assum) >= len(theorems)
    return res


def coq_eval(body, name="cases", imports=(), timeout=900):
    """Write a scratch .v importing the model, run coqc, return stdout.
    `body` contains Definitions and Eval vm_compute commands."""
    w = workdir()
    path = w / f"{name}.v"
    hdr = ["From Coq Require Import List NArith ZArith Arith Bool.",
           "Import ListNotations."]
    for imp in imports:
        hdr.append(f"From Toasty Require Import {imp}.")
    path.write_text("\n".join(hdr) + "\n" + body + "\n")
    rc, so, se = coqc_file(path, timeout=timeout)
    if rc != 0:
        raise CoqError(f"coqc failed on {path.name}: {se[-3000:]}\n{so[-1000:]}")
    for ext in (".vo", ".vok", ".vos", ".glob"):
        try:
            (w / f"{name}{ext}").unlink()
        except OSError:
            pass
    return so


def parse_evals(out):
    """Split coqc stdout into the values of successive `Eval` commands
    (text between '= ' and the trailing ': type')."""
    vals = []
    for m in re.finditer(r"(?s)(?:^|\n)\s*= (.*?)\n\s*: [^\n]*(?:\n(?=\s*=|\Z)|\Z)", out):
        vals.append(" ".join(m.group(1).split()))
    return vals


def parse_nat_list(v):
    return [int(x) for x in re.findall(r"\d+", v)]


def coq_eval_sharded(defs_common, case_terms, checker, imports, shard=400, jobs=8, name="sh"):
    """Model-side comparison.  `case_terms` are Gallina terms of one type;
    `checker` is a Gallina function case -> nat (0 = agree, k > 0 = the k-th
    relation fails first) or case -> bool.  Returns {index: code} for the cases
    on which model and implementation differ.  Shards run in parallel."""
    from concurrent.futures import ThreadPoolExecutor

    shards = [case_terms[i:i + shard] for i in range(0, len(case_terms), shard)]

    def one(k):
        terms = shards[k]
        body = [defs_common,
                "Definition cases__ := [" + ";\n  ".join(terms) + "].",
                "Definition code_of_bool__ (b : bool) : nat := if b then 0%nat else 1%nat.",
                "Definition code_of_nat__ (n : nat) : nat := n.",
                "Fixpoint bad_idx__ {T} (chk : T -> nat) (i : nat) (l : list T) : list (nat * nat) :=",
                "  match l with [] => [] | c :: l' => (match chk c with O => [] | k => [(i, k)] end) ++ bad_idx__ chk (S i) l' end.",
                f"Definition chk__ := {checker}.",
                "Definition chkn__ := ltac:(first [ exact (fun c => code_of_nat__ (chk__ c)) | exact (fun c => code_of_bool__ (chk__ c)) ]).",
                "Eval vm_compute in (List.length cases__, bad_idx__ chkn__ 0 cases__)."]
        out = coq_eval("\n".join(body), name=f"{name}_{k}", imports=imports)
        vals = parse_evals(out)
        if not vals:
            raise CoqError("no Eval output: " + out[-500:])
        nums = parse_nat_list(vals[-1])
        if nums[0] != len(terms):
            raise CoqError(f"case count mismatch {nums[0]} vs {len(terms)}")
        rest = nums[1:]
        return {k * shard + rest[j]: rest[j + 1] for j in range(0, len(rest), 2)}

    bad = {}
    with ThreadPoolExecutor(max_workers=jobs) as ex:
        for r in ex.map(one, range(len(shards))):
            bad.update(r)
    return bad


# --------------------------------------------------------------------------
# Gallina literals


def g_nat(n):
    return f"{int(n)}%nat"


def g_N(n):
    assert n >= 0
    return f"{int(n)}%N"


def g_Z(n):
    n = int(n)
    return f"({n})%Z" if n < 0 else f"{n}%Z"


def g_bool(b):
    return "true" if b else "false"


def g_list(xs):
    return "[" + "; ".join(xs) + "]"


def g_pos(p):
    n, x, y = p
    return f"(mkPos {int(n)} {int(x)}%N {int(y)}%N)"


def g_opt(x):
    return "None" if x is None else f"(Some {x})"


def g_pair(*xs):
    return "(" + ", ".join(xs) + ")"


# --------------------------------------------------------------------------
# known findings, evidence, verdicts


def load_known():
    p = VERIF / "known_findings.json"
    if not p.exists():
        return []
    out = json.loads(p.read_text())["findings"]
    extra = os.environ.get("VERIF_KNOWN_EXTRA")
    if extra and os.path.exists(extra):
        out = out + json.loads(open(extra).read())["findings"]
    return out


class Verdict:
    """Collects disagreements / violations for one property run."""

    def __init__(self, pid, tier, seed):
        self.pid, self.tier, self.seed = pid, tier, seed
        self.violations = []      # dicts: case, expected, observed, relation, property_fails, finding_key
        self.known_hits = []
        self.t0 = time.time()
        self.known = [k for k in load_known() if k["property"] == pid and k["status"] == "known"]

    def disagreement(self, relation, case, expected, observed, property_fails, finding_key=None, how=None):
        """A point where model/theorem and implementation differ.
        property_fails: True if the property's own predicate fails on the
        implementation's behaviour for this case; False if it still holds;
        None if not evaluated."""
        rec = dict(relation=relation, case=case, expected=expected, observed=observed,
                   property_fails=property_fails, finding_key=finding_key, how_to_replay=how)
        if finding_key is not None:
            for k in self.known:
                if k["key"] == finding_key:
                    self.known_hits.append((k, rec))
                    return
        self.violations.append(rec)

    def finish(self, coverage, assumptions, proof=None):
        """Write evidence, print KNOWN-FINDING / VIOLATION lines, return exit code."""
        wall = time.time() - self.t0
        seen = set()
        for k, _rec in self.known_hits:
            if k["key"] in seen:
                continue
            seen.add(k["key"])
            print(f"KNOWN-FINDING: property={self.pid} {k['what']}")
        rc = 0
        if self.violations:
            rc = 1
            REPLAYS.mkdir(exist_ok=True)
            failing = [v for v in self.violations if v["property_fails"]]
            chosen = failing[0] if failing else self.violations[0]
            path = REPLAYS / f"{self.pid}-{self.seed}-{int(time.time())}.json"
            replay = dict(property=self.pid, seed=self.seed, tier=self.tier,
                          theorem_or_relation=chosen["relation"], case=chosen["case"],
                          expected=chosen["expected"], observed=chosen["observed"],
                          property_predicate_fails=chosen["property_fails"],
                          how_to_replay=chosen.get("how_to_replay") or f"bin/check {self.pid} --replay {path}",
                          all_disagreements=len(self.violations),
                          relations_that_no_longer_check=sorted({v["relation"] for v in self.violations})[:40],
                          other=[dict(relation=v["relation"], case=v["case"]) for v in self.violations if v is not chosen][:5])
            path.write_text(json.dumps(replay, indent=1, default=str))
            tail = "" if failing else " no-failing-input-found"
            print(f"VIOLATION property={self.pid} replay={path}{tail}")
        ev = dict(property_id=self.pid, tier=self.tier, seed=int(self.seed), level="proof",
                  coverage=coverage, assumptions=assumptions, wall_s=round(wall, 2),
                  violations=len(self.violations),
                  known_findings=sorted({k["key"] for k, _ in self.known_hits}))
        EVIDENCE.mkdir(exist_ok=True)
        (EVIDENCE / f"{self.pid}.json").write_text(json.dumps(ev, indent=1, default=str))
        return rc


GLOBAL_TRUSTED = [
    "Coq 8.16.1 kernel and its vm_compute evaluator (no native_compute)",
    "hand-written Gallina model of the anchored code paths (see DESIGN.md section 5)",
    "correspondence harness: case generators, canonicalisation, Gallina-literal printer",
    "CPython 3.12, numpy, astropy, PIL, filelock, wwt_data_formats as used by toasty",
]


def rng_for(seed, *tags):
    return random.Random("/".join([str(seed)] + [str(t) for t in tags]))


def coqchk(pid, timeout=1500):
    """Independent re-check of Properties/<pid>.vo and everything it depends on;
    returns the axiom summary coqchk -o prints."""
    cmd = ["timeout", str(timeout), "coqchk", "-silent", "-o", "-Q", str(COQ / "theories"), "Toasty",
           f"Toasty.Properties.{pid}"]
    r = subprocess.run(cmd, capture_output=True, text=True, cwd=str(COQ))
    txt = r.stdout + r.stderr
    m = re.search(r"(?s)\* Axioms:(.*?)(?:\n\s*\n|\* Constants|\Z)", txt)
    ax = [l.strip() for l in (m.group(1).splitlines() if m else []) if l.strip()]
    return dict(rc=r.returncode, axioms=ax, tail=txt[-1500:])
