"""C14 correspondence: FITS DATAMIN / DATAMAX carry the leaves' range to the root and the WTML.

Implementation side: real FITS pyramids of 256x256 tiles (generators shared with
corr_C02) whose leaves are written by toasty itself (PyramidIO.write_image, or the
multi-TAN style PyramidIO.update_image + update_into_maskable_buffer in two steps),
cascaded by the real cascade_images (serial and real parallel=2) or by
Builder.cascade; the DATAMIN / DATAMAX cards of every tile are read with astropy,
the ImageSet values and the DataMin / DataMax attributes of index_rel.wtml are read
back.  A second family puts leaf files in place with arbitrary or missing cards
(not "written by toasty") to exercise the min-of-children mechanism and its
fall-back as modelled.
Model side: Model/Range.v.  Its numpy expansion (mirror_range) is compared with the
Gallina model (range_spec by vm_compute) on small tile sizes and with the
implementation on 256x256 tiles.  The property's own predicate (min / max over all
finite leaf pixels beneath each tile) is evaluated independently.
"""
import contextlib
import io
import math
import os
import shutil
import warnings
import xml.etree.ElementTree as ET

import numpy as np

import common
from common import g_Z, g_list, g_nat, g_opt, g_pos
import corr_C02 as C2
from corr_C15 import MODES, g_zlist

TRUSTED = [
    "numpy expansion of the model (corr_C14.mirror_range on top of corr_C02.mirror_pyramid), compared with Range.range_spec on tile sizes 1-2",
    "astropy FITS header I/O (cards written from numpy scalars read back as Python numbers); wwt_data_formats ImageSet XML (DataMin/DataMax omitted when 0)",
    "test values are integers (times 12^start for floats), exact in float32 and in FITS cards",
]
ASSUMPTIONS = [
    "scalar FITS modes (F32, F64, U8, I16, I32); pixel values finite or NaN (infinities are outside the model)",
    "leaves 'written by toasty' = stored through PyramidIO.write_image / update_image without an explicit range: not completely masked, cards = own finite range",
    "no tile files above the start level before the cascade; all tiles 256x256 of one mode",
    "headers are compared exactly on exactly representable values; the statement's 'to single-precision rounding' is applied as a 1e-6 relative margin in the property predicate",
    "the header pyramid is a function of the child files only, like the pixel pyramid (theorem range_pixels_are_cascade ties it to C02's cascade_spec); parallel walks are exercised through real parallel=2 runs",
]

TILE = 256
SCALAR = ("F32", "F64", "U8", "I16", "I32")

COQ_DEFS = C2.COQ_DEFS + r"""
(* ---- header pyramid at a small tile size ---- *)
Record rcase := mkRC { rc_k : Z; rc_start : nat;
                       rc_leaves : list (pos * ((nat * list Z) * (option Z * option Z)));
                       rc_obs : list (pos * option (option Z * option Z)) }.
Definition leaf_tiles (k : Z) (l : list (pos * ((nat * list Z) * (option Z * option Z)))) : pos -> option ftile :=
  fun p => match find (fun e => pos_eqb p (fst e)) l with
           | Some (_, ((m, d), (mn, mx))) => Some (mkFT (img_of (mode_of m) k k d) (option_map inject_Z mn) (option_map inject_Z mx))
           | None => None end.
Definition optq_eq (a : option Q) (b : option Z) : bool :=
  match a, b with Some x, Some y => Qeq_bool x (inject_Z y) | None, None => true | _, _ => false end.
Definition chk_rc (c : rcase) : bool :=
  forallb (fun e =>
    match range_spec (rc_k c) (leaf_tiles (rc_k c) (rc_leaves c)) (rc_start c - pn (fst e)) (fst e), snd e with
    | None, None => true
    | Some t, Some (mn, mx) => optq_eq (ft_min t) mn && optq_eq (ft_max t) mx
    | _, _ => false
    end) (rc_obs c).
"""
IMPORTS = ["Model.Quadtree", "Model.Mask", "Model.Merge", "Model.Range"]
COQ_HDR = "From Coq Require Import QArith.\n"


# ------------------------------------------------------------------ numpy expansion of Range.v

def own_range(arr):
    """Image.save's fall-back: finite range of the array, (None, None) when there is none"""
    a = np.asarray(arr, dtype=np.float64)
    ok = ~np.isnan(a)
    if not ok.any():
        return (None, None)
    v = a[ok]
    return (float(v.min()), float(v.max()))


def mirror_range(k, start, leaves, leaf_hdr, rule="fixed"):
    """Range.range_spec: dict pos -> (min, max) for every tile file of the pyramid
    (leaves included); leaves: pos -> (mode, array); leaf_hdr: pos -> (min|None, max|None)"""
    files = C2.mirror_pyramid("fits", k, start, leaves, rule)
    present = dict(leaves)
    present.update(files)
    hd = dict(leaf_hdr)
    for n in range(start - 1, -1, -1):
        for y in range(2 ** n):
            for x in range(2 ** n):
                p = (n, x, y)
                if p not in files:
                    continue
                ch = [c for c in C2.children_of(p) if c in present]
                mins = [hd[c][0] for c in ch if hd[c][0] is not None]
                maxs = [hd[c][1] for c in ch if hd[c][1] is not None]
                own = own_range(files[p][1])
                hd[p] = (min(mins) if mins else own[0], max(maxs) if maxs else own[1])
    return files, hd


# ------------------------------------------------------------------ the property's own predicate

def leaves_below(p, start, leaves):
    n, x, y = p
    s = start - n
    return [q for q in leaves if (q[1] >> s, q[2] >> s) == (x, y)]


def property_range(start, leaves, observed_hdr, observed_files):
    """DATAMIN / DATAMAX of every tile = min / max finite value over all leaves beneath
    (to single-precision rounding); a tile with finite leaf data beneath must exist."""
    why = []
    lr = {q: own_range(a) for q, (_m, a) in leaves.items()}
    for n in range(start, -1, -1):
        for y in range(2 ** n):
            for x in range(2 ** n):
                p = (n, x, y)
                below = [lr[q] for q in leaves_below(p, start, leaves) if lr[q][0] is not None]
                if not below:
                    continue
                emin = min(b[0] for b in below)
                emax = max(b[1] for b in below)
                if p not in observed_files:
                    why.append(f"{p} missing although leaves with finite data lie beneath it")
                    continue
                got = observed_hdr.get(p, (None, None))
                for name, g, e in (("DATAMIN", got[0], emin), ("DATAMAX", got[1], emax)):
                    if g is None or not math.isclose(float(g), e, rel_tol=1e-6, abs_tol=0.0 if e else 1e-30):
                        why.append(f"{p}: {name} = {g}, leaves' {'minimum' if name == 'DATAMIN' else 'maximum'} is {e}")
                if len(why) > 6:
                    return why
    return why


# ------------------------------------------------------------------ real runs

def _quiet():
    return contextlib.redirect_stdout(io.StringIO())


def write_leaves_c14(base, leaves, how, nprng):
    """how: 'pio' (write_image), 'update' (update_image in two steps), or
    ('raw', hdrs): astropy files with the given / missing cards"""
    from astropy.io import fits
    from toasty.image import Image
    from toasty.pyramid import PyramidIO, Pos
    shutil.rmtree(base, ignore_errors=True)
    pio = PyramidIO(base, default_format="fits")
    with warnings.catch_warnings():
        warnings.simplefilter("ignore")
        for p, (mode, a) in leaves.items():
            if how == "pio":
                pio.write_image(Pos(*p), Image.from_array(a.copy()))
            elif how == "update":
                # two partial updates of the tile, as the multi-TAN tiler does
                cut = int(nprng.randint(1, TILE))
                src = Image.from_array(a.copy())
                for (r0, r1) in ((0, cut), (cut, TILE)):
                    with pio.update_image(Pos(*p), masked_mode=src.mode, default="masked") as basis:
                        src.update_into_maskable_buffer(basis, slice(r0, r1), slice(None), slice(r0, r1), slice(None))
            else:
                hdrs = how[1]
                h = fits.Header()
                mn, mx = hdrs[p]
                if mn is not None:
                    h["DATAMIN"] = mn
                if mx is not None:
                    h["DATAMAX"] = mx
                fits.writeto(pio.tile_path(Pos(*p)), a, header=h, overwrite=True)
        if how == "update":
            pio.clean_lockfiles(next(iter(leaves))[0] if leaves else 0)
    return pio


def scan_headers(base, start):
    """dict pos -> (DATAMIN|None, DATAMAX|None) of every .fits tile up to the start level"""
    from astropy.io import fits
    out = {}
    for root, _d, names in os.walk(base):
        for nm in names:
            if not nm.endswith(".fits"):
                continue
            rel = os.path.relpath(os.path.join(root, nm), base).split(os.sep)
            if len(rel) != 3:
                continue
            n = int(rel[0])
            y, x = rel[2][:-5].split("_")
            h = fits.getheader(os.path.join(root, nm))
            out[(n, int(x), int(y))] = (h.get("DATAMIN"), h.get("DATAMAX"))
    return out


def wtml_range(base):
    tree = ET.parse(os.path.join(base, "index_rel.wtml"))
    el = next(iter(tree.getroot().iter("ImageSet")))
    return (float(el.attrib.get("DataMin", 0.0)), float(el.attrib.get("DataMax", 0.0)))


def gen_scalar_pyramid(rng, mode, start, allow_neg=False):
    lv = C2.gen_pyramid(rng, "fits", mode, start, allow_neg=allow_neg)
    return {p: (m, a) for p, (m, a, _how) in lv.items()}


def num_eq(a, b):
    if a is None or b is None:
        return a is None and b is None
    return float(a) == float(b)


def run_one(V, base, cfg, seedinfo):
    """cfg = (mode, start, how, runner, parallel): runner 'cascade' | 'builder'"""
    mode, start, how, runner, parallel = cfg
    rng = common.rng_for(seedinfo)
    nprng = np.random.RandomState(rng.randrange(2 ** 32))
    leaves = gen_scalar_pyramid(rng, mode, start, allow_neg=(mode in ("I16", "I32") and how == "pio"))
    # sign variants: data ranges that are entirely non-positive, or straddle zero
    # (log-scaled or background-subtracted maps); negation keeps every mean exact
    sign = rng.choice(("pos", "zmin", "neg", "mixed", "zmax")) if mode != "U8" else rng.choice(("pos", "zmin"))
    if sign in ("zmin", "zmax"):
        # the overall minimum (maximum) is exactly 0, held by isolated pixels that do not survive averaging
        flipped = {}
        for i, (p, (m, a)) in enumerate(sorted(leaves.items())):
            a = np.abs(a) + (0 if np.issubdtype(a.dtype, np.floating) else 0)
            a = np.where(a == 0, 1, a).astype(a.dtype) if not np.issubdtype(a.dtype, np.floating) else np.where(a == 0, 1.0, a).astype(a.dtype)
            if i % 2 == 0:
                a[3, 5] = 0
                a[200, 17] = 0
            if sign == "zmax" and mode != "U8":
                a = (-a).astype(a.dtype)
            flipped[p] = (m, a)
        leaves = flipped
    elif sign != "pos":
        flipped = {}
        for i, (p, (m, a)) in enumerate(sorted(leaves.items())):
            if sign == "neg" or i % 2 == 0:
                a = -np.abs(a)
            flipped[p] = (m, a)
        leaves = flipped
    case = dict(type="fits-pyramid", cfg=list(cfg), seed=seedinfo, leaves=sorted(map(list, leaves)))
    if how == "raw":
        # arbitrary / missing cards on the leaves (not written by toasty)
        hdrs = {}
        for p, (_m, a) in leaves.items():
            r = rng.random()
            if r < 0.25:
                hdrs[p] = (None, None)
            elif r < 0.4:
                hdrs[p] = (int(rng.randint(-500, 500)), None)
            else:
                lo = int(rng.randint(-500, 500))
                hdrs[p] = (lo, lo + int(rng.randint(0, 900)))
        # raw files may be entirely NaN: keep them (they exist on disk)
        pio = write_leaves_c14(base, leaves, ("raw", hdrs), nprng)
        stored = dict(leaves)
        leaf_hdr = hdrs
    else:
        pio = write_leaves_c14(base, leaves, how, nprng)
        # toasty does not store completely masked leaves
        stored = {p: t for p, t in leaves.items() if not C2.mirror_masked(t)}
        leaf_hdr = {p: own_range(t[1]) for p, t in stored.items()}
    from toasty.merge import cascade_images, averaging_merger
    builder = None
    try:
        with warnings.catch_warnings(), _quiet():
            warnings.simplefilter("ignore")
            if runner == "builder" and any(own_range(t[1])[0] is not None for t in stored.values()):
                from toasty.builder import Builder
                builder = Builder(pio)
                builder.imgset.tile_levels = start
                builder.cascade(parallel=parallel)
                builder.write_index_rel_wtml()
            else:
                cascade_images(pio, start, averaging_merger, parallel=parallel)
    except Exception as e:  # noqa
        V.disagreement("cascade completes (range_spec defined)", case, "returns", repr(e), True)
        return 0, False
    obs_hdr = scan_headers(base, start)
    obs_present = set(obs_hdr)
    files, hd = mirror_range(TILE, start, stored, leaf_hdr, "fixed")
    if any(np.any(np.asarray(t[1]) < 0) for t in stored.values() if t[0] in ("I16", "I32")):
        # cards do not depend on the integer update rule (finding C02-1 changes pixels, not cards,
        # as long as every child carries cards) -- presence is the same as well
        pass
    exp_present = set(files) | set(stored)
    why = property_range(start, stored, obs_hdr, obs_present) if how != "raw" else None
    bad = []
    if obs_present != exp_present:
        bad.append(("file set", sorted(obs_present ^ exp_present)[:6]))
    for p in sorted(obs_present & exp_present):
        if not (num_eq(obs_hdr[p][0], hd[p][0]) and num_eq(obs_hdr[p][1], hd[p][1])):
            bad.append((list(p), [obs_hdr[p], hd[p]]))
    if bad:
        V.disagreement("Range.range_spec ~ DATAMIN/DATAMAX on disk (theorems range_is_leaf_range, range_callback_spec)",
                       case, dict(expected={str(k): v for k, v in list(hd.items())[:8]}),
                       dict(differing=bad[:6], property=(why or [])[:3]), None if why is None else bool(why))
    elif why:
        V.disagreement("C14 predicate on implementation (model agrees with implementation!)", case, "statement holds", why[:4], True)
    if builder is not None:
        root = hd.get((0, 0, 0))
        got_set = (builder.imgset.data_min, builder.imgset.data_max)
        got_wtml = wtml_range(base)
        okb = root is not None and num_eq(got_set[0], root[0]) and num_eq(got_set[1], root[1]) \
            and num_eq(got_wtml[0], root[0]) and num_eq(got_wtml[1], root[1])
        if not okb:
            pw = property_range(start, stored, {(0, 0, 0): got_wtml}, {(0, 0, 0)}) if how != "raw" else None
            pw = [w for w in (pw or []) if w.startswith("(0, 0, 0)")]
            V.disagreement("Range.builder_range ~ Builder.cascade ImageSet / WTML (theorem root_range_in_wtml)", case,
                           dict(root=root), dict(imageset=got_set, wtml=got_wtml), bool(pw) if how != "raw" else None)
    return len(obs_present), (0 < len(stored) < 4 ** start)


def plan(rng, tier):
    """(mode, start, how, runner, parallel)"""
    p = [
        ("F32", 2, "pio", "cascade", 1), ("F32", 3, "pio", "builder", 2), ("F64", 2, "update", "cascade", 1),
        ("I16", 2, "pio", "builder", 1), ("U8", 1, "pio", "cascade", 2), ("I32", 2, "update", "builder", 2),
        ("F32", 1, "update", "builder", 1), ("F64", 3, "pio", "cascade", 2),
        ("F32", 2, "raw", "cascade", 1), ("F64", 2, "raw", "builder", 2), ("U8", 2, "raw", "cascade", 1),
    ]
    n_extra = 12 if tier == "quick" else 60
    for _ in range(n_extra):
        mode = rng.choice(SCALAR)
        how = rng.choice(("pio", "pio", "update", "raw"))
        p.append((mode, rng.choice((1, 2, 2, 3)), how, rng.choice(("cascade", "builder")), rng.choice((1, 2))))
    return p


# ------------------------------------------------------------------ Coq-side cases

def gen_small_cases(rng, n):
    cases = []
    nprng = np.random.RandomState(rng.randrange(2 ** 32))
    for i in range(n):
        mode = SCALAR[i % len(SCALAR)]
        k = rng.choice((1, 2, 2))
        start = rng.choice((1, 2, 2))
        kind = rng.choice(("own", "own", "arbitrary"))
        leaves, hdr = {}, {}
        for y in range(2 ** start):
            for x in range(2 ** start):
                if rng.random() < 0.5:
                    a = C2.gen_small_tile(nprng, rng, mode, k, start, mode in ("I16", "I32") and kind == "own")
                    t = (mode, a)
                    if kind == "own":
                        if C2.mirror_masked(t):
                            continue                 # toasty would not have stored it
                        r = own_range(a)
                        hdr[(start, x, y)] = (int(r[0]), int(r[1]))
                    else:
                        r = rng.random()
                        if r < 0.25:
                            hdr[(start, x, y)] = (None, None)
                        elif r < 0.4:
                            hdr[(start, x, y)] = (None, rng.randint(-50, 50))
                        else:
                            lo = rng.randint(-50, 50)
                            hdr[(start, x, y)] = (lo, lo + rng.randint(0, 90))
                    leaves[(start, x, y)] = t
        cases.append(dict(type="small", k=k, start=start, kind=kind, leaves=leaves, hdr=hdr))
    return cases


def g_small(c, hd, present):
    def oz(v):
        return g_opt(None if v is None else g_Z(int(v)))
    lv = g_list(["(%s, ((%s, %s), (%s, %s)))" % (g_pos(p), g_nat(MODES.index(m)), g_zlist(C2.pack2(m, a)),
                                                    oz(c["hdr"][p][0]), oz(c["hdr"][p][1])) for p, (m, a) in c["leaves"].items()])
    allpos = C2.postfix_order(c["start"] + 1)
    obs = []
    for p in allpos:
        if p in present:
            mn, mx = hd[p]
            assert mn is None or float(mn) == int(mn)
            assert mx is None or float(mx) == int(mx)
            obs.append(f"({g_pos(p)}, Some ({oz(mn)}, {oz(mx)}))")
        else:
            obs.append(f"({g_pos(p)}, None)")
    return f"(mkRC {g_Z(c['k'])} {g_nat(c['start'])} {lv} {g_list(obs)})"


def extra_scenarios(V, base, rng):
    """Judged by the statement itself (no model replay):
    (1) a Builder whose TOAST base was sampled whole and then overlaid through a tile filter, cascaded with
        Builder.cascade(): root cards, ImageSet range and WTML must span every leaf, and every ancestor exists;
    (2) a read fault (OSError EIO) on an existing leaf during the cascade: either the cascade raises, or the
        root still accounts for that leaf."""
    import errno
    import shutil
    from astropy.io import fits
    from toasty.builder import Builder
    from toasty.pyramid import PyramidIO
    from toasty.merge import cascade_images, averaging_merger
    n = 0
    # ---- (1)
    d1 = os.path.join(base, "layers")
    shutil.rmtree(d1, ignore_errors=True)
    pio = PyramidIO(d1, default_format="fits")
    b = Builder(pio)

    def s_all(lon, lat):
        v = 10.0 + 5.0 * np.sin(lon) * np.cos(lat)
        v = np.where((lat > 1.0) & (lon % 6.283 < 1.0), 500.0, v)      # a bright source far from the overlay
        v = np.where((lat < -1.0) & (lon % 6.283 > 4.0), -300.0, v)    # and a hole
        return v.astype(np.float32)

    def s_patch(lon, lat):
        return np.full(lon.shape, 20.25, dtype=np.float32)
    keep = {(1, 0, 0), (2, 0, 0), (2, 1, 1)}
    try:
        with warnings.catch_warnings(), _quiet():
            warnings.simplefilter("ignore")
            b.toast_base(s_all, 2, parallel=1)
            b.toast_base(s_patch, 2, parallel=1, tile_filter=lambda t: tuple(t.pos) in keep)
            b.cascade(parallel=1)
            b.write_index_rel_wtml()
        hdr = scan_headers(d1, 3)
        leaves = {p: v for p, v in hdr.items() if p[0] == 2}
        lo = min(v[0] for v in leaves.values() if v[0] is not None)
        hi = max(v[1] for v in leaves.values() if v[1] is not None)
        why = []
        missing = [q for q in [(0, 0, 0)] + [(1, x, y) for x in range(2) for y in range(2)] if q not in hdr]
        if missing:
            why.append(f"tiles {missing} were not produced although leaves exist beneath them")
        root = hdr.get((0, 0, 0))
        if root is not None and not (num_eq(root[0], lo) and num_eq(root[1], hi)):
            why.append(f"root cards {root} but the leaves span ({lo}, {hi})")
        got = (b.imgset.data_min, b.imgset.data_max)
        if not (num_eq(got[0], lo) and num_eq(got[1], hi)):
            why.append(f"ImageSet range {got} but the leaves span ({lo}, {hi})")
        w = wtml_range(d1)
        if not (num_eq(w[0], lo) and num_eq(w[1], hi)):
            why.append(f"WTML range {w} but the leaves span ({lo}, {hi})")
        if why:
            V.disagreement("C14 predicate: Builder with an unfiltered TOAST base, a filtered overlay, then cascade()",
                           dict(type="builder-layers", depth=2, overlay=sorted(map(list, keep))), "root / ImageSet / WTML span every leaf",
                           why[:4], True)
    except Exception as e:  # noqa
        V.disagreement("C14 scenario: Builder layers", dict(type="builder-layers"), "completes", repr(e), None)
    n += 1
    shutil.rmtree(d1, ignore_errors=True)
    # ---- (2)
    for trial in range(2):
        d2 = os.path.join(base, f"fault{trial}")
        shutil.rmtree(d2, ignore_errors=True)
        # three leaves under different level-1 parents; one of them holds the global maximum
        leaves = {}
        for k, p in enumerate([(2, 0, 0), (2, 3, 1), (2, 1, 2 + trial)]):
            a = np.full((TILE, TILE), 10.0 + k, dtype=np.float32)
            a[5:9, 7:11] = np.nan
            leaves[p] = ("F32", a)
        leaves[(2, 3, 1)][1][100, 100] = 12345.5
        nprng = np.random.RandomState(rng.randrange(2 ** 32))
        pio = write_leaves_c14(d2, leaves, "pio", nprng)
        stored = dict(leaves)
        top = (2, 3, 1)
        true_max = 12345.5
        target = os.path.realpath(pio.tile_path(__import__("toasty").pyramid.Pos(*top)))
        real_open = fits.open
        fired = []

        def faulty_open(name, *a, **kw):
            if not fired and isinstance(name, str) and os.path.realpath(name) == target:
                fired.append(1)
                raise OSError(errno.EIO, "Input/output error", name)
            return real_open(name, *a, **kw)
        raised = None
        fits.open = faulty_open
        try:
            with warnings.catch_warnings(), _quiet():
                warnings.simplefilter("ignore")
                cascade_images(pio, 2, averaging_merger, parallel=1)
        except Exception as e:  # noqa: reporting the fault is the correct outcome
            raised = e
        finally:
            fits.open = real_open
        n += 1
        if raised is None and fired:
            root = scan_headers(d2, 2).get((0, 0, 0))
            if root is None or not num_eq(root[1], true_max):
                V.disagreement("C14 predicate: a read fault on an existing leaf during the cascade is reported or the leaf still counts",
                               dict(type="read-fault", leaf=list(top), errno="EIO"), dict(root_DATAMAX=true_max),
                               dict(root=root, cascade="returned normally"), True)
        shutil.rmtree(d2, ignore_errors=True)
    return n


def run(ctx, V):
    rng = common.rng_for(ctx["seed"], "C14")
    tier = ctx["tier"]
    quick = tier == "quick"
    base = str(common.workdir() / "c14")
    os.makedirs(base, exist_ok=True)
    C2.load_placement()
    defs = COQ_HDR + COQ_DEFS

    # ---- numpy expansion vs the Gallina model at small tile sizes
    small = gen_small_cases(rng, 120 if quick else 1200)
    terms = []
    n_nontriv_small = 0
    for c in small:
        files, hd = mirror_range(c["k"], c["start"], c["leaves"], c["hdr"], "fixed")
        present = set(files) | set(c["leaves"])
        terms.append(g_small(c, hd, present))
        if files and c["kind"] == "own" and 0 < len(c["leaves"]) < 4 ** c["start"]:
            n_nontriv_small += 1
        # the statement itself on the expansion (toasty-written leaves)
        if c["kind"] == "own":
            why = property_range(c["start"], c["leaves"], hd, present)
            if why:
                V.disagreement("C14 statement ~ Range.range_spec (theorem range_is_leaf_range)",
                               dict(type="small", k=c["k"], start=c["start"]), "holds", why[:3], None)
    bad = common.coq_eval_sharded(defs, terms, "chk_rc", IMPORTS, shard=40, jobs=12, name="c14s")
    for j in bad:
        c = small[j]
        V.disagreement("numpy expansion (mirror_range) ~ Range.range_spec",
                       dict(type="small", k=c["k"], start=c["start"], kind=c["kind"],
                            leaves={str(p): [m, C2.pack2(m, a), list(c["hdr"][p])] for p, (m, a) in c["leaves"].items()}),
                       "equal", "differ", None)

    # ---- real FITS pyramids
    pl = plan(rng, tier)
    rp = ctx.get("replay")
    items = [(cfg, f"{ctx['seed']}/C14/pyr/{i}") for i, cfg in enumerate(pl)]
    if rp and isinstance(rp.get("case"), dict) and rp["case"].get("type") == "fits-pyramid":
        items = [(tuple(rp["case"]["cfg"]), rp["case"]["seed"])] + items[:2]
    n_tiles = 0
    nontrivial = 0
    hist = {}
    samples = []
    for i, (cfg, seedinfo) in enumerate(items):
        d = os.path.join(base, f"p{i}")
        nt, nz = run_one(V, d, cfg, seedinfo)
        shutil.rmtree(d, ignore_errors=True)
        n_tiles += nt
        nontrivial += int(nz)
        key = "/".join(map(str, cfg))
        hist[key] = hist.get(key, 0) + 1
        if len(samples) < 3:
            samples.append(dict(cfg=list(cfg), seed=seedinfo, tiles=nt))
    n_extra = extra_scenarios(V, base, rng)
    hist["builder-layers + read-fault scenarios"] = n_extra
    return dict(
        evaluations=len(small) + len(items),
        distinct_nontrivial=nontrivial + n_nontriv_small,
        rule="real FITS pyramids: 256x256 tiles of F32/F64/U8/I16/I32, start 1-3, sparse leaves with NaN patterns (entirely NaN leaves "
             "are dropped by toasty), leaves written by write_image or by two update_image steps, or put in place with arbitrary/missing "
             "cards; cascaded serially / parallel=2 by cascade_images or Builder.cascade; DATAMIN/DATAMAX of every tile, ImageSet.data_min/max "
             "and the WTML attributes compared with the model's expansion and with min/max over the finite leaf pixels beneath; "
             "non-trivial = pyramid with a proper sparse leaf subset. Model-side: header pyramids at tile sizes 1-2, start 1-2 evaluated in Coq "
             "(own-range and arbitrary/missing leaf cards); non-trivial = sparse, toasty-style leaves, at least one parent.",
        real_pyramids=len(items), header_tiles_compared=n_tiles, small_cases=len(small),
        input_histogram=hist, samples=samples)
