"""C17 correspondence: WTML / returned description vs the files on disk.

Implementation side:
  A. toasty.pyramid.PyramidIO.tile_path / get_path_scheme and toasty.builder.Builder
     (url, file_type) for random positions to depth 30, both schemes, all formats;
  B. the workflows that write index_rel.wtml, end to end on tiny inputs:
     `toasty tile-study` (+ `toasty cascade`), `toasty tile-allsky` (+ cascade),
     toasty.tile_fits in TAN mode (one image, two-image mosaic) and TOAST mode,
     the pipeline's process-todos with a local image source (as in
     toasty/tests/test_pipeline.py);
  C. toasty.tile_fits along every history of calls of length <= 3 over
     {plain, override} on one output directory.
Model side: Model/Paths.v, Model/AutoTiler.v evaluated by vm_compute.
"""
import contextlib
import io
import itertools
import os
import shutil
import warnings
import xml.etree.ElementTree as ET

import common
from common import g_N, g_bool, g_list

TRUSTED = [
    "wwt_data_formats: Folder.from_file / to_xml round-trip of ImageSet and Place attributes",
    "WWT clients expand {1},{2},{3} in ImageSet.Url by plain textual substitution of level, x, y",
    "POSIX os.path.join / os.walk; the harness's directory listing (tile files = everything except index_rel.wtml, thumb.jpg, *.lock)",
    "astropy FITS/WCS, PIL and reproject as used by the tiny end-to-end inputs",
]
ASSUMPTIONS = [
    "HiPS workflow (needs Java + download of Hipsgen.jar) is not exercised; the `properties` branch is modelled but not run",
    "`identical call` = same inputs, out_dir and tiling method; only `override` varies along a history",
    "base directories do not end in '/' and tile coordinates are non-negative integers",
    "end-to-end inputs are tiny (<= 3 tile levels); naming for deep positions is covered by part A and by the theorems",
]

KEY_F8 = "C17/fits_tiler.py:tile/reuse-existing-dir"

SCHEMES = {"L/Y/YX": "LsYsYX", "LXY": "LXY"}
FMTS = {"png": "Png", "jpg": "Jpg", "npy": "Npy", "fits": "Fits"}
PROJ = {"SKY_IMAGE": "SkyImage", "TAN": "Tan", "TOAST": "Toast", "HEALPIX": "Healpix"}


def gstr(s):
    assert all(32 <= ord(c) < 127 for c in s), s
    return '"' + s.replace('"', '""') + '"%string'


COQ_DEFS = r"""
From Coq Require Import String ZArith.
Local Open Scope N_scope.
(* ---- A: paths ---- *)
Record pcase := mkP { c_base : string; c_scheme : scheme; c_fmt : fmt; c_level : N; c_x : N; c_y : N;
                      c_explicit : option fmt; o_path : string; o_url : string; o_ft : string }.
Definition chk_path (c : pcase) : nat :=
  let p := mkPio (c_base c) (c_scheme c) (c_fmt c) in
  if negb (String.eqb (tile_path p (c_level c) (c_x c) (c_y c) (c_explicit c)) (o_path c)) then 1%nat
  else if negb (String.eqb (builder_url p) (o_url c)) then 2%nat
  else if negb (String.eqb (builder_file_type p) (o_ft c)) then 3%nat
  else if negb (String.eqb (join (c_base c) (expand_pos (o_url c) (c_level c) (c_x c) (c_y c)))
                           (tile_path p (c_level c) (c_x c) (c_y c) None)) then 4%nat
  else 0%nat.
(* ---- B: workflows ---- *)
Inductive wkind := WStudy (w h : N) | WToast (depth : N) | WList.
Record wcase := mkW { w_kind : wkind; w_casc : bool; w_levels : N; w_scheme : scheme; w_fmt : fmt;
                      w_url : string; w_ft : string; w_found : list (N * N * N) }.
Definition pos_eqb (a b : N * N * N) : bool :=
  let '(n, x, y) := a in let '(n', x', y') := b in (n =? n') && (x =? x') && (y =? y').
Definition mem_pos (a : N * N * N) (l : list (N * N * N)) : bool := existsb (pos_eqb a) l.
Fixpoint upto (k : nat) : list N := match k with O => [] | S k' => upto k' ++ [N.of_nat k'] end.
Definition grid (n : N) : list (N * N * N) :=
  let side := upto (N.to_nat (2 ^ n)) in flat_map (fun y => map (fun x => (n, x, y)) side) side.
Definition universe (L : N) : list (N * N * N) := flat_map grid (upto (N.to_nat (L + 2))).
Definition base_of (L : N) (found : list (N * N * N)) : list (N * N) :=
  flat_map (fun q => let '(n, x, y) := q in if n =? L then [(x, y)] else []) found.
Definition model_levels (c : wcase) : N :=
  match w_kind c with
  | WStudy w h => study_recorded_levels w h
  | WToast d => toast_recorded_levels d
  | WList => fold_right (fun q m => N.max (fst (fst q)) m) 0 (w_found c)
  end.
Definition model_written (c : wcase) (n x y : N) : bool :=
  match w_kind c with
  | WStudy w h => study_written_b w h (w_casc c) n x y
  | WToast d => toast_written_b d (w_casc c) n x y
  | WList => list_written_b (w_levels c) (base_of (w_levels c) (w_found c)) (w_casc c) n x y
  end.
Definition chk_wf (c : wcase) : nat :=
  let p := mkPio "" (w_scheme c) (w_fmt c) in
  let U := universe (w_levels c) in
  if negb (model_levels c =? w_levels c) then 1%nat
  else if negb (forallb (fun q => let '(n, x, y) := q in Bool.eqb (model_written c n x y) (mem_pos q (w_found c))) U) then 2%nat
  else if negb (String.eqb (builder_url p) (w_url c)) then 3%nat
  else if negb (String.eqb (builder_file_type p) (w_ft c)) then 4%nat
  else if negb (forallb (fun q => mem_pos q U) (w_found c)) then 5%nat
  else if match w_found c with [] => true | _ => false end then 6%nat
  else 0%nat.
(* ---- C: histories ---- *)
Record dobs := mkD { b_desc : desc; b_self : bool; w_desc : desc }.   (* returned builder, tile() returned self, WTML after the call *)
Record hcase := mkH { h_base : string; h_name : string; h_flags : list bool; h_obs : list dobs }.
Fixpoint cmp_run (os : list outcome) (obs : list dobs) (i : nat) : nat :=
  match os, obs with
  | [], [] => 0%nat
  | o :: os', d :: obs' =>
      let ok := desc_eqb (builder o) (b_desc d) && Bool.eqb (returns_self o) (b_self d) &&
                match disk_after o with Dir false (Some w) => desc_eqb w (w_desc d) | _ => false end in
      if ok then cmp_run os' obs' (S i) else S i
  | _, _ => 99%nat
  end.
(* 0: behaves as the repaired model; 100+i: differs from it first at call i but behaves
   exactly as the model of the code as written; 200+i: matches neither *)
Definition chk_hist (c : hcase) : nat :=
  let p := mkPio (h_base c) LsYsYX Fits in
  match h_obs c with
  | [] => 300%nat
  | d0 :: _ =>
      let tiling := fun _ : desc => w_desc d0 in
      let fixed := cmp_run (run (tile_fixed p (h_name c) tiling (fun d => d)) (h_flags c) NoDir) (h_obs c) 0 in
      let coded := cmp_run (run (tile_coded p (h_name c) tiling (fun d => d)) (h_flags c) NoDir) (h_obs c) 0 in
      match fixed with
      | O => 0%nat
      | k => match coded with O => (100 + k)%nat | _ => (200 + k)%nat end
      end
  end.
(* String.length shadows List.length after importing String; the shared driver wants the list one *)
Definition length {A : Type} (l : list A) : nat := List.length l.
"""


def quiet(f, *a, **k):
    buf = io.StringIO()
    with contextlib.redirect_stdout(buf), contextlib.redirect_stderr(buf), warnings.catch_warnings():
        warnings.simplefilter("ignore")
        return f(*a, **k)


def wwt_expand(url, n, x, y):
    """The WWT client's substitution, straight from the property statement."""
    return url.replace("{1}", str(n)).replace("{2}", str(x)).replace("{3}", str(y))


# ------------------------------------------------------------------ A: paths

def path_cases(rng, tier):
    from toasty.pyramid import PyramidIO, Pos
    from toasty.builder import Builder
    n_rand = 500 if tier == "quick" else 4000
    cases = []
    bases = ["out", "a/b", "/abs/x.y", "d_1"]
    specials = [(0, 0, 0), (1, 1, 0), (1, 0, 1), (2, 1, 11 % 4), (4, 1, 11), (4, 11, 1), (4, 1, 1), (7, 11, 1), (7, 1, 11), (7, 111, 1), (7, 1, 111),
                (30, 2 ** 30 - 1, 0), (30, 0, 2 ** 30 - 1), (30, 2 ** 30 - 1, 2 ** 30 - 1), (30, 10 ** 9, 10 ** 8), (10, 1000, 100), (10, 100, 1000)]
    combos = list(itertools.product(SCHEMES, list(FMTS) + [None], [None] + list(FMTS)))
    for i in range(n_rand + len(specials) * 6):
        if i < len(specials) * 6:
            pos = specials[i % len(specials)]
            scheme, dflt, expl = combos[(i * 7) % len(combos)]
        else:
            n = rng.choice((0, 1, 2, 3, 5, 8, 12, 20, 30, rng.randint(0, 30)))
            pos = (n, rng.randrange(2 ** n), rng.randrange(2 ** n))
            scheme, dflt, expl = rng.choice(combos)
        base = rng.choice(bases)
        pio = PyramidIO(base, scheme=scheme, default_format=dflt)
        path = pio.tile_path(Pos(*pos), format=expl, makedirs=False)
        b = Builder(pio)
        cases.append(dict(base=base, scheme=scheme, default=dflt, explicit=expl, pos=list(pos), path=path,
                          url=b.imgset.url, file_type=b.imgset.file_type, scheme_str=pio.get_path_scheme()))
    return cases


def g_path_case(c):
    dflt = c["default"] or "png"   # pyramid.py:242-243: None -> "png" (nothing to glob: the base dirs do not exist)
    expl = "None" if c["explicit"] is None else f"(Some {FMTS[c['explicit']]})"
    n, x, y = c["pos"]
    return (f"(mkP {gstr(c['base'])} {SCHEMES[c['scheme']]} {FMTS[dflt]} {g_N(n)} {g_N(x)} {g_N(y)} {expl} "
            f"{gstr(c['path'])} {gstr(c['url'])} {gstr(c['file_type'])})")


def path_predicate(c):
    """template expansion = path (when the tile is in the default format); file type = extension."""
    dflt = c["default"] or "png"
    why = []
    n, x, y = c["pos"]
    used = c["explicit"] or dflt
    want = os.path.join(c["base"], wwt_expand(c["url"], n, x, y))
    if used == dflt and want != c["path"]:
        why.append(f"expanded Url {want!r} != tile path {c['path']!r}")
    if c["file_type"] != "." + dflt:
        why.append(f"FileType {c['file_type']!r} != .{dflt}")
    if not c["path"].endswith("." + used):
        why.append("tile path does not end with its format")
    if c["url"] != c["scheme_str"] + c["file_type"]:
        why.append("Url != scheme + FileType")
    return why


def injectivity_check(rng, tier, V):
    from toasty.pyramid import PyramidIO, Pos
    n_checked = 0
    for scheme in SCHEMES:
        pio = PyramidIO("inj", scheme=scheme, default_format="png")
        positions = {(n, x, y) for n in range(4) for x in range(2 ** n) for y in range(2 ** n)}
        for _ in range(600 if tier == "quick" else 6000):
            n = rng.randint(0, 30)
            positions.add((n, rng.randrange(2 ** n), rng.randrange(2 ** n)))
        for n in (7, 12, 30):   # digit-boundary look-alikes
            for a, b in ((1, 11), (11, 1), (1, 111), (111, 1), (12, 3), (1, 23), (2, 13), (21, 3)):
                positions.add((n, a, b))
        seen = {}
        for p in sorted(positions):
            path = pio.tile_path(Pos(*p), makedirs=False)
            n_checked += 1
            if path in seen:
                V.disagreement("paths_injective", dict(part="injective", scheme=scheme, a=list(seen[path]), b=list(p)),
                               "distinct paths", path, True)
            seen[path] = p
    return n_checked


# ------------------------------------------------------------------ B: workflows

def tile_files(d):
    out = []
    for r, _ds, fs in os.walk(d):
        for f in fs:
            rel = os.path.relpath(os.path.join(r, f), d)
            if rel in ("index_rel.wtml", "thumb.jpg") or rel.endswith(".lock"):
                continue
            out.append(rel)
    return sorted(out)


def read_wtml(d):
    from wwt_data_formats.folder import Folder
    from wwt_data_formats.place import Place
    item = Folder.from_file(os.path.join(d, "index_rel.wtml")).children[0]
    if isinstance(item, Place):
        return item.foreground_image_set, item
    return item, None


def mk_png(path, w, h, seed):
    import numpy as np
    from PIL import Image
    r = np.random.RandomState(seed)
    Image.fromarray(r.randint(0, 255, (h, w, 3)).astype(np.uint8)).save(path)


def mk_fits(path, nx, ny, scale, ra=50.0, dec=10.0):
    import numpy as np
    from astropy.io import fits
    from astropy.wcs import WCS
    w = WCS(naxis=2)
    w.wcs.ctype = ["RA---TAN", "DEC--TAN"]
    w.wcs.crval = [ra, dec]
    w.wcs.crpix = [nx / 2 + 0.5, ny / 2 + 0.5]
    w.wcs.cdelt = [-scale, scale]
    fits.PrimaryHDU(data=np.arange(nx * ny, dtype=np.float32).reshape(ny, nx), header=w.to_header()).writeto(path, overwrite=True)


def ref_study_positions(w, h, casc):
    """Independent reference: tiles of the centred power-of-two canvas that the image rectangle touches."""
    p2 = 256
    while p2 < max(w, h):
        p2 *= 2
    L = (p2 // 256).bit_length() - 1
    gx0, gy0 = (p2 - w) // 2, (p2 - h) // 2
    base = {(L, x, y) for x in range(p2 // 256) for y in range(p2 // 256)
            if x * 256 < gx0 + w and (x + 1) * 256 > gx0 and y * 256 < gy0 + h and (y + 1) * 256 > gy0}
    out = set(base)
    if casc:
        for (n, x, y) in base:
            while n > 0:
                n, x, y = n - 1, x // 2, y // 2
                out.add((n, x, y))
    return L, out


def closure(base):
    out = set(base)
    for (n, x, y) in base:
        while n > 0:
            n, x, y = n - 1, x // 2, y // 2
            out.add((n, x, y))
    return out


def run_workflows(rng, tier, W):
    """Run every workflow; return list of records (name, outdir, kind, casc, scheme, fmt)."""
    import toasty
    from toasty import cli, tile_fits, TilingMethod, pipeline
    from toasty.pipeline import astropix
    recs = []
    sizes = [(600, 300), (256, 256), (257, 100), (1, 1), (rng.randint(2, 900), rng.randint(2, 900))]
    if tier != "quick":
        sizes += [(1024, 1025), (511, 513), (rng.randint(2, 1500), rng.randint(2, 700))]
    for k, (w, h) in enumerate(sizes):
        ext = "png" if k % 2 == 0 else "jpg"
        img = os.path.join(W, f"s{k}.{ext}")
        mk_png(img, w, h, k)
        out = os.path.join(W, f"study{k}")
        quiet(cli.entrypoint, ["tile-study", "--placeholder-thumbnail", "--outdir", out, img])
        recs.append(dict(name="tile-study", outdir=out, kind=("study", w, h), casc=False, scheme="L/Y/YX", snapshot=None, inputs=[w, h, ext]))
        recs[-1]["snapshot"] = snapshot(recs[-1])
        L = read_wtml(out)[0].tile_levels
        quiet(cli.entrypoint, ["cascade", "--parallelism", "1", "--start", str(L), out])
        recs.append(dict(name="tile-study+cascade", outdir=out, kind=("study", w, h), casc=True, scheme="L/Y/YX", inputs=[w, h, ext]))
        recs[-1]["snapshot"] = snapshot(recs[-1])
    for k, (depth, proj) in enumerate(((1, "plate-carree"), (2, "plate-carree-planet")) if tier == "quick"
                                      else ((1, "plate-carree"), (2, "plate-carree-planet"), (2, "plate-carree-ecliptic"), (3, "plate-carree-planet-zeroleft"))):
        img = os.path.join(W, f"a{k}.jpg")
        mk_png(img, 64, 32, 100 + k)
        out = os.path.join(W, f"allsky{k}")
        quiet(cli.entrypoint, ["tile-allsky", "--placeholder-thumbnail", "--parallelism", "1", "--projection", proj, "--outdir", out, img, str(depth)])
        recs.append(dict(name="tile-allsky", outdir=out, kind=("toast", depth), casc=False, scheme="L/Y/YX", inputs=[depth, proj]))
        recs[-1]["snapshot"] = snapshot(recs[-1])
        quiet(cli.entrypoint, ["cascade", "--parallelism", "1", "--start", str(depth), out])
        recs.append(dict(name="tile-allsky+cascade", outdir=out, kind=("toast", depth), casc=True, scheme="L/Y/YX", inputs=[depth, proj]))
        recs[-1]["snapshot"] = snapshot(recs[-1])
    # tile-wwtl: a WWT layer file holding a jpg (the sample of the test suite) tiled as a study
    try:
        from wwt_data_formats.filecabinet import FileCabinetWriter
        from PIL import Image as PILImage
        tdir = os.path.join(str(common.REPO), "toasty", "tests")
        fw = FileCabinetWriter()
        fw.add_file_with_data("55cb0cce-c44a-4a44-a509-ea66fce643a5.wwtxml", open(os.path.join(tdir, "layercontainer.wwtxml"), "rb").read())
        fw.add_file_with_data("55cb0cce-c44a-4a44-a509-ea66fce643a5\\7ecb6411-e4ee-4dfa-90ef-77d6f486c7d2.jpg",
                              open(os.path.join(tdir, "NGC253ALMA.jpg"), "rb").read())
        wl = os.path.join(W, "image.wwtl")
        with open(wl, "wb") as f:
            fw.emit(f)
        ww, wh = PILImage.open(os.path.join(tdir, "NGC253ALMA.jpg")).size
        out = os.path.join(W, "wwtl")
        quiet(cli.entrypoint, ["tile-wwtl", "--placeholder-thumbnail", "--outdir", out, wl])
        recs.append(dict(name="tile-wwtl", outdir=out, kind=("study", ww, wh), casc=False, scheme="L/Y/YX", inputs=[ww, wh, "jpg in a wwtl"]))
        recs[-1]["snapshot"] = snapshot(recs[-1])
    except ImportError:
        pass
    # tile_fits, TAN: one image -> the study set of that image; mosaic -> listed base
    f1 = os.path.join(W, "t1.fits")
    mk_fits(f1, 300, 300, 0.001)
    out, _b = quiet(tile_fits, f1, out_dir=os.path.join(W, "fits_tan"), tiling_method=TilingMethod.TAN, parallel=1)
    recs.append(dict(name="tile_fits TAN", outdir=out, kind=("study", 300, 300), casc=True, scheme="L/Y/YX", inputs=[300, 300]))
    recs[-1]["snapshot"] = snapshot(recs[-1])
    f2 = os.path.join(W, "t2.fits")
    mk_fits(f2, 520, 100, 0.001)
    out, _b = quiet(tile_fits, f2, tiling_method=TilingMethod.TAN, parallel=1)     # default out_dir next to the input
    recs.append(dict(name="tile_fits TAN default out_dir", outdir=out, kind=("study", 520, 100), casc=True, scheme="L/Y/YX", inputs=[520, 100]))
    recs[-1]["snapshot"] = snapshot(recs[-1])
    m1, m2 = os.path.join(W, "m1.fits"), os.path.join(W, "m2.fits")
    mk_fits(m1, 300, 200, 0.001, 50.0, 10.0)
    mk_fits(m2, 300, 200, 0.001, 50.4, 10.1)
    out, _b = quiet(tile_fits, [m1, m2], out_dir=os.path.join(W, "fits_mosaic"), tiling_method=TilingMethod.TAN, parallel=1)
    recs.append(dict(name="tile_fits TAN mosaic", outdir=out, kind=("list",), casc=True, scheme="L/Y/YX", inputs=["2 x 300x200"]))
    recs[-1]["snapshot"] = snapshot(recs[-1])
    # tile_fits, TOAST
    f3 = os.path.join(W, "t3.fits")
    mk_fits(f3, 64, 48, 0.3)
    out, _b = quiet(tile_fits, f3, out_dir=os.path.join(W, "fits_toast"), tiling_method=TilingMethod.TOAST, parallel=1)
    recs.append(dict(name="tile_fits TOAST", outdir=out, kind=("list",), casc=True, scheme="L/Y/YX", inputs=["64x48 @0.3deg"]))
    recs[-1]["snapshot"] = snapshot(recs[-1])
    out, _b = quiet(tile_fits, f3, tiling_method=TilingMethod.TOAST, parallel=1, start=3)
    recs.append(dict(name="tile_fits TOAST start=3", outdir=out, kind=("list",), casc=True, scheme="L/Y/YX", inputs=["64x48 @0.3deg", 3]))
    recs[-1]["snapshot"] = snapshot(recs[-1])
    # pipeline (LXY scheme), local image source as in toasty/tests/test_pipeline.py
    pw, ph = 700, 500

    class Src(astropix.AstroPixImageSource):
        def query_candidates(self):
            item = {"creator": "Fake Observatory", "title": "Test", "description": "An amazing image.", "object_name": ["NGC 253"],
                    "resource_url": "http://example.com/amazingimage.jpg", "reference_url": "https://example.com/", "image_id": "test1",
                    "image_credit": "Courtesy an amazing telescope.", "wcs_coordinate_frame": "ICRS", "wcs_equinox": "J2000",
                    "wcs_reference_value": ["187.70593075", "12.39112325"], "wcs_reference_dimension": [str(float(pw)), str(float(ph))],
                    "wcs_reference_pixel": [str(pw / 2 + 0.5), str(ph / 2 + 0.5)], "wcs_scale": ["-5.9e-5", "5.9e-5"], "wcs_rotation": "0",
                    "wcs_projection": "TAN", "wcs_quality": "Full", "wcs_notes": "FAKE", "publisher": "FAKE", "publisher_id": "fake",
                    "resource_id": "test1", "last_updated": "2019-04-08T14:00:38.128143", "metadata_version": "1.1",
                    "image_width": str(pw), "image_height": str(ph), "image_max_boundry": str(pw), "astropix_id": 21642}
            yield astropix.AstroPixCandidateInput(item)

        def fetch_candidate(self, unique_id, cand_data_stream, cachedir):
            mk_png(os.path.join(cachedir, "image.jpg"), pw, ph, 7)

    pipeline.IMAGE_SOURCE_CLASS_LOADERS["_local_test_astropix"] = lambda: Src
    prepo, pwork = os.path.join(W, "prepo"), os.path.join(W, "pwork")
    os.makedirs(prepo)
    shutil.copy(os.path.join(os.path.dirname(toasty.__file__), "tests", "toasty-pipeline-config.yaml"), prepo)
    for args in (["pipeline", "init", "--local", prepo, pwork], ["pipeline", "refresh", "--workdir", pwork],
                 ["pipeline", "fetch", "--workdir", pwork, "fake_test1"], ["pipeline", "process-todos", "--workdir", pwork]):
        quiet(cli.entrypoint, args)
    recs.append(dict(name="pipeline process-todos", outdir=os.path.join(pwork, "processed", "fake_test1"), kind=("study", pw, ph),
                     casc=True, scheme="LXY", inputs=[pw, ph]))
    recs[-1]["snapshot"] = snapshot(recs[-1])
    return recs


def snapshot(rec):
    """What is on disk right now: WTML fields and the tile files."""
    imgset, _place = read_wtml(rec["outdir"])
    return dict(url=imgset.url, file_type=imgset.file_type, levels=int(imgset.tile_levels),
                projection=imgset.projection.name, files=tile_files(rec["outdir"]))


def judge_workflow(rec, V):
    """Property predicate on one workflow + Coq case term (or None)."""
    s = rec["snapshot"]
    case = dict(part="workflow", name=rec["name"], inputs=rec["inputs"], cascaded=rec["casc"])
    why = []
    L = s["levels"]
    umax = max(L, 0) + 1
    table = {}
    for n in range(umax + 1):
        for x in range(2 ** n):
            for y in range(2 ** n):
                table.setdefault(wwt_expand(s["url"], n, x, y), []).append((n, x, y))
    found = []
    for f in s["files"]:
        ps = table.get(f)
        if not ps:
            why.append(f"file {f!r} is not the expansion of Url {s['url']!r} for any position up to level {umax}")
        elif len(ps) > 1:
            why.append(f"file {f!r} is the expansion for several positions {ps}")
        else:
            found.append(ps[0])
        if not f.endswith(s["file_type"]):
            why.append(f"file {f!r} does not end with FileType {s['file_type']!r}")
    if not s["file_type"].startswith(".") or s["file_type"][1:] not in FMTS:
        why.append(f"FileType {s['file_type']!r} is not '.'+format")
    fset = set(found)
    if fset and max(p[0] for p in fset) != L:
        why.append(f"TileLevels {L} != deepest populated layer {max(p[0] for p in fset)}")
    if not fset:
        why.append("no tile files")
    # the positions the workflow is expected to have written (independent reference)
    kind = rec["kind"]
    if kind[0] == "study":
        refL, want = ref_study_positions(kind[1], kind[2], rec["casc"])
    elif kind[0] == "toast":
        d = kind[1]
        want = {(d, x, y) for x in range(2 ** d) for y in range(2 ** d)}
        if rec["casc"]:
            want = closure(want)
    else:
        want = closure({p for p in fset if p[0] == L})
    missing = sorted(want - fset)
    extra = sorted(fset - want)
    if missing:
        why.append(f"expected tiles not reachable through Url: {missing[:4]}")
    if extra:
        why.append(f"unexpected tiles: {extra[:4]}")
    fmt = s["file_type"][1:] if s["file_type"][1:] in FMTS else "png"
    if kind[0] == "study":
        k = f"(WStudy {g_N(kind[1])} {g_N(kind[2])})"
    elif kind[0] == "toast":
        k = f"(WToast {g_N(kind[1])})"
    else:
        k = "WList"
    term = None
    if L <= 4 and all(32 <= ord(c) < 127 for c in s["url"] + s["file_type"]):
        posl = g_list([f"({g_N(n)}, {g_N(x)}, {g_N(y)})" for (n, x, y) in sorted(fset)])
        term = (f"(mkW {k} {g_bool(rec['casc'])} {g_N(max(L, 0))} {SCHEMES[rec['scheme']]} {FMTS[fmt]} "
                f"{gstr(s['url'])} {gstr(s['file_type'])} {posl})")
    return case, why, term, len(fset)


# ------------------------------------------------------------------ C: histories

ASTRO_IMGSET = ("center_x", "center_y", "base_degrees_per_tile", "rotation_deg", "offset_x", "offset_y", "width_factor",
                "base_tile_level", "data_min", "data_max", "pixel_cut_low", "pixel_cut_high")
ASTRO_PLACE = ("ra_hr", "dec_deg", "zoom_level", "rotation_deg")


def describe(imgset, place, pristine=None):
    def num(v):
        try:
            return int(round(float(v) * 10 ** 9))
        except (TypeError, ValueError):
            return 0
    astro = [num(getattr(imgset, a, 0)) for a in ASTRO_IMGSET]
    astro += [num(getattr(place, a, 0)) if place is not None else 0 for a in ASTRO_PLACE]
    d = dict(url=imgset.url, file_type=imgset.file_type, levels=int(imgset.tile_levels), projection=imgset.projection.name,
             name=imgset.name, astro=astro)
    if pristine is not None and astro == pristine:
        d["astro"] = []
    return d


def g_desc(d):
    astro = g_list([common.g_Z(v) for v in d["astro"]])
    return (f"(mkDesc {gstr(d['url'])} {gstr(d['file_type'])} {g_N(d['levels'])} {PROJ.get(d['projection'], 'Healpix')} "
            f"{gstr(d['name'])} {astro})")


def xml_canon(elem):
    return (elem.tag, tuple(sorted(elem.attrib.items())), (elem.text or "").strip(), tuple(xml_canon(c) for c in elem))


class HistoryCallRaised(Exception):
    def __init__(self, call, override, error, wtml_left):
        Exception.__init__(self, error)
        self.call, self.override, self.error, self.wtml_left = call, override, error, wtml_left


def run_history(mode, flags, W, tag, default_outdir=False):
    """Call toasty.tile_fits along one history; observe after every call.
    default_outdir: leave out_dir to tile_fits (a directory next to the input file)."""
    import toasty
    from toasty import tile_fits, TilingMethod, fits_tiler
    from toasty.builder import Builder
    from toasty.pyramid import PyramidIO
    src = os.path.join(W, f"h_{mode}.fits")
    if not os.path.exists(src):
        if mode == "TAN":
            mk_fits(src, 300, 300, 0.001)
        elif mode == "TANS":
            # fits in one tile: recorded as a SkyImage with TileLevels 0, not as a Tan pyramid
            mk_fits(src, 100, 80, 0.001)
        else:
            mk_fits(src, 64, 48, 0.3)
    out_dir = os.path.join(W, f"h_{mode}_{tag}")
    if default_outdir:
        # a private copy of the input, so that the default output directory is this history's own
        src2 = os.path.join(W, f"hd_{mode}_{tag}.fits")
        shutil.copyfile(src, src2)
        src = src2
        out_dir = src2[:-len(".fits")] + "_tiled" + ("_TOAST" if not mode.startswith("TAN") else "")
    shutil.rmtree(out_dir, ignore_errors=True)
    pb = Builder(PyramidIO(out_dir + "_none", default_format="fits"))
    pristine = describe(pb.imgset, pb.place)["astro"]
    method = TilingMethod.TAN if mode.startswith("TAN") else TilingMethod.TOAST
    rets = []
    orig = fits_tiler.FitsTiler.tile

    def wrapped(self, *a, **k):
        r = orig(self, *a, **k)
        rets.append(r is self)
        return r

    obs = []
    fits_tiler.FitsTiler.tile = wrapped
    try:
        for ov in flags:
            try:
                if default_outdir:
                    od, b = quiet(tile_fits, src, tiling_method=method, parallel=1, override=bool(ov))
                else:
                    od, b = quiet(tile_fits, src, out_dir=out_dir, tiling_method=method, parallel=1, override=bool(ov))
            except Exception as e:  # noqa: a call of this history raised: nothing is returned, the directory may be gone
                raise HistoryCallRaised(len(obs), bool(ov), repr(e), os.path.exists(os.path.join(out_dir, "index_rel.wtml")))
            imgset, place = read_wtml(od)
            returned = describe(b.imgset, b.place, pristine)
            ondisk = describe(imgset, place, pristine)
            # full comparison, every attribute: serialise the returned builder the way FitsTiler does
            from wwt_data_formats import write_xml_doc
            buf = io.BytesIO()
            write_xml_doc(b.create_wtml_folder(add_place_for_toast=True).to_xml(), dest_stream=buf, dest_wants_bytes=True)
            same_xml = xml_canon(ET.fromstring(buf.getvalue())) == xml_canon(ET.parse(os.path.join(od, "index_rel.wtml")).getroot())
            fg = b.place.foreground_image_set
            linked = fg is b.imgset or (fg is not None and describe(fg, None) == describe(b.imgset, None))
            obs.append(dict(returned=returned, wtml=ondisk, returns_self=rets[-1], same_xml=same_xml and linked, out_dir=od))
    finally:
        fits_tiler.FitsTiler.tile = orig
    return out_dir, obs


def run_history_noplace(flags, W, tag):
    """FitsTiler used directly in TOAST mode with add_place_for_toast=False (the WTML then holds a
    bare <ImageSet>): the returned builder must still describe what index_rel.wtml says."""
    from toasty import collection, fits_tiler, TilingMethod
    from wwt_data_formats import write_xml_doc
    src = os.path.join(W, "h_TOAST.fits")
    if not os.path.exists(src):
        mk_fits(src, 64, 48, 0.3)
    out_dir = os.path.join(W, f"h_TOASTNP_{tag}")
    shutil.rmtree(out_dir, ignore_errors=True)
    obs = []
    for ov in flags:
        tiler = fits_tiler.FitsTiler(collection.load(src), out_dir=out_dir, tiling_method=TilingMethod.TOAST,
                                     add_place_for_toast=False)
        r = quiet(tiler.tile, parallel=1, override=bool(ov))
        b = tiler.builder
        imgset, place = read_wtml(out_dir)
        buf = io.BytesIO()
        write_xml_doc(b.create_wtml_folder(add_place_for_toast=False).to_xml(), dest_stream=buf, dest_wants_bytes=True)
        same_xml = xml_canon(ET.fromstring(buf.getvalue())) == xml_canon(
            ET.parse(os.path.join(out_dir, "index_rel.wtml")).getroot())
        # the Place of the returned builder (what create_wtml_folder(add_place_for_toast=True) would write)
        # must carry the same image set description
        fg = b.place.foreground_image_set
        linked = fg is b.imgset or (fg is not None and describe(fg, None) == describe(b.imgset, None))
        obs.append(dict(returned=describe(b.imgset, None), wtml=describe(imgset, None), returns_self=r is tiler,
                        same_xml=same_xml and linked, place_linked=linked))
    return out_dir, obs


def g_hist(out_dir, flags, obs):
    name = out_dir.split("/")[-1]
    dl = g_list([f"(mkD {g_desc(o['returned'])} {g_bool(o['returns_self'])} {g_desc(o['wtml'])})" for o in obs])
    return f"(mkH {gstr(out_dir)} {gstr(name)} {g_list([g_bool(f) for f in flags])} {dl})"


def all_histories(maxlen):
    out = []
    for n in range(1, maxlen + 1):
        out += [list(h) for h in itertools.product((0, 1), repeat=n)]
    return out


# ------------------------------------------------------------------ run

def run(ctx, V):
    rng = common.rng_for(ctx["seed"], "C17")
    tier = ctx["tier"]
    W = str(common.workdir() / "c17")
    shutil.rmtree(W, ignore_errors=True)
    os.makedirs(W)
    imports = ["Model.Paths", "Model.AutoTiler"]
    rep = ctx.get("replay") or {}
    rep_case = rep.get("case") if isinstance(rep.get("case"), dict) else {}

    # ---- A
    pcs = path_cases(rng, tier)
    if rep_case.get("part") == "path":
        from toasty.pyramid import PyramidIO, Pos
        from toasty.builder import Builder
        c = rep_case
        pio = PyramidIO(c["base"], scheme=c["scheme"], default_format=c["default"])
        b = Builder(pio)
        pcs.insert(0, dict(base=c["base"], scheme=c["scheme"], default=c["default"], explicit=c["explicit"], pos=c["pos"],
                           path=pio.tile_path(Pos(*c["pos"]), format=c["explicit"], makedirs=False),
                           url=b.imgset.url, file_type=b.imgset.file_type, scheme_str=pio.get_path_scheme()))
    bad = common.coq_eval_sharded(COQ_DEFS, [g_path_case(c) for c in pcs], "chk_path", imports, shard=400, jobs=8, name="c17p")
    rel = {1: "tile_path ~ PyramidIO.tile_path", 2: "builder_url ~ Builder.imgset.url", 3: "builder_file_type ~ Builder.imgset.file_type",
           4: "template_expands_to_path (observed Url expanded by the model = model path)"}
    for i, c in enumerate(pcs):
        why = path_predicate(c)
        if i in bad or why:
            case = dict(part="path", base=c["base"], scheme=c["scheme"], default=c["default"], explicit=c["explicit"], pos=c["pos"])
            V.disagreement("Paths.v: " + rel.get(bad.get(i), "C17 predicate on implementation (model agrees)"), case,
                           "model path/url/file type", dict(path=c["path"], url=c["url"], file_type=c["file_type"], why=why), bool(why))
    n_inj = injectivity_check(rng, tier, V)

    # ---- B
    recs = run_workflows(rng, tier, W)
    terms, idx = [], []
    n_tiles = 0
    for k, rec in enumerate(recs):
        case, why, term, nt = judge_workflow(rec, V)
        n_tiles += nt
        rec["why"], rec["case"] = why, case
        if term is not None:
            terms.append(term)
            idx.append(k)
    badw = common.coq_eval_sharded(COQ_DEFS, terms, "chk_wf", imports, shard=8, jobs=8, name="c17w") if terms else {}
    relw = {1: "tile_levels_is_deepest / recorded levels", 2: "file set on disk = model file set (study_written_b / toast_written_b / list_written_b)",
            3: "builder_url ~ WTML Url", 4: "builder_file_type ~ WTML FileType", 5: "file outside the position universe", 6: "no tiles"}
    badk = {idx[j]: code for j, code in badw.items()}
    for k, rec in enumerate(recs):
        if rec["why"] or k in badk:
            s = rec["snapshot"]
            V.disagreement("AutoTiler.v: " + relw.get(badk.get(k), "C17 predicate on implementation (model agrees)"), rec["case"],
                           "Url expansions of the written positions = files; FileType = extension; TileLevels = deepest layer",
                           dict(url=s["url"], file_type=s["file_type"], levels=s["levels"], files=s["files"][:12], why=rec["why"][:6]),
                           bool(rec["why"]))

    # ---- C
    hists = []
    tan_h = all_histories(3)
    toast_h = all_histories(2 if tier == "quick" else 3)
    plan = [("TAN", h) for h in tan_h] + [("TOAST", h) for h in toast_h] + [("TANS", h) for h in all_histories(2)]
    if rep_case.get("part") == "history":
        plan.insert(0, (rep_case["mode"], list(rep_case["history"])))
    for mode, h in plan:
        tag = "".join(str(f) for f in h)
        try:
            out_dir, obs = run_history(mode, h, W, tag)
        except HistoryCallRaised as e:
            V.disagreement("C17 predicate: every call of a tile_fits history returns a description that matches the files on disk",
                           dict(part="history", mode=mode, history=h),
                           dict(call=e.call, expected="tile_fits returns (out_dir, builder)"),
                           dict(call=e.call, override=e.override, raised=e.error, index_rel_wtml_still_there=e.wtml_left), True)
            continue
        hists.append((mode, h, out_dir, obs))
    # the same histories with out_dir left to tile_fits (default directory next to the input)
    for mode, h in [("TAN", [0, 0]), ("TAN", [0, 1, 0]), ("TOAST", [0, 0])]:
        tag = "d" + "".join(str(f) for f in h)
        try:
            out_dir, obs = run_history(mode, h, W, tag, default_outdir=True)
        except HistoryCallRaised as e:
            V.disagreement("C17 predicate: every call of a tile_fits history returns a description that matches the files on disk",
                           dict(part="history", mode=mode, history=h, default_out_dir=True),
                           dict(call=e.call, expected="tile_fits returns (out_dir, builder)"),
                           dict(call=e.call, override=e.override, raised=e.error), True)
            continue
        hists.append((mode, h, out_dir, obs))
    badh = common.coq_eval_sharded(COQ_DEFS, [g_hist(od, h, obs) for (_m, h, od, obs) in hists], "chk_hist", imports,
                                   shard=12, jobs=8, name="c17h")
    n_calls = 0
    for i, (mode, h, out_dir, obs) in enumerate(hists):
        n_calls += len(obs)
        # property predicate: after every call the returned description equals the WTML on disk
        fails = [j for j, o in enumerate(obs) if not (o["same_xml"] and o["returned"] == o["wtml"])]
        code = badh.get(i, 0)
        if code == 0 and not fails:
            continue
        case = dict(part="history", mode=mode, history=h)
        j = fails[0] if fails else max(0, (code % 100) - 1)
        o = obs[min(j, len(obs) - 1)]
        fk = None
        if 100 <= code < 200 and fails and not h[j] and j > 0 and o["returned"]["levels"] == 0 and not o["returns_self"]:
            fk = KEY_F8     # behaves exactly as the model of fits_tiler.py:154-161 as written
        relation = ("returned_eq_wtml_all_histories: implementation behaves as tile_coded, not tile_fixed" if 100 <= code < 200
                    else "AutoTiler.v tile_fixed/tile_coded ~ FitsTiler.tile" if code else
                    "C17 predicate on implementation (model agrees): returned builder XML != index_rel.wtml")
        V.disagreement(relation, case,
                       dict(call=j, expected="returned Builder.imgset/place == index_rel.wtml; tile() returns self", wtml=o["wtml"]),
                       dict(call=j, returned=o["returned"], tile_returned_self=o["returns_self"], same_xml=o["same_xml"], code=code),
                       bool(fails), finding_key=fk)

    # direct FitsTiler use without the Place wrapper (bare <ImageSet> in the WTML): predicate only
    for h in all_histories(2):
        out_dir, obs = run_history_noplace(h, W, "".join(str(f) for f in h))
        n_calls += len(obs)
        fails = [j for j, o in enumerate(obs) if not (o["same_xml"] and o["returned"] == o["wtml"] and o["returns_self"])]
        if fails:
            o = obs[fails[0]]
            V.disagreement("C17 predicate: FitsTiler(add_place_for_toast=False) returned builder == index_rel.wtml over histories",
                           dict(part="history-noplace", mode="TOAST", history=h),
                           dict(call=fails[0], wtml=o["wtml"]),
                           dict(call=fails[0], returned=o["returned"], tile_returned_self=o["returns_self"], same_xml=o["same_xml"]),
                           True)

    nontrivial = {(c["scheme"], c["default"], c["explicit"], c["pos"][0]) for c in pcs if c["pos"][0] > 0}
    return dict(
        evaluations=len(pcs) + n_inj + len(recs) + n_calls,
        distinct_nontrivial=len(nontrivial) + len(recs) + sum(1 for (_m, h, _o, _b) in hists if len(h) > 1),
        rule="A: random (scheme, default format incl. None, explicit format, level 0-30, x, y) + digit-boundary look-alikes, "
             "non-trivial = distinct (scheme, default, explicit, level>0); injectivity over all positions to depth 3 + random to depth 30 per scheme. "
             "B: each workflow run end to end on tiny inputs, before and after cascade; every file on disk mapped back through the WTML Url "
             "over all positions up to TileLevels+1 and compared with the model's file set. "
             "C: toasty.tile_fits along every history over {plain, override} of length <= 3 (TAN) / "
             + ("<= 2" if tier == "quick" else "<= 3") + " (TOAST); non-trivial = histories with a repeated call",
        path_cases=len(pcs), injectivity_positions=n_inj,
        workflows=[dict(name=r["name"], inputs=r["inputs"], levels=r["snapshot"]["levels"], url=r["snapshot"]["url"],
                        tiles=len(r["snapshot"]["files"])) for r in recs],
        tiles_checked=n_tiles, histories=len(hists), history_calls=n_calls,
        exhaustive_part="all histories over {plain, override} up to the stated length; injectivity over all positions to depth 3",
        not_covered=["HiPS workflow (Java + network)", "WWTL workflow and multi-TAN CLI (same Builder code path as tile-study / tile_fits TAN)"],
        samples=[dict(path=pcs[0]["path"], url=pcs[0]["url"], pos=pcs[0]["pos"]),
                 dict(workflow=recs[0]["name"], files=recs[0]["snapshot"]["files"][:6]),
                 dict(history=hists[1][1], returned=[o["returned"]["levels"] for o in hists[1][3]], wtml=[o["wtml"]["levels"] for o in hists[1][3]])])
