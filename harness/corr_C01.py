"""C01 correspondence: cascade walk — each live parent exactly once, only after all
its live children, then return; serial and every parallel schedule.

Real `Pyramid.walk(cb, parallel=k)` runs unmodified under harness/detsched.py;
every recorded trace is replayed on Model/WalkPar.v inside Coq (enabled sets step
by step, callback log, outcome).  The serial walk is compared with
Model/Reducer.v (walk_serial) as in C13.  A few real fork runs are judged by
the property predicate directly.
"""
import contextlib
import io
import os

import common
import detsched
import corr_C13
from corr_C03 import make_chooser, MODES
from common import g_pos, g_list, g_bool

TRUSTED = [
    "harness/detsched.py fakes of multiprocessing.Queue/Event/Process (per-process buffers and feeders, FIFO pipe, "
    "semaphore released by get, process exit waits for its feeders)",
    "callbacks are atomic between two sync points",
]
ASSUMPTIONS = [
    "get(timeout) raises Empty only while the pipe is empty",
    "termination is judged under schedules that do not poll forever while a non-polling action stays enabled",
    "tile filters are pure functions of the tile position",
]

COQ_DEFS = r"""
Definition tbl (l : list pos) : pos -> bool := fun p => existsb (pos_eqb p) l.
Definition kind_of (k : nat) : kind := match k with 0%nat => Generic | 1%nat => Toast | _ => ToastFiltered end.
Record wcase := mkWC {
  c_kind : nat; c_depth : nat; c_tbl : list pos; c_apex : pos; c_sub : bool;
  c_par : nat; c_pcap : nat; c_bad : list pos; c_cont : bool;
  c_trace : list (list wact * wact);
  o_returned : bool; o_cb : list (bool * pos * nat); o_spawned : bool }.
Definition eq_ev (x y : bool * pos * nat) : bool :=
  Bool.eqb (fst (fst x)) (fst (fst y)) && pos_eqb (snd (fst x)) (snd (fst y)) && Nat.eqb (snd x) (snd y).
Definition eq_cb (a b : list (bool * pos * nat)) : bool :=
  Nat.eqb (length a) (length b) && forallb (fun xy => eq_ev (fst xy) (snd xy)) (combine a b).
Definition chk (c : wcase) : nat :=
  let P := mkPyr (kind_of (c_kind c)) (c_depth c) (tbl (c_tbl c)) (c_apex c) (c_sub c) in
  match winit P (c_par c) (c_pcap c) with
  | None => 5
  | Some s0 =>
    match wreplay_c (c_cont c) (tbl (c_bad c)) s0 (c_trace c) 0 with
    | inr i => 1000 + i
    | inl s =>
        if negb (Bool.eqb (wreturned s) (o_returned c)) then 1
        else if negb (eq_cb (rev (cblog s)) (o_cb c)) then 2
        else if negb (Bool.eqb (negb (match wks s with [] => true | _ => false end)) (o_spawned c)) then 3
        else 0
    end
  end.
"""


def g_wact(name):
    kind, who = name
    if kind in ("PutTimeout", "Sleep", "ValueGet", "ValueSet", "LockAcq"):
        # not an action of the modelled walk (an action that is never enabled stops the replay at this step)
        return "(DJoinW 4000)"
    if who.startswith("M"):
        if kind == "Put":
            return "DPut"
        if kind == "Recv":
            return "DRecv"
        if kind == "Timeout":
            return "DTimeout"
        if kind == "Close":
            return "DCloseQ"
        if kind == "JoinThread":
            return "DJoinThread"
        if kind == "Set":
            return "DSetFlag"
        if kind == "Join":
            return f"(DJoinW {int(who.split(':W')[1])})"
    if kind == "Flush":
        q, owner = who.split("@")
        if q == "q0":
            return "FFlushReady"
        return f"(FFlushDone {int(owner[1:])})"
    if kind == "FeederExit":
        return "FFeederExit"
    if kind == "Cb":
        return f"(KCb {int(who[1:])})"
    w = int(who.split(":")[0][1:])
    return {"Recv": f"(KRecv {w})", "Timeout": f"(KTimeout {w})", "IsSet": f"(KIsSet {w})", "CTimeout": f"(KCTimeout {w})",
            "Put": f"(KPut {w})", "Exit": f"(KExit {w})"}[kind]


def g_trace(trace):
    trace = trace[:4000]
    return g_list(["(%s, %s)" % (g_list([g_wact(n) for n in en]), g_wact(ch)) for en, ch in trace])


def run_walk(case, chooser, bad=(), contention=False):
    kind, depth, table, apex, sub, par, pcap = case
    cb = []
    sref = [None]
    bad = set(bad)

    def fn():
        p = corr_C13.build_pyramid(kind, depth, table, apex, sub)

        def callback(pos):
            S = sref[0]
            nm = S.me().name
            w = int(nm[1:]) if nm.startswith("W") else -1
            cb.append((False, tuple(pos), w))
            if w >= 0:
                S.custom_sync("Cb")        # the callback is not atomic: one sync point inside
            if tuple(pos) in bad:
                raise RuntimeError(f"callback failed at {tuple(pos)}")
            cb.append((True, tuple(pos), w))

        p.walk(callback, parallel=par)

    orig_init = detsched.Scheduler.__init__

    def hooked(self, *a, **k):
        orig_init(self, *a, **k)
        sref[0] = self

    detsched.Scheduler.__init__ = hooked
    sink = io.StringIO()
    try:
        with contextlib.redirect_stdout(sink), contextlib.redirect_stderr(sink):
            outcome, val, S = detsched.run_under((), fn, pipe_cap=pcap, chooser=chooser, contention=contention)
    finally:
        detsched.Scheduler.__init__ = orig_init
    exits = [S.actors[f"W{i}"].exited and S.actors[f"W{i}"].exitcode == 0 for i in range(S.n_workers)]
    return dict(outcome=outcome, error=repr(val) if outcome == "raised" else None, trace=S.trace, cb=cb,
                spawned=S.n_workers, exits=exits, cont=bool(contention))


def property_fails(case, r, serial_ops):
    """C01 on the implementation's behaviour: callbacks = live non-leaf tiles each
    exactly once, children's callbacks completed before the parent's starts
    (callbacks are atomic here, so log order decides), walk returned, equals serial."""
    why = []
    if r["outcome"] != "returned":
        why.append(f"walk did not return: {r['outcome']} {r['error']}")
    kind, depth, table, apex, sub, par, pcap = case
    _tree, _live, _leaves, ops = corr_C13.ref_sets(kind, depth, table, apex, sub)
    starts = [p for e, p, _w in r["cb"] if not e]
    got = [p for e, p, _w in r["cb"] if e]
    if sorted(starts) != sorted(got):
        why.append("a callback started but did not complete")
    if sorted(got) != sorted(ops):
        why.append(f"callbacks {sorted(got)[:6]}… != live parents {sorted(ops)[:6]}… (each exactly once)")
    if sorted(got) != sorted(serial_ops):
        why.append("parallel callback set != serial callback set")
    ended = set()
    for e, p, _w in r["cb"]:
        if e:
            ended.add(p)
        else:
            for c in corr_C13.children(p):
                if c in ops and c not in ended:
                    why.append(f"callback for {p} started before the callback of its live child {c} completed")
    if r["outcome"] == "returned" and r["spawned"] and not all(r["exits"]):
        why.append("walk returned while a worker had not exited normally")
    return why


def gen_case(rng):
    kind = rng.choice((0, 1, 2, 2, 2))
    depth = rng.choice((1, 2, 2, 3, 3)) if kind != 2 else rng.choice((1, 2, 3, 3, 4))
    if kind == 2:
        dens = rng.choice((0.4, 0.6, 0.8, 1.0))
        if depth == 4:
            dens = min(dens, 0.5)
        table = tuple(corr_C13.gen_table(rng, depth, dens, childless_p=rng.choice((0.0, 0.15, 0.3))))
    else:
        table = ()
    sub = rng.random() < 0.5
    apex = corr_C13.rand_apex(rng, depth, table) if sub else (0, 0, 0)
    par = rng.choice((2, 2, 3, 4))
    pcap = rng.choice((1, 2, 4, 1 << 20))
    return (kind, depth, table, apex, sub, par, pcap)


def g_case(case, r, bad=()):
    kind, depth, table, apex, sub, par, pcap = case
    return ("(mkWC %d %d %s %s %s %d %d %s %s %s %s %s %s)" % (
        kind, depth, g_list([g_pos(p) for p in table]), g_pos(apex), g_bool(sub), par, min(pcap, 1 << 20),
        g_list([g_pos(p) for p in bad]), g_bool(r.get("cont", False)), g_trace(r["trace"]), g_bool(r["outcome"] == "returned"),
        g_list([f"({g_bool(e)}, {g_pos(p)}, {w})" for e, p, w in r["cb"]]), g_bool(r["spawned"] > 0)))


def real_fork_runs(rng, n, V):
    """A few runs on real processes (OS scheduler), judged by the predicate."""
    import tempfile
    done = 0
    for _ in range(n):
        case = gen_case(rng)
        kind, depth, table, apex, sub, par, pcap = case
        d = common.workdir() / f"fork{done}"
        d.mkdir(exist_ok=True)
        logf = str(d / "cb.log")

        def callback(pos, logf=logf):
            fd = os.open(logf, os.O_WRONLY | os.O_APPEND | os.O_CREAT)
            os.write(fd, f"{pos.n} {pos.x} {pos.y} {os.getpid()}\n".encode())
            os.close(fd)

        sink = io.StringIO()
        with contextlib.redirect_stdout(sink):
            p = corr_C13.build_pyramid(kind, depth, table, apex, sub)
            p.walk(callback, parallel=par)
        got = []
        if os.path.exists(logf):
            for line in open(logf):
                a, b, c, pid = line.split()
                got.append((False, (int(a), int(b), int(c)), int(pid)))
                got.append((True, (int(a), int(b), int(c)), int(pid)))
        r = dict(outcome="returned", error=None, cb=got, spawned=0, exits=[])
        serial = corr_C13.observe(kind, depth, table, apex, sub)["walk"]
        why = property_fails(case, r, serial)
        if why:
            V.disagreement("C01 predicate on a real multi-process run", dict(walk=list(map(str, case))),
                           "each live parent once, children first", dict(why=why), True)
        done += 1
    return done


def run(ctx, V):
    rng = common.rng_for(ctx["seed"], "C01")
    quick = ctx["tier"] == "quick"
    n_cases = 220 if quick else 2500
    cases, results = [], []
    if ctx.get("replay") and ctx["replay"].get("case", {}).get("chosen"):
        c = ctx["replay"]["case"]
        case = (c["kind"], c["depth"], tuple(tuple(p) for p in c["table"]), tuple(c["apex"]), c["sub"], c["par"], c["pcap"])
        cases.append(case)
        results.append(run_walk(case, detsched.trace_chooser(c["chosen"]), contention=bool(c.get("cont"))))
    for k in range(n_cases):
        srng = common.rng_for(rng.randrange(1 << 30), "C01case")
        case = gen_case(srng)
        mode = srng.choice(MODES)
        # every third walk admits Empty under reader-lock contention on the ready queue; half of those prefer it
        cont = (k % 3 == 2)
        if k % 6 == 5:
            mode = "contend"
        r = run_walk(case, make_chooser(srng, mode, srng.choice((60, 200, 600))), contention=cont)
        r["mode"] = mode
        cases.append(case)
        results.append(r)
    terms = [g_case(c, r) for c, r in zip(cases, results)]
    bad = common.coq_eval_sharded(COQ_DEFS, terms, "chk", ["Model.Quadtree", "Model.Reducer", "Model.WalkPar"],
                                  shard=24, jobs=14, name="c01")
    hist, nontrivial = {}, set()
    for i, (case, r) in enumerate(zip(cases, results)):
        kind, depth, table, apex, sub, par, pcap = case
        serial = corr_C13.observe(kind, depth, table, apex, sub)["walk"]
        why = property_fails(case, r, serial)
        key = f"kind{kind}/depth{depth}/par{par}/{r.get('mode')}"
        hist[key] = hist.get(key, 0) + 1
        if len(r["cb"]) >= 4 and any(ch[0] == "Timeout" for _e, ch in r["trace"]):
            nontrivial.add((case, tuple(ch for _e, ch in r["trace"])))
        if i in bad or why:
            code = bad.get(i, 0)
            rel = ("WalkPar.v ~ pyramid.py walk: " +
                   (f"trace step {code - 1000} (enabled set / chosen action)" if code >= 1000 else
                    {0: "agrees; C01 predicate fails on implementation", 1: "returned", 2: "callback log",
                     3: "workers spawned", 5: "preparation pass"}[code]))
            V.disagreement(rel, dict(kind=kind, depth=depth, table=[list(p) for p in table], apex=list(apex), sub=sub,
                                     par=par, pcap=pcap, cont=r.get("cont", False), chosen=[list(ch) for _e, ch in r["trace"]]),
                           "model replay of the recorded trace; theorems walk_par_safety / walk_par_terminal",
                           dict(outcome=r["outcome"], callbacks=r["cb"][:12], why=why), bool(why))
    # search for a failing input: a walk whose trace the model does not accept but whose outcome still
    # satisfied the statement is re-run on the same pyramid under many more schedules, and on full pyramids
    n_search = 0
    suspects = [i for i in sorted(bad) if not property_fails(cases[i], results[i], corr_C13.observe(*cases[i][:5])["walk"])]
    if suspects and not any(property_fails(cases[i], results[i], corr_C13.observe(*cases[i][:5])["walk"]) for i in bad):
        tried = [cases[i] for i in suspects[:3]] + [(0, 2, (), (0, 0, 0), False, 3, 4), (1, 2, (), (0, 0, 0), False, 2, 2)]
        found = False
        for case in tried:
            serial = corr_C13.observe(*case[:5])["walk"]
            for t in range(60 if quick else 300):
                srng = common.rng_for(rng.randrange(1 << 30), "C01search")
                r = run_walk(case, make_chooser(srng, srng.choice(("uniform", "uniform", "slow_w0")), 2000))
                n_search += 1
                why = property_fails(case, r, serial)
                if why:
                    kind, depth, table, apex, sub, par, pcap = case
                    V.disagreement("C01 predicate on implementation (found by searching schedules of a walk the model rejects)",
                                   dict(kind=kind, depth=depth, table=[list(p) for p in table], apex=list(apex), sub=sub,
                                        par=par, pcap=pcap, cont=False, chosen=[list(ch) for _e, ch in r["trace"]]),
                                   "each live parent once, after all its live children",
                                   dict(outcome=r["outcome"], callbacks=r["cb"][:16], why=why), True)
                    found = True
                    break
            if found:
                break
    n_fork = real_fork_runs(rng, 4 if quick else 30, V)
    samples = [dict(pyramid=[c[0], c[1], [list(p) for p in c[2]][:10], list(c[3]), c[4]], par=c[5], pcap=c[6],
                    steps=len(r["trace"]), callbacks=len(r["cb"])) for c, r in list(zip(cases, results))[:3]]
    return dict(evaluations=len(cases) + n_fork, distinct_nontrivial=len(nontrivial),
                traces_validated_against_impl=len(terms), real_fork_runs=n_fork, schedules_searched_after_a_disagreement=n_search,
                walks_with_lock_contention=sum(1 for r in results if r.get("cont")),
                contended_empty_exceptions_taken=sum(1 for r in results for _e, ch in r["trace"] if ch[0] == "CTimeout"),
                scheduler_steps=sum(len(r["trace"]) for r in results),
                rule="random pyramids (generic / TOAST / filtered with gap children and accept-but-childless tiles, random "
                     "sub-pyramid apex), par in {2,3,4}, pipe capacity in {1,2,4,unbounded}, a third of the walks with Empty under "
                     "reader-lock contention on the ready queue (action KCTimeout), biased schedule choosers for "
                     "60-600 steps then progress-first fallback; non-trivial = distinct (pyramid, params, action sequence) "
                     "with >= 2 callbacks and at least one queue timeout",
                input_histogram=hist, samples=samples)
