"""Workflow probes: the property's own predicate evaluated on the implementation through the
user-facing entry points (toasty.cli.entrypoint, tile_fits, Builder, FitsTiler, the pipeline
commands), i.e. through the GLUE around the modelled core: option parsing and defaults, the
plumbing of options down to the core, the way results are carried back up.

The Coq model covers the core (DESIGN.md section 5); the glue is not modelled.  A slip there
(an argument in the wrong slot, a dropped keyword, the wrong one of two similarly named
variables) leaves every model/implementation correspondence intact and still breaks the
property as a user sees it.  Each probe under harness/workflows/ is a self-contained script
that builds small synthetic inputs, drives one workflow in-process, evaluates the property's
statement on what comes out (files on disk, WTML, returned objects, recorded callbacks) with an
oracle that does not use the code under test, and exits 0 when it holds, 1 when it does not.
They are tests, not proofs: they support the tie between the model and the code on the part
of the code the model does not reach, and supply concrete failing inputs.

A probe is run in a subprocess with the tree under test first on sys.path (cwd = the tree).
Exit 1 without a traceback is a failure of the property's predicate on that workflow (the
replay names the script; running it by hand in the tree reproduces it); a traceback, another
exit code or a timeout is reported as a probe that no longer completes.
"""
import os
import subprocess
import sys
import time

import common

HERE = os.path.dirname(os.path.abspath(__file__))
WF = os.path.join(HERE, "workflows")

# name -> (tier, what the workflow is, timeout in seconds)
PROBES = {
    "C01": [("C01_l", "quick", "tile_fits([a, b], TOAST, parallel=1|2): every ancestor of a leaf tile gets exactly one cascade callback, after its children", 600),
            ("C01_m", "quick", "toasty view --tile-only --tiling-method toast -j 1|3 on two images: the same, through the command line", 600),
            ("C01_n", "quick", 'cascade_images / Builder.cascade with three tile filters, parallel 1|2|3: callbacks exactly for the live parents (brute-force live set), children first', 900),
            ("C01_o", "quick", 'a second Builder.cascade into a pyramid that already has a top tile (two images composited; a study image re-tiled), parallel 1|2|3: callbacks for every live parent', 900)],
    "C02": [("C02_l", "quick", "tile_fits([a, b], TOAST, parallel=1|2): every tile above the start level is the 2x2 reduction of its children", 600),
            ("C02_m", "quick", "toasty cascade --format FMT in a directory holding npy and png tiles: parents of the requested format", 600),
            ("C02_n", "quick", 'toasty cascade --format F -j 1|2 in a directory holding png, npy and fits base layers', 600),
            ("C02_o", "quick", 'cascade_images with a tile filter, parallel 1|2, cli_progress on and off, npy / fits / png: parents exist and equal the reduction', 900),
            ("C02_p", "quick", 'one process: toasty tile-study --black-to-transparent on image A, then toasty cascade on an unrelated opaque PNG pyramid B with black pixels', 600)],
    "C03": [("C03_l", "quick", "toasty transform u8-to-rgb --outdir, -j 1 vs -j 3: the same tiles are produced", 600),
            ("C03_m", "quick", "tile_fits([a, b], TAN) on images without a common grid, parallel 1 vs 3: returns, same pyramid", 900),
            ("C03_n", "quick", 'toasty transform fx3-to-rgb in place and with --outdir, -j 1|3: every tile transformed exactly once', 600),
            ("C03_o", "quick", 'toasty transform u8-to-rgb --start D -j N for six (D, N) pairs: exactly the tiles of levels 0..D, each once, at most N workers', 900)],
    "C04": [("C04_l", "quick", "Pyramid (unfiltered / filtered / subpyramid) and sample_layer_filtered hand out the tiles create_single_tile gives, both coordinate systems", 600),
            ("C04_m", "quick", "Builder.toast_base / tile-allsky: sky, planet and panorama layouts", 600),
            ("C04_n", "quick", 'toast_pixel_for_point vs toast_tile_for_point / create_single_tile / the generators, both coordinate systems', 600),
            ("C04_o", "quick", "several Pyramid.new_toast objects of different coordinate systems alive at once: each hands out its own system's tiles", 600)],
    "C05": [("C05_l", "quick", "Builder.toast_base(is_planet, tile_filter): sampler coordinates are the level n+8 tile centres", 600),
            ("C05_m", "quick", "sample_layer / tile-allsky at depth 0: the level-0 grid is the level-8 tile centres", 600),
            ("C05_n", "quick", 'filtered pyramids and Builder.toast_base with an accept-all filter, both coordinate systems: coordinates are the level n+8 centres', 600),
            ("C05_o", "quick", 'create_single_tile vs generate_tiles at levels 1-3 and pixel grids vs level n+8 centres, both coordinate systems', 600)],
    "C06": [("C06_l", "thorough", "Builder.toast_base over depth, format, filter, coordinate system, workers: tile files hold the sampler's values at their own centres", 1800),
            ("C06_m", "thorough", "the same over both path schemes: file names derived from get_path_scheme()", 1800),
            ("C06_n", "thorough", 'sample_layer_filtered / Builder.toast_base(tile_filter) in both coordinate systems, npy and fits, 1 and 3 workers', 1800),
            ("C06_o", "quick", 'tile_fits(TOAST, override=True) into a directory holding an earlier tiling, parallel 1|2, progress on and off', 900)],
    "C07": [("C07_l", "quick", "chunked planetary tiling through Builder.toast_base(tile_filter) equals whole-map tiling", 600),
            ("C07_m", "quick", "tile_fits([a, b], TOAST): the filtered cascade leaves no holes (equals the unfiltered cascade of the base level)", 600),
            ("C07_n", "quick", 'a planetary map served in ragged chunks: each chunk, all chunks in sequence, and the filtered leaf set', 900),
            ("C07_o", "quick", 'ChunkedJPEG2000Reader (in-memory stand-in for glymur) with non-square chunks: every chunk sampled, equals whole-map sampling', 900)],
    "C08": [("C08_l", "quick", "Builder.tile_base_as_study into both path schemes, tiles read back through the WTML Url template", 600),
            ("C08_m", "quick", "MultiTanProcessor.tile parallel 2 vs 1 on FITS pieces: the centred mosaic, partly filled tiles included", 600),
            ("C08_n", "quick", 'toasty tile-study --crop in nine spellings on two images, tiles read back through the WTML', 600),
            ("C08_o", "quick", 'one-pixel-wide / one-pixel-high and small images in five modes through Builder.tile_base_as_study and tile-study', 600)],
    "C09": [("C09_l", "quick", "tile_fits(pieces, blankval=0, TAN) in both orders equals tile_fits(assembled mosaic)", 600),
            ("C09_m", "quick", "MultiTanProcessor.tile(parallel=2|4) with a slow hand-over of the last image equals the serial mosaic", 900),
            ("C09_n", "quick", 'tile_fits(five overlapping zero-padded windows, blankval=0) in three orders and both parities vs the mosaic', 900),
            ("C09_o", "quick", 'toasty view --tiling-method tan --blankval=-999 on two overlapping parts, both orders, 1 and 2 workers, vs the mosaic', 900)],
    "C10": [("C10_l", "quick", "three Builder.toast_base processes updating one tile: no contribution lost, mutual exclusion kept", 900),
            ("C10_m", "quick", "toasty tile-multi-tan --parallelism 1|2 on overlapping images: shared tiles keep every contribution", 600),
            ("C10_n", "quick", 'MultiWcsProcessor.tile(parallel=3) with a forced overlap attempt on one tile: every contribution kept', 900),
            ("C10_o", "quick", 'four concurrent update_image callers on a tile in a not-yet-existing row directory: every contribution kept', 600)],
    "C11": [("C11_l", "quick", "toasty tile-allsky --projection plate-carree(-galactic): every tile pixel is the map cell containing its sky point", 600),
            ("C11_m", "quick", "toasty tile-allsky at depth 0 vs depth 1 for the planetary projections", 600),
            ("C11_n", "quick", 'toasty tile-allsky --crop=V,H vs --crop=V,H,V,H: sampler arrays and tile pixels', 600),
            ("C11_o", "quick", 'toasty tile-allsky --colorspace-processing none on a map with an ICC profile, four projections: stored pixel values', 600),
            ("C11_p", "quick", 'ChunkedPlateCarreeSampler over a stand-in chunked map with non-square chunks: every in-chunk point gets the map cell containing it, nothing outside is filled', 600)],
    "C12": [("C12_l", "thorough", "toast_pixel_for_point alternating between the two coordinate systems", 900),
            ("C12_m", "quick", "toast_pixel_for_point at depths 1..22 against a double-precision oracle", 900),
            ("C12_n", "quick", 'tile and pixel lookup over all longitudes, depths 1..: containment, nesting, 2pi periodicity, brute-force nearest centre', 900),
            ("C12_o", "thorough", '174 points x depths 0-8 x both systems against an independently rebuilt tiling: containment, nesting, periodicity, pixel', 1800)],
    "C13": [("C13_l", "quick", "tile_fits([a, b], TOAST, depth 4): cascade visits vs count_operations of the pyramid covering all inputs", 600),
            ("C13_m", "quick", "subpyramid counts and visits for every apex at depths 0..3, four kinds of pyramid", 600),
            ("C13_n", "quick", 'count_tiles_matching_filter vs enumeration, the three Pyramid counters, callbacks and the closed forms (80 cases)', 600),
            ("C13_o", "quick", 'reported leaf counts vs serial and PARALLEL leaf visits for TOAST and generic pyramids, three apex choices, and tile-allsky at depth 0', 900)],
    "C14": [("C14_l", "quick", "tile_fits([bright, faint], TOAST): root DATAMIN/DATAMAX, ImageSet and WTML carry both images' range", 600),
            ("C14_m", "quick", "two TAN panels with an off-grid seam (tile_fits, tile-multi-tan + cascade): leaf headers, root and WTML", 600),
            ("C14_n", "quick", 'two TAN chips sharing a leaf tile (tile_fits parallel 1|2, tile-multi-tan + cascade): every header, ImageSet, WTML', 600),
            ("C14_o", "quick", 'leaves whose recorded minimum or maximum is exactly 0 (sparse depth-3 pyramids, parallel 1|2; tile_fits on a counts image)', 600)],
    "C15": [("C15_l", "quick", "tile_fits([a, b], TOAST): the later image's undefined pixels do not erase the earlier image", 600),
            ("C15_m", "quick", "toasty tile-study + cascade -j 1: parents are undefined where all their sources are", 600),
            ("C15_n", "quick", 'toasty tile-study --black-to-transparent on RGBA input into a directory with stale tiles, then cascade', 600),
            ("C15_o", "quick", 'toasty view --tile-only --blankval 0 / 0.0: declared-blank pixels stay undefined, all-blank tiles are not stored', 600)],
    "C16": [("C16_l", "quick", "toasty tile-study --fits-wcs with a rescaled reference: no pixel moves on the sky", 600),
            ("C16_m", "quick", "toasty tile-study --avm on non-square images: no pixel moves on the sky", 600),
            ("C16_n", "quick", 'collection.load of a cube with a degenerate axis: Image and ImageDescription after ensure_negative_parity, tile-multi-tan centre', 600),
            ("C16_o", "quick", 'Image.from_array(data, wcs) flipped and tiled into a FITS pyramid through the Builder: every pixel at its sky position', 600)],
    "C17": [("C17_l", "quick", "tile_fits([fine, coarse], TOAST) without start: TileLevels vs the deepest populated level", 600),
            ("C17_m", "quick", "toasty tile-study plain / --avm / --avm-from: Url, FileType, TileLevels vs the directory tree", 600),
            ("C17_n", "quick", 'toasty pipeline init/refresh/fetch/process-todos with an AstroPix-type source: WTML template vs the files', 600),
            ("C17_o", "quick", 'toasty pipeline process-todos with a Djangoplicity-type source: WTML template vs the files', 600)],
    "C18": [("C18_l", "quick", "pipeline publish dying inside the index.wtml transfer, then refresh", 600),
            ("C18_m", "quick", "pipeline publish failing at each transfer, four listing orders, then refresh and re-publish", 600),
            ("C18_n", "quick", 'the pipeline command line with a failure injected at 120 points of publish, then the re-run: store vs approved files vs refresh', 900),
            ("C18_o", "quick", 'publish fails, the image is re-processed and re-approved, publish re-run: it completes', 600),
            ("C18_p", "quick", 'publish fails part-way, then pipeline ignore-rejects (empty rejects/), refresh from a fresh working directory, publish re-run', 600)],
    "C19": [("C19_l", "quick", "serial walk / visit_leaves / toasty cascade -j 1 with the progress bar on: an I/O error on a tile is reported", 600),
            ("C19_m", "quick", "tile_fits(TOAST, parallel=1) with a failing merger raises instead of hanging", 600),
            ("C19_n", "quick", 'SLURM_NPROCS=4 with explicit parallel=1 / -j 1: visit_leaves, walk, toasty cascade, u8_to_rgb report a failing tile', 600),
            ("C19_o", "quick", 'toasty transform u8-to-rgb --parallelism 1 with a damaged tile raises', 600)],
    "C20": [("C20_l", "quick", "toasty tile-multi-tan --wcs-key A: the alternate WCS places the image", 600),
            ("C20_m", "quick", "a multi-extension file named several times with per-file HDU indices (load, tile_fits, toasty view)", 600),
            ("C20_n", "quick", "tile_fits([b, a], hdu_index=[1, 2]) / wcs_key=['A', ' '] with unsorted paths; default out_dir", 600),
            ("C20_o", "quick", 'toasty view --hdu-index lists with a multi-extension file named several times', 600)],
}


def _ends_in_traceback(log):
    """True when the probe itself died of an exception (its output ENDS with a traceback); tracebacks
    printed earlier -- by worker processes of the code under test, or caught and reported by the probe --
    are part of what it observed"""
    lines = [l for l in log.rstrip().splitlines()]
    idx = max((i for i, l in enumerate(lines) if l.startswith("Traceback (most recent call last)")), default=None)
    if idx is None:
        return False
    rest = lines[idx + 1:]
    k = 0
    while k < len(rest) and (rest[k].startswith(" ") or not rest[k].strip()):
        k += 1                       # the frames
    # rest[k] is the exception line; anything substantial after it means the probe went on
    after = [l for l in rest[k + 1:] if l.strip()]
    return len(after) == 0


def run(V, pid, tier):
    """run the probes of property pid; returns a list of outcomes for the evidence file"""
    out = []
    for name, ptier, what, tmo in PROBES.get(pid, []):
        if ptier == "thorough" and tier == "quick":
            continue
        script = os.path.join(WF, name + ".py")
        env = dict(os.environ)
        env["PYTHONPATH"] = str(common.REPO)
        env["PYTHONHASHSEED"] = "0"
        env.pop("TOASTY_REPO", None)
        t0 = time.time()
        try:
            p = subprocess.run([sys.executable, script], cwd=str(common.REPO), env=env, timeout=tmo,
                               stdout=subprocess.PIPE, stderr=subprocess.STDOUT, text=True, start_new_session=True)
            rc, log = p.returncode, p.stdout
        except subprocess.TimeoutExpired as e:
            rc, log = "timeout", (e.stdout or b"").decode("utf-8", "replace") if isinstance(e.stdout, bytes) else (e.stdout or "")
        dt = round(time.time() - t0, 1)
        out.append(dict(probe=name, workflow=what, seconds=dt, rc=rc))
        if rc == 0:
            continue
        tail = "\n".join(log.strip().splitlines()[-25:])
        case = dict(type="workflow-probe", script=f"harness/workflows/{name}.py", workflow=what,
                    how_to_run=f"cd <tree> && PYTHONPATH=<tree> /venv/bin/python /verif/harness/workflows/{name}.py")
        if rc == 1 and not _ends_in_traceback(log):
            V.disagreement(f"{pid} predicate on the implementation, workflow probe {name}: {what}",
                           case, "the statement holds on this workflow (exit 0)", tail, True)
        else:
            V.disagreement(f"workflow probe {name} completes: {what}", case, "exit 0", dict(rc=rc, output=tail), None)
    return out
