"""C09 correspondence: tiling images on a common TAN grid equals tiling the mosaic.

Implementation side (from $TOASTY_REPO): toasty.multi_tan.MultiTanProcessor
(compute_global_pixelization, tile with parallel = 1 and real fork runs with
parallel = 2 / 3), toasty.collection.SimpleFitsCollection,
toasty.study.StudyTiling (sub-tilings), toasty.image.Image
(update_into_maskable_buffer, flip_parity), toasty.pyramid.PyramidIO
(update_image, clean_lockfiles), toasty.builder.Builder (apply_wcs_info).
Model side: Model/MultiTan.v (on Model/Study.v) evaluated by vm_compute.

Per case: a mosaic M (<= 1500 px) with injective float32 content, 1-6
rectangles (overlapping ones agree by construction, optional NaN borders)
written as tiny FITS files with a shared TAN WCS under common.workdir(), in
either storage parity (uniform, or mixed when the headers use the CD/PC form),
in a permuted order.  Compared:
  * global pixelisation (width, height, tiling, CRPIX, segments, n_todo)
    against compute_global_pixelization of the model, inside Coq;
  * every deepest-level tile file against (a) the model's update rectangles
    expanded by numpy with the float update semantics and (b) REAL
    StudyTiling.tile_image of the pasted mosaic, exactly;
  * the ImageSet astrometric attributes against those a Builder derives from
    the mosaic's own WCS;  * that no *.lock files remain.
"""
import fractions
import os
import re
import shutil
import warnings

import numpy as np

import common
from common import g_Z, g_list, g_bool

import corr_C08 as c08

TRUSTED = [
    "numpy expansion of the model's update rectangles (corr_C09.expand_updates: non-NaN source pixel replaces, NaN leaves the tile alone)",
    "astropy FITS/WCS I/O used to write the inputs and to normalise headers (WCS.to_header)",
    "the MATCH_HEADERS token fed to the model is read off astropy's normalised header of each input",
    "wwt_data_formats ImageSet.set_position_from_wcs is a function of (header, width, height)",
    "SoftFileLock makes each update_image read-modify-write atomic per tile (property C10)",
]
ASSUMPTIONS = [
    "inputs share one pixel grid (integer offsets between their CRPIX values after parity normalisation) - hypothesis on_grid of the theorems; off-grid collections are only compared at the global-pixelisation level",
    "inputs are float FITS images (NaN = undefined); integer FITS would merge by maximum",
    "overlapping inputs agree where both are defined (by construction of the cases)",
    "collections mixing storage parities are accepted by the code only when the headers use the CD/PC form; with CDELT-form headers the MATCH_HEADERS check rejects them loudly (model: None)",
    "ImageSet astrometric floats are compared with relative/absolute margin 1e-9",
    "parallel runs sample the OS scheduler (real fork, parallel = 2, 3); every interleaving is covered by the theorem schedule_independent, given per-tile atomicity (C10)",
]

ASTRO_ATTRS = ["center_x", "center_y", "rotation_deg", "base_degrees_per_tile", "offset_x", "offset_y",
               "tile_levels", "bottoms_up", "width_factor", "base_tile_level", "projection"]

COQ_DEFS = "From Coq Require Import QArith.\n" + c08.COQ_DEFS + r"""
Definition q_eqb (a b : Q) : bool := Qeq_bool a b.
Record mcase := mkM {
  m_ds : list fits_desc;
  (* observed: None if the implementation raised *)
  m_obs : option (list Z * Q * Q * list (list Z) * Z) }.
Definition seg_flat (s : segment) : list Z := [sg_imin s; sg_jmin s] ++ fields (sg_tiling s).
Definition chk_global (c : mcase) : nat :=
  match compute_global_pixelization (m_ds c), m_obs c with
  | None, None => 0%nat
  | None, Some _ => 1%nat
  | Some _, None => 1%nat
  | Some g, Some (f, c1, c2, segs, todo) =>
      if negb (zl_eqb ([gp_width g; gp_height g] ++ fields (gp_tiling g)) f) then 2%nat
      else if negb (q_eqb (gp_crpix1 g) c1 && q_eqb (gp_crpix2 g) c2) then 3%nat
      else if negb (zll_eqb (map seg_flat (gp_segments g)) segs) then 4%nat
      else if negb (gp_n_todo g =? todo) then 5%nat
      else 0%nat
  end.
(* clean_lockfiles: planted stale lock files vs the ones remaining *)
Definition chk_locks (c : Z * list (list Z) * list (list Z)) : bool :=
  let '(level, planted, remaining) := c in
  let to_pos := fun l => match l with [n; x; y] => (n, x, y) | _ => (0, 0, 0) end in
  zll_eqb (map (fun p => let '(n, x, y) := p in [n; x; y]) (clean_lockfiles level (map to_pos planted))) remaining.
(* the update rectangles of every input, through the model's own input_ops *)
Definition dummy_px : @pixels unit := fun _ _ => None.
Definition mt_updates (ds : list fits_desc) (inv : bool) : option (list (list (list Z))) :=
  match compute_global_pixelization ds with
  | None => None
  | Some g =>
      map_opt (fun i => option_map (map (fun o => placement_flat (op_pl o))) (input_ops inv i))
              (make_inputs (gp_segments g) ds (map (fun _ => dummy_px) ds))
  end.
"""

RELNAMES = {
    1: "MultiTan.v compute_global_pixelization ~ multi_tan.py (success / exception)",
    2: "MultiTan.v global width/height/tiling ~ multi_tan.py",
    3: "MultiTan.v global CRPIX (ref_headers) ~ multi_tan.py",
    4: "MultiTan.v segments (imin, jmin, sub-tilings) ~ multi_tan.py",
    5: "MultiTan.v n_todo ~ multi_tan.py",
}

SCALE = 1.0 / 1024  # degrees per pixel, a dyadic rational


# ------------------------------------------------------------------ case construction

def mosaic_content(Hm, Wm):
    r, c = np.mgrid[0:Hm, 0:Wm]
    return (r * Wm + c + 1).astype(np.float32)   # < 2^24: exact and injective


def gen_layout(rng, tier):
    edge = [255, 256, 257, 511, 512, 513, 1023, 1024, 1025]
    def dim():
        r = rng.random()
        if r < 0.4:
            return rng.choice(edge)
        if r < 0.7:
            return rng.randint(20, 600)
        return rng.randint(20, 1500)
    Wm, Hm = dim(), dim()
    if tier == "quick" and Wm > 1000 and Hm > 1000 and rng.random() < 0.7:
        Hm = rng.randint(20, 600)
    k = rng.choice((1, 2, 2, 3, 3, 4, 5, 6))
    rects = []
    if k == 1:
        rects.append((0, 0, Wm, Hm))
    else:
        w0, h0 = rng.randint(1, Wm), rng.randint(1, Hm)
        rects.append((0, 0, w0, h0))
        w1, h1 = rng.randint(1, Wm), rng.randint(1, Hm)
        rects.append((Wm - w1, Hm - h1, w1, h1))
        for _ in range(k - 2):
            w, h = rng.randint(1, Wm), rng.randint(1, Hm)
            x0, y0 = rng.randint(0, Wm - w), rng.randint(0, Hm - h)
            if rng.random() < 0.4:   # hug a tile boundary of the mosaic's grid
                p = c08.smallest_square(Wm, Hm)
                gx0 = (p - Wm) // 2
                cand = 256 * rng.randint(0, p // 256) - gx0 + rng.choice((-1, 0, 1))
                if 0 <= cand <= Wm - w:
                    x0 = cand
            rects.append((x0, y0, w, h))
    borders = [rng.choice((0, 0, 0, 1, 3, 17)) for _ in rects]
    # asymmetric interior NaN patches ("masked star"): (hx, hy, hw, hh) inside the piece, or None
    holes = []
    for (x0, y0, w, h) in rects:
        if w >= 8 and h >= 8 and rng.random() < 0.35:
            hw, hh = rng.randint(1, max(1, w // 3)), rng.randint(1, max(1, h // 3))
            holes.append((rng.randint(0, w - hw), rng.randint(0, (h - hh) // 2), hw, hh))   # upper half only
        else:
            holes.append(None)
    frac = rng.choice((0, 0, fractions.Fraction(1, 2)))
    gref = (rng.randint(-200, Wm + 200) + frac, rng.randint(-200, Hm + 200) + frac)
    return dict(Wm=Wm, Hm=Hm, rects=rects, borders=borders, holes=holes, gref=[str(gref[0]), str(gref[1])])


def gen_variant(rng, layout, force=None):
    k = len(layout["rects"])
    style = rng.choice(("cdelt", "cd"))
    r = rng.random()
    if r < 0.4:
        parities = [1] * k
    elif r < 0.8:
        parities = [-1] * k
    else:
        parities = [rng.choice((1, -1)) for _ in range(k)]
    order = list(range(k))
    rng.shuffle(order)
    v = dict(style=style, parities=parities, order=order, fmt=rng.choice(("fits", "fits", "npy")),
             parallel=rng.choice((1, 1, 2, 3)))
    if force:
        v.update(force)
    return v


def write_inputs(layout, variant, indir):
    """Write the FITS inputs; return (paths in collection order, pasted mosaic P,
    model descriptors in collection order as (crpix1, crpix2, w, h, par))."""
    from astropy.io import fits
    Wm, Hm = layout["Wm"], layout["Hm"]
    M = mosaic_content(Hm, Wm)
    P = np.full((Hm, Wm), np.nan, dtype=np.float32)
    gx, gy = (fractions.Fraction(s) for s in layout["gref"])
    shutil.rmtree(indir, ignore_errors=True)
    os.makedirs(indir)
    paths, descs = [], []
    tops = {}
    for k, ((x0, y0, w, h), b) in enumerate(zip(layout["rects"], layout["borders"])):
        T = M[y0:y0 + h, x0:x0 + w].copy()
        if b:
            T[:b, :] = np.nan
            T[-b:, :] = np.nan
            T[:, :b] = np.nan
            T[:, -b:] = np.nan
        hole = (layout.get("holes") or [None] * len(layout["rects"]))[k]
        if hole:
            hx, hy, hw, hh = hole
            T[hy:hy + hh, hx:hx + hw] = np.nan
        tops[k] = T
        ok = ~np.isnan(T)
        P[y0:y0 + h, x0:x0 + w][ok] = T[ok]
    for k in variant["order"]:
        x0, y0, w, h = layout["rects"][k]
        par = variant["parities"][k]
        T = tops[k]
        cx, cy = gx - x0, gy - y0            # 0-based, top-down, in the sub-image
        hd = fits.Header()
        hd["CTYPE1"], hd["CTYPE2"] = "RA---TAN", "DEC--TAN"
        hd["CRVAL1"], hd["CRVAL2"] = 30.0, 40.0
        crpix1 = cx + 1
        crpix2 = cy + 1 if par == -1 else h - cy      # h + 1 - (cy + 1)
        hd["CRPIX1"], hd["CRPIX2"] = float(crpix1), float(crpix2)
        s2 = -SCALE if par == -1 else SCALE          # top-down: positive determinant
        if variant["style"] == "cdelt":
            hd["CDELT1"], hd["CDELT2"] = -SCALE, s2
        else:
            hd["CD1_1"], hd["CD1_2"], hd["CD2_1"], hd["CD2_2"] = -SCALE, 0.0, 0.0, s2
        data = T if par == -1 else T[::-1]
        path = os.path.join(indir, f"in{len(paths)}_{k}.fits")
        fits.writeto(path, np.ascontiguousarray(data), hd, overwrite=True)
        paths.append(path)
        descs.append((crpix1, crpix2, w, h, par == 1))
    return paths, P, descs


def match_tokens(paths):
    """Token of the MATCH_HEADERS values of each input's normalised header."""
    from toasty.collection import SimpleFitsCollection
    from toasty.multi_tan import MATCH_HEADERS
    toks, table = [], {}
    with warnings.catch_warnings():
        warnings.simplefilter("ignore")
        for desc in SimpleFitsCollection(paths).descriptions():
            desc.ensure_negative_parity()
            h = desc.wcs.to_header()
            key = tuple(repr(h.get(k)) for k in MATCH_HEADERS)
            toks.append(table.setdefault(key, len(table) + 1))
    return toks


# ------------------------------------------------------------------ implementation runs

def tiling_fields(t):
    return [int(t._width), int(t._height), int(t._p2n), int(t._tile_size), int(t._tile_levels),
            int(t._img_gx0), int(t._img_gy0)]


def run_global(paths):
    """compute_global_pixelization on the real processor; observed dict or None if it raised."""
    from toasty.builder import Builder
    from toasty.collection import SimpleFitsCollection
    from toasty.multi_tan import MultiTanProcessor
    from toasty.pyramid import PyramidIO
    captured = {}
    pio = PyramidIO(str(common.workdir() / "c09_unused"), default_format="fits")
    b = Builder(pio)
    real_apply = b.apply_wcs_info

    def spy(wcs, width, height):
        hdr = wcs.to_header()
        captured.update(crpix1=float(hdr["CRPIX1"]), crpix2=float(hdr["CRPIX2"]), width=int(width), height=int(height))
        return real_apply(wcs, width, height)

    b.apply_wcs_info = spy
    proc = MultiTanProcessor(SimpleFitsCollection(paths))
    try:
        with warnings.catch_warnings():
            warnings.simplefilter("ignore")
            proc.compute_global_pixelization(b)
    except Exception as e:
        return None, None, None, repr(e)[:160]
    obs = dict(fields=[captured["width"], captured["height"]] + tiling_fields(proc._tiling),
               crpix=(captured["crpix1"], captured["crpix2"]),
               segs=[[int(d.imin), int(d.jmin)] + tiling_fields(d.sub_tiling) for d in proc._descs],
               todo=int(proc._n_todo))
    return obs, proc, b, None


_TIMEOUTS = [0]


def run_tile_guarded(proc, pio, parallel, timeout):
    """proc.tile(...) in a forked child with its own session, so that a run whose
    workers died (the dispatcher then blocks forever on a full queue) is turned
    into an observation instead of hanging the check.  Returns None or an error text."""
    import signal
    import time
    if parallel > 1 and _TIMEOUTS[0] >= 2:
        return "parallel run skipped: two earlier parallel runs of this check did not terminate"
    errfile = str(common.workdir() / "c09_tile_error.txt")
    try:
        os.unlink(errfile)
    except OSError:
        pass
    pid = os.fork()
    if pid == 0:
        code = 0
        try:
            os.setsid()
            with warnings.catch_warnings():
                warnings.simplefilter("ignore")
                proc.tile(pio, parallel=parallel, cli_progress=False)
        except BaseException as e:  # noqa
            code = 3
            try:
                with open(errfile, "w") as f:
                    f.write(repr(e)[:200])
            except OSError:
                pass
        os._exit(code)
    t0 = time.time()
    while True:
        r, status = os.waitpid(pid, os.WNOHANG)
        if r == pid:
            break
        if time.time() - t0 > timeout:
            try:
                os.killpg(pid, signal.SIGKILL)
            except OSError:
                pass
            os.waitpid(pid, 0)
            _TIMEOUTS[0] += 1
            return f"tile(parallel={parallel}) did not terminate within {timeout} s"
        time.sleep(0.01)
    if os.waitstatus_to_exitcode(status) != 0:
        try:
            return "tile raised: " + open(errfile).read()
        except OSError:
            return f"tile child exited with status {os.waitstatus_to_exitcode(status)}"
    return None


def read_all_tiles(base, fmt):
    files, other = c08.list_tile_files(base, fmt) if os.path.isdir(base) else (set(), [])
    tiles = {pos: c08.read_tile_direct(base, pos, fmt) for pos in files}
    locks = [o for o in other if o.endswith(".lock")]
    other = [o for o in other if not o.endswith(".lock")]
    return tiles, other, locks


def astro_of(imgset):
    out = {}
    for a in ASTRO_ATTRS:
        v = getattr(imgset, a, None)
        out[a] = v if isinstance(v, (int, float, bool, str, type(None))) else str(v)
    return out


def astro_equal(a, b):
    bad = []
    for k in ASTRO_ATTRS:
        x, y = a.get(k), b.get(k)
        if isinstance(x, float) or isinstance(y, float):
            if not (abs(x - y) <= 1e-9 * max(1.0, abs(x), abs(y))):
                bad.append((k, x, y))
        elif x != y:
            bad.append((k, x, y))
    return bad


def run_reference(layout, P, fmt, refdir):
    """REAL study tiling of the pasted mosaic + the astrometry of the mosaic's own WCS."""
    from astropy.wcs import WCS
    from toasty.builder import Builder
    from toasty.image import Image
    from toasty.pyramid import PyramidIO
    from toasty.study import StudyTiling
    shutil.rmtree(refdir, ignore_errors=True)
    pio = PyramidIO(refdir, default_format=fmt)
    gx, gy = (fractions.Fraction(s) for s in layout["gref"])
    w = WCS(naxis=2)
    w.wcs.ctype = ["RA---TAN", "DEC--TAN"]
    w.wcs.crval = [30.0, 40.0]
    w.wcs.crpix = [float(gx + 1), float(gy + 1)]
    w.wcs.cdelt = [-SCALE, -SCALE]
    b = Builder(pio)
    with warnings.catch_warnings():
        warnings.simplefilter("ignore")
        t = StudyTiling(layout["Wm"], layout["Hm"])
        t.apply_to_imageset(b.imgset)
        b.apply_wcs_info(w, layout["Wm"], layout["Hm"])
        t.tile_image(Image.from_array(P.copy()), pio)
    tiles, other, _locks = read_all_tiles(refdir, fmt)
    shutil.rmtree(refdir, ignore_errors=True)
    return tiles, astro_of(b.imgset)


def expand_updates(updates, descs, paths_data, inv):
    """Model update rectangles -> expected tiles (storage orientation)."""
    tiles = {}
    for pls, (c1, c2, w, h, par), F in zip(updates, descs, paths_data):
        img = F if (par == inv) else F[::-1]          # multi_tan.py:237-238
        for (n, x, y, iy0, iyc, ix0, ixc, by0, bystep, byc, bx0, bxc) in pls:
            assert bystep == 1 and iyc == byc and ixc == bxc
            t = tiles.get((n, x, y))
            if t is None:
                t = np.full((256, 256), np.nan, dtype=np.float32)
                tiles[(n, x, y)] = t
            sub = img[iy0:iy0 + iyc, ix0:ix0 + ixc]
            dst = t[by0:by0 + byc, bx0:bx0 + bxc]
            ok = ~np.isnan(sub)
            dst[ok] = sub[ok]
    return {pos: t for pos, t in tiles.items() if not np.isnan(t).all()}


def tiles_equal(a, b):
    if set(a) != set(b):
        return f"file sets differ: only-left {sorted(set(a) - set(b))[:4]} only-right {sorted(set(b) - set(a))[:4]}"
    for pos in sorted(a):
        x, y = np.asarray(a[pos], dtype=np.float64), np.asarray(b[pos], dtype=np.float64)
        if x.shape != y.shape or not np.array_equal(x, y, equal_nan=True):
            return f"tile {pos} differs"
    return None


def mosaic_predicate(layout, P, tiles, fmt):
    """Independent of model and of tile_image: the tiles, in display orientation,
    are the pasted mosaic centred on a NaN background."""
    Wm, Hm = layout["Wm"], layout["Hm"]
    p2n = c08.smallest_square(Wm, Hm)
    levels = (p2n // 256).bit_length() - 1
    gx0, gy0 = (p2n - Wm) // 2, (p2n - Hm) // 2
    exp = np.full((p2n, p2n), np.nan, dtype=np.float64)
    exp[gy0:gy0 + Hm, gx0:gx0 + Wm] = P
    got = np.full((p2n, p2n), np.nan, dtype=np.float64)
    for (n, x, y), tile in tiles.items():
        if n != levels or not (0 <= x < p2n // 256 and 0 <= y < p2n // 256) or tile.shape != (256, 256):
            return f"unexpected tile {(n, x, y)} shape {tile.shape}"
        got[256 * y:256 * y + 256, 256 * x:256 * x + 256] = tile[::-1] if fmt == "fits" else tile
    if not np.array_equal(got, exp, equal_nan=True):
        d = np.argwhere(~((got == exp) | (np.isnan(got) & np.isnan(exp))))
        return f"mosaic differs at {len(d)} pixels, first (row, col) = {d[0].tolist()}"
    return None


# ------------------------------------------------------------------ Gallina literals

def g_Q(fr):
    fr = fractions.Fraction(fr)
    return f"(Qmake ({fr.numerator})%Z {fr.denominator}%positive)"


def g_ds(descs, toks):
    return g_list(["(mkFD %d %s %s %s %s %s)" % (tk, g_Q(c1), g_Q(c2), g_Z(w), g_Z(h), g_bool(par))
                   for (c1, c2, w, h, par), tk in zip(descs, toks)])


def g_mcase(descs, toks, obs):
    if obs is None:
        o = "None"
    else:
        c1 = fractions.Fraction(obs["crpix"][0])
        c2 = fractions.Fraction(obs["crpix"][1])
        o = "(Some (%s, %s, %s, %s, %s))" % (c08.g_zl(obs["fields"]), g_Q(c1), g_Q(c2),
                                           g_list([c08.g_zl(s) for s in obs["segs"]]), g_Z(obs["todo"]))
    return f"(mkM {g_ds(descs, toks)} {o})"


def model_updates(keys):
    out = []
    CH = 40
    for i in range(0, len(keys), CH):
        chunk = keys[i:i + CH]
        terms = ["mt_updates %s %s" % (g_ds(d, t), g_bool(inv)) for (d, t, inv) in chunk]
        body = COQ_DEFS + "\nEval vm_compute in [" + ";\n ".join(terms) + "]."
        txt = common.coq_eval(body, name=f"c09up_{i}", imports=["Model.Study", "Model.MultiTan"])
        vals = common.parse_evals(txt)
        parsed = c08.parse_coq_value(vals[-1])
        assert len(parsed) == len(chunk)
        out.extend(None if p is None else p[1] for p in parsed)
    return out


def lock_cases(rng, n, base):
    """Plant stale *.lock files, call the real clean_lockfiles, list what remains."""
    from toasty.pyramid import PyramidIO, Pos
    out = []
    for _ in range(n):
        level = rng.randint(0, 3)
        fmt = rng.choice(("fits", "npy", "png"))
        shutil.rmtree(base, ignore_errors=True)
        pio = PyramidIO(base, default_format=fmt)
        planted = set()
        for _ in range(rng.randint(0, 12)):
            n_ = rng.choice((level, level, level, level + 1, max(0, level - 1)))
            hi = 2 ** n_ + (1 if rng.random() < 0.2 else 0)
            planted.add((n_, rng.randrange(hi), rng.randrange(hi)))
        planted = sorted(planted)
        for pos in planted:
            path = pio.tile_path(Pos(*pos)) + ".lock"
            open(path, "w").close()
        pio.clean_lockfiles(level)
        remaining = []
        for pos in planted:
            n_, x, y = pos
            if os.path.exists(os.path.join(base, str(n_), str(y), f"{y}_{x}.{fmt}.lock")):
                remaining.append(pos)
        shutil.rmtree(base, ignore_errors=True)
        out.append((level, planted, remaining))
    return out


# ------------------------------------------------------------------ driver

def case_json(layout, variant):
    return dict(layout=layout, variant=variant)


def offgrid_global_cases(rng, n):
    """Descriptor-level only: collections that violate the grid hypothesis (half
    or quarter pixel offsets): model and implementation must still agree on
    compute_global_pixelization (floor/ceil, zero-size guard, exceptions)."""
    out = []
    for _ in range(n):
        layout = gen_layout(rng, "quick")
        layout["offgrid"] = True
        out.append(layout)
    return out


def run(ctx, V):
    rng = common.rng_for(ctx["seed"], "C09")
    tier = ctx["tier"]
    n_layouts = 30 if tier == "quick" else 120
    runs = []
    for _ in range(n_layouts):
        layout = gen_layout(rng, tier)
        nvar = 2 if tier == "quick" else 3
        forced = [dict(parallel=rng.choice((2, 3)), fmt="fits"), dict(parallel=1)]
        for j in range(nvar):
            runs.append((layout, gen_variant(rng, layout, forced[j] if j < 2 else None)))
    # targeted: two full-size overlapping pieces covering whole tiles; the later one has an
    # asymmetric NaN patch inside a fully covered tile where the earlier one is defined
    tl = dict(Wm=600, Hm=600, rects=[(0, 0, 600, 600), (0, 0, 600, 600)], borders=[0, 0],
              holes=[None, (310, 120, 40, 30)], gref=["300", "300"])
    for par_, fmt_, pars_ in ((1, "fits", [1, 1]), (1, "npy", [-1, -1]), (2, "fits", [-1, 1])):
        runs.insert(0, (tl, dict(style="cd", parities=pars_, order=[0, 1], fmt=fmt_, parallel=par_)))
    rp = ctx.get("replay")
    if rp and isinstance(rp.get("case"), dict) and "layout" in rp["case"]:
        runs = [(rp["case"]["layout"], rp["case"]["variant"])] + runs[:3]

    work = common.workdir()
    indir, outdir, refdir = str(work / "c09_in"), str(work / "c09_out"), str(work / "c09_ref")
    mterms, mmeta = [], []
    pending = []
    stats = dict(runs=0, rejected=0, tiles_compared=0, parallel={1: 0, 2: 0, 3: 0}, fmt={}, mixed_parity=0,
                 shared_tile_runs=0, overlap_runs=0, inputs=0)
    nontrivial = set()
    for layout, variant in runs:
        from toasty.pyramid import PyramidIO
        paths, P, descs = write_inputs(layout, variant, indir)
        toks = match_tokens(paths)
        obs, proc, builder, err = run_global(paths)
        mterms.append(g_mcase(descs, toks, obs))
        mmeta.append((layout, variant, obs, err))
        stats["runs"] += 1
        stats["inputs"] += len(paths)
        if len(set(variant["parities"])) > 1:
            stats["mixed_parity"] += 1
        rs = layout["rects"]
        if any(a[0] < b[0] + b[2] and b[0] < a[0] + a[2] and a[1] < b[1] + b[3] and b[1] < a[1] + a[3]
               for ia, a in enumerate(rs) for b in rs[ia + 1:]):
            stats["overlap_runs"] += 1
        if obs is None:
            stats["rejected"] += 1
            continue
        fmt = variant["fmt"]
        inv = fmt == "fits"
        shutil.rmtree(outdir, ignore_errors=True)
        pio = PyramidIO(outdir, default_format=fmt)
        raised = run_tile_guarded(proc, pio, variant["parallel"], 20 if tier == "quick" else 40)
        tiles, other, locks = read_all_tiles(outdir, fmt)
        shutil.rmtree(outdir, ignore_errors=True)
        ref_tiles, ref_astro = run_reference(layout, P, fmt, refdir)
        from astropy.io import fits
        files_data = [np.array(fits.getdata(p), dtype=np.float32) for p in paths]
        pending.append(dict(layout=layout, variant=variant, descs=descs, toks=toks, inv=inv, tiles=tiles, other=other,
                            locks=locks, raised=raised, ref_tiles=ref_tiles, ref_astro=ref_astro,
                            astro=astro_of(builder.imgset), P=P, files_data=files_data))
        stats["parallel"][variant["parallel"]] += 1
        stats["fmt"][fmt] = stats["fmt"].get(fmt, 0) + 1
        stats["tiles_compared"] += len(tiles)
    # off-grid descriptor-level cases
    for layout in offgrid_global_cases(rng, 10 if tier == "quick" else 60):
        variant = gen_variant(rng, layout, dict(parallel=1))
        k = rng.randrange(len(layout["rects"]))
        paths, P, descs = write_inputs(layout, variant, indir)
        # shift one input's CRPIX by a fraction of a pixel, in the file and in the descriptor
        from astropy.io import fits
        j = variant["order"].index(k)
        d = fractions.Fraction(rng.choice((1, 1, 3)), rng.choice((2, 4)))
        with fits.open(paths[j], mode="update") as hdul:
            hdul[0].header["CRPIX1"] = float(fractions.Fraction(hdul[0].header["CRPIX1"]) + d)
        c1, c2, w, h, par = descs[j]
        descs[j] = (c1 + d, c2, w, h, par)
        toks = match_tokens(paths)
        obs, _proc, _b, err = run_global(paths)
        mterms.append(g_mcase(descs, toks, obs))
        mmeta.append((layout, variant, obs, err))
    shutil.rmtree(indir, ignore_errors=True)

    # global pixelisation: compared inside Coq
    bad = common.coq_eval_sharded(COQ_DEFS, mterms, "chk_global", ["Model.Study", "Model.MultiTan"],
                                  shard=40, jobs=8, name="c09g")
    for i, code in bad.items():
        layout, variant, obs, err = mmeta[i]
        # property-level judgement: on-grid, uniform-header collections must be accepted with the mosaic's size
        pf = None
        if not layout.get("offgrid"):
            if obs is None:
                pf = len(set(variant["parities"])) == 1 or variant["style"] == "cd"
            else:
                pf = obs["fields"][:2] != [layout["Wm"], layout["Hm"]]
        V.disagreement(RELNAMES.get(code, str(code)), case_json(layout, variant), "model value",
                       dict(observed=obs, error=err), pf)

    # clean_lockfiles on planted stale lock files
    lcs = lock_cases(rng, 40 if tier == "quick" else 300, str(work / "c09_locks"))
    lterms = ["(%s, %s, %s)" % (g_Z(lv), g_list([c08.g_zl(p) for p in pl]), g_list([c08.g_zl(p) for p in rem]))
              for lv, pl, rem in lcs]
    badl = common.coq_eval_sharded(COQ_DEFS, lterms, "chk_locks", ["Model.Study", "Model.MultiTan"],
                                   shard=200, jobs=4, name="c09l")
    for i in badl:
        lv, pl, rem = lcs[i]
        stale = [p for p in rem if p[0] == lv and 0 <= p[1] < 2 ** lv and 0 <= p[2] < 2 ** lv]
        V.disagreement("MultiTan.v clean_lockfiles ~ pyramid.py clean_lockfiles", dict(locks=dict(level=lv, planted=pl)),
                       "all lock files of the level's positions removed, others kept", dict(remaining=rem), bool(stale))
    stats["lock_cases"] = len(lcs)

    # tiles: model rectangles, real tiling of the mosaic, predicate, astrometry, locks
    ups = model_updates([(p["descs"], p["toks"], p["inv"]) for p in pending])
    for p, up in zip(pending, ups):
        layout, variant = p["layout"], p["variant"]
        cj = case_json(layout, variant)
        fmt = variant["fmt"]
        pred = p["raised"] or mosaic_predicate(layout, p["P"], p["tiles"], fmt)
        problems = []
        if p["raised"]:
            problems.append(("C09 tile() completes on a valid collection", "tiles", p["raised"]))
        else:
            if up is None:
                problems.append(("MultiTan.v tile phase (model reports an error)", "error", "tiles written"))
            else:
                exp = expand_updates(up, p["descs"], p["files_data"], p["inv"])
                d = tiles_equal(exp, p["tiles"])
                if d:
                    problems.append(("MultiTan.v input_ops/update_buffer ~ tile files (storage orientation)", "model tiles", d))
                if max((len(u) for u in up), default=0) > 1:
                    nontrivial.add(repr((layout["Wm"], layout["Hm"], layout["rects"], variant["order"], variant["parities"], fmt)))
                touched = {}
                for u in up:
                    for pl in u:
                        touched[tuple(pl[:3])] = touched.get(tuple(pl[:3]), 0) + 1
                if any(v > 1 for v in touched.values()):
                    stats["shared_tile_runs"] += 1
            d = tiles_equal(p["ref_tiles"], p["tiles"])
            if d:
                problems.append(("C09 tiles_eq_mosaic: MultiTanProcessor tiles ~ real StudyTiling.tile_image of the pasted mosaic", "same files, same pixels", d))
                pred = pred or ("tiles are not identical to those of the tiled mosaic (left = mosaic, right = multi-TAN run): " + d)
            ba = astro_equal(p["ref_astro"], p["astro"])
            if ba:
                problems.append(("C09 global_wcs_eq_mosaic: ImageSet astrometry ~ mosaic's own WCS", "equal", ba))
                pred = pred or f"astrometric attributes differ: {ba[:3]}"
            if p["locks"]:
                problems.append(("C09 no_lockfiles_left", "no *.lock files", p["locks"][:5]))
                pred = pred or f"lock files remain: {p['locks'][:3]}"
            if p["other"]:
                problems.append(("unexpected files in the pyramid", [], p["other"][:5]))
            if pred and not problems:
                problems.append(("C09 mosaic predicate on implementation (model agrees with implementation!)", "pasted mosaic", pred))
        for rel, e, o in problems:
            V.disagreement(rel, cj, e, dict(observed=o, predicate=pred), bool(pred))
    samples = [case_json(l, v) for (l, v) in runs[:2]]
    stats["parallel"] = {str(k): v for k, v in stats["parallel"].items()}
    return dict(evaluations=len(mterms) + len(pending) + len(lcs), distinct_nontrivial=len(nontrivial),
                rule="random mosaics (<= 1500 px, sizes clustered at 255..257/511..513/1023..1025), 1-6 rectangles "
                     "covering the bounding box incl. overlapping and tile-boundary-hugging ones, NaN borders 0/1/3/17, "
                     "reference pixel inside or outside the mosaic (integer or half-integer), CDELT- or CD-form headers, "
                     "uniform or mixed storage parity, permuted input order, fits/npy tiles, parallel 1/2/3 (real fork); "
                     "plus off-grid collections compared at the descriptor level only; non-trivial = distinct run in "
                     "which some input spans more than one tile",
                stats=stats, samples=samples)
