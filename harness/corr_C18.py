"""C18 correspondence: publishing is crash-safe.

Implementation side: the real toasty.pipeline.PipelineManager.publish in scratch
work directories with the local store; os.listdir is wrapped so that the
approved/ directory and every image directory are listed in a chosen order; a
LocalPipelineIo subclass raises before / in the middle of (source stops after
half the bytes, so the real put_item code is interrupted) / after the k-th
put_item; after every run the store is read back (Absent / Partial / Complete
by comparing bytes with the approved file), the location of every image
directory is recorded and the real `pipeline refresh` (refresh_impl) is run with
a stub image source to record which candidates it skips.
Model side: Model/Publish.v by vm_compute, in both store variants (put_item as
found: in-place write; repaired: atomic replace); the check decides which one
the implementation matches.
"""
import contextlib
import io
import itertools
import os
import shutil

import common
from common import g_list, g_N, g_nat, g_bool

TRUSTED = ["os.listdir wrapper (returns the chosen permutation of the real directory content; asserts it is one)",
           "fault-injecting LocalPipelineIo subclass; 'during' = the source stream raises after half the bytes",
           "stub ImageSource/CandidateInput used to drive refresh_impl",
           "POSIX semantics of open(..., 'wb'), os.rename, os.replace on the local file system"]
ASSUMPTIONS = ["a fault is an exception or crash at one put_item call of a publish() invocation (before any byte, after half "
               "the bytes, or after the item is complete -- the latter also stands for a crash between the last put_item and "
               "the rename); os.rename of the image directory is atomic",
               "the file set of an approved image does not change between publish() invocations; file names are distinct "
               "(a directory listing has no duplicates); approved image directories contain only regular files (LXY tile layout)",
               "only the local store backend is executed; AzureBlobPipelineIo.put_item (upload_blob without overwrite) is not",
               "housekeeping theorems: rejects/ holds rejected images only (an image directory is in exactly one of processed/, "
               "approved/, rejects/, published/; the commands move it with os.rename); that ignore-rejects walks rejects/ is "
               "the code's part, compared on every history of part (d); faults in part (d) are before/after a transfer only"]

F_KEY = "C18/pipeline/local_io.py:put_item/in-place-rewrite-under-existing-index"

NAMES = {0: "index.wtml", 1: "thumb.jpg", 2: "index_rel.wtml", 3: "L0X0Y0.png", 4: "index.wtml.bak", 5: "Index.wtml",
         6: "zz_last.png", 7: "L1X0Y0.png", 8: "L1X1Y0.png", 9: "L1X0Y1.png", 10: "L1X1Y1.png"}
RNAMES = {v: k for k, v in NAMES.items()}

COQ_DEFS = r"""
Definition F_ (n : nat) : fstate := match n with 0%nat => Absent | 1%nat => Partial | _ => Complete end.
Definition Fl_ (k : nat) (n : nat) : fault :=
  match k with 0%nat => NoFault | 1%nat => Before n | 2%nat => During n | _ => After n end.
Record obs_run := mkObs {
  o_log : list (imgid * name); o_ok : bool;
  o_store : list (imgid * list (name * nat));
  o_pub : list (imgid * bool); o_skip : list (imgid * bool) }.
Record pcase := mkP { p_runs : list run; p_obs : list obs_run }.
Fixpoint list_eqb {A} (eq : A -> A -> bool) (a b : list A) : bool :=
  match a, b with [], [] => true | x :: a', y :: b' => eq x y && list_eqb eq a' b' | _, _ => false end.
Definition log_eqb := list_eqb (fun a b : imgid * name => N.eqb (fst a) (fst b) && N.eqb (snd a) (snd b)).
Definition store_agrees (w : world) (o : list (imgid * list (name * nat))) : bool :=
  forallb (fun p => forallb (fun q => fstate_eqb (w_store w (fst p) (fst q)) (F_ (snd q))) (snd p)) o.
Definition pub_agrees (w : world) (o : list (imgid * bool)) : bool :=
  forallb (fun p => Bool.eqb (w_published w (fst p)) (snd p)) o.
Definition skip_agrees (w : world) (o : list (imgid * bool)) : bool :=
  forallb (fun p => Bool.eqb (refresh_skips w (fst p)) (snd p)) o.
(* 0 = agree; 10*i + r: run i (from 1), relation r: 1 put_item sequence, 2 completed/raised,
   3 store states, 4 approved/published location, 5 refresh skip decisions *)
Fixpoint chk_runs (atomic : bool) (i : nat) (rs : list run) (os : list obs_run) (w : world) : nat :=
  match rs, os with
  | r :: rs', o :: os' =>
      let '(w', ok, log) := publish atomic (r_order r) (listing_fun (r_listing r)) (r_fault r) w in
      if negb (log_eqb log (o_log o)) then (10 * i + 1)%nat
      else if negb (Bool.eqb ok (o_ok o)) then (10 * i + 2)%nat
      else if negb (store_agrees w' (o_store o)) then (10 * i + 3)%nat
      else if negb (pub_agrees w' (o_pub o)) then (10 * i + 4)%nat
      else if negb (skip_agrees w' (o_skip o)) then (10 * i + 5)%nat
      else chk_runs atomic (S i) rs' os' w'
  | [], [] => 0%nat
  | _, _ => 9%nat
  end.
Definition chk_found (c : pcase) : nat := chk_runs false 1 (p_runs c) (p_obs c) clean_world.
Definition chk_atomic (c : pcase) : nat := chk_runs true 1 (p_runs c) (p_obs c) clean_world.
"""

RELNAMES = {1: "transfer_order/transfer ~ sequence of put_item calls", 2: "publish completes / raises",
            3: "store states (Absent/Partial/Complete) after the run", 4: "approved/ vs published/ location",
            5: "refresh_skips ~ refresh_impl skip decision", 9: "harness: run/observation count"}


class Boom(Exception):
    pass


class HalfSource(object):
    def __init__(self, f, n):
        self.f, self.left = f, n

    def read(self, size=-1):
        if self.left <= 0:
            raise Boom("during")
        n = self.left if size is None or size < 0 else min(size, self.left)
        d = self.f.read(n)
        self.left -= len(d)
        if not d:
            raise Boom("during")
        return d


def make_fault_io(root, plan, log):
    from toasty.pipeline.local_io import LocalPipelineIo

    class FaultIo(LocalPipelineIo):
        count = 0

        def put_item(self, *path, source=None):
            FaultIo.count += 1
            log.append(tuple(path))
            kind, k = plan
            if FaultIo.count == k and kind == "before":
                raise Boom("before")
            if FaultIo.count == k and kind == "during":
                size = os.fstat(source.fileno()).st_size
                return super().put_item(*path, source=HalfSource(source, size // 2))
            super().put_item(*path, source=source)
            if FaultIo.count == k and kind == "after":
                raise Boom("after")

    return FaultIo(root)


def content(uid, name):
    return (f"{uid}/{name};" * 6).encode()


_STUB_READY = []


def ensure_stub():
    if _STUB_READY:
        return
    from toasty import pipeline

    class StubCand(pipeline.CandidateInput):
        def __init__(self, uid):
            self.uid = uid

        def get_unique_id(self):
            return self.uid

        def save(self, stream):
            stream.write(b"stub")

    class StubSource(pipeline.ImageSource):
        def __init__(self, ids):
            self.ids = ids

        @classmethod
        def get_config_key(cls):
            return "verif_stub"

        @classmethod
        def deserialize(cls, data):
            return cls(list(data["ids"]))

        def query_candidates(self):
            for u in self.ids:
                yield StubCand(u)

        def fetch_candidate(self, unique_id, cand_data_stream, cachedir):
            raise NotImplementedError()

        def process(self, unique_id, cand_data_stream, cachedir, builder):
            raise NotImplementedError()

    pipeline.IMAGE_SOURCE_CLASS_LOADERS["_verif_stub"] = lambda: StubSource
    _STUB_READY.append(True)


def uid_str(u):
    return f"img{u}"


def run_scenario(base, images, runs):
    """images: {uid: [name numbers]}, runs: [dict(order=[uids], listings={uid: [names]}, fault=(kind, k))].
    Returns list of per-run observation dicts."""
    import argparse
    import yaml
    from toasty.pipeline import PipelineManager
    from toasty.pipeline.local_io import LocalPipelineIo
    from toasty.pipeline import cli as pcli
    ensure_stub()
    if os.path.exists(base):
        shutil.rmtree(base)
    store = os.path.join(base, "store")
    work = os.path.join(base, "work")
    os.makedirs(store)
    os.makedirs(os.path.join(work, "approved"))
    LocalPipelineIo(store).save_config(os.path.join(work, "toasty-store-config.yaml"))
    with open(os.path.join(work, "toasty-pipeline-config.yaml"), "wt") as f:
        yaml.dump({"source_type": "_verif_stub", "verif_stub": {"ids": [uid_str(u) for u in sorted(images)]}}, f)
    for u, names in images.items():
        d = os.path.join(work, "approved", uid_str(u))
        os.makedirs(d)
        for n in names:
            with open(os.path.join(d, NAMES[n]), "wb") as f:
                f.write(content(u, n))
    approved = os.path.join(work, "approved")
    real_listdir = os.listdir
    out = []
    for r in runs:
        log = []
        mgr = PipelineManager(work)
        mgr._pipeio = make_fault_io(store, r["fault"], log)

        def fake_listdir(p, _r=r):
            real = real_listdir(p)
            ap = os.path.abspath(p)
            if ap == os.path.abspath(approved):
                chosen = [uid_str(u) for u in _r["order"] if uid_str(u) in real]
                assert sorted(chosen) == sorted(real), (chosen, real)
                return chosen
            if os.path.dirname(ap) == os.path.abspath(approved):
                u = int(os.path.basename(ap)[3:])
                chosen = [NAMES[n] for n in _r["listings"][u]]
                assert sorted(chosen) == sorted(real), (chosen, real)
                return chosen
            return real

        sink = io.StringIO()
        ok = True
        unexpected = None
        os.listdir = fake_listdir
        try:
            with contextlib.redirect_stdout(sink):
                mgr.publish()
        except Boom:
            ok = False
        except Exception as e:  # not the injected fault: publish itself failed
            ok = False
            unexpected = repr(e)[:200]
        finally:
            os.listdir = real_listdir
        # read back
        st, pub, extras = {}, {}, []
        for u, names in images.items():
            d = os.path.join(store, uid_str(u))
            st[u] = {}
            for n in names:
                p = os.path.join(d, NAMES[n])
                if not os.path.exists(p):
                    st[u][n] = 0
                else:
                    with open(p, "rb") as f:
                        st[u][n] = 2 if f.read() == content(u, n) else 1
            if os.path.isdir(d):
                extras += [x for x in real_listdir(d) if x not in RNAMES or RNAMES[x] not in names]
            in_a = os.path.isdir(os.path.join(work, "approved", uid_str(u)))
            in_p = os.path.isdir(os.path.join(work, "published", uid_str(u)))
            if in_a == in_p:
                unexpected = (unexpected or "") + f" image {u}: in approved={in_a}, in published={in_p}"
            pub[u] = in_p
        # refresh
        cand = os.path.join(work, "candidates")
        shutil.rmtree(cand, ignore_errors=True)
        with contextlib.redirect_stdout(sink):
            pcli.refresh_impl(argparse.Namespace(workdir=work))
        skip = {u: not os.path.exists(os.path.join(cand, uid_str(u))) for u in images}
        out.append(dict(log=[(int(a[3:]), RNAMES.get(b, 99)) for a, b in log], ok=ok, store=st, pub=pub, skip=skip,
                        extras=extras, unexpected=unexpected))
    return out


# ------------------------------------------------------------------ the property's own predicate

def property_fails(images, runs, obs):
    """Reasons why the observed behaviour contradicts C18's statement."""
    why = []
    for i, (r, o) in enumerate(zip(runs, obs)):
        if o.get("unexpected"):
            why.append(f"run {i + 1}: publish failed by itself: {o['unexpected']}")
        # index.wtml strictly after every other file of that image; nothing twice
        per = {}
        for u, n in o["log"]:
            per.setdefault(u, []).append(n)
        for u, seq in per.items():
            if len(set(seq)) != len(seq):
                why.append(f"run {i + 1}: a file of image {u} was transferred twice")
            if 0 in seq:
                before = set(seq[:seq.index(0)])
                if before != set(images[u]) - {0}:
                    why.append(f"run {i + 1}: index.wtml of image {u} transferred before {sorted(set(images[u]) - {0} - before)}")
        for u, names in images.items():
            s = o["store"][u]
            others_ok = all(s[n] == 2 for n in names if n != 0)
            if 0 in names and s[0] != 0 and not others_ok:
                why.append(f"run {i + 1}: store holds index.wtml of image {u} while other files are incomplete: {s}")
            if o["pub"][u] and not all(s[n] == 2 for n in names):
                why.append(f"run {i + 1}: image {u} is in published/ with incomplete files {s}")
            if o["skip"][u] and not others_ok:
                why.append(f"run {i + 1}: refresh skips image {u} whose files are incomplete {s}")
        if r["fault"][0] == "none":
            if not o["ok"]:
                why.append(f"run {i + 1}: fault-free publish raised")
            for u, names in images.items():
                if not o["pub"][u] or not all(o["store"][u][n] == 2 for n in names):
                    why.append(f"run {i + 1}: fault-free publish left image {u} unfinished")
    return why


# ------------------------------------------------------------------ generation

FAULT_KINDS = ("before", "during", "after")


def faults_for(n_calls):
    out = [("none", 0)]
    for k in range(1, n_calls + 1):
        for kind in FAULT_KINDS:
            out.append((kind, k))
    return out


def gen_cases(rng, tier):
    cases = []
    # the Coq witness of fault_sequences_refuted, first
    cases.append(dict(images={1: [0, 1, 2]}, tag="witness",
                      runs=[dict(order=[1], listings={1: [1, 0, 2]}, fault=("during", 3)),
                            dict(order=[1], listings={1: [2, 0, 1]}, fault=("during", 1))]))
    # exhaustive: one image, <= 5 files, with and without index.wtml, every permutation x every fault point;
    # followed by a fault-free re-run under another listing order
    for n in range(0, 6):
        for with_index in (True, False):
            names = list(range(0, n)) if with_index else list(range(1, n + 1))
            if with_index and n == 0:
                continue
            all_faults = faults_for(len(names))
            for perm in itertools.permutations(names):
                faults = all_faults
                if n == 5 and tier == "quick":
                    # quick tier: 5 files = every permutation x 4 fault points drawn at random
                    # (every fault point x every permutation in the thorough tier)
                    faults = rng.sample(all_faults, 4)
                for flt in faults:
                    second = list(names)
                    rng.shuffle(second)
                    cases.append(dict(images={1: names}, tag="exh1",
                                      runs=[dict(order=[1], listings={1: list(perm)}, fault=flt),
                                            dict(order=[1], listings={1: second}, fault=("none", 0))]))
    n_exh1 = len(cases)
    # exhaustive two-fault sequences for <= 3 files (thorough) / 2 files + sample of 3 (quick)
    for n in (2, 3):
        names = list(range(0, n))
        perms = list(itertools.permutations(names))
        combos = [(p1, f1, p2, f2) for p1 in perms for f1 in faults_for(n)[1:] for p2 in perms for f2 in faults_for(n)[1:]]
        if n == 3 and tier == "quick":
            combos = rng.sample(combos, 400)
        for p1, f1, p2, f2 in combos:
            third = list(names)
            rng.shuffle(third)
            cases.append(dict(images={1: names}, tag="seq2",
                              runs=[dict(order=[1], listings={1: list(p1)}, fault=f1),
                                    dict(order=[1], listings={1: list(p2)}, fault=f2),
                                    dict(order=[1], listings={1: third}, fault=("none", 0))]))
    n_exh = len(cases)
    # random: more files, several images, longer histories
    n_rand = 300 if tier == "quick" else 4000
    for i in range(n_rand):
        nimg = rng.choice((1, 1, 2, 2, 3))
        images = {}
        for u in range(1, nimg + 1):
            n = rng.randint(6, 10) if nimg == 1 and rng.random() < 0.6 else rng.randint(0, 5)
            pool = list(range(1, 11))
            rng.shuffle(pool)
            names = pool[:n]
            if rng.random() < 0.85 and names:
                names[0] = 0
            images[u] = sorted(set(names))
        total = sum(len(v) for v in images.values())
        runs = []
        for j in range(rng.choice((1, 2, 2, 3, 3, 4))):
            order = list(images)
            rng.shuffle(order)
            listings = {}
            for u, names in images.items():
                l = list(names)
                rng.shuffle(l)
                listings[u] = l
            if rng.random() < 0.2:
                flt = ("none", 0)
            else:
                flt = (rng.choice(FAULT_KINDS), rng.randint(1, max(total, 1) + 1))
            runs.append(dict(order=order, listings=listings, fault=flt))
        cases.append(dict(images=images, tag="rand", runs=runs))
    return cases, n_exh1, n_exh


def g_fault(f):
    kind, k = f
    return f"(Fl_ {dict(none=0, before=1, during=2, after=3)[kind]} {k})"


def g_case(c, obs):
    runs = []
    for r in c["runs"]:
        lst = g_list([f"({g_N(u)}, {g_list([g_N(n) for n in l])})" for u, l in r["listings"].items()])
        runs.append(f"(mkRun {g_list([g_N(u) for u in r['order']])} {lst} {g_fault(r['fault'])})")
    os_ = []
    for o in obs:
        log = g_list([f"({g_N(u)}, {g_N(n)})" for u, n in o["log"]])
        st = g_list([f"({g_N(u)}, {g_list([f'({g_N(n)}, {g_nat(s)})' for n, s in d.items()])})" for u, d in o["store"].items()])
        pub = g_list([f"({g_N(u)}, {g_bool(b)})" for u, b in o["pub"].items()])
        skip = g_list([f"({g_N(u)}, {g_bool(b)})" for u, b in o["skip"].items()])
        os_.append(f"(mkObs {log} {g_bool(o['ok'])} {st} {pub} {skip})")
    return f"(mkP {g_list(runs)} {g_list(os_)})"


def jsonable(c):
    return dict(images={str(u): v for u, v in c["images"].items()}, tag=c.get("tag"),
                runs=[dict(order=r["order"], listings={str(u): l for u, l in r["listings"].items()}, fault=list(r["fault"]))
                      for r in c["runs"]])


def from_json(d):
    return dict(images={int(u): v for u, v in d["images"].items()}, tag=d.get("tag", "replay"),
                runs=[dict(order=r["order"], listings={int(u): l for u, l in r["listings"].items()}, fault=tuple(r["fault"]))
                      for r in d["runs"]])



# ------------------------------------------------------------------ housekeeping: ignore-rejects + refresh (Model/Housekeeping.v)

COQ_DEFS_H = r"""
Record hobs := mkHO { ho_skip : list (imgid * bool); ho_flag : list (imgid * bool) }.
Record hcase := mkHC { hc_pre : list imgid; hc_ops : list hop; hc_obs : list hobs }.
Definition hskip_agrees (h : hworld) (o : list (imgid * bool)) : bool :=
  forallb (fun p => Bool.eqb (refresh_skips_full h (fst p)) (snd p)) o.
Definition hflag_agrees (h : hworld) (o : list (imgid * bool)) : bool :=
  forallb (fun p => Bool.eqb (h_flag h (fst p)) (snd p)) o.
(* 0 = agree; 10*i + r: step i (from 1): 1 skip.flag files in the store, 2 refresh skip decisions *)
Fixpoint chk_hops (i : nat) (ops : list hop) (os : list hobs) (h : hworld) : nat :=
  match ops, os with
  | o :: ops', b :: os' =>
      let h' := hstep true h o in
      if negb (hflag_agrees h' (ho_flag b)) then (10 * i + 1)%nat
      else if negb (hskip_agrees h' (ho_skip b)) then (10 * i + 2)%nat
      else chk_hops (S i) ops' os' h'
  | [], [] => 0%nat
  | _, _ => 9%nat
  end.
Definition chk_house (c : hcase) : nat :=
  chk_hops 1 (hc_ops c) (hc_obs c) (mkH clean_world (fun u => existsb (N.eqb u) (hc_pre c))).
"""

HFILES = [1, 2, 0]          # thumb.jpg, index_rel.wtml, index.wtml


def run_house(base, approved, rejected, others, preflag, ops):
    """approved / rejected / others: image ids in approved/, in rejects/, known to the source only;
    preflag: ids whose store folder holds skip.flag beforehand; ops: ("publish", (kind, k)) | ("ignore",).
    The real PipelineManager.publish / ignore_rejects and refresh_impl; os.listdir sorted.
    Returns per-step dict(skip, flag, store)."""
    import argparse
    import yaml
    from toasty.pipeline import PipelineManager
    from toasty.pipeline.local_io import LocalPipelineIo
    from toasty.pipeline import cli as pcli
    ensure_stub()
    if os.path.exists(base):
        shutil.rmtree(base)
    store = os.path.join(base, "store")
    work = os.path.join(base, "work")
    os.makedirs(store)
    for d in ("approved", "rejects"):
        os.makedirs(os.path.join(work, d))
    LocalPipelineIo(store).save_config(os.path.join(work, "toasty-store-config.yaml"))
    everyone = sorted(set(approved) | set(rejected) | set(others))
    with open(os.path.join(work, "toasty-pipeline-config.yaml"), "wt") as f:
        yaml.dump({"source_type": "_verif_stub", "verif_stub": {"ids": [uid_str(u) for u in everyone]}}, f)
    for u in approved:
        d = os.path.join(work, "approved", uid_str(u))
        os.makedirs(d)
        for n in HFILES:
            with open(os.path.join(d, NAMES[n]), "wb") as f:
                f.write(content(u, n))
    for u in rejected:
        os.makedirs(os.path.join(work, "rejects", uid_str(u)))
    for u in preflag:
        os.makedirs(os.path.join(store, uid_str(u)), exist_ok=True)
        with open(os.path.join(store, uid_str(u), "skip.flag"), "wb") as f:
            f.write(b"{}")
    real_listdir = os.listdir
    out = []
    for op in ops:
        sink = io.StringIO()
        mgr = PipelineManager(work)
        os.listdir = lambda p: sorted(real_listdir(p))
        try:
            with contextlib.redirect_stdout(sink):
                if op[0] == "publish":
                    mgr._pipeio = make_fault_io(store, op[1], [])
                    try:
                        mgr.publish()
                    except Boom:
                        pass
                else:
                    mgr.ignore_rejects()
        finally:
            os.listdir = real_listdir
        cand = os.path.join(work, "candidates")
        shutil.rmtree(cand, ignore_errors=True)
        with contextlib.redirect_stdout(sink):
            pcli.refresh_impl(argparse.Namespace(workdir=work))
        skip = {u: not os.path.exists(os.path.join(cand, uid_str(u))) for u in everyone}
        flag = {u: os.path.exists(os.path.join(store, uid_str(u), "skip.flag")) for u in everyone}
        st = {u: {n: os.path.exists(os.path.join(store, uid_str(u), NAMES[n])) for n in HFILES} for u in approved}
        out.append(dict(skip=skip, flag=flag, store=st))
    return out


def g_hcase(c, obs):
    still = sorted(c["approved"])
    ops = []
    for op in c["ops"]:
        if op[0] == "publish":
            lst = g_list([f"({g_N(u)}, {g_list([g_N(n) for n in sorted(HFILES, key=lambda n: NAMES[n])])})" for u in still])
            ops.append(f"(HPublish (mkRun {g_list([g_N(u) for u in sorted(still, key=uid_str)])} {lst} {g_fault(tuple(op[1]))}))")
        else:
            ops.append(f"(HIgnore {g_list([g_N(u) for u in sorted(c['rejected'], key=uid_str)])})")
    os_ = [f"(mkHO {g_list([f'({g_N(u)}, {g_bool(b)})' for u, b in o['skip'].items()])} "
           f"{g_list([f'({g_N(u)}, {g_bool(b)})' for u, b in o['flag'].items()])})" for o in obs]
    return f"(mkHC {g_list([g_N(u) for u in c['preflag']])} {g_list(ops)} {g_list(os_)})"


def house_property_fails(c, obs):
    why = []
    for i, o in enumerate(obs):
        for u in c["approved"]:
            s = o["store"][u]
            if o["skip"][u] and u not in c["preflag"] and not all(s[n] for n in HFILES if n != 0):
                why.append(f"step {i + 1} ({c['ops'][i][0]}): refresh skips approved image {u} whose files are missing in the store "
                           f"{ {NAMES[n]: v for n, v in s.items()} } (skip.flag present: {o['flag'][u]})")
    return why


def gen_house(rng, tier):
    cases = [dict(approved=[1], rejected=[], others=[], preflag=[], ops=[("publish", ("before", 2)), ("ignore",), ("publish", ("none", 0))]),
             dict(approved=[1, 2], rejected=[3], others=[4], preflag=[4], ops=[("ignore",), ("publish", ("after", 4)), ("ignore",), ("publish", ("none", 0))])]
    for _ in range(40 if tier == "quick" else 200):
        ids = list(range(1, 7))
        rng.shuffle(ids)
        na, nr = rng.randint(1, 3), rng.randint(0, 2)
        approved, rejected, others = ids[:na], ids[na:na + nr], ids[na + nr:na + nr + rng.randint(0, 1)]
        preflag = [u for u in rejected + others if rng.random() < 0.3]
        ops = []
        for _k in range(rng.randint(1, 4)):
            if rng.random() < 0.45:
                ops.append(("ignore",))
            else:
                kind = rng.choice(["none", "before", "after", "before", "after"])
                ops.append(("publish", (kind, 0 if kind == "none" else rng.randint(1, 3 * na))))
        cases.append(dict(approved=approved, rejected=rejected, others=others, preflag=preflag, ops=ops))
    return cases


def run_house_part(ctx, V, wd):
    rng = common.rng_for(ctx["seed"], "C18-house")
    cases = gen_house(rng, ctx["tier"])
    rp = ctx.get("replay")
    if rp and isinstance(rp.get("case"), dict) and "approved" in rp["case"]:
        d = rp["case"]
        cases = [dict(approved=d["approved"], rejected=d["rejected"], others=d["others"], preflag=d["preflag"],
                      ops=[(o[0], tuple(o[1])) if len(o) > 1 else (o[0],) for o in d["ops"]])] + cases[:10]
    base = str(wd / "house")
    observed = [run_house(base, c["approved"], c["rejected"], c["others"], c["preflag"], c["ops"]) for c in cases]
    shutil.rmtree(base, ignore_errors=True)
    terms = [g_hcase(c, o) for c, o in zip(cases, observed)]
    bad = common.coq_eval_sharded(COQ_DEFS + COQ_DEFS_H, terms, "chk_house", ["Model.Publish", "Model.Housekeeping"],
                                  shard=350, jobs=4, name="c18h")
    n_fail = 0
    for i, (c, o) in enumerate(zip(cases, observed)):
        why = house_property_fails(c, o)
        if i in bad or why:
            n_fail += 1
            code = bad.get(i, 0)
            rel = (f"Housekeeping.v ~ pipeline: step {code // 10}, " + {1: "skip.flag files in the store after the step (ignore_rejects)",
                                                                         2: "refresh_skips_full ~ refresh_impl skip decision"}.get(code % 10, str(code))
                   if i in bad else "C18 predicate on the implementation (refresh after housekeeping)")
            V.disagreement(rel, dict(c, ops=[list(o_) for o_ in c["ops"]]),
                           "ignore-rejects flags the images in rejects/ only; refresh skips a non-flagged image only when index.wtml is in the store",
                           dict(why=why[:4], observed=[dict(skip=x["skip"], flag=x["flag"]) for x in o][:4]), bool(why))
    return dict(housekeeping_histories=len(cases), housekeeping_steps=sum(len(c["ops"]) for c in cases),
                housekeeping_with_ignore=sum(1 for c in cases if any(o[0] == "ignore" for o in c["ops"])),
                housekeeping_failures=n_fail)


def run(ctx, V):
    rng = common.rng_for(ctx["seed"], "C18")
    tier = ctx["tier"]
    wd = common.workdir() / "c18"
    wd.mkdir(parents=True, exist_ok=True)
    cases, n_exh1, n_exh = gen_cases(rng, tier)
    rp = ctx.get("replay")
    if rp and isinstance(rp.get("case"), dict) and "runs" in rp["case"]:
        cases = [from_json(rp["case"])] + cases[:50]
    base = str(wd / "scn")
    observed = [run_scenario(base, c["images"], c["runs"]) for c in cases]
    shutil.rmtree(base, ignore_errors=True)
    terms = [g_case(c, o) for c, o in zip(cases, observed)]
    imports = ["Model.Publish"]
    bad_found = common.coq_eval_sharded(COQ_DEFS, terms, "chk_found", imports, shard=350, jobs=12, name="c18f")
    bad_atomic = common.coq_eval_sharded(COQ_DEFS, terms, "chk_atomic", imports, shard=350, jobs=12, name="c18a")
    if not bad_found:
        variant, bad = "as found (in-place write)", bad_found
    elif not bad_atomic:
        variant, bad = "repaired (atomic replace)", bad_atomic
    else:
        variant, bad = ("as found (closest)", bad_found) if len(bad_found) <= len(bad_atomic) else ("repaired (closest)", bad_atomic)

    nontrivial = set()
    hist = {}
    n_pred_fail = 0
    f_hits = []
    for i, (c, obs) in enumerate(zip(cases, observed)):
        why = property_fails(c["images"], c["runs"], obs)
        hist[c["tag"]] = hist.get(c["tag"], 0) + 1
        for r in c["runs"]:
            hist["fault:" + r["fault"][0]] = hist.get("fault:" + r["fault"][0], 0) + 1
        if any(r["fault"][0] != "none" for r in c["runs"]) and any(len(v) >= 2 for v in c["images"].values()):
            nontrivial.add(repr(jsonable(c)))
        if why:
            n_pred_fail += 1
        if i in bad or why:
            n_faulted = len([r for r in c["runs"] if r["fault"][0] != "none"])
            seq_defect = (variant.startswith("as found (in-place") and i not in bad and n_faulted >= 2 and
                          all(("store holds index.wtml" in w) or ("refresh skips" in w) for w in why))
            if i in bad:
                code = bad[i]
                rel = f"Publish.v [{variant}] ~ pipeline: run {code // 10}, " + RELNAMES.get(code % 10, str(code))
            elif seq_defect:
                rel = ("fault_sequences_crash_safe (C18.v) fails on the implementation, which matches the model of "
                       "LocalPipelineIo.put_item as found (in-place write; fault_sequences_refuted)")
            else:
                rel = "C18 predicate on the implementation (model agrees with the implementation)"
            args = (rel, jsonable(c), "index.wtml present => every other file Complete; published => all Complete; "
                    "fault-free re-run completes; refresh skip => others Complete",
                    dict(why=why[:4], last_store={str(u): {NAMES[n]: s for n, s in d.items()} for u, d in obs[-1]["store"].items()},
                         extras=obs[-1]["extras"]), bool(why))
            if seq_defect:
                f_hits.append((0 if c["tag"] == "witness" else 1, len(f_hits), args))
            else:
                V.disagreement(*args)
    for _p, _k, args in sorted(f_hits, key=lambda t: t[:2])[:3]:
        V.disagreement(*args, finding_key=F_KEY)
    samples = [dict(case=jsonable(c), last_run=dict(log=o[-1]["log"], ok=o[-1]["ok"], store=o[-1]["store"][1]))
               for c, o in list(zip(cases, observed))[n_exh:n_exh + 2]]
    samples.append(dict(case=jsonable(cases[0]), first_run_log=observed[0][0]["log"],
                        store_after_second_run={NAMES[n]: s for n, s in observed[0][1]["store"][1].items()}
                        if len(observed[0]) > 1 and 1 in observed[0][1]["store"] else None))
    house = run_house_part(ctx, V, wd)
    return dict(evaluations=len(cases) + house["housekeeping_histories"], distinct_nontrivial=len(nontrivial), housekeeping=house,
                rule="real PipelineManager.publish + refresh_impl on scratch work dirs: (a) one image with 0-5 files, with and "
                     "without index.wtml, every listing permutation x every fault point (before/during/after each put_item, "
                     "and none; in the quick tier 5-file listings get 4 random fault points per permutation), each followed by a fault-free re-run under a random second listing; (b) two consecutive faulted "
                     "runs + a fault-free one, exhaustive for 2 files (and 3 files in the thorough tier; sampled in quick); "
                     "(c) random histories of 1-4 runs over 1-3 images with up to 10 files and random outer orders; "
                     "non-trivial = distinct scenario with at least one fault and an image of >= 2 files; "
                     "(d) housekeeping: random histories of faulted publish runs and ignore-rejects calls over approved, rejected and "
                     "merely known images (some flagged beforehand), the real ignore_rejects and refresh_impl compared with Model/Housekeeping.v after every step",
                exhaustive=(tier == "thorough"), exhaustive_upto_files=(5 if tier == "thorough" else 4), exhaustive_single_run_cases=n_exh1 - 1, exhaustive_sequence_cases=n_exh - n_exh1,
                implementation_matches=variant, disagreements_with_model_as_found=len(bad_found),
                disagreements_with_repaired_model=len(bad_atomic), predicate_failures=n_pred_fail,
                cases_hitting_rerun_defect=len(f_hits), input_histogram=hist, samples=samples)
