"""C16 correspondence: parity flip reverses rows, moves no pixel on the sky.

Implementation side: toasty.image.Image / ImageDescription with astropy WCS
objects (get_parity_sign, flip_parity, ensure_negative_parity, and through them
_wcs_to_parity_sign / _flip_wcs_parity).
Exact stream: CD / CDELT+PC / CRPIX are small dyadic rationals, so every float
product the code forms and every value wcslib prints into a header is exact;
the header values read back before and after the operation are shipped to Coq
as Q literals and compared with Model/Parity.v by Qeq_bool.
Numeric stream (judged by the property's predicate only): arbitrary rotations,
skews, scales, both parities, reference pixel anywhere, CROTA-style headers and
the WCS of toasty/tests/wcs512.fits.gz: wcs_pix2world of (x, y) before vs
(x, h-1-y) after within 1e-9 deg.
"""
import math
import os
import warnings
from fractions import Fraction

import common
from common import g_list, g_Z, g_nat, g_bool

TRUSTED = ["astropy.wcs / wcslib: WCS.to_header() reports the linear transformation as CDELTi, PCi_j (CDELTi = 1 and PCi_j = CDi_j "
           "for a WCS given by a CD matrix; identity PC entries omitted) and CRPIXj; wcs_pix2world",
           "the celestial part of the WCS (CRVAL, CTYPE, LONPOLE), which the code does not touch, maps equal intermediate "
           "world coordinates to equal sky positions"]
ASSUMPTIONS = ["2-axis celestial WCS without distortion terms (SIP, TPV, lookup tables)",
               "exact stream: all header values have at most 12 significant decimal digits, so wcslib's 14-digit header "
               "formatting is lossless; float rounding of non-dyadic WCSs is outside the model and covered by the 1e-9 deg "
               "numeric comparison only",
               "singular CD matrices are not WCSs (astropy raises on them) and are not generated"]

COQ_DEFS = r"""
From Coq Require Import QArith.
Local Open Scope Q_scope.
Definition Q_ (n : Z) (d : positive) : Q := Qmake n d.
(* op: 0 flip, 1 flip twice, 2 ensure_negative, 3 ensure_negative twice *)
Record pcase := mkPC {
  c_isdesc : bool; c_op : nat; c_h : nat; c_w : nat;
  c_cd : Q * Q * Q * Q; c_crpix : Q * Q;          (* what the WCS was built from *)
  c_hdr0 : hdr; c_sign0 : Z;                       (* read from the implementation before *)
  c_hdr1 : hdr; c_sign1 : Z; c_rows1 : list nat }. (* ... and after the operation *)
Fixpoint iter {A} (n : nat) (f : A -> A) (x : A) : A := match n with O => x | S k => iter k f (f x) end.
Definition apply_img (op : nat) (im : image nat) : image nat :=
  match op with
  | 0%nat => image_flip im
  | 1%nat => image_flip (image_flip im)
  | 2%nat => image_ensure_negative im
  | _ => image_ensure_negative (image_ensure_negative im)
  end.
Definition apply_desc (op : nat) (d : desc) : desc :=
  match op with
  | 0%nat => desc_flip d
  | 1%nat => desc_flip (desc_flip d)
  | 2%nat => desc_ensure_negative d
  | _ => desc_ensure_negative (desc_ensure_negative d)
  end.
Fixpoint natl_eqb (a b : list nat) : bool :=
  match a, b with [], [] => true | x :: a', y :: b' => Nat.eqb x y && natl_eqb a' b' | _, _ => false end.
(* 0 agree; 1 reading of the header (CDELT*PC, CRPIX) differs from what was set; 2 parity sign before;
   3 header after the operation; 4 parity sign after; 5 row order; 6 description shape *)
Definition chk (c : pcase) : nat :=
  let '(a, b, e, f) := c_cd c in
  let h0 := c_hdr0 c in
  if negb (Qeq_bool (cd11 h0) a && Qeq_bool (cd12 h0) b && Qeq_bool (cd21 h0) e && Qeq_bool (cd22 h0) f &&
           Qeq_bool (crpix1 h0) (fst (c_crpix c)) && Qeq_bool (crpix2 h0) (snd (c_crpix c))) then 1%nat
  else if negb (Z.eqb (parity_sign h0) (c_sign0 c)) then 2%nat
  else if c_isdesc c then
    let d := apply_desc (c_op c) (mkDesc (Z.of_nat (c_h c)) (Z.of_nat (c_w c)) h0) in
    if negb (hdr_equivb (d_hdr d) (c_hdr1 c)) then 3%nat
    else if negb (Z.eqb (parity_sign (d_hdr d)) (c_sign1 c) && Z.eqb (parity_sign (c_hdr1 c)) (c_sign1 c)) then 4%nat
    else if negb (Z.eqb (d_height d) (Z.of_nat (c_h c)) && Z.eqb (d_width d) (Z.of_nat (c_w c))) then 6%nat
    else 0%nat
  else
    let im := apply_img (c_op c) (mkImage (seq 0 (c_h c)) h0) in
    if negb (hdr_equivb (i_hdr im) (c_hdr1 c)) then 3%nat
    else if negb (Z.eqb (parity_sign (i_hdr im)) (c_sign1 c) && Z.eqb (parity_sign (c_hdr1 c)) (c_sign1 c)) then 4%nat
    else if negb (natl_eqb (rows im) (c_rows1 c)) then 5%nat
    else 0%nat.
"""

RELNAMES = {1: "hdr ~ wcs.to_header() (CDELT*PC with identity defaults, CRPIX) vs the WCS that was built",
            2: "parity_sign ~ _wcs_to_parity_sign (before)", 3: "flip_hdr ~ _flip_wcs_parity (header after the operation)",
            4: "parity_sign after the operation", 5: "image rows after the operation (asarray()[::-1])",
            6: "ImageDescription shape after the operation"}
OPS = ["flip", "flip2", "ensure", "ensure2"]


def g_Q(fr):
    fr = Fraction(fr)
    return f"(Q_ {g_Z(fr.numerator)} {fr.denominator}%positive)"


def g_optQ(v):
    return "None" if v is None else f"(Some {g_Q(v)})"


def read_hdr(wcs):
    h = wcs.to_header()
    return dict(cdelt1=h["CDELT1"], cdelt2=h["CDELT2"], pc11=h.get("PC1_1"), pc12=h.get("PC1_2"),
                pc21=h.get("PC2_1"), pc22=h.get("PC2_2"), crpix1=h["CRPIX1"], crpix2=h["CRPIX2"])


def g_hdr(d):
    return (f"(mkHdr {g_Q(d['cdelt1'])} {g_Q(d['cdelt2'])} {g_optQ(d['pc11'])} {g_optQ(d['pc12'])} "
            f"{g_optQ(d['pc21'])} {g_optQ(d['pc22'])} {g_Q(d['crpix1'])} {g_Q(d['crpix2'])})")


def make_wcs(spec):
    from astropy.wcs import WCS
    w = WCS(naxis=2)
    w.wcs.ctype = ["RA---TAN", "DEC--TAN"]
    w.wcs.crval = [spec["crval"][0], spec["crval"][1]]
    w.wcs.crpix = [float(spec["crpix"][0]), float(spec["crpix"][1])]
    if spec["form"] == "cd":
        a, b, c, d = [float(x) for x in spec["cd"]]
        w.wcs.cd = [[a, b], [c, d]]
    elif spec["form"] == "pc":
        w.wcs.cdelt = [float(spec["cdelt"][0]), float(spec["cdelt"][1])]
        a, b, c, d = [float(x) for x in spec["pc"]]
        w.wcs.pc = [[a, b], [c, d]]
    elif spec["form"] == "cdelt":
        w.wcs.cdelt = [float(spec["cdelt"][0]), float(spec["cdelt"][1])]
    elif spec["form"] == "crota":
        w.wcs.cdelt = [float(spec["cdelt"][0]), float(spec["cdelt"][1])]
        w.wcs.crota = [0.0, float(spec["crota"])]
    else:
        raise ValueError(spec["form"])
    w.wcs.set()
    return w


def build(spec, wcs=None):
    import numpy as np
    from toasty.image import Image, ImageDescription
    wcs = wcs if wcs is not None else make_wcs(spec)
    h, w = spec["h"], spec["w"]
    if spec["desc"]:
        return ImageDescription(shape=(h, w), wcs=wcs)
    if spec.get("rgb"):
        arr = np.zeros((h, w, 3), dtype=np.uint8)
        arr[...] = (np.arange(h, dtype=np.uint8) % 251)[:, None, None]
    else:
        arr = np.zeros((h, w), dtype=np.float32)
        arr[...] = np.arange(h, dtype=np.float32)[:, None]
    return Image.from_array(arr, wcs=wcs)


def do_op(obj, op):
    if op == "flip":
        r = obj.flip_parity()
    elif op == "flip2":
        obj.flip_parity()
        r = obj.flip_parity()
    elif op == "ensure":
        r = obj.ensure_negative_parity()
    else:
        obj.ensure_negative_parity()
        r = obj.ensure_negative_parity()
    assert r is obj
    return obj


def rows_of(obj, spec):
    if spec["desc"]:
        return None
    a = obj.asarray()
    col = a[:, 0, 0] if a.ndim == 3 else a[:, 0]
    return [int(v) for v in col]


def world(wcs, pts):
    import numpy as np
    xs = np.array([p[0] for p in pts], dtype=float)
    ys = np.array([p[1] for p in pts], dtype=float)
    return wcs.wcs_pix2world(xs, ys, 0)


def ang_sep_deg(lon1, lat1, lon2, lat2):
    import numpy as np
    l1, b1, l2, b2 = map(np.radians, (lon1, lat1, lon2, lat2))
    s = np.sin((b2 - b1) / 2) ** 2 + np.cos(b1) * np.cos(b2) * np.sin((l2 - l1) / 2) ** 2
    return np.degrees(2 * np.arcsin(np.sqrt(np.clip(s, 0, 1))))


def expected_perm(op, sign0, h):
    rev = {"flip": True, "flip2": False, "ensure": sign0 == 1, "ensure2": sign0 == 1}[op]
    return list(range(h - 1, -1, -1)) if rev else list(range(h))


def property_fails(spec, op, sign0, sign1, rows1, shape1, wcs0, wcs1):
    """C16's statement, evaluated on the implementation's behaviour."""
    import numpy as np
    why = []
    h, w = spec["h"], spec["w"]
    # the sign convention of get_parity_sign's docstring: negative CD determinant <=> +1
    # (evaluated through wcslib's own accessors, not through to_header)
    for tag, wc, sg in (("before", wcs0, sign0), ("after", wcs1, sign1)):
        cd = np.dot(np.diag(wc.wcs.get_cdelt()), wc.wcs.get_pc())
        dt = cd[0, 0] * cd[1, 1] - cd[0, 1] * cd[1, 0]
        if sg != (1 if dt < 0 else -1):
            why.append(f"parity sign {tag} is {sg} for CD determinant {dt:.3e}")
    if op == "flip" and sign1 != -sign0:
        why.append(f"flip: parity sign {sign0} -> {sign1}")
    if op == "flip2" and sign1 != sign0:
        why.append(f"two flips: parity sign {sign0} -> {sign1}")
    if op in ("ensure", "ensure2") and sign1 != -1:
        why.append(f"ensure_negative_parity left parity sign {sign1}")
    perm = expected_perm(op, sign0, h)
    if rows1 is not None and rows1 != [p % 251 if spec.get("rgb") else p for p in perm]:
        why.append(f"rows after {op}: {rows1[:6]}... expected {perm[:6]}...")
    if tuple(shape1[:2]) != (h, w):
        why.append(f"shape changed to {shape1}")
    # the sky position of every pixel is unchanged: new pixel (x, r) shows old pixel (x, perm[r])
    xs = [0, w - 1, (w - 1) / 2.0, -3, w + 2]
    rs = sorted(set([0, h - 1, h // 2, min(1, h - 1)]))
    new_pts = [(x, r) for x in xs for r in rs]
    old_pts = [(x, perm[r]) for x in xs for r in rs]
    lo, bo = world(wcs0, old_pts)
    ln, bn = world(wcs1, new_pts)
    sep = ang_sep_deg(lo, bo, ln, bn)
    worst = float(np.nanmax(sep)) if len(sep) else 0.0
    if not np.all(np.isfinite(sep)) or worst > 1e-9:
        k = int(np.nanargmax(sep))
        why.append(f"pixel {old_pts[k]} moved by {worst:.3e} deg on the sky")
    return why, worst


# ------------------------------------------------------------------ generation

def dy(rng, kmax, mmax, nonzero=False):
    while True:
        k = rng.randint(-kmax, kmax)
        if k or not nonzero:
            return Fraction(k, 2 ** rng.randint(0, mmax))


def gen_exact(rng, n):
    out = []
    while len(out) < n:
        form = rng.choice(("cd", "cd", "pc", "pc", "cdelt"))
        h = rng.choice((1, 1, 2, 3, 4, 5, 8, 16, 33, 100))
        w = rng.choice((1, 2, 3, 5, 9))
        place = rng.choice(("inside", "inside", "outside", "far", "origin"))
        if place == "inside":
            crpix = (Fraction(rng.randint(2, 4 * w + 2), 4), Fraction(rng.randint(2, 4 * h + 2), 4))
        elif place == "outside":
            crpix = (Fraction(rng.randint(-40, 40), 4), Fraction(rng.choice((-1, 1)) * rng.randint(4 * h + 4, 8 * h + 40), 4))
        elif place == "far":
            crpix = (Fraction(rng.randint(-4000, 4000), 2), Fraction(rng.randint(-4000, 4000), 2))
        else:
            crpix = (Fraction(0), Fraction(0))
        spec = dict(form=form, h=h, w=w, crpix=crpix, crval=(rng.choice((0.0, 10.0, 187.5, 359.0)), rng.choice((-60.0, 0.0, 20.0, 75.0))),
                    desc=rng.random() < 0.4, rgb=rng.random() < 0.2)
        if form == "cd":
            cd = [dy(rng, 31, 8) for _ in range(4)]
            if rng.random() < 0.25:
                cd[1] = cd[2] = Fraction(0)
            spec["cd"] = cd
        elif form == "pc":
            spec["cdelt"] = (dy(rng, 31, 5, True), dy(rng, 31, 5, True))
            pc = [dy(rng, 31, 5) for _ in range(4)]
            if rng.random() < 0.3:
                pc[0] = Fraction(1)
            if rng.random() < 0.3:
                pc[3] = Fraction(1)
            if rng.random() < 0.2:
                pc[1] = Fraction(0)
            spec["pc"] = pc
            cd = [spec["cdelt"][0] * pc[0], spec["cdelt"][0] * pc[1], spec["cdelt"][1] * pc[2], spec["cdelt"][1] * pc[3]]
            spec["cd"] = cd
        else:
            spec["cdelt"] = (dy(rng, 31, 5, True), dy(rng, 31, 5, True))
            spec["cd"] = [spec["cdelt"][0], Fraction(0), Fraction(0), spec["cdelt"][1]]
        a, b, c, d = spec["cd"]
        if a * d - b * c == 0:
            continue
        spec["op"] = rng.choice(OPS)
        out.append(spec)
    return out


def gen_numeric(rng, n):
    out = []
    for i in range(n):
        form = rng.choice(("cd", "cd", "cd", "pc", "crota"))
        h = rng.choice((1, 2, 7, 64, 511, 2048))
        w = rng.choice((1, 3, 50, 1000))
        scale = 10 ** rng.uniform(-5, -1)
        rot = rng.uniform(0, 2 * math.pi)
        par = rng.choice((-1, 1))
        spec = dict(form=form, h=h, w=w, desc=rng.random() < 0.4, rgb=False, op=rng.choice(OPS),
                    crpix=(rng.uniform(-2 * w - 50, 3 * w + 50), rng.uniform(-2 * h - 50, 3 * h + 50)),
                    crval=(rng.uniform(0, 360), rng.uniform(-80, 80)))
        if form == "cd":
            sx, sy = scale * rng.uniform(0.5, 2), scale * rng.uniform(0.5, 2)
            skew = rng.uniform(-0.5, 0.5)
            a, b = -par * sx * math.cos(rot), sy * (math.sin(rot) + skew)
            c, d = par * sx * math.sin(rot), sy * math.cos(rot)
            if abs(a * d - b * c) < 1e-3 * sx * sy:
                b = sy * math.sin(rot)
            spec["cd"] = [a, b, c, d]
        elif form == "pc":
            spec["cdelt"] = (-par * scale, scale * rng.uniform(0.5, 2))
            spec["pc"] = [math.cos(rot), math.sin(rot), -math.sin(rot), math.cos(rot)]
        else:
            spec["cdelt"] = (-par * scale, scale)
            spec["crota"] = math.degrees(rot)
        out.append(spec)
    return out


def spec_json(s):
    d = dict(s)
    for k in ("cd", "pc", "cdelt", "crpix"):
        if k in d:
            d[k] = [str(x) if isinstance(x, Fraction) else x for x in d[k]]
    return d


def spec_from_json(d):
    s = dict(d)
    for k in ("cd", "pc", "cdelt", "crpix"):
        if k in s:
            s[k] = [Fraction(x) if isinstance(x, str) else x for x in s[k]]
    return s


def run_one(spec, wcs=None):
    """Returns dict with everything observed for one case."""
    obj = build(spec, wcs)
    wcs0 = obj.wcs.deepcopy()
    hdr0 = read_hdr(obj.wcs)
    sign0 = obj.get_parity_sign()
    do_op(obj, spec["op"])
    hdr1 = read_hdr(obj.wcs)
    sign1 = obj.get_parity_sign()
    rows1 = rows_of(obj, spec)
    why, worst = property_fails(spec, spec["op"], sign0, sign1, rows1, obj.shape, wcs0, obj.wcs)
    return dict(hdr0=hdr0, sign0=sign0, hdr1=hdr1, sign1=sign1, rows1=rows1, shape1=tuple(obj.shape), why=why, worst=worst)


def g_case(spec, o):
    cd = "(" + ", ".join(g_Q(x) for x in spec["cd"]) + ")"
    crpix = f"({g_Q(spec['crpix'][0])}, {g_Q(spec['crpix'][1])})"
    rows = g_list([g_nat(r) for r in (o["rows1"] or [])])
    return (f"(mkPC {g_bool(spec['desc'])} {OPS.index(spec['op'])} {spec['h']} {spec['w']} {cd} {crpix} "
            f"{g_hdr(o['hdr0'])} {g_Z(o['sign0'])} {g_hdr(o['hdr1'])} {g_Z(o['sign1'])} {rows})")


def pil_backed_checks(rng, V, n):
    """Image objects created from PIL images keep both a PIL image and (after the first read) a cached
    array; a flip must leave both views reversed, whatever was read before."""
    import numpy as np
    from PIL import Image as PILImage
    from astropy.wcs import WCS
    from toasty.image import Image
    done = 0
    for k in range(n):
        h, w = rng.randint(2, 9), rng.randint(2, 9)
        kind = rng.choice(("RGB", "RGBA", "F"))
        if kind == "F":
            arr = (np.arange(h * w, dtype=np.float32).reshape(h, w) + 1)
            pil = PILImage.fromarray(arr, mode="F")
        else:
            ch = 3 if kind == "RGB" else 4
            arr = ((np.arange(h * w * ch).reshape(h, w, ch) * 7 + k) % 251).astype(np.uint8)
            pil = PILImage.fromarray(arr, mode=kind)
        wc = WCS(naxis=2)
        wc.wcs.ctype = ["RA---TAN", "DEC--TAN"]
        wc.wcs.crval = [30.0, 10.0]
        wc.wcs.crpix = [1.5, 2.5]
        sgn = rng.choice((1.0, -1.0))
        wc.wcs.cd = [[-0.01, 0.0], [0.0, 0.01 * sgn]]
        img = Image.from_pil(pil, wcs=wc)
        pre = rng.choice(("asarray", "dtype", "none"))
        if pre == "asarray":
            img.asarray()
        elif pre == "dtype":
            img.dtype
        s0 = img.get_parity_sign()
        op = rng.choice(("flip", "ensure"))
        if op == "flip":
            img.flip_parity()
            flipped = True
        else:
            img.ensure_negative_parity()
            flipped = s0 == 1
        want = arr[::-1] if flipped else arr
        got = np.asarray(img.asarray())
        why = []
        if got.shape != want.shape or not np.array_equal(got, want):
            why.append("asarray() rows are not " + ("reversed" if flipped else "unchanged"))
        try:
            gp = np.asarray(img.aspil())
            if gp.shape != want.shape or not np.array_equal(gp, want):
                why.append("aspil() rows are not " + ("reversed" if flipped else "unchanged"))
        except Exception as e:  # noqa
            why.append(f"aspil() raised {e!r}")
        if img.get_parity_sign() != (-s0 if flipped else s0):
            why.append("parity sign not " + ("negated" if flipped else "kept"))
        done += 1
        if why:
            V.disagreement("flip_reverses_rows for PIL-backed images (pixels read before the flip)",
                           dict(kind=kind, shape=[h, w], read_before=pre, op=op, start_sign=s0), "rows reversed in every view",
                           dict(why=why), True)
            break
    return done


def shared_wcs_checks(rng, V, n):
    """Two objects created with the SAME astropy WCS instance (a description and its image, or two
    planes on one grid): an operation on the first must not change what the second reports, and the
    second must then satisfy the property on its own."""
    import numpy as np
    done = 0
    specs = gen_numeric(rng, n)
    for spec in specs:
        wobj = make_wcs(spec)
        sa = dict(spec, desc=rng.random() < 0.5)
        sb = dict(spec, desc=False)
        A = build(sa, wobj)
        B = build(sb, wobj)
        wcs0 = B.wcs.deepcopy()
        hdr0 = read_hdr(B.wcs)
        sign0 = B.get_parity_sign()
        rows0 = rows_of(B, sb)
        opa = rng.choice(("flip", "ensure", "flip", "flip2"))
        do_op(A, opa)
        done += 1
        case = dict(spec_json(sb), shared_with=("description" if sa["desc"] else "image"), first_op=opa)
        hdr_mid, sign_mid = read_hdr(B.wcs), B.get_parity_sign()
        if sign_mid != sign0 or any(hdr0[k] != hdr_mid[k] for k in hdr0) or rows_of(B, sb) != rows0:
            why = [f"after {opa} on another object created with the same WCS instance, this image reports parity {sign_mid} "
                   f"(was {sign0}) with its rows unchanged"]
            # does it move pixels on the sky?  evaluate the statement on the untouched image
            lo, bo = world(wcs0, [(0, 0), (spec["w"] - 1, spec["h"] - 1)])
            ln, bn = world(B.wcs, [(0, 0), (spec["w"] - 1, spec["h"] - 1)])
            sep = float(np.nanmax(ang_sep_deg(lo, bo, ln, bn)))
            why.append(f"its pixels moved by up to {sep:.3e} deg on the sky without any operation on it")
            V.disagreement("C16 on objects sharing one WCS instance: an operation on one object changed the other",
                           case, "the other object is unchanged", dict(why=why, sign_before=sign0, sign_after=sign_mid), sep > 1e-9)
            continue
        opb = rng.choice(("flip", "ensure", "ensure2"))
        do_op(B, opb)
        why, _worst = property_fails(sb, opb, sign0, B.get_parity_sign(), rows_of(B, sb), B.shape, wcs0, B.wcs)
        if why:
            V.disagreement("C16 predicate on the second of two objects sharing one WCS instance", dict(case, second_op=opb),
                           "sign negated, rows reversed, sky positions unchanged (1e-9 deg)", dict(why=why), True)
    return done


def run(ctx, V):
    warnings.simplefilter("ignore")
    n_shared = shared_wcs_checks(common.rng_for(ctx["seed"], "C16shared"), V, 60 if ctx["tier"] == "quick" else 500)
    n_pil = pil_backed_checks(common.rng_for(ctx["seed"], "C16pil"), V, 60 if ctx["tier"] == "quick" else 400)
    rng = common.rng_for(ctx["seed"], "C16")
    tier = ctx["tier"]
    n_exact = 700 if tier == "quick" else 6000
    n_num = 300 if tier == "quick" else 3000
    exact = gen_exact(rng, n_exact)
    rp = ctx.get("replay")
    if rp and isinstance(rp.get("case"), dict) and "form" in rp["case"]:
        s = spec_from_json(rp["case"])
        if all(isinstance(x, Fraction) for x in s["cd"]):
            exact = [s] + exact[:30]
    obs = []
    for spec in exact:
        spec = dict(spec)
        if spec.get("rgb"):
            spec["h"] = min(spec["h"], 200)
        obs.append(run_one(spec))
    terms = [g_case(s, o) for s, o in zip(exact, obs)]
    bad = common.coq_eval_sharded(COQ_DEFS, terms, "chk", ["Model.Parity"], shard=250, jobs=12, name="c16")
    nontrivial = set()
    hist = {}
    worst_all = 0.0
    for i, (s, o) in enumerate(zip(exact, obs)):
        key = f"{s['form']}/{'desc' if s['desc'] else 'image'}/{s['op']}"
        hist[key] = hist.get(key, 0) + 1
        worst_all = max(worst_all, o["worst"])
        a, b, c, d = s["cd"]
        outside = not (1 <= s["crpix"][0] <= s["w"] and 1 <= s["crpix"][1] <= s["h"])
        if b != 0 or c != 0 or outside:
            nontrivial.add(repr(spec_json(s)))
        if i in bad or o["why"]:
            rel = ("Parity.v ~ image.py: " + RELNAMES.get(bad[i], str(bad[i]))) if i in bad else \
                "C16 predicate on the implementation (model agrees with the implementation)"
            V.disagreement(rel, spec_json(s), "model value / sign negated, rows reversed, sky positions unchanged (1e-9 deg)",
                           dict(sign0=o["sign0"], sign1=o["sign1"], rows1=(o["rows1"] or [])[:8],
                                hdr0={k: (None if v is None else float(v)) for k, v in o["hdr0"].items()},
                                hdr1={k: (None if v is None else float(v)) for k, v in o["hdr1"].items()}, why=o["why"]),
                           bool(o["why"]))
    # numeric stream: property predicate only
    numeric = gen_numeric(rng, n_num)
    n_numeric = 0
    worst_num = 0.0
    for s in numeric:
        o = run_one(s)
        n_numeric += 1
        worst_num = max(worst_num, o["worst"])
        key = f"numeric:{s['form']}/{'desc' if s['desc'] else 'image'}/{s['op']}"
        hist[key] = hist.get(key, 0) + 1
        nontrivial.add(repr(spec_json(s)))
        if o["why"]:
            V.disagreement("C16 predicate on the implementation: rotated / skewed float WCS", spec_json(s),
                           "sign negated, rows reversed, sky positions unchanged (1e-9 deg)",
                           dict(sign0=o["sign0"], sign1=o["sign1"], why=o["why"]), True)
    # the WCS of the test files
    n_files = 0
    tests = common.REPO / "toasty" / "tests"
    for fn in ("wcs512.fits.gz", "geminiann11015a_wcs.fits", "herschel_spire.fits.gz"):
        p = tests / fn
        if not p.exists():
            continue
        from astropy.io import fits
        from astropy.wcs import WCS
        with fits.open(str(p)) as hdul:
            hd = [x for x in hdul if x.header.get("NAXIS", 0) >= 2 or "CTYPE1" in x.header][0].header
            full = WCS(hd)
            wcs = full.celestial if full.naxis != 2 else full
            hh = int(hd.get("NAXIS2", 0)) or 512
            ww = int(hd.get("NAXIS1", 0)) or 512
        for desc in (False, True):
            for op in OPS:
                s = dict(form="file:" + fn, h=min(hh, 600), w=min(ww, 600), desc=desc, rgb=False, op=op,
                         crpix=[float(x) for x in wcs.wcs.crpix], crval=[float(x) for x in wcs.wcs.crval])
                o = run_one(s, wcs.deepcopy())
                n_files += 1
                worst_num = max(worst_num, o["worst"])
                if o["why"]:
                    V.disagreement("C16 predicate on the implementation: WCS of " + fn, dict(file=fn, desc=desc, op=op),
                                   "sign negated, rows reversed, sky positions unchanged (1e-9 deg)",
                                   dict(sign0=o["sign0"], sign1=o["sign1"], why=o["why"]), True)
    samples = [dict(spec=spec_json(s), sign0=o["sign0"], sign1=o["sign1"], rows1=(o["rows1"] or [])[:6],
                    crpix2_after=float(o["hdr1"]["crpix2"]), max_sky_shift_deg=o["worst"])
               for s, o in list(zip(exact, obs))[:3]]
    return dict(evaluations=len(exact) + n_numeric + n_files + n_pil + n_shared, distinct_nontrivial=len(nontrivial),
                rule="exact stream: Image / ImageDescription (float and RGB data) with WCS given as CD, CDELT+PC or CDELT only, "
                     "entries k/2^m (|k|<=31), CRPIX inside / outside / far from / at the origin of images of height 1-100, "
                     "operation flip, flip twice, ensure_negative, ensure_negative twice; compared exactly with the model in Coq; "
                     "numeric stream: random rotation, skew, scale 1e-5..1e-1 deg, both parities, CD / PC / CROTA forms, heights "
                     "1-2048, and the WCS of the test FITS files, judged by the property predicate (sky shift <= 1e-9 deg at "
                     "corner / centre / outside pixels); non-trivial = distinct case with off-diagonal terms or CRPIX outside "
                     "the image (all numeric cases)",
                exact_cases=len(exact), numeric_cases=n_numeric, test_file_cases=n_files,
                pil_backed_cases=n_pil, shared_wcs_instance_cases=n_shared,
                max_sky_shift_deg_exact=worst_all, max_sky_shift_deg_numeric=worst_num,
                input_histogram=hist, samples=samples)
