"""Regenerate MANIFEST.json from harness/props_meta.py (kept in one place so the
manifest is always valid)."""
import json, os, sys
sys.path.insert(0, os.path.dirname(os.path.abspath(__file__)))
from props_meta import CHECKS, NOT_APPLICABLE, NOTES

BASE = "cd /repo && /venv/bin/python -m pytest -ra -q -p no:cacheprovider --timeout=900 --continue-on-collection-errors"
m = dict(
    version=1,
    setup_cmd="bin/setup",
    hooks=dict(guard="TOASTY_VERIF",
               enable="none needed: all instrumentation is harness-side substitution (multiprocessing fakes, wrapped filelock/PyramidIO methods); bin/check exports TOASTY_VERIF=1 for uniformity",
               baseline_off_cmd=BASE, source_commits=[], add_only=True),
    engines=[dict(name="coq-proof+correspondence", path="bin/check",
                  serves_properties=[c["property_id"] for c in CHECKS],
                  kind_free_text="Rocq/Coq 8.16.1 theorems over hand-written Gallina models (coq/theories) + differential correspondence of the model (vm_compute) against /repo's working tree")],
    checks=CHECKS, notes=NOTES, not_applicable=NOT_APPLICABLE)
json.dump(m, open(os.path.join(os.path.dirname(__file__), "..", "MANIFEST.json"), "w"), indent=1)
print("MANIFEST.json:", len(CHECKS), "checks,", len(NOT_APPLICABLE), "not applicable")
