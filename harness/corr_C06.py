"""C06 correspondence: TOAST sampling writes the sampler's values at each tile's own pixel centres.

Implementation side (from $TOASTY_REPO): toasty.toast.sample_layer,
sample_layer_filtered, ToastSampler.visit_callback, toasty.builder.Builder.toast_base,
toasty.pyramid.PyramidIO / Pyramid.visit_leaves (parallel=1 and real fork parallel=2).
Model side: Model/SampleLayer.v evaluated by vm_compute on a 2 x 2 instance whose
"coordinates" are (tile, row) and whose samplers are the same mask/tag patterns the
synthetic Python samplers use: the model yields, per file, the extension, and for the
first and last stored row which pass wrote it and which sampled row it is.

Every pixel is compared exactly in numpy against the synthetic sampler applied to the
expected coordinates toast_tile_get_coords(create_single_tile(pos, coordsys)) -- that is
the property's own predicate -- and the structure (file set, extensions, row order,
which pass wins, raising) is compared with the model inside Coq.
"""
import contextlib
import io
import os
import shutil

import numpy as np

import common
from common import g_bool, g_list, g_pos

TRUSTED = [
    "toast_tile_get_coords(create_single_tile(pos, coordsys)) as the expected pixel-centre coordinates "
    "(their geometry is C04/C05's subject; here they are the parameter `coords` of the model)",
    "decoders used to read tiles back: numpy.load, astropy.io.fits, PIL",
    "synthetic samplers: 64-bit hash of the float bits of (lon, lat), rendered as float64, int32, RGB(A) uint8",
]
ASSUMPTIONS = [
    "each leaf is handed to the callback exactly once, whatever the worker count (C03/C13); "
    "checked here on real fork runs with parallel=2",
    "update_into_maskable_buffer / is_completely_masked behave as C15 states (unmasked source pixels win)",
]

FINDING_DEPTH0 = "C06/toast.py:ToastSampler.visit_callback/depth0"
FINDING_PARITY = "C06/toast.py:ToastSampler.__init__/format-override-parity"

IMPORTS = ["Model.Quadtree", "Model.SampleLayer"]

FMT = {"png": "Png", "jpg": "Jpg", "npy": "Npy", "fits": "Fits"}
BOTTOM_UP = {"png": False, "jpg": False, "npy": False, "fits": True}

COQ_DEFS = r"""
Local Open Scope Z_scope.
(* 2 x 2 instance: a coordinate is (tile position, row); a value is (pass tag, sampled row) *)
Definition Cc := (pos * Z)%type.
Definition Vv := (Z * Z)%type.
Definition coordsI (p : pos) (i j : Z) : Cc := (p, i).
(* level-0 repair: rows of the upper level-1 tiles are the top half *)
Definition coordsH (p : pos) (i j : Z) : Cc := (mkPos 0 0 0, Z.of_N (py p)).
Definition tbl (l : list pos) : pos -> bool := fun p => existsb (pos_eqb p) l.
(* a pass: accepted tiles (None = everything), tag, mask of the top / bottom sampled row, tiles masked entirely *)
Record pass := mkPass { p_acc : option (list pos); p_tag : Z; p_mtop : bool; p_mbot : bool; p_mtiles : list pos }.
Definition samplerI (ps : pass) (c : Cc) : option Vv :=
  let '(p, i) := c in
  if tbl (p_mtiles ps) p then None
  else if (i =? 0) && p_mtop ps then None
  else if (i =? 1) && p_mbot ps then None
  else Some (p_tag ps, i).
Definition accI (ps : pass) : pos -> bool :=
  match p_acc ps with None => fun _ => true | Some l => tbl l end.
Definition fmt_of (k : nat) : fmt := match k with 0%nat => Png | 1%nat => Jpg | 2%nat => Npy | _ => Fits end.
Definition fmt_code (f : fmt) : nat := match f with Png => 0%nat | Jpg => 1%nat | Npy => 2%nat | Fits => 3%nat end.
(* observed / modelled file: position, extension, first stored row (tag, sampled row), last stored row; tag 0 = masked *)
Definition frow := (Z * Z)%type.
Definition frec := (pos * nat * frow * frow)%type.
Definition row_of (o : option Vv) : frow := match o with Some v => v | None => (0, 0) end.
Definition all_fmts := [Png; Jpg; Npy; Fits].
Definition files_of (d : nat) (st : store Vv) : list frec :=
  flat_map (fun p => flat_map (fun f =>
     match st p f with
     | Some a => [(p, fmt_code f, row_of (a 0 0), row_of (a 1 0))]
     | None => [] end) all_fmts) (level_pos d).
Definition frow_eqb (a b : frow) : bool := (fst a =? fst b) && ((fst a =? 0) || (snd a =? snd b)).
Definition frec_eqb (a b : frec) : bool :=
  let '(p, f, r0, r1) := a in let '(p', f', r0', r1') := b in
  pos_eqb p p' && Nat.eqb f f' && frow_eqb r0 r0' && frow_eqb r1 r1'.
Definition same_files (a b : list frec) : bool :=
  Nat.eqb (length a) (length b) && forallb (fun x => existsb (frec_eqb x) b) a && forallb (fun x => existsb (frec_eqb x) a) b.
(* a case: clobber (sample_layer) or update (sample_layer_filtered) passes run one after another on one directory *)
Record scase := mkS { s_default : nat; s_override : option nat; s_clobber : bool; s_depth : nat;
                      s_passes : list pass; s_obs : option (list frec) }.
Fixpoint run_coded (c : scase) (ps : list pass) (st : store Vv) : option (store Vv) :=
  match ps with
  | [] => Some st
  | p :: ps' =>
      let r := if s_clobber c
               then sample_layer Cc Vv 2 coordsI (samplerI p) (fmt_of (s_default c)) (option_map fmt_of (s_override c)) (s_depth c) st
               else sample_layer_filtered Cc Vv 2 coordsI (samplerI p) (fmt_of (s_default c)) (accI p) (s_depth c) st in
      match r with None => None | Some st' => run_coded c ps' st' end
  end.
Fixpoint run_repaired (c : scase) (ps : list pass) (st : store Vv) : store Vv :=
  match ps with
  | [] => st
  | p :: ps' =>
      run_repaired c ps'
        (if s_clobber c
         then sample_layer_fixed Cc Vv 2 coordsI (samplerI p) coordsH (fmt_of (s_default c)) (option_map fmt_of (s_override c)) (s_depth c) st
         else sample_layer_filtered_fixed Cc Vv 2 coordsI (samplerI p) coordsH (fmt_of (s_default c)) (accI p) (s_depth c) st)
  end.
(* 0: as coded; 50: as repaired; 1: differs from both *)
Definition chk (c : scase) : nat :=
  let coded := option_map (files_of (s_depth c)) (run_coded c (s_passes c) (empty Vv)) in
  let ok_coded := match coded, s_obs c with
                  | None, None => true
                  | Some a, Some b => same_files a b
                  | _, _ => false end in
  if ok_coded then 0%nat
  else match s_obs c with
       | Some b => if same_files (files_of (s_depth c) (run_repaired c (s_passes c) (empty Vv))) b then 50%nat else 1%nat
       | None => 1%nat
       end.
"""


def quiet():
    return contextlib.redirect_stdout(io.StringIO())


# ---------------------------------------------------------------------------
# synthetic samplers


K1 = np.uint64(0x9E3779B97F4A7C15)
K2 = np.uint64(0xC2B2AE3D27D4EB4F)
K3 = np.uint64(0x165667B19E3779F9)


def hash_bits(lon, lat, tag):
    with np.errstate(over="ignore"):
        u = np.ascontiguousarray(lon, dtype=np.float64).view(np.uint64)
        v = np.ascontiguousarray(lat, dtype=np.float64).view(np.uint64)
        return u * K1 + v * K2 + np.uint64(tag) * K3


def render(kind, lon, lat, tag):
    """value array for every pixel (no masking yet)"""
    h = hash_bits(lon, lat, tag)
    if kind == "f64":
        return (h >> np.uint64(12)).astype(np.float64) + 1.0
    if kind == "i32":
        return (((h >> np.uint64(33)) & np.uint64(0x7FFFFFFE)) | np.uint64(1)).astype(np.int32)
    rgb = np.stack([(h >> np.uint64(40)) & np.uint64(255), (h >> np.uint64(48)) & np.uint64(255),
                    (h >> np.uint64(56)) & np.uint64(255)], axis=-1).astype(np.uint8)
    if kind == "rgb":
        return rgb
    return np.concatenate([rgb, np.full(rgb.shape[:2] + (1,), 255, dtype=np.uint8)], axis=-1)


def apply_mask(kind, arr, mask):
    if not mask.any():
        return arr
    arr = arr.copy()
    if kind == "f64":
        arr[mask] = np.nan
    elif kind == "i32":
        arr[mask] = 0
    elif kind == "rgba":
        arr[mask] = 0
    else:
        raise ValueError("rgb cannot be masked")
    return arr


class Sampler:
    """callable(lon, lat) -> 256x256 array; masks rows by their index in the array it is given
    (top half / bottom half) and whole tiles (recognised by the coordinates of pixel (0, 0))."""

    def __init__(self, kind, tag, mtop=False, mbot=False, masked_tiles=(), keep=False, readonly=False):
        self.kind, self.tag, self.mtop, self.mbot = kind, tag, mtop, mbot
        self.masked_keys = set(masked_tiles)
        # a sampler may keep what it returns (a memoising sampler, views of a precomputed mosaic) and may
        # hand out read-only arrays: the data it returns are its own
        self.keep, self.readonly = keep, readonly
        self._memo = {}

    def mask_for(self, lon, lat):
        m = np.zeros(lon.shape, dtype=bool)
        if (float(lon[0, 0]), float(lat[0, 0])) in self.masked_keys:
            m[:] = True
        if self.mtop:
            m[:128] = True
        if self.mbot:
            m[128:] = True
        return m

    def __call__(self, lon, lat):
        key = (float(lon[0, 0]), float(lat[0, 0]), float(lon[-1, -1]), float(lat[-1, -1]))
        if self.keep and key in self._memo:
            return self._memo[key]
        out = apply_mask(self.kind, render(self.kind, lon, lat, self.tag), self.mask_for(lon, lat))
        if self.readonly:
            out.setflags(write=False)
        if self.keep:
            self._memo[key] = out
        return out


# ---------------------------------------------------------------------------
# expected coordinates


_COORDS = {}


def expected_coords(cs, pos):
    """(lon, lat) 256x256 of the tile at pos, from create_single_tile + toast_tile_get_coords;
    level 0: the 2x2 arrangement of the level-1 tiles' 128x128 grids (subsample npix=128)."""
    from toasty import toast
    from toasty.pyramid import Pos
    from toasty._libtoasty import subsample
    key = (cs.value, tuple(pos))
    if key not in _COORDS:
        if pos[0] == 0:
            lon = np.empty((256, 256))
            lat = np.empty((256, 256))
            for t in toast._create_level1_tiles(cs):
                a, b = subsample(t.corners[0], t.corners[1], t.corners[2], t.corners[3], 128, t.increasing)
                ys = slice(128 * t.pos.y, 128 * (t.pos.y + 1))
                xs = slice(128 * t.pos.x, 128 * (t.pos.x + 1))
                lon[ys, xs], lat[ys, xs] = a, b
            _COORDS[key] = (lon, lat)
        else:
            t = toast.create_single_tile(Pos(*pos), coordsys=cs)
            _COORDS[key] = toast.toast_tile_get_coords(t)
    return _COORDS[key]


def level_positions(d):
    n = 2 ** d
    return [(d, x, y) for y in range(n) for x in range(n)]


def chain_ok(acc, p):
    """every ancestor from level 1 down to the tile itself accepted"""
    n, x, y = p
    while n >= 1:
        if (n, x, y) not in acc:
            return False
        n, x, y = n - 1, x // 2, y // 2
    return True


# ---------------------------------------------------------------------------
# reading tiles back


def read_files(base):
    """{(pos, ext): raw stored array}"""
    out = {}
    for root, _d, files in os.walk(base):
        for fn in files:
            if fn.endswith(".lock"):
                continue
            path = os.path.join(root, fn)
            rel = os.path.relpath(path, base).split(os.sep)
            if len(rel) == 1:
                # flat "LXY" naming scheme: L{n}X{x}Y{y}.ext
                import re
                m = re.fullmatch(r"L(\d+)X(\d+)Y(\d+)\.(\w+)", rel[0])
                if not m:
                    continue
                pos, ext = (int(m.group(1)), int(m.group(2)), int(m.group(3))), m.group(4)
            elif len(rel) == 3:
                n, y, name = rel
                stem, ext = name.rsplit(".", 1)
                x = stem.split("_")[1]
                pos = (int(n), int(x), int(y))
            else:
                continue
            if ext == "npy":
                arr = np.load(path)
            elif ext == "fits":
                from astropy.io import fits
                with fits.open(path) as hdul:
                    arr = np.array(hdul[0].data)
            else:
                from PIL import Image as PILImage
                arr = np.asarray(PILImage.open(path))
            out[(pos, ext)] = arr
    return out


def unmasked(kind, arr):
    """boolean map of defined pixels of a stored / expected array"""
    if arr.dtype.kind == "f":
        return ~np.isnan(arr)
    if arr.ndim == 3 and arr.shape[2] == 4:
        return arr[..., 3] != 0
    if arr.ndim == 3:
        return np.ones(arr.shape[:2], dtype=bool)
    return arr != 0


def px_equal(a, b):
    """exact equality of two decoded arrays on pixel values (alpha only as a mask)"""
    if a.shape[:2] != b.shape[:2]:
        return False
    ma, mb = unmasked(None, a), unmasked(None, b)
    if not np.array_equal(ma, mb):
        return False
    if a.ndim == 3 or b.ndim == 3:
        if a.ndim != 3 or b.ndim != 3:
            return False
        return bool(np.array_equal(a[..., :3][ma], b[..., :3][mb]))
    return bool(np.array_equal(a[ma], b[mb]))


# ---------------------------------------------------------------------------
# one case


def expected_display(case, cs, p):
    """the property's own statement, in numpy: what file (p) must show, in display orientation,
    after the passes of this case; None if the tile is never sampled"""
    lon, lat = expected_coords(cs, p)
    cur = None
    for ps in case["passes"]:
        if ps["acc"] is not None and p[0] >= 1 and not chain_ok(set(map(tuple, ps["acc"])), p):
            continue
        s = make_sampler(case, cs, ps)
        arr = s(lon, lat)
        if cur is None or case["clobber"]:
            cur = arr
        else:
            m = unmasked(None, arr)
            if arr.ndim == 3 and arr.shape[2] == 3 and cur.ndim == 3 and cur.shape[2] == 4:
                arr = np.concatenate([arr, np.full(arr.shape[:2] + (1,), 255, dtype=np.uint8)], axis=-1)
            cur = cur.copy()
            cur[m] = arr[m]
    return cur


def make_sampler(case, cs, ps):
    keys = []
    for p in ps.get("masked_tiles", []):
        lon, lat = expected_coords(cs, tuple(p))
        keys.append((float(lon[0, 0]), float(lat[0, 0])))
    return Sampler(case["kind"], ps["tag"], ps["mtop"], ps["mbot"], keys, keep=bool(case.get("twice")),
                   readonly=bool(case.get("readonly")))


def run_impl(case, work, tag):
    """run the real code; returns (files dict or None if it raised, exception text)"""
    from toasty.toast import sample_layer, sample_layer_filtered, ToastCoordinateSystem as CS
    from toasty.pyramid import PyramidIO
    cs = CS(case["coordsys"])
    base = work / f"c06_{tag}"
    shutil.rmtree(base, ignore_errors=True)
    pio = PyramidIO(str(base), default_format=case["default"], scheme=case.get("scheme", "L/Y/YX"))
    exc = None
    # several workers create the output directories at the same time: stretch every mkdir below the
    # output directory a little (harmless for code that tolerates the directory appearing meanwhile)
    real_mkdir = os.mkdir
    if case["parallel"] > 1:
        import time as _time

        def slow_mkdir(path, *a, **kw):
            if str(path).startswith(str(base)):
                _time.sleep(0.12)
            return real_mkdir(path, *a, **kw)
        os.mkdir = slow_mkdir
    try:
        with quiet():
            samplers = [make_sampler(case, cs, ps) for ps in case["passes"]]
            targets = [pio]
            if case.get("twice"):
                # the same (memoising) sampler objects first serve a run into another directory
                scratch = work / f"c06_{tag}_first"
                shutil.rmtree(scratch, ignore_errors=True)
                targets = [PyramidIO(str(scratch), default_format=case["default"], scheme=case.get("scheme", "L/Y/YX")), pio]
            for pio, (ps, s) in [(t, x) for t in targets for x in zip(case["passes"], samplers)]:
                acc = None if ps["acc"] is None else set(map(tuple, ps["acc"]))
                if case["via"] == "builder":
                    from toasty.builder import Builder
                    b = Builder(pio)
                    kw = dict(parallel=case["parallel"])
                    if not case["clobber"]:
                        kw["tile_filter"] = (lambda t, acc=acc: True if acc is None else tuple(t.pos) in acc)
                    elif case["override"]:
                        kw["format"] = case["override"]
                    b.toast_base(s, case["depth"], is_planet=(cs == CS.PLANETARY), **kw)
                elif case["clobber"]:
                    sample_layer(pio, s, case["depth"], coordsys=cs, format=case["override"], parallel=case["parallel"])
                else:
                    flt = (lambda t, acc=acc: True if acc is None else tuple(t.pos) in acc)
                    sample_layer_filtered(pio, flt, s, case["depth"], coordsys=cs, parallel=case["parallel"])
    except Exception as e:  # noqa: BLE001
        exc = f"{type(e).__name__}: {e}"
    finally:
        os.mkdir = real_mkdir
    files = None if exc is not None else read_files(str(base))
    shutil.rmtree(work / f"c06_{tag}_first", ignore_errors=True)
    shutil.rmtree(base, ignore_errors=True)
    return files, exc


def row_record(case, cs, p, stored_row_idx, stored):
    """(tag, sampled row index 0 = top half / 1 = bottom half) of one stored row, found by exact comparison
    with every pass's rendering of the tile's own coordinates; tag 0 = masked; tag -1 = matches nothing"""
    lon, lat = expected_coords(cs, p)
    row = stored[stored_row_idx]
    m = unmasked(None, row[None, ...])[0]
    if not m.any():
        return (0, 0)
    for ps in case["passes"]:
        full = render(case["kind"], lon, lat, ps["tag"])
        for src, half in ((0, 0), (255, 1)):
            cand = full[src]
            if cand.ndim == 2 and row.ndim == 2 and cand.shape[1] != row.shape[1]:
                c3, r3 = cand[:, :3], row[:, :3]
            else:
                c3, r3 = cand, row
            if np.array_equal(c3[m], r3[m]):
                return (ps["tag"], half)
    return (-1, 0)


def g_pass(ps):
    acc = "None" if ps["acc"] is None else "(Some %s)" % g_list([g_pos(tuple(p)) for p in ps["acc"]])
    return "(mkPass %s %d %s %s %s)" % (acc, ps["tag"], g_bool(ps["mtop"]), g_bool(ps["mbot"]),
                                       g_list([g_pos(tuple(p)) for p in ps.get("masked_tiles", [])]))


FMT_CODE = {"png": 0, "jpg": 1, "npy": 2, "fits": 3}


def g_case(case, obs):
    if obs is None:
        o = "None"
    else:
        o = "(Some %s)" % g_list(["(%s, %d%%nat, (%d, %d), (%d, %d))" % (g_pos(p), FMT_CODE[ext], r0[0], r0[1], r1[0], r1[1])
                                  for (p, ext, r0, r1) in obs])
    ov = "None" if case["override"] is None else f"(Some {FMT_CODE[case['override']]}%nat)"
    return "(mkS %d%%nat %s %s %d%%nat %s %s)" % (FMT_CODE[case["default"]], ov, g_bool(case["clobber"]), case["depth"],
                                                g_list([g_pass(ps) for ps in case["passes"]]), o)


def judge(case, files, exc, V):
    """the property's own predicate on what the implementation did; returns (observation for Coq, failures)"""
    from toasty.toast import ToastCoordinateSystem as CS
    cs = CS(case["coordsys"])
    fails = []
    if files is None:
        return None, [("raised", exc)]
    d = case["depth"]
    out_ext = (case["override"] or case["default"]) if case["clobber"] else case["default"]
    obs = []
    want = {}
    for p in level_positions(d):
        e = expected_display(case, cs, p)
        if e is not None and unmasked(None, e).any():
            want[p] = e
    got_pos = set()
    for (p, ext), stored in sorted(files.items()):
        obs.append((p, ext, row_record(case, cs, p, 0, stored), row_record(case, cs, p, stored.shape[0] - 1, stored)))
        if p[0] != d or ext != out_ext or p not in want:
            fails.append(("unexpected file", [list(p), ext]))
            continue
        got_pos.add(p)
        shown = stored[::-1] if BOTTOM_UP[ext] else stored
        if not px_equal(shown, want[p]):
            flipped = px_equal(shown[::-1], want[p])
            fails.append(("rows upside down" if flipped else "pixel values differ", [list(p), ext]))
    for p in want:
        if p not in got_pos:
            fails.append(("missing file", [list(p), out_ext]))
    return obs, fails


def gen_cases(rng, tier):
    cases = []

    def add(**kw):
        c = dict(coordsys="astronomical", default="npy", override=None, clobber=True, depth=1, kind="f64",
                 parallel=1, via="direct",
                 passes=[dict(acc=None, tag=1, mtop=False, mbot=False, masked_tiles=[])])
        c.update(kw)
        cases.append(c)

    # depth 0 (documented): both coordinate systems
    add(depth=0, default="npy")
    add(depth=0, default="fits", coordsys="planetary", kind="i32")
    add(depth=0, default="png", kind="rgb", clobber=False)
    # depth 0 through the filtered/updating entry point in the PLANETARY system (the level-0
    # grid is built by the sampler itself, so the coordinate system must reach it), also via Builder
    add(depth=0, default="npy", kind="f64", clobber=False, coordsys="planetary")
    add(depth=0, default="fits", kind="f64", clobber=False, coordsys="planetary", via="builder")
    add(depth=0, default="npy", kind="i32", coordsys="planetary", via="builder")
    # every format x parity, clobber, with and without an override
    for default, override, kind in [("npy", None, "f64"), ("fits", None, "f64"), ("png", None, "rgb"), ("npy", None, "i32"),
                                    ("fits", None, "i32"), ("npy", None, "rgb"), ("png", "npy", "f64"), ("npy", "png", "rgb"),
                                    ("png", "fits", "f64"), ("fits", "npy", "i32"), ("fits", "png", "rgba")]:
        add(default=default, override=override, kind=kind, depth=rng.choice((1, 1, 2)),
            coordsys=rng.choice(("astronomical", "planetary")),
            passes=[dict(acc=None, tag=1, mtop=(kind in ("f64", "rgba") and rng.random() < 0.5), mbot=False, masked_tiles=[])])
    # whole tiles masked -> no file
    add(default="fits", kind="f64", depth=2,
        passes=[dict(acc=None, tag=1, mtop=False, mbot=True, masked_tiles=[[2, 1, 1], [2, 3, 0], [2, 0, 2]])])
    # update mode, one and two passes, random accept tables
    n_upd = 5 if tier == "quick" else 24
    for i in range(n_upd):
        d = rng.choice((1, 2, 2)) if tier == "quick" else rng.choice((1, 2, 2, 3))
        kind, default = rng.choice((("f64", "npy"), ("f64", "fits"), ("rgba", "png"), ("i32", "npy"), ("i32", "fits"), ("rgb", "png")))

        def table():
            acc = []

            def rec(p):
                if p[0] > d or rng.random() > 0.75:
                    return
                acc.append(list(p))
                for c in [(p[0] + 1, 2 * p[1] + a, 2 * p[2] + b) for b in (0, 1) for a in (0, 1)]:
                    rec(c)
            for c in [(1, 0, 0), (1, 1, 0), (1, 0, 1), (1, 1, 1)]:
                rec(c)
            acc.append([d, rng.randrange(2 ** d), rng.randrange(2 ** d)])     # possibly an orphan
            return acc

        maskable = kind in ("f64", "rgba", "i32")
        p1 = dict(acc=table(), tag=1, mtop=maskable, mbot=False, masked_tiles=[])
        p2 = dict(acc=table(), tag=2, mtop=False, mbot=maskable and kind != "i32", masked_tiles=[])
        if kind == "i32":
            p2["mtop"], p2["mbot"], p1["mtop"], p1["mbot"] = True, False, False, True   # disjoint halves (np.maximum merge)
        add(default=default, kind=kind, depth=d, clobber=False, coordsys=rng.choice(("astronomical", "planetary")),
            passes=[p1, p2] if rng.random() < 0.7 else [p1])
    # real fork parallelism
    add(parallel=2, depth=2, default="fits", kind="f64")
    # odd worker counts on a layer whose leaf count they do not divide (64 leaves, 3 and 5 workers)
    add(parallel=3, depth=3, default="npy", kind="i32")
    add(parallel=5, depth=3, default="npy", kind="f64", coordsys="planetary")
    add(parallel=2, depth=2, default="png", kind="rgba", clobber=False, coordsys="planetary",
        passes=[dict(acc=[[1, 0, 0], [1, 1, 1], [2, 0, 0], [2, 1, 1], [2, 3, 3], [2, 2, 2]], tag=1, mtop=True, mbot=False, masked_tiles=[])])
    # the whole-sphere tile with several workers; the flat LXY naming scheme into a directory that
    # does not exist yet, serial and with several workers
    add(depth=0, default="npy", parallel=2)
    add(depth=0, default="fits", kind="f64", parallel=3, coordsys="planetary")
    add(depth=1, default="npy", kind="f64", scheme="LXY")
    add(depth=1, default="npy", kind="i32", scheme="LXY", parallel=2)
    add(depth=2, default="fits", kind="f64", scheme="LXY", parallel=5, coordsys="planetary")
    # samplers that keep the arrays they return (the same grid is sampled in two runs) or return read-only arrays
    add(depth=1, default="fits", kind="f64", twice=True)
    add(depth=1, default="npy", kind="i32", twice=True, coordsys="planetary")
    add(depth=1, default="fits", kind="i32", readonly=True)
    add(depth=2, default="png", kind="rgb", readonly=True, coordsys="planetary")
    # filtered sampling with several workers and a number of accepted leaves that is not a multiple of four
    add(parallel=2, depth=2, default="npy", kind="f64", clobber=False,
        passes=[dict(acc=[[1, 0, 0], [1, 1, 0], [2, 0, 0], [2, 1, 1], [2, 2, 0], [2, 3, 1], [2, 3, 0]], tag=1, mtop=False, mbot=False,
                     masked_tiles=[])])
    add(parallel=3, depth=2, default="fits", kind="f64", clobber=False, coordsys="planetary",
        passes=[dict(acc=[[1, 1, 1], [2, 2, 2], [2, 3, 3], [2, 2, 3]], tag=1, mtop=False, mbot=False, masked_tiles=[])])
    # through Builder.toast_base
    add(via="builder", depth=1, default="png", kind="rgb")
    add(via="builder", depth=2, default="fits", kind="f64", coordsys="planetary", clobber=False,
        passes=[dict(acc=[[1, 0, 1], [2, 0, 2], [2, 1, 3]], tag=1, mtop=False, mbot=False, masked_tiles=[])])
    # deeper layers
    add(depth=3, default="fits", kind="i32", coordsys="planetary")
    if tier == "thorough":
        add(depth=3, default="npy", kind="f64", parallel=2)
        add(depth=3, default="png", kind="rgb")
        add(depth=0, default="fits", override="npy", kind="f64")
        add(depth=0, default="npy", parallel=2)
        for _ in range(8):
            default = rng.choice(("npy", "fits"))
            add(default=default, override=rng.choice((None, "npy", "fits")), kind=rng.choice(("f64", "i32")),
                depth=rng.choice((0, 1, 2)), coordsys=rng.choice(("astronomical", "planetary")), parallel=rng.choice((1, 2)))
    return cases


def level0_grid_check(V, tier, rng):
    """the level-0 grid used as the expectation at depth 0 (four level-1 128-grids) equals the
    centres of the depth-8 tiles: sampled positions (all of them in the thorough tier)"""
    from toasty import toast
    from toasty.pyramid import Pos
    from toasty.toast import ToastCoordinateSystem as CS
    from toasty._libtoasty import mid
    n_bad = n = 0
    for cs in (CS.ASTRONOMICAL, CS.PLANETARY):
        lon, lat = expected_coords(cs, (0, 0, 0))
        pts = [(rng.randrange(256), rng.randrange(256)) for _ in range(60 if tier == "quick" else 600)]
        pts += [(0, 0), (255, 255), (127, 128), (128, 127), (0, 255)]
        for (i, j) in pts:
            t = toast.create_single_tile(Pos(8, j, i), coordsys=cs)
            ul, ur, lr, ll = t.corners
            c = mid(ll, ur) if t.increasing else mid(ul, lr)
            n += 1
            v1 = np.array([np.cos(lat[i, j]) * np.cos(lon[i, j]), np.cos(lat[i, j]) * np.sin(lon[i, j]), np.sin(lat[i, j])])
            v2 = np.array([np.cos(c[1]) * np.cos(c[0]), np.cos(c[1]) * np.sin(c[0]), np.sin(c[1])])
            if np.linalg.norm(v1 - v2) > 1e-12:
                n_bad += 1
                V.disagreement("level-0 grid = centres of the depth-8 tiles (parameter coords_half of sample_pixel_repaired)",
                               dict(kind="level0", coordsys=cs.value, pixel=[i, j]), "chord distance < 1e-12",
                               float(np.linalg.norm(v1 - v2)), None)
    return n


# ---------------------------------------------------------------------------------------------
# Builder.toast_base: how the caller's options reach the sampling core (Model/ToastBaseGlue.v)

TB_DEFS = """
From Coq Require Import ZArith List Bool.
Import ListNotations.
Definition oz_eqb (a b : option Z) : bool :=
  match a, b with Some x, Some y => Z.eqb x y | None, None => true | _, _ => false end.
Definition dt_eqb (a b : dataset_type) : bool :=
  match a, b with Sky, Sky | Planet, Planet | Panorama, Panorama => true | _, _ => false end.
Record tbcase := mkTBC { tbc_opts : tb_options; tbc_obs : tb_effect }.
Definition chk_tb (c : tbcase) : nat :=
  let m := toast_base (tbc_opts c) in let o := tbc_obs c in
  if negb (Bool.eqb (te_filtered_core m) (te_filtered_core o)) then 1%nat
  else if negb (Bool.eqb (te_planetary m) (te_planetary o)) then 2%nat
  else if negb (Z.eqb (te_depth m) (te_depth o)) then 3%nat
  else if negb (oz_eqb (te_parallel m) (te_parallel o)) then 4%nat
  else if negb (dt_eqb (te_type m) (te_type o)) then 5%nat
  else if negb (Z.eqb (te_tile_levels m) (te_tile_levels o)) then 6%nat else 0%nat.
"""
TB_REL = {1: "which core function is called (sample_layer / sample_layer_filtered)", 2: "the coordinate system given to the core",
          3: "the depth given to the core", 4: "the worker count given to the core", 5: "ImageSet.data_set_type", 6: "ImageSet.tile_levels"}


def toast_base_glue(V, rng, tier):
    """every combination of is_planet / is_pano / coordsys= / tile_filter= / parallel= through the real
    Builder.toast_base, with the two core entry points replaced by recorders"""
    from unittest import mock
    import toasty.toast as T
    from toasty.builder import Builder
    from toasty.pyramid import PyramidIO
    from wwt_data_formats.enums import DataSetType
    CS = T.ToastCoordinateSystem
    work = common.workdir() / "tbglue"
    terms, metas = [], []
    combos = [(pl, pa, cs, fl, par, d) for pl in (False, True) for pa in (False, True) for cs in (None, False, True)
              for fl in (False, True) for par in (None, 1, 3) for d in (0, 2)]
    if tier == "quick":
        rng.shuffle(combos)
        combos = combos[:60]
    for pl, pa, cs, fl, par, d in combos:
        rec = {}

        def fake_sl(pio, sampler, depth, coordsys=CS.ASTRONOMICAL, format=None, parallel=None, cli_progress=False):
            rec.update(filtered=False, planetary=(coordsys == CS.PLANETARY), depth=depth, parallel=parallel)

        def fake_slf(pio, tile_filter, sampler, depth, coordsys=CS.ASTRONOMICAL, parallel=None, cli_progress=False):
            rec.update(filtered=True, planetary=(coordsys == CS.PLANETARY), depth=depth, parallel=parallel)

        kw = {}
        if cs is not None:
            kw["coordsys"] = CS.PLANETARY if cs else CS.ASTRONOMICAL
        if fl:
            kw["tile_filter"] = lambda t: True
        if par is not None:
            kw["parallel"] = par
        case = dict(kind="toast_base_glue", is_planet=pl, is_pano=pa, coordsys=None if cs is None else ("planetary" if cs else "astronomical"),
                    tile_filter=fl, parallel=par, depth=d)
        shutil.rmtree(work, ignore_errors=True)
        b = Builder(PyramidIO(str(work), default_format="png"))
        try:
            with mock.patch.object(T, "sample_layer", fake_sl), mock.patch.object(T, "sample_layer_filtered", fake_slf):
                b.toast_base(lambda lon, lat: None, d, is_planet=pl, is_pano=pa, **kw)
        except Exception as e:  # noqa: BLE001
            V.disagreement("Builder.toast_base returns", case, "returns", repr(e), True)
            continue
        if not rec:
            V.disagreement("Builder.toast_base calls one of the two sampling entry points", case, "a call", "none", True)
            continue
        ty = {DataSetType.SKY: "Sky", DataSetType.PLANET: "Planet", DataSetType.PANORAMA: "Panorama"}.get(b.imgset.data_set_type, "Sky")
        gb = lambda v: "true" if v else "false"       # noqa: E731
        goz = lambda v: "None" if v is None else f"(Some {int(v)}%Z)"   # noqa: E731
        gcs = "None" if cs is None else f"(Some {gb(cs)})"
        terms.append(f"(mkTBC (mkTB {gb(pl)} {gb(pa)} {gcs} {gb(fl)} {goz(par)} {d}%Z) "
                     f"(mkTE {gb(rec['filtered'])} {gb(rec['planetary'])} {int(rec['depth'])}%Z {goz(rec['parallel'])} {ty} {int(b.imgset.tile_levels)}%Z))")
        metas.append((case, dict(core="sample_layer_filtered" if rec["filtered"] else "sample_layer", planetary=rec["planetary"],
                                 depth=rec["depth"], parallel=rec["parallel"], data_set_type=ty, tile_levels=int(b.imgset.tile_levels))))
        # the statement's side: a request for the planetary system must reach the core on both routes
        want = cs if cs is not None else pl
        if rec["planetary"] != want:
            V.disagreement("C06 through Builder.toast_base: the core is given the coordinate system the caller asked for "
                           "(theorem toast_base_system_rule)", case, "planetary" if want else "astronomical",
                           "planetary" if rec["planetary"] else "astronomical", True)
    shutil.rmtree(work, ignore_errors=True)
    bad = common.coq_eval_sharded(TB_DEFS, terms, "chk_tb", ["Model.ToastBaseGlue"], shard=200, jobs=2, name="c06tb")
    for i, code in bad.items():
        case, obs = metas[i]
        V.disagreement("ToastBaseGlue.v ~ Builder.toast_base: " + TB_REL.get(code, str(code)), case, "model value (vm_compute)", obs, None)
    return len(terms)


def run(ctx, V):
    rng = common.rng_for(ctx["seed"], "C06")
    tier = ctx["tier"]
    work = common.workdir()
    cases = gen_cases(rng, tier)
    rp = (ctx.get("replay") or {}).get("case")
    if isinstance(rp, dict) and "passes" in rp:
        cases.insert(0, rp)
    results = []
    hist = {}
    for i, case in enumerate(cases):
        files, exc = run_impl(case, work, str(i))
        obs, fails = judge(case, files, exc, V)
        results.append((case, obs, fails, exc))
        key = f"{'clobber' if case['clobber'] else 'update'}/{case['default']}" + (f">{case['override']}" if case["override"] else "") + \
              f"/{case['kind']}/d{case['depth']}/par{case['parallel']}"
        hist[key] = hist.get(key, 0) + 1
    terms = [g_case(c, o) for c, o, _f, _e in results]
    bad = common.coq_eval_sharded(COQ_DEFS, terms, "chk", IMPORTS, shard=8, jobs=10, name="c06")
    n_tiles = 0
    nontrivial = set()
    for i, (case, obs, fails, exc) in enumerate(results):
        code = bad.get(i, 0)
        n_tiles += 0 if obs is None else len(obs)
        nontrivial.add((case["default"], case["override"], case["clobber"], case["kind"], case["depth"], case["coordsys"],
                        case["parallel"], case["via"], len(case["passes"])))
        key = None
        if fails:
            mismatch_parity = case["clobber"] and case["override"] is not None and \
                BOTTOM_UP[case["override"]] != BOTTOM_UP[case["default"]]
            if case["depth"] == 0 and obs is None and "NoneType" in (exc or "") and code == 0:
                key = FINDING_DEPTH0       # behaves exactly as the model of the code as it stands: raises
            elif mismatch_parity and code == 0 and all(f[0] == "rows upside down" for f in fails):
                key = FINDING_PARITY
        if fails or code not in (0, 50):
            rel = ("SampleLayer.v ~ toast.py (file set / row order / merge structure)" if code not in (0, 50)
                   else "C06 predicate on the implementation: sample_pixel / sample_fileset / update_mode_merges "
                        "(the model of the code as it stands agrees with the implementation)")
            V.disagreement(rel, case, dict(model_code=code, meaning={0: "as coded", 50: "as repaired", 1: "neither"}.get(code)),
                           dict(failures=[list(f) for f in fails[:6]], exception=exc), bool(fails), finding_key=key)
    n_l0 = level0_grid_check(V, tier, rng)
    n_tb = toast_base_glue(V, common.rng_for(ctx["seed"], "C06tb"), tier)
    samples = [dict(case=c, files=None if o is None else len(o)) for c, o, _f, _e in results[3:6]]
    return dict(evaluations=len(cases) + n_l0 + n_tb, toast_base_option_combinations=n_tb, distinct_nontrivial=len(nontrivial), tiles_compared_pixel_exact=n_tiles,
                level0_grid_points=n_l0,
                rule="cases = (default format, format override, clobber/update, pixel kind f64/i32/rgb/rgba, depth 0-3, coordinate "
                     "system, parallel 1/2 (real fork), route direct/Builder.toast_base, 1-2 passes with accept tables and "
                     "row/tile masks); every pixel of every tile compared exactly with the synthetic sampler at "
                     "toast_tile_get_coords(create_single_tile(pos)); structure compared with the model in Coq; non-trivial = "
                     "distinct configurations",
                input_histogram=hist, samples=samples)
