"""C10 correspondence: concurrent updates of one tile never lose a contribution.

Real `PyramidIO.update_image` bodies (the multi-TAN / TOAST-sampler idiom:
`with pio.update_image(pos, masked_mode=..., default="masked") as basis:
img.update_into_maskable_buffer(basis, ...)`) run as cooperating actors under
harness/detsched.py.  Sync points are injected from the harness only:
SoftFileLock.acquire becomes a scheduler-driven sequence of single non-blocking
attempts on the REAL lock file, release / read_image / write_image get a sync
point each, and write_image first leaves a deliberately truncated file behind
(the in-place write's Partial window).  The recorded trace is replayed on
Model/Lock.v inside Coq; the final pixels must equal the sequential application
of all updates in the acquisition order the model derives.
"""
import contextlib
import shutil
import io
import os

import numpy as np

import common
import detsched
from common import g_list, g_nat, g_bool

TRUSTED = [
    "filelock.SoftFileLock: exclusive create (O_CREAT|O_EXCL) is atomic; threads of one process contend through the "
    "lock file exactly as processes do (stale-owner breaking never triggers while the owner lives)",
    "a bounded lock wait (acquire with a finite timeout) may expire at any failed attempt, and toasty.pyramid's view of the "
    "clock (time.time / monotonic / sleep) may then have advanced by any amount: holders can stall arbitrarily long",
    "the injected Partial window (truncated file between WBegin and WEnd) stands for an in-place write in progress",
]
ASSUMPTIONS = ["updaters touch the tile only through PyramidIO.update_image",
               "a completely masked tile has the same pixels as the all-masked default a missing file reads as"]

COQ_DEFS = r"""
Definition g_lact (k u : nat) : @lact :=
  match k with 0 => TryAcq u | 1 => Read u | 2 => WBegin u | 3 => WEnd u | _ => Release u end.
Record lcase := mkLC {
  c_k : nat; c_present : bool;
  c_trace : list (list (nat * nat) * (nat * nat));     (* (enabled, chosen) as (kind, updater) *)
  o_order : list nat; o_done : bool; o_lockfree : bool }.
(* tiles are abstracted to the list of updaters applied so far (newest first) *)
Definition fs_of (k : nat) : list (list nat -> list nat) := map (fun u t => u :: t) (seq 0 k).
Definition all_lacts (k : nat) : list (@lact) :=
  flat_map (fun u => [TryAcq u; Read u; WBegin u; WEnd u; Release u]) (seq 0 k).
Definition lact_eqb (a b : @lact) : bool :=
  match a, b with
  | TryAcq x, TryAcq y | Read x, Read y | WBegin x, WBegin y | WEnd x, WEnd y | Release x, Release y => Nat.eqb x y
  | _, _ => false end.
Definition same (a b : list (@lact)) : bool :=
  forallb (fun x => existsb (lact_eqb x) b) a && forallb (fun x => existsb (lact_eqb x) a) b.
Fixpoint lreplay (k : nat) (s : @lstate (list nat)) (tr : list (list (nat*nat) * (nat*nat))) (i : nat) : @lstate (list nat) + nat :=
  match tr with
  | [] => inl s
  | (en, (ck, cu)) :: tr' =>
      let ena := filter (lenabled s) (all_lacts k) in
      if same (map (fun e => g_lact (fst e) (snd e)) en) ena && lenabled s (g_lact ck cu)
      then lreplay k (lstep [] (fun _ => false) (fs_of k) s (g_lact ck cu)) tr' (S i)
      else inr i
  end.
Definition eq_nats (a b : list nat) : bool :=
  Nat.eqb (length a) (length b) && forallb (fun xy => Nat.eqb (fst xy) (snd xy)) (combine a b).
Definition chk (c : lcase) : nat :=
  match lreplay (c_k c) (linit (fs_of (c_k c)) (if c_present c then FWhole [] else FAbsent)) (c_trace c) 0 with
  | inr i => 1000 + i
  | inl s =>
      if negb (eq_nats (rev (order s)) (o_order c)) then 1
      else if negb (Bool.eqb (all_done s) (o_done c)) then 2
      else if negb (Bool.eqb (match lock s with None => true | _ => false end) (o_lockfree c)) then 3
      else if negb (match file s with FWhole t => eq_nats t (rev (o_order c)) | FAbsent => eq_nats [] (o_order c) && negb (c_present c) | FPartial => false end) then 4
      else 0
  end.
"""

KINDS = {"TryAcq": 0, "Read": 1, "WBegin": 2, "WEnd": 3, "Release": 4}


def g_step(name):
    kind, who = name
    return f"({KINDS[kind]}, {int(who[1:])})"


def one_case(rng, quick):
    from toasty.pyramid import PyramidIO, Pos
    from toasty.image import Image
    import filelock
    k = rng.choice((2, 2, 3, 4))
    fmt = rng.choice(("npy", "fits", "npy"))
    # colour tiles updated from RGB and RGBA sources alike (both use the RGBA buffer): updaters of one
    # tile must exclude each other whatever the mode of their own image
    colour = rng.random() < 0.25
    if colour:
        fmt = rng.choice(("npy", "png"))
    mixed_format_arg = rng.random() < 0.3
    present = rng.random() < 0.5
    overlap = rng.random() < 0.4
    base = common.workdir() / f"c10_{rng.randrange(1 << 30)}"
    pio = PyramidIO(str(base), default_format=fmt)
    pos = Pos(rng.choice((0, 1, 2)), 0, 0)
    dtype = np.float32 if fmt == "fits" or rng.random() < 0.7 else np.float64
    # initial tile
    init = np.full((256, 256), np.nan, dtype=dtype)
    if present:
        init[0:8, 0:8] = 7.0
        if colour:
            rgba = np.zeros((256, 256, 4), dtype=np.uint8)
            rgba[0:8, 0:8] = (7, 7, 7, 255)
            pio.write_image(pos, Image.from_array(rgba), format=fmt)
        else:
            pio.write_image(pos, Image.from_array(init.copy()), format=fmt)
    # updater u writes value 100+u into its rectangle
    rects = []
    for u in range(k):
        if overlap:
            y0, x0 = rng.randrange(0, 40), rng.randrange(0, 40)
        else:
            y0, x0 = 50 * u + 10, 40 * u + 10
        h, w = rng.randrange(1, 40), rng.randrange(1, 40)
        rects.append((y0, x0, h, w))
    # prelude (sometimes): the same PyramidIO object first serves a serial multi-TAN tiling
    # of another tile; whatever state that leaves on the object must not weaken later updates
    prelude = rng.random() < 0.4 and not colour
    if prelude:
        from toasty.multi_tan import MultiTanProcessor
        from toasty.study import StudyTiling

        class _Img:
            def __init__(self, arr):
                self._img = Image.from_array(arr)
                self.mode = self._img.mode
                self.height = arr.shape[0]

            def get_parity_sign(self):
                return pio.get_default_vertical_parity_sign()

            def update_into_maskable_buffer(self, *a):
                return self._img.update_into_maskable_buffer(*a)

        class _Coll:
            def images(self):
                yield _Img(np.full((4, 4), 55.0, dtype=dtype))

        class _Desc:
            sub_tiling = StudyTiling(2000, 2000).compute_for_subimage(0, 0, 4, 4)

        proc = MultiTanProcessor(_Coll())
        proc._descs = [_Desc()]
        proc._tiling = StudyTiling(2000, 2000)
        proc._n_todo = 1
        with contextlib.redirect_stdout(io.StringIO()):
            proc.tile(pio, parallel=1)
    orig_locks = {nm: getattr(filelock, nm) for nm in ("SoftFileLock", "FileLock", "UnixFileLock")
                  if isinstance(getattr(filelock, nm, None), type)}
    orig_read = PyramidIO.read_image
    orig_write = PyramidIO.write_image
    errors = []
    attempts = []
    timeouts_raised = []
    vclock = [0.0]                 # virtual time offset seen by toasty.pyramid (waits may last arbitrarily long)
    import time as _real_time
    import toasty.pyramid as _tp

    class _VTime:
        def __getattr__(self, nm):
            return getattr(_real_time, nm)

        def time(self):
            return _real_time.time() + vclock[0]

        def monotonic(self):
            return _real_time.monotonic() + vclock[0]

        def sleep(self, x):
            vclock[0] += max(float(x), 0.0)
    orig_time_mod = getattr(_tp, "time", None)

    def run(sched):
        def sched_lock_class(orig):
            """Scheduler-driven variant of one of filelock's lock classes (whichever flavour
            update_image picks, its acquire becomes a sequence of single non-blocking attempts)."""
            class SchedLock(orig):
                def acquire(self, timeout=None, poll_interval=None, *, poll_intervall=None, blocking=None,
                            cancel_check=None):
                    # a bounded wait may expire: any amount of time may pass while another
                    # updater holds the lock (a stalled process, a hung file server)
                    eff = self.timeout if timeout is None else timeout
                    nonblocking = blocking is False
                    finite = nonblocking or (eff is not None and eff >= 0)
                    while True:
                        lf = self.lock_file
                        sched.custom_sync("TryAcq", stutter=lambda: os.path.exists(lf))
                        try:
                            r = orig.acquire(self, blocking=False)
                            attempts.append((sched.me().name, True))
                            return r
                        except filelock.Timeout:
                            attempts.append((sched.me().name, False))
                            if finite and (nonblocking or rng.random() < 0.4):
                                vclock[0] += max(eff or 0, 0) * (1.0 + 2.0 * rng.random()) + rng.choice((0.0, 0.0, 3600.0))
                                timeouts_raised.append(sched.me().name)
                                raise

                def release(self, force=False):
                    # __del__ calls release() again on an already released lock: no sync point then
                    if self.is_locked and sched.me() is not sched.main and not sched.aborted:
                        sched.custom_sync("Release")
                        r = orig.release(self, force)
                        # one more sync point after the release, so that whatever the code does
                        # next (nothing, in update_image) can interleave with the next holder;
                        # "Leave" steps are not part of the model and are dropped from the trace
                        sched.custom_sync("Leave")
                        return r
                    return orig.release(self, force)
            SchedLock.__name__ = "Sched" + orig.__name__
            return SchedLock

        wrapped = {}
        for nm, cls in orig_locks.items():
            if cls not in wrapped:
                wrapped[cls] = sched_lock_class(cls)
            setattr(filelock, nm, wrapped[cls])

        def read_image(self, p, *a, **kw):
            if sched.me() is not sched.main:
                sched.custom_sync("Read")
            return orig_read(self, p, *a, **kw)

        def write_image(self, p, image, *a, **kw):
            if sched.me() is not sched.main:
                sched.custom_sync("WBegin")
                path = self.tile_path(p, format=kw.get("format") or self._default_format)
                # a new inode, as astropy/numpy do (the old one may still be memory-mapped)
                with contextlib.suppress(FileNotFoundError):
                    os.remove(path)
                with open(path, "wb") as f:
                    f.write(b"PARTIAL")
                sched.custom_sync("WEnd")
            return orig_write(self, p, image, *a, **kw)

        PyramidIO.read_image = read_image
        PyramidIO.write_image = write_image

        def updater(u):
            y0, x0, h, w = rects[u]
            if colour:
                src = np.full((h, w, 3 if u % 2 == 0 else 4), 100 + u, dtype=np.uint8)
                if u % 2:
                    src[..., 3] = 255
            else:
                src = np.full((h, w), 100.0 + u, dtype=dtype)
            img = Image.from_array(src)
            kw = dict(masked_mode=img.mode, default="masked")
            if mixed_format_arg and u % 2 == 0:
                kw["format"] = fmt
            try:
                with pio.update_image(pos, **kw) as basis:
                    img.update_into_maskable_buffer(basis, slice(0, h), slice(0, w), slice(y0, y0 + h), slice(x0, x0 + w))
            except detsched.SchedAbort:
                raise
            except Exception as e:  # e.g. a partial file was read
                errors.append((u, repr(e)))
                raise

        procs = [detsched.FakeProcess(sched, updater, (u,)) for u in range(k)]
        for p in procs:
            p.start()
        for p in procs:
            p.join()

    mode = rng.choice(("uniform", "uniform", "contend"))
    length = rng.choice((30, 80, 200))

    def chooser(enabled, stutter, kk):
        if kk >= length:
            return None
        if mode == "contend":
            pref = [i for i, e in enumerate(enabled) if e[0] == "TryAcq"]
            if pref and rng.random() < 0.6:
                return rng.choice(pref)
        return rng.randrange(len(enabled))

    sink = io.StringIO()
    try:
        if orig_time_mod is not None:
            _tp.time = _VTime()
        with contextlib.redirect_stdout(sink), contextlib.redirect_stderr(sink):
            outcome, val, S = detsched.run_under((), run, chooser=chooser, pass_sched=True)
    finally:
        if orig_time_mod is not None:
            _tp.time = orig_time_mod
        for nm, cls in orig_locks.items():
            setattr(filelock, nm, cls)
        PyramidIO.read_image = orig_read
        PyramidIO.write_image = orig_write
    # drop the main actor's Join steps from the trace (not part of the lock protocol)
    trace = [(tuple(n for n in en if n[0] in KINDS), ch) for en, ch in S.trace if ch[0] in KINDS]
    order = [int(w[1:]) for w, ok in attempts if ok]
    # final pixels
    final = orig_read(pio, pos, default="none", format=fmt)
    final_arr = None if final is None else np.array(final.asarray(), dtype=np.float64)
    if colour and final_arr is not None:
        a = final_arr
        final_arr = np.where(a[..., 3] > 0, a[..., 0], np.nan) if a.ndim == 3 and a.shape[2] == 4 else a[..., 0]
    expect = np.array(init, dtype=np.float64)
    for u in order:
        y0, x0, h, w = rects[u]
        expect[y0:y0 + h, x0:x0 + w] = 100.0 + u
    if final_arr is None:
        pix_ok = bool(np.all(np.isnan(expect)))
    else:
        pix_ok = bool(np.array_equal(np.isnan(expect), np.isnan(final_arr)) and
                      np.array_equal(np.nan_to_num(expect), np.nan_to_num(final_arr)))
    # every contribution present (disjoint case: independent of order)
    contrib_ok = True
    if final_arr is not None and not overlap:
        for u in range(k):
            y0, x0, h, w = rects[u]
            contrib_ok = contrib_ok and bool(np.all(final_arr[y0:y0 + h, x0:x0 + w] == 100.0 + u))
    elif final_arr is None:
        contrib_ok = False
    locks_left = [f for _d, _s, fl in os.walk(base) for f in fl if f.endswith(".lock")]
    return dict(k=k, fmt=fmt + ("/rgb+rgba" if colour else ""), present=present, overlap=overlap, mixed=mixed_format_arg, prelude=prelude, outcome=outcome,
                trace=trace, order=order, errors=errors, pix_ok=pix_ok, contrib_ok=contrib_ok,
                bounded_waits_expired=len(timeouts_raised), locks_left=locks_left, exits=[S.actors[f"W{u}"].exitcode for u in range(k)], mode=mode, rects=rects)


def g_case(r):
    tr = g_list(["(%s, %s)" % (g_list([g_step(n) for n in en]), g_step(ch)) for en, ch in r["trace"]])
    done = r["outcome"] == "returned" and all(e == 0 for e in r["exits"])
    return "(mkLC %d %s %s %s %s %s)" % (r["k"], g_bool(r["present"]), tr, g_list([str(u) for u in r["order"]]),
                                        g_bool(done), g_bool(not r["locks_left"]))


def property_fails(r):
    why = []
    if r["outcome"] != "returned" or any(e != 0 for e in r["exits"]):
        why.append(f"updaters did not all complete: {r['outcome']} exits={r['exits']} errors={r['errors'][:2]}")
    if r["errors"]:
        why.append(f"an updater failed (e.g. read a partially written tile): {r['errors'][:2]}")
    if not r["pix_ok"]:
        why.append("final tile != updates applied one after another in acquisition order")
    if not r["contrib_ok"]:
        why.append("a contribution is missing from the final tile")
    if sorted(r["order"]) != list(range(r["k"])):
        why.append(f"acquisitions {r['order']} are not one per updater")
    return why


def real_fork_stress(V, n_proc, n_upd):
    """Real processes hammering one tile; judged by the predicate."""
    import multiprocessing as mp
    from toasty.pyramid import PyramidIO, Pos
    from toasty.image import Image
    base = common.workdir() / "c10_fork"
    pio = PyramidIO(str(base), default_format="npy")
    pos = Pos(1, 0, 1)

    def work(u):
        for j in range(n_upd):
            src = np.full((1, 1), 1.0 + u * n_upd + j, dtype=np.float32)
            img = Image.from_array(src)
            with pio.update_image(pos, masked_mode=img.mode, default="masked") as basis:
                img.update_into_maskable_buffer(basis, slice(0, 1), slice(0, 1), slice(u, u + 1), slice(j, j + 1))

    ps = [mp.Process(target=work, args=(u,)) for u in range(n_proc)]
    for p in ps:
        p.start()
    for p in ps:
        p.join()
    arr = pio.read_image(pos).asarray()
    want = np.array([[1.0 + u * n_upd + j for j in range(n_upd)] for u in range(n_proc)], dtype=np.float32)
    ok = bool(np.array_equal(arr[:n_proc, :n_upd], want)) and all(p.exitcode == 0 for p in ps)
    if not ok:
        V.disagreement("C10 predicate on real processes", dict(n_proc=n_proc, n_upd=n_upd),
                       "every one-pixel contribution present", "missing contributions or failed process", True)
    return n_proc * n_upd


def multi_tan_case(rng):
    """The multi-TAN tiler's own workers as the updaters: several tiny inputs that land in ONE tile, tiled with
    MultiTanProcessor.tile(parallel > 1) under the scheduler.  Judged by the statement itself: at no moment two
    holders of the tile's lock, and every input's pixels in the final tile (no model replay: a worker handles
    several inputs, so actors are not updaters)."""
    import filelock
    from toasty.pyramid import PyramidIO
    from toasty.image import Image
    from toasty.multi_tan import MultiTanProcessor
    from toasty.study import StudyTiling
    n_img = rng.choice((3, 4, 5))
    par = rng.choice((2, 2, 3))
    fmt = rng.choice(("npy", "fits"))
    base = common.workdir() / f"c10mt_{rng.randrange(1 << 30)}"
    pio = PyramidIO(str(base), default_format=fmt)
    tiling = StudyTiling(2000, 2000)
    offs = [(8 + 12 * i, 5 + 9 * i) for i in range(n_img)]          # all inside tile (3, 0, 0), disjoint 4x4 patches

    class _Img:
        def __init__(self, v):
            self._img = Image.from_array(np.full((4, 4), v, dtype=np.float32))
            self.mode = self._img.mode
            self.height = 4

        def get_parity_sign(self):
            return pio.get_default_vertical_parity_sign()

        def update_into_maskable_buffer(self, *a):
            return self._img.update_into_maskable_buffer(*a)

    class _Coll:
        def images(self):
            for i in range(n_img):
                yield _Img(100.0 + i)

    class _Desc:
        def __init__(self, i):
            self.sub_tiling = tiling.compute_for_subimage(offs[i][0], offs[i][1], 4, 4)

    orig_locks = {nm: getattr(filelock, nm) for nm in ("SoftFileLock", "FileLock", "UnixFileLock")
                  if isinstance(getattr(filelock, nm, None), type)}
    orig_read, orig_write = PyramidIO.read_image, PyramidIO.write_image
    holders, overlaps, errors = [], [], []

    def run(sched):
        def sched_lock_class(orig):
            class SchedLock(orig):
                def acquire(self, timeout=None, poll_interval=None, *, poll_intervall=None, blocking=None, cancel_check=None):
                    while True:
                        lf = self.lock_file
                        sched.custom_sync("TryAcq", stutter=lambda: os.path.exists(lf))
                        try:
                            r = orig.acquire(self, blocking=False)
                        except filelock.Timeout:
                            continue
                        if holders:
                            overlaps.append((sched.me().name, list(holders)))
                        holders.append(sched.me().name)
                        return r

                def release(self, force=False):
                    if self.is_locked and sched.me() is not sched.main and not sched.aborted:
                        sched.custom_sync("Release")
                        if sched.me().name in holders:
                            holders.remove(sched.me().name)
                        r = orig.release(self, force)
                        sched.custom_sync("Leave")
                        return r
                    return orig.release(self, force)
            return SchedLock
        wrapped = {}
        for nm, cls in orig_locks.items():
            if cls not in wrapped:
                wrapped[cls] = sched_lock_class(cls)
            setattr(filelock, nm, wrapped[cls])

        def read_image(self, p, *a, **kw):
            if sched.me() is not sched.main:
                sched.custom_sync("Read")
            return orig_read(self, p, *a, **kw)

        def write_image(self, p, image, *a, **kw):
            if sched.me() is not sched.main:
                sched.custom_sync("WBegin")
            return orig_write(self, p, image, *a, **kw)
        PyramidIO.read_image = read_image
        PyramidIO.write_image = write_image
        proc = MultiTanProcessor(_Coll())
        proc._descs = [_Desc(i) for i in range(n_img)]
        proc._tiling = tiling
        proc._n_todo = n_img
        proc.tile(pio, parallel=par)

    length = rng.choice((40, 120, 300))

    def chooser(enabled, stutter, kk):
        if kk >= length:
            return None
        return rng.randrange(len(enabled))
    sink = io.StringIO()
    try:
        with contextlib.redirect_stdout(sink), contextlib.redirect_stderr(sink):
            outcome, val, S = detsched.run_under((), run, chooser=chooser, pass_sched=True)
    finally:
        for nm, cls in orig_locks.items():
            setattr(filelock, nm, cls)
        PyramidIO.read_image, PyramidIO.write_image = orig_read, orig_write
    why = []
    if outcome != "returned":
        why.append(f"tile() did not return: {outcome} {val!r}")
    crashed = [a.name for a in S.actors.values() if a is not S.main and a.exitcode not in (0, None)]
    if crashed:
        why.append(f"worker(s) {crashed} died")
    if overlaps:
        why.append(f"{overlaps[0][0]} acquired the tile's lock while {overlaps[0][1]} held it")
    from toasty.pyramid import Pos
    desc0 = _Desc(0)
    pos = next(iter(desc0.sub_tiling.generate_populated_positions()))[0]
    final = orig_read(pio, pos, default="none", format=fmt)
    vals = set() if final is None else set(float(v) for v in np.unique(final.asarray()[np.isfinite(final.asarray())]))
    missing = [i for i in range(n_img) if 100.0 + i not in vals]
    if missing:
        why.append(f"the pixels of input(s) {missing} are missing from the final tile {tuple(pos)}")
    shutil.rmtree(base, ignore_errors=True)
    return dict(n_img=n_img, par=par, fmt=fmt, why=why, chosen=[list(ch) for _e, ch in S.trace][:400], steps=len(S.trace))


def run(ctx, V):
    rng = common.rng_for(ctx["seed"], "C10")
    quick = ctx["tier"] == "quick"
    n = 120 if quick else 1200
    res = []
    for _ in range(n):
        srng = common.rng_for(rng.randrange(1 << 30), "C10case")
        res.append(one_case(srng, quick))
    terms = [g_case(r) for r in res]
    bad = common.coq_eval_sharded(COQ_DEFS, terms, "chk", ["Model.Lock"], shard=30, jobs=12, name="c10")
    hist, nontrivial = {}, set()
    for i, r in enumerate(res):
        why = property_fails(r)
        key = f"k{r['k']}/{r['fmt']}/present{int(r['present'])}/overlap{int(r['overlap'])}/prelude{int(r['prelude'])}/{r['mode']}"
        hist[key] = hist.get(key, 0) + 1
        n_failed = sum(1 for en, ch in r["trace"] if ch[0] == "TryAcq") - r["k"]
        if n_failed > 0:
            nontrivial.add(tuple(ch for _e, ch in r["trace"]))
        if i in bad or why:
            code = bad.get(i, 0)
            rel = "Lock.v ~ PyramidIO.update_image: " + (
                f"trace step {code - 1000} (enabled set / chosen action)" if code >= 1000 else
                {0: "agrees; C10 predicate fails", 1: "acquisition order", 2: "all updaters done", 3: "lock released / lock files left",
                 4: "final tile = updates in acquisition order"}[code])
            V.disagreement(rel, dict(k=r["k"], fmt=r["fmt"], present=r["present"], rects=r["rects"],
                                     chosen=[list(ch) for _e, ch in r["trace"]]),
                           "model replay; theorem lock_linearizable", dict(order=r["order"], why=why, locks=r["locks_left"]),
                           bool(why))
    # the multi-TAN tiler's workers as updaters of one shared tile
    n_mt = 0
    for _ in range(40 if quick else 400):
        srng = common.rng_for(rng.randrange(1 << 30), "C10mt")
        r = multi_tan_case(srng)
        n_mt += 1
        hist[f"multi_tan/img{r['n_img']}/par{r['par']}/{r['fmt']}"] = hist.get(f"multi_tan/img{r['n_img']}/par{r['par']}/{r['fmt']}", 0) + 1
        if r["why"]:
            V.disagreement("C10 predicate under the scheduler: MultiTanProcessor.tile(parallel) with inputs sharing one tile",
                           dict(n_img=r["n_img"], par=r["par"], fmt=r["fmt"], chosen=r["chosen"][:120]),
                           "one holder at a time; every input's pixels in the final tile", dict(why=r["why"]), True)
            break
    n_fork = real_fork_stress(V, 4 if quick else 8, 12 if quick else 50)
    samples = [dict(k=r["k"], fmt=r["fmt"], present=r["present"], order=r["order"], steps=len(r["trace"]),
                    first=[list(ch) for _e, ch in r["trace"][:8]]) for r in res[:3]]
    return dict(evaluations=len(res) + 1 + n_mt, multi_tan_worker_cases=n_mt, distinct_nontrivial=len(nontrivial), traces_validated_against_impl=len(terms),
                real_fork_updates=n_fork,
                rule="k in {2,3,4} real update_image bodies on one tile (npy/fits, tile present or absent, disjoint or "
                     "overlapping rectangles, mixed format= arguments), schedules uniform or biased towards contending "
                     "acquisition attempts; non-trivial = distinct action sequences with at least one failed acquisition",
                input_histogram=hist, samples=samples)
