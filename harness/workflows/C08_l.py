import os, sys; sys.path.insert(0, os.getcwd())

# Demo 1: tile an RGB image as a study into a pyramid that uses the flat
# "LXY" file-naming scheme (the one the `toasty.pipeline` machinery uses), then
# read the deepest-level tiles back *the way a WWT client would*: through the
# URL template and TileLevels that the Builder put into index_rel.wtml.
# Reassembling them must reproduce the image, centred in the power-of-2 square,
# with everything else transparent.
#
# Exit 0 = property holds; exit 1 = property violated (details printed).

import shutil
import tempfile
from xml.etree import ElementTree as etree

import numpy as np
from PIL import Image as PILImage

import toasty
from toasty.builder import Builder
from toasty.image import Image
from toasty.pyramid import PyramidIO

print("testing toasty from:", os.path.dirname(toasty.__file__))


def next_p2(n):
    p = 256
    while p < n:
        p *= 2
    return p


def check(scheme, width, height, work):
    rng = np.random.default_rng(width * 10007 + height)
    arr = rng.integers(1, 255, size=(height, width, 3), dtype=np.uint8)
    outdir = os.path.join(work, "%s_%dx%d" % (scheme.replace("/", ""), width, height))

    pio = PyramidIO(outdir, scheme=scheme, default_format="png")
    builder = Builder(pio)
    builder.tile_base_as_study(Image.from_array(arr))
    builder.make_placeholder_thumbnail()
    builder.write_index_rel_wtml()

    # What the outside world sees: the WTML.
    with open(os.path.join(outdir, "index_rel.wtml"), "rt", encoding="utf8") as f:
        root = etree.fromstring(f.read())
    imgset = next(root.iter("ImageSet"))
    url = imgset.attrib["Url"]
    levels = int(imgset.attrib["TileLevels"])

    p2n = next_p2(max(width, height))
    assert 256 * 2**levels == p2n, (levels, p2n)

    expected = np.zeros((p2n, p2n, 4), dtype=np.uint8)
    gx0 = (p2n - width) // 2
    gy0 = (p2n - height) // 2
    expected[gy0 : gy0 + height, gx0 : gx0 + width, :3] = arr
    expected[gy0 : gy0 + height, gx0 : gx0 + width, 3] = 255

    observed = np.zeros((p2n, p2n, 4), dtype=np.uint8)
    n_files = 0

    for ty in range(2**levels):
        for tx in range(2**levels):
            # WWT URL template: {1} = level, {2} = X, {3} = Y
            rel = (
                url.replace("{1}", str(levels))
                .replace("{2}", str(tx))
                .replace("{3}", str(ty))
            )
            p = os.path.join(outdir, rel)
            if not os.path.exists(p):
                continue
            n_files += 1
            tile = np.asarray(PILImage.open(p).convert("RGBA"))
            assert tile.shape == (256, 256, 4), tile.shape
            observed[ty * 256 : (ty + 1) * 256, tx * 256 : (tx + 1) * 256] = tile

    problems = []

    # transparent pixels: only alpha matters
    exp_alpha = expected[..., 3]
    obs_alpha = observed[..., 3]
    if not np.array_equal(exp_alpha, obs_alpha):
        nbad = int((exp_alpha != obs_alpha).sum())
        problems.append("coverage (alpha) differs at %d pixels" % nbad)

    both = (exp_alpha == 255) & (obs_alpha == 255)
    if not np.array_equal(expected[both], observed[both]):
        nbad = int((expected[both] != observed[both]).any(axis=-1).sum())
        problems.append("colour differs at %d image pixels" % nbad)

    from toasty.study import StudyTiling

    n_expected = StudyTiling(width, height).count_populated_positions()
    if n_files != n_expected:
        problems.append(
            "found %d tile files via the URL template, expected %d"
            % (n_files, n_expected)
        )

    tag = "scheme=%s %dx%d url=%s levels=%d" % (scheme, width, height, url, levels)
    if problems:
        print("FAIL", tag)
        for p in problems:
            print("     ", p)
        return False

    print("ok  ", tag)
    return True


def main():
    work = tempfile.mkdtemp(prefix="c08demo1_")
    ok = True
    try:
        for scheme in ("L/Y/YX", "LXY"):
            for width, height in ((200, 100), (300, 300), (600, 300), (257, 700)):
                ok &= check(scheme, width, height, work)
    finally:
        shutil.rmtree(work, ignore_errors=True)

    if not ok:
        print(
            "PROPERTY VIOLATED: tiles read back through the WTML URL template do "
            "not reassemble into the input image"
        )
        sys.exit(1)

    print("all good")
    sys.exit(0)


if __name__ == "__main__":
    main()
